(* Chain/Restart.v — executable model of what core.NewBlockChain does with a
   database left behind by a crash (C39), on top of the C38 models Chain/Tree.v and
   Chain/Canonical.v (block tree, [db] = stored blocks + canonical index + head
   markers + state availability, insertChain / reorg / writeHeadBlock).

   Persistent state [pst] = the chain key-value store ([db]: [known] = header+body
   readable from the KV store OR the ancient store, [canon], the three head markers;
   [avail] = in-memory state availability of the running process, [disk] = what the
   next process will find) + [frozen], the number of items of the chain freezer.

   WHAT IS DATA: which block states survive the crash (the set [dur]) is decided by
   the commit policy of the trie database (hash scheme: Commit/Cap/Stop's HEAD,
   HEAD-1, HEAD-127; path scheme: the disk layer, plus the journal after a clean
   Stop) and by the storage engines (C20/C24); it is an input of [crash].  So is the
   persisted snapshot root ([c_snaproot], hash scheme with snapshots).
   WHAT IS MODELLED: the import history up to the crash, the crash cut inside an
   import, the freezer boundary and its pruning of side chains, loadLastState, the
   repair (setHeadBeyondRoot(head, 0, root, repair=true) with rewindHashHead /
   rewindPathHead, the forced hc.SetHead below the freezer boundary, the ancient
   store truncation), and the re-import.

   Failure is never totalised: fuel exhaustion, a head marker whose block is gone
   (bc.Reset), the nil dereference of rewindHashHead, and the start-up paths that
   are not transcribed (InitDatabaseFromFreezer, SetHead from the ancient check) are
   explicit error classes.  Definitions only; proofs are in Chain/RestartProofs.v. *)
From Coq Require Import List NArith Bool.
From GV Require Import Chain.Tree Chain.Canonical.
Import ListNotations.
Local Open Scope N_scope.

Record pst := mkp { kv : db; frozen : N }.

Inductive rerr :=
| RFuel          (* model artefact *)
| RReset         (* loadLastState: head block / header missing -> bc.Reset() (not modelled) *)
| RNilDeref      (* rewindHashHead: "head = bc.GetHeader(parent)" without nil check, dereferenced next round *)
| RUnsupported   (* InitDatabaseFromFreezer / SetHead from the ancient-store check: not transcribed *)
| ROpenGap.      (* rawdb.Open: gap between the ancient store and the key-value store *)

Inductive rres (A : Type) := ROk (a : A) | RErr (e : rerr).
Arguments ROk {A}. Arguments RErr {A}.

(* [c_snaproot]: None = no root the rewind has to pass (snapshots off, or path scheme);
   Some r = the persisted snapshot root is the state root of block r (a block id that
   is not in the tree if it is the root of no block) *)
Record cfg := mkcfg { c_path : bool; c_snaproot : option N; c_legacy_reorg : bool }.

Definition with_states (st : db) (a d : N -> bool) : db :=
  mkdb (known st) (rcpt st) a d (canon st) (lookup st) (hd_block st) (hd_header st) (hd_snap st).
Definition with_heads (st : db) (b h s : N) : db :=
  mkdb (known st) (rcpt st) (avail st) (disk st) (canon st) (lookup st) b h s.

(* A crash (stopWithoutSaving, or the process dying): the in-memory tries are gone;
   [dur] = the states that can be opened on the database image.  After a clean Stop the
   same function applies with the [dur] that Stop's flush produced. *)
Definition crash (p : pst) (dur : N -> bool) : pst := mkp (with_states (kv p) dur dur) (frozen p).

Section Model.
Variable T : tree.

(* ------------------------------------------------------------------ the freezer *)

(* chain_freezer.go freeze(): "Wipe out side chains also and track dangling side chains":
   after the canonical blocks first..frozen'-1 went to the ancient store, every other
   block at those heights is deleted from the key-value store ... *)
Definition side_below (st : db) (lo hi : N) (h : N) : bool :=
  match T h with
  | Some b => (lo <=? b_number b) && (b_number b <? hi) && negb (b_number b =? 0) && negb (oeqb (canon st (b_number b)) h)
  | None => false
  end.

(* ... "Step into the future and delete any dangling side chains": children (at height
   tip) of the side blocks just dropped, then their children, ... *)
Definition dchild (tip : N) (drop : list N) (h : N) : bool :=
  match T h with
  | Some b => (b_number b =? tip) && mem (b_parent b) drop
  | None => false
  end.

Fixpoint dangle (fuel : nat) (kn drop : list N) (tip : N) : option (list N) :=
  match fuel with
  | O => None
  | S f =>
    match drop with
    | [] => Some kn
    | _ => dangle f (filter (fun h => negb (dchild tip drop h)) kn) (filter (dchild tip drop) kn) (tip + 1)
    end
  end.

(* chain_freezer.go:149 one freeze cycle with threshold = the finalized number [f]
   (head far below FullImmutabilityThreshold): blocks frozen..f go to the ancient store
   (they stay readable: [known] and [canon] keep them), side blocks are pruned.
   [None] = nothing happens (threshold not available / already frozen / a canonical
   hash is missing: "can't freeze block"). *)
Definition freeze (fuel : nat) (p : pst) (f : N) : rres pst :=
  let st := kv p in
  if (f =? 0) || (f + 1 <=? frozen p) then ROk p
  else if negb (forallb (fun k => match canon st (frozen p + N.of_nat k) with Some h => is_known st h | None => false end)
                        (seq 0 (N.to_nat (f + 1 - frozen p)))) then ROk p
  else
    let lo := frozen p in
    let hi := f + 1 in
    let gone := filter (side_below st lo hi) (known st) in
    let kn1 := filter (fun h => negb (side_below st lo hi h)) (known st) in
    let drop := filter (fun h => match T h with Some b => b_number b =? f | None => false end) gone in
    match dangle fuel kn1 drop hi with
    | None => RErr RFuel
    | Some kn2 =>
      ROk (mkp (mkdb kn2 (fun h => rcpt st h && mem h kn2) (avail st) (disk st) (canon st) (lookup st)
                    (hd_block st) (hd_header st) (hd_snap st)) hi)
    end.

(* ------------------------------------------------------------------ the history before the crash *)

Inductive sop :=
| SImport (l : list N)     (* bc.InsertChain(blocks) *)
| SCommit (h : N)          (* triedb.Commit(root) [+ snaps.Cap]: what becomes durable is data; path scheme:
                              layerTree.cap(root, 0) "resets the layer tree with the single new disk layer" *)
| SFreeze (f : N).         (* bc.SetFinalized(GetHeaderByNumber(f)); db.Freeze() *)

Definition sstep (path : bool) (fuel : nat) (p : pst) (o : sop) : rres pst * option err :=
  match o with
  | SImport l => let '(st, _, e) := step T fuel (kv p) (OInsert l) in (ROk (mkp st (frozen p)), e)
  | SCommit h =>
    match T h with
    | None => (ROk p, Some EUnknownBlock)
    | Some _ =>
      if path && is_known (kv p) h && avail (kv p) h
      then (ROk (mkp (with_states (kv p) (fun x => x =? h) (disk (kv p))) (frozen p)), None)
      else (ROk p, None)
    end
  | SFreeze f => match canon (kv p) f with
                 | None => (ROk p, Some EUnknownBlock)
                 | Some _ => (freeze fuel p f, None)
                 end
  end.

(* the crash point inside the last operation *)
Inductive cut :=
| CutAfter                 (* after the operation returned *)
| CutBlock (x : N)         (* right after writeBlockWithState's block-data batch of block x *)
| CutHead (x : N).         (* right before writeHeadBlock's batch of block x (after reorg's batches) *)

Fixpoint split_at (x : N) (l : list N) : option (list N) :=
  match l with
  | [] => None
  | y :: r => if y =? x then Some [] else match split_at x r with Some p => Some (y :: p) | None => None end
  end.

(* reorg's [number]: the height above which it deletes the canonical markers
   (blockchain.go:2754 "number := commonBlock.Number; if len(newChain) > 1 { number = newChain[1].Number }"),
   recomputed with the same walks as Canonical.reorg *)
Definition reorg_number (fuel : nat) (st : db) (old new : hdr) : option N :=
  match (if hnum new <? hnum old
         then match reduce T fuel st (Some old) (hnum new) [] with
              | None => None
              | Some (o, oc) => Some (o, Some new, oc, [])
              end
         else match reduce T fuel st (Some new) (hnum old) [] with
              | None => None
              | Some (n, nc) => Some (Some old, n, [], nc)
              end) with
  | Some (Some o1, Some n1, oc0, nc0) =>
    match find_common T fuel st o1 n1 oc0 nc0 with
    | Ok (c, _, nc) => Some (match nc with _ :: x1 :: _ => hnum x1 | _ => hnum c end)
    | Err _ => None
    end
  | _ => None
  end.

(* The database between reorg's last batch and the caller's writeHeadBlock.
   [legacy = true]: reorg only deletes the canonical markers above [number]; the head
   markers still name the old head (C39 finding).  [legacy = false] (the repaired code):
   when a marker was dropped, the same batch pulls the three head markers down to the
   canonical block at [number]. *)
Definition before_head_write (legacy : bool) (fuel : nat) (st : db) (x : hdr) : option db :=
  if b_parent (snd x) =? hd_block st then Some st
  else match cur_hdr T st with
       | None => None
       | Some cur =>
         match reorg T fuel st cur x, reorg_number fuel st cur x with
         | Ok (st', _), Some number =>
           if legacy then Some st'
           else match canon st (number + 1), canon st' number with
                | Some _, Some top => Some (with_heads st' top top top)
                | _, _ => Some st'
                end
         | _, _ => None
         end
       end.

(* InsertChain(l) interrupted inside block x: the blocks before x are imported, x is
   executed (only a block that insertChain would execute, class CFresh, is a cut point),
   its data batch is written [CutBlock], its state is committed to the trie database
   (in memory; durable or not = data), reorg runs [CutHead].  [None] = the point is
   never reached. *)
Definition import_cut (legacy : bool) (fuel : nat) (st : db) (l : list N) (x : N) (at_head : bool) : option db :=
  match resolve_all T l, split_at x l, T x with
  | Some hs, Some pre, Some b =>
    if negb (contiguous hs) then None
    else
      let '(st1, _, e1) := match pre with [] => (st, [], None) | _ => step T fuel st (OInsert pre) end in
      match e1 with
      | Some _ => None
      | None =>
        match classify st1 (match pre with [] => true | _ => false end) (x, b) with
        | CFresh =>
          match write_block_with_state st1 (x, b) with
          | Err _ => None
          | Ok st2 => if at_head then before_head_write legacy fuel st2 (x, b) else Some st2
          end
        | _ => None
        end
      end
  | _, _, _ => None
  end.

(* the history: all operations but the last in full, the last one up to the cut *)
Fixpoint run_ops (path : bool) (fuel : nat) (p : pst) (ops : list sop) : rres pst * list (option err) :=
  match ops with
  | [] => (ROk p, [])
  | o :: r => match sstep path fuel p o with
              | (ROk p1, e) => let '(res, es) := run_ops path fuel p1 r in (res, e :: es)
              | (RErr x, e) => (RErr x, [e])
              end
  end.

Definition cut_last (path legacy : bool) (fuel : nat) (p : pst) (o : sop) (c : cut) : rres pst * option err :=
  let whole := sstep path fuel p o in
  match o, c with
  | SImport l, CutBlock x =>
    match import_cut legacy fuel (kv p) l x false with
    | Some st => (ROk (mkp st (frozen p)), None)
    | None => whole
    end
  | SImport l, CutHead x =>
    match import_cut legacy fuel (kv p) l x true with
    | Some st => (ROk (mkp st (frozen p)), None)
    | None => whole
    end
  | _, _ => whole
  end.

Definition run_to_cut (cf : cfg) (fuel : nat) (p : pst) (ops : list sop) (c : cut) : rres pst * list (option err) :=
  match rev ops with
  | [] => (ROk p, [])
  | last :: rinit =>
    match run_ops (c_path cf) fuel p (rev rinit) with
    | (ROk p1, es) => let '(res, e) := cut_last (c_path cf) (c_legacy_reorg cf) fuel p1 last c in (res, es ++ [e])
    | (RErr x, es) => (RErr x, es)
    end
  end.

(* ------------------------------------------------------------------ start-up *)

(* rawdb.Open (database.go:264..304): with a non-empty ancient store the key-value
   store must continue where it ends (canonical hash at [frozen] present) unless the
   head header is not above it; with an empty one, block 1 must still be there. *)
Definition open_ok (p : pst) : bool :=
  let st := kv p in
  let hn := num_of T (hd_header st) in
  if 0 <? frozen p
  then match canon st (frozen p) with Some _ => true | None => hn <=? frozen p - 1 end
  else match canon st 1 with Some _ => true | None => hn =? 0 end.

(* blockchain.go:616 loadLastState: the in-memory markers; a marker whose block is
   gone falls back as the code does *)
Definition load_last_state (st : db) : rres db :=
  match get_by_hash T st (hd_block st) with
  | None => RErr RReset
  | Some _ =>
    let hh := if is_known st (hd_header st) then hd_header st else hd_block st in
    let hs := if is_known st (hd_snap st) then hd_snap st else hd_block st in
    ROk (with_heads st (hd_block st) hh hs)
  end.

(* blockchain.go:817 rewindHashHead(head, root) with a root to pass (no pivot, heights
   far below FullImmutabilityThreshold: limit = 0).  State roots are identified with
   blocks ("head.Root == root" is "head is block r"). *)
Fixpoint rewind_root (fuel : nat) (st : db) (g : hdr) (r : N) (beyond : bool) (x : hdr) : rres hdr :=
  match fuel with
  | O => RErr RFuel
  | S f =>
    let beyond := beyond || (fst x =? r) in
    if negb (avail st (fst x)) then
      match parent_hdr T st x with
      | None => ROk g                                 (* "Missing block in the middle, resetting to genesis" *)
      | Some p => if hnum p =? 0 then ROk p else rewind_root f st g r beyond p
      end
    else if beyond || (hnum x =? 0) then ROk x
    else match parent_hdr T st x with
         | None => RErr RNilDeref
         | Some p => rewind_root f st g r beyond p
         end
  end.

(* blockchain.go:973 rewindHead.  Without a root to pass, rewindHashHead and
   rewindPathHead (pivot = nil; StateRecoverable folded into [avail]: the walk starts at
   or above the disk layer, so it meets an available state first) are the same walk:
   Canonical.rewind. *)
Definition rewind_head (c : cfg) (fuel : nat) (st : db) (g : hdr) (x : hdr) : rres hdr :=
  match c_snaproot c with
  | None => match rewind T fuel st g x with Some y => ROk y | None => RErr RFuel end
  | Some r => rewind_root fuel st g r false x
  end.

(* headerchain.go:515 setHead(target) with updateFn = nil (the forced rewind of the
   header chain in repair mode): the head header steps to its parent until its number is
   <= target; [dels] = the heights whose headers / bodies / receipts / canonical hashes
   are deleted (first round: also everything above) *)
Fixpoint hc_set_head (fuel : nat) (st : db) (g : hdr) (target : N) (origin : bool) (dels : list N)
  : rres (db * list N) :=
  match fuel with
  | O => RErr RFuel
  | S f =>
    match T (hd_header st) with
    | None => RErr RReset
    | Some hb =>
      let num := b_number hb in
      if num <=? target then ROk (st, dels)
      else
        let parent := match parent_hdr T st (hd_header st, hb) with Some p => p | None => g end in
        let st1 := with_heads st (hd_block st) (fst parent) (hd_snap st) in
        match (if origin then heights_above T fuel st (num + 1) else Some []) with
        | None => RErr RFuel
        | Some up => hc_set_head f st1 g target false (dels ++ rev up ++ [num])
        end
    end
  end.

(* blockchain.go:992 setHeadBeyondRoot(head.Number, 0, root, repair = true):
   updateFn(db, CurrentBlock()) — rewind the head block, degrade the snap block,
   "wipe" if the new head is below the freezer boundary — then hc.SetHead(target, nil,
   delFn), the deletions, the ancient-store truncation and loadLastState. *)
Definition repair (c : cfg) (fuel : nat) (p : pst) (g : hdr) (head : hdr) : rres pst :=
  let st := kv p in
  match rewind_head c fuel st g head with
  | RErr e => RErr e
  | ROk nh =>
    let ns := if hnum head <? num_of T (hd_snap st)
              then (if is_known st (fst head) then fst head else fst g) else hd_snap st in
    let st1 := with_heads st (fst nh) (hd_header st) ns in
    if hnum nh + 1 <? frozen p then
      (* force: hc.SetHead(target.Number, nil, delFn) *)
      match hc_set_head fuel st1 g (hnum nh) true [] with
      | RErr e => RErr e
      | ROk (st2, dels) =>
        let st3 := delete_heights T st2 dels in
        let fr := if num_of T (hd_header st3) + 1 <? frozen p then num_of T (hd_header st3) + 1 else frozen p in
        match load_last_state st3 with
        | RErr e => RErr e
        | ROk st4 => ROk (mkp st4 fr)
        end
      end
    else match load_last_state st1 with
         | RErr e => RErr e
         | ROk st4 => ROk (mkp st4 (frozen p))
         end
  end.

(* blockchain.go:380 NewBlockChain on an existing database *)
Definition new_blockchain (c : cfg) (fuel : nat) (p : pst) : rres pst :=
  if negb (open_ok p) then RErr ROpenGap
  else
  match T 0 with
  | None => RErr RReset                                  (* ErrNoGenesis *)
  | Some gb =>
    let g : hdr := (0, gb) in
    let st := kv p in
    (* bc.empty() -> InitDatabaseFromFreezer: only with a non-empty ancient store *)
    if (hd_block st =? 0) && (hd_header st =? 0) && (hd_snap st =? 0) && (0 <? frozen p) then RErr RUnsupported
    else
    match load_last_state st with
    | RErr e => RErr e
    | ROk st1 =>
      match get_by_hash T st1 (hd_block st1) with
      | None => RErr RReset
      | Some head =>
        match (if avail st1 (fst head) || (hnum head =? 0) then ROk (mkp st1 (frozen p))
               else repair c fuel (mkp st1 (frozen p)) g head) with
        | RErr e => RErr e
        | ROk p2 =>
          (* "Ensure that a previous crash in SetHead doesn't leave extra ancients" *)
          let st2 := kv p2 in
          let fb := num_of T (hd_block st2) in
          let sb := num_of T (hd_snap st2) in
          if (0 <? frozen p2) &&
             ((negb (hd_block st2 =? 0) && (fb <? frozen p2 - 1)) || (sb <? frozen p2 - 1))
          then RErr RUnsupported                          (* bc.SetHead(low): not transcribed *)
          else ROk p2
        end
      end
    end
  end.

(* re-importing after the restart: plain InsertChain on the reopened chain *)
Definition reimport (fuel : nat) (p : pst) (l : list N) : pst * option err :=
  match l with
  | [] => (p, None)
  | _ => let '(st, _, e) := step T fuel (kv p) (OInsert l) in (mkp st (frozen p), e)
  end.

End Model.
