(* Chain/RestartReimport.v — C39 reimport_converges on the model: importing a contiguous
   segment that starts on the head block, when the head block is stored and has state,
   returns no error and ends with head block = head header = the last block of the
   segment, whose state is available — whatever is already stored of the segment (known
   blocks with or without state, stale canonical markers of the same or of another chain
   above the head, a head header above the head block).  Guards, all explicit: the tree is
   well formed, the segment resolves, is contiguous and starts on the head block; the head
   block is stored and has state (restart_head_has_state); the fuel exceeds every block
   number of the segment and every canonical height. *)
From Coq Require Import List NArith Bool Lia.
From GV Require Import Lib.Tactics Chain.Tree Chain.Canonical Chain.CanonicalProofs Chain.CanonicalInv Chain.CanonicalTop Chain.Restart Chain.RestartProofs.
Import ListNotations.
Local Open Scope N_scope.

Section RI.
Variable T : tree.
Hypothesis Hwf : wf_tree T.
Hypothesis Hgp : forall g, T 0 = Some g -> T (b_parent g) = None.
Variable fuel : nat.
Hypothesis Hfuel : (0 < fuel)%nat.

Notation hdr_ok := (hdr_ok T).

Fixpoint chain_from (prev : N) (l : list hdr) : Prop :=
  match l with
  | [] => True
  | x :: r => hdr_ok x /\ b_parent (snd x) = prev /\ hnum x < N.of_nat fuel /\ chain_from (fst x) r
  end.

Fixpoint end_of (prev : N) (l : list hdr) : N :=
  match l with [] => prev | x :: r => end_of (fst x) r end.

Lemma end_of_cons : forall prev x r, end_of prev (x :: r) = end_of (fst x) r.
Proof. reflexivity. Qed.

Lemma end_of_last : forall r prev x d, end_of prev (x :: r) = fst (last (x :: r) d).
Proof.
  induction r as [|y r IH]; intros prev x d; [reflexivity|].
  rewrite end_of_cons, (IH (fst x) y d). reflexivity.
Qed.

(* the running state: the head block is [prev], stored, with state; nothing is indexed at
   or above the fuel *)
Definition G (s : db) (prev : N) : Prop :=
  hd_block s = prev /\ avail s prev = true /\ is_known s prev = true /\
  (exists pb, T prev = Some pb) /\
  (forall n, N.of_nat fuel <= n -> canon s n = None).
Definition P (s : db) : Prop := hd_header s = hd_block s.

Lemma classify_cases : forall s prev first x, G s prev -> b_parent (snd x) = prev ->
  (classify s first x = CKnown /\ is_known s (fst x) = true /\ avail s (fst x) = true) \/
  classify s first x = CFresh.
Proof.
  intros s prev first x (Eb & Ha & Hk & _) Ep. unfold classify. rewrite Ep, Hk.
  rewrite andb_false_r. cbn [negb].
  destruct (is_known s (fst x) && avail s (fst x)) eqn:E.
  - left. apply andb_prop in E as [? ?]. auto.
  - right. now rewrite Ha.
Qed.

Lemma whb_G : forall s x s', write_head_block fuel s x = Some s' ->
  hnum x < N.of_nat fuel -> (exists b, T (fst x) = Some b) ->
  is_known s (fst x) = true -> avail s (fst x) = true ->
  (forall n, N.of_nat fuel <= n -> canon s n = None) ->
  G s' (fst x) /\ P s'.
Proof.
  intros s x s' H Hn Hb Hk Ha Hc.
  destruct (whb_spec _ _ _ _ H) as (_ & _ & _ & (Ek & _ & Eav & _) & E1 & E2 & _).
  split; [|unfold P; congruence].
  repeat split; auto.
  - now rewrite Eav.
  - unfold is_known in *. now rewrite Ek.
  - intros n Hle. eapply whb_none; eauto. lia.
Qed.

(* a block already stored with state on top of the head: writeKnownBlock *)
Lemma wkb_step : forall s prev x, G s prev -> hdr_ok x -> b_parent (snd x) = prev ->
  hnum x < N.of_nat fuel -> is_known s (fst x) = true -> avail s (fst x) = true ->
  exists s' ev, write_known_block T fuel s x = Ok (s', ev) /\ G s' (fst x) /\ P s'.
Proof.
  intros s prev x HG Hx Ep Hn Hk Ha. pose proof HG as (Eb & _ & _ & _ & Hc).
  unfold write_known_block, reorg_if_needed. rewrite Ep, <- Eb, N.eqb_refl.
  destruct (write_head_block fuel s x) as [s'|] eqn:EW.
  - eexists. eexists. split; [reflexivity|]. eapply whb_G; eauto; exists (snd x); exact Hx.
  - exfalso. revert EW. now apply whb_term.
Qed.

(* a block executed on top of the head: writeBlockAndSetHead *)
Lemma wbash_step : forall s prev x, G s prev -> hdr_ok x -> b_parent (snd x) = prev ->
  hnum x < N.of_nat fuel ->
  exists s' ev, write_block_and_set_head T fuel s x = Ok (s', ev) /\ G s' (fst x) /\ P s'.
Proof.
  intros s prev x HG Hx Ep Hn. pose proof HG as (Eb & _ & Hkp & _ & Hc).
  unfold write_block_and_set_head.
  destruct (write_block_with_state s x) as [s1|] eqn:EW1.
  2:{ exfalso. unfold write_block_with_state in EW1. rewrite Ep, Hkp in EW1. cbn in EW1. discriminate. }
  destruct (wbws_core _ _ _ EW1) as (Ec & _ & Ehb).
  destruct (wbws_known s x s1 (fst x) EW1) as (_ & Hkx).
  assert (Hax : avail s1 (fst x) = true).
  { unfold write_block_with_state in EW1.
    destruct (negb (is_known s (b_parent (snd x))) && negb (hnum x =? 0)); [discriminate|].
    inversion EW1; subst. cbn. apply upd_same. }
  unfold reorg_if_needed. rewrite Ep, Ehb, <- Eb, N.eqb_refl.
  destruct (write_head_block fuel s1 x) as [s'|] eqn:EW.
  - eexists. eexists. split; [reflexivity|].
    apply (whb_G s1 x s' EW Hn); auto; [exists (snd x); exact Hx|].
    intros n Hle. rewrite Ec. now apply Hc.
  - exfalso. revert EW. apply whb_term; auto. intros n Hle. rewrite Ec. now apply Hc.
Qed.

Lemma G_rcpt : forall s prev h, G s prev ->
  G (mkdb (known s) (upd (rcpt s) h true) (avail s) (disk s) (canon s) (lookup s) (hd_block s) (hd_header s) (hd_snap s)) prev.
Proof. intros s prev h HG. exact HG. Qed.

(* insertChain's main loop *)
Lemma import_loop_reaches : forall l s prev first last evs s' last' evs' e',
  G s prev -> chain_from prev l ->
  import_loop T fuel s true first l last evs = (s', last', evs', e') ->
  e' = None /\ G s' (end_of prev l) /\ (l <> [] -> P s') /\ (l = [] -> s' = s).
Proof.
  induction l as [|x r IH]; intros s prev first last evs s' last' evs' e' HG HC H.
  - cbn in H. inversion H; subst. split; [reflexivity|]. split; [exact HG|].
    split; [intros Hf; now contradiction Hf | reflexivity].
  - destruct HC as (Hx & Ep & Hn & HC'). cbn [import_loop] in H.
    rewrite end_of_cons.
    destruct (classify_cases s prev first x HG Ep) as [(Ecl & Hk & Ha)|Ecl]; rewrite Ecl in H.
    + match type of H with context [write_known_block T fuel ?s0 x] => set (st0 := s0) in * end.
      assert (HG0 : G st0 prev) by (unfold st0; destruct (b_txs (snd x)); [apply G_rcpt|]; exact HG).
      assert (Hk0 : is_known st0 (fst x) = true) by (unfold st0; destruct (b_txs (snd x)); exact Hk).
      assert (Ha0 : avail st0 (fst x) = true) by (unfold st0; destruct (b_txs (snd x)); exact Ha).
      destruct (wkb_step st0 prev x HG0 Hx Ep Hn Hk0 Ha0) as (s1 & ev0 & EW & HG1 & HP1). rewrite EW in H.
      destruct (IH _ _ _ _ _ _ _ _ _ HG1 HC' H) as (E1 & E2 & E3 & E4).
      split; [exact E1|]. split; [exact E2|]. split; [|discriminate].
      intros _. destruct r; [rewrite (E4 eq_refl); exact HP1 | apply E3; discriminate].
    + destruct (wbash_step s prev x HG Hx Ep Hn) as (s1 & ev & EW & HG1 & HP1). rewrite EW in H.
      destruct (IH _ _ _ _ _ _ _ _ _ HG1 HC' H) as (E1 & E2 & E3 & E4).
      split; [exact E1|]. split; [exact E2|]. split; [|discriminate].
      intros _. destruct r; [rewrite (E4 eq_refl); exact HP1 | apply E3; discriminate].
Qed.

(* insertChain's "writing previously known block" loop *)
Lemma write_knowns_reaches : forall l s prev first last evs s' l' f' last' evs' e',
  G s prev -> chain_from prev l ->
  write_knowns T fuel s first l last evs = (s', l', f', last', evs', e') ->
  e' = None /\ exists prev', G s' prev' /\ chain_from prev' l' /\ end_of prev' l' = end_of prev l /\
    ((s' = s /\ l' = l) \/ P s').
Proof.
  induction l as [|x r IH]; intros s prev first last evs s' l' f' last' evs' e' HG HC H.
  - cbn in H. inversion H; subst. split; [reflexivity|]. exists prev.
    split; [exact HG|]. split; [exact I|]. split; [reflexivity|]. left. split; reflexivity.
  - pose proof HC as (Hx & Ep & Hn & HC'). cbn [write_knowns] in H.
    destruct (classify_cases s prev first x HG Ep) as [(Ecl & Hk & Ha)|Ecl]; rewrite Ecl in H; cbn [is_CKnown] in H.
    + destruct (wkb_step s prev x HG Hx Ep Hn Hk Ha) as (s1 & ev0 & EW & HG1 & HP1). rewrite EW in H.
      destruct (IH _ _ _ _ _ _ _ _ _ _ _ HG1 HC' H) as (E1 & prev' & HG' & HC'' & Eend & Hor).
      split; [exact E1|]. exists prev'. split; [exact HG'|]. split; [exact HC''|].
      split; [rewrite end_of_cons; exact Eend|].
      right. destruct Hor as [[-> _]|HP]; auto.
    + inversion H; subst s' l' f' last' evs' e'. split; [reflexivity|]. exists prev.
      split; [exact HG|]. split; [exact HC|]. split; [reflexivity|]. left. split; reflexivity.
Qed.

Lemma parent_number : forall s prev x, G s prev -> hdr_ok x -> b_parent (snd x) = prev ->
  exists pb, cur_hdr T s = Some (prev, pb) /\ b_number pb + 1 = hnum x.
Proof.
  intros s prev x (Eb & _ & _ & (pb & Hpb) & _) Hx Ep. exists pb. unfold cur_hdr. rewrite Eb, Hpb. split; auto.
  destruct (wf_parent T Hwf x Hx) as [E0|(p & Hpo & _ & Hnum)].
  - exfalso. pose proof (wf_zero T Hwf x Hx E0) as Ef. destruct x as [h b]. cbn [fst snd] in *. subst h.
    unfold CanonicalProofs.hdr_ok in Hx. cbn in Hx. pose proof (Hgp _ Hx) as Hnone. rewrite Ep in Hnone. congruence.
  - unfold CanonicalProofs.hdr_ok in Hpo. cbn [fst snd] in Hpo. rewrite Ep, Hpb in Hpo. inversion Hpo; subst.
    unfold hnum in *. cbn [snd] in *. exact Hnum.
Qed.

(* insertChain on a segment that starts on the head block *)
Lemma insert_chain_reaches : forall pruned s prev l s' ev e,
  G s prev -> chain_from prev l -> l <> [] ->
  insert_chain_core T pruned fuel s true l = (s', ev, e) ->
  e = None /\ G s' (end_of prev l) /\ P s'.
Proof.
  intros pruned s prev l s' ev e HG HC Hne H. destruct l as [|x0 r]; [contradiction|].
  pose proof HC as (Hx0 & Ep0 & Hn0 & _).
  destruct (parent_number s prev x0 HG Hx0 Ep0) as (pb & Hcur & Hnum).
  unfold insert_chain_core in H. rewrite Hcur in H. cbv zeta in H.
  (* skip_known stops at once: the first block is above the head *)
  assert (Hskip : forall first, skip_known s (hnum (prev, pb)) first (x0 :: r) = (x0 :: r, first)).
  { intros first. cbn [skip_known]. destruct (is_CKnown (classify s first x0)); auto.
    assert (E : (hnum (prev, pb) <? hnum x0) = true) by (apply N.ltb_lt; unfold hnum in *; cbn [snd] in *; lia).
    rewrite E. reflexivity. }
  destruct (is_CKnown (classify s true x0)) eqn:EK.
  - rewrite Hskip in H.
    destruct (write_knowns T fuel s true (x0 :: r) None []) as [[[[[st2 l2] first2] last] evs] e2] eqn:EWK.
    destruct (write_knowns_reaches _ _ _ _ _ _ _ _ _ _ _ _ HG HC EWK) as (-> & prev' & HG2 & HC2 & Eend & Hor).
    destruct l2 as [|x l2'].
    + inversion H; subst s' ev e. split; [reflexivity|]. cbn [end_of] in Eend |- *. rewrite <- Eend. split; [exact HG2|].
      destruct Hor as [[_ Hl]|HP]; [discriminate|exact HP].
    + pose proof HC2 as (_ & Ep & _).
      destruct (classify_cases st2 prev' first2 x HG2 Ep) as [(Ecl & _)|Ecl]; rewrite Ecl in H.
      * destruct (import_loop T fuel st2 true first2 (x :: l2') last evs) as [[[st3 last3] ev3] e3] eqn:EIL.
        destruct (import_loop_reaches _ _ _ _ _ _ _ _ _ _ HG2 HC2 EIL) as (-> & HG3 & HP3 & _).
        inversion H; subst s' ev e. rewrite <- Eend. split; [reflexivity|]. split; [exact HG3|]. apply HP3. discriminate.
      * destruct (import_loop T fuel st2 true first2 (x :: l2') last evs) as [[[st3 last3] ev3] e3] eqn:EIL.
        destruct (import_loop_reaches _ _ _ _ _ _ _ _ _ _ HG2 HC2 EIL) as (-> & HG3 & HP3 & _).
        inversion H; subst s' ev e. rewrite <- Eend. split; [reflexivity|]. split; [exact HG3|]. apply HP3. discriminate.
  - destruct (classify_cases s prev true x0 HG Ep0) as [(Ecl & _)|Ecl]; [rewrite Ecl in EK; discriminate|].
    rewrite Ecl in H.
    destruct (import_loop T fuel s true true (x0 :: r) None []) as [[[st3 last3] ev3] e3] eqn:EIL.
    destruct (import_loop_reaches _ _ _ _ _ _ _ _ _ _ HG HC EIL) as (-> & HG3 & HP3 & _).
    inversion H; subst s' ev e. split; [reflexivity|]. split; [exact HG3|]. apply HP3. discriminate.
Qed.

Lemma contiguous_chain : forall l prev, Forall hdr_ok l -> contiguous l = true ->
  (forall z, In z l -> hnum z < N.of_nat fuel) ->
  match l with x :: _ => b_parent (snd x) = prev | [] => True end -> chain_from prev l.
Proof.
  induction l as [|x r IH]; intros prev Hok Hc Hn Hp; cbn; auto.
  inversion Hok; subst. repeat split; auto; [apply Hn; now left|].
  apply IH; auto; [|intros z Hz; apply Hn; now right|].
  - destruct r as [|y r']; auto. cbn [contiguous] in Hc. apply andb_prop in Hc as [_ ?]. auto.
  - destruct r as [|y r']; auto. cbn [contiguous] in Hc. apply andb_prop in Hc as [Hc _].
    apply andb_prop in Hc as [_ Hc]. now apply N.eqb_eq in Hc.
Qed.

End RI.

(* reimport_converges, as Properties/C39.v states it *)
Lemma reimport_reaches : forall T, wf_tree T -> (forall g, T 0 = Some g -> T (b_parent g) = None) ->
  forall (fuel : nat) (p : pst) (ids : list N) (hs : list hdr) (x0 : hdr) (r : list hdr) (p' : pst) (e : option err),
    (0 < fuel)%nat ->
    resolve_all T ids = Some hs -> contiguous hs = true -> hs = x0 :: r ->
    b_parent (snd x0) = hd_block (kv p) ->
    (exists pb, T (hd_block (kv p)) = Some pb) ->
    is_known (kv p) (hd_block (kv p)) = true ->
    avail (kv p) (hd_block (kv p)) = true ->
    (forall z, In z hs -> hnum z < N.of_nat fuel) ->
    (forall n, N.of_nat fuel <= n -> canon (kv p) n = None) ->
    reimport T fuel p ids = (p', e) ->
    let tip := fst (last hs x0) in
    e = None /\ hd_block (kv p') = tip /\ hd_header (kv p') = tip /\ avail (kv p') tip = true /\
    is_known (kv p') tip = true.
Proof.
  intros T Hwf Hgp fuel p ids hs x0 r p' e Hfuel HR Hcont Ehs Ep Hpb Hk Ha Hn Hc H tip.
  assert (HG : G T fuel (kv p) (hd_block (kv p))) by (repeat split; auto).
  assert (HC : chain_from T fuel (hd_block (kv p)) hs).
  { apply contiguous_chain; auto; [eapply resolve_all_ok; eauto|]. rewrite Ehs. exact Ep. }
  unfold reimport in H. destruct ids as [|i ids']; [cbn in HR; inversion HR; subst; discriminate|].
  destruct (step T fuel (kv p) (OInsert (i :: ids'))) as [[st ev] e1] eqn:ES.
  inversion H; subst p' e; clear H. cbn [step] in ES. rewrite HR, Hcont in ES.
  assert (Hne : hs <> []) by (rewrite Ehs; discriminate).
  destruct (insert_chain_reaches T Hwf Hgp fuel Hfuel _ _ _ _ _ _ _ HG HC Hne ES) as (-> & (Eb & Eav & Ekn & _) & HP).
  assert (Etip : end_of (hd_block (kv p)) hs = tip).
  { unfold tip. rewrite Ehs. apply end_of_last. }
  cbn [kv]. rewrite <- Etip. repeat split; auto. unfold P in HP. congruence.
Qed.

(* the restart head is a stored block of the tree: two of the guards come for free *)
Lemma lls_head : forall T st st', load_last_state T st = ROk st' ->
  is_known st' (hd_block st') = true /\ exists pb, T (hd_block st') = Some pb.
Proof.
  intros T st st' H. unfold load_last_state in H.
  destruct (get_by_hash T st (hd_block st)) as [x|] eqn:E; [|discriminate].
  inversion H; subst; clear H. cbn.
  unfold get_by_hash in E. destruct (T (hd_block st)) as [b|] eqn:ET; [|discriminate].
  destruct (is_known st (hd_block st)) eqn:EK; [|discriminate]. split; auto. now exists b.
Qed.

Lemma restart_head_stored : forall T c fuel p p', new_blockchain T c fuel p = ROk p' ->
  is_known (kv p') (hd_block (kv p')) = true /\ exists pb, T (hd_block (kv p')) = Some pb.
Proof.
  intros T c fuel p p' H.
  destruct (RestartProofs.nb_cases T _ _ _ _ H) as (gb & st1 & head & EG & EL & EH & _ & [[EA ->]|[EA ER]]).
  - cbn [kv]. eapply lls_head; eauto.
  - unfold repair in ER. cbn [kv frozen] in ER.
    destruct (rewind_head T c fuel st1 (0, gb) head) as [nh|]; [|discriminate]. cbv zeta in ER.
    destruct (hnum nh + 1 <? frozen p).
    + match type of ER with context [hc_set_head T fuel ?s ?g ?t true []] =>
        destruct (hc_set_head T fuel s g t true []) as [[st3 dels]|]; [|discriminate] end.
      destruct (load_last_state T (delete_heights T st3 dels)) as [st4|] eqn:EL2; [|discriminate].
      inversion ER; subst. cbn [kv]. eapply lls_head; eauto.
    + match type of ER with context [load_last_state T ?s] =>
        destruct (load_last_state T s) as [st4|] eqn:EL2; [|discriminate] end.
      inversion ER; subst. cbn [kv]. eapply lls_head; eauto.
Qed.

(* reimport_converges after a restart: NewBlockChain came up on [p'] with a head that has
   state; importing a contiguous segment that starts on that head reaches its tip *)
Lemma reimport_after_restart : forall T, wf_tree T -> (forall g, T 0 = Some g -> T (b_parent g) = None) ->
  forall (c : cfg) (fuel : nat) (p p' : pst) (ids : list N) (hs : list hdr) (x0 : hdr) (r : list hdr) (p'' : pst) (e : option err),
    new_blockchain T c fuel p = ROk p' ->
    avail (kv p') (hd_block (kv p')) = true ->
    (0 < fuel)%nat ->
    resolve_all T ids = Some hs -> contiguous hs = true -> hs = x0 :: r ->
    b_parent (snd x0) = hd_block (kv p') ->
    (forall z, In z hs -> hnum z < N.of_nat fuel) ->
    (forall n, N.of_nat fuel <= n -> canon (kv p') n = None) ->
    reimport T fuel p' ids = (p'', e) ->
    let tip := fst (last hs x0) in
    e = None /\ hd_block (kv p'') = tip /\ hd_header (kv p'') = tip /\ avail (kv p'') tip = true /\
    is_known (kv p'') tip = true.
Proof.
  intros T Hwf Hgp c fuel p p' ids hs x0 r p'' e HN Ha Hf HR Hc Ehs Ep Hn Hcan H.
  destruct (restart_head_stored T _ _ _ _ HN) as (Hk & Hpb).
  eapply reimport_reaches; eauto.
Qed.
