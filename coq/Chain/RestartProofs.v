(* Chain/RestartProofs.v — lemmas about Chain/Restart.v (C39), on top of the C38
   lemmas of CanonicalProofs / CanonicalInv / CanonicalTop. *)
From Coq Require Import List NArith Bool Lia.
From GV Require Import Lib.Tactics Chain.Tree Chain.Canonical Chain.CanonicalProofs Chain.CanonicalInv Chain.CanonicalTop Chain.Restart.
Import ListNotations.
Local Open Scope N_scope.

Section P.
Variable T : tree.
Hypothesis Hwf : wf_tree T.

Notation hdr_ok := (hdr_ok T).
Notation GC := (GC T).
Notation Inv := (Inv T).
Notation IsAnc := (IsAnc T).
Notation is_genesis := (is_genesis T).

(* ------------------------------------------------------------ frames *)

Lemma lls_spec : forall st st', load_last_state T st = ROk st' ->
  hd_block st' = hd_block st /\ avail st' = avail st /\ canon st' = canon st /\ known st' = known st /\
  is_known st (hd_block st) = true /\
  hd_header st' = (if is_known st (hd_header st) then hd_header st else hd_block st) /\
  hd_snap st' = (if is_known st (hd_snap st) then hd_snap st else hd_block st).
Proof.
  intros st st' H. unfold load_last_state in H.
  destruct (get_by_hash T st (hd_block st)) as [x|] eqn:E; [|discriminate].
  inversion H; subst; clear H. cbn. repeat split; auto.
  unfold get_by_hash in E. destruct (T (hd_block st)); [|discriminate].
  destruct (is_known st (hd_block st)); [reflexivity|discriminate].
Qed.

Lemma hc_frame : forall fuel st g target origin dels st' dels',
  hc_set_head T fuel st g target origin dels = ROk (st', dels') ->
  hd_block st' = hd_block st /\ avail st' = avail st /\ canon st' = canon st /\ known st' = known st /\
  hd_snap st' = hd_snap st.
Proof.
  induction fuel as [|f IH]; intros st g target origin dels st' dels' H; [discriminate|].
  cbn [hc_set_head] in H. destruct (T (hd_header st)) as [hb|]; [|discriminate].
  destruct (b_number hb <=? target).
  - inversion H; subst. repeat split; auto.
  - destruct (if origin then heights_above T (S f) st (b_number hb + 1) else Some []) as [up|]; [|discriminate].
    apply IH in H. cbn in H. exact H.
Qed.

(* ------------------------------------------------------------ the rewind lands on a state *)

Lemma rewind_lands : forall fuel st g x y, rewind T fuel st g x = Some y -> is_genesis g ->
  avail st (fst y) = true \/ fst y = 0.
Proof.
  induction fuel as [|f IH]; intros st g x y H Hg; [discriminate|].
  cbn [rewind] in H. destruct (avail st (fst x)) eqn:EA.
  - inversion H; subst. now left.
  - destruct (parent_hdr T st x) as [p|] eqn:EP.
    + destruct (N.eqb_spec (hnum p) 0) as [E0|E0].
      * inversion H; subst. right. apply (wf_zero T Hwf); auto.
        eapply parent_hdr_spec; eauto.
      * eapply IH; eauto.
    + inversion H; subst. right. apply Hg.
Qed.

Lemma rewind_root_lands : forall fuel st g r beyond x y, rewind_root T fuel st g r beyond x = ROk y ->
  is_genesis g -> hdr_ok x -> avail st (fst y) = true \/ fst y = 0.
Proof.
  induction fuel as [|f IH]; intros st g r beyond x y H Hg Hx; [discriminate|].
  cbn [rewind_root] in H. destruct (avail st (fst x)) eqn:EA; cbn [negb] in H.
  - destruct (beyond || (fst x =? r) || (hnum x =? 0)) eqn:EB.
    + inversion H; subst. now left.
    + destruct (parent_hdr T st x) as [p|] eqn:EP; [|discriminate].
      eapply IH; eauto. eapply parent_hdr_spec; eauto.
  - destruct (parent_hdr T st x) as [p|] eqn:EP.
    + pose proof (parent_hdr_spec T _ _ _ EP) as Hp.
      destruct (N.eqb_spec (hnum p) 0) as [E0|E0].
      * inversion H; subst. right. apply (wf_zero T Hwf); auto. apply Hp.
      * eapply IH; eauto. apply Hp.
    + inversion H; subst. right. apply Hg.
Qed.

Lemma rewind_head_lands : forall c fuel st g x y, rewind_head T c fuel st g x = ROk y ->
  is_genesis g -> hdr_ok x -> avail st (fst y) = true \/ fst y = 0.
Proof.
  intros c fuel st g x y H Hg Hx. unfold rewind_head in H. destruct (c_snaproot c) as [r|].
  - eapply rewind_root_lands; eauto.
  - destruct (rewind T fuel st g x) as [z|] eqn:E; [|discriminate]. inversion H; subst.
    eapply rewind_lands; eauto.
Qed.

Lemma repair_frame : forall c fuel p g head p', repair T c fuel p g head = ROk p' ->
  exists nh, rewind_head T c fuel (kv p) g head = ROk nh /\
    hd_block (kv p') = fst nh /\ avail (kv p') = avail (kv p).
Proof.
  intros c fuel p g head p' H. unfold repair in H.
  destruct (rewind_head T c fuel (kv p) g head) as [nh|] eqn:ER; [|discriminate].
  exists nh. split; auto. cbv zeta in H.
  match type of H with context [with_heads (kv p) (fst nh) (hd_header (kv p)) ?ns] => set (snp := ns) in * end.
  destruct (hnum nh + 1 <? frozen p).
  - destruct (hc_set_head T fuel (with_heads (kv p) (fst nh) (hd_header (kv p)) snp) g (hnum nh) true [])
      as [[st2 dels]|] eqn:EH; [|discriminate].
    destruct (load_last_state T (delete_heights T st2 dels)) as [st4|] eqn:EL; [|discriminate].
    inversion H; subst; clear H. cbn [kv].
    apply lls_spec in EL as (E1 & E2 & _). apply hc_frame in EH as (F1 & F2 & _).
    rewrite E1, E2. cbn [delete_heights hd_block avail]. rewrite F1, F2. cbn. auto.
  - destruct (load_last_state T (with_heads (kv p) (fst nh) (hd_header (kv p)) snp)) as [st4|] eqn:EL; [|discriminate].
    inversion H; subst; clear H. cbn [kv]. apply lls_spec in EL as (E1 & E2 & _).
    rewrite E1, E2. cbn. auto.
Qed.

(* new_blockchain decomposed: the outcome is the loaded state, or its repair *)
Lemma nb_cases : forall c fuel p p', new_blockchain T c fuel p = ROk p' ->
  exists gb st1 head, T 0 = Some gb /\ load_last_state T (kv p) = ROk st1 /\
    get_by_hash T st1 (hd_block st1) = Some head /\ open_ok T p = true /\
    ((avail st1 (fst head) || (hnum head =? 0) = true /\ p' = mkp st1 (frozen p)) \/
     (avail st1 (fst head) || (hnum head =? 0) = false /\ repair T c fuel (mkp st1 (frozen p)) (0, gb) head = ROk p')).
Proof.
  intros c fuel p p' H. unfold new_blockchain in H.
  destruct (open_ok T p) eqn:EO; cbn [negb] in H; [|discriminate].
  destruct (T 0) as [gb|] eqn:EG; [|discriminate]. cbv zeta in H.
  destruct ((hd_block (kv p) =? 0) && (hd_header (kv p) =? 0) && (hd_snap (kv p) =? 0) && (0 <? frozen p)); [discriminate|].
  destruct (load_last_state T (kv p)) as [st1|] eqn:EL; [|discriminate].
  destruct (get_by_hash T st1 (hd_block st1)) as [head|] eqn:EH; [|discriminate].
  exists gb, st1, head. repeat split; auto.
  destruct (avail st1 (fst head) || (hnum head =? 0)) eqn:EA.
  - left. split; auto.
    match type of H with context [if ?b then RErr RUnsupported else _] => destruct b; [discriminate|] end.
    now inversion H.
  - right. split; auto.
    destruct (repair T c fuel (mkp st1 (frozen p)) (0, gb) head) as [p2|] eqn:ER; [|discriminate].
    match type of H with context [if ?b then RErr RUnsupported else _] => destruct b; [discriminate|] end.
    now inversion H.
Qed.

Lemma get_by_hash_fst : forall st h x, get_by_hash T st h = Some x -> fst x = h /\ hdr_ok x /\ is_known st h = true.
Proof.
  intros st h x H. unfold get_by_hash in H. destruct (T h) as [b|] eqn:E; [|discriminate].
  destruct (is_known st h) eqn:EK; [|discriminate]. inversion H; subst. repeat split; auto.
Qed.

(* T1: whatever the database image, if NewBlockChain comes up, the head block's state
   is available on it, or the head block is the genesis block; and start-up does not
   change which states are available *)
Lemma restart_head_has_state : forall c fuel p p', new_blockchain T c fuel p = ROk p' ->
  (avail (kv p') (hd_block (kv p')) = true \/ hd_block (kv p') = 0) /\ avail (kv p') = avail (kv p).
Proof.
  intros c fuel p p' H.
  destruct (nb_cases _ _ _ _ H) as (gb & st1 & head & EG & EL & EH & _ & [[EA ->]|[EA ER]]).
  - apply lls_spec in EL as (E1 & E2 & _). apply get_by_hash_fst in EH as (Ef & Hok & _). cbn [kv].
    split; auto. apply orb_true_iff in EA as [EA|EA].
    + left. now rewrite <- Ef.
    + right. rewrite <- Ef. apply (wf_zero T Hwf); auto. now apply N.eqb_eq.
  - apply lls_spec in EL as (E1 & E2 & _). apply get_by_hash_fst in EH as (Ef & Hok & _).
    destruct (repair_frame _ _ _ _ _ _ ER) as (nh & ERW & Eb & Eav). cbn [kv] in *.
    rewrite Eb, Eav. split; [|congruence].
    eapply rewind_head_lands; eauto. now apply (genesis_is T Hwf).
Qed.

(* ------------------------------------------------------------ the invariant across start-up *)



Lemma lls_inv : forall st st', load_last_state T st = ROk st' -> Inv st -> Inv st'.
Proof.
  intros st st' H HI. apply lls_spec in H as (E1 & _ & E3 & _ & _ & E6 & _).
  destruct (is_known st (hd_header st)).
  - eapply (Inv_core T st st'); eauto.
  - destruct (Inv_cur T Hwf st HI) as (cb & _ & Hcok & HGc).
    eapply (Inv_intro T st' (hd_block st, cb) (hd_block st, cb)); eauto; try (cbn; congruence).
    + now rewrite E3.
    + now apply IsAnc_refl.
Qed.

Lemma lls_Kc : forall st st', load_last_state T st = ROk st' -> Kc st -> Kc st'.
Proof.
  intros st st' H HK. apply lls_spec in H as (_ & _ & E3 & E4 & _). intros n h Hc.
  rewrite E3 in Hc. specialize (HK n h Hc). unfold is_known in *. now rewrite E4.
Qed.

Lemma rewind_root_anc : forall fuel st g r beyond x y, rewind_root T fuel st g r beyond x = ROk y ->
  hdr_ok x -> is_genesis g -> IsAnc x y.
Proof.
  induction fuel as [|f IH]; intros st g r beyond x y H Hx Hg; [discriminate|].
  cbn [rewind_root] in H. destruct (avail st (fst x)); cbn [negb] in H.
  - destruct (beyond || (fst x =? r) || (hnum x =? 0)).
    + inversion H; subst. now apply IsAnc_refl.
    + destruct (parent_hdr T st x) as [p|] eqn:EP; [|discriminate].
      pose proof (parent_hdr_spec T _ _ _ EP) as Hp.
      apply (IsAnc_trans T Hwf x p y Hx); [now apply IsAnc_parent | eapply IH; eauto; apply Hp].
  - destruct (parent_hdr T st x) as [p|] eqn:EP.
    + pose proof (parent_hdr_spec T _ _ _ EP) as Hp.
      destruct (hnum p =? 0).
      * inversion H; subst. now apply IsAnc_parent.
      * apply (IsAnc_trans T Hwf x p y Hx); [now apply IsAnc_parent | eapply IH; eauto; apply Hp].
    + inversion H; subst. now apply IsAnc_genesis.
Qed.

Lemma rewind_head_anc : forall c fuel st g x y, rewind_head T c fuel st g x = ROk y ->
  hdr_ok x -> is_genesis g -> IsAnc x y.
Proof.
  intros c fuel st g x y H Hx Hg. unfold rewind_head in H. destruct (c_snaproot c) as [r|].
  - eapply rewind_root_anc; eauto.
  - destruct (rewind T fuel st g x) as [z|] eqn:E; [|discriminate]. inversion H; subst.
    eapply rewind_anc; eauto.
Qed.

Lemma num_of_hdr : forall x, hdr_ok x -> num_of T (fst x) = hnum x.
Proof. intros x Hx. unfold num_of. unfold CanonicalProofs.hdr_ok in Hx. now rewrite Hx. Qed.

(* the forced header-chain rewind: the head header walks down the canonical index
   (whose blocks are stored: Kc) and stops exactly at the target height *)
Lemma hc_inv : forall fuel st g target origin dels st' dels',
  hc_set_head T fuel st g target origin dels = ROk (st', dels') ->
  Inv st -> Kc st -> is_genesis g -> num_of T (hd_block st) <= target ->
  (forall d, In d dels -> num_of T (hd_header st) < d) ->
  Inv st' /\ (forall d, In d dels' -> num_of T (hd_header st') < d) /\
  (num_of T (hd_header st) <= target -> hd_header st' = hd_header st) /\
  (target <= num_of T (hd_header st) -> num_of T (hd_header st') = target).
Proof.
  induction fuel as [|f IH]; intros st g target origin dels st' dels' H HI HK Hg Hb Hd; [discriminate|].
  cbn [hc_set_head] in H.
  destruct (Inv_elim T st HI) as (hb & bb & Hh & HG & HA).
  pose proof Hh as Hh'. unfold CanonicalProofs.hdr_ok in Hh'. cbn [fst snd] in Hh'. rewrite Hh' in H.
  assert (En : num_of T (hd_header st) = b_number hb) by (unfold num_of; now rewrite Hh').
  destruct (N.leb_spec (b_number hb) target) as [Hle|Hgt].
  - inversion H; subst. repeat split; auto. intros. lia.
  - destruct (wf_parent T Hwf (hd_header st, hb) Hh) as [E0|(p & Hp)]; [unfold hnum in E0; cbn in E0; lia|].
    cbn [snd] in Hp.
    pose proof Hp as (Hpo & Hpf & Hpn). unfold hnum in Hpn. cbn [fst snd] in Hpn, Hpf.
    (* the parent is canonical, hence stored *)
    assert (Hcp : canon st (b_number p) = Some (b_parent hb)).
    { rewrite HG by (unfold hnum; cbn; lia).
      rewrite (anc_parent T (hd_header st, hb) _ (b_number p) Hh Hp) by (unfold hnum; cbn; lia).
      apply (anc_self T (b_parent hb, p)); auto. }
    assert (Hkp : is_known st (b_parent hb) = true) by (eapply HK; eauto).
    assert (EP : parent_hdr T st (hd_header st, hb) = Some (b_parent hb, p)).
    { unfold parent_hdr, get_header. unfold hnum. cbn [fst snd].
      destruct (N.eqb_spec (b_number hb) 0); [lia|].
      unfold CanonicalProofs.hdr_ok in Hpo. cbn [fst snd] in Hpo. rewrite Hpo, Hkp.
      replace (b_number hb - 1) with (b_number p) by lia. now rewrite N.eqb_refl. }
    rewrite EP in H. cbn [fst] in H.
    destruct (if origin then heights_above T (S f) st (b_number hb + 1) else Some []) as [up|] eqn:EUP; [|discriminate].
    set (st1 := with_heads st (hd_block st) (b_parent hb) (hd_snap st)) in *.
    assert (HI1 : Inv st1).
    { eapply (Inv_intro T st1 (b_parent hb, p) (hd_block st, bb)); eauto; try reflexivity.
      - apply (GC_anc T Hwf (canon st) (hd_header st, hb) (b_parent hb, p) Hh HG). now apply IsAnc_parent.
      - (* the head block lies at or below the parent *)
        destruct HA as (Hbo & Hble & Hba).
        pose proof (num_of_hdr (hd_block st, bb) Hbo) as Enb. unfold hnum in Enb, Hble, Hba. cbn [fst snd] in Enb, Hble, Hba.
        rewrite Enb in Hb.
        split; [exact Hbo|]. split; [unfold hnum; cbn [snd]; lia|].
        unfold hnum. cbn [snd].
        rewrite <- (anc_parent T (hd_header st, hb) (b_parent hb, p) (b_number bb) Hh Hp) by (unfold hnum; cbn [snd]; lia).
        exact Hba. }
    assert (HK1 : Kc st1) by exact HK.
    assert (En1 : num_of T (hd_header st1) = b_number p) by (cbn; apply (num_of_hdr (b_parent hb, p) Hpo)).
    assert (HD1 : forall d, In d (dels ++ rev up ++ [b_number hb]) -> num_of T (hd_header st1) < d).
    { intros d Hin. rewrite En1. apply in_app_or in Hin as [Hin|Hin].
      - specialize (Hd d Hin). lia.
      - apply in_app_or in Hin as [Hin|Hin].
        + apply in_rev in Hin. destruct origin; [|inversion EUP; subst; destruct Hin].
          pose proof (heights_above_ge T _ _ _ _ EUP d Hin). lia.
        + destruct Hin as [<-|[]]. lia. }
    destruct (IH _ _ _ _ _ _ _ H HI1 HK1 Hg Hb HD1) as (HI' & HD' & Hsame & Hnum).
    repeat split; auto.
    + intros. lia.
    + intros _. rewrite En1 in Hnum. apply Hnum. lia.
Qed.

Lemma delete_heights_Kc : forall st dels, Kc st -> Inv st ->
  (forall d, In d dels -> num_of T (hd_header st) < d) ->
  forall n h, n <= num_of T (hd_header st) -> canon (delete_heights T st dels) n = Some h ->
  is_known (delete_heights T st dels) h = true.
Proof.
  intros st dels HK HI Hd n h Hn Hc. cbn [delete_heights canon] in Hc.
  destruct (mem n dels) eqn:EM; [discriminate|].
  pose proof (HK n h Hc) as Hk. unfold is_known in *. cbn [delete_heights known].
  apply mem_filter_keep; auto.
  (* h is the canonical block at height n <= head header: its number is n, not deleted *)
  destruct (Inv_elim T st HI) as (hb & bb & Hh & HG & HA).
  pose proof (num_of_hdr (hd_header st, hb) Hh) as Enh. cbn [fst] in Enh. rewrite Enh in Hn.
  rewrite HG in Hc by exact Hn.
  destruct (anc_down T Hwf _ (hd_header st, hb) n h Hh eq_refl Hn Hc) as (bh & Hbh & Hbn & _).
  rewrite Hbh, Hbn, EM. reflexivity.
Qed.

(* T2 + T3: start-up re-establishes the C38 invariant (index parent-linked up to the head
   header, which it names; head block an ancestor-or-equal of the head header, so the head
   header is at or beyond the head block) from any image on which it holds and whose
   canonical blocks are stored *)
Lemma restart_inv : forall c fuel p p', new_blockchain T c fuel p = ROk p' ->
  Inv (kv p) -> Kc (kv p) -> Inv (kv p').
Proof.
  intros c fuel p p' H HI HK.
  destruct (nb_cases _ _ _ _ H) as (gb & st1 & head & EG & EL & EH & _ & [[EA ->]|[EA ER]]).
  - cbn [kv]. eapply lls_inv; eauto.
  - pose proof (lls_inv _ _ EL HI) as HI1. pose proof (lls_Kc _ _ EL HK) as HK1.
    apply get_by_hash_fst in EH as (Ef & Hok & Hkh).
    pose proof (genesis_is T Hwf _ EG) as Hg.
    unfold repair in ER. cbn [kv frozen] in ER.
    destruct (rewind_head T c fuel st1 (0, gb) head) as [nh|] eqn:ERW; [|discriminate].
    pose proof (rewind_head_anc _ _ _ _ _ _ ERW Hok Hg) as Hanc. cbv zeta in ER.
    match type of ER with context [with_heads st1 (fst nh) (hd_header st1) ?ns] => set (snp := ns) in * end.
    set (st2 := with_heads st1 (fst nh) (hd_header st1) snp) in *.
    assert (HI2 : Inv st2).
    { destruct (Inv_elim T st1 HI1) as (hb & bb & Hh & HG & HA).
      assert (E : head = (hd_block st1, bb)).
      { apply (hdr_ok_inj T head (hd_block st1, bb) Hok (proj1 HA)). cbn [fst]. exact Ef. }
      rewrite <- E in HA.
      apply (Inv_intro T st2 (hd_header st1, hb) nh Hh eq_refl HG); [|reflexivity].
      apply (IsAnc_trans T Hwf (hd_header st1, hb) head nh Hh HA Hanc). }
    assert (HK2 : Kc st2) by exact HK1.
    destruct (hnum nh + 1 <? frozen p).
    + destruct (hc_set_head T fuel st2 (0, gb) (hnum nh) true []) as [[st3 dels]|] eqn:EHC; [|discriminate].
      destruct (load_last_state T (delete_heights T st3 dels)) as [st4|] eqn:EL2; [|discriminate].
      inversion ER; subst; clear ER. cbn [kv].
      assert (Hb2 : num_of T (hd_block st2) <= hnum nh).
      { cbn. destruct Hanc as (Hnok & _). rewrite (num_of_hdr nh Hnok). lia. }
      destruct (hc_inv _ _ _ _ _ _ _ _ EHC HI2 HK2 Hg Hb2) as (HI3 & HD3 & _); [intros d []|].
      eapply lls_inv; eauto. apply (delete_heights_inv T); auto.
    + destruct (load_last_state T st2) as [st4|] eqn:EL2; [|discriminate].
      inversion ER; subst; clear ER. cbn [kv]. eapply lls_inv; eauto.
Qed.

End P.

(* ------------------------------------------------------------ all histories, all crash cuts *)
Section H.
Variable T : tree.
Hypothesis Hwf : wf_tree T.
(* the genesis header's ParentHash (the zero hash) names no block *)
Hypothesis Hgp : forall g, T 0 = Some g -> T (b_parent g) = None.

Notation Strict2 := (Strict2 T).
Notation Strict := (Strict T).
Notation Inv := (Inv T).

Definition CanonB (st : db) (h : N) : Prop := exists n, canon st n = Some h.

(* a canonical block above genesis has its height as number and a canonical parent *)
Lemma canon_parent : forall st, Strict st -> forall n h, 0 < n -> canon st n = Some h ->
  exists b, T h = Some b /\ b_number b = n /\ canon st (n - 1) = Some (b_parent b).
Proof.
  intros st (HI & _ & HT) n h Hn Hc.
  destruct (Inv_linked T Hwf st HI) as (hb & Hh & _ & Hlink & _).
  assert (Hle : n <= b_number hb).
  { destruct (N.le_gt_cases n (b_number hb)) as [|Hgt]; auto.
    rewrite HT in Hc; [discriminate|]. unfold num_of. now rewrite Hh. }
  destruct (Hlink (n - 1)) as (h' & b' & Hc' & Hb' & Hn' & Hp'); [lia|].
  replace (n - 1 + 1) with n in * by lia. rewrite Hc in Hc'. inversion Hc'; subst h'.
  exists b'. repeat split; auto.
Qed.

Lemma canon_zero : forall st, Strict st -> forall h, canon st 0 = Some h -> h = 0.
Proof.
  intros st (HI & _ & _) h Hc. destruct (Inv_elim T st HI) as (hb & bb & Hh & HG & _).
  rewrite HG in Hc by lia. cbn [fst] in Hc.
  pose proof (anc_zero T Hwf _ (hd_header st, hb) Hh eq_refl) as E. cbn [fst] in E. congruence.
Qed.

Lemma dangle_keeps : forall st, Strict st -> forall fuel kn drop tip kn',
  dangle T fuel kn drop tip = Some kn' -> 0 < tip ->
  (forall h, In h drop -> ~ CanonB st h) ->
  forall h, CanonB st h -> mem h kn = true -> mem h kn' = true.
Proof.
  intros st HS. induction fuel as [|f IH]; intros kn drop tip kn' H Htip Hdrop h Hc Hm; [discriminate|].
  cbn [dangle] in H. destruct drop as [|d0 dr]; [inversion H; subst; auto|].
  set (child := dchild T tip (d0 :: dr)) in *.
  assert (Hnc : forall x, CanonB st x -> child x = false).
  { intros x (n & Hx). unfold child, dchild. destruct (T x) as [b|] eqn:ET; auto.
    destruct (N.eqb_spec (b_number b) tip) as [E|E]; auto. cbn [andb].
    destruct (mem (b_parent b) (d0 :: dr)) eqn:EM; auto. exfalso.
    apply mem_In in EM. apply (Hdrop _ EM).
    destruct (N.eq_dec n 0) as [->|Hn0].
    - apply (canon_zero st HS) in Hx. subst x. destruct Hwf as ((g & Hg & Hg0) & _). rewrite Hg in ET. inversion ET; subst. lia.
    - destruct (canon_parent st HS n x) as (b' & Hb' & Hbn & Hp); auto; [lia|].
      rewrite ET in Hb'. inversion Hb'; subst b'. now exists (n - 1). }
  eapply (IH _ _ _ _ H); eauto; [lia| |].
  - intros x Hx Hcx. apply filter_In in Hx as (_ & Hx). rewrite (Hnc _ Hcx) in Hx. discriminate.
  - apply mem_filter_keep; auto. cbv beta. now rewrite (Hnc _ Hc).
Qed.

Lemma freeze_strict2 : forall fuel p f p', freeze T fuel p f = ROk p' -> Strict2 (kv p) -> Strict2 (kv p').
Proof.
  intros fuel p f p' H (HS & HK). unfold freeze in H. cbv zeta in H.
  destruct ((f =? 0) || (f + 1 <=? frozen p)) eqn:E0; [inversion H; subst; split; auto|].
  match type of H with context [if negb ?b then _ else _] => destruct b; cbn [negb] in H end;
    [|inversion H; subst; split; auto].
  match type of H with context [dangle T fuel ?k ?d ?t] => destruct (dangle T fuel k d t) as [kn2|] eqn:ED; [|discriminate] end.
  inversion H; subst; clear H. cbn [kv]. split.
  - eapply (Strict_core T); eauto; reflexivity.
  - intros n h Hc. cbn [canon] in Hc. unfold is_known. cbn [known].
    assert (Hnside : forall x, CanonB (kv p) x -> side_below T (kv p) (frozen p) (f + 1) x = false).
    { intros x (m & Hx). unfold side_below. destruct (T x) as [b|] eqn:ET; auto.
      destruct (N.eq_dec m 0) as [->|Hm0].
      - apply (canon_zero _ HS) in Hx. subst x. destruct Hwf as ((g & Hg & Hg0) & _). rewrite Hg in ET. inversion ET; subst.
        rewrite Hg0. cbn. now rewrite !andb_false_r.
      - destruct (canon_parent _ HS m x) as (b' & Hb' & Hbn & _); auto; [lia|].
        rewrite ET in Hb'. inversion Hb'; subst b'. rewrite Hbn, Hx. cbn [oeqb]. rewrite N.eqb_refl. cbn. now rewrite !andb_false_r. }
    eapply (dangle_keeps _ HS _ _ _ _ _ ED); eauto.
    + apply orb_false_iff in E0 as (E1 & _). apply N.eqb_neq in E1. lia.
    + intros x Hx Hcx. apply filter_In in Hx as (Hx & _). apply filter_In in Hx as (_ & Hx).
      rewrite (Hnside _ Hcx) in Hx. discriminate.
    + now exists n.
    + apply mem_filter_keep; [apply (HK n h Hc)|]. rewrite Hnside; auto. now exists n.
Qed.

Lemma sstep_strict2 : forall path fuel p o p' e, sstep T path fuel p o = (ROk p', e) ->
  Strict2 (kv p) -> Strict2 (kv p').
Proof.
  intros path fuel p o p' e H HS. destruct o as [l|h|f]; cbn [sstep] in H.
  - destruct (step T fuel (kv p) (OInsert l)) as [[st ev] e1] eqn:ES. inversion H; subst. cbn [kv].
    eapply (step_import_strict2 T Hwf Hgp); eauto. exact I.
  - destruct (T h); [|inversion H; subst; auto].
    destruct (path && is_known (kv p) h && avail (kv p) h); inversion H; subst; auto.
  - destruct (canon (kv p) f); [|inversion H; subst; auto].
    inversion H as [[H1 H2]]. eapply freeze_strict2; eauto.
Qed.

Lemma run_ops_strict2 : forall path fuel ops p p' es, run_ops T path fuel p ops = (ROk p', es) ->
  Strict2 (kv p) -> Strict2 (kv p').
Proof.
  induction ops as [|o r IH]; intros p p' es H HS; cbn [run_ops] in H.
  - now inversion H; subst.
  - destruct (sstep T path fuel p o) as [[p1|x] e] eqn:ES; [|discriminate].
    destruct (run_ops T path fuel p1 r) as [res es1] eqn:ER. inversion H; subst.
    eapply IH; eauto. eapply sstep_strict2; eauto.
Qed.

End H.
