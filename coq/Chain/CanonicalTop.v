(* Chain/CanonicalTop.v — "no canonical entry above the head" in the form that is
   invariant: as long as the head block has not fallen below the head header (C38). *)
From Coq Require Import List NArith Bool Lia.
From GV Require Import Lib.Tactics Chain.Tree Chain.Canonical Chain.CanonicalProofs Chain.CanonicalInv.
Import ListNotations.
Local Open Scope N_scope.

Section Top.
Variable T : tree.
Hypothesis Hwf : wf_tree T.
(* the genesis header's ParentHash (the zero hash) names no block *)
Hypothesis Hgp : forall g, T 0 = Some g -> T (b_parent g) = None.

Notation hdr_ok := (hdr_ok T).
Notation GC := (GC T).

Lemma anc_some : forall d x n, hdr_ok x -> n <= hnum x -> N.to_nat (hnum x - n) = d ->
  anc T (fst x) n <> None.
Proof.
  induction d as [|d IH]; intros x n Hx Hn Hd.
  - assert (n = hnum x) by lia. subst n. rewrite anc_self by auto. discriminate.
  - destruct (wf_parent T Hwf x Hx) as [E0|(p & Hp)]; [lia|].
    pose proof Hp as (Hpo & _ & Hnum).
    rewrite (anc_parent T x _ n Hx Hp) by lia. apply (IH _ n Hpo); lia.
Qed.

Definition Top (st : db) : Prop := forall n, num_of T (hd_header st) < n -> canon st n = None.
Definition Strict (st : db) : Prop := Inv T st /\ hd_block st = hd_header st /\ Top st.

Lemma num_of_ok : forall x, hdr_ok x -> num_of T (fst x) = hnum x.
Proof. intros [h b] H. unfold num_of, hnum. cbn in *. unfold CanonicalProofs.hdr_ok in H. cbn in H. now rewrite H. Qed.

(* the domain of the index above k is an initial segment *)
Definition Closed (c : N -> option N) (k : N) : Prop :=
  forall a m, k <= a -> a <= m -> c a = None -> c m = None.

Lemma whb_closed : forall fuel st x st', write_head_block fuel st x = Some st' ->
  (forall k, hnum x < k -> Closed (canon st) k) -> (forall k, hnum x < k -> Closed (canon st') k).
Proof.
  intros fuel st x st' H HC k Hk a m Ha Hm Hnone.
  destruct (whb_spec _ _ _ _ H) as (c1 & Hc & E & _). rewrite E in *.
  rewrite upd_other in Hnone by lia. rewrite upd_other by lia.
  unfold whb_clear in Hc. destruct (canon st (hnum x)) as [old|].
  - destruct (old =? fst x).
    + inversion Hc; subst. eapply HC; eauto.
    + apply (del_canon_above _ _ _ _ Hc); [|lia]. intros a' m' Ha' Hm' Hn'. eapply (HC (hnum x + 1)); eauto. lia.
  - inversion Hc; subst. eapply HC; eauto.
Qed.

Lemma fold_whb_closed : forall fuel l p c0 st st', down T p l c0 ->
  fold_whb fuel (rev l) st = Some st' ->
  (forall k, hnum c0 < k -> Closed (canon st) k) -> (forall k, hnum p < k -> Closed (canon st') k).
Proof.
  intros fuel l p c0 st st' Hd. revert st'. induction Hd; intros st' HF HC.
  - inversion HF; subst; auto.
  - cbn [rev] in HF. rewrite fold_whb_snoc in HF.
    destruct (fold_whb fuel (rev l) st) as [s|] eqn:E; [|discriminate].
    eapply whb_closed; eauto. intros k Hk. apply (IHHd s eq_refl HC).
    destruct H0 as (_ & _ & ?). lia.
Qed.

(* reorg: besides rebuilding the index below the new head's parent, nothing is left above it *)
Lemma reorg_GC_top : forall fuel st old new st' evs,
  reorg T fuel st old new = Ok (st', evs) -> hdr_ok old -> hdr_ok new -> GC (canon st) old ->
  (forall k, Closed (canon st) k) ->
  exists p, GC (canon st') p /\ hdr_ok p /\ (p = new \/ parent_of T new p) /\
            (forall n, hnum p < n -> canon st' n = None).
Proof.
  intros fuel st old new st' evs H Ho Hn HG HT.
  destruct (reorg_GC T _ _ _ _ _ _ H Ho Hn HG) as (p0 & _).
  rewrite reorg_unfold in H.
  destruct (reorg_walk T fuel st old new) as [[[c oc] nc]|] eqn:EW; [|discriminate].
  destruct (reorg_walk_spec T _ _ _ _ _ _ _ EW Ho Hn) as (Hdo & Hdn & Hc).
  cbv zeta in H.
  destruct (fold_whb fuel (rev (tl nc)) st) as [st1|] eqn:EF; [|discriminate].
  match type of H with context [del_canon_from fuel ?cc ?ii] =>
    destruct (del_canon_from fuel cc ii) as [c'|] eqn:ED; [|discriminate] end.
  destruct (reorg_top_spec T _ _ _ Hdn Hn) as (Hp & Hcase & Hdp).
  assert (Hnum : (match nc with _ :: x1 :: _ => hnum x1 | _ => hnum c end) = hnum (reorg_top c nc))
    by (unfold reorg_top; destruct nc as [|? [|? ?]]; reflexivity).
  rewrite Hnum in ED.
  assert (G1 : GC (canon st1) (reorg_top c nc)).
  { eapply fold_whb_GC; eauto.
    intros n Hle. rewrite HG by (apply down_hnum in Hdo; lia). eapply down_anc; eauto. }
  pose proof (fold_whb_closed _ _ _ _ _ _ Hdp EF (fun k _ => HT k)) as HC1.
  inversion H; subst st' evs; clear H.
  exists (reorg_top c nc). repeat split; auto.
  - intros n Hle. cbn [canon set_canon]. rewrite (del_canon_below _ _ _ _ ED n) by lia. now apply G1.
  - intros n Hlt. cbn [canon set_canon].
    apply (del_canon_above _ _ _ _ ED); [|lia].
    intros a m Ha Hle Hnone. cbn [canon set_lookup] in *.
    apply (HC1 (hnum (reorg_top c nc) + 1) ltac:(lia) a m); auto.
Qed.

Lemma Strict_core : forall st st', canon st' = canon st -> hd_header st' = hd_header st ->
  hd_block st' = hd_block st -> Strict st -> Strict st'.
Proof.
  intros st st' E1 E2 E3 (HI & HE & HT). repeat split.
  - eapply Inv_core; eauto.
  - congruence.
  - intros n Hn. rewrite E1. apply HT. rewrite E2 in Hn. exact Hn.
Qed.

Lemma GC_closed : forall c x, hdr_ok x -> GC c x -> (forall n, hnum x < n -> c n = None) ->
  forall k, Closed c k.
Proof.
  intros c x Hx HG HN k a m Ha Hm Hnone.
  destruct (N.le_gt_cases a (hnum x)) as [Hle|Hgt].
  - exfalso. rewrite HG in Hnone by auto. revert Hnone. eapply anc_some; eauto.
  - apply HN. lia.
Qed.

Lemma Strict_wkb : forall fuel st x st' ev, Strict st -> hdr_ok x -> is_known st (fst x) = true ->
  write_known_block T fuel st x = Ok (st', ev) -> Strict st'.
Proof.
  intros fuel st x st' ev (HI & HE & HT) Hx _ H.
  assert (HI' : Inv T st') by (eapply wkb_inv; eauto).
  unfold write_known_block, reorg_if_needed in H.
  destruct (Inv_cur T Hwf st HI) as (cb & Hcur & Hcok & HGc).
  assert (Hnumh : num_of T (hd_header st) = hnum (hd_block st, cb)) by (rewrite <- HE; apply (num_of_ok (hd_block st, cb)); auto).
  assert (HTc : forall n, hnum (hd_block st, cb) < n -> canon st n = None) by (intros n Hn; apply HT; now rewrite Hnumh).
  destruct (N.eqb_spec (b_parent (snd x)) (hd_block st)) as [E|E].
  - assert (Hh : hnum (hd_block st, cb) < hnum x).
    { destruct (wf_parent T Hwf x Hx) as [E0|(p & Hpo & _ & Hnum)].
      + exfalso. pose proof (wf_zero T Hwf x Hx E0) as Ef. destruct x as [h b]. cbn [fst snd] in *. subst h.
        unfold CanonicalProofs.hdr_ok in Hx, Hcok. cbn in Hx, Hcok.
        pose proof (Hgp _ Hx) as Hnone. rewrite E in Hnone. congruence.
      + unfold CanonicalProofs.hdr_ok in Hpo, Hcok. cbn [fst snd] in *. rewrite E in Hpo. rewrite Hpo in Hcok.
        inversion Hcok; subst. unfold hnum in *. cbn [snd] in *. lia. }
    destruct (write_head_block fuel st x) as [st2|] eqn:EW; [|discriminate]. inversion H; subst.
    destruct (whb_spec _ _ _ _ EW) as (_ & _ & _ & _ & Eb & Eh & _).
    repeat split; auto; [congruence|]. intros n Hn. rewrite Eh, (num_of_ok x Hx) in Hn.
    eapply whb_none; eauto; [|lia]. apply HTc. lia.
  - rewrite Hcur in H.
    destruct (reorg T fuel st (hd_block st, cb) x) as [[st1 ev1]|] eqn:ER; [|discriminate].
    destruct (write_head_block fuel st1 x) as [st2|] eqn:EW; [|discriminate]. inversion H; subst.
    destruct (reorg_GC_top _ _ _ _ _ _ ER Hcok Hx HGc (GC_closed _ _ Hcok HGc HTc)) as (p & _ & Hpo & Hcase & Habove).
    destruct (whb_spec _ _ _ _ EW) as (_ & _ & _ & _ & Eb & Eh & _).
    repeat split; auto; [congruence|]. intros n Hn. rewrite Eh, (num_of_ok x Hx) in Hn.
    eapply whb_none; eauto; [|lia]. apply Habove.
    destruct Hcase as [->|(_ & _ & Hnum)]; lia.
Qed.

Lemma Strict_wbws : forall st x st1, Strict st -> write_block_with_state st x = Ok st1 -> Strict st1.
Proof. intros st x st1 HS H. destruct (wbws_core _ _ _ H) as (E1 & E2 & E3). eapply Strict_core; eauto. Qed.
Lemma Strict_addk : forall st h, Strict st -> Strict (add_known st h).
Proof. intros st h HS. destruct (add_known_core st h) as (E1 & E2 & E3). eapply Strict_core; eauto. Qed.
Lemma Strict_rcpt : forall st h, Strict st ->
  Strict (mkdb (known st) (upd (rcpt st) h true) (avail st) (disk st) (canon st) (lookup st)
               (hd_block st) (hd_header st) (hd_snap st)).
Proof. intros st h HS. exact HS. Qed.

Lemma step_import_strict : forall fuel st o st' ev e, import_op o ->
  step T fuel st o = (st', ev, e) -> Strict st -> Strict st'.
Proof.
  intros. eapply (step_import_gen T Strict Strict_wbws Strict_addk Strict_rcpt Strict_wkb); eauto.
Qed.

(* restart never touches the index or the head header *)
Lemma restart_canon : forall fuel st st' ev e, restart T fuel st = (st', ev, e) ->
  canon st' = canon st /\ hd_header st' = hd_header st.
Proof.
  intros fuel st st' ev e H. unfold restart in H.
  destruct (cur_hdr T st) as [cb|]; [|inversion H; subst; auto].
  destruct (T 0) as [gb|]; [|inversion H; subst; auto].
  cbv zeta in H.
  match type of H with context [if avail ?s1 (hd_block ?s1) then _ else _] => set (st1 := s1) in * end.
  destruct (avail st1 (hd_block st1)); [inversion H; subst; auto|].
  destruct (rewind T fuel st1 (0, gb) cb) as [nh|]; inversion H; subst; auto.
Qed.

(* ---- canonical blocks are stored; needed for SetHead ---- *)
Definition K (st : db) (z : hdr) : Prop := is_known st (fst z) = true.
Definition Kc (st : db) : Prop := forall n h, canon st n = Some h -> is_known st h = true.

Lemma parent_hdr_known : forall st x p, parent_hdr T st x = Some p -> K st p.
Proof.
  intros st x p H. unfold parent_hdr, get_header in H.
  destruct (hnum x =? 0); [discriminate|].
  destruct (T (b_parent (snd x))) as [b|]; [|discriminate].
  destruct (is_known st (b_parent (snd x))) eqn:E; cbn [andb] in H; [|discriminate].
  destruct (b_number b =? hnum x - 1); inversion H; subst. exact E.
Qed.

Lemma reduce_known : forall fuel st x target acc r acc',
  reduce T fuel st x target acc = Some (r, acc') ->
  (forall z, In z acc -> K st z) -> (forall h, x = Some h -> K st h) ->
  (forall z, In z acc' -> K st z) /\ (forall y, r = Some y -> K st y).
Proof.
  induction fuel as [|f IH]; intros st x target acc r acc' H Ha Hx; [discriminate|].
  cbn [reduce] in H. destruct x as [h|]; [|inversion H; subst; split; auto; discriminate].
  destruct (hnum h =? target); [inversion H; subst; split; auto|].
  eapply IH; eauto.
  - intros z Hz. apply in_app_or in Hz as [Hz|[<-|[]]]; auto.
  - intros p Hp. eapply parent_hdr_known; eauto.
Qed.

Lemma find_common_known : forall fuel st o n oc nc c oc' nc',
  find_common T fuel st o n oc nc = Ok (c, oc', nc') -> K st n ->
  (forall z, In z nc -> K st z) -> (forall z, In z nc' -> K st z).
Proof.
  induction fuel as [|f IH]; intros st o n oc nc c oc' nc' H Hn Hnc; [discriminate|].
  cbn [find_common] in H. destruct (fst o =? fst n); [inversion H; subst; auto|].
  destruct (parent_hdr T st o) as [o'|]; [|discriminate].
  destruct (parent_hdr T st n) as [n'|] eqn:EN; [|discriminate].
  eapply IH; eauto; [eapply parent_hdr_known; eauto|].
  intros z Hz. apply in_app_or in Hz as [Hz|[<-|[]]]; auto.
Qed.

Lemma reorg_walk_known : forall fuel st old new c oc nc,
  reorg_walk T fuel st old new = Ok (c, oc, nc) -> K st new -> forall z, In z nc -> K st z.
Proof.
  intros fuel st old new c oc nc H Hn. unfold reorg_walk in H.
  destruct (hnum new <? hnum old).
  - destruct (reduce T fuel st (Some old) (hnum new) []) as [[[o1|] oc0]|]; try discriminate.
    eapply find_common_known; eauto. intros z [].
  - destruct (reduce T fuel st (Some new) (hnum old) []) as [[[n1|] nc0]|] eqn:ER; try discriminate.
    destruct (reduce_known _ _ _ _ _ _ _ ER) as (Hacc & Hr); [intros z []|intros h Hh; inversion Hh; subst; auto|].
    eapply find_common_known; eauto.
Qed.

Lemma reorg_Kc : forall fuel st old new st' evs,
  reorg T fuel st old new = Ok (st', evs) -> K st new -> Kc st -> Kc st'.
Proof.
  intros fuel st old new st' evs H Hn HK. pose proof (reorg_frame T _ _ _ _ _ _ H) as (Ek & _).
  rewrite reorg_unfold in H.
  destruct (reorg_walk T fuel st old new) as [[[c oc] nc]|] eqn:EW; [|discriminate].
  cbv zeta in H.
  destruct (fold_whb fuel (rev (tl nc)) st) as [st1|] eqn:EF; [|discriminate].
  match type of H with context [del_canon_from fuel ?cc ?ii] =>
    destruct (del_canon_from fuel cc ii) as [c'|] eqn:ED; [|discriminate] end.
  inversion H; subst st' evs; clear H.
  intros n h Hc. unfold is_known. rewrite Ek. cbn [canon set_canon] in Hc.
  apply (del_canon_sub _ _ _ _ ED) in Hc. cbn [canon set_lookup] in Hc.
  apply (fold_whb_sub _ _ _ _ _ _ EF) in Hc as [Hc|(z & Hz & <-)].
  - exact (HK n h Hc).
  - apply in_rev in Hz. refine (reorg_walk_known _ _ _ _ _ _ _ EW Hn z _).
    destruct nc; [destruct Hz | now right].
Qed.

Definition Strict2 (st : db) : Prop := Strict st /\ Kc st.

Lemma Strict2_wbws : forall st x st1, Strict2 st -> write_block_with_state st x = Ok st1 -> Strict2 st1.
Proof.
  intros st x st1 (HS & HK) H. split; [eapply Strict_wbws; eauto|].
  destruct (wbws_core _ _ _ H) as (E1 & _). intros n h Hc. rewrite E1 in Hc.
  apply (wbws_known _ _ _ h H). eauto.
Qed.
Lemma Strict2_addk : forall st h, Strict2 st -> Strict2 (add_known st h).
Proof.
  intros st h (HS & HK). split; [now apply Strict_addk|].
  destruct (add_known_core st h) as (E1 & _). intros n k Hc. rewrite E1 in Hc.
  apply add_known_known. eauto.
Qed.
Lemma Strict2_rcpt : forall st h, Strict2 st ->
  Strict2 (mkdb (known st) (upd (rcpt st) h true) (avail st) (disk st) (canon st) (lookup st)
                (hd_block st) (hd_header st) (hd_snap st)).
Proof. intros st h HS. exact HS. Qed.

Lemma Strict2_wkb : forall fuel st x st' ev, Strict2 st -> hdr_ok x -> is_known st (fst x) = true ->
  write_known_block T fuel st x = Ok (st', ev) -> Strict2 st'.
Proof.
  intros fuel st x st' ev (HS & HK) Hx Hkx H. split; [eapply Strict_wkb; eauto|].
  unfold write_known_block, reorg_if_needed in H.
  assert (W : forall s s', Kc s -> known s = known st -> write_head_block fuel s x = Some s' -> Kc s').
  { intros s s' Hs Es HW n h Hc. destruct (whb_spec _ _ _ _ HW) as (_ & _ & _ & (Ek & _) & _).
    unfold is_known. rewrite Ek, Es.
    destruct (whb_sub _ _ _ _ HW n h Hc) as [[_ ->]|Hc']; [exact Hkx|].
    specialize (Hs n h Hc'). unfold is_known in Hs. now rewrite Es in Hs. }
  destruct (b_parent (snd x) =? hd_block st).
  - destruct (write_head_block fuel st x) as [st2|] eqn:EW; [|discriminate]. inversion H; subst. apply (W st st' HK eq_refl EW).
  - destruct (cur_hdr T st) as [cur|]; [|discriminate].
    destruct (reorg T fuel st cur x) as [[st1 ev1]|] eqn:ER; [|discriminate].
    destruct (write_head_block fuel st1 x) as [st2|] eqn:EW; [|discriminate]. inversion H; subst.
    apply (W st1 st' (reorg_Kc _ _ _ _ _ _ ER Hkx HK) (proj1 (reorg_frame T _ _ _ _ _ _ ER)) EW).
Qed.

Lemma step_import_strict2 : forall fuel st o st' ev e, import_op o ->
  step T fuel st o = (st', ev, e) -> Strict2 st -> Strict2 st'.
Proof.
  intros. eapply (step_import_gen T Strict2 Strict2_wbws Strict2_addk Strict2_rcpt Strict2_wkb); eauto.
Qed.

Lemma restart_known : forall fuel st st' ev e, restart T fuel st = (st', ev, e) -> known st' = known st.
Proof.
  intros fuel st st' ev e H. unfold restart in H.
  destruct (cur_hdr T st) as [cb|]; [|inversion H; subst; auto].
  destruct (T 0) as [gb|]; [|inversion H; subst; auto].
  cbv zeta in H.
  match type of H with context [if avail ?s1 (hd_block ?s1) then _ else _] => set (st1 := s1) in * end.
  destruct (avail st1 (hd_block st1)); [inversion H; subst; auto|].
  destruct (rewind T fuel st1 (0, gb) cb) as [nh|]; inversion H; subst; auto.
Qed.

Lemma parent_hdr_some : forall st x, hdr_ok x -> hnum x <> 0 ->
  (forall p, parent_of T x p -> is_known st (fst p) = true) -> parent_hdr T st x <> None.
Proof.
  intros st x Hx Hn Hk. destruct (wf_parent T Hwf x Hx) as [E0|(p & Hp)]; [contradiction|].
  pose proof (Hk _ Hp) as Hkp. destruct Hp as (Hpo & _ & Hnum).
  unfold parent_hdr, get_header. destruct (N.eqb_spec (hnum x) 0); [contradiction|].
  unfold CanonicalProofs.hdr_ok in Hpo. cbn [fst snd] in *. rewrite Hpo, Hkp.
  assert (E : (b_number p =? hnum x - 1) = true) by (apply N.eqb_eq; unfold hnum in *; cbn in *; lia).
  rewrite E. discriminate.
Qed.

Lemma In_mem : forall x l, In x l -> mem x l = true.
Proof. intros x l H. unfold mem. apply existsb_exists. exists x. split; auto. apply N.eqb_refl. Qed.

Lemma set_head_loop_top : forall fuel st g target origin dels st' dels',
  set_head_loop T fuel st g target origin dels = Ok (st', dels') ->
  Inv T st -> Kc st -> is_genesis T g ->
  (forall n, num_of T (hd_header st) < n -> In n dels \/ canon st n = None) ->
  known st' = known st /\
  (forall n, num_of T (hd_header st') < n -> In n dels' \/ canon st n = None).
Proof.
  induction fuel as [|f IH]; intros st g target origin dels st' dels' H HI HKc Hg Hcov; [discriminate|].
  cbn [set_head_loop] in H.
  destruct (Inv_elim T st HI) as (hb & bb & Hh & HG & HA).
  pose proof Hh as Hh'. unfold CanonicalProofs.hdr_ok in Hh'. cbn [fst snd] in Hh'. rewrite Hh' in H.
  destruct (b_number hb <=? target) eqn:ET.
  - inversion H; subst. split; auto.
  - apply N.leb_gt in ET.
    set (hdr0 := (hd_header st, hb)) in *.
    assert (HPS : parent_hdr T st hdr0 <> None).
    { apply parent_hdr_some; auto; [unfold hdr0, hnum; cbn; lia|].
      intros p Hp. pose proof Hp as (Hpo & _ & Hnum). apply (HKc (hnum p)).
      rewrite HG by lia. rewrite (anc_parent T hdr0 p (hnum p) Hh Hp) by lia. now apply anc_self. }
    destruct (parent_hdr T st hdr0) as [parent|] eqn:EP; [|congruence].
    pose proof (parent_hdr_spec T _ _ _ EP) as Hpar. pose proof Hpar as (Hpo & _ & Hnum).
    assert (Hnum' : hnum parent + 1 = b_number hb) by (unfold hdr0, hnum in *; cbn [snd] in *; lia).
    assert (HAP : IsAnc T hdr0 parent) by (now apply IsAnc_parent).
    assert (Hcur : cur_hdr T st = Some (hd_block st, bb)).
    { unfold cur_hdr. destruct HA as (Hbo & _). unfold CanonicalProofs.hdr_ok in Hbo. cbn in Hbo. now rewrite Hbo. }
    rewrite Hcur in H.
    match type of H with context [match ?X with Err e => Err e | Ok nb => _ end] =>
      destruct X as [nb|] eqn:ENB; [|discriminate] end.
    assert (HNB : exists nbb, IsAnc T parent (nb, nbb)).
    { destruct (hnum parent <=? hnum (hd_block st, bb)) eqn:EL.
      - destruct (rewind T (S f) st g parent) as [nh|] eqn:ER; [|discriminate].
        inversion ENB; subst. exists (snd nh). destruct nh; cbn. eapply rewind_anc; eauto.
      - inversion ENB; subst. exists bb. apply N.leb_gt in EL.
        pose proof HA as (Hbo & Hble & Hba). repeat split; auto; [lia|].
        rewrite (IsAnc_below T Hwf hdr0 parent Hh HAP) by lia. exact Hba. }
    destruct HNB as (nbb & HNB).
    match type of H with context [match ?X with None => Err EOutOfFuel | Some up => _ end] =>
      destruct X as [up|] eqn:EUP; [|discriminate] end.
    match type of H with set_head_loop T f ?s1 g target false ?dd = _ =>
      assert (HI1 : Inv T s1);
      [ eapply (Inv_intro T _ parent (nb, nbb)); eauto; try reflexivity;
        cbn [canon]; exact (GC_anc T Hwf _ hdr0 parent Hh HG HAP)
      | assert (HC1 : forall n, num_of T (hd_header s1) < n -> In n dd \/ canon s1 n = None) ] end.
    { intros n Hn. cbn [hd_header canon] in *. rewrite (num_of_ok parent Hpo) in Hn.
      destruct (N.eq_dec n (b_number hb)) as [->|Hne].
      - left. apply in_or_app. right. apply in_or_app. right. now left.
      - destruct (Hcov n) as [Hin|Hnone]; auto.
        + unfold num_of. rewrite Hh'. lia.
        + left. apply in_or_app. now left. }
    destruct (IH _ _ _ _ _ _ _ H HI1 HKc Hg HC1) as (Ek & Hcov').
    split; auto.
Qed.

Lemma mem_filter_keep : forall (f : N -> bool) h l, mem h l = true -> f h = true -> mem h (filter f l) = true.
Proof.
  intros f h l Hm Hf. unfold mem in *. apply existsb_exists in Hm as (y & Hy & E). apply N.eqb_eq in E. subst y.
  apply existsb_exists. exists h. split; [apply filter_In; auto | apply N.eqb_refl].
Qed.

Lemma set_head_strict2 : forall fuel st target st' ev e,
  set_head T fuel st target = (st', ev, e) -> Strict2 st -> hd_block st' = hd_header st' -> Strict2 st'.
Proof.
  intros fuel st target st' ev e H ((HI & HE & HT) & HKc) HEq.
  pose proof (set_head_inv T Hwf _ _ _ _ _ _ H HI) as HI'.
  unfold set_head in H.
  remember (T 0) as t0 eqn:EG in H. symmetry in EG.
  destruct t0 as [gb|]; [|inversion H; subst; repeat split; auto].
  destruct (set_head_loop T fuel st (0, gb) target true []) as [[st1 dels]|] eqn:EL;
    [|inversion H; subst; repeat split; auto].
  pose proof (genesis_is T Hwf _ EG) as Hg.
  destruct (set_head_loop_inv T Hwf _ _ _ _ _ _ _ _ EL HI Hg) as (HI1 & EC1 & HD1); [intros d []|].
  destruct (set_head_loop_top _ _ _ _ _ _ _ _ EL HI HKc Hg) as (EK1 & Hcov).
  { intros n Hn. right. now apply HT. }
  assert (Est : st' = delete_heights T st1 dels).
  { destruct (negb (is_known (delete_heights T st1 dels) (hd_block (delete_heights T st1 dels))));
      inversion H; subst; auto. }
  subst st'. clear H.
  assert (HTop : Top (delete_heights T st1 dels)).
  { intros n Hn. cbn [delete_heights canon hd_header] in *.
    destruct (mem n dels) eqn:EM; auto. destruct (Hcov n Hn) as [Hin|Hnone].
    - apply In_mem in Hin. congruence.
    - now rewrite EC1. }
  repeat split; auto.
  (* canonical blocks are still stored *)
  intros n h Hc. cbn [delete_heights canon] in Hc. destruct (mem n dels) eqn:EM; [discriminate|].
  assert (Hk1 : is_known st1 h = true) by (unfold is_known; rewrite EK1; apply (HKc n); now rewrite <- EC1).
  destruct (Inv_elim T st1 HI1) as (hb & bb & Hh & HG & HA).
  assert (Hle : n <= hnum (hd_header st1, hb)).
  { destruct (N.le_gt_cases n (hnum (hd_header st1, hb))) as [|Hgt]; auto. exfalso.
    destruct (Hcov n) as [Hin|Hnone].
    - pose proof (num_of_ok (hd_header st1, hb) Hh) as En. cbn [fst] in En. rewrite En. exact Hgt.
    - apply In_mem in Hin. congruence.
    - rewrite <- EC1 in Hnone. congruence. }
  rewrite HG in Hc by auto.
  destruct (anc_down T Hwf _ (hd_header st1, hb) n h Hh eq_refl Hle Hc) as (bh & Hbh & Hbn & _).
  unfold is_known. cbn [delete_heights known]. apply mem_filter_keep; [exact Hk1|].
  rewrite Hbh, Hbn, EM. reflexivity.
Qed.

(* histories along which the head block never falls below the head header *)
Fixpoint heads_equal_along (fuel : nat) (st : db) (ops : list op) : Prop :=
  match ops with
  | [] => True
  | o :: r => let st1 := fst (fst (step T fuel st o)) in
              hd_block st1 = hd_header st1 /\ heads_equal_along fuel st1 r
  end.

Definition not_set_head (o : op) : Prop := match o with OSetHead _ => False | _ => True end.

Lemma step_strict_nosh : forall fuel st o st' ev e, not_set_head o ->
  step T fuel st o = (st', ev, e) -> Strict st -> hd_block st' = hd_header st' -> Strict st'.
Proof.
  intros fuel st o st' ev e Ho H HS HE. destruct o as [l|h|h|n|] eqn:EO; cbn in Ho; try tauto.
  - eapply step_import_strict; eauto; exact I.
  - eapply step_import_strict; eauto; exact I.
  - eapply step_import_strict; eauto; exact I.
  - cbn [step] in H. destruct HS as (HI & _ & HT). repeat split; auto.
    + eapply restart_inv; eauto.
    + destruct (restart_canon _ _ _ _ _ H) as (E1 & E2). intros n Hn. rewrite E1. apply HT. now rewrite <- E2.
Qed.

Lemma Strict_genesis : Strict genesis_db.
Proof.
  repeat split; auto; [now apply Inv_genesis|]. intros n Hn. cbn.
  destruct (N.eqb_spec n 0); auto. subst. lia.
Qed.

Lemma run_strict_nosh : forall fuel ops st, Forall not_set_head ops -> heads_equal_along fuel st ops ->
  Strict st -> Strict (run T fuel st ops).
Proof.
  induction ops as [|o r IH]; intros st HF HE HS; cbn; auto.
  inversion HF; subst. cbn in HE. destruct HE as (HE1 & HEr).
  apply IH; auto. destruct (step T fuel st o) as [[st1 ev] e] eqn:ES. cbn in *. eapply step_strict_nosh; eauto.
Qed.

Lemma step_strict2 : forall fuel st o st' ev e,
  step T fuel st o = (st', ev, e) -> Strict2 st -> hd_block st' = hd_header st' -> Strict2 st'.
Proof.
  intros fuel st o st' ev e H HS HE. destruct o as [l|h|h|n|] eqn:EO.
  - eapply step_import_strict2; eauto; exact I.
  - eapply step_import_strict2; eauto; exact I.
  - eapply step_import_strict2; eauto; exact I.
  - cbn [step] in H. eapply set_head_strict2; eauto.
  - destruct HS as (HS & HKc). split; [eapply (step_strict_nosh fuel st ORestart); eauto; exact I|].
    cbn [step] in H. destruct (restart_canon _ _ _ _ _ H) as (E1 & _).
    pose proof (restart_known _ _ _ _ _ H) as E2.
    intros k h Hc. unfold is_known. rewrite E2. rewrite E1 in Hc. exact (HKc k h Hc).
Qed.

Lemma Strict2_genesis : Strict2 genesis_db.
Proof.
  split; [apply Strict_genesis|]. intros n h Hc. cbn in Hc. destruct (n =? 0); inversion Hc; subst. reflexivity.
Qed.

Lemma run_strict2 : forall fuel ops st, heads_equal_along fuel st ops -> Strict2 st ->
  Strict2 (run T fuel st ops).
Proof.
  induction ops as [|o r IH]; intros st HE HS; cbn; auto.
  cbn in HE. destruct HE as (HE1 & HEr).
  apply IH; auto. destruct (step T fuel st o) as [[st1 ev] e] eqn:ES. cbn in *. eapply step_strict2; eauto.
Qed.

End Top.
