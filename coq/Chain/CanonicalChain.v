(* Chain/CanonicalChain.v — without any condition on the heads: the canonical index is always
   exactly the ancestor chain of ONE block [top] that is the head header or a descendant of
   it; nothing is canonical off that chain (C38). *)
From Coq Require Import List NArith Bool Lia.
From GV Require Import Lib.Tactics Chain.Tree Chain.Canonical Chain.CanonicalProofs Chain.CanonicalInv Chain.CanonicalTop Chain.CanonicalIndex.
Import ListNotations.
Local Open Scope N_scope.

Section OneChain.
Variable T : tree.
Hypothesis Hwf : wf_tree T.
Hypothesis Hgp : forall g, T 0 = Some g -> T (b_parent g) = None.

Notation hdr_ok := (hdr_ok T).
Notation GC := (GC T).

Definition NoneAbove (c : N -> option N) (top : hdr) : Prop := forall n, hnum top < n -> c n = None.

(* [top] carries the whole index and descends from (or is) x *)
Definition chain_through (c : N -> option N) (x : hdr) (top : hdr) : Prop :=
  hdr_ok top /\ GC c top /\ NoneAbove c top /\ IsAnc T top x.

Definition OneChain (st : db) : Prop :=
  exists hb top, T (hd_header st) = Some hb /\ chain_through (canon st) (hd_header st, hb) top.

Definition CH (st : db) : Prop := Inv T st /\ OneChain st /\ Kc st.

(* writeHeadBlock on an index that is one chain leaves one chain, through the new head *)
Lemma whb_onechain : forall fuel s x s' top0, write_head_block fuel s x = Some s' -> hdr_ok x ->
  hdr_ok top0 -> GC (canon s) top0 -> NoneAbove (canon s) top0 -> GC (canon s') x ->
  exists top, chain_through (canon s') x top.
Proof.
  intros fuel s x s' top0 H Hx Ht HG HN HGx.
  pose proof (GC_closed T Hwf Hgp _ _ Ht HG HN) as HCl.
  destruct (whb_spec _ _ _ _ H) as (c1 & Hc & E & _).
  destruct (canon s (hnum x)) as [old|] eqn:ES.
  - destruct (N.eqb_spec old (fst x)) as [->|Hne].
    + (* the block is canonical already: the index does not change *)
      assert (Hr : whb_replaces (canon s) x = false) by (unfold whb_replaces; now rewrite ES, N.eqb_refl).
      assert (Eq : forall n, canon s' n = canon s n).
      { intros n. rewrite (whb_noreplace _ _ _ _ H Hr). unfold upd. destruct (N.eqb_spec n (hnum x)); congruence. }
      assert (Hle : hnum x <= hnum top0).
      { destruct (N.le_gt_cases (hnum x) (hnum top0)); auto. rewrite HN in ES by auto. discriminate. }
      exists top0. refine (conj Ht (conj _ (conj _ (conj Hx (conj Hle _))))).
      * intros n Hn. rewrite Eq. now apply HG.
      * intros n Hn. rewrite Eq. now apply HN.
      * rewrite <- HG by auto. exact ES.
    + exists x. refine (conj Hx (conj HGx (conj _ (IsAnc_refl T x Hx)))).
      intros n Hn. rewrite E, upd_other by lia. unfold whb_clear in Hc. rewrite ES in Hc.
      destruct (N.eqb_spec old (fst x)); [contradiction|].
      apply (del_canon_above _ _ _ _ Hc); [|lia]. intros a m Ha Hm Hnone. apply (HCl (hnum x + 1) a m); auto.
  - exists x. refine (conj Hx (conj HGx (conj _ (IsAnc_refl T x Hx)))).
    intros n Hn. rewrite E, upd_other by lia. unfold whb_clear in Hc. rewrite ES in Hc. inversion Hc; subst c1.
    apply (HCl (hnum x) (hnum x) n); auto; lia.
Qed.

Lemma OneChain_cur : forall st, CH st -> exists cb top,
  cur_hdr T st = Some (hd_block st, cb) /\ hdr_ok (hd_block st, cb) /\ GC (canon st) (hd_block st, cb) /\
  hdr_ok top /\ GC (canon st) top /\ NoneAbove (canon st) top.
Proof.
  intros st (HI & (hb & top & Hh & Ht & HG & HN & HA) & _).
  destruct (Inv_cur T Hwf st HI) as (cb & Hcur & Hcok & HGc). exists cb, top. repeat split; auto.
Qed.

Lemma CH_wkb : forall fuel st x st' ev, CH st -> hdr_ok x -> is_known st (fst x) = true ->
  write_known_block T fuel st x = Ok (st', ev) -> CH st'.
Proof.
  intros fuel st x st' ev HC Hx Hkx H.
  destruct (OneChain_cur st HC) as (cb & top & Hcur & Hcok & HGc & Ht & HG & HN).
  destruct HC as (HI & _ & HK).
  assert (HI' : Inv T st') by exact (wkb_inv T Hwf _ _ _ _ _ HI Hx H).
  assert (Hhead : hd_header st' = fst x).
  { unfold write_known_block in H. destruct (reorg_if_needed T fuel st x) as [[s1 e1]|]; [|discriminate].
    destruct (write_head_block fuel s1 x) as [s2|] eqn:EW; [|discriminate]. inversion H; subst.
    destruct (whb_spec _ _ _ _ EW) as (_ & _ & _ & _ & _ & Eh & _). exact Eh. }
  assert (HGx : GC (canon st') x).
  { destruct (Inv_elim T st' HI') as (hb & bb & Hh & HG' & _). rewrite Hhead in *.
    unfold CanonicalProofs.hdr_ok in Hh, Hx. cbn [fst snd] in Hh. rewrite Hx in Hh. inversion Hh; subst hb.
    destruct x; exact HG'. }
  split; [exact HI'|]. split.
  - (* one chain *)
    assert (exists top', chain_through (canon st') x top') as (top' & Hct).
    { unfold write_known_block, reorg_if_needed in H.
      destruct (b_parent (snd x) =? hd_block st).
      - destruct (write_head_block fuel st x) as [st2|] eqn:EW; [|discriminate]. inversion H; subst.
        eapply whb_onechain; eauto.
      - rewrite Hcur in H.
        destruct (reorg T fuel st (hd_block st, cb) x) as [[st1 ev1]|] eqn:ER; [|discriminate].
        destruct (write_head_block fuel st1 x) as [st2|] eqn:EW; [|discriminate]. inversion H; subst.
        destruct (reorg_GC_top T _ _ _ _ _ _ ER Hcok Hx HGc (GC_closed T Hwf Hgp _ _ Ht HG HN))
          as (p & HGp & Hpo & _ & Habove).
        eapply (whb_onechain _ st1 x st' p); eauto. }
    destruct x as [h b]. exists b, top'. cbn [fst] in Hhead. rewrite Hhead. split; auto.
  - (* canonical blocks stay stored *)
    unfold write_known_block, reorg_if_needed in H.
    assert (W : forall s s', Kc s -> known s = known st -> write_head_block fuel s x = Some s' -> Kc s').
    { intros s s' Hs Es HW n h Hc. destruct (whb_spec _ _ _ _ HW) as (_ & _ & _ & (Ek & _) & _).
      unfold is_known. rewrite Ek, Es.
      destruct (whb_sub _ _ _ _ HW n h Hc) as [[_ ->]|Hc']; [exact Hkx|].
      specialize (Hs n h Hc'). unfold is_known in Hs. now rewrite Es in Hs. }
    destruct (b_parent (snd x) =? hd_block st).
    + destruct (write_head_block fuel st x) as [st2|] eqn:EW; [|discriminate]. inversion H; subst.
      apply (W st st' HK eq_refl EW).
    + rewrite Hcur in H.
      destruct (reorg T fuel st (hd_block st, cb) x) as [[st1 ev1]|] eqn:ER; [|discriminate].
      destruct (write_head_block fuel st1 x) as [st2|] eqn:EW; [|discriminate]. inversion H; subst.
      apply (W st1 st' (reorg_Kc T _ _ _ _ _ _ ER Hkx HK) (proj1 (reorg_frame T _ _ _ _ _ _ ER)) EW).
Qed.

Lemma CH_core : forall st st', canon st' = canon st -> hd_header st' = hd_header st ->
  hd_block st' = hd_block st -> (forall h, is_known st h = true -> is_known st' h = true) ->
  CH st -> CH st'.
Proof.
  intros st st' E1 E2 E3 Hk (HI & (hb & top & Hh & Hct) & HK). split; [eapply Inv_core; eauto|]. split.
  - exists hb, top. now rewrite E1, E2.
  - intros n h Hc. rewrite E1 in Hc. apply Hk. eauto.
Qed.

Lemma CH_wbws : forall st x st1, CH st -> write_block_with_state st x = Ok st1 -> CH st1.
Proof.
  intros st x st1 HC H. destruct (wbws_core _ _ _ H) as (E1 & E2 & E3).
  eapply CH_core; eauto. intros h Hh. now apply (wbws_known _ _ _ h H).
Qed.
Lemma CH_addk : forall st h, CH st -> CH (add_known st h).
Proof.
  intros st h HC. destruct (add_known_core st h) as (E1 & E2 & E3).
  eapply CH_core; eauto. intros k Hk. now apply add_known_known.
Qed.
Lemma CH_rcpt : forall st h, CH st ->
  CH (mkdb (known st) (upd (rcpt st) h true) (avail st) (disk st) (canon st) (lookup st)
           (hd_block st) (hd_header st) (hd_snap st)).
Proof. intros st h H. exact H. Qed.

Lemma step_import_CH : forall fuel st o st' ev e, import_op o ->
  step T fuel st o = (st', ev, e) -> CH st -> CH st'.
Proof. intros. eapply (step_import_gen T CH CH_wbws CH_addk CH_rcpt CH_wkb); eauto. Qed.

Lemma restart_CH : forall fuel st st' ev e, restart T fuel st = (st', ev, e) -> CH st -> CH st'.
Proof.
  intros fuel st st' ev e H (HI & (hb & top & Hh & Hct) & HK).
  destruct (restart_canon T Hgp _ _ _ _ _ H) as (E1 & E2). pose proof (restart_known T Hgp _ _ _ _ _ H) as E3.
  split; [eapply restart_inv; eauto|]. split.
  - exists hb, top. now rewrite E1, E2.
  - intros n h Hc. rewrite E1 in Hc. unfold is_known. rewrite E3. exact (HK n h Hc).
Qed.

(* ---- SetHead ---- *)
Lemma heights_above_cover : forall fuel st a l, heights_above T fuel st a = Some l ->
  forall n, a <= n -> (forall m, a <= m -> m <= n -> any_at T st m = true) -> In n l.
Proof.
  induction fuel as [|f IH]; intros st a l H n Han Hall; [discriminate|].
  cbn in H. rewrite (Hall a) in H by lia.
  destruct (heights_above T f st (a + 1)) as [l'|] eqn:E; [|discriminate]. inversion H; subst.
  destruct (N.eq_dec n a) as [->|Hne]; [now left|]. right.
  eapply IH; eauto; [lia|]. intros m H1 H2. apply Hall; lia.
Qed.

Lemma any_at_canon : forall st top n, Kc st -> hdr_ok top -> GC (canon st) top -> n <= hnum top ->
  any_at T st n = true.
Proof.
  intros st top n HK Ht HG Hn. unfold any_at.
  destruct (anc T (fst top) n) as [h|] eqn:EA; [|exfalso; revert EA; eapply (anc_some T Hwf); eauto].
  destruct (anc_down T Hwf _ top n h Ht eq_refl Hn EA) as (bh & Hb & Hnum & _).
  apply existsb_exists. exists h. split.
  - apply mem_iff. apply (HK n). now rewrite HG.
  - rewrite Hb. now apply N.eqb_eq.
Qed.

Lemma set_head_loop_first : forall fuel st g target st' dels' top,
  set_head_loop T fuel st g target true [] = Ok (st', dels') ->
  Inv T st -> Kc st -> is_genesis T g ->
  hdr_ok top -> GC (canon st) top -> NoneAbove (canon st) top ->
  (st' = st /\ dels' = []) \/
  (known st' = known st /\ forall n, num_of T (hd_header st') < n -> In n dels' \/ canon st n = None).
Proof.
  intros fuel st g target st' dels' top H HI HKc Hg Ht HGt HNt.
  destruct fuel as [|f]; [discriminate|]. cbn [set_head_loop] in H.
  destruct (Inv_elim T st HI) as (hb & bb & Hh & HG & HA).
  pose proof Hh as Hh'. unfold CanonicalProofs.hdr_ok in Hh'. cbn [fst snd] in Hh'. rewrite Hh' in H.
  destruct (b_number hb <=? target) eqn:ET.
  - inversion H; subst. now left.
  - right. apply N.leb_gt in ET.
    set (hdr0 := (hd_header st, hb)) in *.
    assert (HPS : parent_hdr T st hdr0 <> None).
    { apply (parent_hdr_some T Hwf); auto; [unfold hdr0, hnum; cbn; lia|].
      intros p Hp. pose proof Hp as (Hpo & _ & Hnum). apply (HKc (hnum p)).
      rewrite HG by lia. rewrite (anc_parent T hdr0 p (hnum p) Hh Hp) by lia. now apply anc_self. }
    destruct (parent_hdr T st hdr0) as [parent|] eqn:EP; [|congruence].
    pose proof (parent_hdr_spec T _ _ _ EP) as Hpar. pose proof Hpar as (Hpo & _ & Hnum).
    assert (Hnum' : hnum parent + 1 = b_number hb) by (unfold hdr0, hnum in *; cbn [snd] in *; lia).
    assert (HAP : IsAnc T hdr0 parent) by (now apply IsAnc_parent).
    assert (Hcur : cur_hdr T st = Some (hd_block st, bb)).
    { unfold cur_hdr. destruct HA as (Hbo & _). unfold CanonicalProofs.hdr_ok in Hbo. cbn in Hbo. now rewrite Hbo. }
    rewrite Hcur in H.
    match type of H with context [match ?X with Err e => Err e | Ok nb => _ end] =>
      destruct X as [nb|] eqn:ENB; [|discriminate] end.
    assert (HNB : exists nbb, IsAnc T parent (nb, nbb)).
    { destruct (hnum parent <=? hnum (hd_block st, bb)) eqn:EL.
      - destruct (rewind T (S f) st g parent) as [nh|] eqn:ER; [|discriminate].
        inversion ENB; subst. exists (snd nh). destruct nh; cbn. eapply rewind_anc; eauto.
      - inversion ENB; subst. exists bb. apply N.leb_gt in EL.
        pose proof HA as (Hbo & Hble & Hba). repeat split; auto; [lia|].
        rewrite (IsAnc_below T Hwf hdr0 parent Hh HAP) by lia. exact Hba. }
    destruct HNB as (nbb & HNB).
    match type of H with context [match ?X with None => Err EOutOfFuel | Some up => _ end] =>
      destruct X as [up|] eqn:EUP; [|discriminate] end.
    match type of H with set_head_loop T f ?s1 g target false ?dd = _ =>
      assert (HI1 : Inv T s1);
      [ eapply (Inv_intro T _ parent (nb, nbb)); eauto; try reflexivity;
        cbn [canon]; exact (GC_anc T Hwf _ hdr0 parent Hh HG HAP)
      | assert (HC1 : forall n, num_of T (hd_header s1) < n -> In n dd \/ canon s1 n = None) ] end.
    { intros n Hn. cbn [hd_header canon app] in *. rewrite (num_of_ok T parent Hpo) in Hn.
      destruct (N.eq_dec n (b_number hb)) as [->|Hne].
      - left. apply in_or_app. right. now left.
      - (* above the old head header: either nothing canonical, or a stored height that the
           first iteration wipes *)
        destruct (N.le_gt_cases n (hnum top)) as [Hle|Hgt]; [|right; now apply HNt].
        left. apply in_or_app. left. apply -> in_rev.
        apply (heights_above_cover _ _ _ _ EUP n); [lia|].
        intros m _ Hm. apply (any_at_canon st top m HKc Ht HGt). lia. }
    destruct (set_head_loop_top T Hwf Hgp _ _ _ _ _ _ _ _ H HI1 HKc Hg HC1) as (Ek & Hcov').
    split; auto.
Qed.

Lemma set_head_CH : forall fuel st target st' ev e, set_head T fuel st target = (st', ev, e) -> CH st -> CH st'.
Proof.
  intros fuel st target st' ev e H (HI & (hb0 & top & Hh0 & Ht & HGt & HNt & HAt) & HKc).
  pose proof (set_head_inv T Hwf _ _ _ _ _ _ H HI) as HI'.
  unfold set_head in H.
  remember (T 0) as t0 eqn:EG in H. symmetry in EG.
  destruct t0 as [gb|]; [|inversion H; subst; split; [auto | split; [exists hb0, top; split; [exact Hh0 | exact (conj Ht (conj HGt (conj HNt HAt)))] | auto]]].
  destruct (set_head_loop T fuel st (0, gb) target true []) as [[st1 dels]|] eqn:EL;
    [|inversion H; subst; split; [auto | split; [exists hb0, top; split; [exact Hh0 | exact (conj Ht (conj HGt (conj HNt HAt)))] | auto]]].
  pose proof (genesis_is T Hwf _ EG) as Hg.
  destruct (set_head_loop_inv T Hwf _ _ _ _ _ _ _ _ EL HI Hg) as (HI1 & EC1 & HD1); [intros d []|].
  assert (Est : st' = delete_heights T st1 dels).
  { destruct (negb (is_known (delete_heights T st1 dels) (hd_block (delete_heights T st1 dels))));
      inversion H; subst; auto. }
  subst st'. clear H. split; [exact HI'|].
  destruct (set_head_loop_first _ _ _ _ _ _ top EL HI HKc Hg Ht HGt HNt) as [(-> & ->)|(EK1 & Hcov)].
  - (* the loop did not run: nothing is deleted *)
    split.
    + exists hb0, top. cbn [delete_heights hd_header canon]. split; auto.
      refine (conj Ht (conj _ (conj _ HAt))); intros n Hn; cbn; [now apply HGt | now apply HNt].
    + intros n h Hc. cbn [delete_heights canon] in Hc. cbn in Hc.
      unfold is_known. cbn [delete_heights known]. apply mem_filter_keep; [exact (HKc n h Hc)|].
      destruct (T h); reflexivity.
  - destruct (Inv_elim T st1 HI1) as (hb & bb & Hh & HG & HA).
    assert (Hnone : forall n, hnum (hd_header st1, hb) < n -> canon (delete_heights T st1 dels) n = None).
    { intros n Hn. cbn [delete_heights canon]. destruct (mem n dels) eqn:EM; auto.
      destruct (Hcov n) as [Hin|Hno].
      - pose proof (num_of_ok T (hd_header st1, hb) Hh) as En. cbn [fst] in En. now rewrite En.
      - apply In_mem in Hin. congruence.
      - now rewrite EC1. }
    split.
    + exists hb, (hd_header st1, hb). cbn [delete_heights hd_header]. split; [exact Hh|].
      refine (conj Hh (conj _ (conj Hnone (IsAnc_refl T _ Hh)))).
      intros n Hn. cbn [delete_heights canon]. destruct (mem n dels) eqn:EM; [|now apply HG].
      exfalso. apply mem_In in EM. specialize (HD1 n EM).
      pose proof (num_of_ok T (hd_header st1, hb) Hh) as En. cbn [fst] in En. rewrite En in HD1. lia.
    + intros n h Hc.
      assert (Hle : n <= hnum (hd_header st1, hb)).
      { destruct (N.le_gt_cases n (hnum (hd_header st1, hb))) as [|Hgt]; auto. rewrite Hnone in Hc by auto. discriminate. }
      cbn [delete_heights canon] in Hc. destruct (mem n dels) eqn:EM; [discriminate|].
      assert (Hk1 : is_known st1 h = true) by (unfold is_known; rewrite EK1; apply (HKc n); now rewrite <- EC1).
      rewrite HG in Hc by auto.
      destruct (anc_down T Hwf _ (hd_header st1, hb) n h Hh eq_refl Hle Hc) as (bh & Hbh & Hbn & _).
      unfold is_known. cbn [delete_heights known]. apply mem_filter_keep; [exact Hk1|].
      rewrite Hbh, Hbn, EM. reflexivity.
Qed.

Lemma step_CH : forall fuel st o st' ev e, step T fuel st o = (st', ev, e) -> CH st -> CH st'.
Proof.
  intros fuel st o st' ev e H HC. destruct o as [l|h|h|n|] eqn:EO.
  - eapply step_import_CH; eauto; exact I.
  - eapply step_import_CH; eauto; exact I.
  - eapply step_import_CH; eauto; exact I.
  - cbn [step] in H. eapply set_head_CH; eauto.
  - cbn [step] in H. eapply restart_CH; eauto.
Qed.

Lemma CH_genesis : CH genesis_db.
Proof.
  destruct (Strict2_genesis T Hwf) as ((HI & _ & HT) & HK). split; [exact HI|]. split; [|exact HK].
  destruct Hwf as ((g & Hg & Hg0) & _). exists g, (0, g). split; [exact Hg|].
  assert (Hgo : hdr_ok (0, g)) by exact Hg.
  refine (conj Hgo (conj _ (conj _ (IsAnc_refl T _ Hgo)))).
  - intros n Hn. unfold hnum in Hn. cbn in Hn. assert (n = 0) by lia. subst n. cbn.
    unfold anc. rewrite Hg, Hg0. cbn. now rewrite Hg.
  - intros n Hn. unfold hnum in Hn. cbn in Hn. cbn. destruct (N.eqb_spec n 0); auto. lia.
Qed.

Lemma run_CH : forall fuel ops st, CH st -> CH (run T fuel st ops).
Proof.
  induction ops as [|o r IH]; intros st HC; cbn; auto.
  apply IH. destruct (step T fuel st o) as [[st1 ev] e] eqn:ES. cbn. eapply step_CH; eauto.
Qed.

(* in the property's words *)
Lemma CH_statement : forall st, CH st ->
  exists hb top tb, T (hd_header st) = Some hb /\ T top = Some tb /\ b_number hb <= b_number tb /\
    anc T top (b_number hb) = Some (hd_header st) /\
    (forall n, n <= b_number tb -> canon st n = anc T top n) /\
    (forall n, b_number tb < n -> canon st n = None) /\
    (forall n h, canon st n = Some h -> is_known st h = true).
Proof.
  intros st (_ & (hb & [th tb] & Hh & Ht & HG & HN & (_ & Hle & Ha)) & HK).
  exists hb, th, tb. repeat split; auto.
Qed.

End OneChain.
