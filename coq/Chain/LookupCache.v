(* Chain/LookupCache.v -- BlockChain.txLookupCache, the cache behind the public lookup path
   BlockChain.GetCanonicalTransaction (C38).  Definitions only. *)
From Coq Require Import List NArith Bool.
From GV Require Import Chain.Tree Chain.Canonical.
Import ListNotations.
Local Open Scope N_scope.

(* BlockChain.txLookupCache as the harness drives it: after every operation it asks
   GetCanonicalTransaction for every tx of the case; a hit is answered from the cache, a
   miss from the index (rawdb.ReadCanonicalTransaction) and, when found, cached.  The cache
   is emptied by reorg and SetHead ([EvPurge]) and does not survive a restart. *)
Definition cache : Type := list (N * (N * N)).
Fixpoint cache_get (c : cache) (tx : N) : option (N * N) :=
  match c with
  | [] => None
  | (t, v) :: r => if t =? tx then Some v else cache_get r tx
  end.
Definition answer (T : tree) (st : db) (c : cache) (tx : N) : option (N * N) :=
  match cache_get c tx with Some v => Some v | None => resolve_tx T st tx end.
Definition refresh (T : tree) (st : db) (c : cache) (txids : list N) : cache :=
  fold_left (fun acc tx => match cache_get acc tx with
                           | Some _ => acc
                           | None => match resolve_tx T st tx with Some v => (tx, v) :: acc | None => acc end
                           end) txids c.
(* [legacy] = the code before /repo 34cd8539c8: writeHeadBlock never purged the cache *)
Definition purges (legacy : bool) (o : op) (evs : list event) : bool :=
  (match o with ORestart => true | _ => false end) ||
  existsb (fun ev => match ev with
                     | EvPurge => true
                     | EvPurgeReplace => negb legacy
                     | _ => false end) evs.

(* the cached answers for [txids] after a history, queried after every operation *)
Fixpoint run_cache (legacy : bool) (T : tree) (fuel : nat) (txids : list N) (st : db) (c : cache)
                   (ops : list op) : db * cache :=
  match ops with
  | [] => (st, c)
  | o :: r => let out := step T fuel st o in
              let st1 := fst (fst out) in
              let c1 := if purges legacy o (snd (fst out)) then [] else c in
              run_cache legacy T fuel txids st1 (refresh T st1 c1 txids) r
  end.

