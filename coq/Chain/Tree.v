(* Chain/Tree.v — the block tree over which core.BlockChain operates (C38).

   A block hash is an [N]; the tree maps a hash to (parent hash, number, the
   transaction ids of the body, the log ids of its receipts).  This is the
   immutable universe of blocks that may ever be handed to the chain; which of
   them are in the database is part of the DB state (Chain/Canonical.v).
   Definitions only — proofs live in Chain/CanonicalProofs.v. *)
From Coq Require Import List NArith Bool.
Import ListNotations.
Local Open Scope N_scope.

Record block := mkblock {
  b_parent : N;           (* header.ParentHash *)
  b_number : N;           (* header.Number *)
  b_txs    : list N;      (* body transactions (tx hashes), in block order *)
  b_logs   : list N       (* logs of the block's receipts, in receipt/log order *)
}.

Definition tree := N -> option block.

(* the k-th parent of h (k = 0: h itself), None if the walk leaves the tree *)
Fixpoint nth_parent (T : tree) (k : nat) (h : N) : option N :=
  match T h with
  | None => None
  | Some b => match k with
              | O => Some h
              | S k' => nth_parent T k' (b_parent b)
              end
  end.

(* the ancestor of h (inclusive) at height n *)
Definition anc (T : tree) (h n : N) : option N :=
  match T h with
  | None => None
  | Some b => if n <=? b_number b then nth_parent T (N.to_nat (b_number b - n)) h else None
  end.

(* the k blocks ending at h, oldest first: [.. ; parent h ; h] *)
Fixpoint seg (T : tree) (k : nat) (h : N) : list N :=
  match k with
  | O => []
  | S k' => match T h with
            | None => []
            | Some b => seg T k' (b_parent b) ++ [h]
            end
  end.

Definition num_of (T : tree) (h : N) : N :=
  match T h with Some b => b_number b | None => 0 end.

Definition logs_of_hash (T : tree) (h : N) : list N :=
  match T h with Some b => b_logs b | None => [] end.
Definition txs_of_hash (T : tree) (h : N) : list N :=
  match T h with Some b => b_txs b | None => [] end.

(* Well-formed tree: hash 0 is the genesis (the only block of number 0); every
   other block's parent is in the tree, one lower.  (Guaranteed for real blocks
   by header verification: number = parent.number + 1.) *)
Definition wf_tree (T : tree) : Prop :=
  (exists g, T 0 = Some g /\ b_number g = 0) /\
  (forall h b, T h = Some b ->
     (b_number b = 0 /\ h = 0) \/
     (0 < b_number b /\ exists p, T (b_parent b) = Some p /\ b_number p + 1 = b_number b)).

(* No transaction occurs twice on a branch (guaranteed for real chains by the
   account nonce): stated on ancestor paths. *)
Definition txs_unique_on_paths (T : tree) : Prop :=
  forall h k, NoDup (flat_map (txs_of_hash T) (seg T k h)).

Definition tree_of_list (l : list (N * block)) : tree :=
  fun h => match find (fun p => fst p =? h) l with Some p => Some (snd p) | None => None end.
