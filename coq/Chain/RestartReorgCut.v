(* Chain/RestartReorgCut.v — C39: the crash cut right before a head-marker batch AFTER a
   reorg.  With the repaired reorg (head markers pulled down in the batch that deletes the
   canonical markers) the image satisfies C38's invariant and every canonical block is
   stored; hence all the restart theorems extend to every cut of every history. *)
From Coq Require Import List NArith Bool Lia.
From GV Require Import Lib.Tactics Chain.Tree Chain.Canonical Chain.CanonicalProofs Chain.CanonicalInv Chain.CanonicalTop Chain.Restart Chain.RestartProofs Chain.RestartCuts.
Import ListNotations.
Local Open Scope N_scope.

Section R.
Variable T : tree.
Hypothesis Hwf : wf_tree T.
Hypothesis Hgp : forall g, T 0 = Some g -> T (b_parent g) = None.

Notation hdr_ok := (hdr_ok T).
Notation GC := (GC T).
Notation Inv := (Inv T).
Notation Strict2 := (Strict2 T).

Lemma fold_whb_heads : forall fuel l a st st', fold_whb fuel (l ++ [a]) st = Some st' ->
  hd_block st' = fst a /\ hd_header st' = fst a.
Proof.
  intros fuel l a st st' H. rewrite fold_whb_snoc in H.
  destruct (fold_whb fuel l st) as [s|]; [|discriminate].
  destruct (whb_spec _ _ _ _ H) as (_ & _ & _ & _ & E1 & E2 & _). auto.
Qed.

Lemma down_same : forall x l y, down T x l y -> hnum y = hnum x -> y = x.
Proof.
  intros x l y H E. destruct H as [x|x p l y Hx Hp Hd]; auto.
  apply (down_hnum T) in Hd. destruct Hp as (_ & _ & Hn). lia.
Qed.

(* reorg, with its witnesses: the walk, the new top [reorg_top c nc], the index rebuilt up
   to it and empty above, and where the head markers are afterwards *)
Lemma reorg_explicit : forall fuel st old new st' evs,
  reorg T fuel st old new = Ok (st', evs) -> hdr_ok old -> hdr_ok new -> GC (canon st) old ->
  (forall k, Closed (canon st) k) ->
  exists c oc nc, reorg_walk T fuel st old new = Ok (c, oc, nc) /\ down T old oc c /\
    hdr_ok (reorg_top c nc) /\ GC (canon st') (reorg_top c nc) /\
    (forall n, hnum (reorg_top c nc) < n -> canon st' n = None) /\
    (tl nc = [] -> hd_block st' = hd_block st /\ hd_header st' = hd_header st /\ reorg_top c nc = c) /\
    (tl nc <> [] -> hd_block st' = fst (reorg_top c nc) /\ hd_header st' = fst (reorg_top c nc)).
Proof.
  intros fuel st old new st' evs H Ho Hn HG HT.
  rewrite reorg_unfold in H.
  destruct (reorg_walk T fuel st old new) as [[[c oc] nc]|] eqn:EW; [|discriminate].
  destruct (reorg_walk_spec T _ _ _ _ _ _ _ EW Ho Hn) as (Hdo & Hdn & Hc).
  cbv zeta in H.
  destruct (fold_whb fuel (rev (tl nc)) st) as [st1|] eqn:EF; [|discriminate].
  match type of H with context [del_canon_from fuel ?cc ?ii] =>
    destruct (del_canon_from fuel cc ii) as [c'|] eqn:ED; [|discriminate] end.
  destruct (reorg_top_spec T _ _ _ Hdn Hn) as (Hp & Hcase & Hdp).
  assert (Hnum : (match nc with _ :: x1 :: _ => hnum x1 | _ => hnum c end) = hnum (reorg_top c nc))
    by (unfold reorg_top; destruct nc as [|? [|? ?]]; reflexivity).
  rewrite Hnum in ED.
  assert (G1 : GC (canon st1) (reorg_top c nc)).
  { eapply (fold_whb_GC T); eauto.
    intros n Hle. rewrite HG by (apply (down_hnum T) in Hdo; lia). eapply (down_anc T); eauto. }
  pose proof (fold_whb_closed T _ _ _ _ _ _ Hdp EF (fun k _ => HT k)) as HC1.
  inversion H; subst st' evs; clear H.
  exists c, oc, nc. split; [reflexivity|]. split; [exact Hdo|]. split; [exact Hp|].
  split; [|split; [|split]].
  - intros n Hle. cbn [canon set_canon]. rewrite (del_canon_below _ _ _ _ ED n) by lia. now apply G1.
  - intros n Hlt. cbn [canon set_canon].
    apply (del_canon_above _ _ _ _ ED); [|lia].
    intros a m Ha Hle Hnone. cbn [canon set_lookup] in *.
    apply (HC1 (hnum (reorg_top c nc) + 1) ltac:(lia) a m); auto.
  - intros Etl. rewrite Etl in EF. cbn in EF. inversion EF; subst st1. cbn.
    split; [reflexivity|]. split; [reflexivity|].
    destruct nc as [|a [|b r]]; cbn in Etl; try discriminate; reflexivity.
  - intros Hne. destruct nc as [|a [|b r]]; cbn in Hne; try contradiction.
    cbn [tl rev] in EF. apply fold_whb_heads in EF. cbn. exact EF.
Qed.

Lemma reorg_number_walk : forall fuel st old new,
  reorg_number T fuel st old new =
  match reorg_walk T fuel st old new with
  | Ok (c, _, nc) => Some (hnum (reorg_top c nc))
  | Err _ => None
  end.
Proof.
  intros fuel st old new. unfold reorg_number, reorg_walk.
  destruct (hnum new <? hnum old).
  - destruct (reduce T fuel st (Some old) (hnum new) []) as [[[o|] oc0]|]; auto.
    destruct (find_common T fuel st o new oc0 []) as [[[c oc] nc]|]; auto.
    destruct nc as [|? [|? ?]]; reflexivity.
  - destruct (reduce T fuel st (Some new) (hnum old) []) as [[[n|] nc0]|]; auto.
    destruct (find_common T fuel st old n [] nc0) as [[[c oc] nc]|]; auto.
    destruct nc as [|? [|? ?]]; reflexivity.
Qed.

(* the database between reorg's last batch and the caller's head write (repaired code) *)
Lemma bhw_inv : forall fuel st x st', before_head_write T false fuel st x = Some st' ->
  Strict2 st -> hdr_ok x -> is_known st (fst x) = true -> Inv st' /\ Kc st'.
Proof.
  intros fuel st x st' H ((HI & HE & HT) & HK) Hx Hkx. unfold before_head_write in H.
  destruct (b_parent (snd x) =? hd_block st); [inversion H; subst; split; auto|].
  destruct (Inv_cur T Hwf st HI) as (cb & Hcur & Hcok & HGc). rewrite Hcur in H.
  destruct (reorg T fuel st (hd_block st, cb) x) as [[s1 ev1]|] eqn:ER; [|discriminate].
  destruct (reorg_number T fuel st (hd_block st, cb) x) as [number|] eqn:EN; [|discriminate].
  assert (Hnumh : num_of T (hd_header st) = hnum (hd_block st, cb))
    by (rewrite <- HE; apply (num_of_ok T (hd_block st, cb)); auto).
  assert (HTc : forall n, hnum (hd_block st, cb) < n -> canon st n = None)
    by (intros n Hn; apply HT; now rewrite Hnumh).
  pose proof (GC_closed T Hwf Hgp _ _ Hcok HGc HTc) as HCl.
  destruct (reorg_explicit _ _ _ _ _ _ ER Hcok Hx HGc HCl)
    as (c & oc & nc & EW & Hdo & Hp & HGp & Hnone & Hshort & Hlong).
  rewrite reorg_number_walk, EW in EN. inversion EN; subst number; clear EN.
  set (p := reorg_top c nc) in *.
  assert (HK1 : Kc s1) by (eapply (reorg_Kc T); eauto).
  assert (Ecp : canon s1 (hnum p) = Some (fst p)).
  { rewrite HGp by lia. now apply anc_self. }
  assert (HIp : forall s, canon s = canon s1 -> hd_header s = fst p -> hd_block s = fst p -> Inv s).
  { intros s E1 E2 E3. apply (Inv_intro T s p p Hp); auto.
    - now rewrite E1.
    - now apply IsAnc_refl. }
  rewrite Ecp in H.
  destruct (canon st (hnum p + 1)) as [w|] eqn:EW1.
  - inversion H; subst st'. split; [apply HIp; reflexivity|exact HK1].
  - inversion H; subst st'. split; [|exact HK1].
    destruct (tl nc) as [|t0 tr] eqn:Etl.
    + destruct (Hshort eq_refl) as (Eb & Eh & Epc).
      (* nothing was indexed above the common block: it is the old head itself *)
      assert (Hle : hnum c <= hnum (hd_block st, cb)) by (apply (down_hnum T) in Hdo; exact Hdo).
      assert (Hge : hnum (hd_block st, cb) <= hnum c).
      { destruct (N.le_gt_cases (hnum (hd_block st, cb)) (hnum c)) as [|Hgt]; auto. exfalso.
        assert (Epc' : p = c) by exact Epc. rewrite ?Epc', ?Epc in EW1. rewrite HGc in EW1 by lia.
        revert EW1. eapply (anc_some T Hwf); eauto. lia. }
      assert (Ec : c = (hd_block st, cb)) by (eapply down_same; eauto; lia).
      apply HIp; auto.
      * rewrite Eh, <- HE. assert (Epc' : p = c) by exact Epc. rewrite Epc', Ec. reflexivity.
      * rewrite Eb. assert (Epc' : p = c) by exact Epc. rewrite Epc', Ec. reflexivity.
    + assert (Hne : t0 :: tr <> []) by discriminate.
      destruct (Hlong Hne) as (Eb & Eh). apply HIp; auto.
Qed.

(* ALL histories, ALL cuts (repaired code): the image satisfies the invariant and every
   canonical block is stored *)
Lemma crash_state_inv : forall cf fuel ops c p es,
  c_legacy_reorg cf = false ->
  run_to_cut T cf fuel (mkp genesis_db 0) ops c = (ROk p, es) ->
  Inv (kv p) /\ Kc (kv p).
Proof.
  intros cf fuel ops c p es Hleg H.
  destruct c as [|x|x].
  - destruct (crash_state_strict2 T Hwf Hgp _ _ _ _ _ _ H) as ((HI & _) & HK); [discriminate|]. split; auto.
  - destruct (crash_state_strict2 T Hwf Hgp _ _ _ _ _ _ H) as ((HI & _) & HK); [discriminate|]. split; auto.
  - unfold run_to_cut in H.
    destruct (rev ops) as [|last rinit]; [inversion H; subst; destruct (Strict2_genesis T Hwf) as ((HI & _) & HK); split; auto|].
    destruct (run_ops T (c_path cf) fuel (mkp genesis_db 0) (rev rinit)) as [[p1|y] es1] eqn:ER; [|discriminate].
    pose proof (run_ops_strict2 T Hwf Hgp _ _ _ _ _ _ ER (Strict2_genesis T Hwf)) as HS1.
    destruct (cut_last T (c_path cf) (c_legacy_reorg cf) fuel p1 last (CutHead x)) as [res e] eqn:EC.
    inversion H; subst res es; clear H. rewrite Hleg in EC.
    assert (Hwhole : forall r e0, sstep T (c_path cf) fuel p1 last = (r, e0) -> r = ROk p -> Inv (kv p) /\ Kc (kv p)).
    { intros r e0 E ->. destruct (sstep_strict2 T Hwf Hgp _ _ _ _ _ _ E HS1) as ((HI & _) & HK). split; auto. }
    unfold cut_last in EC. cbv zeta in EC.
    destruct last as [l|h|f]; try (now eapply Hwhole; eauto; inversion EC; eauto).
    destruct (import_cut T false fuel (kv p1) l x true) as [st|] eqn:EI.
    + inversion EC; subst. cbn [kv].
      destruct (import_cut_pre T Hwf Hgp _ _ _ _ _ _ _ EI HS1) as (st2 & b & ET & HS2 & Hkx & _ & E).
      eapply bhw_inv; eauto.
    + destruct (sstep T (c_path cf) fuel p1 (SImport l)) as [r e0] eqn:ES. inversion EC; subst. eapply Hwhole; eauto.
Qed.

End R.

(* the statements exactly as Properties/C39.v gives them *)
Lemma crash_states_linked_all : forall T, wf_tree T -> (forall g, T 0 = Some g -> T (b_parent g) = None) ->
  forall cf fuel ops c p es dur p',
  c_legacy_reorg cf = false ->
  run_to_cut T cf fuel (mkp genesis_db 0) ops c = (ROk p, es) ->
  new_blockchain T cf fuel (crash p dur) = ROk p' ->
  let st := kv p' in
  (dur (hd_block st) = true \/ hd_block st = 0) /\
  exists hb, T (hd_header st) = Some hb /\
    canon st (b_number hb) = Some (hd_header st) /\
    (forall n, n < b_number hb -> exists h b, canon st (n + 1) = Some h /\ T h = Some b /\
                                              b_number b = n + 1 /\ canon st n = Some (b_parent b)) /\
    (exists bb, T (hd_block st) = Some bb /\ b_number bb <= b_number hb /\
                canon st (b_number bb) = Some (hd_block st)).
Proof.
  intros T Hwf Hgp cf fuel ops c p es dur p' Hleg HR HN st.
  destruct (crash_state_inv T Hwf Hgp _ _ _ _ _ _ Hleg HR) as (HI & HK).
  split; [eapply head_has_state_crash; eauto|].
  eapply (restart_linked T Hwf); eauto.
Qed.

Lemma no_loss_crash_all : forall T, wf_tree T -> (forall g, T 0 = Some g -> T (b_parent g) = None) ->
  forall cf fuel ops c p es dur p',
  c_legacy_reorg cf = false ->
  run_to_cut T cf fuel (mkp genesis_db 0) ops c = (ROk p, es) ->
  new_blockchain T cf fuel (crash p dur) = ROk p' ->
  forall n, n <= num_of T (hd_block (kv p')) ->
    canon (kv p') n = canon (kv p) n /\
    (forall h, canon (kv p) n = Some h -> is_known (kv p') h = true).
Proof.
  intros T Hwf Hgp cf fuel ops c p es dur p' Hleg HR HN n Hn.
  destruct (crash_state_inv T Hwf Hgp _ _ _ _ _ _ Hleg HR) as (HI & HK).
  exact (restart_no_loss T Hwf Hgp _ _ (crash p dur) _ HN HI HK n Hn).
Qed.
