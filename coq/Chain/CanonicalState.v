(* Chain/CanonicalState.v — the head block's state is available after every operation
   (head_has_state), over all histories of the five operations (C38).  The import machinery
   is re-proved here for predicates that need "the block has state" when writeKnownBlock /
   writeHeadBlock is reached (which the code guarantees at every call site). *)
From Coq Require Import List NArith Bool Lia.
From GV Require Import Lib.Tactics Chain.Tree Chain.Canonical Chain.CanonicalProofs Chain.CanonicalInv.
Import ListNotations.
Local Open Scope N_scope.

Lemma wbws_avail : forall st x st1, write_block_with_state st x = Ok st1 ->
  avail st1 (fst x) = true /\ (forall h, avail st h = true -> avail st1 h = true) /\ disk st1 = disk st /\
  hd_block st1 = hd_block st.
Proof.
  intros st x st1 H. unfold write_block_with_state in H.
  destruct (negb (is_known st (b_parent (snd x))) && negb (hnum x =? 0)); [discriminate|].
  inversion H; subst. cbn [avail disk hd_block]. unfold add_known. destruct (is_known st (fst x)); cbn; repeat split; auto.
  all: try apply upd_same. all: intros h Hh; unfold upd; destruct (h =? fst x); auto.
Qed.

Lemma classify_avail : forall st first x, is_CKnown (classify st first x) = true ->
  avail st (fst x) = true.
Proof.
  intros st first x H. unfold classify in H.
  destruct (first && negb (is_known st (b_parent (snd x)))); [discriminate|].
  destruct (is_known st (fst x) && avail st (fst x)) eqn:E; [apply andb_prop in E; tauto|].
  destruct (is_known st (b_parent (snd x)) && avail st (b_parent (snd x))); [discriminate|].
  destruct (negb (is_known st (b_parent (snd x)))); discriminate.
Qed.

Section State.
Variable T : tree.
Notation hdr_ok := (hdr_ok T).

Lemma wkb_frame : forall fuel st x st' ev, write_known_block T fuel st x = Ok (st', ev) ->
  avail st' = avail st /\ disk st' = disk st /\ hd_block st' = fst x.
Proof.
  intros fuel st x st' ev H. unfold write_known_block in H.
  destruct (reorg_if_needed T fuel st x) as [[st1 ev1]|] eqn:ER; [|discriminate].
  destruct (write_head_block fuel st1 x) as [st2|] eqn:EW; [|discriminate]. inversion H; subst.
  destruct (whb_spec _ _ _ _ EW) as (_ & _ & _ & (_ & _ & Ea & Ed) & Eb & _).
  assert (F : avail st1 = avail st /\ disk st1 = disk st).
  { unfold reorg_if_needed in ER. destruct (b_parent (snd x) =? hd_block st); [inversion ER; subst; auto|].
    destruct (cur_hdr T st) as [cur|]; [|discriminate].
    destruct (reorg_frame T _ _ _ _ _ _ ER) as (_ & _ & A & D). auto. }
  destruct F as (A & D). repeat split; congruence.
Qed.

Lemma sw_prefix : forall fuel st z acc r acc',
  stateless_walk T fuel st z acc = Some (r, acc') -> exists rest, acc' = acc ++ rest.
Proof.
  induction fuel as [|f IH]; intros st z acc r acc' H; [discriminate|].
  cbn in H. destruct z as [h|]; [|inversion H; exists []; now rewrite app_nil_r].
  destruct (avail st (fst h)); [inversion H; subst; exists []; now rewrite app_nil_r|].
  destruct (IH _ _ _ _ _ H) as (rest & ->). exists (h :: rest). now rewrite <- app_assoc.
Qed.

Lemma insert_chain0_single_avail : forall fuel s x s' ev,
  insert_chain0 T fuel s false [x] = (s', ev, None) -> avail s' (fst x) = true.
Proof.
  intros fuel s x s' ev H. unfold insert_chain0, insert_chain_core in H.
  set (cn := match cur_hdr T s with Some c => hnum c | None => 0 end) in *.
  destruct (is_CKnown (classify s true x)) eqn:EC.
  - cbn [skip_known] in H. rewrite EC in H.
    destruct ((cn <? hnum x) || negb (oeqb (canon s (hnum x)) (fst x))).
    + cbn [write_knowns] in H. rewrite EC in H.
      destruct (write_known_block T fuel s x) as [[s1 ev1]|] eqn:EK; cbn [write_knowns] in H.
      * cbn in H. inversion H; subst. destruct (wkb_frame _ _ _ _ _ EK) as (Ea & _). rewrite Ea.
        exact (classify_avail _ _ _ EC).
      * cbn in H. inversion H.
    + cbn in H. inversion H; subst. exact (classify_avail _ _ _ EC).
  - destruct (classify s true x) eqn:EC2.
    + cbn [import_loop] in H. rewrite EC2 in H.
      destruct (write_block_with_state s x) as [s1|] eqn:EW; cbn in H; inversion H; subst.
      destruct (wbws_avail _ _ _ EW) as (Ha & _). exact Ha.
    + discriminate.
    + inversion H.
    + inversion H.
Qed.

Lemma recover_each_last : forall fuel x l st evs st' ev,
  recover_each T fuel st (l ++ [x]) evs = (st', ev, None) -> avail st' (fst x) = true.
Proof.
  induction l as [|y r IH]; intros st evs st' ev H; cbn [app recover_each] in H.
  - destruct (insert_chain0 T fuel st false [x]) as [[s1 ev1] e1] eqn:EI.
    destruct e1; [inversion H|]. cbn [recover_each] in H. inversion H; subst.
    eapply insert_chain0_single_avail; eauto.
  - destruct (insert_chain0 T fuel st false [y]) as [[s1 ev1] e1] eqn:EI.
    destruct e1; [inversion H|]. eapply IH; eauto.
Qed.

Lemma recover_avail : forall fuel st x st1 ev1,
  recover_ancestors T fuel st x = (st1, ev1, None) -> avail st (fst x) = false ->
  avail st1 (fst x) = true.
Proof.
  intros fuel st x st1 ev1 H Hna. unfold recover_ancestors in H.
  destruct (stateless_walk T fuel st (Some x) []) as [[[y|] hashes]|] eqn:EW; try (inversion H; fail).
  destruct fuel as [|f]; [discriminate|]. cbn [stateless_walk] in EW. rewrite Hna in EW.
  destruct (sw_prefix _ _ _ _ _ _ EW) as (rest & ->). cbn [app] in H.
  change (x :: rest) with ([x] ++ rest) in H. rewrite rev_app_distr in H. cbn [rev app] in H.
  eapply recover_each_last; eauto.
Qed.

Section GenericA.
Variable P : db -> Prop.
Hypothesis P_wbws : forall st x st1, P st -> write_block_with_state st x = Ok st1 -> P st1.
Hypothesis P_addk : forall st h, P st -> P (add_known st h).
Hypothesis P_rcpt : forall st h, P st ->
  P (mkdb (known st) (upd (rcpt st) h true) (avail st) (disk st) (canon st) (lookup st)
          (hd_block st) (hd_header st) (hd_snap st)).
Hypothesis P_wkb : forall fuel st x st' ev, P st -> hdr_ok x -> is_known st (fst x) = true ->
  avail st (fst x) = true -> write_known_block T fuel st x = Ok (st', ev) -> P st'.

Lemma wbash_gen_a : forall fuel st x st' ev, P st -> hdr_ok x ->
  write_block_and_set_head T fuel st x = Ok (st', ev) -> P st'.
Proof.
  intros fuel st x st' ev HI Hx H. unfold write_block_and_set_head in H.
  destruct (write_block_with_state st x) as [st1|] eqn:EW; [|discriminate].
  destruct (reorg_if_needed T fuel st1 x) as [[st2 ev2]|] eqn:ER; [|discriminate].
  destruct (write_head_block fuel st2 x) as [st3|] eqn:EH; [|discriminate].
  inversion H; subst.
  apply (P_wkb fuel st1 x _ (ev2 ++ whb_purge (canon st2) x) (P_wbws _ _ _ HI EW) Hx
               (proj2 (wbws_known _ _ _ 0 EW)) (proj1 (wbws_avail _ _ _ EW))).
  unfold write_known_block. now rewrite ER, EH.
Qed.

Lemma write_knowns_gen_a : forall fuel l st first last evs st' l' f' last' evs' e',
  write_knowns T fuel st first l last evs = (st', l', f', last', evs', e') ->
  P st -> Forall hdr_ok l -> P st' /\ Forall hdr_ok l'.
Proof.
  induction l as [|x r IH]; intros st first last evs st' l' f' last' evs' e' H HI HF; cbn [write_knowns] in H.
  - inversion H; subst; auto.
  - inversion HF as [|? ? Hx Hr]; subst.
    destruct (is_CKnown (classify st first x)) eqn:EC.
    + destruct (write_known_block T fuel st x) as [[st1 ev]|] eqn:EK.
      * eapply IH; eauto. exact (P_wkb _ _ _ _ _ HI Hx (classify_known _ _ _ EC) (classify_avail _ _ _ EC) EK).
      * inversion H; subst; auto.
    + inversion H; subst; auto.
Qed.

Lemma import_loop_gen_a : forall fuel sh l st first last evs st' last' evs' e',
  import_loop T fuel st sh first l last evs = (st', last', evs', e') ->
  P st -> Forall hdr_ok l -> P st'.
Proof.
  induction l as [|x r IH]; intros st first last evs st' last' evs' e' H HI HF; cbn [import_loop] in H.
  - inversion H; subst; auto.
  - inversion HF as [|? ? Hx Hr]; subst.
    destruct (classify st first x) eqn:EC.
    + destruct sh.
      * destruct (write_block_and_set_head T fuel st x) as [[st1 ev]|] eqn:EW.
        -- eapply IH; eauto. eapply wbash_gen_a; eauto.
        -- inversion H; subst; auto.
      * destruct (write_block_with_state st x) as [st1|] eqn:EW; inversion H; subst; eauto.
    + assert (HK : is_known st (fst x) = true) by (eapply classify_known; rewrite EC; reflexivity).
      assert (HA : avail st (fst x) = true) by (eapply classify_avail; rewrite EC; reflexivity).
      match type of H with context [write_known_block T fuel ?s0 x] => set (st0 := s0) in * end.
      assert (HI0 : P st0 /\ is_known st0 (fst x) = true /\ avail st0 (fst x) = true).
      { subst st0. destruct (b_txs (snd x)); repeat split; auto. }
      destruct HI0 as (HI0 & HK0 & HA0).
      destruct (write_known_block T fuel st0 x) as [[st1 ev]|] eqn:EK.
      * eapply IH; [exact H | | exact Hr]. exact (P_wkb _ _ _ _ _ HI0 Hx HK0 HA0 EK).
      * inversion H; subst; auto.
    + inversion H; subst; auto.
    + inversion H; subst; auto.
Qed.

Definition pruned_ok_a (pruned : db -> bool -> list hdr -> outcome) : Prop :=
  forall st sh l st' ev e, pruned st sh l = (st', ev, e) -> P st -> Forall hdr_ok l -> P st'.

Lemma insert_chain_core_gen_a : forall pruned fuel st sh l st' ev e, pruned_ok_a pruned ->
  insert_chain_core T pruned fuel st sh l = (st', ev, e) ->
  P st -> Forall hdr_ok l -> P st'.
Proof.
  intros pruned fuel st sh l st' ev e Hpr H HI HF. unfold insert_chain_core in H.
  destruct l as [|x0 l0]; [inversion H; subst; auto|].
  set (cn := match cur_hdr T st with Some c => hnum c | None => 0 end) in *.
  destruct (is_CKnown (classify st true x0)).
  - destruct (skip_known st cn true (x0 :: l0)) as [l1 first1] eqn:ES.
    pose proof (skip_known_ok T _ _ _ _ _ _ ES HF) as HF1.
    destruct (write_knowns T fuel st first1 l1 None []) as [[[[[st2 l2] first2] last] evs] e2] eqn:EWK.
    destruct (write_knowns_gen_a _ _ _ _ _ _ _ _ _ _ _ _ EWK HI HF1) as (HI2 & HF2).
    destruct e2 as [e2|]; [inversion H; subst; auto|].
    destruct l2 as [|x l2']; [inversion H; subst; auto|].
    destruct (classify st2 first2 x).
    + destruct (import_loop T fuel st2 sh first2 (x :: l2') last evs) as [[[st3 last3] ev3] e3] eqn:EI.
      inversion H; subst. eapply import_loop_gen_a; eauto.
    + destruct (import_loop T fuel st2 sh first2 (x :: l2') last evs) as [[[st3 last3] ev3] e3] eqn:EI.
      inversion H; subst. eapply import_loop_gen_a; eauto.
    + inversion H; subst; auto.
    + destruct (pruned st2 sh (x :: l2')) as [[st3 ev3] e3] eqn:EP.
      inversion H; subst. eapply Hpr; eauto.
  - destruct (classify st true x0).
    + destruct (import_loop T fuel st sh true (x0 :: l0) None []) as [[[st3 last3] ev3] e3] eqn:EI.
      inversion H; subst. eapply import_loop_gen_a; eauto.
    + destruct (import_loop T fuel st sh true (x0 :: l0) None []) as [[[st3 last3] ev3] e3] eqn:EI.
      inversion H; subst. eapply import_loop_gen_a; eauto.
    + inversion H; subst; auto.
    + destruct (pruned st sh (x0 :: l0)) as [[st3 ev3] e3] eqn:EP.
      inversion H; subst. eapply Hpr; eauto.
Qed.

Lemma insert_chain0_gen_a : forall fuel st sh l st' ev e,
  insert_chain0 T fuel st sh l = (st', ev, e) -> P st -> Forall hdr_ok l -> P st'.
Proof.
  intros. eapply insert_chain_core_gen_a; eauto.
  intros s b l0 s' ev0 e0 Hp. inversion Hp; subst; auto.
Qed.

Lemma side_write_gen_a : forall cn l st prev st' prev', side_write st cn l prev = (st', prev') ->
  P st -> Forall hdr_ok l -> (forall h, prev = Some h -> hdr_ok h) ->
  P st' /\ (forall h, prev' = Some h -> hdr_ok h).
Proof.
  induction l as [|x r IH]; intros st prev st' prev' H HI HF Hp; cbn [side_write] in H.
  - inversion H; subst; auto.
  - inversion HF as [|? ? Hx Hr]; subst.
    destruct (classify st false x); try (inversion H; subst; auto; fail).
    assert (Hsx : forall h, Some x = Some h -> hdr_ok h) by (intros h Hh; inversion Hh; subst; auto).
    destruct ((hnum x <=? cn) && oeqb (canon st (hnum x)) (fst x)).
    + apply (IH _ _ _ _ H HI Hr Hsx).
    + refine (IH _ _ _ _ H _ Hr Hsx).
      destruct (is_known st (fst x)); auto. unfold write_block_without_state. auto.
Qed.

Lemma insert_side_chain_gen_a : forall fuel st l st' ev e,
  insert_side_chain T fuel st l = (st', ev, e) -> P st -> Forall hdr_ok l -> P st'.
Proof.
  intros fuel st l st' ev e H HI HF. unfold insert_side_chain in H.
  set (cn := match cur_hdr T st with Some c => hnum c | None => 0 end) in *.
  destruct (side_write st cn l None) as [st1 prev] eqn:ES.
  destruct (side_write_gen_a _ _ _ _ _ _ ES HI HF) as (HI1 & Hprev); [discriminate|].
  destruct (stateless_walk T fuel st1 prev []) as [[[y|] hashes]|] eqn:EW;
    try (inversion H; subst; auto; fail).
  pose proof (stateless_walk_ok T _ _ _ _ _ _ EW Hprev (Forall_nil _)) as HFh.
  destruct (rev hashes) as [|b0 br] eqn:ER; [inversion H; subst; auto|].
  eapply insert_chain0_gen_a; eauto. rewrite <- ER. now apply Forall_rev'.
Qed.

Lemma recover_each_gen_a : forall fuel l st evs st' ev e,
  recover_each T fuel st l evs = (st', ev, e) -> P st -> Forall hdr_ok l -> P st'.
Proof.
  induction l as [|x r IH]; intros st evs st' ev e H HI HF; cbn [recover_each] in H.
  - inversion H; subst; auto.
  - inversion HF as [|? ? Hx Hr]; subst.
    destruct (insert_chain0 T fuel st false [x]) as [[st1 ev1] e1] eqn:EI.
    assert (HI1 : P st1) by (eapply insert_chain0_gen_a; eauto).
    destruct e1; [inversion H; subst; auto|]. apply (IH _ _ _ _ _ H HI1 Hr).
Qed.

Lemma recover_ancestors_gen_a : forall fuel st x st' ev e,
  recover_ancestors T fuel st x = (st', ev, e) -> P st -> hdr_ok x -> P st'.
Proof.
  intros fuel st x st' ev e H HI Hx. unfold recover_ancestors in H.
  destruct (stateless_walk T fuel st (Some x) []) as [[[y|] hashes]|] eqn:EW;
    try (inversion H; subst; auto; fail).
  eapply recover_each_gen_a; eauto. apply Forall_rev'.
  eapply stateless_walk_ok; eauto. intros h Hh; inversion Hh; subst; auto.
Qed.

Lemma pruned_case_gen_a : forall fuel, pruned_ok_a (pruned_case T fuel).
Proof.
  intros fuel st sh l st' ev e H HI HF. unfold pruned_case in H. destruct sh.
  - eapply insert_side_chain_gen_a; eauto.
  - destruct l as [|x r]; [inversion H; subst; auto|].
    inversion HF; subst. eapply recover_ancestors_gen_a; eauto.
Qed.

Lemma insert_chain_gen_a : forall fuel st sh l st' ev e,
  insert_chain T fuel st sh l = (st', ev, e) -> P st -> Forall hdr_ok l -> P st'.
Proof. intros. eapply insert_chain_core_gen_a; eauto. apply pruned_case_gen_a. Qed.

End GenericA.


Section SetCanonicalA.
Variable P : db -> Prop.
Hypothesis P_wbws : forall st x st1, P st -> write_block_with_state st x = Ok st1 -> P st1.
Hypothesis P_addk : forall st h, P st -> P (add_known st h).
Hypothesis P_rcpt : forall st h, P st ->
  P (mkdb (known st) (upd (rcpt st) h true) (avail st) (disk st) (canon st) (lookup st)
          (hd_block st) (hd_header st) (hd_snap st)).
Hypothesis P_wkb : forall fuel st x st' ev, P st -> hdr_ok x -> is_known st (fst x) = true ->
  avail st (fst x) = true -> write_known_block T fuel st x = Ok (st', ev) -> P st'.

Lemma set_canonical_gen_a : forall fuel st x st' ev e,
  set_canonical T fuel st x = (st', ev, e) -> P st -> hdr_ok x -> is_known st (fst x) = true -> P st'.
Proof.
  intros fuel st x st' ev e H HI Hx HK. unfold set_canonical in H.
  destruct (if avail st (fst x) then (st, [], None) else recover_ancestors T fuel st x)
    as [[st1 ev1] e1] eqn:ER.
  assert (W1 : forall s y s1, WithKnown P (fst x) s -> write_block_with_state s y = Ok s1 -> WithKnown P (fst x) s1).
  { intros s y s1 (Hp & Hk) Hw. split; [eauto|]. apply (wbws_known _ _ _ _ Hw); auto. }
  assert (W2 : forall s h, WithKnown P (fst x) s -> WithKnown P (fst x) (add_known s h)).
  { intros s h (Hp & Hk). split; auto. now apply add_known_known. }
  assert (W3 : forall s h, WithKnown P (fst x) s ->
     WithKnown P (fst x) (mkdb (known s) (upd (rcpt s) h true) (avail s) (disk s) (canon s) (lookup s)
                               (hd_block s) (hd_header s) (hd_snap s))).
  { intros s h (Hp & Hk). split; auto. }
  assert (W4 : forall f s y s' ev0, WithKnown P (fst x) s -> hdr_ok y -> is_known s (fst y) = true ->
     avail s (fst y) = true -> write_known_block T f s y = Ok (s', ev0) -> WithKnown P (fst x) s').
  { intros f s y s' ev0 (Hp & Hk) Hy Hky Hay Hw. split; [eauto|].
    unfold is_known in *. now rewrite (wkb_known T _ _ _ _ _ Hw). }
  assert (HA1 : e1 = None -> avail st1 (fst x) = true).
  { intros ->. destruct (avail st (fst x)) eqn:EA; [now inversion ER; subst|].
    eapply recover_avail; eauto. }
  assert (HI1 : WithKnown P (fst x) st1).
  { destruct (avail st (fst x)); [inversion ER; subst; split; auto|].
    eapply (recover_ancestors_gen_a (WithKnown P (fst x)));
      first [exact W1 | exact W2 | exact W3 | exact W4 | exact ER | exact Hx | (split; assumption)]. }
  destruct HI1 as (HP1 & HK1).
  destruct e1; [inversion H; subst; auto|].
  destruct (reorg_if_needed T fuel st1 x) as [[st2 ev2]|] eqn:ERI; [|inversion H; subst; auto].
  destruct (write_head_block fuel st2 x) as [st3|] eqn:EH; inversion H; subst.
  - apply (P_wkb fuel st1 x _ (ev2 ++ whb_purge (canon st2) x)); auto. unfold write_known_block. now rewrite ERI, EH.
  - (* out of fuel after the reorg: the state returned is the reorg's *)
    exact HP1.
Qed.

Lemma get_by_hash_known_a : forall st h x, get_by_hash T st h = Some x ->
  hdr_ok x /\ is_known st (fst x) = true.
Proof.
  intros st h x H. unfold get_by_hash in H. destruct (T h) as [b|] eqn:ET; [|discriminate].
  destruct (is_known st h) eqn:EK; inversion H; subst. split; auto.
Qed.

Lemma step_import_gen_a : forall fuel st o st' ev e, import_op o ->
  step T fuel st o = (st', ev, e) -> P st -> P st'.
Proof.
  intros fuel st o st' ev e Ho H HI. destruct o as [l|h|h|n|]; cbn in Ho; try tauto; cbn [step] in H.
  - destruct (resolve_all T l) as [hs|] eqn:ER; [|inversion H; subst; auto].
    destruct (contiguous hs); [|inversion H; subst; auto].
    eapply (insert_chain_gen_a P); eauto; eapply resolve_all_ok; eauto.
  - destruct (T h) as [b|] eqn:ET; [|inversion H; subst; auto].
    eapply (insert_chain_gen_a P); eauto.
  - destruct (get_by_hash T st h) as [x|] eqn:EG; [|inversion H; subst; auto].
    destruct (get_by_hash_known_a _ _ _ EG). eapply set_canonical_gen_a; eauto.
Qed.

End SetCanonicalA.
(* ---- head_has_state ---- *)
Hypothesis Hwf : wf_tree T.

Definition HSt (st : db) : Prop :=
  avail st (hd_block st) = true /\ avail st 0 = true /\ disk st 0 = true.

Lemma HSt_wbws : forall st x st1, HSt st -> write_block_with_state st x = Ok st1 -> HSt st1.
Proof.
  intros st x st1 (H1 & H2 & H3) H. destruct (wbws_avail _ _ _ H) as (_ & Hm & Hd & Hb).
  repeat split; [rewrite Hb; now apply Hm | now apply Hm | now rewrite Hd].
Qed.
Lemma HSt_addk : forall st h, HSt st -> HSt (add_known st h).
Proof. intros st h H. unfold add_known. destruct (is_known st h); exact H. Qed.
Lemma HSt_rcpt : forall st h, HSt st ->
  HSt (mkdb (known st) (upd (rcpt st) h true) (avail st) (disk st) (canon st) (lookup st)
            (hd_block st) (hd_header st) (hd_snap st)).
Proof. intros st h H. exact H. Qed.
Lemma HSt_wkb : forall fuel st x st' ev, HSt st -> hdr_ok x -> is_known st (fst x) = true ->
  avail st (fst x) = true -> write_known_block T fuel st x = Ok (st', ev) -> HSt st'.
Proof.
  intros fuel st x st' ev (H1 & H2 & H3) Hx Hk Ha H. destruct (wkb_frame _ _ _ _ _ H) as (Ea & Ed & Eb).
  repeat split; [now rewrite Eb, Ea | now rewrite Ea | now rewrite Ed].
Qed.

Lemma step_import_HSt : forall fuel st o st' ev e, import_op o ->
  step T fuel st o = (st', ev, e) -> HSt st -> HSt st'.
Proof. intros. eapply (step_import_gen_a HSt HSt_wbws HSt_addk HSt_rcpt HSt_wkb); eauto. Qed.

Lemma rewind_avail : forall fuel st g x y, rewind T fuel st g x = Some y -> fst g = 0 ->
  avail st (fst y) = true \/ fst y = 0.
Proof.
  induction fuel as [|f IH]; intros st g x y H Hg; [discriminate|].
  cbn [rewind] in H. destruct (avail st (fst x)) eqn:EA; [inversion H; subst; now left|].
  destruct (parent_hdr T st x) as [p|] eqn:EP; [|inversion H; subst; now right].
  destruct (N.eqb_spec (hnum p) 0) as [E0|E0]; [|eapply IH; eauto].
  inversion H; subst. right. apply (wf_zero T Hwf); auto. apply (parent_hdr_spec T _ _ _ EP).
Qed.

Lemma set_head_loop_HSt : forall fuel st g target origin dels st' dels',
  set_head_loop T fuel st g target origin dels = Ok (st', dels') -> fst g = 0 -> HSt st -> HSt st'.
Proof.
  induction fuel as [|f IH]; intros st g target origin dels st' dels' H Hg HS; [discriminate|].
  cbn [set_head_loop] in H. destruct (T (hd_header st)) as [hb|]; [|discriminate].
  destruct (b_number hb <=? target); [inversion H; subst; auto|].
  match type of H with context [match ?X with Err e => Err e | Ok nb => _ end] =>
    destruct X as [nb|] eqn:ENB; [|discriminate] end.
  match type of H with context [match ?X with None => Err EOutOfFuel | Some up => _ end] =>
    destruct X as [up|]; [|discriminate] end.
  eapply IH in H; eauto. destruct HS as (H1 & H2 & H3). repeat split; auto. cbn [avail hd_block].
  destruct (cur_hdr T st) as [cb|]; [|inversion ENB; subst; auto].
  match type of ENB with (if ?c then _ else _) = _ => destruct c end; [|inversion ENB; subst; auto].
  match type of ENB with context [rewind T ?fu st g ?pp] => destruct (rewind T fu st g pp) as [nh|] eqn:ER; [|discriminate] end.
  inversion ENB; subst. destruct (rewind_avail _ _ _ _ _ ER Hg) as [Ha|E0]; [auto | now rewrite E0].
Qed.

Lemma set_head_HSt : forall fuel st target st' ev e, set_head T fuel st target = (st', ev, e) -> HSt st -> HSt st'.
Proof.
  intros fuel st target st' ev e H HS. unfold set_head in H.
  destruct (T 0) as [gb|]; [|inversion H; subst; auto].
  destruct (set_head_loop T fuel st (0, gb) target true []) as [[st1 dels]|] eqn:EL; [|inversion H; subst; auto].
  pose proof (set_head_loop_HSt _ _ _ _ _ _ _ _ EL eq_refl HS) as HS1.
  destruct (negb (is_known (delete_heights T st1 dels) (hd_block (delete_heights T st1 dels))));
    inversion H; subst; exact HS1.
Qed.

Lemma restart_HSt : forall fuel st st' ev e, restart T fuel st = (st', ev, e) ->
  Inv T st -> HSt st -> HSt st'.
Proof.
  intros fuel st st' ev e H HI (H1 & H2 & H3). unfold restart in H.
  destruct (Inv_cur T Hwf st HI) as (cb & Hcur & Hcok & HGc). rewrite Hcur in H.
  destruct (T 0) as [gb|]; [|inversion H; subst; repeat split; auto].
  cbv zeta in H.
  match type of H with context [if avail ?s1 (hd_block ?s1) then _ else _] => set (st1 := s1) in * end.
  assert (M : forall d n k, d k = true ->
     (match canon st n with Some h => if avail st h then upd d h true else d | None => d end) k = true).
  { intros d n k Hd. destruct (canon st n) as [h|]; auto. destruct (avail st h); auto.
    unfold upd. destruct (k =? h); auto. }
  assert (D0 : avail st1 0 = true /\ disk st1 0 = true).
  { subst st1. cbn [avail disk]. split; (destruct (1 <? hnum (hd_block st, cb)); destruct (0 <? hnum (hd_block st, cb)); auto). }
  destruct D0 as (A0 & Dk0).
  (* the head state is committed by Stop: the repair path of NewBlockChain is not taken *)
  assert (EA : avail st1 (hd_block st1) = true).
  { subst st1. cbn [avail hd_block].
    assert (Hc : canon st (hnum (hd_block st, cb)) = Some (hd_block st)).
    { rewrite HGc by lia. apply (anc_self T (hd_block st, cb)); auto. }
    destruct (N.ltb_spec 0 (hnum (hd_block st, cb))) as [Hpos|Hz].
    - assert (E0 : (match canon st (hnum (hd_block st, cb)) with
                    | Some h => if avail st h then upd (disk st) h true else disk st
                    | None => disk st end) (hd_block st) = true).
      { rewrite Hc, H1. apply upd_same. }
      destruct (1 <? hnum (hd_block st, cb)); auto.
    - assert (Ez : hd_block st = 0) by (apply (wf_zero T Hwf (hd_block st, cb)); auto; lia).
      destruct (N.ltb_spec 0 (hnum (hd_block st, cb))); [lia|].
      destruct (N.ltb_spec 1 (hnum (hd_block st, cb))); [lia|]. rewrite Ez. exact H3. }
  destruct (avail st1 (hd_block st1)) eqn:EA'; [|discriminate]. inversion H; subst. repeat split; auto.
Qed.

Lemma step_HSt : forall fuel st o st' ev e, step T fuel st o = (st', ev, e) ->
  Inv T st -> HSt st -> HSt st'.
Proof.
  intros fuel st o st' ev e H HI HS. destruct o as [l|h|h|n|] eqn:EO.
  - eapply step_import_HSt; eauto; exact I.
  - eapply step_import_HSt; eauto; exact I.
  - eapply step_import_HSt; eauto; exact I.
  - cbn [step] in H. eapply set_head_HSt; eauto.
  - cbn [step] in H. eapply restart_HSt; eauto.
Qed.

Lemma HSt_genesis : HSt genesis_db.
Proof. repeat split. Qed.

Lemma run_HSt : forall fuel ops st, Inv T st -> HSt st -> HSt (run T fuel st ops).
Proof.
  induction ops as [|o r IH]; intros st HI HS; cbn; auto.
  destruct (step T fuel st o) as [[st1 ev] e] eqn:ES. cbn.
  apply IH; [eapply (step_inv T Hwf); eauto | eapply step_HSt; eauto].
Qed.

End State.
