(* Chain/LogIndexDyn.v — the search session while the chain and the index move:
   trimMatches on a scan is the scan of the trimmed range, and for ANY environment
   (sequence of chain views, index states and sync results) satisfying the SyncLogIndex
   contract the session returns exactly the scan of its final chain view. *)
From GV Require Import Lib.Tactics Chain.LogIndex Chain.LogIndexProofs Chain.LogIndexSeq Chain.LogIndexQuery Chain.LogIndexLayout Chain.LogIndexExact Chain.LogIndexHistory.
Local Open Scope N_scope.

(* every log of block b carries block number b *)
Definition wf_chain (c : list (list log)) : Prop :=
  forall b logs l, nth_error c b = Some logs -> In l logs -> lg_blk l = N.of_nat b.

Lemma list_eqb_eq : forall a b, list_eqb a b = true -> a = b.
Proof.
  induction a as [|x a IH]; intros [|y b] H; simpl in H; try discriminate; [reflexivity|].
  apply andb_true_iff in H. destruct H as [H1 H2]. apply N.eqb_eq in H1. subst. f_equal. apply IH. exact H2.
Qed.

Lemma log_eqb_eq a b : log_eqb a b = true -> a = b.
Proof.
  unfold log_eqb. intros H.
  apply andb_true_iff in H. destruct H as [H H5]. apply andb_true_iff in H. destruct H as [H H4].
  apply andb_true_iff in H. destruct H as [H H3]. apply andb_true_iff in H. destruct H as [H1 H2].
  destruct a, b. simpl in *. apply N.eqb_eq in H1. apply N.eqb_eq in H2. apply N.eqb_eq in H3.
  apply N.eqb_eq in H4. apply list_eqb_eq in H5. subst. reflexivity.
Qed.

Lemma block_eqb_eq : forall a b, block_eqb a b = true -> a = b.
Proof.
  induction a as [|x a IH]; intros [|y b] H; simpl in H; try discriminate; [reflexivity|].
  apply andb_true_iff in H. destruct H as [H1 H2]. apply log_eqb_eq in H1. subst. f_equal. apply IH. exact H2.
Qed.

(* below shared_len the two chains have the same blocks *)
Lemma shared_len_nth : forall c1 c2 b, N.of_nat b < shared_len c1 c2 -> nth_error c1 b = nth_error c2 b.
Proof.
  induction c1 as [|b1 r1 IH]; intros [|b2 r2] b H; cbn [shared_len] in H; try lia.
  destruct (block_eqb b1 b2) eqn:E; [|lia]. apply block_eqb_eq in E. subst b2.
  destruct b as [|b]; [reflexivity|]. simpl. apply IH. lia.
Qed.

(* a scan only reads the blocks of its range *)
Lemma scan_blocks_ext c1 c2 addrs topics : forall bs,
  (forall b, In b bs -> nth_error c1 (N.to_nat b) = nth_error c2 (N.to_nat b)) ->
  scan_blocks c1 addrs topics bs = scan_blocks c2 addrs topics bs.
Proof.
  induction bs as [|b bs IH]; intros H; [reflexivity|]. simpl. unfold block_logs.
  rewrite (H b (or_introl eq_refl)), IH; [reflexivity|]. intros b' Hb'. apply H. right. exact Hb'.
Qed.

Lemma scan_ext c1 c2 addrs topics x y :
  (forall b, x <= N.of_nat b -> N.of_nat b <= y -> nth_error c1 b = nth_error c2 b) ->
  scan c1 addrs topics x y = scan c2 addrs topics x y.
Proof.
  intros H. unfold scan. apply scan_blocks_ext. intros b Hb. unfold blocks_of in Hb.
  apply N_seq_In in Hb. apply H; lia.
Qed.

Lemma scan_blocks_blk c addrs topics : wf_chain c -> forall bs ms,
  scan_blocks c addrs topics bs = Some ms -> forall l, In l ms -> In (lg_blk l) bs.
Proof.
  intros Hwf. induction bs as [|b bs IH]; intros ms H l Hl; simpl in H.
  - injection H as <-. destruct Hl.
  - unfold block_logs in H. destruct (nth_error c (N.to_nat b)) as [logs|] eqn:E; [|discriminate].
    destruct (scan_blocks c addrs topics bs) as [rest|] eqn:E2; [|discriminate]. injection H as <-.
    apply in_app_or in Hl. destruct Hl as [Hl|Hl].
    + apply filter_In in Hl. destruct Hl as [Hl _]. left. rewrite (Hwf _ _ _ E Hl). lia.
    + right. eapply IH; [reflexivity | exact Hl].
Qed.

Lemma scan_blk c addrs topics x y ms l : wf_chain c ->
  scan c addrs topics x y = Some ms -> In l ms -> x <= lg_blk l /\ lg_blk l <= y.
Proof.
  intros Hwf H Hl. pose proof (scan_blocks_blk c addrs topics Hwf _ _ H l Hl) as Hin.
  unfold blocks_of in Hin. apply N_seq_In in Hin. lia.
Qed.

Lemma drop_before_app f : forall A B, (forall l, In l A -> lg_blk l < f) -> (forall l, In l B -> f <= lg_blk l) ->
  drop_before f (A ++ B) = B.
Proof.
  induction A as [|a A IH]; intros B HA HB; simpl.
  - destruct B as [|b B]; [reflexivity|]. simpl. specialize (HB b (or_introl eq_refl)).
    assert (E : (lg_blk b <? f) = false) by lia. rewrite E. reflexivity.
  - specialize (HA a (or_introl eq_refl)) as Ha. assert (E : (lg_blk a <? f) = true) by lia. rewrite E.
    apply IH; [|exact HB]. intros l Hl. apply HA. right. exact Hl.
Qed.

Lemma drop_after_app f : forall A B, (forall l, In l A -> f < lg_blk l) -> (forall l, In l B -> lg_blk l <= f) ->
  drop_after f (A ++ B) = B.
Proof.
  induction A as [|a A IH]; intros B HA HB; simpl.
  - destruct B as [|b B]; [reflexivity|]. simpl. specialize (HB b (or_introl eq_refl)).
    assert (E : (f <? lg_blk b) = false) by lia. rewrite E. reflexivity.
  - specialize (HA a (or_introl eq_refl)) as Ha. assert (E : (f <? lg_blk a) = true) by lia. rewrite E.
    apply IH; [|exact HB]. intros l Hl. apply HA. right. exact Hl.
Qed.

Section Trim.
Variable c : list (list log).
Variable addrs : list N.
Variable topics : list (list N).
Hypothesis Hwf : wf_chain c.
Notation scan := (scan c addrs topics).

Lemma drop_before_scan x x' Y ms : scan x Y = Some ms -> x <= x' -> x' <= Y ->
  exists M, scan x' Y = Some M /\ drop_before x' ms = M.
Proof.
  intros H H1 H2. destruct (N.eq_dec x x') as [<-|Hne].
  - exists ms. split; [exact H|]. rewrite <- (app_nil_l ms). apply drop_before_app; [intros ? []|].
    intros l Hl. destruct (scan_blk _ _ _ _ _ _ _ Hwf H Hl). lia.
  - rewrite (scan_split c addrs topics x x' Y) in H by lia.
    destruct (scan x (x' - 1)) as [A|] eqn:EA; [|discriminate].
    destruct (scan x' Y) as [M|] eqn:EM; [|discriminate]. injection H as <-.
    exists M. split; [reflexivity|]. apply drop_before_app.
    + intros l Hl. destruct (scan_blk _ _ _ _ _ _ _ Hwf EA Hl). lia.
    + intros l Hl. destruct (scan_blk _ _ _ _ _ _ _ Hwf EM Hl). lia.
Qed.

Lemma drop_after_scan X y y' ms : scan X y = Some ms -> X <= y' -> y' <= y ->
  exists M, scan X y' = Some M /\ rev (drop_after y' (rev ms)) = M.
Proof.
  intros H H1 H2. destruct (N.eq_dec y y') as [<-|Hne].
  - exists ms. split; [exact H|]. rewrite <- (app_nil_l (rev ms)).
    rewrite drop_after_app; [apply rev_involutive | intros ? [] |].
    intros l Hl. apply (proj2 (in_rev _ _)) in Hl. destruct (scan_blk _ _ _ _ _ _ _ Hwf H Hl). lia.
  - rewrite (scan_split c addrs topics X (y' + 1) y) in H by lia.
    replace (y' + 1 - 1) with y' in H by lia.
    destruct (scan X y') as [M|] eqn:EM; [|discriminate].
    destruct (scan (y' + 1) y) as [Z|] eqn:EZ; [|discriminate]. injection H as <-.
    exists M. split; [reflexivity|]. rewrite rev_app_distr, drop_after_app; [apply rev_involutive| |].
    + intros l Hl. apply (proj2 (in_rev _ _)) in Hl. destruct (scan_blk _ _ _ _ _ _ _ Hwf EZ Hl). lia.
    + intros l Hl. apply (proj2 (in_rev _ _)) in Hl. destruct (scan_blk _ _ _ _ _ _ _ Hwf EM Hl). lia.
Qed.

(* the outcome of a trimming / a search: an empty range with no matches, or a non-empty
   sub-range of r with exactly the scan of that sub-range *)
Definition trim_ok (r : rng) (res : rng * list log) : Prop :=
  (rng_empty (fst res) = true /\ snd res = []) \/
  exists x' y', fst res = (x', y') /\ fst r <= x' /\ x' < y' /\ y' <= snd r /\
                scan x' (y' - 1) = Some (snd res).

(* trimMatches of the scan of (x,y) = the scan of (x,y) intersected with the trim range *)
Lemma trim_scan x y a z ms : x < y -> scan x (y - 1) = Some ms ->
  trim_ok (x, y) (trim_matches (a, z) (x, y) ms) /\
  (forall x' y', fst (trim_matches (a, z) (x, y) ms) = (x', y') -> x' < y' -> a <= x' /\ y' <= z).
Proof.
  intros Hxy H. unfold trim_matches, rng_inter. cbn [fst snd].
  destruct (N.min y z <? N.max x a) eqn:E1.
  - (* disjoint: (0,0) *)
    assert (E2 : rng_eqb (0, 0) (x, y) = false) by (unfold rng_eqb; cbn [fst snd]; lia).
    rewrite E2. change (rng_empty (0, 0)) with true. cbv iota.
    split; [left; split; reflexivity | cbn [fst]; intros ? ? E; injection E as <- <-; lia].
  - set (x' := N.max x a). set (y' := N.min y z).
    destruct (rng_eqb (x', y') (x, y)) eqn:E2.
    + unfold rng_eqb in E2. cbn [fst snd] in E2.
      split; [right; exists x, y; cbn [fst snd]; repeat split; try lia; exact H|].
      cbn [fst]. intros ? ? E; injection E as <- <-. lia.
    + destruct (rng_empty (x', y')) eqn:E3.
      * split; [left; split; [exact E3 | reflexivity] | cbn [fst]; intros ? ? E; injection E as <- <-].
        unfold rng_empty in E3. cbn [fst snd] in E3. lia.
      * unfold rng_empty in E3. cbn [fst snd] in E3 |- *.
        split; [|intros ? ? E; injection E as <- <-; lia]. right. exists x', y'. cbn [fst snd].
        repeat split; try lia.
        destruct (drop_before_scan x x' (y - 1) ms H ltac:(lia) ltac:(lia)) as (M1 & HM1 & ->).
        destruct (drop_after_scan x' (y - 1) (y' - 1) M1 HM1 ltac:(lia) ltac:(lia)) as (M2 & HM2 & ->).
        exact HM2.
Qed.
End Trim.

Lemma trim_ok_widen c addrs topics r R res :
  trim_ok c addrs topics r res -> fst R <= fst r -> snd r <= snd R -> trim_ok c addrs topics R res.
Proof.
  intros [H|(x' & y' & E & H1 & H2 & H3 & H4)] Ha Hb; [left; exact H|].
  right. exists x', y'. repeat split; try assumption; lia.
Qed.

Lemma scan_join' c addrs topics x y w a b : x < y -> y < w ->
  scan c addrs topics x (y - 1) = Some a -> scan c addrs topics y (w - 1) = Some b ->
  scan c addrs topics x (w - 1) = Some (a ++ b).
Proof.
  intros H1 H2 Ha Hb. rewrite (scan_split c addrs topics x y (w - 1)) by lia.
  rewrite Ha, Hb. reflexivity.
Qed.

Lemma rng_union_adj' x y w : x < y -> y <= w -> rng_union (x, y) (y, w) = Some (x, w).
Proof.
  intros H1 H2. unfold rng_union. cbn [fst snd].
  assert (E : (N.min y w <? N.max x y) = false) by lia. rewrite E. f_equal. f_equal; lia.
Qed.

(* ------------------------------------------------------------------ *)
Section Dyn.
Variable P : params.
Variable addr_value topic_value : N -> N.
Variable row_hash : N -> nat -> N -> N.
Variable col_index : N -> N -> N.
Variable fuel : nat.
Variable env_world : nat -> dworld.
Variable env_valid : nat -> rng.
Variable addrs : list N.
Variable topics : list (list N).
Variables firstB lastB : option N.

Notation d_update_view := (d_update_view env_world firstB lastB).
Notation d_unindexed := (d_unindexed addrs topics).
Notation d_search_in_range := (d_search_in_range P addr_value topic_value row_hash col_index fuel env_world env_valid addrs topics).
Notation d_iteration := (d_iteration P addr_value topic_value row_hash col_index fuel env_world env_valid addrs topics).
Notation d_loop := (d_loop P addr_value topic_value row_hash col_index fuel env_world env_valid addrs topics firstB lastB).
Notation d_range_logs := (d_range_logs P addr_value topic_value row_hash col_index fuel env_world env_valid addrs topics firstB lastB).
Notation trim_ok := (fun c => trim_ok c addrs topics).

Definition resolve (o : option N) (c : list (list log)) : N :=
  match o with Some x => x | None => head_of c end.

(* every chain of the environment carries correct block numbers in its logs *)
Hypothesis H_wf : forall t, wf_chain (dw_chain (env_world t)).

(* THE SyncLogIndex CONTRACT: an indexed search that ran on the world of call t-1, trimmed
   to the ValidBlocks reported at call t and to the range the session's chain view shares
   with the indexed view, leaves exactly the matching logs of the session's chain view on
   the remaining range (or nothing) *)
Notation IB t := (indexed_blocks (dw_rg (env_world t))).
Hypothesis H_contract : forall t view x y res, wf_chain view -> x < y ->
  (exists ts, (ts <= t - 1)%nat /\ fst (IB ts) <= x /\ y <= snd (IB ts)) ->
  indexed_logs P addr_value topic_value row_hash col_index fuel
               (dw_chain (env_world (t - 1))) (dw_ix (env_world (t - 1))) (dw_rg (env_world (t - 1)))
               x (y - 1) addrs topics = Some (IxLogs res) ->
  trim_ok view (x, y)
          (trim_matches (rng_inter (env_valid t) (0, shared_len view (dw_chain (env_world t)))) (x, y) res).

(* the IndexedBlocks the session holds come from an earlier sync *)
Definition ib_ok (t : nat) (ib : rng) : Prop :=
  (1 <= t)%nat /\ exists ts, (ts <= t - 1)%nat /\ ib = IB ts.

Definition dinv (s : dsess) : Prop :=
  ib_ok (d_t s) (d_ib s) /\
  (exists t, d_view s = dw_chain (env_world t)) /\
  (exists f l, d_search s = (f, l + 1) /\ f <= l /\ l <= head_of (d_view s) /\
               f = resolve firstB (d_view s) /\ l = resolve lastB (d_view s)) /\
  trim_ok (d_view s) (d_search s) (d_match s, d_matches s).

Lemma d_update_inv s s' :
  ib_ok (d_t s) (d_ib s) ->
  wf_chain (d_view s) -> trim_ok (d_view s) (d_search s) (d_match s, d_matches s) ->
  d_update_view s = DOk s' -> dinv s'.
Proof.
  intros Hib Hwfv Hok H. unfold LogIndex.d_update_view in H.
  assert (Hib' : ib_ok (S (d_t s)) (d_ib s)).
  { destruct Hib as (H1 & ts & H2 & H3). split; [lia|]. exists ts. split; [lia | exact H3]. }
  set (nv := dw_chain (env_world (d_t s))) in *.
  set (f := match firstB with Some f => f | None => head_of nv end) in *.
  set (l := match lastB with Some l => l | None => head_of nv end) in *.
  destruct (l <? f) eqn:E1; [discriminate|]. destruct (head_of nv <? l) eqn:E2; [discriminate|].
  assert (Hsr : exists f0 l0, (f, l + 1) = (f0, l0 + 1) /\ f0 <= l0 /\ l0 <= head_of nv /\
                              f0 = resolve firstB nv /\ l0 = resolve lastB nv).
  { exists f, l. repeat split; try lia; reflexivity. }
  destruct (rng_empty (d_match s)) eqn:Ee.
  - injection H as <-. unfold dinv. cbn [d_view d_search d_match d_matches d_t d_ib].
    split; [exact Hib'|]. split; [exists (d_t s); reflexivity|]. split; [exact Hsr|]. left. cbn [fst snd]. split; [exact Ee|].
    destruct Hok as [[_ Hn]|(x' & y' & E & _ & Hlt & _)]; [exact Hn|].
    cbn [fst] in E. rewrite E in Ee. unfold rng_empty in Ee. cbn [fst snd] in Ee. lia.
  - destruct Hok as [[He _]|(x & y & E & Hx1 & Hxy & Hy1 & Hsc)]; [cbn [fst] in He; congruence|].
    cbn [fst snd] in E, Hsc. rewrite E in H.
    destruct (rng_inter (0, shared_len nv (d_view s)) (f, l + 1)) as [a z] eqn:Ei.
    destruct (trim_scan (d_view s) addrs topics Hwfv x y a z (d_matches s) Hxy Hsc) as [Ht Hb].
    destruct (trim_matches (a, z) (x, y) (d_matches s)) as [mr ms] eqn:Etm.
    injection H as <-. unfold dinv. cbn [d_view d_search d_match d_matches d_t d_ib].
    split; [exact Hib'|]. split; [exists (d_t s); reflexivity|]. split; [exact Hsr|].
    destruct Ht as [Hl|(x' & y' & E' & H1 & H2 & H3 & H4)]; [left; exact Hl|].
    cbn [fst snd] in E', H1, H3, H4. subst mr. destruct (Hb x' y' eq_refl H2) as [Ha Hz].
    unfold rng_inter in Ei. cbn [fst snd] in Ei.
    destruct (N.min (shared_len nv (d_view s)) (l + 1) <? N.max 0 f) eqn:E3;
      injection Ei as <- <-; [lia|].
    right. exists x', y'. cbn [fst snd]. repeat split; try lia.
    rewrite <- H4. apply scan_ext. intros b Hb1 Hb2. apply shared_len_nth. lia.
Qed.

Lemma d_search_spec s x y indexed force mr ms f' t' ib' :
  ib_ok (d_t s) (d_ib s) ->
  wf_chain (d_view s) -> x < y ->
  (indexed = true -> fst (d_ib s) <= x /\ y <= snd (d_ib s)) ->
  d_search_in_range s (x, y) indexed force = DOk (mr, ms, f', t', ib') ->
  trim_ok (d_view s) (x, y) (mr, ms) /\ ib_ok t' ib' /\
  (indexed = false -> mr = (x, y) /\ scan (d_view s) addrs topics x (y - 1) = Some ms).
Proof.
  intros Hib Hwfv Hxy Hin H. unfold LogIndex.d_search_in_range in H. cbn [fst snd] in H.
  assert (Hun : forall fl,
    match d_unindexed s (x, y) with
    | DOk ms0 => DOk ((x, y), ms0, fl, d_t s, d_ib s) | DErr c => DErr c | DFail => DFail end
      = DOk (mr, ms, f', t', ib') ->
    mr = (x, y) /\ scan (d_view s) addrs topics x (y - 1) = Some ms /\ ib_ok t' ib').
  { intros fl Hu. unfold LogIndex.d_unindexed in Hu. cbn [fst snd] in Hu.
    destruct (head_of (d_view s) <? y - 1); [discriminate|].
    destruct (scan (d_view s) addrs topics x (y - 1)) as [ms0|]; [|discriminate].
    injection Hu as <- <- _ <- <-. split; [reflexivity|]. split; [reflexivity | exact Hib]. }
  assert (Hexact : mr = (x, y) /\ scan (d_view s) addrs topics x (y - 1) = Some ms ->
                   trim_ok (d_view s) (x, y) (mr, ms)).
  { intros [-> Hs]. right. exists x, y. cbn [fst snd]. repeat split; try lia. exact Hs. }
  destruct indexed.
  - match type of H with match ?il with _ => _ end = _ => destruct il as [[|res]|] eqn:Eix end;
      [destruct (Hun true H) as (H1 & H2 & H3);
       split; [apply Hexact; split; assumption | split; [exact H3 | discriminate]] | | discriminate].
    destruct (Hin eq_refl) as [Hx1 Hy1]. destruct Hib as (Ht1 & ts & Hts & Eib).
    assert (Hpre : exists ts0, (ts0 <= d_t s - 1)%nat /\ fst (IB ts0) <= x /\ y <= snd (IB ts0)).
    { exists ts. rewrite <- Eib. auto. }
    pose proof (H_contract (d_t s) (d_view s) x y res Hwfv Hxy Hpre Eix) as Hc.
    destruct (trim_matches _ (x, y) res) as [mr0 ms0] eqn:Etm.
    injection H as <- <- _ <- <-. split; [exact Hc|]. split; [|discriminate].
    split; [lia|]. exists (d_t s). split; [lia | reflexivity].
  - destruct (Hun force H) as (H1 & H2 & H3).
    split; [apply Hexact; split; assumption | split; [exact H3 | intros _; split; assumption]].
Qed.

Lemma dinv_wf s : dinv s -> wf_chain (d_view s).
Proof. intros (_ & (t & ->) & _). apply H_wf. Qed.

Lemma d_iteration_inv s s' : dinv s -> d_iteration s = DOk s' -> dinv s'.
Proof.
  intros Hi H. pose proof (dinv_wf s Hi) as Hwfv.
  destruct Hi as (Hib & Hv & (f & l & Es & Hfl & Hlh & Hf & Hl) & Hok).
  assert (Hframe : forall mr ms fl t ib, ib_ok t ib ->
            trim_ok (d_view s) (d_search s) (mr, ms) ->
            dinv (mkDSess t (d_view s) ib (d_search s) mr ms fl)).
  { intros mr ms fl t ib Hibn Ht. unfold dinv. cbn [d_view d_search d_match d_matches d_t d_ib].
    split; [exact Hibn|]. split; [exact Hv|]. split; [exists f, l; auto | exact Ht]. }
  unfold LogIndex.d_iteration in H. rewrite Es in H, Hok, Hframe. cbn [fst snd] in H.
  destruct (rng_empty (d_match s)) eqn:Ee.
  - (* no results yet *)
    destruct (rng_empty (rng_inter (f, l + 1) (d_ib s))) eqn:Ei; cbn [negb] in H.
    + destruct (d_search_in_range s (f, l + 1) false true) as [[[[[mr ms] fl] t] ib]| |] eqn:Esr; try discriminate.
      injection H as <-.
      destruct (d_search_spec s f (l + 1) false true mr ms fl t ib Hib Hwfv ltac:(lia) ltac:(discriminate) Esr) as (Ht & Hibn & _).
      apply Hframe; assumption.
    + unfold rng_inter in Ei, H. cbn [fst snd] in Ei, H.
      destruct (N.min (l + 1) (snd (d_ib s)) <? N.max f (fst (d_ib s))) eqn:E1; [discriminate Ei|].
      unfold rng_empty in Ei. cbn [fst snd] in Ei.
      set (x := N.max f (fst (d_ib s))) in *. set (y := N.min (l + 1) (snd (d_ib s))) in *.
      destruct (d_search_in_range s (x, y) true false) as [[[[[mr ms] fl] t] ib]| |] eqn:Esr; try discriminate.
      injection H as <-.
      destruct (d_search_spec s x y true false mr ms fl t ib Hib Hwfv ltac:(lia) ltac:(intros _; lia) Esr) as (Ht & Hibn & _).
      apply Hframe; [exact Hibn|].
      apply (trim_ok_widen _ _ _ (x, y)); [exact Ht | cbn [fst]; lia | cbn [snd]; lia].
  - destruct Hok as [[He _]|(x & y & E & Hx1 & Hxy & Hy1 & Hsc)]; [cbn [fst] in He; congruence|].
    cbn [fst snd] in E, Hx1, Hy1, Hsc. rewrite E in H. cbn [fst snd] in H.
    destruct (f <? x) eqn:Efx.
    + (* tail section missing *)
      destruct (d_search_in_range s (f, x) false (d_force s)) as [[[[[mr tms] fl] t] ib]| |] eqn:Esr; try discriminate.
      destruct (d_search_spec s f x false (d_force s) mr tms fl t ib Hib Hwfv ltac:(lia) ltac:(discriminate) Esr) as (_ & Hibn & Hex).
      destruct (Hex eq_refl) as [-> Hts].
      rewrite (rng_union_adj' f x y) in H by lia. injection H as <-. apply Hframe; [exact Hibn|].
      right. exists f, y. cbn [fst snd]. repeat split; try lia.
      apply (scan_join' _ _ _ f x y); try lia; assumption.
    + assert (x = f) by lia. subst x. rewrite N.eqb_refl in H. cbn [andb] in H.
      destruct (y <? l + 1) eqn:Eyl; [|discriminate].
      assert (Hhead : forall hx w ind fl hmr hms fl' t ib,
                hx = y -> y < w -> w <= l + 1 ->
                (ind = true -> fst (d_ib s) <= hx /\ w <= snd (d_ib s)) ->
                d_search_in_range s (hx, w) ind fl = DOk (hmr, hms, fl', t, ib) ->
                (if negb (fst hmr =? y) then DOk (mkDSess t (d_view s) ib (f, l + 1) hmr hms fl')
                 else match rng_union (f, y) hmr with
                      | Some u => DOk (mkDSess t (d_view s) ib (f, l + 1) u (d_matches s ++ hms) fl')
                      | None => DFail end) = DOk s' ->
                dinv s').
      { intros hx w ind fl hmr hms fl' t ib -> Hw1 Hw2 Hind Esr Hres.
        destruct (d_search_spec _ _ _ _ _ _ _ _ _ _ Hib Hwfv Hw1 Hind Esr) as (Ht & Hibn & _).
        destruct (negb (fst hmr =? y)) eqn:En.
        - injection Hres as <-. apply Hframe; [exact Hibn|].
          apply (trim_ok_widen _ _ _ (y, w)); [exact Ht | cbn [fst]; lia | cbn [snd]; lia].
        - assert (Ehy : fst hmr = y) by (destruct (fst hmr =? y) eqn:E0; [lia | discriminate]).
          destruct Ht as [[Hemp Hnil]|(x' & y' & E' & H1 & H2 & H3 & H4)]; cbn [fst snd] in *.
          + destruct hmr as [h1 h2]. cbn [fst snd] in *. unfold rng_empty in Hemp. cbn [fst snd] in Hemp.
            assert (h2 = y) by lia. subst h1 h2 hms.
            rewrite (rng_union_adj' f y y) in Hres by lia. injection Hres as <-. apply Hframe; [exact Hibn|].
            rewrite app_nil_r. right. exists f, y. cbn [fst snd]. repeat split; try lia. exact Hsc.
          + subst hmr. cbn [fst] in Ehy. subst x'.
            rewrite (rng_union_adj' f y y') in Hres by lia. injection Hres as <-. apply Hframe; [exact Hibn|].
            right. exists f, y'. cbn [fst snd]. repeat split; try lia.
            apply (scan_join' _ _ _ f y y'); try lia; assumption. }
      destruct (d_force s).
      * destruct (d_search_in_range s (y, l + 1) (negb true) true) as [[[[[hmr hms] fl'] t] ib]| |] eqn:Esr; try discriminate.
        eapply (Hhead y (l + 1) false true); try reflexivity; try lia; try discriminate; eassumption.
      * destruct (negb (rng_empty (rng_inter (y, l + 1) (d_ib s))) && (fst (rng_inter (y, l + 1) (d_ib s)) =? y)) eqn:Ec.
        -- unfold rng_inter in Ec, H. cbn [fst snd] in Ec, H.
           destruct (N.min (l + 1) (snd (d_ib s)) <? N.max y (fst (d_ib s))) eqn:E1.
           { cbn in Ec. discriminate Ec. }
           unfold rng_empty in Ec. cbn [fst snd] in Ec.
           set (hx := N.max y (fst (d_ib s))) in *. set (w := N.min (l + 1) (snd (d_ib s))) in *.
           destruct (d_search_in_range s (hx, w) (negb false) false) as [[[[[hmr hms] fl'] t] ib]| |] eqn:Esr; try discriminate.
           eapply (Hhead hx w true false); try lia; try eassumption.
        -- destruct (d_search_in_range s (y, l + 1) (negb true) true) as [[[[[hmr hms] fl'] t] ib]| |] eqn:Esr; try discriminate.
           eapply (Hhead y (l + 1) false true); try reflexivity; try lia; try discriminate; eassumption.
Qed.

Lemma d_loop_exact : forall n s ms, dinv s -> d_loop n s = DOk ms ->
  exists t, let view := dw_chain (env_world t) in
            scan view addrs topics (resolve firstB view) (resolve lastB view) = Some ms.
Proof.
  induction n as [|n IH]; intros s ms Hi H; [discriminate|]. cbn [LogIndex.d_loop] in H.
  destruct (rng_eqb (d_search s) (d_match s)) eqn:Eq.
  - injection H as <-. destruct Hi as (_ & (t & Ev) & (f & l & Es & Hfl & Hlh & Hf & Hl) & Hok).
    exists t. cbn zeta. rewrite <- Ev, <- Hf, <- Hl.
    unfold rng_eqb in Eq. rewrite Es in Eq, Hok. cbn [fst snd] in Eq.
    destruct Hok as [[He _]|(x & y & E & Hx1 & Hxy & Hy1 & Hsc)]; cbn [fst snd] in *.
    + unfold rng_empty in He. lia.
    + rewrite E in Eq. cbn [fst snd] in Eq. assert (x = f) by lia. assert (y = l + 1) by lia. subst x y.
      replace (l + 1 - 1) with l in Hsc by lia. exact Hsc.
  - destruct (d_iteration s) as [s1| |] eqn:E1; try discriminate.
    pose proof (d_iteration_inv _ _ Hi E1) as Hi1.
    destruct (d_update_view s1) as [s2| |] eqn:E2; try discriminate.
    apply (IH s2 ms); [|exact H].
    destruct Hi1 as (Hib1 & _ & _ & Hok1). eapply d_update_inv; [exact Hib1 | eapply dinv_wf | exact Hok1 | exact E2].
    eapply d_iteration_inv; eassumption.
Qed.

(* for ANY environment satisfying the contract: the running query returns exactly the
   matching logs of (one of) the environment's chain views - the one of its last
   CurrentView call - over the requested range, in chain order, no duplicates *)
Theorem dyn_exact ms : d_range_logs = DOk ms ->
  exists t, let view := dw_chain (env_world t) in
            scan view addrs topics (resolve firstB view) (resolve lastB view) = Some ms.
Proof.
  unfold LogIndex.d_range_logs. intros H.
  match type of H with (if ?g then _ else _) = _ => destruct g; [discriminate|] end.
  match type of H with match ?u with _ => _ end = _ => destruct u as [s| |] eqn:Eu; try discriminate end.
  apply (d_loop_exact 8 s ms); [|exact H].
  eapply d_update_inv; [| | |exact Eu]; cbn [d_view d_search d_match d_matches d_t d_ib].
  - split; [lia|]. exists 0%nat. split; [lia | reflexivity].
  - intros b logs l Hn. destruct b; discriminate.
  - left. split; reflexivity.
Qed.

End Dyn.

(* ---- the SyncLogIndex contract from the index invariant and the meaning of ValidBlocks ---- *)
Section Contract.
Variable P : params.
Variable addr_value topic_value : N -> N.
Variable row_hash : N -> nat -> N -> N.
Variable col_index : N -> N -> N.
Hypothesis col_high : forall lv v, N.shiftr (col_index lv v) (p_hbits P) = lv mod vpm P.
Hypothesis brl_small : p_brl P < two32.

Notation inv := (inv P addr_value topic_value row_hash col_index).

(* [ws] = the world the indexed search ran on, [wy] = the world at the following sync, V =
   the ValidBlocks it reports: blocks of V are the same in both worlds *)
Lemma sync_contract fuel0 fuel (ws wy : dworld) (V : rng) view addrs topics x y res :
  inv fuel0 (mkIState (dw_chain ws) (dw_ix ws) (dw_rg ws)) ->
  wf_chain (dw_chain ws) ->
  (forall b, fst V <= N.of_nat b -> N.of_nat b < snd V ->
             nth_error (dw_chain ws) b = nth_error (dw_chain wy) b) ->
  x < y -> fst (indexed_blocks (dw_rg ws)) <= x -> y <= snd (indexed_blocks (dw_rg ws)) ->
  indexed_logs P addr_value topic_value row_hash col_index fuel (dw_chain ws) (dw_ix ws) (dw_rg ws)
               x (y - 1) addrs topics = Some (IxLogs res) ->
  trim_ok view addrs topics (x, y)
          (trim_matches (rng_inter V (0, shared_len view (dw_chain wy))) (x, y) res).
Proof.
  intros (Hne & Hfit & lay & e' & Hlay & Hix & Hrg) Hwf Hval Hxy Hx Hy Hq.
  cbn [is_chain is_ix is_rg] in *.
  pose proof (indexed_exact P addr_value topic_value row_hash col_index col_high brl_small
                fuel0 fuel _ lay e' _ _ x (y - 1) addrs topics res Hlay Hix Hfit Hrg Hx
                ltac:(lia) ltac:(lia) Hq) as Hscan.
  destruct (rng_inter V (0, shared_len view (dw_chain wy))) as [a z] eqn:Ei.
  destruct (trim_scan (dw_chain ws) addrs topics Hwf x y a z res Hxy Hscan) as [Ht Hb].
  destruct (trim_matches (a, z) (x, y) res) as [mr ms] eqn:Etm.
  destruct Ht as [Hl|(x' & y' & E' & H1 & H2 & H3 & H4)]; [left; exact Hl|].
  cbn [fst snd] in E', H1, H3, H4. subst mr. destruct (Hb x' y' eq_refl H2) as [Ha Hz].
  unfold rng_inter in Ei. cbn [fst snd] in Ei.
  destruct (N.min (snd V) (shared_len view (dw_chain wy)) <? N.max (fst V) 0) eqn:E3;
    injection Ei as <- <-; [lia|].
  right. exists x', y'. cbn [fst snd]. repeat split; try lia.
  rewrite <- H4. apply scan_ext. intros b Hb1 Hb2.
  rewrite (shared_len_nth view (dw_chain wy) b) by lia. symmetry. apply Hval; lia.
Qed.

(* a running query over worlds that all satisfy the index invariant (e.g. reachable by the
   indexer operations of C40_inv_step), whose indexed block range only grows while the
   query runs, and whose syncs report ValidBlocks with their intended meaning *)
Theorem dyn_exact_worlds fuel0 fuel (env_world : nat -> dworld) (env_valid : nat -> rng)
        addrs topics firstB lastB ms :
  (forall t, wf_chain (dw_chain (env_world t))) ->
  (forall t, inv fuel0 (mkIState (dw_chain (env_world t)) (dw_ix (env_world t)) (dw_rg (env_world t)))) ->
  (forall t t', (t <= t')%nat ->
     fst (indexed_blocks (dw_rg (env_world t'))) <= fst (indexed_blocks (dw_rg (env_world t))) /\
     snd (indexed_blocks (dw_rg (env_world t))) <= snd (indexed_blocks (dw_rg (env_world t')))) ->
  (forall t b, fst (env_valid t) <= N.of_nat b -> N.of_nat b < snd (env_valid t) ->
     nth_error (dw_chain (env_world (t - 1)%nat)) b = nth_error (dw_chain (env_world t)) b) ->
  d_range_logs P addr_value topic_value row_hash col_index fuel env_world env_valid addrs topics firstB lastB = DOk ms ->
  exists t, let view := dw_chain (env_world t) in
            scan view addrs topics (resolve firstB view) (resolve lastB view) = Some ms.
Proof.
  intros Hwf Hinv Hmono Hval. apply dyn_exact; [exact Hwf|].
  intros t view x y res Hwv Hxy (ts & Hts & Hx & Hy) Hq.
  destruct (Hmono ts (t - 1)%nat Hts) as [Hm1 Hm2].
  apply (sync_contract fuel0 fuel (env_world (t - 1)%nat) (env_world t) (env_valid t) view addrs topics x y res);
    try assumption; try lia.
  - apply Hinv.
  - apply Hwf.
  - intros b Hb1 Hb2. apply Hval; assumption.
Qed.

End Contract.

(* ---- a concrete running query (non-vacuity example of Properties/C40.v) ---- *)
Definition demo_ix1 : index :=
  match build_index demoP idv idv demo_row demo_col 16 demo_new with
  | Some ix => ix | None => mkIndex [] [] 0 end.
Definition demo_w0 : dworld := mkDW demo_chain demo_ix (idle_range demoP demo_ix 6 0 0).
Definition demo_w1 : dworld := mkDW demo_new demo_ix1 (idle_range demoP demo_ix1 8 0 0).
(* the chain is reorged (fork at block 5) right before the sync that follows the first
   indexed search (environment call 2); that sync reports blocks 0..4 as still valid *)
Definition demo_env_world (t : nat) : dworld := if (2 <=? t)%nat then demo_w1 else demo_w0.
Definition demo_env_valid (t : nat) : rng := if (t =? 2)%nat then (0, 5) else (0, 9).
Definition c40_demo_dyn : bool :=
  match d_range_logs demoP idv idv demo_row demo_col 16 demo_env_world demo_env_valid [5] [[6]] (Some 0) None,
        scan demo_new [5] [[6]] 0 8 with
  | DOk ms, Some s => (length ms =? 8)%nat && leqb (demo_keys ms) (demo_keys s)
  | _, _ => false
  end.

