(* Chain/CanonicalCache.v — coherence of BlockChain.txLookupCache (Chain/LookupCache.v) as an
   invariant over histories (C38): every cached answer is what the index answers now. *)
From Coq Require Import List NArith Bool Lia.
From GV Require Import Lib.Tactics Chain.Tree Chain.Canonical Chain.LookupCache Chain.CanonicalProofs Chain.CanonicalInv Chain.CanonicalTop Chain.CanonicalIndex.
Import ListNotations.
Local Open Scope N_scope.

Definition is_purge (ev : event) : bool :=
  match ev with EvPurge => true | EvPurgeReplace => true | _ => false end.
Definition purged (evs : list event) : Prop := existsb is_purge evs = true.

Lemma purged_l : forall a b, purged a -> purged (a ++ b).
Proof. intros a b H. unfold purged in *. rewrite existsb_app, H. reflexivity. Qed.
Lemma purged_r : forall a b, purged b -> purged (a ++ b).
Proof. intros a b H. unfold purged in *. rewrite existsb_app, H. apply orb_true_r. Qed.

Section Chain.
Variable T : tree.
Notation hdr_ok := (hdr_ok T).

(* the import machinery, event-aware: a predicate survives unless a purge marker is emitted *)
Section GenericEv.
Variable P : db -> Prop.
Hypothesis P_wbws : forall st x st1, P st -> write_block_with_state st x = Ok st1 -> P st1.
Hypothesis P_addk : forall st h, P st -> P (add_known st h).
Hypothesis P_rcpt : forall st h, P st ->
  P (mkdb (known st) (upd (rcpt st) h true) (avail st) (disk st) (canon st) (lookup st)
          (hd_block st) (hd_header st) (hd_snap st)).
Hypothesis P_wkb : forall fuel st x st' ev, P st -> hdr_ok x -> is_known st (fst x) = true ->
  write_known_block T fuel st x = Ok (st', ev) -> P st' \/ purged ev.

Lemma wbash_ev : forall fuel st x st' ev, P st -> hdr_ok x ->
  write_block_and_set_head T fuel st x = Ok (st', ev) -> P st' \/ purged ev.
Proof.
  intros fuel st x st' ev HI Hx H. unfold write_block_and_set_head in H.
  destruct (write_block_with_state st x) as [st1|] eqn:EW; [|discriminate].
  destruct (reorg_if_needed T fuel st1 x) as [[st2 ev2]|] eqn:ER; [|discriminate].
  destruct (write_head_block fuel st2 x) as [st3|] eqn:EH; [|discriminate].
  inversion H; subst.
  destruct (P_wkb fuel st1 x st' (ev2 ++ whb_purge (canon st2) x)) as [HP|HP]; eauto.
  - apply (wbws_known _ _ _ 0 EW).
  - unfold write_known_block. now rewrite ER, EH.
  - right. rewrite app_assoc. now apply purged_l.
Qed.

Lemma write_knowns_ev : forall fuel l st first last evs st' l' f' last' evs' e',
  write_knowns T fuel st first l last evs = (st', l', f', last', evs', e') ->
  P st \/ purged evs -> Forall hdr_ok l -> (P st' \/ purged evs') /\ Forall hdr_ok l'.
Proof.
  induction l as [|x r IH]; intros st first last evs st' l' f' last' evs' e' H HI HF; cbn [write_knowns] in H.
  - inversion H; subst; auto.
  - inversion HF as [|? ? Hx Hr]; subst.
    destruct (is_CKnown (classify st first x)) eqn:EC.
    + destruct (write_known_block T fuel st x) as [[st1 ev]|] eqn:EK.
      * eapply IH; eauto. destruct HI as [HI|HI]; [|right; now apply purged_l].
        destruct (P_wkb _ _ _ _ _ HI Hx (classify_known _ _ _ EC) EK); [now left | right; now apply purged_r].
      * inversion H; subst; auto.
    + inversion H; subst; auto.
Qed.

Lemma import_loop_ev : forall fuel sh l st first last evs st' last' evs' e',
  import_loop T fuel st sh first l last evs = (st', last', evs', e') ->
  P st \/ purged evs -> Forall hdr_ok l -> P st' \/ purged evs'.
Proof.
  induction l as [|x r IH]; intros st first last evs st' last' evs' e' H HI HF; cbn [import_loop] in H.
  - inversion H; subst; auto.
  - inversion HF as [|? ? Hx Hr]; subst.
    destruct (classify st first x) eqn:EC.
    + destruct sh.
      * destruct (write_block_and_set_head T fuel st x) as [[st1 ev]|] eqn:EW.
        -- eapply IH; eauto. destruct HI as [HI|HI]; [|right; now apply purged_l].
           destruct (wbash_ev _ _ _ _ _ HI Hx EW); [now left | right; now apply purged_r].
        -- inversion H; subst; auto.
      * destruct (write_block_with_state st x) as [st1|] eqn:EW; inversion H; subst; auto.
        destruct HI as [HI|HI]; [left; eauto | now right].
    + assert (HK : is_known st (fst x) = true) by (eapply classify_known; rewrite EC; reflexivity).
      match type of H with context [write_known_block T fuel ?s0 x] => set (st0 := s0) in * end.
      assert (HI0 : (P st0 \/ purged evs) /\ is_known st0 (fst x) = true).
      { subst st0. destruct (b_txs (snd x)); split; auto. destruct HI; [left; auto | now right]. }
      destruct HI0 as (HI0 & HK0).
      destruct (write_known_block T fuel st0 x) as [[st1 ev]|] eqn:EK.
      * eapply IH; eauto. destruct HI0 as [HI0|HI0]; [|right; now apply purged_l].
        destruct (P_wkb _ _ _ _ _ HI0 Hx HK0 EK); [now left | right; now apply purged_r].
      * inversion H; subst; auto.
    + inversion H; subst; auto.
    + inversion H; subst; auto.
Qed.

Definition pruned_ev (pruned : db -> bool -> list hdr -> outcome) : Prop :=
  forall st sh l st' ev e, pruned st sh l = (st', ev, e) -> P st -> Forall hdr_ok l -> P st' \/ purged ev.

Lemma insert_chain_core_ev : forall pruned fuel st sh l st' ev e, pruned_ev pruned ->
  insert_chain_core T pruned fuel st sh l = (st', ev, e) ->
  P st -> Forall hdr_ok l -> P st' \/ purged ev.
Proof.
  intros pruned fuel st sh l st' ev e Hpr H HI HF. unfold insert_chain_core in H.
  destruct l as [|x0 l0]; [inversion H; subst; auto|].
  set (cn := match cur_hdr T st with Some c => hnum c | None => 0 end) in *.
  assert (Lift : forall s a b, P s \/ purged a -> P s \/ purged (a ++ b))
    by (intros s a b [?|?]; [now left | right; now apply purged_l]).
  destruct (is_CKnown (classify st true x0)).
  - destruct (skip_known st cn true (x0 :: l0)) as [l1 first1] eqn:ES.
    pose proof (skip_known_ok T _ _ _ _ _ _ ES HF) as HF1.
    destruct (write_knowns T fuel st first1 l1 None []) as [[[[[st2 l2] first2] last] evs] e2] eqn:EWK.
    destruct (write_knowns_ev _ _ _ _ _ _ _ _ _ _ _ _ EWK (or_introl HI) HF1) as (HI2 & HF2).
    destruct e2 as [e2|]; [inversion H; subst; auto|].
    destruct l2 as [|x l2']; [inversion H; subst; auto|].
    destruct (classify st2 first2 x).
    + destruct (import_loop T fuel st2 sh first2 (x :: l2') last evs) as [[[st3 last3] ev3] e3] eqn:EI.
      inversion H; subst. apply Lift. eapply import_loop_ev; eauto.
    + destruct (import_loop T fuel st2 sh first2 (x :: l2') last evs) as [[[st3 last3] ev3] e3] eqn:EI.
      inversion H; subst. apply Lift. eapply import_loop_ev; eauto.
    + inversion H; subst; auto.
    + destruct (pruned st2 sh (x :: l2')) as [[st3 ev3] e3] eqn:EP.
      inversion H; subst. destruct HI2 as [HI2|HI2]; [|right; now apply purged_l].
      destruct (Hpr _ _ _ _ _ _ EP HI2 HF2); [now left|]. right. apply purged_r. now apply purged_l.
  - destruct (classify st true x0).
    + destruct (import_loop T fuel st sh true (x0 :: l0) None []) as [[[st3 last3] ev3] e3] eqn:EI.
      inversion H; subst. apply Lift. eapply import_loop_ev; eauto.
    + destruct (import_loop T fuel st sh true (x0 :: l0) None []) as [[[st3 last3] ev3] e3] eqn:EI.
      inversion H; subst. apply Lift. eapply import_loop_ev; eauto.
    + inversion H; subst; auto.
    + destruct (pruned st sh (x0 :: l0)) as [[st3 ev3] e3] eqn:EP.
      inversion H; subst. destruct (Hpr _ _ _ _ _ _ EP HI HF); [now left|]. right. cbn [app]. now apply purged_l.
Qed.

Lemma insert_chain0_ev : forall fuel st sh l st' ev e,
  insert_chain0 T fuel st sh l = (st', ev, e) -> P st -> Forall hdr_ok l -> P st' \/ purged ev.
Proof.
  intros. eapply insert_chain_core_ev; eauto.
  intros s b l0 s' ev0 e0 Hp. inversion Hp; subst; auto.
Qed.

Lemma insert_side_chain_ev : forall fuel st l st' ev e,
  insert_side_chain T fuel st l = (st', ev, e) -> P st -> Forall hdr_ok l -> P st' \/ purged ev.
Proof.
  intros fuel st l st' ev e H HI HF. unfold insert_side_chain in H.
  set (cn := match cur_hdr T st with Some c => hnum c | None => 0 end) in *.
  destruct (side_write st cn l None) as [st1 prev] eqn:ES.
  destruct (side_write_gen T P P_addk _ _ _ _ _ _ ES HI HF) as (HI1 & Hprev); [discriminate|].
  destruct (stateless_walk T fuel st1 prev []) as [[[y|] hashes]|] eqn:EW;
    try (inversion H; subst; auto; fail).
  pose proof (stateless_walk_ok T _ _ _ _ _ _ EW Hprev (Forall_nil _)) as HFh.
  destruct (rev hashes) as [|b0 br] eqn:ER; [inversion H; subst; auto|].
  eapply insert_chain0_ev; eauto. rewrite <- ER. now apply Forall_rev'.
Qed.

Lemma recover_each_ev : forall fuel l st evs st' ev e,
  recover_each T fuel st l evs = (st', ev, e) -> P st \/ purged evs -> Forall hdr_ok l -> P st' \/ purged ev.
Proof.
  induction l as [|x r IH]; intros st evs st' ev e H HI HF; cbn [recover_each] in H.
  - inversion H; subst; auto.
  - inversion HF as [|? ? Hx Hr]; subst.
    destruct (insert_chain0 T fuel st false [x]) as [[st1 ev1] e1] eqn:EI.
    assert (HI1 : P st1 \/ purged (evs ++ ev1)).
    { destruct HI as [HI|HI]; [|right; now apply purged_l].
      destruct (insert_chain0_ev _ _ _ _ _ _ _ EI HI (Forall_cons _ Hx (Forall_nil _))); [now left | right; now apply purged_r]. }
    destruct e1; [inversion H; subst; auto|]. apply (IH _ _ _ _ _ H HI1 Hr).
Qed.

Lemma recover_ancestors_ev : forall fuel st x st' ev e,
  recover_ancestors T fuel st x = (st', ev, e) -> P st -> hdr_ok x -> P st' \/ purged ev.
Proof.
  intros fuel st x st' ev e H HI Hx. unfold recover_ancestors in H.
  destruct (stateless_walk T fuel st (Some x) []) as [[[y|] hashes]|] eqn:EW;
    try (inversion H; subst; auto; fail).
  eapply recover_each_ev; eauto. apply Forall_rev'.
  eapply stateless_walk_ok; eauto. intros h Hh; inversion Hh; subst; auto.
Qed.

Lemma pruned_case_ev : forall fuel, pruned_ev (pruned_case T fuel).
Proof.
  intros fuel st sh l st' ev e H HI HF. unfold pruned_case in H. destruct sh.
  - eapply insert_side_chain_ev; eauto.
  - destruct l as [|x r]; [inversion H; subst; auto|].
    inversion HF; subst. eapply recover_ancestors_ev; eauto.
Qed.

Lemma insert_chain_ev : forall fuel st sh l st' ev e,
  insert_chain T fuel st sh l = (st', ev, e) -> P st -> Forall hdr_ok l -> P st' \/ purged ev.
Proof. intros. eapply insert_chain_core_ev; eauto. apply pruned_case_ev. Qed.

End GenericEv.

Section SetCanonicalEv.
Variable P : db -> Prop.
Hypothesis P_wbws : forall st x st1, P st -> write_block_with_state st x = Ok st1 -> P st1.
Hypothesis P_addk : forall st h, P st -> P (add_known st h).
Hypothesis P_rcpt : forall st h, P st ->
  P (mkdb (known st) (upd (rcpt st) h true) (avail st) (disk st) (canon st) (lookup st)
          (hd_block st) (hd_header st) (hd_snap st)).
Hypothesis P_wkb : forall fuel st x st' ev, P st -> hdr_ok x -> is_known st (fst x) = true ->
  write_known_block T fuel st x = Ok (st', ev) -> P st' \/ purged ev.

Lemma set_canonical_ev : forall fuel st x st' ev e,
  set_canonical T fuel st x = (st', ev, e) -> P st -> hdr_ok x -> is_known st (fst x) = true ->
  P st' \/ purged ev.
Proof.
  intros fuel st x st' ev e H HI Hx HK. unfold set_canonical in H.
  destruct (if avail st (fst x) then (st, [], None) else recover_ancestors T fuel st x)
    as [[st1 ev1] e1] eqn:ER.
  assert (W1 : forall s y s1, WithKnown P (fst x) s -> write_block_with_state s y = Ok s1 -> WithKnown P (fst x) s1).
  { intros s y s1 (Hp & Hk) Hw. split; [eauto|]. apply (wbws_known _ _ _ _ Hw); auto. }
  assert (W2 : forall s h, WithKnown P (fst x) s -> WithKnown P (fst x) (add_known s h)).
  { intros s h (Hp & Hk). split; auto. now apply add_known_known. }
  assert (W3 : forall s h, WithKnown P (fst x) s ->
     WithKnown P (fst x) (mkdb (known s) (upd (rcpt s) h true) (avail s) (disk s) (canon s) (lookup s)
                               (hd_block s) (hd_header s) (hd_snap s))).
  { intros s h (Hp & Hk). split; auto. }
  assert (W4 : forall f s y s' ev0, WithKnown P (fst x) s -> hdr_ok y -> is_known s (fst y) = true ->
     write_known_block T f s y = Ok (s', ev0) -> WithKnown P (fst x) s' \/ purged ev0).
  { intros f s y s' ev0 (Hp & Hk) Hy Hky Hw. destruct (P_wkb _ _ _ _ _ Hp Hy Hky Hw); [left|now right].
    split; auto. unfold is_known in *. now rewrite (wkb_known T _ _ _ _ _ Hw). }
  assert (HI1 : WithKnown P (fst x) st1 \/ purged ev1).
  { destruct (avail st (fst x)); [inversion ER; subst; left; split; auto|].
    eapply (recover_ancestors_ev (WithKnown P (fst x)));
      first [exact W1 | exact W2 | exact W3 | exact W4 | exact ER | exact Hx | (split; assumption)]. }
  destruct e1; [inversion H; subst; destruct HI1 as [(?&?)|?]; auto|].
  destruct (reorg_if_needed T fuel st1 x) as [[st2 ev2]|] eqn:ERI;
    [|inversion H; subst; destruct HI1 as [(?&?)|?]; auto].
  destruct (write_head_block fuel st2 x) as [st3|] eqn:EH; inversion H; subst;
    [|destruct HI1 as [(?&?)|?]; auto].
  destruct HI1 as [(HP1 & HK1)|HP]; [|right; now apply purged_l].
  destruct (P_wkb fuel st1 x st' (ev2 ++ whb_purge (canon st2) x)) as [HP|HP]; auto.
  - unfold write_known_block. now rewrite ERI, EH.
  - right. apply purged_r. rewrite app_assoc. now apply purged_l.
Qed.

Lemma step_import_ev : forall fuel st o st' ev e, import_op o ->
  step T fuel st o = (st', ev, e) -> P st -> P st' \/ purged ev.
Proof.
  intros fuel st o st' ev e Ho H HI. destruct o as [l|h|h|n|]; cbn in Ho; try tauto; cbn [step] in H.
  - destruct (resolve_all T l) as [hs|] eqn:ER; [|inversion H; subst; auto].
    destruct (contiguous hs); [|inversion H; subst; auto].
    eapply (insert_chain_ev P); eauto; eapply resolve_all_ok; eauto.
  - destruct (T h) as [b|] eqn:ET; [|inversion H; subst; auto].
    eapply (insert_chain_ev P); eauto.
  - destruct (get_by_hash T st h) as [x|] eqn:EG; [|inversion H; subst; auto].
    destruct (get_by_hash_known T _ _ _ EG). eapply set_canonical_ev; eauto.
Qed.

End SetCanonicalEv.

(* ---- the cache ---- *)
Hypothesis Hwf : wf_tree T.
Hypothesis Hgp : forall g, T 0 = Some g -> T (b_parent g) = None.
Hypothesis HU : tx_once_per_branch T.
Hypothesis Hg_notx : forall g, T 0 = Some g -> forall tx, ~ In tx (b_txs g).

Definition coherent (c : cache) (st : db) : Prop :=
  forall tx v, cache_get c tx = Some v -> resolve_tx T st tx = Some v.

Lemma resolve_mono : forall st st' tx v, lookup st' = lookup st -> canon st' = canon st ->
  (forall h, is_known st h = true -> is_known st' h = true) ->
  resolve_tx T st tx = Some v -> resolve_tx T st' tx = Some v.
Proof.
  intros st st' tx v E1 E2 Hk H. unfold resolve_tx, get_by_hash in *. rewrite E1, E2.
  destruct (lookup st tx) as [n|]; [|discriminate]. destruct (canon st n) as [h|]; [|discriminate].
  destruct (T h) as [b|]; [|discriminate]. destruct (is_known st h) eqn:EK; [|discriminate].
  now rewrite (Hk h EK).
Qed.

Lemma reorg_purged : forall fuel st old new st' evs, reorg T fuel st old new = Ok (st', evs) -> purged evs.
Proof.
  intros fuel st old new st' evs H. rewrite reorg_unfold in H.
  destruct (reorg_walk T fuel st old new) as [[[c oc] nc]|]; [|discriminate].
  cbv zeta in H. destruct (fold_whb fuel (rev (tl nc)) st) as [st1|]; [|discriminate].
  match type of H with context [del_canon_from fuel ?cc ?ii] =>
    destruct (del_canon_from fuel cc ii) as [c'|]; [|discriminate] end.
  inversion H; subst. apply purged_r. apply purged_r. reflexivity.
Qed.

(* one cached answer, together with the index invariant *)
Definition Pc (tx : N) (v : N * N) (st : db) : Prop := CInv T st /\ resolve_tx T st tx = Some v.

Lemma Pc_wkb : forall tx v fuel st x st' ev, Pc tx v st -> hdr_ok x -> is_known st (fst x) = true ->
  write_known_block T fuel st x = Ok (st', ev) -> Pc tx v st' \/ purged ev.
Proof.
  intros tx v fuel st x st' ev (HC & HR) Hx Hk H.
  pose proof (CInv_wkb T Hwf Hgp HU Hg_notx _ _ _ _ _ HC Hx Hk H) as HC'.
  unfold write_known_block, reorg_if_needed in H.
  destruct (b_parent (snd x) =? hd_block st).
  - destruct (write_head_block fuel st x) as [st2|] eqn:EW; [|discriminate]. inversion H; subst. cbn [app].
    unfold whb_purge. destruct (whb_replaces (canon st) x) eqn:ERp; [right; reflexivity|]. left. split; auto.
    (* no reorg, no replacement: the cached block keeps its marker and, by completeness, its entry *)
    unfold resolve_tx, get_by_hash in HR.
    destruct (lookup st tx) as [n|] eqn:EL; [|discriminate]. destruct (canon st n) as [h|] eqn:ECn; [|discriminate].
    destruct (T h) as [b|] eqn:ETh; [|discriminate]. destruct (is_known st h) eqn:EK; [|discriminate].
    cbn [snd] in HR. destruct (mem tx (b_txs b)) eqn:EM; [|discriminate]. inversion HR; subst v.
    assert (ECn' : canon st' n = Some h).
    { rewrite (whb_noreplace _ _ _ _ EW ERp). destruct (N.eq_dec n (hnum x)) as [->|Hne]; [|now rewrite upd_other].
      rewrite upd_same. unfold whb_replaces in ERp. rewrite ECn in ERp.
      destruct (N.eqb_spec h (fst x)); [now subst | discriminate]. }
    destruct HC' as (_ & HLC'). unfold resolve_tx, get_by_hash.
    rewrite (HLC' n h b tx ECn' ETh (proj1 (mem_iff _ _) EM)), ECn', ETh.
    destruct (whb_spec _ _ _ _ EW) as (_ & _ & _ & (Ekn & _) & _). unfold is_known in *. rewrite Ekn, EK. cbn [snd]. now rewrite EM.
  - destruct (cur_hdr T st) as [cur|]; [|discriminate].
    destruct (reorg T fuel st cur x) as [[st1 ev1]|] eqn:ER; [|discriminate].
    destruct (write_head_block fuel st1 x) as [st2|]; [|discriminate]. inversion H; subst.
    right. apply purged_l. eapply reorg_purged; eauto.
Qed.

Lemma Pc_wbws : forall tx v st x st1, Pc tx v st -> write_block_with_state st x = Ok st1 -> Pc tx v st1.
Proof.
  intros tx v st x st1 (HC & HR) H. split; [eapply CInv_wbws; eauto|].
  destruct (wbws_core _ _ _ H) as (E1 & _).
  apply (resolve_mono st st1 tx v (wbws_lookup _ _ _ H) E1); auto.
  intros h Hh. apply (wbws_known _ _ _ h H). exact Hh.
Qed.
Lemma Pc_addk : forall tx v st h, Pc tx v st -> Pc tx v (add_known st h).
Proof.
  intros tx v st h (HC & HR). split; [now apply CInv_addk|].
  destruct (add_known_core st h) as (E1 & _).
  apply (resolve_mono st (add_known st h) tx v (add_known_lookup st h) E1); auto.
  intros k Hk. now apply add_known_known.
Qed.
Lemma Pc_rcpt : forall tx v st h, Pc tx v st ->
  Pc tx v (mkdb (known st) (upd (rcpt st) h true) (avail st) (disk st) (canon st) (lookup st)
                (hd_block st) (hd_header st) (hd_snap st)).
Proof. intros tx v st h H. exact H. Qed.

Lemma cache_get_refresh : forall st txids c tx v,
  coherent c st -> cache_get (refresh T st c txids) tx = Some v -> resolve_tx T st tx = Some v.
Proof.
  intros st txids. unfold refresh. induction txids as [|t r IH]; intros c tx v Hc H; cbn [fold_left] in H.
  - now apply Hc.
  - refine (IH _ tx v _ H). intros tx' v' H'. destruct (cache_get c t) eqn:E; [now apply Hc|].
    destruct (resolve_tx T st t) as [w|] eqn:ER; [|now apply Hc].
    cbn [cache_get] in H'. destruct (N.eqb_spec t tx'); [subst; now inversion H'; subst | now apply Hc].
Qed.

Lemma purges_false : forall o evs, purges false o evs = false -> o <> ORestart /\ ~ purged evs.
Proof.
  intros o evs H. unfold purges in H. apply orb_false_iff in H as (H1 & H2). split.
  - intro; subst; discriminate.
  - unfold purged. intro Hp.
    assert (E : forall l, existsb (fun ev => match ev with EvPurge => true | EvPurgeReplace => negb false | _ => false end) l
                          = existsb is_purge l).
    { induction l as [|e r IH]; cbn; auto. }
    rewrite E in H2. congruence.
Qed.

Lemma set_head_purged_or_same : forall fuel st target st' ev e,
  set_head T fuel st target = (st', ev, e) -> purged ev \/ st' = st.
Proof.
  intros fuel st target st' ev e H. unfold set_head in H.
  destruct (T 0) as [gb|]; [|inversion H; subst; auto].
  destruct (set_head_loop T fuel st (0, gb) target true []) as [[st1 dels]|]; [|inversion H; subst; auto].
  destruct (negb (is_known (delete_heights T st1 dels) (hd_block (delete_heights T st1 dels))));
    inversion H; subst; left; reflexivity.
Qed.

(* one step of the cached history keeps the index invariant and the coherence of the cache *)
Lemma step_coherent : forall fuel txids st c o,
  CInv T st -> coherent c st ->
  let out := step T fuel st o in let st1 := fst (fst out) in
  hd_block st1 = hd_header st1 ->
  CInv T st1 /\ coherent (refresh T st1 (if purges false o (snd (fst out)) then [] else c) txids) st1.
Proof.
  intros fuel txids st c o HC Hco out st1 HE. subst out st1.
  destruct (step T fuel st o) as [[st1 evs] e] eqn:ES. cbn [fst snd] in *.
  assert (HC1 : CInv T st1) by (eapply (step_CInv T Hwf Hgp HU Hg_notx); eauto).
  split; auto. intros tx v Hg. eapply cache_get_refresh; eauto.
  destruct (purges false o evs) eqn:EP; [intros ? ? Hn; discriminate|].
  destruct (purges_false _ _ EP) as (Hnr & Hnp).
  intros tx' v' Hc'. specialize (Hco _ _ Hc').
  destruct o as [l|h|h|n|] eqn:EO; try congruence.
  - destruct (step_import_ev (Pc tx' v') (Pc_wbws tx' v') (Pc_addk tx' v') (Pc_rcpt tx' v') (Pc_wkb tx' v')
               fuel st (OInsert l) st1 evs e I ES (conj HC Hco)) as [(_ & HR)|HP]; [exact HR | contradiction].
  - destruct (step_import_ev (Pc tx' v') (Pc_wbws tx' v') (Pc_addk tx' v') (Pc_rcpt tx' v') (Pc_wkb tx' v')
               fuel st (OInsertNoHead h) st1 evs e I ES (conj HC Hco)) as [(_ & HR)|HP]; [exact HR | contradiction].
  - destruct (step_import_ev (Pc tx' v') (Pc_wbws tx' v') (Pc_addk tx' v') (Pc_rcpt tx' v') (Pc_wkb tx' v')
               fuel st (OSetCanonical h) st1 evs e I ES (conj HC Hco)) as [(_ & HR)|HP]; [exact HR | contradiction].
  - cbn [step] in ES. destruct (set_head_purged_or_same _ _ _ _ _ _ ES) as [HP|Heq]; [contradiction | rewrite Heq; exact Hco].
Qed.

(* the invariant over histories (every tx of [txids] asked after every operation) *)
Lemma run_cache_coherent : forall fuel txids ops st c,
  heads_equal_along T fuel st ops -> CInv T st -> coherent c st ->
  let '(st', c') := run_cache false T fuel txids st c ops in CInv T st' /\ coherent c' st'.
Proof.
  induction ops as [|o r IH]; intros st c HE HC Hco; cbn [run_cache].
  - auto.
  - cbn in HE. destruct HE as (HE1 & HEr).
    destruct (step_coherent fuel txids st c o HC Hco HE1) as (HC1 & Hco1).
    apply IH; auto.
Qed.

Lemma cache_coherent_history : forall fuel txids ops,
  heads_equal_along T fuel genesis_db ops ->
  let '(st, c) := run_cache false T fuel txids genesis_db [] ops in
  forall tx v, cache_get c tx = Some v -> resolve_tx T st tx = Some v.
Proof.
  intros fuel txids ops HE.
  assert (H0 : coherent [] genesis_db) by (intros tx v H; discriminate).
  pose proof (run_cache_coherent fuel txids ops genesis_db [] HE (CInv_genesis T Hwf Hg_notx) H0) as H.
  destruct (run_cache false T fuel txids genesis_db [] ops) as [st c]. apply H.
Qed.

End Chain.
