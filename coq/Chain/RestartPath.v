(* Chain/RestartPath.v — C39, multi-session histories: the part of the path database
   that decides whether the node can go on after a restart — the persistent state id,
   the disk layer id (write buffer included), the number of state histories in the
   freezer and the layer journal of the last clean shutdown — as four counters next to
   the chain model of Chain/Restart.v.

   State ids: the state of a block has the block's NUMBER as id (every block changes
   the state, each layer's id is its parent's + 1, the harness reports ids relative to
   the genesis state's).  Transcribed rules (triedb/pathdb):
     Database.Update -> layerTree.cap(root, 128): at most 128 diff layers stay above the
       disk layer on the new root's path; the layers below are merged into the disk
       layer (diskLayer.commit: one state history appended per merged layer; the write
       buffer is not flushed: the persistent id stays)                        [pd_grow]
     Database.Commit(root) -> cap(root, 0): everything down to root is merged and the
       buffer flushed: persistent id = disk id = history head = id(root); a no-op
       (error) when root is the disk layer itself                             [pd_commit]
     Database.Journal (clean Stop): the journal records the persistent root it was
       written for and the disk layer with its buffer                         [pd_stop]
     New -> loadLayers: the journal is used iff its persistent root is the current one
       (it is NOT deleted when loaded, nor by later Updates), otherwise the bare
       persistent state; repairHistory truncates the histories above the disk layer
                                                                              [pd_reopen]
   Definitions only; proofs in Chain/RestartPathProofs.v. *)
From Coq Require Import List NArith Bool.
From GV Require Import Chain.Tree Chain.Canonical Chain.Restart.
Import ListNotations.
Local Open Scope N_scope.

Record pdb := mkpd {
  pd_pid : N;                 (* rawdb.ReadPersistentStateID *)
  pd_did : N;                 (* tree.bottom().stateID() of the running process *)
  pd_fh  : N;                 (* stateFreezer.Ancients() *)
  pd_jr  : option (N * N) }.  (* journal: (persistent id it was written for, disk layer id in it) *)

Definition pd0 : pdb := mkpd 0 0 0 None.

(* a block of number m was executed (its layer added on top of its parent's) *)
Definition pd_grow (m : N) (d : pdb) : pdb :=
  let nd := N.max (pd_did d) (m - 128) in
  mkpd (pd_pid d) nd (if pd_did d <? nd then nd else pd_fh d) (pd_jr d).

Definition pd_commit (m : N) (d : pdb) : pdb :=
  if pd_did d <? m then mkpd m m m (pd_jr d) else d.

Definition pd_stop (d : pdb) : pdb := mkpd (pd_pid d) (pd_did d) (pd_fh d) (Some (pd_pid d, pd_did d)).

(* [skip_trunc]: the variant that trusts a loaded journal and does not truncate the
   histories (not the code of /repo; kept to show that the truncation is what the
   alignment rests on: RestartPathProofs.reopen_without_truncation_breaks) *)
Definition pd_reopen_gen (skip_trunc : bool) (d : pdb) : pdb :=
  match pd_jr d with
  | Some (jp, jd) =>
    if jp =? pd_pid d
    then mkpd (pd_pid d) jd (if skip_trunc then pd_fh d else N.min (pd_fh d) jd) (pd_jr d)
    else mkpd (pd_pid d) (pd_pid d) (N.min (pd_fh d) (pd_pid d)) (pd_jr d)
  | None => mkpd (pd_pid d) (pd_pid d) (N.min (pd_fh d) (pd_pid d)) (pd_jr d)
  end.
Definition pd_reopen := pd_reopen_gen false.

Inductive pop := PGrow (m : N) | PCommit (m : N) | PStop | PReopen.
Definition pstep (d : pdb) (o : pop) : pdb :=
  match o with
  | PGrow m => pd_grow m d
  | PCommit m => pd_commit m d
  | PStop => pd_stop d
  | PReopen => pd_reopen d
  end.

Section Track.
Variable T : tree.

(* the highest block whose state the running process holds: every executed block is one *)
Definition max_avail (st : db) : N :=
  fold_left (fun m h => if avail st h then N.max m (num_of T h) else m) (known st) 0.

(* the counters across one operation of the history ([st0] before, [st1] after) *)
Definition pd_track (path : bool) (d : pdb) (st0 st1 : db) (o : sop) : pdb :=
  if negb path then d
  else match o with
       | SCommit h => if is_known st0 h && avail st0 h then pd_commit (num_of T h) d else d
       | _ => pd_grow (max_avail st1) d
       end.

Fixpoint run_ops_pd (path : bool) (fuel : nat) (p : pst) (d : pdb) (ops : list sop)
  : rres (pst * pdb) * list (option err) :=
  match ops with
  | [] => (ROk (p, d), [])
  | o :: r => match sstep T path fuel p o with
              | (ROk p1, e) =>
                let '(res, es) := run_ops_pd path fuel p1 (pd_track path d (kv p) (kv p1) o) r in (res, e :: es)
              | (RErr x, e) => (RErr x, [e])
              end
  end.

(* one run of the node: the operations, the last one up to the cut.  The key-value image
   is the one at the cut; the state-history freezer is the live one (what the rest of the
   interrupted InsertChain appended is there): the counters follow the whole operation. *)
Definition run_session (cf : cfg) (fuel : nat) (p : pst) (d : pdb) (ops : list sop) (c : cut)
  : rres (pst * pdb) * list (option err) :=
  match rev ops with
  | [] => (ROk (p, d), [])
  | last :: rinit =>
    match run_ops_pd (c_path cf) fuel p d (rev rinit) with
    | (ROk (p1, d1), es) =>
      let '(res, e) := cut_last T (c_path cf) (c_legacy_reorg cf) fuel p1 last c in
      let dw := match sstep T (c_path cf) fuel p1 last with
                | (ROk pw, _) => pd_track (c_path cf) d1 (kv p1) (kv pw) last
                | (RErr _, _) => d1
                end in
      match res with
      | ROk p2 => (ROk (p2, dw), es ++ [e])
      | RErr x => (RErr x, es ++ [e])
      end
    | (RErr x, es) => (RErr x, es)
    end
  end.

(* the blocks from [stop] (exclusive) up to [h], oldest first; None if [stop] is not an
   ancestor of [h] *)
Fixpoint path_up (fuel : nat) (h stop : N) (acc : list N) : option (list N) :=
  match fuel with
  | O => None
  | S f => if h =? stop then Some acc
           else match T h with
                | Some b => if b_number b =? 0 then None else path_up f (b_parent b) stop (h :: acc)
                | None => None
                end
  end.

End Track.
