(* Chain/LogIndexHistory.v — the index invariant over histories of indexer operations:
   head rendering towards a new target chain (extension or reorg), tail epoch unindexing
   and tail epoch indexing keep [index_ok] and [rg_ok], hence query_exact holds at every
   reachable state. *)
From GV Require Import Lib.Tactics Chain.LogIndex Chain.LogIndexProofs Chain.LogIndexSeq Chain.LogIndexQuery Chain.LogIndexLayout Chain.LogIndexExact.
Local Open Scope N_scope.

Lemma clear_maps_nth : forall maps from n i, (i < from \/ from + n <= i)%nat ->
  nth_error (clear_maps maps from n) i = nth_error maps i.
Proof.
  induction maps as [|rw r IH]; intros from n i H; [destruct from; reflexivity|].
  destruct from as [|f]; simpl.
  - destruct n as [|k]; [reflexivity|]. destruct i as [|i]; [lia|]. simpl. apply IH. right. lia.
  - destruct i as [|i]; [reflexivity|]. simpl. apply IH. lia.
Qed.

Lemma nth_error_firstn_lt {A} : forall (l : list A) n i, (i < n)%nat -> nth_error (firstn n l) i = nth_error l i.
Proof.
  induction l as [|x l IH]; intros n i H; [destruct n, i; reflexivity|].
  destruct n as [|n]; [lia|]. destruct i as [|i]; [reflexivity|]. simpl. apply IH. lia.
Qed.

Lemma nth_error_skipn' {A} : forall (l : list A) n i, nth_error (skipn n l) i = nth_error l (n + i).
Proof.
  induction l as [|x l IH]; intros n i; [destruct n, i; reflexivity|].
  destruct n as [|n]; [reflexivity|]. simpl. apply IH.
Qed.

Lemma layout_blocks_app P : forall a cur b, layout_blocks P cur (a ++ b) =
  let '(la, e1) := layout_blocks P cur a in
  let '(lb, e2) := layout_blocks P e1 b in (la ++ lb, e2).
Proof.
  induction a as [|x a IH]; intros cur b; simpl.
  - destruct (layout_blocks P cur b); reflexivity.
  - destruct (layout_logs P cur x) as [ps e]. rewrite IH.
    destruct (layout_blocks P (e + 1) a) as [la e1]. destruct (layout_blocks P e1 b) as [lb e2]. reflexivity.
Qed.

Lemma topic_values_ge tv : forall ts q lv v, In (lv, v) (topic_values tv q ts) -> q <= lv.
Proof.
  induction ts as [|t ts IH]; intros q lv v H; [destruct H|]. simpl in H.
  destruct H as [E|H]; [injection E as <- _; lia|]. specialize (IH _ _ _ H). lia.
Qed.

Lemma values_of_ge av tv p l lv v : In (lv, v) (values_of av tv (p, l)) -> p <= lv.
Proof.
  unfold values_of. cbn [fst snd]. intros [E|H]; [injection E as <- _; lia|].
  pose proof (topic_values_ge _ _ _ _ _ H). lia.
Qed.

Lemma all_values_app av tv a b : all_values av tv (a ++ b) = all_values av tv a ++ all_values av tv b.
Proof. unfold all_values. rewrite placed_of_app, map_app, concat_app. reflexivity. Qed.

Lemma all_values_In av tv lay lv v : In (lv, v) (all_values av tv lay) ->
  exists p l, In (p, l) (placed_of lay) /\ p <= lv.
Proof.
  unfold all_values. intros H. apply in_concat in H. destruct H as (vs & Hvs & Hin).
  apply in_map_iff in Hvs. destruct Hvs as ([p l] & <- & Hpl). exists p, l. split; [exact Hpl|].
  eapply values_of_ge. exact Hin.
Qed.

Section History.
Variable P : params.
Variable addr_value topic_value : N -> N.
Variable row_hash : N -> nat -> N -> N.
Variable col_index : N -> N -> N.

Notation vpm := (vpm P).
Notation index_ok := (index_ok P addr_value topic_value row_hash col_index).
Notation rg_ok := (rg_ok P).
Notation render_map := (render_map P row_hash col_index).
Notation all_values := (all_values addr_value topic_value).
Notation unindex_tail_epoch := (unindex_tail_epoch P).
Notation render_head := (render_head P addr_value topic_value row_hash col_index).
Notation index_tail_epoch := (index_tail_epoch P addr_value topic_value row_hash col_index).

(* the invariant: the index holds the pointers of the canonical chain and, on the maps of
   its range, the rows rendered from the canonical chain; the range is well-formed *)
Definition inv (fuel0 : nat) (st : istate) : Prop :=
  is_chain st <> [] /\
  (forall b l, In b (is_chain st) -> In l b -> log_len l <= vpm) /\
  exists lay e', layout_blocks P 0 (is_chain st) = (lay, e') /\
                 index_ok fuel0 lay e' (is_ix st) (is_rg st) /\ rg_ok lay (is_ix st) (is_rg st).

Lemma fem_succ e : first_epoch_map P (e + 1) = first_epoch_map P e + N.shiftl 1 (p_lmpe P).
Proof. unfold first_epoch_map. rewrite !N.shiftl_mul_pow2. lia. Qed.

Lemma lem_succ e : last_epoch_map P e + 1 = first_epoch_map P (e + 1).
Proof.
  unfold last_epoch_map, first_epoch_map. rewrite !N.shiftl_mul_pow2.
  assert (0 < 2 ^ p_lmpe P) by (apply N.neq_0_lt_0, N.pow_nonzero; discriminate). nia.
Qed.

Lemma shiftl1_pos : 0 < N.shiftl 1 (p_lmpe P).
Proof. rewrite N.shiftl_mul_pow2. assert (0 < 2 ^ p_lmpe P) by (apply N.neq_0_lt_0, N.pow_nonzero; discriminate). lia. Qed.

(* the first block after the owner of position mf*vpm starts above mf*vpm *)
Lemma tail_block_ok chain lay e' ix mf bafter :
  layout_blocks P 0 chain = (lay, e') -> chain <> [] -> ix_ptrs ix = map fst lay ->
  bafter <= N.of_nat (length (ix_ptrs ix)) ->
  last_block_of_map P ix (mf - 1) + 1 < bafter -> 0 < mf ->
  exists bf pf, last_block_of_map P ix (mf - 1) + 1 = N.of_nat bf /\
                nth_error (ix_ptrs ix) bf = Some pf /\ mf * vpm <= pf.
Proof.
  intros Hlay Hne Hptrs Hba Hlt Hmf.
  destruct (last_block_of_map_own P chain lay e' Hlay Hne ix Hptrs (mf - 1)) as (k & Ek & q & Hq & Hle & Hnext).
  rewrite Ek in Hlt |- *. exists (S k).
  destruct (nth_error (ix_ptrs ix) (S k)) as [q'|] eqn:Eq'.
  2:{ apply nth_error_None in Eq'. lia. }
  exists q'. split; [lia|]. split; [reflexivity|].
  specialize (Hnext _ eq_refl). replace (mf - 1 + 1) with mf in Hnext by lia. lia.
Qed.

(* ---- tail epoch unindexing ---- *)
Lemma inv_unindex fuel0 st e :
  inv fuel0 st ->
  r_mfirst (is_rg st) = first_epoch_map P e ->
  first_epoch_map P (e + 1) < r_mafter (is_rg st) ->
  inv fuel0 (unindex_tail_epoch st e).
Proof.
  intros (Hne & Hfit & lay & e' & Hlay & (Hptrs & Hend & Hrows) & (Hba & Hhead & Hma & Hbfx)) Hmf Hnext.
  unfold inv, LogIndex.unindex_tail_epoch. cbv zeta. cbn [is_chain is_ix is_rg].
  split; [exact Hne|]. split; [exact Hfit|]. exists lay, e'. split; [exact Hlay|].
  pose proof shiftl1_pos as Hsh. pose proof (fem_succ e) as Hfs.
  set (bf := last_block_of_map P (is_ix st) (last_epoch_map P e) + 1).
  split.
  - split; [exact Hptrs|]. split; [exact Hend|]. cbn [r_mfirst r_mafter].
    intros m Hm1 Hm2. destruct (Hrows m ltac:(lia) Hm2) as (rw & Hren & Hrw).
    exists rw. split; [exact Hren|]. rewrite <- Hrw. unfold ix_rows. cbn [ix_maps].
    rewrite clear_maps_nth; [reflexivity|]. right. lia.
  - unfold LogIndexExact.rg_ok. cbn [r_bfirst r_bafter r_head_indexed r_mfirst r_mafter ix_ptrs].
    destruct (last_block_of_map_own P _ lay e' Hlay Hne (is_ix st) Hptrs (last_epoch_map P e))
      as (k & Ek & q & Hq & Hle & Hnx).
    assert (Hk : (k < length (ix_ptrs (is_ix st)))%nat) by (apply nth_error_Some; congruence).
    assert (Ebf : bf = N.of_nat k + 1) by (unfold bf; rewrite Ek; reflexivity).
    split; [destruct (r_bafter (is_rg st) <? bf); lia|].
    split; [intros Hh; specialize (Hhead Hh); destruct (r_bafter (is_rg st) <? bf) eqn:E; lia|].
    split; [exact Hma|]. intros Hlt. exists (S k).
    destruct (nth_error (ix_ptrs (is_ix st)) (S k)) as [q'|] eqn:Eq'.
    2:{ apply nth_error_None in Eq'. destruct (r_bafter (is_rg st) <? bf) eqn:E; lia. }
    exists q'. split; [lia|]. split; [reflexivity|].
    specialize (Hnx _ eq_refl). rewrite lem_succ in Hnx. lia.
Qed.

(* ---- head rendering towards a new target chain (extension or reorg) ---- *)
Definition head_guard (st : istate) (newchain : list (list log)) (m0 c : nat) : Prop :=
  (1 <= c)%nat /\ (c <= length (is_chain st))%nat /\ (c <= length newchain)%nat /\
  firstn c (is_chain st) = firstn c newchain /\
  N.of_nat m0 * vpm <= snd (layout_blocks P 0 (firstn c newchain)) /\
  r_bfirst (is_rg st) < r_bafter (is_rg st) /\ r_bfirst (is_rg st) < N.of_nat c /\
  r_mfirst (is_rg st) <= N.of_nat m0 /\ N.of_nat m0 <= r_mafter (is_rg st) /\
  (m0 <= length (ix_maps (is_ix st)))%nat /\
  (forall b l, In b newchain -> In l b -> log_len l <= vpm).

Lemma map_values_prefix la lb e1 e2 m0 m :
  bspaced e1 lb e2 -> N.of_nat m0 * vpm <= e1 -> m < N.of_nat m0 ->
  map_values P (all_values (la ++ lb)) m = map_values P (all_values la) m.
Proof.
  intros Hb Hm0 Hm. rewrite all_values_app. unfold map_values. rewrite filter_app.
  rewrite (filter_nil_all _ (all_values lb)); [apply app_nil_r|].
  intros [lv v] Hin. cbn [fst]. destruct (all_values_In _ _ _ _ _ Hin) as (p & l & Hpl & Hple).
  destruct (bspaced_placed_strict _ _ _ Hb _ _ Hpl) as [Hp _]. pose proof (vpm_pos P).
  assert (N.of_nat m0 <= lv / vpm).
  { apply N.div_le_lower_bound; [lia|]. rewrite N.mul_comm. lia. }
  lia.
Qed.

Lemma inv_head fuel0 st newchain m0 c st' :
  inv fuel0 st -> head_guard st newchain m0 c ->
  render_head fuel0 st newchain m0 = Some st' -> inv fuel0 st'.
Proof.
  intros (Hne & Hfit & lay & e' & Hlay & (Hptrs & Hend & Hrows) & (Hba & Hhead & Hma & Hbfx))
         (Hc1 & Hc2 & Hc3 & Hpre & Hm0 & Hrne & Hbfc & Hmf0 & Hm0a & Hm0l & Hfitn) H.
  set (pre := firstn c newchain) in *.
  assert (Eold : is_chain st = pre ++ skipn c (is_chain st)).
  { rewrite <- Hpre. symmetry. apply firstn_skipn. }
  assert (Enew : newchain = pre ++ skipn c newchain) by (symmetry; apply firstn_skipn).
  destruct (layout_blocks P 0 pre) as [la e1] eqn:Ela. cbn [snd] in Hm0.
  rewrite Eold, layout_blocks_app, Ela in Hlay.
  destruct (layout_blocks P e1 (skipn c (is_chain st))) as [lbo eo] eqn:Elbo. injection Hlay as <- <-.
  destruct (layout_blocks P e1 (skipn c newchain)) as [lbn en] eqn:Elbn.
  assert (Hlayn : layout_blocks P 0 newchain = (la ++ lbn, en)).
  { rewrite Enew, layout_blocks_app, Ela, Elbn. reflexivity. }
  unfold LogIndex.render_head in H. rewrite Hlayn in H.
  match type of H with match ?o with _ => _ end = _ => destruct o as [newmaps|] eqn:Enm end; [|discriminate].
  injection H as <-. unfold inv. cbn [is_chain is_ix is_rg].
  destruct (layout_blocks_spec P _ _ _ _ Ela) as (Hbsa & Hrela & _).
  destruct (layout_blocks_spec P _ _ _ _ Elbo) as (Hbso & _ & _).
  destruct (layout_blocks_spec P _ _ _ _ Elbn) as (Hbsn & _ & _).
  destruct (layout_blocks_spec P _ _ _ _ Hlayn) as (Hbsnew & Hrelnew & _).
  assert (Hlena : length la = c).
  { rewrite (Forall2_length' _ _ _ Hrela). unfold pre. apply firstn_length_le. exact Hc3. }
  pose proof (Forall2_length' _ _ _ Hrelnew) as Hlennew.
  pose proof (vpm_pos P) as Hv.
  split; [intros E; rewrite E in Hc3; simpl in Hc3; lia|]. split; [exact Hfitn|].
  exists (la ++ lbn), en. split; [exact Hlayn|]. split.
  - (* index_ok *)
    split; [reflexivity|]. split; [reflexivity|]. cbn [r_mfirst r_mafter].
    intros m Hm1 Hm2. set (i := N.to_nat m).
    destruct (le_lt_dec m0 i) as [Hge|Hlt].
    + assert (Hi : (i - m0 < N.to_nat ((en - 2) / vpm + 1) - m0)%nat) by lia.
      destruct (opt_all_nth _ _ _ _ _ Enm (N_seq_nth _ (N.of_nat m0) _ Hi)) as (rw & Hrw & Hren).
      replace (N.of_nat m0 + N.of_nat (i - m0)) with m in Hren by lia.
      exists rw. split; [exact Hren|]. unfold ix_rows. cbn [ix_maps]. fold i.
      rewrite nth_error_app2; rewrite firstn_length_le by exact Hm0l; [|exact Hge].
      rewrite Hrw. reflexivity.
    + destruct (Hrows m Hm1 ltac:(lia)) as (rw & Hren & Hrw). exists rw. split.
      * rewrite <- Hren. unfold LogIndex.render_map.
        rewrite (map_values_prefix la lbn e1 en m0 m Hbsn Hm0 ltac:(lia)).
        rewrite (map_values_prefix la lbo e1 eo m0 m Hbso Hm0 ltac:(lia)). reflexivity.
      * rewrite <- Hrw. unfold ix_rows. cbn [ix_maps]. fold i.
        rewrite nth_error_app1 by (rewrite firstn_length_le by exact Hm0l; exact Hlt).
        rewrite nth_error_firstn_lt by exact Hlt. reflexivity.
  - (* rg_ok *)
    unfold LogIndexExact.rg_ok. cbn [r_bfirst r_bafter r_head_indexed r_mfirst r_mafter ix_ptrs].
    rewrite map_length, Hlennew. split; [lia|]. split; [intros _; reflexivity|]. split.
    + intros p l Hin. destruct (bspaced_placed_strict _ _ _ Hbsnew _ _ Hin) as [_ Hp].
      pose proof (log_len_pos l). pose proof (N.div_le_mono p (en - 2) vpm ltac:(lia) ltac:(lia)). lia.
    + intros _. destruct (Hbfx Hrne) as (bf & pf & Hbf & Hpf & Hmfp).
      exists bf, pf. split; [exact Hbf|]. split; [|exact Hmfp].
      rewrite Hptrs in Hpf. rewrite map_app in Hpf |- *.
      rewrite nth_error_app1 in Hpf |- * by (rewrite map_length; lia). exact Hpf.
Qed.

(* The restart map chosen as in lastCanonicalMapBoundaryBefore meets the guard: if the last
   block B of map m0-1 (as stored: lastBlockOfMap) belongs to the first c blocks (it is
   canonical in the target view and below its head) and m0-1 is not the last rendered map,
   then all log values below m0*valuesPerMap come from the shared prefix. *)
Lemma restart_map_guard chain lay e' ix m0 B c :
  layout_blocks P 0 chain = (lay, e') -> chain <> [] -> ix_ptrs ix = map fst lay ->
  0 < m0 -> last_block_of_map P ix (m0 - 1) = N.of_nat B -> (B < c)%nat -> (c <= length chain)%nat ->
  m0 * vpm + 2 <= e' ->
  m0 * vpm <= snd (layout_blocks P 0 (firstn c chain)).
Proof.
  intros Hlay Hne Hptrs Hm0 HB HBc Hc Hlast.
  destruct (last_block_of_map_own P chain lay e' Hlay Hne ix Hptrs (m0 - 1)) as (k & Ek & q & Hq & Hle & Hnext).
  rewrite HB in Ek. assert (k = B) by lia. subst k. replace (m0 - 1 + 1) with m0 in * by lia.
  destruct (layout_blocks P 0 (firstn c chain)) as [la e1] eqn:Ela. cbn [snd].
  pose proof Hlay as Hlay2. rewrite <- (firstn_skipn c chain), layout_blocks_app, Ela in Hlay2.
  destruct (layout_blocks P e1 (skipn c chain)) as [lb e2] eqn:Elb. injection Hlay2 as <- <-.
  destruct (layout_blocks_spec P _ _ _ _ Ela) as (Hbsa & Hrela & _).
  destruct (layout_blocks_spec P _ _ _ _ Elb) as (Hbsb & _ & _).
  destruct (layout_blocks_spec P _ _ _ _ Hlay) as (Hbs & _ & _).
  assert (Hlena : length la = c).
  { rewrite (Forall2_length' _ _ _ Hrela). apply firstn_length_le. exact Hc. }
  destruct (bspaced_ptrs _ _ _ Hbs) as [Hsorted _].
  destruct lb as [|[q2 ps2] lb'].
  - pose proof (bspaced_next_ptr _ _ _ Hbsb) as E. simpl in E. lia.
  - pose proof (bspaced_next_ptr _ _ _ Hbsb) as E. simpl in E. subst q2.
    assert (Hc' : nth_error (ix_ptrs ix) c = Some e1).
    { rewrite Hptrs, map_app, nth_error_app2; rewrite map_length, Hlena; [|lia].
      rewrite Nat.sub_diag. reflexivity. }
    destruct (nth_error (ix_ptrs ix) (S B)) as [q'|] eqn:Eq'.
    + specialize (Hnext _ eq_refl). rewrite Hptrs in Eq', Hc'.
      pose proof (ssorted_nth_le _ (S B) c q' e1 Hsorted Eq' Hc' ltac:(lia)). lia.
    + apply nth_error_None in Eq'. assert (c < length (ix_ptrs ix))%nat by (apply nth_error_Some; congruence). lia.
Qed.

(* ---- tail epoch indexing ---- *)
Lemma inv_index_tail fuel0 st st' :
  inv fuel0 st ->
  N.shiftl 1 (p_lmpe P) <= r_mfirst (is_rg st) ->
  (N.to_nat (r_mfirst (is_rg st)) <= length (ix_maps (is_ix st)))%nat ->
  index_tail_epoch fuel0 st = Some st' -> inv fuel0 st'.
Proof.
  intros (Hne & Hfit & lay & e' & Hlay & (Hptrs & Hend & Hrows) & (Hba & Hhead & Hma & Hbfx)) Hmpe Hlenm H.
  unfold LogIndex.index_tail_epoch in H. rewrite Hlay in H.
  match type of H with match ?o with _ => _ end = _ => destruct o as [newmaps|] eqn:Enm end; [|discriminate].
  injection H as <-. unfold inv. cbn [is_chain is_ix is_rg].
  split; [exact Hne|]. split; [exact Hfit|]. exists lay, e'. split; [exact Hlay|].
  pose proof shiftl1_pos as Hsh.
  set (mpe := N.shiftl 1 (p_lmpe P)) in *. set (mf := r_mfirst (is_rg st) - mpe) in *.
  assert (Hlnm : length newmaps = N.to_nat mpe).
  { rewrite (opt_all_length _ _ Enm), map_length, N_seq_length. reflexivity. }
  split.
  - split; [exact Hptrs|]. split; [exact Hend|]. cbn [r_mfirst r_mafter].
    intros m Hm1 Hm2. change (mf <= m) in Hm1.
    set (i := N.to_nat m). unfold ix_rows. cbn [ix_maps]. fold i.
    change (r_mfirst (is_rg st) - N.pos (Pos.shiftl 1 (p_lmpe P))) with mf.
    assert (Ei : i = N.to_nat m) by reflexivity.
    assert (Emf : mf = r_mfirst (is_rg st) - mpe) by reflexivity.
    assert (Hlf : length (firstn (N.to_nat mf) (ix_maps (is_ix st))) = N.to_nat mf)
      by (apply firstn_length_le; lia).
    destruct (N.ltb_spec m (r_mfirst (is_rg st))) as [Hlt|Hge].
    + assert (Hi : (i - N.to_nat mf < N.to_nat mpe)%nat) by lia.
      destruct (opt_all_nth _ _ _ _ _ Enm (N_seq_nth _ mf _ Hi)) as (rw & Hrw & Hren).
      replace (mf + N.of_nat (i - N.to_nat mf)) with m in Hren by lia.
      exists rw. split; [exact Hren|].
      rewrite nth_error_app2 by lia. rewrite Hlf, nth_error_app1 by lia. rewrite Hrw. reflexivity.
    + destruct (Hrows m Hge Hm2) as (rw & Hren & Hrw). exists rw. split; [exact Hren|].
      rewrite <- Hrw. unfold ix_rows. fold i.
      rewrite nth_error_app2 by lia. rewrite Hlf, nth_error_app2 by lia.
      rewrite Hlnm, nth_error_skipn'.
      replace (N.to_nat (r_mfirst (is_rg st)) + (i - N.to_nat mf - N.to_nat mpe))%nat with i by lia.
      reflexivity.
  - unfold LogIndexExact.rg_ok. cbn [r_bfirst r_bafter r_head_indexed r_mfirst r_mafter ix_ptrs].
    split; [exact Hba|]. split; [exact Hhead|]. split; [exact Hma|].
    change (r_mfirst (is_rg st) - N.pos (Pos.shiftl 1 (p_lmpe P))) with mf.
    destruct (0 <? mf) eqn:Emf; intros Hlt.
    + destruct (tail_block_ok _ lay e' (is_ix st) mf _ Hlay Hne Hptrs Hba Hlt ltac:(lia)) as (bf & pf & E1 & E2 & E3).
      exists bf, pf. auto.
    + destruct (ptrs_head P _ lay e' Hlay Hne (is_ix st) Hptrs) as [rest Er].
      exists 0%nat, 0. split; [reflexivity|]. split; [rewrite Er; reflexivity|]. lia.
Qed.

(* ---- histories ---- *)
Inductive istep (fuel0 : nat) : istate -> istate -> Prop :=
| step_unindex st e :
    r_mfirst (is_rg st) = first_epoch_map P e -> first_epoch_map P (e + 1) < r_mafter (is_rg st) ->
    istep fuel0 st (unindex_tail_epoch st e)
| step_head st newchain m0 c st' :
    head_guard st newchain m0 c -> render_head fuel0 st newchain m0 = Some st' -> istep fuel0 st st'
| step_index_tail st st' :
    N.shiftl 1 (p_lmpe P) <= r_mfirst (is_rg st) ->
    (N.to_nat (r_mfirst (is_rg st)) <= length (ix_maps (is_ix st)))%nat ->
    index_tail_epoch fuel0 st = Some st' -> istep fuel0 st st'.

Inductive isteps (fuel0 : nat) : istate -> istate -> Prop :=
| steps_refl st : isteps fuel0 st st
| steps_step st st1 st2 : istep fuel0 st st1 -> isteps fuel0 st1 st2 -> isteps fuel0 st st2.

Lemma inv_step fuel0 st st' : inv fuel0 st -> istep fuel0 st st' -> inv fuel0 st'.
Proof.
  intros Hi Hs. destruct Hs.
  - apply inv_unindex; assumption.
  - eapply inv_head; eassumption.
  - eapply inv_index_tail; eassumption.
Qed.

Lemma inv_steps fuel0 st st' : inv fuel0 st -> isteps fuel0 st st' -> inv fuel0 st'.
Proof. intros Hi Hs. induction Hs; [exact Hi|]. apply IHHs. eapply inv_step; eassumption. Qed.

(* the initial state: the index built from the chain with the idle range *)
Lemma inv_init fuel0 chain ix head history cutoff :
  build_index P addr_value topic_value row_hash col_index fuel0 chain = Some ix ->
  (forall b l, In b chain -> In l b -> log_len l <= vpm) ->
  N.of_nat (length chain) = head + 1 ->
  (forall lv v, N.shiftr (col_index lv v) (p_hbits P) = lv mod vpm) -> p_brl P < two32 ->
  inv fuel0 (mkIState chain ix (idle_range P ix head history cutoff)).
Proof.
  intros Hb Hfit Hhead Hch Hbrl. unfold inv. cbn [is_chain is_ix is_rg].
  split; [intros ->; simpl in Hhead; lia|]. split; [exact Hfit|].
  destruct (layout_blocks P 0 chain) as [lay e'] eqn:Hlay. exists lay, e'. split; [reflexivity|].
  destruct (idle_range_ok P addr_value topic_value row_hash col_index Hch Hbrl
              fuel0 chain lay e' ix head history cutoff Hlay Hb Hhead) as [H1 H2].
  split; assumption.
Qed.

Hypothesis col_high : forall lv v, N.shiftr (col_index lv v) (p_hbits P) = lv mod vpm.
Hypothesis brl_small : p_brl P < two32.

(* query_exact at every state reachable by indexer operations *)
Theorem history_exact fuel0 fuel st0 st head addrs topics first last ms :
  inv fuel0 st0 -> isteps fuel0 st0 st ->
  range_logs P addr_value topic_value row_hash col_index fuel (is_chain st) (is_ix st) (is_rg st)
             head addrs topics first last = QOk ms ->
  scan (is_chain st) addrs topics (match first with Some f => f | None => head end)
                                  (match last with Some l => l | None => head end) = Some ms.
Proof.
  intros Hi Hs H. destruct (inv_steps _ _ _ Hi Hs) as (_ & Hfit & lay & e' & Hlay & Hix & Hrg).
  exact (query_exact P addr_value topic_value row_hash col_index col_high brl_small
           fuel0 fuel _ lay e' _ _ head addrs topics first last ms Hlay Hix Hfit Hrg H).
Qed.

End History.

(* ---- a concrete history (non-vacuity example of Properties/C40.v) ---- *)
Definition demo_ix : index :=
  match build_index demoP idv idv demo_row demo_col 16 demo_chain with
  | Some ix => ix | None => mkIndex [] [] 0 end.
Definition demo_st0 : istate := mkIState demo_chain demo_ix (idle_range demoP demo_ix 6 3 0).
(* a reorg: blocks 5 and 6 are replaced by four new blocks *)
Definition demo_new : list (list log) :=
  firstn 5 demo_chain ++
  [ [demo_log 5 0 0 7 [6; 7]]; [demo_log 6 0 0 5 [6; 6; 6]; demo_log 6 1 1 5 [6]];
    [demo_log 7 0 0 5 [6]; demo_log 7 1 1 5 [7; 6]]; [demo_log 8 0 0 5 [6; 6; 6; 6]] ].

Lemma fits_of_bool P chain :
  forallb (forallb (fun l => log_len l <=? vpm P)) chain = true ->
  forall b l, In b chain -> In l b -> log_len l <= vpm P.
Proof.
  intros H b l Hb Hl. rewrite forallb_forall in H. specialize (H b Hb).
  rewrite forallb_forall in H. specialize (H l Hl). lia.
Qed.

Lemma demo_head_guard : head_guard demoP demo_st0 demo_new 2 5.
Proof.
  unfold head_guard.
  split; [lia|]. split; [vm_compute; lia|]. split; [vm_compute; lia|].
  split; [reflexivity|].
  split; [apply N.leb_le; vm_compute; reflexivity|].
  split; [apply N.ltb_lt; vm_compute; reflexivity|].
  split; [apply N.ltb_lt; vm_compute; reflexivity|].
  split; [apply N.leb_le; vm_compute; reflexivity|].
  split; [apply N.leb_le; vm_compute; reflexivity|].
  split; [vm_compute; lia|].
  apply fits_of_bool. vm_compute. reflexivity.
Qed.

Definition demo_keys (ms : list log) : list N := map (fun l => 16 * lg_blk l + lg_idx l) ms.
Definition demo_query_ok (st : istate) (head : N) : bool :=
  match range_logs demoP idv idv demo_row demo_col 16 (is_chain st) (is_ix st) (is_rg st) head
                   [5] [[6]] (Some 0) None,
        scan (is_chain st) [5] [[6]] 0 head with
  | QOk ms, Some s => (length ms =? 8)%nat && leqb (demo_keys ms) (demo_keys s)
  | _, _ => false
  end.

(* reorg at the head, then unindexing of tail epoch 1, then re-indexing of that epoch: the
   ranges move as expected and the query across the whole chain returns the scan each time *)
Definition c40_demo_history : bool :=
  match render_head demoP idv idv demo_row demo_col 16 demo_st0 demo_new 2 with
  | None => false
  | Some st1 =>
      (r_bfirst (is_rg st1) =? 4) && (r_mafter (is_rg st1) =? 6) && demo_query_ok st1 8 &&
      let st2 := unindex_tail_epoch demoP st1 1 in
      (r_bfirst (is_rg st2) =? 8) && (r_mfirst (is_rg st2) =? 4) && demo_query_ok st2 8 &&
      match index_tail_epoch demoP idv idv demo_row demo_col 16 st2 with
      | None => false
      | Some st3 => (r_bfirst (is_rg st3) =? 4) && (r_mfirst (is_rg st3) =? 2) && demo_query_ok st3 8
      end
  end.
