(* Storage/HashDB.v — executable model of /repo/triedb/hashdb/database.go
   (hash-scheme trie node database: reference-counted dirty cache in front of
   a disk store).  Transcribed from the Go code; proofs are in HashDBProofs.v.

   Abstraction: a node is its hash, an [N] (0 = common.Hash{} = the null
   pointer of the flush list and the meta-root).  The blob is represented by
   what the database uses of it: [kids h] = the hash children found by
   trie.ForGatherChildren (in order, with multiplicity) and [nsize h] =
   len(blob).  Both are functions of the hash (collision freedom).  External
   children are a list without duplicates standing for the Go map-as-set
   (iteration order of a Go map is unspecified; the observables sort it).
   Sizes are common.StorageSize = float64 in Go, exact on integers < 2^53: [Z].
   parents is uint32 in Go; modelled unbounded (guard: < 2^32 references).
   Nil-pointer dereferences of the Go code are the explicit result [Panic];
   recursion is by fuel with explicit [OutOfFuel]. *)
From Coq Require Import List NArith ZArith Bool FMapPositive.
Import ListNotations.
Open Scope N_scope.

Inductive res (A : Type) : Type := Ok (a : A) | Panic | OutOfFuel.
Arguments Ok {A} a. Arguments Panic {A}. Arguments OutOfFuel {A}.

Definition bind {A B} (r : res A) (f : A -> res B) : res B :=
  match r with Ok a => f a | Panic => Panic | OutOfFuel => OutOfFuel end.

Fixpoint fold_res {A B} (f : A -> B -> res A) (l : list B) (a : A) : res A :=
  match l with
  | [] => Ok a
  | x :: r => match f a x with Ok a' => fold_res f r a' | Panic => Panic | OutOfFuel => OutOfFuel end
  end.

(* cachedNode (database.go:103) without the blob *)
Record entry : Type := mkEntry {
  e_parents : N;        (* parents   *)
  e_ext : list N;       (* external  (set) *)
  e_prev : N;           (* flushPrev *)
  e_next : N            (* flushNext *)
}.

Definition nmap (A : Type) := PositiveMap.t A.
Definition key (h : N) : positive := N.succ_pos h.
Definition mget {A} (h : N) (m : nmap A) : option A := PositiveMap.find (key h) m.
Definition mset {A} (h : N) (a : A) (m : nmap A) : nmap A := PositiveMap.add (key h) a m.
Definition mdel {A} (h : N) (m : nmap A) : nmap A := PositiveMap.remove (key h) m.
Definition mcard {A} (m : nmap A) : nat := PositiveMap.cardinal m.
Definition mempty {A} : nmap A := PositiveMap.empty A.

(* Database (database.go:80): dirties, oldest, newest, dirtiesSize, childrenSize; diskdb as a set *)
Record db : Type := mkDb {
  dirties : nmap entry;
  oldest : N;
  newest : N;
  dsize : Z;
  csize : Z;
  disk : nmap unit
}.

Definition empty_db : db := mkDb mempty 0 0 0%Z 0%Z mempty.

Definition with_dirties (st : db) (d : nmap entry) : db :=
  mkDb d (oldest st) (newest st) (dsize st) (csize st) (disk st).
Definition with_oldest (st : db) (o : N) : db :=
  mkDb (dirties st) o (newest st) (dsize st) (csize st) (disk st).
Definition with_newest (st : db) (n : N) : db :=
  mkDb (dirties st) (oldest st) n (dsize st) (csize st) (disk st).
Definition with_sizes (st : db) (ds cs : Z) : db :=
  mkDb (dirties st) (oldest st) (newest st) ds cs (disk st).
Definition with_disk (st : db) (k : nmap unit) : db :=
  mkDb (dirties st) (oldest st) (newest st) (dsize st) (csize st) k.

Definition set_parents (e : entry) (p : N) := mkEntry p (e_ext e) (e_prev e) (e_next e).
Definition set_ext (e : entry) (x : list N) := mkEntry (e_parents e) x (e_prev e) (e_next e).
Definition set_prev (e : entry) (p : N) := mkEntry (e_parents e) (e_ext e) p (e_next e).
Definition set_next (e : entry) (n : N) := mkEntry (e_parents e) (e_ext e) (e_prev e) n.

Definition getd (st : db) (h : N) : option entry := mget h (dirties st).
Definition setd (st : db) (h : N) (e : entry) : db := with_dirties st (mset h e (dirties st)).
Definition deld (st : db) (h : N) : db := with_dirties st (mdel h (dirties st)).

(* db.dirties[h].field = v : nil dereference if h is not cached *)
Definition upd (st : db) (h : N) (f : entry -> entry) : res db :=
  match getd st h with
  | Some e => Ok (setd st h (f e))
  | None => Panic
  end.

Definition hashLen : Z := 32.
Definition zlen (l : list N) : Z := Z.of_nat (length l).

Section World.
  Variable kids : N -> list N.     (* trie.ForGatherChildren(blob) *)
  Variable nsize : N -> N.         (* len(blob) *)
  Variable cns : Z.                (* cachedNodeSize *)
  Variable ideal : Z.              (* ethdb.IdealBatchSize *)

  Definition node_cost (h : N) : Z := hashLen + Z.of_N (nsize h).

  (* insert, the forChildren callback: if c := db.dirties[child]; c != nil { c.parents++ } *)
  Definition bump_child (d : nmap entry) (c : N) : nmap entry :=
    match mget c d with
    | Some e => mset c (set_parents e (e_parents e + 1)) d
    | None => d
    end.

  (* insert (database.go:145) *)
  Definition insert (st : db) (h : N) : res db :=
    match getd st h with
    | Some _ => Ok st
    | None =>
        let d1 := fold_left bump_child (kids h) (dirties st) in
        let e := mkEntry 0 [] (newest st) 0 in
        let st1 := with_dirties st (mset h e d1) in
        let r := if oldest st1 =? 0 then Ok (with_newest (with_oldest st1 h) h)
                 else bind (upd st1 (newest st1) (fun ne => set_next ne h))
                        (fun st2 => Ok (with_newest st2 h)) in
        bind r (fun st3 => Ok (with_sizes st3 (dsize st3 + node_cost h) (csize st3)))
    end.

  (* node (database.go:175), clean cache disabled: found in dirties or on disk *)
  Definition readable (st : db) (h : N) : bool :=
    negb (h =? 0) &&
    (match getd st h with Some _ => true | None => false end ||
     match mget h (disk st) with Some _ => true | None => false end).

  Definition inb (x : N) (l : list N) : bool := existsb (N.eqb x) l.

  (* reference (database.go:228) *)
  Definition reference (st : db) (child parent : N) : res db :=
    match getd st child with
    | None => Ok st
    | Some node =>
        if parent =? 0 then Ok (setd st child (set_parents node (e_parents node + 1)))
        else
          match getd st parent with
          | None => Panic
          | Some p =>
              if inb child (e_ext p) then Ok st
              else
                let st1 := setd st child (set_parents node (e_parents node + 1)) in
                bind (upd st1 parent (fun p' => set_ext p' (e_ext p' ++ [child])))
                  (fun st2 => Ok (with_sizes st2 (dsize st2) (csize st2 + hashLen)))
          end
    end.

  (* the flush-list removal switch shared by dereference (database.go:294) and cleaner.Put (:502) *)
  Definition unlink (st : db) (h : N) (node : entry) : res db :=
    if h =? oldest st then
      let st1 := with_oldest st (e_next node) in
      if e_next node =? 0 then Ok st1 else upd st1 (e_next node) (fun e => set_prev e 0)
    else if h =? newest st then
      let st1 := with_newest st (e_prev node) in
      if e_prev node =? 0 then Ok st1 else upd st1 (e_prev node) (fun e => set_next e 0)
    else
      bind (upd st (e_prev node) (fun e => set_next e (e_next node)))
        (fun st1 => upd st1 (e_next node) (fun e => set_prev e (e_prev node))).

  (* delete(db.dirties, hash); dirtiesSize -= ...; childrenSize -= len(external)*HashLength *)
  Definition drop_node (st : db) (h : N) (node : entry) : db :=
    let st1 := deld st h in
    with_sizes st1 (dsize st1 - node_cost h) (csize st1 - zlen (e_ext node) * hashLen).

  (* dereference (database.go:278) *)
  Fixpoint dereference (fuel : nat) (st : db) (h : N) : res db :=
    match fuel with
    | O => OutOfFuel
    | S f =>
        match getd st h with
        | None => Ok st
        | Some node =>
            let p := if 0 <? e_parents node then e_parents node - 1 else 0 in
            let st1 := setd st h (set_parents node p) in
            if p =? 0 then
              bind (unlink st1 h node) (fun st2 =>
              bind (fold_res (dereference f) (e_ext node ++ kids h) st2) (fun st3 =>
              Ok (drop_node st3 h node)))
            else Ok st1
        end
    end.

  Definition fuel_of (st : db) : nat := S (mcard (dirties st)).

  (* Dereference (database.go:253) *)
  Definition Dereference (st : db) (root : N) : res db :=
    if root =? 0 then Ok st else dereference (fuel_of st) st root.

  (* Reference (database.go:220) *)
  Definition Reference (st : db) (child parent : N) : res db := reference st child parent.

  (* Cap, first loop (database.go:342): walk the flush list collecting the batch *)
  Fixpoint cap_scan (fuel : nat) (st : db) (size limit : Z) (o : N) (batch : list N)
    : res (N * list N) :=
    if (limit <? size)%Z && negb (o =? 0) then
      match fuel with
      | O => OutOfFuel
      | S f =>
          match getd st o with
          | None => Panic
          | Some node =>
              cap_scan f st (size - (node_cost o + cns) - zlen (e_ext node) * hashLen)%Z
                       limit (e_next node) (o :: batch)
          end
      end
    else Ok (o, batch).

  (* Cap, second loop (database.go:370): uncache everything before [stop] *)
  Fixpoint cap_drop (fuel : nat) (st : db) (stop : N) : res db :=
    if oldest st =? stop then Ok st
    else
      match fuel with
      | O => OutOfFuel
      | S f =>
          match getd st (oldest st) with
          | None => Panic
          | Some node =>
              cap_drop f (with_oldest (drop_node st (oldest st) node) (e_next node)) stop
          end
      end.

  Definition disk_add (k : nmap unit) (l : list N) : nmap unit :=
    fold_left (fun k h => mset h tt k) l k.

  (* Cap (database.go:323); batch writes to the disk store do not fail *)
  Definition Cap (st : db) (limit : Z) : res db :=
    let size := (dsize st + Z.of_nat (mcard (dirties st)) * cns + csize st)%Z in
    bind (cap_scan (fuel_of st) st size limit (oldest st) []) (fun '(stop, batch) =>
    let st1 := with_disk st (disk_add (disk st) batch) in
    bind (cap_drop (fuel_of st) st1 stop) (fun st2 =>
    if oldest st2 =? 0 then Ok st2 else upd st2 (oldest st2) (fun e => set_prev e 0))).

  (* cleaner.Put (database.go:493) *)
  Definition uncache (st : db) (h : N) : res db :=
    match getd st h with
    | None => Ok st
    | Some node => bind (unlink st h node) (fun st1 => Ok (drop_node st1 h node))
    end.

  (* commit state: database, pending batch (newest first), batch.ValueSize() *)
  Record cstate : Type := mkC { c_db : db; c_batch : list N; c_bsize : Z }.

  (* batch.Write(); batch.Replay(uncacher); batch.Reset() *)
  Definition flush_batch (cs : cstate) : res cstate :=
    let st1 := with_disk (c_db cs) (disk_add (disk (c_db cs)) (c_batch cs)) in
    bind (fold_res uncache (rev (c_batch cs)) st1) (fun st2 => Ok (mkC st2 [] 0%Z)).

  (* commit (database.go:450) *)
  Fixpoint commit (fuel : nat) (cs : cstate) (h : N) : res cstate :=
    match fuel with
    | O => OutOfFuel
    | S f =>
        match getd (c_db cs) h with
        | None => Ok cs
        | Some node =>
            bind (fold_res (commit f) (e_ext node ++ kids h) cs) (fun cs1 =>
            let cs2 := mkC (c_db cs1) (h :: c_batch cs1) (c_bsize cs1 + node_cost h)%Z in
            if (ideal <=? c_bsize cs2)%Z then flush_batch cs2 else Ok cs2)
        end
    end.

  (* Commit (database.go:400) *)
  Definition Commit (st : db) (root : N) : res db :=
    bind (commit (fuel_of st) (mkC st [] 0%Z) root) (fun cs =>
    bind (flush_batch cs) (fun cs' => Ok (c_db cs'))).

  (* Update (database.go:537): [nodes] is the insertion order produced by the owner loop
     and ForEachWithOrder; [refs] the (account.Root, leaf.Parent) pairs with a non-empty root *)
  Definition Update (st : db) (nodes : list N) (refs : list (N * N)) : res db :=
    bind (fold_res insert nodes st) (fun st1 =>
    fold_res (fun s cp => reference s (fst cp) (snd cp)) refs st1).

  (* Size (database.go:593), second component *)
  Definition Size (st : db) : Z :=
    (dsize st + csize st + Z.of_nat (mcard (dirties st)) * cns)%Z.

  (* the public operations *)
  Inductive op : Type :=
  | OUpdate (nodes : list N) (refs : list (N * N))
  | OReference (child parent : N)
  | ODereference (root : N)
  | OCap (limit : Z)
  | OCommit (root : N).

  Definition step (st : db) (o : op) : res db :=
    match o with
    | OUpdate nodes refs => Update st nodes refs
    | OReference c p => Reference st c p
    | ODereference r => Dereference st r
    | OCap l => Cap st l
    | OCommit r => Commit st r
    end.

  Definition run (ops : list op) (st : db) : res db := fold_res step ops st.
End World.
