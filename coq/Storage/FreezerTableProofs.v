(* Storage/FreezerTableProofs.v — lemmas about the freezer-table model
   (Storage/FreezerTable.v): checkIndex on zero-filled tails, and the index part
   of crash recovery (repairIndex brings every crashed index back to exactly the
   bytes below the flush offset). *)
From GV Require Import Lib.Tactics Storage.FreezerTable.
Local Open Scope N_scope.

(* ---------- lists ---------- *)
Lemma last_cons {A} (l : list A) : forall x d, last (x :: l) d = last l x.
Proof.
  induction l as [|a l IH]; intros x d; [reflexivity|].
  change (last (x :: a :: l) d) with (last (a :: l) d).
  rewrite (IH a d), (IH a x). reflexivity.
Qed.

Lemma firstn_app_le {A} (n : nat) (a b : list A) :
  (length a <= n)%nat -> firstn n (a ++ b) = a ++ firstn (n - length a) b.
Proof.
  intros H. rewrite firstn_app. rewrite firstn_all2 by exact H. reflexivity.
Qed.

(* ---------- checkIndex on a zero-filled tail ---------- *)
Definition zero_entry : entry := mkE 0 0.

Lemma check_items_zero a :
  check_items a zero_entry = (efile a =? 0) && (eoff a =? 0).
Proof.
  unfold check_items, zero_entry. cbn [efile eoff].
  destruct (N.eqb_spec 0 (efile a)); destruct (N.eqb_spec 0 (efile a + 1));
  destruct (N.eqb_spec (efile a) 0); destruct (N.eqb_spec (eoff a) 0);
  destruct (N.ltb_spec 0 (eoff a)); destruct (N.eqb_spec 0 0); cbn; try reflexivity; try lia.
Qed.

Lemma check_tail_zeros_pass k : forall off,
  check_tail zero_entry (repeat zero_entry k) off = None.
Proof.
  induction k as [|k IH]; intros off; [reflexivity|].
  cbn [repeat check_tail]. rewrite check_items_zero. cbn. apply IH.
Qed.

Lemma check_tail_zeros prev k off :
  (0 < k)%nat ->
  check_tail prev (repeat zero_entry k) off =
  if check_items prev zero_entry then None else Some off.
Proof.
  destruct k as [|k]; [lia|]. intros _. cbn [repeat check_tail].
  destruct (check_items prev zero_entry); [apply check_tail_zeros_pass | reflexivity].
Qed.

Lemma check_tail_app a : forall prev b off,
  check_tail prev (a ++ b) off =
  match check_tail prev a off with
  | Some r => Some r
  | None => check_tail (last a prev) b (off + 6 * N.of_nat (length a))
  end.
Proof.
  induction a as [|e a IH]; intros prev b off.
  - cbn. f_equal. lia.
  - cbn [app check_tail]. destruct (check_items prev e); [|reflexivity].
    rewrite IH. rewrite last_cons. destruct (check_tail e a (off + 6)); [reflexivity|].
    f_equal. cbn [length]. lia.
Qed.

(* a truncation point reported by check_tail lies at an entry boundary inside the list *)
Lemma check_tail_bounds es : forall prev off r,
  check_tail prev es off = Some r ->
  exists k, (k < length es)%nat /\ r = off + 6 * N.of_nat k.
Proof.
  induction es as [|e es IH]; intros prev off r H; [discriminate|].
  cbn [check_tail] in H. destruct (check_items prev e).
  - apply IH in H. destruct H as [k [Hk Hr]]. exists (S k). cbn [length]. split; [lia|]. lia.
  - inversion H; subst. exists O. cbn [length]. split; [lia|]. lia.
Qed.

(* the entry that a zero-filled tail cannot be told apart from *)
Definition zero_like (es : list entry) : bool :=
  match es with
  | [] => true
  | [h] => efile h =? 0
  | _ => (efile (last es zero_entry) =? 0) && (eoff (last es zero_entry) =? 0)
  end.

(* checkIndex detects a zero-filled tail at exactly the first zero entry, except
   when the last genuine entry is itself (file 0, offset 0) — or the table is empty
   and its tail file is file 0 — in which case the zero entries are accepted as
   empty items: the documented undetectable case, stated exactly. *)
Lemma zero_tail_detected es k :
  es <> [] -> check_index es = None -> (0 < k)%nat ->
  check_index (es ++ repeat zero_entry k) =
  if zero_like es then None else Some (6 * N.of_nat (length es)).
Proof.
  intros Hne Hok Hk. destruct es as [|h [|e1 r]]; [congruence| |].
  - (* only the tail marker *)
    destruct k as [|k]; [lia|]. cbn [app repeat check_index zero_like].
    cbn [efile zero_entry].
    destruct (N.eqb_spec 0 (efile h)) as [E|E]; destruct (N.eqb_spec 0 (efile h + 1)) as [E1|E1];
    destruct (N.eqb_spec (efile h) 0) as [E2|E2]; cbn; try lia.
    + apply check_tail_zeros_pass.
    + reflexivity.
  - cbn [app check_index] in *.
    destruct (negb (efile e1 =? efile h) && negb (efile e1 =? efile h + 1)); [discriminate|].
    rewrite check_tail_app, Hok.
    rewrite check_tail_zeros by exact Hk. rewrite check_items_zero.
    unfold zero_like. rewrite !last_cons.
    destruct ((efile (last r e1) =? 0) && (eoff (last r e1) =? 0)); [reflexivity|].
    f_equal. cbn [length]. lia.
Qed.

(* a valid prefix is never cut: if checkIndex truncates a list that starts with a valid
   list [a], it does so at or after the end of [a], at an entry boundary inside the list *)
Lemma check_index_prefix a b r :
  a <> [] -> check_index a = None -> check_index (a ++ b) = Some r ->
  exists k, (length a <= k < length (a ++ b))%nat /\ r = 6 * N.of_nat k.
Proof.
  intros Hne Hok H. destruct a as [|h [|e1 a]]; [congruence| |].
  - destruct b as [|e1 b]; [discriminate|]. cbn [app check_index] in H.
    destruct (negb (efile e1 =? efile h) && negb (efile e1 =? efile h + 1)).
    + inversion H; subst. exists 1%nat. cbn [length app]. split; [lia|reflexivity].
    + apply check_tail_bounds in H. destruct H as [k [Hk Hr]].
      exists (S (S k)). cbn [length app]. split; [lia|]. lia.
  - cbn [app check_index] in *.
    destruct (negb (efile e1 =? efile h) && negb (efile e1 =? efile h + 1)); [discriminate|].
    rewrite check_tail_app, Hok in H.
    apply check_tail_bounds in H. destruct H as [k [Hk Hr]].
    exists (S (S (length a + k))). cbn [length]. rewrite app_length. split; [lia|]. lia.
Qed.

(* ---------- entries and bytes ---------- *)
Lemma enc_entry_length e : length (enc_entry e) = 6%nat.
Proof. reflexivity. Qed.

Lemma concat_enc_length l : length (concat (map enc_entry l)) = (6 * length l)%nat.
Proof.
  induction l as [|e l IH]; [reflexivity|].
  cbn [map concat]. rewrite app_length, IH, enc_entry_length. cbn [length]. lia.
Qed.

Lemma entry_roundtrip e :
  entry_wf e = true ->
  mkE ((efile e mod 65536 / 256) * 256 + (efile e mod 65536) mod 256)
      ((eoff e mod 4294967296 / 16777216) * 16777216
       + ((eoff e mod 4294967296 / 65536) mod 256) * 65536
       + ((eoff e mod 4294967296 / 256) mod 256) * 256
       + (eoff e mod 4294967296) mod 256) = e.
Proof.
  unfold entry_wf, two32. intros H. destruct e as [f o]. cbn [efile eoff] in *.
  apply andb_prop in H. destruct H as [Hf Ho].
  apply N.ltb_lt in Hf. apply N.ltb_lt in Ho.
  rewrite (N.mod_small f) by exact Hf. rewrite (N.mod_small o) by exact Ho.
  f_equal; lia.
Qed.

Lemma entries_of_enc_app l : forall r,
  forallb entry_wf l = true ->
  entries_of (concat (map enc_entry l) ++ r) = l ++ entries_of r.
Proof.
  induction l as [|e l IH]; intros r H; [reflexivity|].
  cbn [forallb] in H. apply andb_prop in H. destruct H as [He Hl].
  cbn [map concat]. unfold enc_entry at 1. cbn [app entries_of].
  rewrite entry_roundtrip by exact He. rewrite <- IH by exact Hl. reflexivity.
Qed.

Lemma entries_of_length b : (6 * length (entries_of b) <= length b)%nat.
Proof.
  remember (length b) as n eqn:Hn. revert b Hn.
  induction n as [n IH] using lt_wf_ind. intros b Hn.
  destruct b as [|x1 [|x2 [|x3 [|x4 [|x5 [|x6 r]]]]]]; cbn [entries_of length]; try lia.
  cbn [length] in Hn. specialize (IH (length r) ltac:(lia) r eq_refl). lia.
Qed.

Lemma firstn_concat_enc n l :
  firstn (6 * n) (concat (map enc_entry l)) = concat (map enc_entry (firstn n l)).
Proof.
  revert l. induction n as [|n IH]; intros l; [reflexivity|].
  destruct l as [|e l]; [reflexivity|].
  cbn [map concat firstn]. replace (6 * S n)%nat with (6 + 6 * n)%nat by lia.
  unfold enc_entry at 1 3. cbn [app firstn plus]. rewrite IH. reflexivity.
Qed.

Lemma bytes_eqb_eq a : forall b, bytes_eqb a b = true -> a = b.
Proof.
  induction a as [|x a IH]; intros [|y b] H; cbn in H; try discriminate; [reflexivity|].
  apply andb_prop in H. destruct H as [Hx Hr]. apply N.eqb_eq in Hx. subst. f_equal. auto.
Qed.

Lemma check_index_firstn es n :
  check_index es = None -> check_index (firstn n es) = None.
Proof.
  intros H. destruct (check_index (firstn n es)) as [r|] eqn:E; [|reflexivity].
  exfalso.
  destruct (firstn n es) as [|h [|e1 a]] eqn:Ef; [discriminate|discriminate|].
  (* firstn n es = h :: e1 :: a and es = firstn n es ++ skipn n es *)
  rewrite <- (firstn_skipn n es) in H. rewrite Ef in H.
  cbn [app check_index] in *.
  destruct (negb (efile e1 =? efile h) && negb (efile e1 =? efile h + 1)); [discriminate|].
  rewrite check_tail_app, E in H. discriminate.
Qed.

(* ---------- repairIndex after a crash ---------- *)
(* Any table whose index file starts with the encoding of a valid, non-empty entry
   list [esF] covering exactly the flush offset, followed by ARBITRARY bytes (the
   unsynced remainder cut anywhere, zero fill, partial entries), is repaired by
   repairIndex to exactly the encoding of [esF]; nothing else changes. *)
Lemma repair_index_prefix u esF X :
  esF <> [] -> forallb entry_wf esF = true -> check_index esF = None ->
  fbytes (t_index u) = concat (map enc_entry esF) ++ X ->
  (length X mod 6 = 0)%nat ->
  mflush (t_mcur u) = 6 * N.of_nat (length esF) ->
  t_ver u = 2 ->
  fbytes (t_index (repair_index u)) = concat (map enc_entry esF)
  /\ t_mcur (repair_index u) = t_mcur u /\ t_msyn (repair_index u) = t_msyn u
  /\ t_data (repair_index u) = t_data u /\ t_open (repair_index u) = t_open u.
Proof.
  intros Hne Hwf Hok Hb HX Hflush Hver.
  unfold repair_index.
  rewrite Hb. rewrite entries_of_enc_app by exact Hwf.
  set (P := concat (map enc_entry esF)) in *.
  assert (HP : length P = (6 * length esF)%nat) by apply concat_enc_length.
  assert (Hlen : (0 < length esF)%nat) by (destruct esF; [congruence | cbn; lia]).
  (* the table after the checkIndex step: index bytes P ++ X' *)
  assert (Hstep : exists X',
    let t1 := match check_index (esF ++ entries_of X) with
              | Some off => w_index u (f_trunc (t_index u) off)
              | None => u end in
    fbytes (t_index t1) = P ++ X' /\ (length X' mod 6 = 0)%nat /\
    t_mcur t1 = t_mcur u /\ t_msyn t1 = t_msyn u /\ t_data t1 = t_data u /\
    t_open t1 = t_open u /\ t_ver t1 = t_ver u).
  { destruct (check_index (esF ++ entries_of X)) as [off|] eqn:E.
    - destruct (check_index_prefix _ _ _ Hne Hok E) as [k [[Hk1 Hk2] Hoff]].
      rewrite app_length in Hk2. pose proof (entries_of_length X) as HeX.
      exists (firstn (6 * k - length P) X). cbn [w_index t_index t_mcur t_msyn t_data t_open t_ver].
      unfold f_trunc. cbn [fbytes]. unfold flen. rewrite Hb, app_length.
      replace (N.to_nat off) with (6 * k)%nat by lia.
      replace (6 * k - (length P + length X))%nat with 0%nat by lia.
      cbn [repeat]. rewrite app_nil_r. rewrite firstn_app_le by lia.
      repeat split; try reflexivity.
      rewrite firstn_length. rewrite Nat.min_l by lia. rewrite HP.
      replace (6 * k - 6 * length esF)%nat with (6 * (k - length esF))%nat by lia.
      rewrite Nat.mul_comm. apply Nat.mod_mul. lia.
    - exists X. cbn. repeat split; try reflexivity; assumption. }
  destruct Hstep as [X' Hs]. cbv zeta in Hs.
  set (t1 := match check_index (esF ++ entries_of X) with
             | Some off => w_index u (f_trunc (t_index u) off)
             | None => u end) in *.
  destruct Hs as [Hb1 [HX1 [Hm1 [Hs1 [Hd1 [Ho1 Hv1]]]]]].
  cbv zeta. rewrite Hv1, Hver. cbn [N.eqb Pos.eqb].
  rewrite Hm1, Hflush.
  assert (Hsize : fsize (t_index t1) = 6 * N.of_nat (length esF) + N.of_nat (length X')).
  { unfold fsize, flen. rewrite Hb1, app_length, HP. lia. }
  rewrite Hsize.
  replace (6 * N.of_nat (length esF) =? 0) with false by (symmetry; apply N.eqb_neq; lia).
  rewrite andb_false_r.
  destruct (N.eqb_spec (6 * N.of_nat (length esF) + N.of_nat (length X')) (6 * N.of_nat (length esF))) as [E|E].
  - assert (X' = []) by (destruct X'; [reflexivity | cbn [length] in E; lia]). subst X'.
    rewrite app_nil_r in Hb1. repeat split; assumption.
  - destruct (N.ltb_spec (6 * N.of_nat (length esF)) (6 * N.of_nat (length esF) + N.of_nat (length X'))) as [L|L]; [|lia].
    cbn [w_index t_index t_mcur t_msyn t_data t_open]. unfold f_trunc. cbn [fbytes]. unfold flen.
    rewrite Hb1, app_length, HP.
    replace (N.to_nat (6 * N.of_nat (length esF))) with (length P) by lia.
    replace (length P - (6 * length esF + length X'))%nat with 0%nat by lia.
    cbn [repeat]. rewrite app_nil_r.
    rewrite firstn_app_le by lia. rewrite Nat.sub_diag. cbn [firstn]. rewrite app_nil_r.
    repeat split; assumption.
Qed.

(* newTable up to and including repairIndex, on an index file that starts with the
   encoding of [esF] (valid, covering exactly the flush offset of the metadata
   record found on disk) followed by arbitrary bytes [G] *)
Lemma open_repair_index_prefix idxf data m esF G :
  esF <> [] -> forallb entry_wf esF = true -> check_index esF = None ->
  fbytes idxf = concat (map enc_entry esF) ++ G ->
  mflush m = 6 * N.of_nat (length esF) -> mver m = 2 ->
  let u := open_repair_index idxf data (Some m) in
  fbytes (t_index u) = concat (map enc_entry esF)
  /\ t_mcur u = mkMeta 2 (mvtail m) (mflush m) /\ t_msyn u = mkMeta 2 (mvtail m) (mflush m)
  /\ t_data u = data /\ t_open u = [].
Proof.
  intros Hne Hwf Hok Hb Hflush Hver u. subst u. unfold open_repair_index.
  set (P := concat (map enc_entry esF)) in *.
  assert (HP : length P = (6 * length esF)%nat) by apply concat_enc_length.
  assert (Hlen : (0 < length esF)%nat) by (destruct esF; [congruence | cbn; lia]).
  assert (Hsz : fsize idxf = N.of_nat (length P + length G)).
  { unfold fsize, flen. rewrite Hb, app_length. reflexivity. }
  cbv zeta. rewrite Hsz.
  replace (N.of_nat (length P + length G) =? 0) with false by (symmetry; apply N.eqb_neq; lia).
  match goal with |- context [repair_index ?t2] => set (u2 := t2) end.
  assert (H2 : exists X, fbytes (t_index u2) = P ++ X /\ (length X mod 6 = 0)%nat
            /\ t_mcur u2 = mkMeta 2 (mvtail m) (mflush m) /\ t_msyn u2 = mkMeta 2 (mvtail m) (mflush m)
            /\ t_data u2 = data /\ t_open u2 = [] /\ t_ver u2 = 2).
  { subst u2. destruct (N.eqb_spec (N.of_nat (length P + length G) mod 6) 0) as [E|E].
    - exists G. cbn [w_index t_index t_mcur t_msyn t_data t_open t_ver fbytes].
      repeat split; try assumption; try reflexivity. lia.
    - set (ov := N.of_nat (length P + length G) mod 6) in *.
      exists (firstn (N.to_nat (N.of_nat (length P + length G) - ov) - length P) G).
      cbn [w_index t_index t_mcur t_msyn t_data t_open t_ver]. unfold f_trunc. cbn [fbytes].
      unfold flen. rewrite Hb, app_length.
      assert (Hov : ov < 6) by (subst ov; apply N.mod_lt; lia).
      assert (Hle : (N.to_nat (N.of_nat (length P + length G) - ov) <= length P + length G)%nat) by lia.
      assert (Hge : (length P <= N.to_nat (N.of_nat (length P + length G) - ov))%nat).
      { subst ov. lia. }
      replace (N.to_nat (N.of_nat (length P + length G) - ov) - (length P + length G))%nat with 0%nat by lia.
      cbn [repeat]. rewrite app_nil_r. rewrite firstn_app_le by exact Hge.
      repeat split; try assumption; try reflexivity.
      rewrite firstn_length. rewrite Nat.min_l by lia. subst ov. lia. }
  destruct H2 as [X [Hb2 [HX [Hm2 [Hs2 [Hd2 [Ho2 Hv2]]]]]]].
  destruct (repair_index_prefix u2 esF X Hne Hwf Hok Hb2 HX) as [R1 [R2 [R3 [R4 R5]]]].
  - rewrite Hm2. cbn. exact Hflush.
  - exact Hv2.
  - rewrite R1, R2, R3, R4, R5. repeat split; assumption.
Qed.

(* the facts about the index file and the metadata records that index recovery needs *)
Definition idx_facts (t : table) : Prop :=
  exists es,
    fbytes (t_index t) = concat (map enc_entry es) /\ es <> [] /\
    forallb entry_wf es = true /\ check_index es = None /\
    mflush (t_mcur t) mod 6 = 0 /\ 6 <= mflush (t_mcur t) /\
    mflush (t_mcur t) <= N.of_nat (fdur (t_index t)) /\ (fdur (t_index t) <= flen (t_index t))%nat /\
    mflush (t_msyn t) = mflush (t_mcur t) /\ mver (t_mcur t) = 2 /\ mver (t_msyn t) = 2.

(* what inv_b gives about the index *)
Lemma inv_index t : inv_b t = true -> idx_facts t.
Proof.
  unfold inv_b. intros H.
  destruct (entries_of (fbytes (t_index t))) as [|h rest] eqn:E; [discriminate|].
  repeat (apply andb_prop in H; destruct H as [H ?]).
  exists (h :: rest).
  repeat match goal with
         | H : _ && _ = true |- _ => apply andb_prop in H; destruct H
         end.
  repeat split.
  - apply bytes_eqb_eq. assumption.
  - discriminate.
  - assumption.
  - destruct (check_index (h :: rest)); [discriminate|reflexivity].
  - apply N.eqb_eq. assumption.
  - apply N.leb_le. assumption.
  - apply N.leb_le. assumption.
  - unfold file_wf in *. apply Nat.leb_le. assumption.
  - apply N.eqb_eq. assumption.
  - apply N.eqb_eq. assumption.
  - apply N.eqb_eq. assumption.
Qed.

(* THE INDEX PART OF CRASH RECOVERY.  For every table state satisfying the executable
   invariant, every cut of the index file between its durable and its current length,
   every zero-filled extension, whichever of the two metadata records survived, and any
   data files: newTable's checkIndex + repairIndex leave exactly the index bytes below the
   flush offset, and the metadata record as found. *)
Lemma crash_index_recovers_full t c p data (cm : bool) :
  idx_facts t -> valid_cut (t_index t) c p ->
  let m := if cm then t_mcur t else t_msyn t in
  let u := open_repair_index (crash_file (t_index t) c p) data (Some m) in
  fbytes (t_index u) = firstn (N.to_nat (mflush (t_mcur t))) (fbytes (t_index t))
  /\ t_mcur u = mkMeta 2 (mvtail m) (mflush (t_mcur t))
  /\ t_msyn u = mkMeta 2 (mvtail m) (mflush (t_mcur t))
  /\ t_data u = data /\ t_open u = [].
Proof.
  intros Hinv [Hc1 Hc2] m u.
  destruct Hinv as [es [Hb [Hne [Hwf [Hok [Hmod [H6 [Hdur [Hfw [Hsyn [Hv1 Hv2]]]]]]]]]]].
  set (F := mflush (t_mcur t)) in *.
  set (nF := N.to_nat (F / 6)).
  assert (HF : F = 6 * N.of_nat nF) by (subst nF; lia).
  assert (Hlen : flen (t_index t) = (6 * length es)%nat).
  { unfold flen. rewrite Hb. apply concat_enc_length. }
  assert (HnF : (1 <= nF <= length es)%nat) by lia.
  set (esF := firstn nF es).
  assert (HlF : length esF = nF) by (subst esF; rewrite firstn_length; lia).
  assert (HneF : esF <> []) by (intros E; rewrite E in HlF; cbn in HlF; lia).
  assert (HwfF : forallb entry_wf esF = true).
  { subst esF. rewrite <- (firstn_skipn nF es) in Hwf. rewrite forallb_app in Hwf.
    apply andb_prop in Hwf. exact (proj1 Hwf). }
  assert (HokF : check_index esF = None) by (apply check_index_firstn; exact Hok).
  assert (HPre : firstn (N.to_nat F) (fbytes (t_index t)) = concat (map enc_entry esF)).
  { rewrite Hb. replace (N.to_nat F) with (6 * nF)%nat by lia. apply firstn_concat_enc. }
  assert (HmF : mflush m = F) by (subst m; destruct cm; [reflexivity | exact Hsyn]).
  assert (Hmv : mver m = 2) by (subst m; destruct cm; assumption).
  (* the crashed file = P ++ G *)
  assert (HG : exists G, fbytes (crash_file (t_index t) c p) = concat (map enc_entry esF) ++ G).
  { unfold crash_file, f_synced. cbn [fbytes].
    exists (firstn (c - N.to_nat F) (skipn (N.to_nat F) (fbytes (t_index t))) ++ repeat 0 p).
    rewrite <- HPre. rewrite app_assoc. f_equal.
    rewrite <- (firstn_skipn (N.to_nat F) (fbytes (t_index t))) at 1.
    rewrite firstn_app_le.
    - rewrite firstn_length. rewrite Nat.min_l by (unfold flen in *; lia). reflexivity.
    - rewrite firstn_length. lia. }
  destruct HG as [G HG].
  destruct (open_repair_index_prefix _ data m esF G HneF HwfF HokF HG) as [R1 [R2 [R3 [R4 R5]]]].
  - rewrite HmF, HlF. exact HF.
  - exact Hmv.
  - subst u. rewrite R1, R2, R3, R4, R5, HmF, HPre. repeat split; reflexivity.
Qed.

Lemma crash_index_recovers_facts t c p data (cm : bool) :
  idx_facts t -> valid_cut (t_index t) c p ->
  let m := if cm then t_mcur t else t_msyn t in
  let u := open_repair_index (crash_file (t_index t) c p) data (Some m) in
  fbytes (t_index u) = firstn (N.to_nat (mflush (t_mcur t))) (fbytes (t_index t))
  /\ t_mcur u = mkMeta 2 (mvtail m) (mflush (t_mcur t))
  /\ t_msyn u = mkMeta 2 (mvtail m) (mflush (t_mcur t))
  /\ t_data u = data.
Proof.
  intros H Hc m u. destruct (crash_index_recovers_full t c p data cm H Hc) as (A & B & C & D & _).
  repeat split; assumption.
Qed.

Lemma crash_index_recovers t c p data (cm : bool) :
  inv_b t = true -> valid_cut (t_index t) c p ->
  let m := if cm then t_mcur t else t_msyn t in
  let u := open_repair_index (crash_file (t_index t) c p) data (Some m) in
  fbytes (t_index u) = firstn (N.to_nat (mflush (t_mcur t))) (fbytes (t_index t))
  /\ t_mcur u = mkMeta 2 (mvtail m) (mflush (t_mcur t))
  /\ t_msyn u = mkMeta 2 (mvtail m) (mflush (t_mcur t))
  /\ t_data u = data.
Proof. intros H. apply crash_index_recovers_facts. apply inv_index. exact H. Qed.

(* ---------- witnesses (evaluated in Properties/C24.v) ---------- *)
Definition blob4 (i : N) : list N := [i; 1; 2; 3].
Definition raw_id (x : list N) : list N := x.
Definition raw_dec (x : list N) : option (list N) := Some x.
(* append 5; Sync; append 5 (unsynced); truncateTail(8): only the virtual tail is written, without fsync *)
Definition H_vtail : list op :=
  [OAppend (map blob4 [0; 1; 2; 3; 4]); OSync; OAppend (map blob4 [5; 6; 7; 8; 9]); OTruncTail 8].
(* maxFileSize 50: a 60-byte item, an empty item, a 2-byte item, Sync *)
Definition H_oversized : list op :=
  [OAppend [repeat 171 60]; OAppend [[]]; OAppend [[1; 2]]; OSync].
Definition final (maxsz : N) (clamp : bool) (h : list op) : res table :=
  match init clamp with Ok t0 => Ok (fst (run maxsz raw_id t0 h)) | Err c => Err c end.
Definition full_cut (t : table) : N -> nat * nat :=
  fun id => match dget id (t_data t) with Some f => (flen f, O) | None => (O, O) end.
Definition dur_cut (t : table) : N -> nat * nat :=
  fun id => match dget id (t_data t) with Some f => (fdur f, O) | None => (O, O) end.

(* ---------- exhaustive cut sweep on a concrete state (used by an Example only) ---------- *)
(* every (kept bytes, zero fill) pair allowed by the crash model for a file *)
Definition cuts_of (f : file) : list (nat * nat) :=
  flat_map (fun c => map (fun p => (c, p)) (seq 0 (flen f - c + 1)))
           (seq (fdur f) (flen f - fdur f + 1)).
Definition nrange (lo hi : N) : list N := id_range lo hi.
(* the whole property on one crash state: reopen succeeds, one contiguous range whose head is the
   flush-offset head, every item in range reads exactly what the live table read at that number *)
Definition reopen_good (clamp : bool) (t : table) (ci : nat * nat) (cd : N -> nat * nat) (cm : bool) : bool :=
  match crash_reopen clamp t ci cd cm with
  | Err _ => false
  | Ok t' =>
      (t_hidden t' <=? t_items t')
      && (t_items t' =? t_offset t + mflush (t_mcur t) / 6 - 1)
      && (t_hidden t' <=? N.max (t_hidden t) (t_offset t))
      && forallb (fun i => match retrieve raw_dec t' i, read_item raw_dec t i with
                           | Ok a, Ok b => bytes_eqb a b
                           | _, _ => false
                           end) (nrange (t_hidden t') (t_items t'))
  end.
Definition head_cut (t : table) (c : nat * nat) : N -> nat * nat :=
  fun id => if id =? t_head t then c else full_cut t id.
Definition mid_cut (f : file) : nat * nat :=
  ((fdur f + (flen f - fdur f) / 2)%nat, ((flen f - fdur f) / 4)%nat).
Definition sweep_cuts (clamp : bool) (t : table) : bool :=
  match dget (t_head t) (t_data t) with
  | None => false
  | Some hf =>
      forallb (fun cm =>
        forallb (fun ci => forallb (fun ch => reopen_good clamp t ci (head_cut t ch) cm)
                             [(fdur hf, O); (flen hf, O); mid_cut hf])
                (cuts_of (t_index t))
        && forallb (fun ch => forallb (fun ci => reopen_good clamp t ci (head_cut t ch) cm)
                             [(fdur (t_index t), O); (flen (t_index t), O); mid_cut (t_index t)])
                (cuts_of hf))
        [true; false]
  end.
Definition H_mixed : list op :=
  [OAppend (map blob4 [0; 1; 2]); OAppend [repeat 7 40; repeat 8 40; repeat 9 30]; OSync;
   OTruncTail 2; OAppend (map blob4 [6; 7]); OTruncHead 7; OSyncIndex; OAppend [repeat 5 33; []; blob4 9]].

(* ---------- the head/index truncation loop of repair() ---------- *)
(* When the head data file is at least as long as the last index entry says (which the flush-offset
   discipline guarantees after repairIndex: data below the flush offset is durable), the loop never
   touches the index or the metadata: it returns at once, or after truncating the dangling head. *)
Lemma repair_loop_head_only fuel t last offsets csize f :
  (1 <= fuel)%nat -> dget (efile last) (t_data t) = Some f -> eoff last <= csize ->
  exists t',
    repair_loop fuel t last offsets csize = Ok (t', last, offsets, eoff last) /\
    t_index t' = t_index t /\ t_mcur t' = t_mcur t /\ t_msyn t' = t_msyn t /\ t_open t' = t_open t /\
    t_offset t' = t_offset t /\ t_hidden t' = t_hidden t /\ t_tail t' = t_tail t /\
    (csize = eoff last -> t' = t) /\
    (eoff last < csize -> t_data t' = dset (efile last) (f_trunc f (eoff last)) (t_data t)).
Proof.
  intros Hf Hd Hle. destruct fuel as [|k]; [lia|].
  cbn [repair_loop].
  destruct (N.eqb_spec (eoff last) csize) as [E|E].
  - exists t. subst csize. repeat split; try reflexivity. intros; lia.
  - destruct (N.ltb_spec (eoff last) csize) as [L|L]; [|lia].
    unfold data_upd. rewrite Hd.
    destruct (N.ltb_spec (eoff last) (eoff last)) as [L2|L2]; [lia|].
    exists (w_data t (dset (efile last) (f_trunc f (eoff last)) (t_data t))).
    split.
    + destruct k; cbn [repair_loop]; rewrite N.eqb_refl; reflexivity.
    + repeat split; try reflexivity. intros; lia.
Qed.

(* data below the durable watermark survives every cut, and the crashed file is at least that long *)
Lemma crash_file_covers f c p o :
  valid_cut f c p -> (fdur f <= flen f)%nat -> o <= N.of_nat (fdur f) ->
  o <= fsize (crash_file f c p) /\
  firstn (N.to_nat o) (fbytes (crash_file f c p)) = firstn (N.to_nat o) (fbytes f).
Proof.
  intros [H1 H2] Hw Ho. unfold crash_file, f_synced, fsize, flen in *. cbn [fbytes].
  assert (Hl : length (firstn c (fbytes f)) = c) by (rewrite firstn_length; lia).
  split.
  - rewrite app_length, Hl. lia.
  - rewrite firstn_app. rewrite Hl. replace (N.to_nat o - c)%nat with 0%nat by lia.
    cbn [firstn]. rewrite app_nil_r. rewrite firstn_firstn. f_equal. lia.
Qed.
