(* Storage/FreezerTable.v — executable model of ONE freezer table
   (/repo/core/rawdb/freezer_table.go, freezer_batch.go, freezer_meta.go,
   freezer_utils.go), transcribed from the Go code.  No proofs here.

   Persistence interface (DESIGN.md section 4):
     file   = (bytes, durable length); write appends (every handle of the table
              is positioned at the end of its file: openFreezerFileForAppend /
              truncateFreezerFile seek to the end), truncate cuts (or zero-extends)
              and lowers the watermark, sync raises the watermark to the length;
     meta   = the < 30 byte RLP record (version, virtualTail, flushOffset) rewritten
              in place; modelled as a register: [t_msyn] = last fsync'ed record,
              [t_mcur] = last written record (= the in-memory metadata);
     rename = copyFrom/reset replace the index atomically by a fully synced file.
   Compression is an abstract codec (Section variables [encode]/[decode]); a raw
   (noSnappy) table is the instance encode = id.
   Not modelled: read-only mode, legacy v1 metadata *files* (the v1 branch of
   repairIndex is transcribed but never fed), the time-based periodic sync in
   freezerTableBatch.commit (needs > 512 items and > 30 s), metrics, locks. *)
From Coq Require Import List NArith ZArith Bool.
Import ListNotations.
Local Open Scope N_scope.

(* ---------- results ---------- *)
Inductive res (A : Type) : Type := Ok (a : A) | Err (c : N).
Arguments Ok {A} a.
Arguments Err {A} c.
Notation "'do' x <- e ; f" := (match e with Ok x => f | Err c => Err c end)
  (at level 200, x pattern, e at level 100, f at level 200).

(* error classes *)
Definition E_BELOW_TAIL : N := 1.  (* truncateHead: "truncation below tail" *)
Definition E_IO : N := 2.          (* any other error the Go code returns (ReadAt EOF, missing file, ...) *)
Definition E_OOB : N := 3.         (* errOutOfBounds *)
Definition E_DECODE : N := 4.      (* snappy.Decode error *)
Definition E_WRAP : N := 5.        (* uint32 size wrap in bounds(): Go would allocate ~4 GiB; never equal to an observation *)
Definition E_FUEL : N := 6.        (* model loop fuel exhausted (never observed) *)
Definition E_MODEL : N := 7.       (* state the model does not cover (no open handle / empty index after repairIndex) *)

(* ---------- files ---------- *)
Record file := mkFile { fbytes : list N; fdur : nat }.
Definition f_empty : file := mkFile [] 0.
Definition flen (f : file) : nat := length (fbytes f).
Definition fsize (f : file) : N := N.of_nat (flen f).
(* os.File.Write at the end of the file *)
Definition f_write (f : file) (b : list N) : file := mkFile (fbytes f ++ b) (fdur f).
(* os.File.Truncate(n): cut, or extend with zero bytes *)
Definition f_trunc (f : file) (n : N) : file :=
  let k := N.to_nat n in
  mkFile (firstn k (fbytes f) ++ repeat 0 (k - flen f)) (Nat.min (fdur f) k).
(* os.File.Sync *)
Definition f_sync (f : file) : file := mkFile (fbytes f) (flen f).
(* a file created whole and fsync'ed before it is renamed into place *)
Definition f_synced (b : list N) : file := mkFile b (length b).

(* ---------- index entries: freezer_table.go indexEntry (6 bytes, big endian) ---------- *)
Record entry := mkE { efile : N; eoff : N }.

(* indexEntry.append: uint16(filenum), uint32 offset *)
Definition enc_entry (e : entry) : list N :=
  let f := efile e mod 65536 in
  let o := eoff e mod 4294967296 in
  [f / 256; f mod 256; o / 16777216; (o / 65536) mod 256; (o / 256) mod 256; o mod 256].

(* indexEntry.unmarshalBinary *)
Definition dec_entry (b : list N) : option entry :=
  match b with
  | [a; b; c; d; e; f] => Some (mkE (a * 256 + b) (c * 16777216 + d * 65536 + e * 256 + f))
  | _ => None
  end.

(* index.ReadAt(buf6, off): None = short read (io.EOF) *)
Definition read6 (bytes : list N) (off : N) : option entry :=
  dec_entry (firstn 6 (skipn (N.to_nat off) bytes)).

(* ReadAt into a reused 6-byte buffer whose error is ignored (repair): the bytes
   that could be read overwrite the front of the buffer *)
Definition read_over (buf : list N) (bytes : list N) (off : N) : list N :=
  let l := firstn 6 (skipn (N.to_nat off) bytes) in
  l ++ skipn (length l) buf.

Definition buf_entry (buf : list N) : res entry :=
  match dec_entry buf with Some e => Ok e | None => Err E_MODEL end.

(* all complete 6-byte entries of a byte string (what checkIndex's read() loop sees) *)
Fixpoint entries_of (b : list N) : list entry :=
  match b with
  | a :: b :: c :: d :: e :: f :: r =>
      mkE (a * 256 + b) (c * 16777216 + d * 65536 + e * 256 + f) :: entries_of r
  | _ => []
  end.

(* ---------- metadata: freezer_meta.go freezerTableMeta ---------- *)
Record meta := mkMeta { mver : N; mvtail : N; mflush : N }.

(* ---------- data-file directory (sorted association list by file number) ---------- *)
Fixpoint dget (id : N) (l : list (N * file)) : option file :=
  match l with
  | [] => None
  | (k, f) :: r => if k =? id then Some f else dget id r
  end.
Fixpoint dset (id : N) (f : file) (l : list (N * file)) : list (N * file) :=
  match l with
  | [] => [(id, f)]
  | (k, g) :: r => if k =? id then (id, f) :: r
                   else if id <? k then (id, f) :: (k, g) :: r
                   else (k, g) :: dset id f r
  end.
Definition ddel (id : N) (l : list (N * file)) : list (N * file) :=
  filter (fun kf => negb (fst kf =? id)) l.

(* ---------- the table ---------- *)
Record table := mkT {
  t_items : N;        (* items      *)
  t_offset : N;       (* itemOffset *)
  t_hidden : N;       (* itemHidden *)
  t_head : N;         (* headId *)
  t_tail : N;         (* tailId *)
  t_headbytes : N;    (* headBytes *)
  t_ver : N;          (* metadata.version in memory *)
  t_open : list N;    (* keys of t.files *)
  t_index : file;
  t_data : list (N * file);
  t_mcur : meta;      (* metadata file as last written (in-memory virtualTail/flushOffset) *)
  t_msyn : meta       (* metadata file as last fsync'ed *)
}.

Definition w_index (t : table) (f : file) : table :=
  mkT (t_items t) (t_offset t) (t_hidden t) (t_head t) (t_tail t) (t_headbytes t) (t_ver t)
      (t_open t) f (t_data t) (t_mcur t) (t_msyn t).
Definition w_data (t : table) (d : list (N * file)) : table :=
  mkT (t_items t) (t_offset t) (t_hidden t) (t_head t) (t_tail t) (t_headbytes t) (t_ver t)
      (t_open t) (t_index t) d (t_mcur t) (t_msyn t).
Definition w_open (t : table) (o : list N) : table :=
  mkT (t_items t) (t_offset t) (t_hidden t) (t_head t) (t_tail t) (t_headbytes t) (t_ver t)
      o (t_index t) (t_data t) (t_mcur t) (t_msyn t).
Definition w_meta (t : table) (c s : meta) : table :=
  mkT (t_items t) (t_offset t) (t_hidden t) (t_head t) (t_tail t) (t_headbytes t) (t_ver t)
      (t_open t) (t_index t) (t_data t) c s.
Definition w_counters (t : table) (items offset hidden head tail headbytes : N) : table :=
  mkT items offset hidden head tail headbytes (t_ver t)
      (t_open t) (t_index t) (t_data t) (t_mcur t) (t_msyn t).

(* freezerTableMeta.write(sync): the record on disk always carries freezerVersion = 2 *)
Definition meta_write (t : table) (vtail flush : N) (sync : bool) : table :=
  let m := mkMeta 2 vtail flush in
  w_meta t m (if sync then m else t_msyn t).
(* setFlushOffset(o, true) *)
Definition set_flush (t : table) (o : N) : table := meta_write t (mvtail (t_mcur t)) o true.
(* setVirtualTail(v, sync) *)
Definition set_vtail (t : table) (v : N) (sync : bool) : table := meta_write t v (mflush (t_mcur t)) sync.

(* apply a file operation to a data file that the table holds a handle to *)
Definition data_upd (t : table) (id : N) (g : file -> file) : res table :=
  match dget id (t_data t) with
  | Some f => Ok (w_data t (dset id (g f) (t_data t)))
  | None => Err E_MODEL
  end.

(* openFile(num, openFreezerFileForAppend): O_CREATE, no truncation *)
Definition open_append (t : table) (id : N) : table :=
  if existsb (N.eqb id) (t_open t) then t
  else
    let t1 := match dget id (t_data t) with
              | Some _ => t
              | None => w_data t (dset id f_empty (t_data t))
              end in
    w_open t1 (id :: t_open t1).
(* openFile(num, openFreezerFileForReadOnly): fails when the file is missing *)
Definition open_ro (t : table) (id : N) : res table :=
  if existsb (N.eqb id) (t_open t) then Ok t
  else match dget id (t_data t) with
       | Some _ => Ok (w_open t (id :: t_open t))
       | None => Err E_IO
       end.
(* openFile(num, openFreezerFileTruncated): only truncates when no handle is cached *)
Definition open_trunc (t : table) (id : N) : table :=
  if existsb (N.eqb id) (t_open t) then t
  else w_open (w_data t (dset id f_empty (t_data t))) (id :: t_open t).
(* releaseFile *)
Definition release_file (t : table) (id : N) : table :=
  w_open t (filter (fun k => negb (k =? id)) (t_open t)).
(* releaseFilesAfter(num, remove) / releaseFilesBefore(num, remove): only OPEN files *)
Definition release_where (t : table) (p : N -> bool) (remove : bool) : table :=
  let gone := filter p (t_open t) in
  let t1 := w_open t (filter (fun k => negb (p k)) (t_open t)) in
  if remove then w_data t1 (filter (fun kf => negb (existsb (N.eqb (fst kf)) gone)) (t_data t1))
  else t1.
Definition release_after (t : table) (num : N) (remove : bool) : table :=
  release_where t (fun k => num <? k) remove.
Definition release_before (t : table) (num : N) (remove : bool) : table :=
  release_where t (fun k => k <? num) remove.

(* the file numbers lo, lo+1, ..., hi-1 *)
Definition id_range (lo hi : N) : list N :=
  map (fun k => lo + N.of_nat k) (seq 0 (N.to_nat (hi - lo))).

Fixpoint bytes_eqb (a b : list N) : bool :=
  match a, b with
  | [], [] => true
  | x :: a', y :: b' => (x =? y) && bytes_eqb a' b'
  | _, _ => false
  end.

Definition two32 : N := 4294967296.
Definition two64 : N := 18446744073709551616.

Section Model.
Variable maxsz : N.                               (* maxFileSize *)
Variable encode : list N -> list N.               (* snappy.Encode, or id for noSnappy tables *)
Variable decode : list N -> option (list N).      (* snappy.Decode *)
(* [clamp = true] is the current code: repair() clamps a virtual tail that points beyond the
   recovered head (commit 9df0e54227).  [clamp = false] is the code before that repair, kept
   to document the defect this model found (Properties/C24.v, C24_reopen_ok_unclamped_refuted). *)
Variable clamp : bool.

(* ---------- doSync (freezer_table.go:1307): index.Sync, head.Sync, setFlushOffset(size, true) ---------- *)
Definition sync_index (t : table) : table := w_index t (f_sync (t_index t)).
Definition sync_head (t : table) : res table := data_upd t (t_head t) f_sync.
Definition do_sync (t : table) : res table :=
  let t1 := sync_index t in
  do t2 <- sync_head t1;
  Ok (set_flush t2 (fsize (t_index t2))).

(* ---------- advanceHead (freezer_table.go:1266) ---------- *)
Definition advance_head (t : table) : res table :=
  do t1 <- do_sync t;
  let next := (t_head t1 + 1) mod two32 in
  let t2 := open_trunc t1 next in
  do t3 <- sync_head t2;                       (* t.head.Sync() on the old head *)
  (* releaseFile(headId); openFile(headId, read-only): the key stays in t.files *)
  Ok (w_counters t3 (t_items t3) (t_offset t3) (t_hidden t3) next (t_tail t3) 0).

(* ---------- freezerTableBatch (freezer_batch.go) ---------- *)
Record batch := mkB { b_data : list N; b_index : list N; b_cur : N }.

(* freezerTableBatch.commit (without the time-based periodic sync) *)
Definition commit (t : table) (b : batch) : res (table * batch) :=
  do t1 <- data_upd t (t_head t) (fun f => f_write f (b_data b));
  let t2 := w_index t1 (f_write (t_index t1) (b_index b)) in
  let t3 := w_counters t2 (b_cur b) (t_offset t2) (t_hidden t2) (t_head t2) (t_tail t2)
                       (t_headbytes t2 + N.of_nat (length (b_data b))) in
  Ok (t3, mkB [] [] (b_cur b)).

(* AppendRaw + appendItem *)
Definition append_item (tb : table * batch) (blob : list N) : res (table * batch) :=
  let '(t, b) := tb in
  let data := encode blob in
  let isz := N.of_nat (length data) in
  let ioff := t_headbytes t + N.of_nat (length (b_data b)) in
  do r <- (if maxsz <? ioff + isz
           then (do tb1 <- commit t b;
                 do t2 <- advance_head (fst tb1);
                 Ok (t2, snd tb1, 0))
           else Ok (t, b, ioff));
  let '(t', b', ioff') := r in
  let e := mkE (t_head t') ((ioff' + isz) mod two32) in
  Ok (t', mkB (b_data b' ++ data) (b_index b' ++ enc_entry e) (b_cur b' + 1)).

Fixpoint append_items (tb : table * batch) (blobs : list (list N)) : res (table * batch) :=
  match blobs with
  | [] => Ok tb
  | x :: r => do tb' <- append_item tb x; append_items tb' r
  end.

(* newBatch; AppendRaw for every blob (numbered from items on); commit *)
Definition op_append (t : table) (blobs : list (list N)) : res table :=
  do tb <- append_items (t, mkB [] [] (t_items t)) blobs;
  do tb' <- commit (fst tb) (snd tb);
  Ok (fst tb').

(* ---------- resetTo (freezer_table.go:854) ---------- *)
Definition reset_to (t : table) (tail : N) : res table :=
  do t1 <- do_sync t;
  let nh := (t_head t1 + 1) mod two32 in
  let t2 := w_index t1 (f_synced (enc_entry (mkE nh (tail mod two32)))) in   (* reset(): temp file, fsync, rename *)
  let t3 := set_vtail t2 tail true in
  let t4 := set_flush t3 6 in
  let t5 := open_trunc t4 nh in
  let t6 := release_before t5 nh true in
  Ok (w_counters t6 tail tail tail nh nh 0).

(* ---------- truncateHead (freezer_table.go:605) ---------- *)
Definition truncate_head (t : table) (items : N) : res table :=
  let existing := t_items t in
  if existing <=? items then Ok t else
  let hidden := t_hidden t in
  if items <? hidden then
    (if existing =? hidden then reset_to t items else Err E_BELOW_TAIL)
  else
  let length := items - t_offset t in
  let newoff := (length + 1) * 6 in
  let t1 := sync_index (w_index t (f_trunc (t_index t) newoff)) in
  let t2 := if newoff <? mflush (t_mcur t1) then set_flush t1 newoff else t1 in
  do expected <- (if length =? 0 then Ok (mkE (t_tail t2) 0)
                  else match read6 (fbytes (t_index t2)) (length * 6) with
                       | Some e => Ok e
                       | None => Err E_IO
                       end);
  let t3 := if efile expected =? t_head t2 then t2
            else
              let a := release_file t2 (efile expected) in
              let b := open_append a (efile expected) in
              let c := release_after b (efile expected) true in
              w_counters c (t_items c) (t_offset c) (t_hidden c) (efile expected) (t_tail c) (t_headbytes c) in
  do t4 <- data_upd t3 (t_head t3) (fun f => f_sync (f_trunc f (eoff expected)));
  Ok (w_counters t4 items (t_offset t4) (t_hidden t4) (t_head t4) (t_tail t4) (eoff expected)).

(* ---------- truncateTail (freezer_table.go:719) ---------- *)
(* the loop  for current := items-1; current >= deleted; current -= 1  on uint64 *)
Fixpoint tail_scan (fuel : nat) (idx : list N) (deleted newtail current newdel : N) : res N :=
  if current <? deleted then Ok newdel else
  match fuel with
  | O => Err E_FUEL
  | S k =>
      match read6 idx ((((current + two64 - deleted + 1) mod two64) * 6) mod two64) with
      | None => Err E_IO
      | Some pre =>
          if negb (efile pre =? newtail) then Ok newdel
          else tail_scan k idx deleted newtail ((current + two64 - 1) mod two64) current
      end
  end.

Definition truncate_tail (t : table) (items : N) : res table :=
  if items <=? t_hidden t then Ok t else
  if t_items t <? items then reset_to t items else
  do newtail <- (if t_items t =? items then Ok (t_head t)
                 else match read6 (fbytes (t_index t)) ((items - t_offset t + 1) * 6) with
                      | Some e => Ok (efile e)
                      | None => Err E_IO
                      end);
  let t1 := w_counters t (t_items t) (t_offset t) items (t_head t) (t_tail t) (t_headbytes t) in
  let t2 := set_vtail t1 items false in          (* no fsync *)
  if t_tail t2 =? newtail then Ok t2 else
  if newtail <? t_tail t2 then Err E_IO else
  do t3 <- do_sync t2;
  let deleted := t_offset t3 in
  do newdel <- tail_scan (S (S (flen (t_index t3)))) (fbytes (t_index t3)) deleted newtail (items - 1) items;
  (* copyFrom(index, index, 6*(newDeleted-deleted+1), write new tail entry): temp file, fsync, rename; reopen; Sync *)
  let keep := skipn (N.to_nat (6 * (newdel - deleted + 1))) (fbytes (t_index t3)) in
  let t4 := w_index t3 (f_synced (enc_entry (mkE newtail (newdel mod two32)) ++ keep)) in
  let t5 := w_counters t4 (t_items t4) newdel (t_hidden t4) (t_head t4) newtail (t_headbytes t4) in
  let t6 := release_before t5 newtail true in
  let shorten := 6 * (newdel - deleted) in
  if mflush (t_mcur t6) <=? shorten then Err E_IO else
  Ok (set_flush t6 (mflush (t_mcur t6) - shorten)).

(* ---------- Sync ---------- *)
Definition op_sync (t : table) : res table := do_sync t.

(* ---------- Retrieve (retrieveItems with count = 1, maxBytes = 0; getIndices; bounds) ---------- *)
(* the part after the bounds check: getIndices(item, 1), bounds, readData, decompress *)
Definition read_item (t : table) (item : N) : res (list N) :=
  let from := item - t_offset t in
  let idx := fbytes (t_index t) in
  match read6 idx (from * 6), read6 idx (from * 6 + 6) with
  | Some i0, Some i1 =>
      let i0' := if from =? 0 then mkE (efile i1) 0 else i0 in
      let off1 := if efile i0' =? efile i1 then eoff i0' else 0 in
      let off2 := eoff i1 in
      if off2 <? off1 then Err E_WRAP else
      let size := off2 - off1 in
      if negb (existsb (N.eqb (efile i1)) (t_open t)) then Err E_IO else
      match dget (efile i1) (t_data t) with
      | None => Err E_MODEL
      | Some f =>
          let l := firstn (N.to_nat size) (skipn (N.to_nat off1) (fbytes f)) in
          if negb (N.of_nat (length l) =? size) then Err E_IO else
          match decode l with
          | Some x => Ok x
          | None => Err E_DECODE
          end
      end
  | _, _ => Err E_IO
  end.

Definition retrieve (t : table) (item : N) : res (list N) :=
  if (t_items t <=? item) || (item <? t_hidden t) then Err E_OOB else read_item t item.

(* ---------- checkIndexItems / checkIndex (freezer_table.go:481-579) ---------- *)
Definition check_items (a b : entry) : bool :=
  if negb (efile b =? efile a) && negb (efile b =? efile a + 1) then false
  else if (efile b =? efile a) && (eoff b <? eoff a) then false
  else if (efile b =? efile a + 1) && (eoff b =? 0) then false
  else true.

(* returns the offset at which the index must be truncated, if any *)
Fixpoint check_tail (prev : entry) (es : list entry) (off : N) : option N :=
  match es with
  | [] => None
  | e :: r => if check_items prev e then check_tail e r (off + 6) else Some off
  end.
Definition check_index (es : list entry) : option N :=
  match es with
  | [] => None
  | h :: [] => None
  | h :: e1 :: r =>
      if negb (efile e1 =? efile h) && negb (efile e1 =? efile h + 1) then Some 6
      else check_tail e1 r 12
  end.

(* ---------- repairIndex (freezer_table.go:396) ---------- *)
Definition repair_index (t : table) : table :=
  let t1 := match check_index (entries_of (fbytes (t_index t))) with
            | Some off => w_index t (f_trunc (t_index t) off)
            | None => t
            end in
  let size := fsize (t_index t1) in
  let flush := mflush (t_mcur t1) in
  if t_ver t1 =? 1 then set_flush t1 size
  else if (size =? 6) && (flush =? 0) then set_flush t1 size
  else if size =? flush then t1
  else if flush <? size then w_index t1 (f_trunc (t_index t1) flush)
  else set_flush t1 size.

(* ---------- repair: the head/index truncation loop (freezer_table.go:297-359) ---------- *)
Fixpoint repair_loop (fuel : nat) (t : table) (last : entry) (offsets csize : N)
  : res (table * entry * N * N) :=
  let cexp := eoff last in
  if cexp =? csize then Ok (t, last, offsets, csize) else
  match fuel with
  | O => Err E_FUEL
  | S k =>
      do r1 <- (if cexp <? csize
                then (do t1 <- data_upd t (efile last) (fun f => f_trunc f cexp); Ok (t1, cexp))
                else Ok (t, csize));
      let '(t1, csize1) := r1 in
      if csize1 <? cexp then
        if offsets <? 12 then Err E_MODEL else
        let newoff := offsets - 6 in
        let t2 := w_index t1 (f_trunc (t_index t1) newoff) in
        let t3 := if newoff <? mflush (t_mcur t2) then set_flush t2 newoff else t2 in
        do newlast <- (if newoff =? 6 then Ok (mkE (t_tail t3) 0)
                       else match read6 (fbytes (t_index t3)) (newoff - 6) with
                            | Some e => Ok e
                            | None => Err E_MODEL
                            end);
        if negb (efile newlast =? efile last) then
          let t4 := open_append (release_file t3 (efile last)) (efile newlast) in
          match dget (efile newlast) (t_data t4) with
          | Some f => repair_loop k t4 newlast newoff (fsize f)
          | None => Err E_MODEL
          end
        else repair_loop k t3 newlast newoff csize1
      else repair_loop k t1 last offsets csize1
  end.

(* preopen (freezer_table.go:585) *)
Fixpoint open_range (t : table) (ids : list N) : res table :=
  match ids with
  | [] => Ok t
  | i :: r => do t1 <- open_ro t i; open_range t1 r
  end.
Definition preopen (t : table) : res table :=
  let t1 := release_after t 0 false in
  do t2 <- open_range t1 (id_range (t_tail t1) (t_head t1));
  Ok (open_append t2 (t_head t2)).

(* ---------- newTable + repair (freezer_table.go:136-394), read-write mode ---------- *)
(* first part: newMetadata, the initial zero entry, the size%6 trim, repairIndex *)
Definition open_repair_index (index : file) (data : list (N * file)) (m : option meta) : table :=
  (* newMetadata: an empty metadata file is initialised with {v2, 0, 0} and fsync'ed *)
  let m0 := match m with Some x => x | None => mkMeta 2 0 0 end in
  let t0 := mkT 0 0 0 0 0 0 (mver m0) [] index data (mkMeta 2 (mvtail m0) (mflush m0)) (mkMeta 2 (mvtail m0) (mflush m0)) in
  let size0 := fsize index in
  let t1 := if size0 =? 0 then w_index t0 (f_write (t_index t0) (repeat 0 6)) else t0 in
  let overflow := size0 mod 6 in
  let t2 := if overflow =? 0 then t1 else w_index t1 (f_trunc (t_index t1) (size0 - overflow)) in
  repair_index t2.

(* second part: tail marker, virtual tail, last index entry, head file (repair(), lines 256-296) *)
Definition open_head (t3 : table) : res (table * entry * N * N) :=
  let offsets := fsize (t_index t3) in
  if offsets <? 6 then Err E_MODEL else
  let buf0 := read_over (repeat 0 6) (fbytes (t_index t3)) 0 in
  do first <- buf_entry buf0;
  let t4 := w_counters t3 0 (eoff first) 0 0 (efile first) 0 in
  let t5 := if mvtail (t_mcur t4) <? t_offset t4 then set_vtail t4 (t_offset t4) true else t4 in
  let t6 := w_counters t5 0 (t_offset t5) (mvtail (t_mcur t5)) 0 (t_tail t5) 0 in
  do last <- (if offsets =? 6 then Ok (mkE (t_tail t6) 0)
              else buf_entry (read_over buf0 (fbytes (t_index t6)) (offsets - 6)));
  let t7 := open_append t6 (efile last) in
  do csize <- match dget (efile last) (t_data t7) with Some f => Ok (fsize f) | None => Err E_MODEL end;
  Ok (t7, last, offsets, csize).

(* last part: syncs, counters, the clamp of the virtual tail, leftover files, preopen, and newTable's
   size computation (repair(), lines 360-394; newTable, lines 202-207) *)
Definition open_finish (t8 : table) (last' : entry) (offsets' csize' : N) : res table :=
  (* index.Sync, head.Sync, metadata.file.Sync *)
  let t9 := sync_index t8 in
  do t10 <- data_upd t9 (efile last') f_sync;
  let t11 := w_meta t10 (t_mcur t10) (t_mcur t10) in
  let t12 := w_counters t11 ((t_offset t11 + (offsets' / 6 - 1)) mod two64) (t_offset t11) (t_hidden t11)
                        (efile last') (t_tail t11) csize' in
  let t12 := if clamp && (t_items t12 <? t_hidden t12)
             then (let a := set_vtail t12 (t_items t12) true in
                   w_counters a (t_items a) (t_offset a) (t_items a) (t_head a) (t_tail a) (t_headbytes a))
             else t12 in
  let t13 := release_after t12 (t_head t12) true in
  let t14 := release_before t13 (t_tail t13) true in
  do t15 <- preopen t14;
  (* newTable: sizeNolock -> sizeHidden -> getIndices(hidden-1, 1) must be readable *)
  if t_hidden t15 <=? t_offset t15 then Ok t15
  else
    let from := t_hidden t15 - 1 - t_offset t15 in
    if fsize (t_index t15) <? from * 6 + 12 then Err E_IO else Ok t15.

Definition open_table (index : file) (data : list (N * file)) (m : option meta) : res table :=
  do r <- open_head (open_repair_index index data m);
  let '(t7, last, offsets, csize) := r in
  do r2 <- repair_loop (S (N.to_nat (offsets / 6))) t7 last offsets csize;
  let '(t8, last', offsets', csize') := r2 in
  open_finish t8 last' offsets' csize'.

(* ---------- crash (DESIGN.md section 4) ---------- *)
(* a file keeps [c] bytes (durable <= c <= length) followed by [p] zero bytes (c + p <= length) *)
Definition crash_file (f : file) (c p : nat) : file := f_synced (firstn c (fbytes f) ++ repeat 0 p).
Definition valid_cut (f : file) (c p : nat) : Prop := (fdur f <= c /\ c + p <= flen f)%nat.
(* a selector pair always denotes a valid cut *)
Definition sel_cut (f : file) (a b : nat) : nat * nat :=
  let c := (fdur f + a mod (flen f - fdur f + 1))%nat in
  (c, (b mod (flen f - c + 1))%nat).

Definition crash_reopen (t : table) (ci : nat * nat) (cd : N -> nat * nat) (cm : bool) : res table :=
  open_table (crash_file (t_index t) (fst ci) (snd ci))
             (map (fun kf => (fst kf, crash_file (snd kf) (fst (cd (fst kf))) (snd (cd (fst kf))))) (t_data t))
             (Some (if cm then t_mcur t else t_msyn t)).

(* ---------- histories ---------- *)
Inductive op :=
| OAppend (blobs : list (list N))
| OTruncHead (n : N)
| OTruncTail (n : N)
| OSync
| OSyncIndex          (* index.Sync() only: a crash inside doSync after its first step *)
| OSyncIndexHead.     (* index.Sync(); head.Sync(): a crash inside doSync before setFlushOffset *)

Definition step (t : table) (o : op) : res table :=
  match o with
  | OAppend blobs => op_append t blobs
  | OTruncHead n => truncate_head t n
  | OTruncTail n => truncate_tail t n
  | OSync => op_sync t
  | OSyncIndex => Ok (sync_index t)
  | OSyncIndexHead => sync_head (sync_index t)
  end.

(* an operation that returns an error leaves the table as it was (the only error
   reachable here, "truncation below tail", is returned before any mutation);
   the error classes are recorded *)
Fixpoint run (t : table) (h : list op) : table * list N :=
  match h with
  | [] => (t, [])
  | o :: r => match step t o with
              | Ok t' => let '(tf, cs) := run t' r in (tf, 0 :: cs)
              | Err c => let '(tf, cs) := run t r in (tf, c :: cs)
              end
  end.

(* a fresh table: newTable on an empty directory *)
Definition init : res table := open_table f_empty [] None.

End Model.

(* ---------- the executable crash invariant ----------
   What the crash-recovery theorems (FreezerTableProofs.v) need of the table state at
   the crash point.  It is a boolean so that Run/C24.v evaluates it on the final
   state of every generated history (a [false] is reported as a model error). *)
Definition is_some {A} (o : option A) : bool := match o with Some _ => true | None => false end.
Definition is_none {A} (o : option A) : bool := match o with Some _ => false | None => true end.
Definition file_wf (f : file) : bool := (fdur f <=? flen f)%nat.
Definition entry_wf (e : entry) : bool := (efile e <? 65536) && (eoff e <? two32).
Definition data_covers (d : list (N * file)) (e : entry) : bool :=
  match dget (efile e) d with Some f => eoff e <=? N.of_nat (fdur f) | None => false end.
Definition inv_b (t : table) : bool :=
  let idx := fbytes (t_index t) in
  let es := entries_of idx in
  let F := mflush (t_mcur t) in
  match es with
  | [] => false
  | h :: rest =>
      let synced := firstn (N.to_nat (F / 6) - 1) rest in
      let lastF := last synced (mkE (t_tail t) 0) in
      bytes_eqb idx (concat (map enc_entry es))
      && forallb entry_wf es
      && ((efile h =? t_tail t) && (eoff h =? t_offset t))
      && is_none (check_index es)
      && ((F mod 6 =? 0) && (6 <=? F) && (F <=? N.of_nat (fdur (t_index t))))
      && (file_wf (t_index t) && forallb (fun kf => file_wf (snd kf)) (t_data t))
      && ((mflush (t_msyn t) =? F) && (mver (t_mcur t) =? 2) && (mver (t_msyn t) =? 2))
      && forallb (fun e => data_covers (t_data t) e && (t_tail t <=? efile e) && (efile e <=? efile lastF)
                           && (if efile e =? efile lastF then eoff e <=? eoff lastF else true)) synced
      && (t_tail t <=? efile lastF)
      && forallb (fun id => is_some (dget id (t_data t))) (id_range (t_tail t) (efile lastF))
      && (mvtail (t_msyn t) <=? t_offset t + F / 6 - 1)
      && (t_offset t <? two32)
  end.
