(* Storage/FreezerTableOps.v — the full table invariant DInv (Storage/FreezerTableData.v) is
   preserved by the operations of a table. *)
From GV Require Import Lib.Tactics Storage.FreezerTable Storage.FreezerTableProofs Storage.FreezerTableInv Storage.Freezer Storage.FreezerProofs Storage.FreezerSuccess Storage.FreezerTableData.
Local Open Scope N_scope.

Ltac inv_destruct H :=
  destruct H as (rest & Hb & Hwf & Ht & Ho & Hv & Hi & Hi32 & Hh & Hhb & Hhm & Hsm & Hm6 & H6 & Hfd & Hfw
                 & Hms & Hv1 & Hv2 & Hoh & Hhi).

Lemma in_synced t e : In e (synced_of t) -> In e (rest_of t).
Proof.
  unfold synced_of. intros H. rewrite <- (firstn_skipn (nsynced t) (rest_of t)). apply in_or_app. left. exact H.
Qed.

Lemma dget_dset id id' x l : dget id' (dset id x l) = if id' =? id then Some x else dget id' l.
Proof.
  destruct (N.eqb_spec id' id) as [->|Ne]; [apply dget_dset_same | apply dget_dset_other; exact Ne].
Qed.

(* ---------- Sync, and the interior points of doSync ---------- *)
Lemma dinv_do_sync maxsz t t' : DInv maxsz t -> do_sync t = Ok t' -> DInv maxsz t'.
Proof.
  intros (HI & DG & DH & DI & DJ & DL & DN & DO & DP) E.
  assert (HI' : IdxInv maxsz t') by (eapply inv_do_sync; eauto).
  destruct DJ as [hf [Hf Hsz]].
  unfold do_sync, sync_head, data_upd in E. cbn [sync_index w_index t_head t_data] in E. rewrite Hf in E.
  inversion E; subst t'; clear E.
  set (t' := set_flush _ _) in *.
  assert (Hd : forall id, dget id (t_data t') = if id =? t_head t then Some (f_sync hf) else dget id (t_data t)).
  { intros id. subst t'. cbn [set_flush meta_write w_meta w_data t_data]. apply dget_dset. }
  assert (Hr : rest_of t' = rest_of t) by reflexivity.
  assert (Hhd : t_head t' = t_head t) by reflexivity.
  assert (Hcov : forall e, In e (rest_of t) -> exists f, dget (efile e) (t_data t') = Some f /\ eoff e <= fsize f /\ fdur f = flen f).
  { intros e He. destruct (DG e He) as [f [Hfe Hle]]. rewrite Hd.
    destruct (N.eqb_spec (efile e) (t_head t)) as [Q|Q].
    - exists (f_sync hf). rewrite Q in Hfe. assert (f = hf) by congruence. subst f. repeat split; try exact Hle; try reflexivity.
    - exists f. repeat split; try assumption. apply (DH _ _ Hfe Q). }
  refine (conj HI' (conj _ (conj _ (conj _ (conj _ (conj _ (conj _ (conj _ _)))))))).
  - intros e He. rewrite Hr in He. destruct (Hcov e He) as (f & A & B & _). exists f. split; assumption.
  - intros id f Hg Hne. rewrite Hd in Hg. rewrite Hhd in Hne.
    destruct (N.eqb_spec id (t_head t)); [contradiction|]. apply (DH _ _ Hg Hne).
  - intros id f Hg. rewrite Hd in Hg. destruct (N.eqb_spec id (t_head t)).
    + injection Hg as <-. unfold f_sync, flen. cbn [fdur fbytes]. lia.
    + apply (DI _ _ Hg).
  - exists (f_sync hf). rewrite Hhd, Hd, N.eqb_refl. split; [reflexivity|exact Hsz].
  - intros e He. apply in_synced in He. rewrite Hr in He. destruct (Hcov e He) as (f & A & B & C).
    exists f. split; [exact A|]. rewrite C. exact B.
  - intros id Hid. change (t_tail t') with (t_tail t) in Hid. rewrite Hhd in Hid.
    destruct (DN id Hid) as [[g Hg] Hop]. split; [|exact Hop].
    unfold has. rewrite Hd. destruct (id =? t_head t); eauto.
  - intros id Hid. destruct (DO id Hid) as [g Hg]. unfold has. rewrite Hd. destruct (id =? t_head t); eauto.
  - exact DP.
Qed.

Lemma dinv_sync_index maxsz t : DInv maxsz t -> DInv maxsz (sync_index t).
Proof.
  intros (HI & DG & DH & DI & DJ & DL & DN & DO & DP).
  exact (conj (inv_sync_index maxsz t HI) (conj DG (conj DH (conj DI (conj DJ (conj DL (conj DN (conj DO DP)))))))).
Qed.

Lemma dinv_sync_head maxsz t t' : DInv maxsz t -> sync_head t = Ok t' -> DInv maxsz t'.
Proof.
  intros (HI & DG & DH & DI & DJ & DL & DN & DO & DP) E.
  assert (HI' : IdxInv maxsz t') by (unfold sync_head in E; eapply inv_core; [apply (core_data_upd _ _ _ _ E)|exact HI]).
  destruct DJ as [hf [Hf Hsz]].
  unfold sync_head, data_upd in E. rewrite Hf in E. inversion E; subst t'; clear E.
  set (t' := w_data _ _) in *.
  assert (Hd : forall id, dget id (t_data t') = if id =? t_head t then Some (f_sync hf) else dget id (t_data t)).
  { intros id. subst t'. cbn [w_data t_data]. apply dget_dset. }
  refine (conj HI' (conj _ (conj _ (conj _ (conj _ (conj _ (conj _ (conj _ _)))))))).
  - intros e He. change (rest_of t') with (rest_of t) in He. destruct (DG e He) as [f [Hfe Hle]]. rewrite Hd.
    destruct (N.eqb_spec (efile e) (t_head t)) as [Q|Q]; [|eauto].
    exists (f_sync hf). rewrite Q in Hfe. assert (f = hf) by congruence. subst f. split; [reflexivity|exact Hle].
  - intros id f Hg Hne. rewrite Hd in Hg. change (t_head t') with (t_head t) in Hne.
    destruct (N.eqb_spec id (t_head t)); [contradiction|]. apply (DH _ _ Hg Hne).
  - intros id f Hg. rewrite Hd in Hg. destruct (N.eqb_spec id (t_head t)).
    + injection Hg as <-. unfold f_sync, flen. cbn [fdur fbytes]. lia.
    + apply (DI _ _ Hg).
  - exists (f_sync hf). change (t_head t') with (t_head t). rewrite Hd, N.eqb_refl. split; [reflexivity|exact Hsz].
  - intros e He. change (synced_of t') with (synced_of t) in He. destruct (DL e He) as [f [Hfe Hle]]. rewrite Hd.
    destruct (N.eqb_spec (efile e) (t_head t)) as [Q|Q]; [|eauto].
    exists (f_sync hf). rewrite Q in Hfe. assert (f = hf) by congruence. subst f. split; [reflexivity|].
    pose proof (DI _ _ Hfe). cbn [f_sync fdur]. lia.
  - intros id Hid. change (t_tail t') with (t_tail t) in Hid. change (t_head t') with (t_head t) in Hid.
    destruct (DN id Hid) as [[g Hg] Hop]. split; [|exact Hop].
    unfold has. rewrite Hd. destruct (id =? t_head t); eauto.
  - intros id Hid. destruct (DO id Hid) as [g Hg]. unfold has. rewrite Hd. destruct (id =? t_head t); eauto.
  - exact DP.
Qed.

Lemma dget_filter (q : N -> bool) id l :
  dget id (filter (fun kf => q (fst kf)) l) = if q id then dget id l else None.
Proof.
  induction l as [|[k g] l IH]; [destruct (q id); reflexivity|]. cbn [filter fst dget].
  destruct (q k) eqn:Qk; cbn [dget].
  - destruct (N.eqb_spec k id) as [->|Ne]; [rewrite Qk; reflexivity|exact IH].
  - destruct (N.eqb_spec k id) as [->|Ne]; [rewrite Qk; rewrite Qk in IH; exact IH|exact IH].
Qed.

(* ---------- resetTo ---------- *)
Lemma dinv_reset_to maxsz t n t' :
  DInv maxsz t -> n < two32 -> t_head t + 1 < 65536 -> reset_to t n = Ok t' -> DInv maxsz t'.
Proof.
  intros HD Hn Hhd E.
  assert (HI' : IdxInvC maxsz (core t')) by (eapply inv_reset_to; eauto).
  unfold reset_to in E. destruct (do_sync t) as [t1|] eqn:E1; [|discriminate].
  pose proof (dinv_do_sync _ _ _ HD E1) as (HI1 & DG & DH & DI & DJ & DL & DN & DO & DP).
  assert (Hh1 : t_head t1 = t_head t).
  { pose proof (do_sync_core _ _ E1) as C. unfold core in C. inversion C. reflexivity. }
  cbv zeta in E. rewrite Hh1 in E.
  assert (Hm : (t_head t + 1) mod two32 = t_head t + 1) by (apply N.mod_small; unfold two32; lia).
  rewrite Hm in E. set (nh := t_head t + 1) in *.
  set (t4 := set_flush (set_vtail (w_index t1 (f_synced (enc_entry (mkE nh (n mod two32))))) n true) 6) in E.
  assert (Hnot : existsb (N.eqb nh) (t_open t4) = false).
  { destruct (existsb (N.eqb nh) (t_open t4)) eqn:Ex; [|reflexivity].
    apply existsb_eqb_In in Ex. change (t_open t4) with (t_open t1) in Ex. apply DP in Ex. subst nh. lia. }
  unfold open_trunc in E. rewrite Hnot in E. inversion E; subst t'; clear E.
  set (t' := w_counters _ _ _ _ _ _ _) in *.
  assert (Hd : forall id, dget id (t_data t') =
                 if negb (existsb (N.eqb id) (filter (fun k => k <? nh) (nh :: t_open t1)))
                 then (if id =? nh then Some f_empty else dget id (t_data t1)) else None).
  { intros id. subst t'. unfold release_before, release_where.
    cbn [w_counters w_data w_open t_data t_open].
    rewrite (dget_filter (fun k => negb (existsb (N.eqb k) (filter (fun k0 => k0 <? nh) (nh :: t_open t1))))).
    match goal with |- (if ?c then _ else _) = _ => destruct c end; [|reflexivity]. change (t_data t4) with (t_data t1). apply dget_dset. }
  assert (Hnh : dget nh (t_data t') = Some f_empty).
  { assert (Hg0 : existsb (N.eqb nh) (filter (fun k => k <? nh) (nh :: t_open t1)) = false).
    { match goal with |- ?X = false => destruct X eqn:Ex0; [|reflexivity] end.
      apply existsb_eqb_In in Ex0. apply filter_In in Ex0. destruct Ex0 as [_ Ex0]. rewrite N.ltb_irrefl in Ex0. discriminate. }
    rewrite Hd, Hg0, N.eqb_refl. reflexivity. }
  assert (Hop : forall id, In id (t_open t') <-> id = nh).
  { intros id. subst t'. unfold release_before, release_where. cbn [w_counters w_data w_open t_open].
    rewrite N.ltb_irrefl. cbn [negb In]. rewrite filter_In. split.
    - intros [<-|[Hi Hp]]; [reflexivity|]. apply DP in Hi.
      apply negb_true_iff, N.ltb_ge in Hp. subst nh. lia.
    - intros ->. left. reflexivity. }
  assert (Hr : rest_of t' = []) by reflexivity.
  refine (conj HI' (conj _ (conj _ (conj _ (conj _ (conj _ (conj _ (conj _ _)))))))).
  - intros e He. rewrite Hr in He. destruct He.
  - intros id f Hg Hne. change (t_head t') with nh in Hne. rewrite Hd in Hg.
    match type of Hg with (if ?c then _ else _) = _ => destruct c end; [|discriminate]. destruct (N.eqb_spec id nh); [contradiction|].
    destruct (N.eq_dec id (t_head t1)) as [->|Ne].
    + destruct DJ as [hf [Hf _]]. pose proof (DI _ _ Hg).
      (* the old head was fsync'ed by doSync *)
      pose proof E1 as E1'. unfold do_sync, sync_head, data_upd in E1'. cbn [sync_index w_index t_head t_data] in E1'.
      destruct (dget (t_head t) (t_data t)) as [h0|]; [|discriminate]. inversion E1'; subst t1.
      cbn [set_flush meta_write w_meta w_data t_data t_head sync_index w_index] in Hg. rewrite dget_dset_same in Hg.
      injection Hg as <-. reflexivity.
    + apply (DH _ _ Hg Ne).
  - intros id f Hg. rewrite Hd in Hg. match type of Hg with (if ?c then _ else _) = _ => destruct c end; [|discriminate].
    destruct (N.eqb_spec id nh); [injection Hg as <-; cbn; lia | apply (DI _ _ Hg)].
  - exists f_empty. change (t_head t') with nh. split; [exact Hnh|reflexivity].
  - intros e He. apply in_synced in He. rewrite Hr in He. destruct He.
  - intros id Hid. change (t_tail t') with nh in Hid. change (t_head t') with nh in Hid.
    assert (id = nh) by lia. subst id. split; [exists f_empty; exact Hnh | apply Hop; reflexivity].
  - intros id Hid. apply Hop in Hid. subst id. exists f_empty. exact Hnh.
  - intros id Hid. apply Hop in Hid. subst id. change (t_head t') with nh. lia.
Qed.

(* ---------- entries of cut / shifted index bytes ---------- *)
Lemma entries_of_firstn n : forall b, entries_of (firstn (6 * n) b) = firstn n (entries_of b).
Proof.
  induction n as [|n IH]; intros b; [reflexivity|].
  replace (6 * S n)%nat with (6 + 6 * n)%nat by lia.
  destruct b as [|x1 [|x2 [|x3 [|x4 [|x5 [|x6 r]]]]]]; try reflexivity.
  cbn [plus firstn entries_of]. rewrite IH. reflexivity.
Qed.

Lemma entries_of_skipn n : forall b, entries_of (skipn (6 * n) b) = skipn n (entries_of b).
Proof.
  induction n as [|n IH]; intros b; [reflexivity|].
  replace (6 * S n)%nat with (6 + 6 * n)%nat by lia.
  destruct b as [|x1 [|x2 [|x3 [|x4 [|x5 [|x6 r]]]]]]; try (cbn [plus skipn entries_of]; rewrite ?skipn_nil; reflexivity).
  cbn [plus skipn entries_of]. apply IH.
Qed.

Lemma entries_of_cons6 e X : tl (entries_of (enc_entry e ++ X)) = entries_of X.
Proof. unfold enc_entry. cbn [app entries_of tl]. reflexivity. Qed.

Lemma tl_skipn_S {A} n : forall (l : list A), tl (skipn n l) = skipn (S n) l.
Proof.
  induction n as [|n IH]; intros l; [destruct l; reflexivity|].
  destruct l as [|a l]; [reflexivity|]. cbn [skipn]. rewrite IH. reflexivity.
Qed.
Lemma tl_skipn {A} n (l : list A) : tl (skipn n l) = skipn n (tl l).
Proof. rewrite tl_skipn_S. destruct l as [|a l]; [cbn [tl]; rewrite !skipn_nil; reflexivity|reflexivity]. Qed.

Lemma tl_firstn {A} n (l : list A) : tl (firstn (S n) l) = firstn n (tl l).
Proof. destruct l as [|a l]; [destruct n; reflexivity|reflexivity]. Qed.

Lemma in_skipn {A} n (l : list A) x : In x (skipn n l) -> In x l.
Proof. intros H. rewrite <- (firstn_skipn n l). apply in_or_app. right. exact H. Qed.
Lemma in_firstn {A} n (l : list A) x : In x (firstn n l) -> In x l.
Proof. intros H. rewrite <- (firstn_skipn n l). apply in_or_app. left. exact H. Qed.

(* the whole index is below the flush offset right after doSync *)
Lemma synced_all maxsz t : IdxInv maxsz t -> mflush (t_mcur t) = fsize (t_index t) -> synced_of t = rest_of t.
Proof.
  intros HI HF. pose proof HI as HI0. unfold IdxInv, core, IdxInvC in HI0. inv_destruct HI0.
  pose proof (rest_of_inv t rest Hb Hwf Ht Ho) as Hr. pose proof (idx_size _ _ _ _ Hb) as Hsz.
  unfold synced_of, nsynced. rewrite Hr, HF. unfold fsize. rewrite Hsz.
  replace (N.to_nat (N.of_nat (6 * S (length rest)) / 6) - 1)%nat with (length rest) by lia.
  apply firstn_all.
Qed.

Lemma inv_monotone maxsz t :
  IdxInv maxsz t -> t_tail t <= t_head t /\ forall e, In e (rest_of t) -> t_tail t <= efile e /\ efile e <= t_head t.
Proof.
  intros HI. pose proof HI as HI0. unfold IdxInv, core, IdxInvC in HI0. inv_destruct HI0.
  rewrite (rest_of_inv t rest Hb Hwf Ht Ho).
  destruct (index_files_monotone _ _ Hv) as [M1 M2]. cbn [efile] in M1, M2. rewrite <- Hh in M1, M2.
  split; [exact M1|exact M2].
Qed.

(* ---------- truncateTail ---------- *)
Lemma do_sync_data t t' :
  do_sync t = Ok t' -> forall id f, dget id (t_data t) = Some f -> exists f', dget id (t_data t') = Some f' /\ fbytes f' = fbytes f.
Proof.
  unfold do_sync, sync_head, data_upd. cbn [sync_index w_index t_head t_data].
  destruct (dget (t_head t) (t_data t)) as [hf|] eqn:Hf; [|discriminate]. intros E. inversion E; subst t'; clear E.
  intros id f Hg. cbn [set_flush meta_write w_meta w_data t_data]. rewrite dget_dset.
  destruct (N.eqb_spec id (t_head t)) as [->|Ne]; [|eauto]. exists (f_sync hf). split; [reflexivity|].
  assert (f = hf) by congruence. subst f. reflexivity.
Qed.

(* what truncateTail leaves of the entries and of their bytes; the first kept entry starts its data file *)
Definition kept_suffix (t t' : table) : Prop :=
  (rest_of t' = [] /\ t_headbytes t' = 0) \/
  (exists kd, rest_of t' = skipn kd (rest_of t) /\
     (forall e, In e (rest_of t') -> forall f, dget (efile e) (t_data t) = Some f ->
        exists f', dget (efile e) (t_data t') = Some f' /\ eoff e <= fsize f' /\
                   firstn (N.to_nat (eoff e)) (fbytes f') = firstn (N.to_nat (eoff e)) (fbytes f)) /\
     (match rest_of t' with [] => True | e :: _ => kd = O \/ (forall p, nth_error (rest_of t) (kd - 1) = Some p -> efile p <> efile e) end) /\
     ((rest_of t = [] -> t_headbytes t = 0) -> rest_of t' = [] -> t_headbytes t' = 0)).

Lemma kept_suffix_same maxsz t t' :
  DInv maxsz t -> rest_of t' = rest_of t -> t_headbytes t' = t_headbytes t ->
  (forall id, dget id (t_data t') = dget id (t_data t)) -> kept_suffix t t'.
Proof.
  intros (_ & DG & _) Hr Hhb Hd. right. exists O. split; [exact Hr|]. split; [|split].
  - intros e He f Hf. rewrite Hr in He. destruct (DG e He) as (g & Hg & Hle). assert (g = f) by congruence. subst g.
    exists f. rewrite Hd. repeat split; assumption.
  - destruct (rest_of t'); [exact I|left; reflexivity].
  - intros H0 Z. rewrite Hhb. apply H0. rewrite <- Hr. exact Z.
Qed.

Lemma dinv_truncate_tail_sfx maxsz t n t' :
  DInv maxsz t -> n < two32 -> t_head t + 1 < 65536 -> truncate_tail t n = Ok t' -> DInv maxsz t' /\ kept_suffix t t'.
Proof.
  intros HD Hn Hhd E.
  assert (HI' : IdxInv maxsz t') by (destruct HD as [HI _]; eapply inv_truncate_tail; eauto).
  unfold truncate_tail in E. cbv zeta in E.
  destruct (N.leb_spec n (t_hidden t)) as [L1|L1]; [inversion E; subst; split; [exact HD|apply (kept_suffix_same maxsz); auto]|].
  destruct (N.ltb_spec (t_items t) n) as [L2|L2].
  { split; [eapply dinv_reset_to; eauto|]. left. pose proof (reset_to_core _ _ _ E) as C. cbv zeta in C. unfold core in C.
    injection C as P1 P2 P3 P4 P5 P6 P7 P8 P9. split; [unfold rest_of; rewrite P7; reflexivity|exact P6]. }
  match type of E with (match ?X with _ => _ end) = _ => destruct X as [newtail|] eqn:EN end; [|discriminate].
  set (T2 := set_vtail (w_counters t (t_items t) (t_offset t) n (t_head t) (t_tail t) (t_headbytes t)) n false) in E.
  assert (HD2 : DInv maxsz T2).
  { destruct HD as (HI & DG & DH & DI & DJ & DL & DN & DO & DP).
    assert (HI2 : IdxInv maxsz T2).
    { pose proof HI as HI0. unfold IdxInv, core, IdxInvC in HI0. inv_destruct HI0.
      unfold IdxInv. apply (inv_set_hidden maxsz _ _ _ _ _ _ _ _ _ n) in HI; [exact HI|lia|lia]. }
    exact (conj HI2 (conj DG (conj DH (conj DI (conj DJ (conj DL (conj DN (conj DO DP)))))))). }
  change (t_tail T2) with (t_tail t) in E.
  destruct (N.eqb_spec (t_tail t) newtail) as [Q|Q]; [inversion E; subst; split; [exact HD2|apply (kept_suffix_same maxsz); auto]|].
  destruct (N.ltb_spec newtail (t_tail t)) as [Q2|Q2]; [discriminate|].
  destruct (do_sync T2) as [t3|] eqn:ES; [|discriminate].
  pose proof (dinv_do_sync _ _ _ HD2 ES) as (HI3 & DG & DH & DI & DJ & DL & DN & DO & DP).
  pose proof (do_sync_core _ _ ES) as C3.
  change (core t3 = (t_items t, t_offset t, n, t_head t, t_tail t, t_headbytes t, f_sync (t_index t),
                     mkMeta 2 n (fsize (t_index t)), mkMeta 2 n (fsize (t_index t)))) in C3.
  unfold core in C3. injection C3 as P1 P2 P3 P4 P5 P6 P7 P8 P9.
  assert (Hsall : synced_of t3 = rest_of t3).
  { apply (synced_all maxsz); [exact HI3|]. rewrite P8, P7. reflexivity. }
  destruct (tail_scan _ _ _ _ _ _) as [newdel|] eqn:ET; [|discriminate].
  match type of E with context [release_before ?X _ _] => set (T5 := X) in E end.
  destruct (_ <=? _); [discriminate|]. inversion E; subst t'; clear E.
  set (t' := set_flush _ _) in *.
  set (kd := N.to_nat (newdel - t_offset t3)).
  assert (Hr : rest_of t' = skipn kd (rest_of t3)).
  { unfold rest_of. subst t' T5. unfold release_before, release_where, set_flush, meta_write.
    cbn [w_meta w_data w_open w_counters w_index t_index f_synced fbytes].
    rewrite entries_of_cons6.
    replace (N.to_nat (6 * (newdel - t_offset t3 + 1))) with (6 * S kd)%nat by (subst kd; lia).
    rewrite entries_of_skipn. rewrite <- tl_skipn_S. apply tl_skipn. }
  assert (Hd : forall id, dget id (t_data t') =
                 if negb (existsb (N.eqb id) (filter (fun k => k <? newtail) (t_open t3))) then dget id (t_data t3) else None).
  { intros id. subst t' T5. unfold release_before, release_where, set_flush, meta_write.
    cbn [w_meta w_data w_open w_counters w_index t_data t_open].
    apply (dget_filter (fun k => negb (existsb (N.eqb k) (filter (fun k0 => k0 <? newtail) (t_open t3))))). }
  assert (Hkeep : forall id, newtail <= id -> dget id (t_data t') = dget id (t_data t3)).
  { intros id Hid. rewrite Hd.
    replace (existsb (N.eqb id) (filter (fun k => k <? newtail) (t_open t3))) with false; [reflexivity|].
    symmetry. match goal with |- ?X = false => destruct X eqn:Ex; [|reflexivity] end.
    apply existsb_eqb_In in Ex. apply filter_In in Ex. destruct Ex as [_ Ex]. apply N.ltb_lt in Ex. lia. }
  assert (Hsub : forall id f, dget id (t_data t') = Some f -> dget id (t_data t3) = Some f).
  { intros id f Hg. rewrite Hd in Hg. match type of Hg with (if ?c then _ else _) = _ => destruct c end; [exact Hg|discriminate]. }
  assert (Hop : forall id, In id (t_open t') <-> In id (t_open t3) /\ newtail <= id).
  { intros id. subst t' T5. unfold release_before, release_where, set_flush, meta_write.
    cbn [w_meta w_data w_open w_counters w_index t_open]. rewrite filter_In.
    split; intros [A B]; split; try exact A; [apply negb_true_iff, N.ltb_ge in B; exact B | apply negb_true_iff, N.ltb_ge; exact B]. }
  assert (Htl : t_tail t' = newtail) by reflexivity.
  assert (Hhd' : t_head t' = t_head t3) by reflexivity.
  assert (Hhb' : t_headbytes t' = t_headbytes t3) by reflexivity.
  destruct (inv_monotone _ _ HI') as [M1 M2]. rewrite Htl, Hhd' in M1. 
  split.
  2:{ right. exists kd.
      assert (Hr3 : rest_of t3 = rest_of t) by (unfold rest_of; rewrite P7; reflexivity).
      pose proof (proj1 HD) as HI. pose proof HI as HI0. unfold IdxInv, core, IdxInvC in HI0. inv_destruct HI0.
      pose proof (rest_of_inv t rest Hb Hwf Ht Ho) as Hrt. pose proof (idx_size _ _ _ _ Hb) as Hsz.
      (* the scan *)
      rewrite P7, P2 in ET. cbn [f_sync fbytes] in ET. rewrite Hb in ET.
      set (j := N.to_nat (n - t_offset t)).
      assert (Hj : n = t_offset t + N.of_nat j) by (subst j; lia).
      assert (Hwfh : forallb entry_wf (mkE (t_tail t) (t_offset t) :: rest) = true).
      { cbn [forallb]. unfold entry_wf at 1. cbn [efile eoff].
        replace (t_tail t <? 65536) with true by (symmetry; apply N.ltb_lt; exact Ht).
        replace (t_offset t <? two32) with true by (symmetry; apply N.ltb_lt; exact Ho). exact Hwf. }
      replace (n - 1) with (scan_cur (t_offset t) j) in ET by (unfold scan_cur, two64, two32 in *; lia).
      rewrite Hj in ET.
      assert (Hfuel : (j < S (S (flen (f_sync (t_index t)))))%nat).
      { unfold flen. cbn [f_sync fbytes]. rewrite Hb, concat_enc_length. cbn [length]. lia. }
      pose proof (tail_scan_spec (mkE (t_tail t) (t_offset t)) rest newtail j _ newdel Hwfh Q ltac:(cbn [eoff]; lia) Hfuel ET) as [[S1 S2] S3].
      cbn [eoff] in S1, S2, S3.
      assert (Hkd : kd = N.to_nat (newdel - t_offset t)) by (subst kd; rewrite P2; reflexivity).
      rewrite Hr, Hr3, Hrt.
      split; [reflexivity|]. split; [|split].
      - intros e He f Hf. assert (He' : In e (rest_of t')) by (rewrite Hr, Hr3, Hrt; exact He).
        destruct (M2 e He') as [Me _]. rewrite Htl in Me.
        destruct (do_sync_data _ _ ES (efile e) f Hf) as (f3 & Hf3 & Hb3).
        exists f3. rewrite Hkeep by exact Me. split; [exact Hf3|].
        assert (He3 : In e (rest_of t3)) by (rewrite Hr3, Hrt; eapply in_skipn; eauto).
        destruct (DG e He3) as (g & Hg & Hle). assert (g = f3) by congruence. subst g. split; [exact Hle|]. rewrite Hb3. reflexivity.
      - destruct (skipn kd rest) as [|e0 r0] eqn:Es; [exact I|].
        destruct (N.eq_dec newdel (t_offset t)) as [Z|Z]; [left; lia|right].
        intros p Hp.
        destruct (tail_scan_stop (mkE (t_tail t) (t_offset t)) rest newtail j _ newdel Hwfh Q ltac:(cbn [eoff]; lia) Hfuel ET ltac:(cbn [eoff]; lia)) as (e1 & He1 & Hne1).
        cbn [eoff] in He1. rewrite <- Hkd in He1. assert (p = e1) by congruence. subst p.
        (* the first kept entry lies in the new tail file *)
        assert (He0 : efile e0 = newtail).
        { apply skipn_hd in Es. destruct (N.ltb_spec newdel (t_offset t + N.of_nat j)) as [W|W].
          - destruct (S3 W) as (e2 & X1 & X2). rewrite <- Hkd in X1. congruence.
          - assert (kd = j) by lia. rewrite H in Es.
            destruct (N.eqb_spec (t_items t) n) as [Zi|Zi].
            + exfalso. assert ((j < length rest)%nat) by (apply nth_error_Some; congruence). lia.
            + rewrite Hb in EN. replace ((n - t_offset t + 1) * 6) with (6 * N.of_nat (S j)) in EN by lia.
              rewrite read6_enc in EN by exact Hwfh. cbn [nth_error] in EN. rewrite Es in EN. inversion EN. reflexivity. }
        rewrite He0. exact Hne1.
      - intros _ Z. exfalso.
        (* nothing left would mean the scan stopped at the head entry, which lies in the head = new tail file *)
        apply (f_equal (@length entry)) in Z. rewrite skipn_length in Z. cbn [length] in Z.
        assert (newdel = t_items t) by lia. assert (n = t_items t) by lia.
        destruct (N.eqb_spec (t_items t) n) as [Zi|Zi]; [|lia]. injection EN as Hnt.
        destruct (tail_scan_stop (mkE (t_tail t) (t_offset t)) rest newtail j _ newdel Hwfh Q ltac:(cbn [eoff]; lia) Hfuel ET ltac:(cbn [eoff]; lia)) as (e1 & He1 & Hne1).
        cbn [eoff] in He1. assert (Hl : (N.to_nat (newdel - t_offset t) - 1 = length rest - 1)%nat) by lia. rewrite Hl in He1.
        assert (Hrne : rest <> []) by (intros Zr; rewrite Zr in He1; destruct (0 - 1)%nat; discriminate).
        rewrite (nth_error_last rest (mkE (t_tail t) 0) Hrne) in He1. inversion He1; subst e1. apply Hne1. rewrite <- Hnt. symmetry. exact Hh. }
  refine (conj HI' (conj _ (conj _ (conj _ (conj _ (conj _ (conj _ (conj _ _)))))))).
  - intros e He. destruct (M2 e He) as [Me _]. rewrite Htl in Me. rewrite Hr in He. apply in_skipn in He.
    destruct (DG e He) as [f [Hf Hle]]. exists f. rewrite Hkeep by exact Me. split; assumption.
  - intros id f Hg Hne. rewrite Hhd' in Hne. apply (DH id f (Hsub _ _ Hg) Hne).
  - intros id f Hg. apply (DI id f (Hsub _ _ Hg)).
  - destruct DJ as [hf [Hf Hsz]]. exists hf. rewrite Hhd', Hhb', Hkeep by exact M1. split; assumption.
  - intros e He. apply in_synced in He. destruct (M2 e He) as [Me _]. rewrite Htl in Me. rewrite Hr in He. apply in_skipn in He.
    rewrite <- Hsall in He. destruct (DL e He) as [f [Hf Hle]]. exists f. rewrite Hkeep by exact Me. split; assumption.
  - intros id [Rlo Rhi]. rewrite Htl in Rlo. rewrite Hhd' in Rhi.
    destruct (DN id) as [[g Hg] Hopn]; [rewrite P5; lia|]. split.
    + exists g. rewrite Hkeep by exact Rlo. exact Hg.
    + apply Hop. split; assumption.
  - intros id Hid. apply Hop in Hid. destruct Hid as [Hi Hge]. destruct (DO id Hi) as [g Hg].
    exists g. rewrite Hkeep by exact Hge. exact Hg.
  - intros id Hid. apply Hop in Hid. rewrite Hhd'. apply DP. exact (proj1 Hid).
Qed.

Lemma dinv_truncate_tail maxsz t n t' :
  DInv maxsz t -> n < two32 -> t_head t + 1 < 65536 -> truncate_tail t n = Ok t' -> DInv maxsz t'.
Proof. intros HD Hn Hh E. exact (proj1 (dinv_truncate_tail_sfx maxsz t n t' HD Hn Hh E)). Qed.

Lemma inv_off_le_hb maxsz t :
  IdxInv maxsz t -> forall e, In e (rest_of t) -> efile e = t_head t -> eoff e <= t_headbytes t.
Proof.
  intros HI e He Ef. pose proof HI as HI0. unfold IdxInv, core, IdxInvC in HI0. inv_destruct HI0.
  rewrite (rest_of_inv t rest Hb Hwf Ht Ho) in He.
  assert (Hne : rest <> []) by (intros Z; rewrite Z in He; destruct He).
  rewrite (Hhb Hne).
  rewrite (last_default rest (mkE (t_tail t) 0) (mkE (efile (mkE (t_tail t) (t_offset t))) 0)) by exact Hne.
  apply (index_off_le_last _ _ Hv e He).
  rewrite <- (last_default rest (mkE (t_tail t) 0)) by exact Hne. rewrite <- Hh. exact Ef.
Qed.

Lemma in_firstn_le {A} a b (l : list A) x : (a <= b)%nat -> In x (firstn a l) -> In x (firstn b l).
Proof.
  intros Hab H. replace a with (Nat.min a b) in H by lia. rewrite <- firstn_firstn in H. eapply in_firstn; eauto.
Qed.

Lemma f_trunc_size f n : fsize (f_trunc f n) = n.
Proof.
  unfold f_trunc, fsize, flen. cbn [fbytes]. rewrite app_length, firstn_length, repeat_length. unfold flen. lia.
Qed.

(* ---------- truncateHead ---------- *)
Lemma trunc_read_in maxsz t n ex :
  IdxInv maxsz t -> t_hidden t <= n -> n < t_items t -> n - t_offset t <> 0 ->
  read6 (fbytes (f_trunc (t_index t) ((n - t_offset t + 1) * 6))) ((n - t_offset t) * 6) = Some ex ->
  In ex (rest_of t).
Proof.
  intros HI L2 L1 Hz E. pose proof HI as HI0. unfold IdxInv, core, IdxInvC in HI0. inv_destruct HI0.
  rewrite (rest_of_inv t rest Hb Hwf Ht Ho).
  set (len := n - t_offset t) in *. set (k := N.to_nat len).
  assert (Hk : (k <= length rest)%nat) by (subst k len; lia).
  pose proof (idx_size _ _ _ _ Hb) as Hsz.
  assert (Hbytes : fbytes (f_trunc (t_index t) ((len + 1) * 6))
                   = concat (map enc_entry (mkE (t_tail t) (t_offset t) :: firstn k rest))).
  { unfold f_trunc. cbn [fbytes]. replace (N.to_nat ((len + 1) * 6)) with (6 * S k)%nat by lia.
    rewrite Hsz. replace (6 * S k - 6 * S (length rest))%nat with 0%nat by lia. cbn [repeat].
    rewrite app_nil_r. rewrite Hb, firstn_concat_enc. reflexivity. }
  rewrite Hbytes in E. replace (len * 6) with (6 * N.of_nat k) in E by lia.
  assert (Hk0 : (0 < k)%nat) by (subst k; lia).
  rewrite read6_enc in E.
  - destruct k as [|k0]; [lia|]. cbn [nth_error] in E. apply nth_error_In in E. eapply in_firstn; eauto.
  - cbn [forallb]. unfold entry_wf at 1. cbn [efile eoff].
    replace (t_tail t <? 65536) with true by (symmetry; apply N.ltb_lt; exact Ht).
    replace (t_offset t <? two32) with true by (symmetry; apply N.ltb_lt; exact Ho).
    cbn. apply forallb_firstn. exact Hwf.
Qed.

Lemma rest_of_trunc maxsz t n :
  IdxInv maxsz t -> n < t_items t -> t_offset t <= n ->
  tl (entries_of (fbytes (f_trunc (t_index t) ((n - t_offset t + 1) * 6)))) = firstn (N.to_nat (n - t_offset t)) (rest_of t).
Proof.
  intros HI L1 L0. pose proof HI as HI0. unfold IdxInv, core, IdxInvC in HI0. inv_destruct HI0.
  pose proof (idx_size _ _ _ _ Hb) as Hsz. set (k := N.to_nat (n - t_offset t)).
  unfold f_trunc. cbn [fbytes]. replace (N.to_nat ((n - t_offset t + 1) * 6)) with (6 * S k)%nat by (subst k; lia).
  rewrite Hsz. replace (6 * S k - 6 * S (length rest))%nat with 0%nat by (subst k; lia). cbn [repeat]. rewrite app_nil_r.
  rewrite entries_of_firstn. unfold rest_of. apply tl_firstn.
Qed.


(* what truncateHead leaves of the entries and of their bytes *)
Definition kept_prefix (t t' : table) : Prop :=
  (rest_of t' = [] /\ t_headbytes t' = 0) \/
  (exists k, rest_of t' = firstn k (rest_of t) /\
     (forall e, In e (rest_of t') -> forall f, dget (efile e) (t_data t) = Some f ->
        exists f', dget (efile e) (t_data t') = Some f' /\ eoff e <= fsize f' /\
                   firstn (N.to_nat (eoff e)) (fbytes f') = firstn (N.to_nat (eoff e)) (fbytes f)) /\
     ((rest_of t = [] -> t_headbytes t = 0) -> rest_of t' = [] -> t_headbytes t' = 0)).

Lemma dinv_truncate_head_hd maxsz t n t' :
  DInv maxsz t -> n < two32 -> t_head t + 1 < 65536 -> truncate_head t n = Ok t' ->
  DInv maxsz t' /\ t_head t' <= t_head t + 1 /\ kept_prefix t t'.
Proof.
  intros HD Hn Hhd E.
  assert (HI' : IdxInv maxsz t') by (destruct HD as [HI _]; eapply inv_truncate_head; eauto).
  unfold truncate_head in E. cbv zeta in E.
  destruct (N.leb_spec (t_items t) n) as [L1|L1].
  { inversion E; subst. split; [exact HD|]. split; [lia|]. right. exists (length (rest_of t')). split; [symmetry; apply firstn_all|].
    split; [|auto]. intros e He f Hf. exists f. destruct HD as (_ & DG & _). destruct (DG e He) as (g & Hg & Hle).
    assert (g = f) by congruence. subst g. repeat split; assumption. }
  destruct (N.ltb_spec n (t_hidden t)) as [L2|L2].
  { destruct (t_items t =? t_hidden t); [|discriminate]. split; [eapply dinv_reset_to; eauto|].
    pose proof (reset_to_core _ _ _ E) as C. cbv zeta in C. unfold core in C. injection C as P1 P2 P3 P4 P5 P6 P7 P8 P9.
    split; [rewrite P4; rewrite N.mod_small by (unfold two32; lia); lia|].
    left. split; [unfold rest_of; rewrite P7; reflexivity|exact P6]. }
  destruct HD as (HI & DG & DH & DI & DJ & DL & DN & DO & DP).
  destruct (inv_counters _ _ HI) as [_ Hhi0].
  assert (L0 : t_offset t <= n).
  { pose proof HI as HI0. unfold IdxInv, core, IdxInvC in HI0. inv_destruct HI0. lia. }
  set (len := n - t_offset t) in *. set (newoff := (len + 1) * 6) in *.
  set (T1 := sync_index (w_index t (f_trunc (t_index t) newoff))) in E.
  set (T2 := if newoff <? mflush (t_mcur T1) then set_flush T1 newoff else T1) in E.
  assert (D2 : t_data T2 = t_data t /\ t_open T2 = t_open t /\ t_head T2 = t_head t /\ t_tail T2 = t_tail t /\
               mflush (t_mcur T2) <= mflush (t_mcur t) /\ fbytes (t_index T2) = fbytes (f_trunc (t_index t) newoff)).
  { subst T2 T1. cbn [sync_index w_index t_mcur]. destruct (N.ltb_spec newoff (mflush (t_mcur t))); cbn; repeat split; lia. }
  destruct D2 as (D2a & D2b & D2c & D2d & D2e & D2f).
  match type of E with (match ?X with _ => _ end) = _ => destruct X as [ex|] eqn:EX end; [|discriminate].
  set (exf := efile ex) in *.
  destruct (inv_monotone _ _ HI) as [Mt Mr].
  assert (Hexf : t_tail t <= exf <= t_head t).
  { destruct (N.eqb_spec len 0) as [Z|Z].
    - inversion EX; subst ex. subst exf. cbn [efile]. rewrite D2d. lia.
    - rewrite D2f in EX. destruct (read6 _ _) as [e0|] eqn:ER; [|discriminate]. inversion EX; subst e0.
      pose proof (trunc_read_in maxsz t n ex HI L2 L1 Z ER) as Hin. destruct (Mr ex Hin). subst exf. lia. }
  destruct (DN exf Hexf) as [[fx Hfx] Hopx].
  match type of E with context [data_upd ?X _ _] => set (T3 := X) in E end.
  assert (F3 : t_head T3 = exf /\ t_tail T3 = t_tail t /\
               (forall id, id <= exf -> dget id (t_data T3) = dget id (t_data t)) /\
               (forall id f, dget id (t_data T3) = Some f -> dget id (t_data t) = Some f) /\
               (forall id, exf < id -> In id (t_open t) -> dget id (t_data T3) = None) /\
               (forall id, In id (t_open T3) <-> In id (t_open t) /\ id <= exf) /\
               mflush (t_mcur T3) = mflush (t_mcur T2) /\ fbytes (t_index T3) = fbytes (t_index T2)).
  { subst T3. destruct (N.eqb_spec exf (t_head T2)) as [Q|Q].
    - rewrite D2c in Q. rewrite D2a, D2b, D2c, D2d.
      refine (conj (eq_sym Q) (conj eq_refl (conj (fun _ _ => eq_refl) (conj (fun _ _ H => H) (conj _ (conj _ (conj eq_refl eq_refl))))))).
      + intros id Hlt Hin. apply DP in Hin. lia.
      + intros id. split; [intros Hin; split; [exact Hin|]; apply DP in Hin; lia | intros [Hin _]; exact Hin].
    - set (Ta := release_file T2 exf). set (Tb := open_append Ta exf).
      assert (Hoa : forall id, In id (t_open Ta) <-> In id (t_open t) /\ id <> exf).
      { intros id. subst Ta. unfold release_file. cbn [w_open t_open]. rewrite filter_In, D2b.
        split; intros [A B]; split; try exact A; [apply negb_true_iff, N.eqb_neq in B; exact B | apply negb_true_iff, N.eqb_neq; exact B]. }
      assert (Hnb : existsb (N.eqb exf) (t_open Ta) = false).
      { match goal with |- ?X = false => destruct X eqn:Ex; [|reflexivity] end.
        apply existsb_eqb_In in Ex. apply Hoa in Ex. destruct Ex. congruence. }
      assert (Hb : t_data Tb = t_data t /\ forall id, In id (t_open Tb) <-> In id (t_open t)).
      { subst Tb. unfold open_append. rewrite Hnb. change (t_data Ta) with (t_data T2). rewrite D2a, Hfx.
        cbn [w_open t_data t_open]. split; [exact D2a|]. intros id. cbn [In]. rewrite Hoa. split.
        - intros [<-|[A _]]; assumption.
        - intros A. destruct (N.eq_dec exf id) as [->|Ne]; [left; reflexivity|right; split; [exact A|congruence]]. }
      destruct Hb as [Hbd Hbo].
      assert (Cc : core (release_after Tb exf true) = core T2).
      { unfold release_after. rewrite core_release_where. subst Tb Ta. rewrite core_open_append, core_release_file. reflexivity. }
      apply core_proj in Cc. destruct Cc as (_ & _ & _ & _ & C5 & _ & C7 & C8 & _).
      cbn [w_counters t_head t_tail t_data t_open t_mcur t_index].
      assert (Hdc : forall id, dget id (t_data (release_after Tb exf true)) =
                      if negb (existsb (N.eqb id) (filter (fun k => exf <? k) (t_open Tb))) then dget id (t_data t) else None).
      { intros id. unfold release_after, release_where. cbn [w_data w_open t_data]. rewrite Hbd.
        apply (dget_filter (fun k => negb (existsb (N.eqb k) (filter (fun k0 => exf <? k0) (t_open Tb))))). }
      rewrite C5, C7, C8, D2d.
      refine (conj eq_refl (conj eq_refl (conj _ (conj _ (conj _ (conj _ (conj eq_refl eq_refl))))))).
      + intros id Hle. rewrite Hdc.
        replace (existsb (N.eqb id) (filter (fun k => exf <? k) (t_open Tb))) with false; [reflexivity|].
        symmetry. match goal with |- ?X = false => destruct X eqn:Ex; [|reflexivity] end.
        apply existsb_eqb_In in Ex. apply filter_In in Ex. destruct Ex as [_ Ex]. apply N.ltb_lt in Ex. lia.
      + intros id f Hg. rewrite Hdc in Hg. match type of Hg with (if ?c then _ else _) = _ => destruct c end; [exact Hg|discriminate].
      + intros id Hlt Hin. rewrite Hdc.
        replace (existsb (N.eqb id) (filter (fun k => exf <? k) (t_open Tb))) with true; [reflexivity|].
        symmetry. apply existsb_eqb_In. apply filter_In. split; [apply Hbo; exact Hin | apply N.ltb_lt; exact Hlt].
      + intros id. unfold release_after, release_where. cbn [w_data w_open t_open]. rewrite filter_In. split; intros [A B].
        * split; [apply Hbo; exact A | apply negb_true_iff, N.ltb_ge in B; exact B].
        * split; [apply Hbo; exact A | apply negb_true_iff, N.ltb_ge; exact B]. }
  destruct F3 as (F3a & F3t & F3b & F3c & F3d & F3e & F3m & F3i).
  rewrite F3a in E. unfold data_upd in E. rewrite (F3b exf (N.le_refl _)), Hfx in E.
  inversion E; subst t'; clear E.
  set (nf := f_sync (f_trunc fx (eoff ex))) in *.
  set (t4 := w_data T3 (dset exf nf (t_data T3))) in *.
  set (t' := w_counters t4 _ _ _ _ _ _) in *.
  assert (Hd : forall id, dget id (t_data t') = if id =? exf then Some nf else dget id (t_data T3)).
  { intros id. subst t' t4. cbn [w_counters w_data t_data]. apply dget_dset. }
  assert (Hhd' : t_head t' = exf) by (subst t' t4; cbn [w_counters w_data t_head]; exact F3a).
  assert (Htl' : t_tail t' = t_tail t) by (subst t' t4; cbn [w_counters w_data t_tail]; exact F3t).
  assert (Hhb' : t_headbytes t' = eoff ex) by reflexivity.
  assert (Hop' : forall id, In id (t_open t') <-> In id (t_open t) /\ id <= exf) by (intros id; subst t' t4; cbn [w_counters w_data t_open]; apply F3e).
  assert (Hr : rest_of t' = firstn (N.to_nat len) (rest_of t)).
  { unfold rest_of at 1. subst t' t4. cbn [w_counters w_data t_index]. rewrite F3i, D2f. apply (rest_of_trunc maxsz); assumption. }
  assert (Hnf : fsize nf = eoff ex /\ fdur nf = flen nf).
  { subst nf. split; [change (fsize (f_sync (f_trunc fx (eoff ex)))) with (fsize (f_trunc fx (eoff ex))); apply f_trunc_size|reflexivity]. }
  destruct Hnf as [Hnf1 Hnf2].
  destruct (inv_monotone _ _ HI') as [_ Mr'].
  assert (Hsy : forall e, In e (synced_of t') -> In e (synced_of t)).
  { intros e He. unfold synced_of in *. rewrite Hr in He. rewrite firstn_firstn in He.
    eapply in_firstn_le; [|exact He].
    assert (mflush (t_mcur t') <= mflush (t_mcur t)) by (subst t' t4; cbn [w_counters w_data t_mcur]; rewrite F3m; exact D2e).
    unfold nsynced. lia. }
  split; [|split; [rewrite Hhd'; lia|]].
  2:{ right. exists (N.to_nat len). split; [exact Hr|]. split.
      - intros e He f Hf. destruct (Mr' e He) as [_ Me]. rewrite Hhd' in Me. rewrite Hd.
        pose proof He as He0. rewrite Hr in He0. apply in_firstn in He0. destruct (DG e He0) as (g & Hg & Hle). assert (g = f) by congruence. subst g.
        destruct (N.eqb_spec (efile e) exf) as [Q|Q].
        + exists nf. split; [reflexivity|]. assert (Hee : eoff e <= eoff ex) by (rewrite <- Hhb'; apply (inv_off_le_hb maxsz t' HI' e He); rewrite Hhd'; exact Q).
          split; [rewrite Hnf1; exact Hee|]. rewrite Q, Hfx in Hf. injection Hf as <-.
          subst nf. unfold f_sync, f_trunc. cbn [fbytes]. unfold fsize, flen in Hle. rewrite firstn_app.
          rewrite firstn_firstn. replace (Nat.min (N.to_nat (eoff e)) (N.to_nat (eoff ex))) with (N.to_nat (eoff e)) by lia.
          replace (N.to_nat (eoff e) - length (firstn (N.to_nat (eoff ex)) (fbytes fx)))%nat with 0%nat by (rewrite firstn_length; lia).
          cbn [firstn]. apply app_nil_r.
        + exists f. rewrite F3b by exact Me. repeat split; assumption.
      - intros _ Z. rewrite Hhb'. rewrite Hr in Z.
        destruct (N.eqb_spec len 0) as [Z0|Z0]; [inversion EX; reflexivity|].
        exfalso. pose proof HI as HI0. unfold IdxInv, core, IdxInvC in HI0. inv_destruct HI0.
        rewrite (rest_of_inv t rest Hb Hwf Ht Ho) in Z. apply (f_equal (@length entry)) in Z. rewrite firstn_length in Z. cbn [length] in Z. lia. }
  refine (conj HI' (conj _ (conj _ (conj _ (conj _ (conj _ (conj _ (conj _ _)))))))).
  - intros e He. destruct (Mr' e He) as [_ Me]. rewrite Hhd' in Me.
    pose proof He as He0. rewrite Hr in He0. apply in_firstn in He0. destruct (DG e He0) as [f [Hf Hle]].
    rewrite Hd. destruct (N.eqb_spec (efile e) exf) as [Q|Q].
    + exists nf. split; [reflexivity|]. rewrite Hnf1, <- Hhb'. apply (inv_off_le_hb maxsz t' HI' e He). rewrite Hhd'. exact Q.
    + exists f. rewrite F3b by exact Me. split; assumption.
  - intros id f Hg Hne. rewrite Hhd' in Hne. rewrite Hd in Hg. destruct (N.eqb_spec id exf); [contradiction|].
    pose proof (F3c _ _ Hg) as Hg0. destruct (N.eq_dec id (t_head t)) as [->|Ne]; [|apply (DH _ _ Hg0 Ne)].
    exfalso. assert (exf < t_head t) by lia. destruct (DN (t_head t) ltac:(lia)) as [_ Hoh].
    rewrite (F3d _ H Hoh) in Hg. discriminate.
  - intros id f Hg. rewrite Hd in Hg. destruct (N.eqb_spec id exf); [injection Hg as <-; lia | apply (DI _ _ (F3c _ _ Hg))].
  - exists nf. rewrite Hhd', Hhb', Hd, N.eqb_refl. split; [reflexivity|exact Hnf1].
  - intros e He. pose proof (in_synced _ _ He) as He1. destruct (Mr' e He1) as [_ Me]. rewrite Hhd' in Me.
    destruct (DL e (Hsy e He)) as [f [Hf Hle]]. rewrite Hd. destruct (N.eqb_spec (efile e) exf) as [Q|Q].
    + exists nf. split; [reflexivity|]. rewrite Hnf2. change (N.of_nat (flen nf)) with (fsize nf). rewrite Hnf1, <- Hhb'.
      apply (inv_off_le_hb maxsz t' HI' e He1). rewrite Hhd'. exact Q.
    + exists f. rewrite F3b by exact Me. split; assumption.
  - intros id [Rlo Rhi]. rewrite Htl' in Rlo. rewrite Hhd' in Rhi. destruct (DN id ltac:(lia)) as [[g Hg] Hoi]. split.
    + unfold has. rewrite Hd. destruct (N.eqb_spec id exf); [eauto|]. rewrite F3b by exact Rhi. eauto.
    + apply Hop'. split; assumption.
  - intros id Hid. apply Hop' in Hid. destruct Hid as [Hi Hle]. destruct (DO id Hi) as [g Hg].
    unfold has. rewrite Hd. destruct (N.eqb_spec id exf); [eauto|]. rewrite F3b by exact Hle. eauto.
  - intros id Hid. apply Hop' in Hid. rewrite Hhd'. exact (proj2 Hid).
Qed.

Lemma dinv_truncate_head maxsz t n t' :
  DInv maxsz t -> n < two32 -> t_head t + 1 < 65536 -> truncate_head t n = Ok t' -> DInv maxsz t'.
Proof. intros HD Hn Hh E. exact (proj1 (dinv_truncate_head_hd maxsz t n t' HD Hn Hh E)). Qed.

(* ---------- append batches ---------- *)
Lemma file_eta f : mkFile (fbytes f) (fdur f) = f.
Proof. destruct f; reflexivity. Qed.

Lemma f_write_write f a b : f_write (f_write f a) b = f_write f (a ++ b).
Proof. unfold f_write. cbn [fbytes fdur]. rewrite app_assoc. reflexivity. Qed.

Lemma dset_dset id x y l : dset id x (dset id y l) = dset id x l.
Proof.
  induction l as [|[k g] l IH]; cbn [dset].
  - rewrite N.eqb_refl. reflexivity.
  - destruct (N.eqb_spec k id) as [->|Ne].
    + cbn [dset]. rewrite N.eqb_refl. reflexivity.
    + destruct (N.ltb_spec id k) as [L|L]; cbn [dset].
      * rewrite N.eqb_refl. reflexivity.
      * destruct (N.eqb_spec k id); [contradiction|]. destruct (N.ltb_spec id k); [lia|]. rewrite IH. reflexivity.
Qed.

Lemma entries_of_app b : forall c, (length b mod 6 = 0)%nat -> entries_of (b ++ c) = entries_of b ++ entries_of c.
Proof.
  remember (length b) as n eqn:Hn. revert b Hn. induction n as [n IH] using lt_wf_ind. intros b Hn c Hm.
  destruct b as [|x1 [|x2 [|x3 [|x4 [|x5 [|x6 r]]]]]]; try reflexivity;
    try (cbn [length] in Hn; subst n; cbn in Hm; discriminate).
  cbn [app entries_of]. f_equal. cbn [length] in Hn. apply (IH (length r)); [lia|reflexivity|].
  subst n. replace (S (S (S (S (S (S (length r))))))) with (length r + 1 * 6)%nat in Hm by lia.
  rewrite Nat.mod_add in Hm by lia. exact Hm.
Qed.

(* committing a batch and then a second one = committing their concatenation *)
Lemma commit_commit t b t1 b1 d2 i2 c2 :
  commit t b = Ok (t1, b1) ->
  commit t1 (mkB d2 i2 c2) = commit t (mkB (b_data b ++ d2) (b_index b ++ i2) c2).
Proof.
  unfold commit, data_upd. destruct (dget (t_head t) (t_data t)) as [hf|] eqn:Hf; [|discriminate].
  intros E. inversion E; subst t1 b1; clear E.
  cbn [w_counters w_index w_data t_head t_data t_index t_offset t_hidden t_tail t_headbytes b_data b_index b_cur].
  rewrite dget_dset_same. unfold w_counters, w_index, w_data.
  cbn [t_items t_offset t_hidden t_head t_tail t_headbytes t_ver t_open t_index t_data t_mcur t_msyn b_data b_index b_cur].
  rewrite dset_dset, !f_write_write, app_length, Nat2N.inj_add, N.add_assoc. reflexivity.
Qed.

Lemma nsynced_le maxsz t : IdxInv maxsz t -> (nsynced t <= length (rest_of t))%nat /\ entries_of (fbytes (t_index t)) <> [] /\ (length (fbytes (t_index t)) mod 6 = 0)%nat.
Proof.
  intros HI. pose proof HI as HI0. unfold IdxInv, core, IdxInvC in HI0. inv_destruct HI0.
  pose proof (rest_of_inv t rest Hb Hwf Ht Ho) as Hr. pose proof (idx_size _ _ _ _ Hb) as Hsz.
  unfold nsynced. rewrite Hr. unfold flen in *. split; [lia|]. split.
  - unfold rest_of in Hr. rewrite Hb. cbn [map concat]. unfold enc_entry at 1. cbn [app entries_of]. discriminate.
  - rewrite Hsz. rewrite Nat.mul_comm. apply Nat.mod_mul. lia.
Qed.

Lemma entries_of_one e : entry_wf e = true -> entries_of (enc_entry e) = [e].
Proof.
  intros H. pose proof (entries_of_enc_app [e] [] ltac:(cbn [forallb]; rewrite H; reflexivity)) as P.
  cbn [map concat] in P. rewrite !app_nil_r in P. exact P.
Qed.

(* one more item in the current head file *)
Lemma dinv_commit_one maxsz t1 data e c t2 b2 :
  DInv maxsz t1 -> commit t1 (mkB data (enc_entry e) c) = Ok (t2, b2) -> IdxInv maxsz t2 ->
  entry_wf e = true -> efile e = t_head t1 -> eoff e = t_headbytes t1 + N.of_nat (length data) ->
  DInv maxsz t2.
Proof.
  intros (HI & DG & DH & DI & DJ & DL & DN & DO & DP) E HI2 Hwe Hef Heo.
  destruct DJ as [hf [Hf Hsz]].
  unfold commit, data_upd in E. rewrite Hf in E. cbn [b_data b_index b_cur] in E. inversion E; subst t2 b2; clear E.
  set (t2 := w_counters _ _ _ _ _ _ _) in *.
  assert (Hd : forall id, dget id (t_data t2) = if id =? t_head t1 then Some (f_write hf data) else dget id (t_data t1)).
  { intros id. subst t2. cbn [w_counters w_index w_data t_data]. apply dget_dset. }
  destruct (nsynced_le _ _ HI) as (Hns & Hne & Hm6).
  assert (Hr : rest_of t2 = rest_of t1 ++ [e]).
  { unfold rest_of. subst t2. cbn [w_counters w_index w_data t_index f_write fbytes].
    rewrite entries_of_app by exact Hm6. rewrite entries_of_one by exact Hwe.
    destruct (entries_of (fbytes (t_index t1))); [congruence|reflexivity]. }
  assert (Hsy : synced_of t2 = synced_of t1).
  { unfold synced_of. rewrite Hr. change (nsynced t2) with (nsynced t1). rewrite firstn_app.
    replace (nsynced t1 - length (rest_of t1))%nat with 0%nat by lia. cbn [firstn]. apply app_nil_r. }
  assert (Hnsz : fsize (f_write hf data) = eoff e).
  { unfold fsize, flen, f_write. cbn [fbytes]. rewrite app_length, Heo. unfold fsize, flen in Hsz. lia. }
  refine (conj HI2 (conj _ (conj _ (conj _ (conj _ (conj _ (conj _ (conj _ _)))))))).
  - intros x Hx. rewrite Hr in Hx. apply in_app_or in Hx. rewrite Hd. destruct Hx as [Hx|[<-|[]]].
    + destruct (DG x Hx) as [f [Hfx Hle]]. destruct (N.eqb_spec (efile x) (t_head t1)) as [Q|Q]; [|eauto].
      exists (f_write hf data). split; [reflexivity|]. rewrite Q in Hfx. assert (f = hf) by congruence. subst f.
      unfold fsize, flen, f_write in *. cbn [fbytes]. rewrite app_length. lia.
    + rewrite Hef, N.eqb_refl. exists (f_write hf data). split; [reflexivity|]. rewrite Hnsz. lia.
  - intros id f Hg Hne'. change (t_head t2) with (t_head t1) in Hne'. rewrite Hd in Hg.
    destruct (N.eqb_spec id (t_head t1)); [contradiction|]. apply (DH _ _ Hg Hne').
  - intros id f Hg. rewrite Hd in Hg. destruct (N.eqb_spec id (t_head t1)).
    + injection Hg as <-. pose proof (DI _ _ Hf). unfold f_write, flen in *. cbn [fdur fbytes]. rewrite app_length. lia.
    + apply (DI _ _ Hg).
  - exists (f_write hf data). change (t_head t2) with (t_head t1). rewrite Hd, N.eqb_refl. split; [reflexivity|].
    rewrite Hnsz, Heo. reflexivity.
  - intros x Hx. rewrite Hsy in Hx. destruct (DL x Hx) as [f [Hfx Hle]]. rewrite Hd.
    destruct (N.eqb_spec (efile x) (t_head t1)) as [Q|Q]; [|eauto].
    exists (f_write hf data). split; [reflexivity|]. rewrite Q in Hfx. assert (f = hf) by congruence. subst f. exact Hle.
  - intros id Hid. change (t_tail t2) with (t_tail t1) in Hid. change (t_head t2) with (t_head t1) in Hid.
    destruct (DN id Hid) as [[g Hg] Hop]. split; [|exact Hop]. unfold has. rewrite Hd. destruct (id =? t_head t1); eauto.
  - intros id Hid. destruct (DO id Hid) as [g Hg]. unfold has. rewrite Hd. destruct (id =? t_head t1); eauto.
  - exact DP.
Qed.

(* roll over to a new data file and put one item into it *)
Lemma dinv_advance_commit_one maxsz t1 t2 data e c t3 b3 :
  DInv maxsz t1 -> t_head t1 + 1 < 65536 -> advance_head t1 = Ok t2 ->
  commit t2 (mkB data (enc_entry e) c) = Ok (t3, b3) -> IdxInv maxsz t3 ->
  entry_wf e = true -> efile e = t_head t2 -> eoff e = N.of_nat (length data) ->
  DInv maxsz t3.
Proof.
  intros HD Hhd EA EC HI3 Hwe Hef Heo.
  unfold advance_head in EA. destruct (do_sync t1) as [ts|] eqn:ES; [|discriminate].
  pose proof (dinv_do_sync _ _ _ HD ES) as (HIs & DG & DH & DI & DJ & DL & DN & DO & DP).
  pose proof (do_sync_core _ _ ES) as Cs. unfold core in Cs. inversion Cs as [[P1 P2 P3 P4 P5 P6 P7 P8 P9]].
  assert (Hsall : synced_of ts = rest_of ts).
  { apply (synced_all maxsz); [exact HIs|]. rewrite P8, P7. reflexivity. }
  cbv zeta in EA. rewrite P4 in EA.
  assert (Hm : (t_head t1 + 1) mod two32 = t_head t1 + 1) by (apply N.mod_small; unfold two32; lia).
  rewrite Hm in EA. set (nx := t_head t1 + 1) in *.
  assert (Hnot : existsb (N.eqb nx) (t_open ts) = false).
  { match goal with |- ?X = false => destruct X eqn:Ex; [|reflexivity] end.
    apply existsb_eqb_In in Ex. apply DP in Ex. subst nx. lia. }
  unfold open_trunc in EA. rewrite Hnot in EA.
  destruct DJ as [hfs [Hfs Hszs]]. rewrite P4 in Hfs.
  unfold sync_head, data_upd in EA. cbn [w_open w_data t_head t_data] in EA. rewrite P4 in EA.
  rewrite dget_dset_other in EA by (subst nx; lia). rewrite Hfs in EA.
  inversion EA; subst t2; clear EA. cbn [w_counters t_head] in Hef.
  unfold commit, data_upd in EC. cbn [w_counters w_open w_data t_head t_data b_data b_index b_cur] in EC.
  rewrite dget_dset_other in EC by (subst nx; lia). rewrite dget_dset_same in EC.
  inversion EC; subst t3 b3; clear EC.
  set (t3 := w_counters _ _ _ _ _ _ _) in *.
  set (nf := f_write f_empty data) in *.
  assert (Hd : forall id, dget id (t_data t3) = if id =? nx then Some nf else if id =? t_head t1 then Some (f_sync hfs) else dget id (t_data ts)).
  { intros id. subst t3. cbn [w_counters w_index w_data w_open t_data]. rewrite !dget_dset.
    destruct (id =? nx); [reflexivity|]. destruct (id =? t_head t1); [reflexivity|]. destruct (N.eqb_spec id nx); reflexivity. }
  assert (Hop : forall id, In id (t_open t3) <-> id = nx \/ In id (t_open ts)).
  { intros id. subst t3. cbn [w_counters w_index w_data w_open t_open In]. split; intros [A|A]; auto. }
  assert (Hhd3 : t_head t3 = nx) by reflexivity.
  assert (Htl3 : t_tail t3 = t_tail ts) by reflexivity.
  destruct (nsynced_le _ _ HIs) as (Hns & Hne & Hm6).
  assert (Hr : rest_of t3 = rest_of ts ++ [e]).
  { unfold rest_of. subst t3. cbn [w_counters w_index w_data w_open t_index f_write fbytes].
    rewrite entries_of_app by exact Hm6. rewrite entries_of_one by exact Hwe.
    destruct (entries_of (fbytes (t_index ts))); [congruence|reflexivity]. }
  assert (Hsy : synced_of t3 = rest_of ts).
  { unfold synced_of. rewrite Hr. change (nsynced t3) with (nsynced ts).
    assert (nsynced ts = length (rest_of ts)).
    { unfold synced_of in Hsall. apply (f_equal (@length entry)) in Hsall. rewrite firstn_length in Hsall. lia. }
    rewrite H. rewrite firstn_app, Nat.sub_diag, firstn_all. cbn [firstn]. apply app_nil_r. }
  destruct (inv_monotone _ _ HIs) as [Mt Mr]. rewrite P4 in Mt, Mr.
  assert (Hold : forall x, In x (rest_of ts) -> exists f, dget (efile x) (t_data t3) = Some f /\ eoff x <= fsize f /\ eoff x <= N.of_nat (fdur f)).
  { intros x Hx. destruct (Mr x Hx) as [_ Mx]. rewrite <- Hsall in Hx. destruct (DL x Hx) as [f [Hf Hle]].
    pose proof (DI _ _ Hf) as Hw. rewrite Hd.
    destruct (N.eqb_spec (efile x) nx) as [Q|Q]; [subst nx; lia|].
    destruct (N.eqb_spec (efile x) (t_head t1)) as [Q1|Q1].
    - rewrite Q1, Hfs in Hf. injection Hf as <-. exists (f_sync hfs). split; [reflexivity|].
      change (fsize (f_sync hfs)) with (N.of_nat (flen hfs)). change (fdur (f_sync hfs)) with (flen hfs). split; lia.
    - exists f. split; [exact Hf|]. unfold fsize. split; lia. }
  assert (Hnf : fsize nf = N.of_nat (length data)) by (subst nf; reflexivity).
  refine (conj HI3 (conj _ (conj _ (conj _ (conj _ (conj _ (conj _ (conj _ _)))))))).
  - intros x Hx. rewrite Hr in Hx. apply in_app_or in Hx. destruct Hx as [Hx|[<-|[]]].
    + destruct (Hold x Hx) as (f & A & B & _). exists f. split; assumption.
    + rewrite Hef, Hd, N.eqb_refl. exists nf. split; [reflexivity|]. rewrite Hnf, Heo. lia.
  - intros id f Hg Hne'. rewrite Hhd3 in Hne'. rewrite Hd in Hg. destruct (N.eqb_spec id nx); [contradiction|].
    destruct (N.eqb_spec id (t_head t1)) as [Q|Q]; [injection Hg as <-; reflexivity|].
    apply (DH _ _ Hg). rewrite P4. exact Q.
  - intros id f Hg. rewrite Hd in Hg. destruct (N.eqb_spec id nx); [injection Hg as <-; cbn; lia|].
    destruct (N.eqb_spec id (t_head t1)); [injection Hg as <-; unfold f_sync, flen; cbn [fdur fbytes]; lia|apply (DI _ _ Hg)].
  - exists nf. rewrite Hhd3, Hd, N.eqb_refl. split; [reflexivity|]. rewrite Hnf. reflexivity.
  - intros x Hx. rewrite Hsy in Hx. destruct (Hold x Hx) as (f & A & _ & C). exists f. split; assumption.
  - intros id [Rlo Rhi]. rewrite Htl3 in Rlo. rewrite Hhd3 in Rhi.
    destruct (N.eq_dec id nx) as [->|Ne].
    + split; [exists nf; rewrite Hd, N.eqb_refl; reflexivity | apply Hop; left; reflexivity].
    + destruct (DN id) as [[g Hg] Hoi]; [rewrite P4; subst nx; lia|]. split; [|apply Hop; right; exact Hoi].
      unfold has. rewrite Hd. destruct (N.eqb_spec id nx); [contradiction|]. destruct (id =? t_head t1); eauto.
  - intros id Hid. apply Hop in Hid. unfold has. rewrite Hd. destruct Hid as [->|Hid]; [rewrite N.eqb_refl; eauto|].
    destruct (DO id Hid) as [g Hg]. destruct (id =? nx); [eauto|]. destruct (id =? t_head t1); eauto.
  - intros id Hid. apply Hop in Hid. rewrite Hhd3. destruct Hid as [->|Hid]; [lia|]. apply DP in Hid. rewrite P4 in Hid. subst nx. lia.
Qed.

Lemma commit_ok t b : has t (t_head t) -> exists tc, commit t b = Ok (tc, mkB [] [] (b_cur b)).
Proof. intros [f Hf]. unfold commit, data_upd. rewrite Hf. eauto. Qed.

Lemma advance_head_has t t' : FW t -> advance_head t = Ok t' -> has t' (t_head t').
Proof.
  intros HF. destruct (do_sync_ok t HF) as (t1 & E1 & [O1 H1] & _ & _).
  unfold advance_head. rewrite E1. cbv zeta.
  set (nx := (t_head t1 + 1) mod two32).
  destruct (od_open_trunc t1 nx O1) as (O2 & H2 & K2).
  destruct (sync_head (open_trunc t1 nx)) as [t3|] eqn:E3; [|discriminate].
  intros H. inversion H; subst t'; clear H. cbn [w_counters t_head].
  unfold sync_head in E3. destruct (od_data_upd _ _ _ _ E3 O2) as (_ & _ & K3 & _).
  eapply has_ext; [|apply K3; exact H2]. reflexivity.
Qed.


Definition BD (maxsz : N) (tb : table * batch) : Prop :=
  BInv maxsz tb /\ exists tc bc, commit (fst tb) (snd tb) = Ok (tc, bc) /\ DInv maxsz tc.

Lemma dinv_fw maxsz t : DInv maxsz t -> FW t.
Proof. intros (_ & _ & _ & _ & [hf [Hf _]] & _ & _ & DO & _). split; [exact DO|exists hf; exact Hf]. Qed.

Lemma bd_append_item maxsz encode t b blob t' b' :
  maxsz < two32 -> BD maxsz (t, b) ->
  N.of_nat (length (encode blob)) <= maxsz -> t_head t + 1 < 65536 -> b_cur b + 1 < two32 ->
  append_item maxsz encode (t, b) blob = Ok (t', b') -> BD maxsz (t', b').
Proof.
  intros Hmax [HB (tc & bc & ECm & HDc)] Hsz Hhd Hcur E. cbn [fst snd] in ECm.
  destruct (binv_append_item maxsz encode t b blob t' b' Hmax HB Hsz Hhd Hcur E) as (HB' & Hc' & Hh').
  split; [exact HB'|]. cbn [fst snd].
  pose proof HB as HB0. unfold BInv in HB0. cbn [fst snd] in HB0. pose proof (inv_hb_le _ _ _ _ _ _ _ _ _ _ HB0) as Hio.
  destruct (commit_core _ _ _ _ ECm) as [Cc Hbc]. subst bc.
  pose proof Cc as Cc'. unfold vcore, core in Cc'. inversion Cc' as [[Q1 Q2 Q3 Q4 Q5 Q6 Q7 Q8 Q9]].
  unfold append_item in E. cbv zeta in E.
  set (data := encode blob) in *. set (isz := N.of_nat (length data)) in *.
  set (ioff := t_headbytes t + N.of_nat (length (b_data b))) in *.
  destruct (N.ltb_spec maxsz (ioff + isz)) as [R|R].
  - (* roll over *)
    rewrite ECm in E. cbn [fst snd] in E.
    destruct (advance_head tc) as [t2|] eqn:EA; [|discriminate]. inversion E; subst t' b'; clear E.
    cbn [b_data b_index b_cur app] in *.
    pose proof (advance_head_core _ _ EA) as C2. unfold core in C2. inversion C2 as [[P1 P2 P3 P4 P5 P6 P7 P8 P9]].
    assert (Hm : (t_head tc + 1) mod two32 = t_head tc + 1) by (apply N.mod_small; unfold two32; lia).
    destruct (commit_ok t2 (mkB data (enc_entry (mkE (t_head t2) ((0 + isz) mod two32))) (b_cur b + 1))) as [t3 E3].
    { apply (advance_head_has tc); [apply (dinv_fw maxsz); exact HDc|exact EA]. }
    exists t3, (mkB [] [] (b_cur b + 1)). split; [exact E3|].
    assert (HI3 : IdxInv maxsz t3).
    { destruct (commit_core _ _ _ _ E3) as [C3 _]. unfold IdxInv. rewrite C3. exact HB'. }
    assert (Hi : (0 + isz) mod two32 = isz) by (rewrite N.add_0_l; apply N.mod_small; lia).
    eapply (dinv_advance_commit_one maxsz tc t2 data); try exact EA; try exact E3; try assumption.
    + lia.
    + unfold entry_wf. cbn [efile eoff]. rewrite Hi, P4, Hm. apply andb_true_intro. split; apply N.ltb_lt; lia.
    + reflexivity.
  - (* same file *)
    inversion E; subst t' b'; clear E.
    assert (Hm : (ioff + isz) mod two32 = ioff + isz) by (apply N.mod_small; lia).
    set (e := mkE (t_head t) ((ioff + isz) mod two32)) in *.
    destruct (commit_ok tc (mkB data (enc_entry e) (b_cur b + 1))) as [t3 E3].
    { apply (dinv_fw maxsz) in HDc. exact (proj2 HDc). }
    exists t3, (mkB [] [] (b_cur b + 1)). split.
    + rewrite <- (commit_commit t b tc _ data (enc_entry e) (b_cur b + 1) ECm). exact E3.
    + assert (HI3 : IdxInv maxsz t3).
      { assert (E3' : commit t (mkB (b_data b ++ data) (b_index b ++ enc_entry e) (b_cur b + 1)) = Ok (t3, mkB [] [] (b_cur b + 1))).
        { rewrite <- (commit_commit t b tc _ data (enc_entry e) (b_cur b + 1) ECm). exact E3. }
        destruct (commit_core _ _ _ _ E3') as [C3 _]. unfold IdxInv. rewrite C3. exact HB'. }
      eapply (dinv_commit_one maxsz tc data e); try exact E3; try assumption.
      * unfold entry_wf, e. cbn [efile eoff]. rewrite Hm. apply andb_true_intro. split; apply N.ltb_lt; lia.
      * unfold e. cbn [efile]. symmetry. exact Q4.
      * unfold e. cbn [eoff]. rewrite Hm, Q6. reflexivity.
Qed.

Lemma bd_append_items maxsz encode blobs : forall t b t' b',
  maxsz < two32 -> BD maxsz (t, b) ->
  Forall (fun blob => N.of_nat (length (encode blob)) <= maxsz) blobs ->
  t_head t + N.of_nat (length blobs) < 65536 -> b_cur b + N.of_nat (length blobs) < two32 ->
  append_items maxsz encode (t, b) blobs = Ok (t', b') -> BD maxsz (t', b').
Proof.
  induction blobs as [|x r IH]; intros t b t' b' Hmax HB HF Hh Hc E.
  - inversion E; subst. exact HB.
  - cbn [append_items] in E. destruct (append_item maxsz encode (t, b) x) as [[t1 b1]|] eqn:E1; [|discriminate].
    inversion HF as [|? ? Hx Hr]; subst. cbn [length] in Hh, Hc.
    pose proof (bd_append_item _ _ _ _ _ _ _ Hmax HB Hx ltac:(lia) ltac:(lia) E1) as B1.
    destruct (binv_append_item maxsz encode _ _ _ _ _ Hmax (proj1 HB) Hx ltac:(lia) ltac:(lia) E1) as (_ & Cc & Hd).
    eapply IH; eauto; lia.
Qed.

Lemma dinv_ext maxsz t t' :
  core t' = core t -> t_open t' = t_open t -> (forall id, dget id (t_data t') = dget id (t_data t)) ->
  DInv maxsz t -> DInv maxsz t'.
Proof.
  intros C HO Hd (HI & DG & DH & DI & DJ & DL & DN & DO & DP).
  assert (HI' : IdxInv maxsz t') by (eapply inv_core; eauto).
  apply core_proj in C. destruct C as (C1 & C2 & C3 & C4 & C5 & C6 & C7 & C8 & C9).
  assert (Hr : rest_of t' = rest_of t) by (unfold rest_of; rewrite C7; reflexivity).
  assert (Hs : synced_of t' = synced_of t) by (unfold synced_of, nsynced; rewrite Hr, C8; reflexivity).
  refine (conj HI' (conj _ (conj _ (conj _ (conj _ (conj _ (conj _ (conj _ _)))))))).
  - intros e He. rewrite Hr in He. rewrite Hd. apply DG. exact He.
  - intros id f Hg Hne. rewrite Hd in Hg. rewrite C4 in Hne. apply (DH _ _ Hg Hne).
  - intros id f Hg. rewrite Hd in Hg. apply (DI _ _ Hg).
  - rewrite C4, C6, Hd. exact DJ.
  - intros e He. rewrite Hs in He. rewrite Hd. apply DL. exact He.
  - intros id Hid. rewrite C5, C4 in Hid. destruct (DN id Hid) as [[g Hg] Hop]. split; [exists g; rewrite Hd; exact Hg|rewrite HO; exact Hop].
  - intros id Hid. rewrite HO in Hid. destruct (DO id Hid) as [g Hg]. exists g. rewrite Hd. exact Hg.
  - intros id Hid. rewrite HO in Hid. rewrite C4. apply DP. exact Hid.
Qed.

Lemma dinv_op_append maxsz encode t blobs t' :
  maxsz < two32 -> DInv maxsz t ->
  Forall (fun blob => N.of_nat (length (encode blob)) <= maxsz) blobs ->
  t_head t + N.of_nat (length blobs) < 65536 -> t_items t + N.of_nat (length blobs) < two32 ->
  op_append maxsz encode t blobs = Ok t' -> DInv maxsz t'.
Proof.
  intros Hmax HD HF Hh Hc E. unfold op_append in E.
  destruct (append_items maxsz encode (t, mkB [] [] (t_items t)) blobs) as [[t1 b1]|] eqn:E1; [|discriminate].
  cbn [fst snd] in E. destruct (commit t1 b1) as [[t2 b2]|] eqn:E2; [|discriminate].
  inversion E; subst; clear E.
  assert (HB0 : BD maxsz (t, mkB [] [] (t_items t))).
  { split; [apply binv_start; exact (proj1 HD)|]. cbn [fst snd].
    destruct (commit_ok t (mkB [] [] (t_items t))) as [tc Ec]; [exact (proj2 (dinv_fw _ _ HD))|].
    exists tc, (mkB [] [] (t_items t)). split; [exact Ec|].
    (* committing the empty batch changes nothing observable *)
    pose proof HD as (_ & _ & _ & _ & [hf [Hf _]] & _). unfold commit, data_upd in Ec. rewrite Hf in Ec.
    inversion Ec; subst tc; clear Ec. cbn [b_data b_index b_cur length N.of_nat].
    apply (dinv_ext maxsz t); [| |  |exact HD].
    - unfold core. cbn [w_counters w_index w_data t_items t_offset t_hidden t_head t_tail t_headbytes t_index t_mcur t_msyn].
      unfold f_write. rewrite app_nil_r, file_eta, N.add_0_r. reflexivity.
    - reflexivity.
    - intros id. cbn [w_counters w_index w_data t_data]. rewrite dget_dset. unfold f_write. rewrite app_nil_r, file_eta.
      destruct (N.eqb_spec id (t_head t)) as [->|Ne]; [symmetry; exact Hf|reflexivity]. }
  pose proof (bd_append_items maxsz encode blobs _ _ _ _ Hmax HB0 HF Hh Hc E1) as [_ (tc & bc & Ec & HDc)].
  cbn [fst snd] in Ec. rewrite E2 in Ec. inversion Ec; subst. exact HDc.
Qed.


(* ---------- every operation, and histories with crashes inside ---------- *)
Section Hist.
Variable maxsz : N.
Variable encode : list N -> list N.

Lemma dinv_step t o t' :
  maxsz < two32 -> DInv maxsz t -> op_guard maxsz encode t o -> step maxsz encode t o = Ok t' -> DInv maxsz t'.
Proof.
  intros Hmax HD HG E. destruct o as [blobs|n|n| | |]; cbn [step op_guard] in *.
  - destruct HG as (G1 & G2 & G3). eapply dinv_op_append; eauto.
  - destruct HG as (G1 & G2). eapply dinv_truncate_head; eauto.
  - destruct HG as (G1 & G2). eapply dinv_truncate_tail; eauto.
  - eapply dinv_do_sync; eauto.
  - inversion E; subst. apply dinv_sync_index. exact HD.
  - eapply dinv_sync_head; [|exact E]. apply dinv_sync_index. exact HD.
Qed.

(* a history step: an operation of the table, or a crash (any cut of every file, either metadata
   record) followed by newTable *)
Inductive hop := HOp (o : op) | HCrash (ci : nat * nat) (cd : N -> nat * nat) (cm : bool).

Definition hstep (t : table) (h : hop) : res table :=
  match h with
  | HOp o => step maxsz encode t o
  | HCrash ci cd cm => crash_reopen true t ci cd cm
  end.
Definition hnext (t : table) (h : hop) : table := match hstep t h with Ok t' => t' | Err _ => t end.
Definition hguard (t : table) (h : hop) : Prop :=
  match h with
  | HOp o => op_guard maxsz encode t o
  | HCrash ci cd _ => cut_ok t ci cd
  end.
Fixpoint hrun (t : table) (hs : list hop) : table :=
  match hs with [] => t | h :: r => hrun (hnext t h) r end.
Fixpoint hguarded (t : table) (hs : list hop) : Prop :=
  match hs with [] => True | h :: r => hguard t h /\ hguarded (hnext t h) r end.

Lemma dinv_hnext t h : maxsz < two32 -> DInv maxsz t -> hguard t h -> DInv maxsz (hnext t h).
Proof.
  intros Hmax HD HG. unfold hnext. destruct h as [o|ci cd cm]; cbn [hstep hguard] in *.
  - destruct (step maxsz encode t o) as [t'|] eqn:E; [eapply dinv_step; eauto|exact HD].
  - destruct (open_crash_ok maxsz t ci cd cm HD HG) as (t' & E & HD' & _). rewrite E. exact HD'.
Qed.

Lemma dinv_hrun hs : forall t, maxsz < two32 -> DInv maxsz t -> hguarded t hs -> DInv maxsz (hrun t hs).
Proof.
  induction hs as [|h r IH]; intros t Hmax HD HG; [exact HD|].
  destruct HG as [G1 G2]. cbn [hrun]. apply IH; [exact Hmax| |exact G2]. apply dinv_hnext; assumption.
Qed.

Lemma dinv_init clamp t0 : init clamp = Ok t0 -> DInv maxsz t0.
Proof.
  intros H. pose proof (inv_init maxsz clamp t0 H) as HI.
  destruct clamp; vm_compute in H; inversion H; subst; clear H;
  (refine (conj HI (conj _ (conj _ (conj _ (conj _ (conj _ (conj _ (conj _ _))))))));
   [ intros e [] 
   | intros id f Hg _; cbn [t_data dget] in Hg; destruct (0 =? id); inversion Hg; reflexivity
   | intros id f Hg; cbn [t_data dget] in Hg; destruct (0 =? id); inversion Hg; cbn; lia
   | eexists; split; reflexivity
   | intros e []
   | intros id Hid; cbn [t_tail t_head] in Hid; assert (id = 0) by lia; subst id; split; [eexists; reflexivity|left; reflexivity]
   | intros id [<-|[]]; eexists; reflexivity
   | intros id [<-|[]]; cbn; lia ]).
Qed.

(* THE TABLE THEOREM OVER HISTORIES.  From the empty table, after any guarded history of appends,
   truncations, syncs and crashes+reopens (every cut, every zero fill, either metadata record at every
   crash), the table satisfies the full invariant; hence one more crash reopens again, to exactly the
   entries below the flush offset, with a well-formed range. *)
Theorem table_crash_safe t0 hs ci cd (cm : bool) :
  maxsz < two32 -> init true = Ok t0 -> hguarded t0 hs ->
  let t := hrun t0 hs in
  cut_ok t ci cd ->
  exists t', crash_reopen true t ci cd cm = Ok t' /\ DInv maxsz t' /\
    t_hidden t' <= t_items t' /\ t_offset t' = t_offset t /\
    t_items t' = t_offset t + N.of_nat (length (synced_of t)) /\ t_items t' <= t_items t /\
    rest_of t' = synced_of t /\
    (forall e, In e (synced_of t) ->
       exists f f', dget (efile e) (t_data t) = Some f /\ dget (efile e) (t_data t') = Some f' /\
                    eoff e <= fsize f' /\
                    firstn (N.to_nat (eoff e)) (fbytes f') = firstn (N.to_nat (eoff e)) (fbytes f)).
Proof.
  intros Hmax Hi HG t Hcut.
  assert (HD : DInv maxsz t) by (apply dinv_hrun; [exact Hmax|eapply dinv_init; eauto|exact HG]).
  destruct (open_crash_ok maxsz t ci cd cm HD Hcut) as (t' & E & HD' & O1 & O2 & O3 & O4 & O5 & O6 & O7 & _).
  exists t'. split; [exact E|]. split; [exact HD'|].
  destruct (inv_counters _ _ (proj1 HD')) as [_ Hh].
  destruct (synced_facts maxsz t (proj1 HD)) as (_ & _ & _ & _ & _ & _ & _ & _ & Hle & _).
  repeat split; try assumption. rewrite O3. exact Hle.
Qed.

(* a completed Sync covers everything: a crash right after it loses no item *)
Theorem sync_then_crash_keeps_all t t1 ci cd (cm : bool) t' :
  DInv maxsz t -> step maxsz encode t OSync = Ok t1 -> cut_ok t1 ci cd ->
  crash_reopen true t1 ci cd cm = Ok t' -> t_items t' = t_items t1.
Proof.
  intros HD E Hcut Eo. cbn [step] in E. unfold op_sync in E.
  pose proof (dinv_do_sync _ _ _ HD E) as HD1.
  destruct (open_crash_ok maxsz t1 ci cd cm HD1 Hcut) as (t'' & E'' & _ & _ & _ & O3 & _).
  rewrite Eo in E''. inversion E''; subst t''. rewrite O3.
  pose proof (do_sync_core _ _ E) as C. unfold core in C. inversion C as [[P1 P2 P3 P4 P5 P6 P7 P8 P9]].
  rewrite (synced_all maxsz t1 (proj1 HD1)) by (rewrite P8, P7; reflexivity).
  pose proof (proj1 HD1) as HI1. unfold IdxInv, core, IdxInvC in HI1. inv_destruct HI1.
  rewrite (rest_of_inv t1 rest Hb Hwf Ht Ho). lia.
Qed.

End Hist.
