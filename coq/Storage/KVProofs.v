(* Storage/KVProofs.v — lemmas about the store specification Storage/KV.v and the
   table translation Storage/Table.v (data level).  World-level proofs are in
   Storage/WorldProofs.v. *)
From GV Require Import Lib.Tactics Storage.KV Storage.Table Storage.MemDB.
Local Open Scope N_scope.

(* ---------- byte-lexicographic order ---------- *)
Lemma blt_irrefl a : blt a a = false.
Proof. induction a as [|x a IH]; cbn; [reflexivity|]. rewrite N.ltb_irrefl, N.eqb_refl. exact IH. Qed.

Lemma blt_trans a b c : blt a b = true -> blt b c = true -> blt a c = true.
Proof.
  revert b c. induction a as [|x a IH]; intros [|y b] [|z c]; cbn; try discriminate; auto.
  destruct (x <? y) eqn:Hxy, (y <? z) eqn:Hyz; intros H1 H2.
  - assert (x <? z = true) as -> by lia. reflexivity.
  - destruct (y =? z) eqn:E; [|discriminate]. assert (x <? z = true) as -> by lia. reflexivity.
  - destruct (x =? y) eqn:E; [|discriminate]. assert (x <? z = true) as -> by lia. reflexivity.
  - destruct (x =? y) eqn:E1; [|discriminate]. destruct (y =? z) eqn:E2; [|discriminate].
    assert (x <? z = false) as -> by lia. assert (x =? z = true) as -> by lia. eauto.
Qed.

Lemma blt_total a b : blt a b = false -> blt b a = false -> a = b.
Proof.
  revert b. induction a as [|x a IH]; intros [|y b]; cbn; try discriminate; auto.
  destruct (x <? y) eqn:Hxy; [discriminate|]. destruct (y <? x) eqn:Hyx; [intros; discriminate|].
  assert (x = y) by lia. subst y. rewrite N.eqb_refl. intros H1 H2. f_equal. auto.
Qed.

Lemma blt_asym a b : blt a b = true -> blt b a = false.
Proof.
  intros H. destruct (blt b a) eqn:E; [|reflexivity].
  pose proof (blt_trans _ _ _ H E) as C. rewrite blt_irrefl in C. discriminate.
Qed.

Lemma beq_eq a b : beq a b = true <-> a = b.
Proof.
  revert b. induction a as [|x a IH]; intros [|y b]; cbn; split; try discriminate; auto.
  - intros H. apply andb_true_iff in H as [H1 H2]. apply N.eqb_eq in H1. apply IH in H2. congruence.
  - intros H. injection H as -> ->. rewrite N.eqb_refl. cbn. apply IH. reflexivity.
Qed.

Lemma beq_refl a : beq a a = true.
Proof. apply beq_eq. reflexivity. Qed.

Lemma beq_neq a b : beq a b = false <-> a <> b.
Proof.
  split.
  - intros H E. apply beq_eq in E. congruence.
  - intros H. destruct (beq a b) eqn:E; [|reflexivity]. apply beq_eq in E. contradiction.
Qed.

Lemma beq_sym a b : beq a b = beq b a.
Proof.
  destruct (beq a b) eqn:E.
  - apply beq_eq in E. subst. symmetry. apply beq_refl.
  - symmetry. apply beq_neq. apply beq_neq in E. congruence.
Qed.

Lemma blt_neq a b : blt a b = true -> beq a b = false.
Proof. intros H. apply beq_neq. intros ->. rewrite blt_irrefl in H. discriminate. Qed.

Lemma blt_false_neq a b : blt a b = false -> beq a b = false -> blt b a = true.
Proof.
  intros H1 H2. destruct (blt b a) eqn:E; [reflexivity|].
  apply beq_neq in H2. exfalso. apply H2. apply blt_total; assumption.
Qed.

Lemma blt_nil_r a : blt a [] = false.
Proof. destruct a; reflexivity. Qed.

Lemma ble_nil_l a : ble [] a = true.
Proof. unfold ble. rewrite blt_nil_r. reflexivity. Qed.

Lemma blt_app p a b : blt (p ++ a) (p ++ b) = blt a b.
Proof. induction p as [|x p IH]; cbn; [reflexivity|]. rewrite N.ltb_irrefl, N.eqb_refl. exact IH. Qed.

Lemma ble_app p a b : ble (p ++ a) (p ++ b) = ble a b.
Proof. unfold ble. rewrite blt_app. reflexivity. Qed.

Lemma beq_app p a b : beq (p ++ a) (p ++ b) = beq a b.
Proof. induction p as [|x p IH]; cbn; [reflexivity|]. rewrite N.eqb_refl. exact IH. Qed.

(* ---------- prefixes ---------- *)
Lemma is_prefix_app p k : is_prefix p (p ++ k) = true.
Proof. induction p as [|x p IH]; cbn; [reflexivity|]. rewrite N.eqb_refl. exact IH. Qed.

Lemma strip_app p k : strip p (p ++ k) = k.
Proof. unfold strip. induction p; cbn; auto. Qed.

Lemma is_prefix_split p k : is_prefix p k = true -> k = p ++ strip p k.
Proof.
  revert k. induction p as [|x p IH]; intros k H; [reflexivity|].
  destruct k as [|y k]; [discriminate|]. cbn in H. apply andb_true_iff in H as [H1 H2].
  apply N.eqb_eq in H1. subst y. change (strip (x :: p) (x :: k)) with (strip p k).
  cbn. f_equal. apply IH. exact H2.
Qed.

Lemma is_prefix_app_app p q k : is_prefix (p ++ q) (p ++ k) = is_prefix q k.
Proof. induction p as [|x p IH]; cbn; [reflexivity|]. rewrite N.eqb_refl. exact IH. Qed.

Lemma is_prefix_app_false p q k : is_prefix p k = false -> is_prefix (p ++ q) k = false.
Proof.
  revert k. induction p as [|x p IH]; intros k H; [discriminate|].
  destruct k as [|y k]; [reflexivity|]. cbn in *. destruct (x =? y); cbn in *; auto.
Qed.

(* comparing a key WITHOUT the prefix against prefix++x does not depend on x *)
Lemma blt_noprefix p k a b : is_prefix p k = false -> blt k (p ++ a) = blt k (p ++ b).
Proof.
  revert k. induction p as [|x p IH]; intros k H; [discriminate|].
  destruct k as [|y k]; [reflexivity|]. cbn in *.
  destruct (y <? x); [reflexivity|]. rewrite (N.eqb_sym y x).
  destruct (x =? y); cbn in H; [auto|reflexivity].
Qed.

(* ---------- get / put / filter ---------- *)
Lemma get_kfilter f k m : get k (kfilter f m) = if f k then get k m else None.
Proof.
  induction m as [|[k' v] r IH]; cbn; [destruct (f k); reflexivity|].
  destruct (f k') eqn:Fk'; cbn.
  - destruct (beq k k') eqn:E.
    + apply beq_eq in E. subst. rewrite Fk'. reflexivity.
    + exact IH.
  - destruct (beq k k') eqn:E.
    + apply beq_eq in E. subst. rewrite Fk' in *. exact IH.
    + exact IH.
Qed.

Lemma get_put k k' v m : get k (put k' v m) = if beq k k' then Some v else get k m.
Proof.
  induction m as [|[k2 v2] r IH]; cbn; [reflexivity|].
  destruct (blt k' k2) eqn:L; cbn; [reflexivity|].
  destruct (beq k' k2) eqn:E; cbn.
  - apply beq_eq in E. subst k2. destruct (beq k k'); reflexivity.
  - rewrite IH. destruct (beq k k2) eqn:E2; [|reflexivity].
    apply beq_eq in E2. subst k2. rewrite beq_sym, E. reflexivity.
Qed.

Lemma get_delete k k' m : get k (delete k' m) = if beq k k' then None else get k m.
Proof. unfold delete. rewrite get_kfilter. destruct (beq k k'); reflexivity. Qed.

Lemma get_delete_range s e k m :
  get k (delete_range s e m) = if in_range s e k then None else get k m.
Proof. unfold delete_range. rewrite get_kfilter. destruct (in_range s e k); reflexivity. Qed.

Lemma Forall_kfilter (P : key * value -> Prop) f m : Forall P m -> Forall P (kfilter f m).
Proof.
  intros H. apply Forall_forall. intros x Hx. apply filter_In in Hx as [Hx _].
  rewrite Forall_forall in H. auto.
Qed.

Lemma Forall_put (P : key * value -> Prop) k v m : P (k, v) -> Forall P m -> Forall P (put k v m).
Proof.
  intros Hk. induction m as [|[k2 v2] r IH]; cbn; intros H; [auto|].
  inversion H as [|? ? H1 H2]; subst.
  destruct (blt k k2); [auto|]. destruct (beq k k2); auto.
Qed.

Lemma sorted_kfilter f m : sorted m -> sorted (kfilter f m).
Proof.
  induction m as [|kx r IH]; cbn; [auto|]. intros [H1 H2].
  destruct (f (fst kx)); cbn.
  - split; [apply (Forall_kfilter _ f r H1)|apply IH, H2].
  - apply IH, H2.
Qed.

Lemma sorted_put k v m : sorted m -> sorted (put k v m).
Proof.
  induction m as [|[k2 v2] r IH]; cbn; [auto|]. intros [H1 H2].
  destruct (blt k k2) eqn:L.
  - cbn. repeat split; auto. constructor; [exact L|].
    eapply Forall_impl; [|exact H1]. cbn. intros a Ha. eapply blt_trans; eauto.
  - destruct (beq k k2) eqn:E.
    + apply beq_eq in E. subst k2. cbn. auto.
    + cbn. split; [|auto]. apply Forall_put; [|exact H1]. cbn. apply blt_false_neq; assumption.
Qed.

Lemma sorted_delete k m : sorted m -> sorted (delete k m).
Proof. apply sorted_kfilter. Qed.

Lemma sorted_delete_range s e m : sorted m -> sorted (delete_range s e m).
Proof. apply sorted_kfilter. Qed.

Lemma sorted_apply o m : sorted m -> sorted (apply o m).
Proof. destruct o; cbn; auto using sorted_put, sorted_delete, sorted_delete_range. Qed.

Lemma sorted_write ops m : sorted m -> sorted (write ops m).
Proof. revert m. induction ops as [|o r IH]; cbn; intros m H; auto using sorted_apply. Qed.

Lemma get_none_below a k m :
  Forall (fun kx => blt a (fst kx) = true) m -> (k = a \/ blt k a = true) -> get k m = None.
Proof.
  intros H Hk. induction H as [|[k2 v2] r H1 H2 IH]; cbn; [reflexivity|]. cbn in H1.
  assert (L : blt k k2 = true).
  { destruct Hk as [->|Hk]; [exact H1|]. eapply blt_trans; eauto. }
  rewrite (blt_neq _ _ L). exact IH.
Qed.

Lemma get_In k v m : get k m = Some v -> In (k, v) m.
Proof.
  induction m as [|[k2 v2] r IH]; cbn; [discriminate|].
  destruct (beq k k2) eqn:E; intros H.
  - apply beq_eq in E. left. congruence.
  - right. auto.
Qed.

Lemma In_get k v m : sorted m -> In (k, v) m -> get k m = Some v.
Proof.
  induction m as [|[k2 v2] r IH]; cbn; [tauto|]. intros [H1 H2] [H|H].
  - injection H as -> ->. rewrite beq_refl. reflexivity.
  - rewrite Forall_forall in H1. specialize (H1 _ H). cbn in H1.
    rewrite beq_sym, (blt_neq _ _ H1). auto.
Qed.

(* two sorted stores with the same lookups are equal *)
Lemma kv_ext m1 m2 : sorted m1 -> sorted m2 -> (forall k, get k m1 = get k m2) -> m1 = m2.
Proof.
  revert m2. induction m1 as [|[k1 v1] r1 IH]; intros [|[k2 v2] r2]; cbn; intros S1 S2 H; auto.
  - specialize (H k2). rewrite beq_refl in H. discriminate.
  - specialize (H k1). rewrite beq_refl in H. discriminate.
  - destruct S1 as [F1 S1], S2 as [F2 S2].
    assert (K : k1 = k2).
    { apply blt_total.
      - destruct (blt k1 k2) eqn:L; [|reflexivity]. exfalso.
        pose proof (H k1) as H1. rewrite beq_refl, (blt_neq _ _ L) in H1.
        rewrite (get_none_below k2 k1 r2 F2) in H1 by auto. discriminate.
      - destruct (blt k2 k1) eqn:L; [|reflexivity]. exfalso.
        pose proof (H k2) as H1. rewrite beq_refl, (blt_neq _ _ L) in H1.
        rewrite (get_none_below k1 k2 r1 F1) in H1 by auto. discriminate. }
    subst k2. pose proof (H k1) as H1. rewrite beq_refl in H1. injection H1 as ->.
    f_equal. apply IH; auto. intros k. destruct (beq k k1) eqn:E.
    + apply beq_eq in E. subst k.
      rewrite (get_none_below k1 k1 r1 F1), (get_none_below k1 k1 r2 F2) by auto. reflexivity.
    + specialize (H k). rewrite E in H. exact H.
Qed.

(* ---------- range deletion ---------- *)
Lemma in_range_iff s e k :
  in_range s e k = true <->
  (s = None \/ exists s', s = Some s' /\ ble s' k = true) /\
  (e = None \/ exists e', e = Some e' /\ blt k e' = true).
Proof.
  unfold in_range. rewrite andb_true_iff. split.
  - intros [H1 H2]. split.
    + destruct s; [right; eauto|left; reflexivity].
    + destruct e; [right; eauto|left; reflexivity].
  - intros [[->|(s' & -> & H1)] [->|(e' & -> & H2)]]; auto.
Qed.

Lemma kfilter_all f m : (forall kx, In kx m -> f (fst kx) = true) -> kfilter f m = m.
Proof.
  induction m as [|kx r IH]; cbn; intros H; [reflexivity|].
  rewrite (H kx) by auto. f_equal. apply IH. auto.
Qed.

Lemma kfilter_none f m : (forall kx, In kx m -> f (fst kx) = false) -> kfilter f m = [].
Proof.
  induction m as [|kx r IH]; cbn; intros H; [reflexivity|].
  rewrite (H kx) by auto. apply IH. auto.
Qed.

Lemma delete_range_empty_end s m : delete_range s (Some []) m = m.
Proof.
  apply kfilter_all. intros kx _. unfold in_range. rewrite blt_nil_r, andb_false_r. reflexivity.
Qed.

Lemma delete_range_nil_nil m : delete_range None None m = [].
Proof. apply kfilter_none. reflexivity. Qed.

Lemma delete_range_start_empty e m : delete_range (Some []) e m = delete_range None e m.
Proof.
  unfold delete_range, kfilter. apply filter_ext. intros kx. unfold in_range.
  rewrite ble_nil_l. reflexivity.
Qed.

Lemma delete_range_inverted s e m : ble e s = true -> delete_range (Some s) (Some e) m = m.
Proof.
  intros H. apply kfilter_all. intros kx _. unfold in_range.
  destruct (ble s (fst kx)) eqn:A; [|reflexivity]. destruct (blt (fst kx) e) eqn:B; [|reflexivity].
  exfalso. unfold ble in *. apply negb_true_iff in H, A.
  destruct (beq (fst kx) s) eqn:E.
  - apply beq_eq in E. rewrite E in B. congruence.
  - pose proof (blt_false_neq _ _ A E) as C. pose proof (blt_trans _ _ _ C B). congruence.
Qed.

(* ---------- iterators ---------- *)
Lemma sorted_iter_items p s m : sorted m -> sorted (iter_items p s m).
Proof. apply sorted_kfilter. Qed.

Lemma In_iter_items p s m k x : sorted m ->
  (In (k, x) (iter_items p s m) <->
   get k m = Some x /\ is_prefix p k = true /\ ble (p ++ s) k = true).
Proof.
  intros S. unfold iter_items, kfilter. rewrite filter_In. cbn. rewrite andb_true_iff. split.
  - intros [H1 H2]. split; [apply In_get; assumption|assumption].
  - intros [H1 H2]. split; [apply get_In; assumption|assumption].
Qed.

(* ---------- the table translation, data level ---------- *)
Lemma get_view p k m : get k (view_kv p m) = get (p ++ k) m.
Proof.
  unfold view_kv. induction m as [|[k2 v2] r IH]; cbn; [reflexivity|].
  destruct (is_prefix p k2) eqn:P; cbn.
  - rewrite (is_prefix_split _ _ P) at 2. rewrite beq_app. destruct (beq k (strip p k2)); auto.
  - destruct (beq (p ++ k) k2) eqn:E; [|exact IH].
    apply beq_eq in E. subst k2. rewrite is_prefix_app in P. discriminate.
Qed.

Lemma Forall_view_gt p s r :
  Forall (fun kx => blt (p ++ s) (fst kx) = true) r ->
  Forall (fun kx => blt s (fst kx) = true) (view_kv p r).
Proof.
  unfold view_kv. induction 1 as [|[k2 v2] r H1 H2 IH]; cbn; [constructor|].
  destruct (is_prefix p k2) eqn:P; cbn; [|exact IH]. constructor; [|exact IH].
  cbn in *. rewrite (is_prefix_split _ _ P), blt_app in H1. exact H1.
Qed.

Lemma sorted_view p m : sorted m -> sorted (view_kv p m).
Proof.
  induction m as [|[k2 v2] r IH]; cbn; [auto|]. intros [H1 H2]. unfold view_kv in *. cbn.
  destruct (is_prefix p k2) eqn:P; cbn; [|auto]. split; [|auto].
  apply (Forall_view_gt p (strip p k2) r). cbn in H1. rewrite <- (is_prefix_split _ _ P). exact H1.
Qed.

Lemma get_outside p k m : get k (outside p m) = if is_prefix p k then None else get k m.
Proof. unfold outside. rewrite get_kfilter. destruct (is_prefix p k); reflexivity. Qed.

Lemma sorted_outside p m : sorted m -> sorted (outside p m).
Proof. apply sorted_kfilter. Qed.

Lemma get_small k m : small_kv m -> get k m <> None -> blt k maxkey = true.
Proof.
  intros S H. destruct (get k m) eqn:G; [|congruence]. apply get_In in G.
  unfold small_kv in S. rewrite Forall_forall in S. apply (S _ G).
Qed.

(* a write through the table = the same write on the abstract store, and nothing
   outside the prefix changes *)
Lemma apply_view p o m : sorted m -> small_kv (view_kv p m) ->
  view_kv p (apply (vbop (Some p) o) m) = apply o (view_kv p m).
Proof.
  intros S G. apply kv_ext.
  - apply sorted_view, sorted_apply, S.
  - apply sorted_apply, sorted_view, S.
  - intros k. rewrite get_view. destruct o as [k' x|k'|s e]; cbn [vbop apply].
    + rewrite !get_put, beq_app, get_view. reflexivity.
    + rewrite !get_delete, beq_app, get_view. reflexivity.
    + rewrite !get_delete_range, get_view. unfold in_range.
      rewrite ble_app, blt_app.
      assert (A : ble (onil s) k = match s with None => true | Some s' => ble s' k end).
      { destruct s; cbn; [reflexivity|apply ble_nil_l]. }
      rewrite A. destruct e as [e'|]; [reflexivity|].
      destruct (get (p ++ k) m) eqn:Gk.
      * assert (blt k maxkey = true) as ->; [|reflexivity].
        apply (get_small k _ G). rewrite get_view, Gk. discriminate.
      * destruct (_ && _), (_ && _); reflexivity.
Qed.

Lemma apply_outside p o m : sorted m ->
  outside p (apply (vbop (Some p) o) m) = outside p m.
Proof.
  intros S. apply kv_ext.
  - apply sorted_outside, sorted_apply, S.
  - apply sorted_outside, S.
  - intros k. rewrite !get_outside. destruct (is_prefix p k) eqn:P; [reflexivity|].
    assert (N : forall a, beq k (p ++ a) = false).
    { intros a. apply beq_neq. intros ->. rewrite is_prefix_app in P. discriminate. }
    destruct o as [k' x|k'|s e]; cbn [vbop apply].
    + rewrite get_put, N. reflexivity.
    + rewrite get_delete, N. reflexivity.
    + rewrite get_delete_range. unfold in_range, ble.
      rewrite (blt_noprefix p k (match e with None => maxkey | Some e' => e' end) (onil s) P).
      destruct (blt k (p ++ onil s)); reflexivity.
Qed.

Lemma small_apply o m : small_bop o -> small_kv m -> small_kv (apply o m).
Proof.
  unfold small_kv. destruct o; cbn; intros Ho H.
  - apply Forall_put; assumption.
  - apply Forall_kfilter. exact H.
  - apply Forall_kfilter. exact H.
Qed.

Lemma write_cons o r m : write (o :: r) m = write r (apply o m).
Proof. reflexivity. Qed.

Lemma write_view p ops m : sorted m -> small_kv (view_kv p m) -> Forall small_bop ops ->
  sorted (write (map (vbop (Some p)) ops) m) /\
  view_kv p (write (map (vbop (Some p)) ops) m) = write ops (view_kv p m) /\
  small_kv (write ops (view_kv p m)) /\
  outside p (write (map (vbop (Some p)) ops) m) = outside p m.
Proof.
  revert m. induction ops as [|o r IH]; intros m S G F; [cbn; auto|].
  rewrite map_cons, !write_cons.
  inversion F as [|? ? Fo Fr]; subst.
  assert (S' : sorted (apply (vbop (Some p) o) m)) by (apply sorted_apply, S).
  assert (V : view_kv p (apply (vbop (Some p) o) m) = apply o (view_kv p m)) by (apply apply_view; assumption).
  assert (G' : small_kv (view_kv p (apply (vbop (Some p) o) m))).
  { rewrite V. apply small_apply; assumption. }
  destruct (IH _ S' G' Fr) as (A & B & C & D). rewrite V in B, C.
  repeat split; auto. rewrite D. apply apply_outside, S.
Qed.

(* iterators through the table *)
Lemma iter_view p pre st m :
  map (stripfst p) (viter_items (Some p) pre st m) = iter_items pre st (view_kv p m).
Proof.
  unfold viter_items, iter_items, view_kv, vkey. rewrite <- (app_assoc p pre st).
  induction m as [|[k2 v2] r IH]; [reflexivity|].
  cbn [kfilter filter fst map]. destruct (is_prefix p k2) eqn:P.
  - pose proof (is_prefix_split _ _ P) as E. set (s := strip p k2) in *. clearbody s. subst k2.
    rewrite is_prefix_app_app, ble_app. cbn [map]. unfold stripfst at 2. cbn [fst snd].
    rewrite strip_app. cbn [kfilter filter fst].
    destruct (is_prefix pre s && ble (pre ++ st) s).
    + cbn [map]. unfold stripfst at 1. cbn [fst snd]. rewrite strip_app. f_equal. exact IH.
    + exact IH.
  - rewrite (is_prefix_app_false p pre k2 P). cbn [andb]. exact IH.
Qed.

(* replay through the tableReplayer re-creates the queued op *)
Lemma unview_vbop p o :
  exists o', unview (Some p) (vbop (Some p) o) = Some o' /\ vbop (Some p) o' = vbop (Some p) o.
Proof.
  destruct o as [k x|k|s e]; cbn.
  - eexists; split; [reflexivity|]. cbn. rewrite strip_app. reflexivity.
  - eexists; split; [reflexivity|]. cbn. rewrite strip_app. reflexivity.
  - eexists; split; [reflexivity|]. cbn. rewrite !strip_app. reflexivity.
Qed.

Lemma replay_view_self v ops m :
  replay_view v v (map (vbop v) ops) m = (write (map (vbop v) ops) m, true).
Proof.
  revert m. induction ops as [|o r IH]; cbn; intros m; [reflexivity|].
  destruct v as [p|].
  - destruct (unview_vbop p o) as (o' & -> & E). rewrite E. apply IH.
  - cbn. apply IH.
Qed.

(* memorydb's batch record round-trips every op *)
Lemma mem_norm_id o : mem_norm o = o.
Proof. destruct o; reflexivity. Qed.
