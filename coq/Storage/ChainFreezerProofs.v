(* Storage/ChainFreezerProofs.v — proofs about the model Storage/ChainFreezer.v (C25).

   Method.  [s0] is the state before any migration and [C n := read_canonical_hash s0 n],
   [V n := view_of s0 (C n) n] the accessor results of its canonical blocks.  [Rel s0 t]
   ("t is a migration state of s0") says: every freezer item of t is the complete canonical
   block of s0 at that height; from the durable count upwards the key-value store of t
   still answers like s0; the key-value store of t is a sub-map of that of s0; the
   hash->number entries of canonical hashes and the tx lookups are untouched.  Every
   persistence action of the freezer loop, and a crash, preserves [Rel s0]; [Rel s0 t]
   implies that every accessor answers at t as at s0. *)
From Coq Require Import List NArith Bool Lia.
From GV Require Import Lib.Tactics Storage.ChainFreezer.
Import ListNotations.
Local Open Scope N_scope.

(* ---------------- association lists ---------------- *)
Lemma k2eq_eq a b : k2eq a b = true <-> a = b.
Proof.
  destruct a as [a1 a2], b as [b1 b2]; unfold k2eq; cbn [fst snd].
  rewrite andb_true_iff, !N.eqb_eq. split; [intros [-> ->]; reflexivity | intros H; inversion H; auto].
Qed.
Lemma k2eq_refl a : k2eq a a = true.
Proof. apply k2eq_eq; reflexivity. Qed.
Lemma k2eq_neq a b : k2eq a b = false <-> a <> b.
Proof.
  split; intros H.
  - intros E. apply k2eq_eq in E. congruence.
  - destruct (k2eq a b) eqn:E; [apply k2eq_eq in E; contradiction | reflexivity].
Qed.

Lemma get1_del1 {V} k k' (m : list (N * V)) :
  get1 k (del1 k' m) = if k =? k' then None else get1 k m.
Proof.
  induction m as [|[a v] m IH]; cbn [del1 filter get1 fst].
  - destruct (k =? k'); reflexivity.
  - unfold del1 in IH. destruct (a =? k') eqn:E1; cbn [negb].
    + rewrite IH. apply N.eqb_eq in E1; subst a. destruct (k =? k') eqn:E2; reflexivity.
    + cbn [get1]. rewrite IH. destruct (k =? a) eqn:E2; [|reflexivity].
      apply N.eqb_eq in E2; subst a. rewrite E1. reflexivity.
Qed.

Lemma get2_del2 {V} k k' (m : list (k2 * V)) :
  get2 k (del2 k' m) = if k2eq k k' then None else get2 k m.
Proof.
  induction m as [|[a v] m IH]; cbn [del2 filter get2 fst].
  - destruct (k2eq k k'); reflexivity.
  - unfold del2 in IH. destruct (k2eq a k') eqn:E1; cbn [negb].
    + rewrite IH. apply k2eq_eq in E1; subst a. destruct (k2eq k k') eqn:E2; reflexivity.
    + cbn [get2]. rewrite IH. destruct (k2eq k a) eqn:E2; [|reflexivity].
      apply k2eq_eq in E2; subst a. rewrite E1. reflexivity.
Qed.

Lemma get2_In {V} k (v : V) m : get2 k m = Some v -> In (k, v) m.
Proof.
  induction m as [|[a w] m IH]; cbn [get2]; [discriminate|].
  destruct (k2eq k a) eqn:E; intros H.
  - apply k2eq_eq in E; subst a. inversion H; subst. left; reflexivity.
  - right; auto.
Qed.

Lemma In_get2 {V} k (v : V) m : In (k, v) m -> get2 k m <> None.
Proof.
  induction m as [|[a w] m IH]; cbn [get2 In]; [tauto|].
  intros [E|H]; [inversion E; subst; rewrite k2eq_refl; discriminate|].
  destruct (k2eq k a); [discriminate | auto].
Qed.

Lemma all_hashes_In k n h : In h (all_hashes k n) <-> get2 (n, h) (k_hdr k) <> None.
Proof.
  unfold all_hashes. rewrite in_map_iff. split.
  - intros [[[n' h'] v] [E H]]. cbn in E; subst h'. apply filter_In in H as [H1 H2].
    cbn in H2. apply N.eqb_eq in H2; subst n'. eapply In_get2; eauto.
  - intros H. destruct (get2 (n, h) (k_hdr k)) as [v|] eqn:G; [|congruence].
    exists ((n, h), v). split; [reflexivity|]. apply filter_In. split; [apply get2_In; auto|].
    cbn. apply N.eqb_refl.
Qed.

(* ---------------- effect of a batch of deletions ---------------- *)
Definition hits_blk (key : k2) (o : dop) : bool :=
  match o with
  | DBlockNoNum n h | DBlock n h => k2eq key (n, h)
  | DCanon _ => false
  end.
Definition hits_canon (n : N) (o : dop) : bool :=
  match o with DCanon n' => n =? n' | _ => false end.
Definition hits_num (h : hash) (o : dop) : bool :=
  match o with DBlock _ h' => h =? h' | _ => false end.

Lemma wb_fields ops : forall k,
  (forall key, get2 key (k_hdr (write_batch ops k)) = if existsb (hits_blk key) ops then None else get2 key (k_hdr k)) /\
  (forall key, get2 key (k_body (write_batch ops k)) = if existsb (hits_blk key) ops then None else get2 key (k_body k)) /\
  (forall key, get2 key (k_rcpt (write_batch ops k)) = if existsb (hits_blk key) ops then None else get2 key (k_rcpt k)) /\
  (forall key, get2 key (k_bal (write_batch ops k)) = if existsb (hits_blk key) ops then None else get2 key (k_bal k)) /\
  (forall n, get1 n (k_canon (write_batch ops k)) = if existsb (hits_canon n) ops then None else get1 n (k_canon k)) /\
  (forall h, get1 h (k_num (write_batch ops k)) = if existsb (hits_num h) ops then None else get1 h (k_num k)) /\
  k_txl (write_batch ops k) = k_txl k.
Proof.
  induction ops as [|o ops IH]; intros k; cbn [write_batch fold_left existsb].
  - repeat (split; [reflexivity|]); reflexivity.
  - specialize (IH (apply_dop o k)). unfold write_batch in IH.
    destruct IH as (I1 & I2 & I3 & I4 & I5 & I6 & I7).
    split; [|split; [|split; [|split; [|split; [|split]]]]].
    + intros key. rewrite I1. destruct o as [n h|n|n h]; cbn [apply_dop k_hdr hits_blk orb]; [|reflexivity|];
        (rewrite get2_del2; destruct (k2eq key (n, h)); cbn [orb];
         [destruct (existsb _ ops)|]; reflexivity).
    + intros key. rewrite I2. destruct o as [n h|n|n h]; cbn [apply_dop k_body hits_blk orb]; [|reflexivity|];
        (rewrite get2_del2; destruct (k2eq key (n, h)); cbn [orb];
         [destruct (existsb _ ops)|]; reflexivity).
    + intros key. rewrite I3. destruct o as [n h|n|n h]; cbn [apply_dop k_rcpt hits_blk orb]; [|reflexivity|];
        (rewrite get2_del2; destruct (k2eq key (n, h)); cbn [orb];
         [destruct (existsb _ ops)|]; reflexivity).
    + intros key. rewrite I4. destruct o as [n h|n|n h]; cbn [apply_dop k_bal hits_blk orb]; [|reflexivity|];
        (rewrite get2_del2; destruct (k2eq key (n, h)); cbn [orb];
         [destruct (existsb _ ops)|]; reflexivity).
    + intros n. rewrite I5. destruct o as [n' h'|n'|n' h']; cbn [apply_dop k_canon hits_canon orb];
        try reflexivity.
      rewrite get1_del1. destruct (n =? n'); cbn [orb]; [destruct (existsb _ ops)|]; reflexivity.
    + intros h. rewrite I6. destruct o as [n' h'|n'|n' h']; cbn [apply_dop k_num hits_num orb];
        try reflexivity.
      rewrite get1_del1. destruct (h =? h'); cbn [orb]; [destruct (existsb _ ops)|]; reflexivity.
    + rewrite I7. destruct o; reflexivity.
Qed.

Definition op_num (o : dop) : N :=
  match o with DBlockNoNum n _ | DCanon n | DBlock n _ => n end.

Lemma no_hit_blk key ops :
  Forall (fun o => op_num o <> fst key) ops -> existsb (hits_blk key) ops = false.
Proof.
  induction 1 as [|o ops H _ IH]; [reflexivity|]. cbn [existsb]. rewrite IH, orb_false_r.
  destruct o; cbn [hits_blk op_num] in *; try reflexivity; apply k2eq_neq; intros E; subst key; auto.
Qed.
Lemma no_hit_canon n ops :
  Forall (fun o => op_num o <> n) ops -> existsb (hits_canon n) ops = false.
Proof.
  induction 1 as [|o ops H _ IH]; [reflexivity|]. cbn [existsb]. rewrite IH, orb_false_r.
  destruct o; cbn [hits_canon op_num] in *; try reflexivity. apply N.eqb_neq; auto.
Qed.

(* ---------------- the freezer as a list ---------------- *)
Lemma ancient_Some f n it : ancient f n = Some it -> n < frozen f.
Proof. unfold ancient. destruct (n <? frozen f) eqn:E; [intros _; lia | discriminate]. Qed.
Lemma ancient_None f n : frozen f <= n -> ancient f n = None.
Proof. unfold ancient. intros H. destruct (n <? frozen f) eqn:E; [lia | reflexivity]. Qed.
Lemma ancient_lt f n : n < frozen f -> exists it, ancient f n = Some it.
Proof.
  unfold ancient, frozen. intros H. destruct (n <? _) eqn:E; [|lia].
  destruct (nth_error (f_items f) (N.to_nat n)) eqn:G; [eauto|].
  apply nth_error_None in G. lia.
Qed.

Lemma ancient_app a b d d' n :
  ancient (mkFrz (a ++ b) d) n =
  if n <? N.of_nat (length a) then ancient (mkFrz a d') n
  else nth_error b (N.to_nat (n - N.of_nat (length a))).
Proof.
  unfold ancient, frozen; cbn [f_items]. rewrite app_length.
  destruct (n <? N.of_nat (length a)) eqn:E1.
  - assert (n <? N.of_nat (length a + length b) = true) as -> by lia.
    apply nth_error_app1. lia.
  - destruct (n <? N.of_nat (length a + length b)) eqn:E2.
    + rewrite nth_error_app2 by lia. f_equal. lia.
    + symmetry. apply nth_error_None. lia.
Qed.

Lemma ancient_nil d n : ancient (mkFrz [] d) n = None.
Proof. apply ancient_None. unfold frozen; cbn. lia. Qed.

Lemma ancient_durable its d d' n : ancient (mkFrz its d) n = ancient (mkFrz its d') n.
Proof. reflexivity. Qed.

Lemma nth_firstn {A} (l : list A) : forall k i, (i < k)%nat -> nth_error (firstn k l) i = nth_error l i.
Proof.
  induction l as [|x l IH]; intros k i H.
  - rewrite firstn_nil. reflexivity.
  - destruct k; [lia|]. destruct i; [reflexivity|]. cbn. apply IH. lia.
Qed.

Lemma ancient_firstn its d keep n it :
  ancient (mkFrz (firstn (N.to_nat keep) its) d) n = Some it -> ancient (mkFrz its d) n = Some it.
Proof.
  unfold ancient, frozen; cbn [f_items]. rewrite firstn_length.
  destruct (n <? N.of_nat (Nat.min _ _)) eqn:E; [|discriminate].
  intros H. assert (n <? N.of_nat (length its) = true) as -> by lia.
  rewrite nth_firstn in H by lia. exact H.
Qed.

Section Proofs.
Variable keccak : blob -> hash.
Variable parent_of : blob -> option hash.

Notation view_of := (view_of keccak parent_of).
Notation read_header_rlp := (read_header_rlp keccak).
Notation hdr_parent := (hdr_parent parent_of).
Notation cycle := (cycle parent_of).
Notation step := (step parent_of).
Notation visible := (visible parent_of).
Notation run := (run parent_of).
Notation visible_all := (visible_all parent_of).
Notation stop_state := (stop_state parent_of).
Notation dangling_pass := (dangling_pass parent_of).

(* when the freezer has no item at [n], every accessor goes to the key-value store *)
Lemma view_nofreeze s h n : ancient (s_fz s) n = None -> view_of s h n = view_of (nofreeze s) h n.
Proof.
  intros A. unfold ChainFreezer.view_of, read_canonical_hash, ChainFreezer.read_header_rlp, has_header,
    read_body_rlp, read_canonical_body_rlp, has_body, read_receipts_rlp, read_canonical_receipts_rlp,
    has_receipts, read_bal_rlp, is_canon, read_header_number, nofreeze.
  cbn [s_fz s_kv]. rewrite A, ancient_nil. reflexivity.
Qed.

(* views depend on the key-value store only through these lookups *)
Definition kv_agree (k k' : kvs) (h : hash) (n : N) : Prop :=
  get1 n (k_canon k) = get1 n (k_canon k') /\
  get2 (n, h) (k_hdr k) = get2 (n, h) (k_hdr k') /\
  get2 (n, h) (k_body k) = get2 (n, h) (k_body k') /\
  get2 (n, h) (k_rcpt k) = get2 (n, h) (k_rcpt k') /\
  get2 (n, h) (k_bal k) = get2 (n, h) (k_bal k') /\
  get1 h (k_num k) = get1 h (k_num k').

Lemma view_nofreeze_agree k k' f f' h n :
  kv_agree k k' h n -> ohash (get1 n (k_canon k)) = h ->
  view_of (nofreeze (mkSt k f)) h n = view_of (nofreeze (mkSt k' f')) h n.
Proof.
  intros (A1 & A2 & A3 & A4 & A5 & A6) Hh.
  unfold ChainFreezer.view_of, read_canonical_hash, ChainFreezer.read_header_rlp, has_header,
    read_body_rlp, read_canonical_body_rlp, has_body, read_receipts_rlp, read_canonical_receipts_rlp,
    has_receipts, read_bal_rlp, is_canon, read_header_number, nofreeze, kv_has.
  cbn [s_fz s_kv]. rewrite !ancient_nil. cbn [nonempty orb].
  rewrite <- A1, Hh, <- A2, <- A3, <- A4, <- A5, <- A6. reflexivity.
Qed.

Lemma existsb_false {A} (f : A -> bool) l : Forall (fun x => f x = false) l -> existsb f l = false.
Proof. induction 1 as [|x l H _ IH]; [reflexivity|]. cbn. rewrite H, IH. reflexivity. Qed.


Lemma Forall_firstn {A} (P : A -> Prop) l : forall n, Forall P l -> Forall P (firstn n l).
Proof.
  induction l as [|x l IH]; intros [|n] H; cbn; auto. inversion H; subst. constructor; auto.
Qed.
Lemma Forall_last {A} (P : A -> Prop) l d : Forall P l -> P d -> P (last l d).
Proof.
  induction 1 as [|x l Hx Hl IH]; intros Hd; cbn; auto. destruct l; auto.
Qed.


(* ---------------- the three deletion batches ---------------- *)
Lemma In_seqN c : forall a m, In m (seqN a c) <-> a <= m < a + N.of_nat c.
Proof.
  induction c as [|c IH]; intros a m; cbn [seqN In].
  - lia.
  - rewrite IH. lia.
Qed.

Lemma In_combine_seqN {A} (l : list A) : forall a m x,
  In (m, x) (combine (seqN a (length l)) l) <-> exists i, nth_error l i = Some x /\ m = a + N.of_nat i.
Proof.
  induction l as [|y l IH]; intros a m x; cbn [length seqN combine In].
  - split; [tauto|]. intros [[|i] [H _]]; discriminate.
  - rewrite IH. split.
    + intros [E|[i [H ->]]].
      * inversion E; subst. exists O. split; [reflexivity|lia].
      * exists (S i). split; [exact H|lia].
    + intros [[|i] [H ->]].
      * left. cbn in H. inversion H. f_equal. lia.
      * right. exists i. split; [exact H|lia].
Qed.

Definition ops1_of (first : N) (items : list fitem) : list dop :=
  flat_map (fun (ni : N * fitem) =>
              if fst ni =? 0 then []
              else [DBlockNoNum (fst ni) (fi_hash (snd ni)); DCanon (fst ni)])
           (combine (seqN first (length items)) items).

Lemma ops1_In first items o :
  In o (ops1_of first items) <->
  exists i it, nth_error items i = Some it /\ first + N.of_nat i <> 0 /\
               (o = DBlockNoNum (first + N.of_nat i) (fi_hash it) \/ o = DCanon (first + N.of_nat i)).
Proof.
  unfold ops1_of. rewrite in_flat_map. split.
  - intros [[m it] [H1 H2]]. apply In_combine_seqN in H1 as [i [H ->]]. cbn [fst snd] in H2.
    destruct (first + N.of_nat i =? 0) eqn:E; [destruct H2|].
    apply N.eqb_neq in E. exists i, it. split; [auto|]. split; [auto|].
    destruct H2 as [<-|[<-|[]]]; auto.
  - intros (i & it & H & Hz & Ho). exists (first + N.of_nat i, it). split.
    + apply In_combine_seqN. eauto.
    + cbn [fst snd]. apply N.eqb_neq in Hz. rewrite Hz. destruct Ho as [->| ->]; cbn; auto.
Qed.

Lemma side_pass_spec k numbers :
  (forall o, In o (fst (side_pass k numbers)) ->
     exists m h, o = DBlock m h /\ In m numbers /\ m <> 0 /\ In h (all_hashes k m)) /\
  (forall x, In x (snd (side_pass k numbers)) ->
     exists m, In m numbers /\ m <> 0 /\ In x (all_hashes k m)) /\
  (forall m h, In m numbers -> m <> 0 -> In h (all_hashes k m) ->
     In (DBlock m h) (fst (side_pass k numbers))).
Proof.
  unfold side_pass. induction numbers as [|x l IH] using rev_ind.
  - cbn. split; [|split]; intros; tauto.
  - rewrite fold_left_app. cbn [fold_left].
    destruct IH as (A1 & A2 & A3).
    destruct (x =? 0) eqn:E.
    + apply N.eqb_eq in E; subst x. split; [|split].
      * intros o H. destruct (A1 o H) as (m & h & ? & ? & ? & ?). exists m, h.
        rewrite in_app_iff. auto.
      * intros y H. destruct (A2 y H) as (m & ? & ? & ?). exists m. rewrite in_app_iff. auto.
      * intros m h H Hz Hh. apply in_app_iff in H as [H|[<-|[]]]; [auto|congruence].
    + apply N.eqb_neq in E. cbn [fst snd]. split; [|split].
      * intros o H. apply in_app_iff in H as [H|H].
        -- destruct (A1 o H) as (m & h & ? & ? & ? & ?). exists m, h. rewrite in_app_iff. auto.
        -- apply in_map_iff in H as (h & <- & Hh). exists x, h. rewrite in_app_iff. cbn. auto.
      * intros y H. exists x. rewrite in_app_iff. cbn. auto.
      * intros m h H Hz Hh. apply in_app_iff. apply in_app_iff in H as [H|[<-|[]]]; [left; auto|].
        right. apply in_map. exact Hh.
Qed.

Lemma mem_In p l : mem p l = true <-> In p l.
Proof.
  unfold mem. rewrite existsb_exists. split.
  - intros (x & H & E). apply N.eqb_eq in E. subst; auto.
  - intros H. exists p. split; [auto|apply N.eqb_refl].
Qed.


(* ================= the reference state and the relation ================= *)
Section Ref.
Variable s0 : st.
Definition C (n : N) : hash := read_canonical_hash s0 n.
Definition V (n : N) : view := view_of s0 (C n) n.

(* the canonical block at this height is complete (freezeRange would accept it) *)
Definition complete (v : view) : Prop :=
  nonempty (v_hdr v) = true /\ v_has_hdr v = true /\
  nonempty (v_body v) = true /\ v_cbody v = v_body v /\ v_cbody_nil v = v_body v /\ v_has_body v = true /\
  nonempty (v_rcpt v) = true /\ v_crcpt v = v_rcpt v /\ v_crcpt_nil v = v_rcpt v /\ v_has_rcpt v = true.

Definition item_matches (n : N) (it : fitem) : Prop :=
  fi_hash it = C n /\ C n <> 0 /\ fi_hdr it = v_hdr (V n) /\ keccak (v_hdr (V n)) = C n /\
  fi_body it = v_body (V n) /\ fi_rcpt it = v_rcpt (V n) /\ fi_bal it = v_bal (V n) /\
  complete (V n).

Definition submap2 {X} (m m0 : list (k2 * X)) : Prop :=
  forall key v, get2 key m = Some v -> get2 key m0 = Some v.

Definition submap1 {X} (m m0 : list (N * X)) : Prop :=
  forall key v, get1 key m = Some v -> get1 key m0 = Some v.

Record Rel (t : st) : Prop := mkRel {
  R_items : forall n it, ancient (s_fz t) n = Some it -> item_matches n it;
  R_kv : forall n, f_durable (s_fz t) <= n -> C n <> 0 -> view_of (nofreeze t) (C n) n = V n;
  R_sub_hdr : submap2 (k_hdr (s_kv t)) (k_hdr (s_kv s0));
  R_sub_bal : submap2 (k_bal (s_kv t)) (k_bal (s_kv s0));
  R_sub_canon : submap1 (k_canon (s_kv t)) (k_canon (s_kv s0));
  R_num : forall n, C n <> 0 -> get1 (C n) (k_num (s_kv t)) = get1 (C n) (k_num (s_kv s0));
  R_txl : k_txl (s_kv t) = k_txl (s_kv s0);
  R_dur : f_durable (s_fz s0) <= f_durable (s_fz t) /\ f_durable (s_fz t) <= frozen (s_fz t)
}.

(* the precondition on the chain: canonical headers are stored under their Keccak
   hash, are decodable and point to the canonical parent, and no canonical hash is
   the key of a header at another height *)
Record Inv : Prop := mkInv {
  I_rel : Rel s0;
  I_hashed : forall n h b, In ((n, h), b) (k_hdr (s_kv s0)) -> h = C n -> keccak b = h;
  I_linked : forall n h b, In ((n, h), b) (k_hdr (s_kv s0)) -> 1 <= n -> h = C n ->
                           hdr_parent b = Some (C (n - 1));
  I_uniq : forall n m h b, In ((m, h), b) (k_hdr (s_kv s0)) -> h = C n -> C n <> 0 -> m = n
}.

(* ---------------- Rel implies equal views ---------------- *)
Lemma view_ext v w :
  v_canon v = v_canon w -> v_hdr v = v_hdr w -> v_has_hdr v = v_has_hdr w -> v_parent v = v_parent w ->
  v_body v = v_body w -> v_cbody v = v_cbody w -> v_cbody_nil v = v_cbody_nil w -> v_has_body v = v_has_body w ->
  v_rcpt v = v_rcpt w -> v_crcpt v = v_crcpt w -> v_crcpt_nil v = v_crcpt_nil w -> v_has_rcpt v = v_has_rcpt w ->
  v_bal v = v_bal w -> v_num v = v_num w -> v = w.
Proof. destruct v, w; cbn; intros; subst; reflexivity. Qed.

Lemma bal_kv_empty n : v_bal (V n) = [] -> oblob (get2 (n, C n) (k_bal (s_kv s0))) = [].
Proof.
  unfold V, ChainFreezer.view_of; cbn [v_bal]. unfold read_bal_rlp.
  destruct (is_canon s0 n (C n)); [|auto].
  destruct (ancient (s_fz s0) n) as [it|]; [|auto].
  destruct (nonempty (fi_bal it)) eqn:E; [|auto].
  intros H. rewrite H in E. discriminate.
Qed.

Theorem rel_view t n : Rel t -> C n <> 0 -> view_of t (C n) n = V n.
Proof.
  intros R HC. destruct (ancient (s_fz t) n) as [it|] eqn:A.
  - destruct (R_items t R n it A) as (E1 & _ & E2 & E3 & E4 & E5 & E6 & Cm).
    destruct Cm as (c1 & c2 & c3 & c4 & c5 & c6 & c7 & c8 & c9 & c10).
    assert (Hnum := R_num t R n HC).
    assert (Hbal : v_bal (V n) = [] -> oblob (get2 (n, C n) (k_bal (s_kv t))) = []).
    { intros Hb. apply bal_kv_empty in Hb.
      destruct (get2 (n, C n) (k_bal (s_kv t))) as [v|] eqn:G; [|reflexivity].
      apply (R_sub_bal t R) in G. rewrite G in Hb. exact Hb. }
    apply view_ext; unfold V at 1; unfold ChainFreezer.view_of;
      cbn [v_canon v_hdr v_has_hdr v_parent v_body v_cbody v_cbody_nil v_has_body
           v_rcpt v_crcpt v_crcpt_nil v_has_rcpt v_bal v_num];
      unfold read_canonical_hash, ChainFreezer.read_header_rlp, has_header,
        read_body_rlp, read_canonical_body_rlp, has_body, read_receipts_rlp,
        read_canonical_receipts_rlp, has_receipts, read_bal_rlp, is_canon, read_header_number;
      rewrite ?A, ?E1, ?N.eqb_refl; cbn [andb orb].
    + reflexivity.
    + rewrite E2, c1, E3, N.eqb_refl. reflexivity.
    + symmetry; exact c2.
    + rewrite E2, c1, E3, N.eqb_refl. reflexivity.
    + exact E4.
    + rewrite E4, c3. symmetry; exact c4.
    + rewrite E4, c3. symmetry; exact c5.
    + symmetry; exact c6.
    + exact E5.
    + rewrite E5, c7. symmetry; exact c8.
    + rewrite E5, c7. symmetry; exact c9.
    + symmetry; exact c10.
    + rewrite E6. destruct (nonempty (v_bal (V n))) eqn:Eb; [reflexivity|].
      assert (Hb0 : v_bal (V n) = []) by (destruct (v_bal (V n)); [reflexivity|discriminate]).
      rewrite (Hbal Hb0). symmetry; exact Hb0.
    + exact Hnum.
  - rewrite (view_nofreeze _ _ _ A). apply (R_kv t R); [|exact HC].
    destruct (R_dur t R) as [_ H2].
    destruct (N.lt_ge_cases n (frozen (s_fz t))) as [L|L]; [|lia].
    destruct (ancient_lt _ _ L) as [it E]. congruence.
Qed.

(* ---------------- key-value-only views, field by field ---------------- *)
Lemma nofreeze_view t h n :
  view_of (nofreeze t) h n =
  let k := s_kv t in
  mkView (ohash (get1 n (k_canon k))) (oblob (get2 (n, h) (k_hdr k))) (kv_has (n, h) (k_hdr k))
         (hdr_parent (oblob (get2 (n, h) (k_hdr k))))
         (oblob (get2 (n, h) (k_body k))) (oblob (get2 (n, h) (k_body k)))
         (oblob (get2 (n, ohash (get1 n (k_canon k))) (k_body k))) (kv_has (n, h) (k_body k))
         (oblob (get2 (n, h) (k_rcpt k))) (oblob (get2 (n, h) (k_rcpt k)))
         (oblob (get2 (n, ohash (get1 n (k_canon k))) (k_rcpt k))) (kv_has (n, h) (k_rcpt k))
         (oblob (get2 (n, h) (k_bal k))) (get1 h (k_num k)).
Proof.
  unfold ChainFreezer.view_of, read_canonical_hash, ChainFreezer.read_header_rlp, has_header,
    read_body_rlp, read_canonical_body_rlp, has_body, read_receipts_rlp, read_canonical_receipts_rlp,
    has_receipts, read_bal_rlp, is_canon, read_header_number, nofreeze.
  cbn [s_fz s_kv]. rewrite !ancient_nil. reflexivity.
Qed.

Lemma nonempty_oblob (o : option blob) : nonempty (oblob o) = true -> exists b, o = Some b.
Proof. destruct o; [eauto | discriminate]. Qed.

Lemma canon_nonzero t n :
  Rel s0 -> Rel t -> ohash (get1 n (k_canon (s_kv t))) <> 0 -> C n <> 0.
Proof.
  intros R0 R H. assert (S := R_sub_canon _ R). destruct (get1 n (k_canon (s_kv t))) as [h|] eqn:G; [|cbn in H; congruence].
  cbn in H. apply S in G. unfold C, read_canonical_hash.
  destruct (ancient (s_fz s0) n) as [it|] eqn:A.
  - destruct (R_items _ R0 n it A) as (E1 & E2 & _). unfold C, read_canonical_hash in E1, E2.
    rewrite A in E1, E2. exact E2.
  - rewrite G. exact H.
Qed.

(* ---------------- freezeRange ---------------- *)
Definition item_ok (k : kvs) (n : N) (it : fitem) : Prop :=
  let h := ohash (get1 n (k_canon k)) in
  fi_hash it = h /\ h <> 0 /\
  fi_hdr it = oblob (get2 (n, h) (k_hdr k)) /\ nonempty (fi_hdr it) = true /\
  fi_body it = oblob (get2 (n, h) (k_body k)) /\ nonempty (fi_body it) = true /\
  fi_rcpt it = oblob (get2 (n, h) (k_rcpt k)) /\ nonempty (fi_rcpt it) = true /\
  fi_bal it = oblob (get2 (n, h) (k_bal k)).

Lemma range_ok fuel k : forall number limit acc res,
  freeze_range_loop fuel k number limit acc = RangeOk res ->
  exists items, res = rev acc ++ items /\
    forall i it, nth_error items i = Some it -> item_ok k (number + N.of_nat i) it.
Proof.
  induction fuel as [|fuel IH]; intros number limit acc res; cbn [freeze_range_loop];
    destruct (limit <? number).
  - intros H; inversion H. exists []. rewrite app_nil_r. split; [reflexivity|].
    intros [|i] it; discriminate.
  - discriminate.
  - intros H; inversion H. exists []. rewrite app_nil_r. split; [reflexivity|].
    intros [|i] it; discriminate.
  - set (h := ohash (get1 number (k_canon k))).
    destruct (h =? 0) eqn:E0; [discriminate|].
    destruct (nonempty (oblob (get2 (number, h) (k_hdr k)))) eqn:E1; cbn [negb]; [|discriminate].
    destruct (nonempty (oblob (get2 (number, h) (k_body k)))) eqn:E2; cbn [negb]; [|discriminate].
    destruct (nonempty (oblob (get2 (number, h) (k_rcpt k)))) eqn:E3; cbn [negb]; [|discriminate].
    intros H. apply IH in H as (items & -> & Hi).
    eexists (_ :: items). split; [cbn [rev]; rewrite <- app_assoc; reflexivity|].
    intros [|i] it Hn.
    + cbn in Hn. inversion Hn; subst it. rewrite N.add_0_r. unfold item_ok. fold h. cbn.
      apply N.eqb_neq in E0. repeat (split; [auto; fail|]); auto.
    + cbn in Hn. apply Hi in Hn. replace (number + N.of_nat (S i)) with (number + 1 + N.of_nat i) by lia.
      exact Hn.
Qed.

Hypothesis HR0 : Rel s0.
Hypothesis Hhashed : forall n h b, In ((n, h), b) (k_hdr (s_kv s0)) -> h = C n -> keccak b = h.
Hypothesis Hlinked : forall n h b, In ((n, h), b) (k_hdr (s_kv s0)) -> 1 <= n -> h = C n ->
                                   hdr_parent b = Some (C (n - 1)).
Hypothesis Huniq : forall n m h b, In ((m, h), b) (k_hdr (s_kv s0)) -> h = C n -> C n <> 0 -> m = n.

Lemma item_ok_matches t n it :
  Rel t -> f_durable (s_fz t) <= n -> item_ok (s_kv t) n it -> item_matches n it.
Proof.
  intros R Hd (E1 & E2 & E3 & E4 & E5 & E6 & E7 & E8 & E9).
  assert (HC : C n <> 0) by (eapply canon_nonzero; eauto).
  assert (Hv := R_kv _ R n Hd HC). rewrite nofreeze_view in Hv. cbv zeta in Hv.
  assert (Hh : ohash (get1 n (k_canon (s_kv t))) = C n).
  { apply (f_equal v_canon) in Hv. cbn [v_canon] in Hv. exact Hv. }
  rewrite Hh in *.
  assert (F2 := f_equal v_hdr Hv). assert (F3 := f_equal v_has_hdr Hv).
  assert (F5 := f_equal v_body Hv). assert (F6 := f_equal v_cbody Hv).
  assert (F7 := f_equal v_cbody_nil Hv). assert (F8 := f_equal v_has_body Hv).
  assert (F9 := f_equal v_rcpt Hv). assert (F10 := f_equal v_crcpt Hv).
  assert (F11 := f_equal v_crcpt_nil Hv). assert (F12 := f_equal v_has_rcpt Hv).
  assert (F13 := f_equal v_bal Hv).
  cbn [v_hdr v_has_hdr v_body v_cbody v_cbody_nil v_has_body v_rcpt v_crcpt v_crcpt_nil v_has_rcpt v_bal] in F2, F3, F5, F6, F7, F8, F9, F10, F11, F12, F13.
  rewrite E3 in E4. rewrite E5 in E6. rewrite E7 in E8.
  destruct (nonempty_oblob _ E4) as [bh Gh].
  destruct (nonempty_oblob _ E6) as [bb Gb].
  destruct (nonempty_oblob _ E8) as [br Gr].
  unfold item_matches, complete.
  rewrite <- F2, <- F5, <- F6, <- F7, <- F9, <- F10, <- F11, <- F13, <- F3, <- F8, <- F12.
  unfold kv_has. rewrite Gh, Gb, Gr in *. cbn [oblob] in *.
  assert (Hk : keccak bh = C n).
  { apply (R_sub_hdr _ R) in Gh. apply get2_In in Gh. eapply Hhashed; eauto. }
  repeat (split; [assumption || reflexivity|]). reflexivity.
Qed.

(* ---------------- steps that only shrink the key-value store ---------------- *)
Lemma rel_kv_step t k' :
  Rel t ->
  (forall n, f_durable (s_fz t) <= n -> C n <> 0 -> kv_agree k' (s_kv t) (C n) n) ->
  submap2 (k_hdr k') (k_hdr (s_kv t)) -> submap2 (k_bal k') (k_bal (s_kv t)) ->
  submap1 (k_canon k') (k_canon (s_kv t)) ->
  (forall n, C n <> 0 -> get1 (C n) (k_num k') = get1 (C n) (k_num (s_kv t))) ->
  k_txl k' = k_txl (s_kv t) ->
  Rel (mkSt k' (s_fz t)).
Proof.
  intros R Hag S1 S2 S3 Hn Ht. constructor; cbn [s_kv s_fz].
  - apply (R_items _ R).
  - intros n Hd HC. assert (Hv := R_kv _ R n Hd HC).
    rewrite <- Hv. destruct t as [k f]. cbn [s_kv s_fz] in *.
    apply view_nofreeze_agree; [apply Hag; auto|].
    destruct (Hag n Hd HC) as (A1 & _). rewrite A1.
    rewrite nofreeze_view in Hv. apply (f_equal v_canon) in Hv. exact Hv.
  - intros key v G. apply (R_sub_hdr _ R). auto.
  - intros key v G. apply (R_sub_bal _ R). auto.
  - intros key v G. apply (R_sub_canon _ R). auto.
  - intros n HC. rewrite Hn by auto. apply (R_num _ R); auto.
  - rewrite Ht. apply (R_txl _ R).
  - apply (R_dur _ R).
Qed.

Definition op_safe (n : N) (o : dop) : Prop :=
  hits_blk (n, C n) o = false /\ hits_canon n o = false /\ hits_num (C n) o = false.

Lemma wb_agree ops k n : Forall (op_safe n) ops -> kv_agree (write_batch ops k) k (C n) n.
Proof.
  intros F. destruct (wb_fields ops k) as (I1 & I2 & I3 & I4 & I5 & I6 & _).
  assert (H1 : existsb (hits_blk (n, C n)) ops = false).
  { apply existsb_false. eapply Forall_impl; [|exact F]. intros o (a & _); exact a. }
  assert (H2 : existsb (hits_canon n) ops = false).
  { apply existsb_false. eapply Forall_impl; [|exact F]. intros o (_ & a & _); exact a. }
  assert (H3 : existsb (hits_num (C n)) ops = false).
  { apply existsb_false. eapply Forall_impl; [|exact F]. intros o (_ & _ & a); exact a. }
  unfold kv_agree. rewrite I1, I2, I3, I4, I5, I6, H1, H2, H3. repeat split.
Qed.

Lemma rel_write t ops :
  Rel t ->
  (forall n, f_durable (s_fz t) <= n -> C n <> 0 -> Forall (op_safe n) ops) ->
  (forall n, C n <> 0 -> Forall (fun o => hits_num (C n) o = false) ops) ->
  Rel (mkSt (write_batch ops (s_kv t)) (s_fz t)).
Proof.
  intros R H1 H2. destruct (wb_fields ops (s_kv t)) as (I1 & _ & _ & I4 & I5 & I6 & I7).
  apply rel_kv_step; auto.
  - intros n Hd HC. apply wb_agree; auto.
  - intros key v G. rewrite I1 in G. destruct (existsb _ ops); [discriminate|exact G].
  - intros key v G. rewrite I4 in G. destruct (existsb _ ops); [discriminate|exact G].
  - intros key v G. rewrite I5 in G. destruct (existsb _ ops); [discriminate|exact G].
  - intros n HC. rewrite I6, existsb_false; auto.
Qed.

Definition dgood (k : kvs) (lo : N) (o : dop) : Prop :=
  exists tip c, o = DBlock tip c /\ lo <= tip /\ c <> C tip /\ get2 (tip, c) (k_hdr k) <> None.

Lemma dangling_spec k lo :
  (forall n b, 1 <= n -> get2 (n, C n) (k_hdr k) = Some b -> hdr_parent b = Some (C (n - 1))) ->
  forall fuel tip dangling acc,
    1 <= tip -> lo <= tip -> ~ In (C (tip - 1)) dangling -> Forall (dgood k lo) acc ->
    Forall (dgood k lo) (fst (dangling_pass fuel k tip dangling acc)).
Proof.
  intros Hl. induction fuel as [|fuel IH]; intros tip dangling acc H1 Hlo Hnot Hacc;
    destruct dangling as [|d0 dl]; cbn [ChainFreezer.dangling_pass fst]; auto.
  set (dg := d0 :: dl) in *.
  assert (Hct : forall b, get2 (tip, C tip) (k_hdr k) = Some b ->
                          ChainFreezer.hdr_parent parent_of (oblob (Some b)) = Some (C (tip - 1))).
  { intros b G. cbn [oblob]. apply Hl; auto. }
  apply IH; [lia|lia| |].
  - replace (tip + 1 - 1) with tip by lia. intros Hin.
    apply filter_In in Hin as [Hin Hk]. apply all_hashes_In in Hin.
    destruct (get2 (tip, C tip) (k_hdr k)) as [b|] eqn:G; [|congruence].
    unfold child_keep in Hk. rewrite G, (Hct b eq_refl) in Hk. apply mem_In in Hk. contradiction.
  - apply Forall_app. split; [exact Hacc|]. apply Forall_forall. intros o Ho.
    apply in_map_iff in Ho as (c & <- & Hc). apply filter_In in Hc as [Hc Hd].
    exists tip, c. split; [reflexivity|]. split; [exact Hlo|]. apply all_hashes_In in Hc.
    split; [|exact Hc]. intros ->.
    destruct (get2 (tip, C tip) (k_hdr k)) as [b|] eqn:G; [|congruence].
    unfold child_del in Hd. rewrite G, (Hct b eq_refl) in Hd. apply mem_In in Hd. contradiction.
Qed.

(* ---------------- one iteration preserves the relation ---------------- *)
Lemma rel_append k a d items :
  Rel (mkSt k (mkFrz a d)) ->
  (forall i it, nth_error items i = Some it -> item_ok k (N.of_nat (length a) + N.of_nat i) it) ->
  Rel (mkSt k (mkFrz (a ++ items) d)).
Proof.
  intros R Hi. constructor; cbn [s_kv s_fz f_durable].
  - intros n it A. rewrite (ancient_app a items d d n) in A.
    destruct (n <? N.of_nat (length a)) eqn:E.
    + apply (R_items _ R n it A).
    + apply Hi in A. replace (N.of_nat (length a) + N.of_nat (N.to_nat (n - N.of_nat (length a)))) with n in A by lia.
      eapply item_ok_matches; [exact R| |exact A]. cbn [s_fz f_durable].
      destruct (R_dur _ R) as [_ H]. cbn [s_fz f_durable] in H. unfold frozen in H; cbn [f_items] in H. lia.
  - apply (R_kv _ R).
  - apply (R_sub_hdr _ R).
  - apply (R_sub_bal _ R).
  - apply (R_sub_canon _ R).
  - apply (R_num _ R).
  - apply (R_txl _ R).
  - destruct (R_dur _ R) as [H1 H2]. cbn [s_fz f_durable] in *. split; [exact H1|].
    unfold frozen in *; cbn [f_items] in *. rewrite app_length. lia.
Qed.

Lemma rel_sync k its d :
  Rel (mkSt k (mkFrz its d)) -> Rel (mkSt k (mkFrz its (frozen (mkFrz its d)))).
Proof.
  intros R. destruct (R_dur _ R) as [H1 H2]. cbn [s_fz f_durable] in *.
  constructor; cbn [s_kv s_fz f_durable].
  - apply (R_items _ R).
  - intros n Hd HC. apply (R_kv _ R n); [cbn [s_fz f_durable]; lia | exact HC].
  - apply (R_sub_hdr _ R).
  - apply (R_sub_bal _ R).
  - apply (R_sub_canon _ R).
  - apply (R_num _ R).
  - apply (R_txl _ R).
  - unfold frozen in *; cbn [f_items] in *. lia.
Qed.

Lemma uniq_get t m n b : Rel t -> get2 (m, C n) (k_hdr (s_kv t)) = Some b -> C n <> 0 -> m = n.
Proof.
  intros R G HC. apply (R_sub_hdr _ R) in G. apply get2_In in G. eapply Huniq; eauto.
Qed.

Lemma cycle_rel bl s : Rel s -> Forall Rel (snd (cycle bl s)).
Proof.
  intros R. destruct s as [k [a d]]. unfold ChainFreezer.cycle. cbn [s_kv s_fz].
  destruct (freeze_threshold k) as [th|]; [|constructor].
  destruct (negb (frozen (mkFrz a d) =? 0) && (th <=? frozen (mkFrz a d) - 1)); [constructor|].
  cbv zeta.
  match goal with |- context [freeze_range_loop ?fu k ?fi ?la []] =>
    destruct (freeze_range_loop fu k fi la []) as [items|c] eqn:FR end; [|constructor].
  apply range_ok in FR as (items' & E & Hitems). cbn [rev app] in E. subst items'.
  set (first := frozen (mkFrz a d)) in *.
  assert (Hfirst : first = N.of_nat (length a)) by reflexivity.
  cbn [f_items f_durable].
  set (f1 := mkFrz (a ++ items) d).
  set (f2 := mkFrz (a ++ items) (frozen f1)).
  assert (Hfr : frozen f2 = first + N.of_nat (length items)).
  { unfold frozen, f2; cbn [f_items]. rewrite app_length. lia. }
  assert (Hfr1 : frozen f1 = frozen f2) by reflexivity.
  assert (R1 : Rel (mkSt k f1)).
  { apply rel_append; [exact R|]. rewrite <- Hfirst. exact Hitems. }
  assert (R2 : Rel (mkSt k f2)) by (apply rel_sync; exact R1).
  (* the items of this iteration *)
  assert (Hnew : forall n, first <= n < frozen f2 ->
            exists it, nth_error items (N.to_nat (n - first)) = Some it /\ fi_hash it = C n /\ C n <> 0).
  { intros n Hn. destruct (ancient_lt f2 n) as [it A]; [lia|].
    destruct (R_items _ R2 n it A) as (E1 & E2 & _).
    unfold f2 in A. rewrite (ancient_app a items _ d n) in A.
    destruct (n <? N.of_nat (length a)) eqn:E; [lia|]. rewrite <- Hfirst in A. eauto. }
  fold (ops1_of first items).
  set (k3 := write_batch (ops1_of first items) k).
  assert (Hdel : forall n, first <= n < frozen f2 -> n <> 0 -> get2 (n, C n) (k_hdr k3) = None).
  { intros n Hn Hz. destruct (Hnew n Hn) as (it & Hi & Hh & _).
    destruct (wb_fields (ops1_of first items) k) as (I1 & _). unfold k3. rewrite I1.
    replace (existsb (hits_blk (n, C n)) (ops1_of first items)) with true; [reflexivity|].
    symmetry. apply existsb_exists. exists (DBlockNoNum n (C n)). split; [|cbn; apply k2eq_refl].
    apply ops1_In. exists (N.to_nat (n - first)), it.
    replace (first + N.of_nat (N.to_nat (n - first))) with n by lia. rewrite Hh. auto. }
  assert (R3 : Rel (mkSt k3 f2)).
  { apply (rel_write (mkSt k f2) (ops1_of first items) R2); cbn [s_fz f_durable].
    - intros n Hd HC. apply Forall_forall. intros o Ho. apply ops1_In in Ho as (i & it & Hi & Hz & Ho).
      assert (Hlt : (i < length items)%nat) by (apply nth_error_Some; congruence).
      assert (Hd' : frozen f2 <= n) by exact Hd.
      assert (first + N.of_nat i <> n) by lia.
      destruct Ho as [-> | ->]; unfold op_safe; cbn [hits_blk hits_canon hits_num];
        repeat split; try reflexivity.
      + apply k2eq_neq. intros E. inversion E. congruence.
      + apply N.eqb_neq. congruence.
    - intros n HC. apply Forall_forall. intros o Ho. apply ops1_In in Ho as (i & it & _ & _ & Ho).
      destruct Ho as [-> | ->]; reflexivity. }
  set (numbers := seqN first (N.to_nat (frozen f2 - first))).
  assert (Hnumbers : forall m, In m numbers -> first <= m < frozen f2).
  { intros m Hm. apply In_seqN in Hm. lia. }
  destruct (side_pass_spec k3 numbers) as (S1 & S2 & _).
  set (sp := side_pass k3 numbers) in *.
  assert (Hside : forall m h n, In m numbers -> m <> 0 -> In h (all_hashes k3 m) -> C n <> 0 -> h <> C n).
  { intros m h n Hm Hz Hh HC ->. apply all_hashes_In in Hh.
    destruct (get2 (m, C n) (k_hdr k3)) as [b|] eqn:G; [|congruence].
    assert (m = n) by (eapply (uniq_get (mkSt k3 f2)); eauto). subst m.
    rewrite Hdel in G; [discriminate|auto|auto]. }
  set (k4 := write_batch (fst sp) k3).
  assert (R4 : Rel (mkSt k4 f2)).
  { apply (rel_write (mkSt k3 f2) (fst sp) R3); cbn [s_fz f_durable].
    - intros n Hd HC. apply Forall_forall. intros o Ho.
      destruct (S1 o Ho) as (m & h & -> & Hm & Hz & Hh).
      apply Hnumbers in Hm as Hm'. assert (Hd' : frozen f2 <= n) by exact Hd. unfold op_safe; cbn [hits_blk hits_canon hits_num]. repeat split.
      + apply k2eq_neq. intros E. inversion E. lia.
      + apply N.eqb_neq. intros E. symmetry in E. eapply Hside; eauto.
    - intros n HC. apply Forall_forall. intros o Ho.
      destruct (S1 o Ho) as (m & h & -> & Hm & Hz & Hh). cbn [hits_num].
      apply N.eqb_neq. intros E. symmetry in E. eapply Hside; eauto. }
  assert (Hsafe : forall ops, Forall (dgood k4 (frozen f2)) ops ->
            Rel (mkSt (write_batch ops k4) f2)).
  { intros ops F. apply (rel_write (mkSt k4 f2) ops R4); cbn [s_fz f_durable].
    - intros n Hd HC. eapply Forall_impl; [|exact F]. intros o (tip & c & -> & Hlo & Hc & Hg).
      unfold op_safe; cbn [hits_blk hits_canon hits_num]. repeat split.
      + apply k2eq_neq. intros E. inversion E. subst. congruence.
      + apply N.eqb_neq. intros E. subst c.
        destruct (get2 (tip, C n) (k_hdr k4)) as [b|] eqn:G; [|congruence].
        assert (tip = n) by (eapply (uniq_get (mkSt k4 f2)); eauto). subst. congruence.
    - intros n HC. eapply Forall_impl; [|exact F]. intros o (tip & c & -> & Hlo & Hc & Hg).
      cbn [hits_num]. apply N.eqb_neq. intros E. subst c.
      destruct (get2 (tip, C n) (k_hdr k4)) as [b|] eqn:G; [|congruence].
      assert (tip = n) by (eapply (uniq_get (mkSt k4 f2)); eauto). subst. congruence. }
  destruct (0 <? frozen f2) eqn:Epos; cbn [snd].
  2: { repeat (constructor; [assumption|]). constructor. }
  repeat (constructor; [assumption|]). constructor; [|constructor]. apply Hsafe.
  apply dangling_spec; [| lia | lia | | constructor].
  - intros n b Hn G. apply (R_sub_hdr _ R4) in G. apply get2_In in G. eapply Hlinked; eauto; lia.
  - intros Hin. destruct (S2 _ Hin) as (m & Hm & Hz & Hh). apply Hnumbers in Hm as Hm'.
    destruct (Hnew (frozen f2 - 1)) as (_ & _ & _ & HC); [lia|].
    eapply Hside; eauto.
Qed.

(* ---------------- crash, markers, histories ---------------- *)
Lemma rel_crash keep t : Rel t -> crash_ok keep t = true -> Rel (crash keep t).
Proof.
  intros R Hc. unfold crash_ok in Hc. apply andb_true_iff in Hc as [H1 H2].
  destruct t as [k [its d]]. unfold crash; cbn [s_kv s_fz f_items f_durable] in *.
  constructor; cbn [s_kv s_fz f_durable].
  - intros n it A. apply ancient_firstn in A. apply (R_items _ R n it A).
  - apply (R_kv _ R).
  - apply (R_sub_hdr _ R).
  - apply (R_sub_bal _ R).
  - apply (R_sub_canon _ R).
  - apply (R_num _ R).
  - apply (R_txl _ R).
  - destruct (R_dur _ R) as [D1 D2]. cbn [s_fz f_durable] in *. split; [exact D1|].
    unfold frozen in *; cbn [f_items] in *. rewrite firstn_length. lia.
Qed.

Lemma rel_markers hb hh fin t : Rel t -> Rel (set_markers hb hh fin t).
Proof.
  intros R. constructor; unfold set_markers; cbn [s_kv s_fz k_hdr k_bal k_canon k_num k_txl].
  - apply (R_items _ R).
  - intros n Hd HC. rewrite <- (R_kv _ R n Hd HC). rewrite !nofreeze_view. reflexivity.
  - apply (R_sub_hdr _ R).
  - apply (R_sub_bal _ R).
  - apply (R_sub_canon _ R).
  - apply (R_num _ R).
  - apply (R_txl _ R).
  - apply (R_dur _ R).
Qed.

Lemma step_rel bl s e : Rel s -> Rel (step bl s e) /\ Forall Rel (visible bl s e).
Proof.
  intros R. assert (Hc := cycle_rel bl s R).
  destruct e as [hb hh fin| |stop keep]; cbn [ChainFreezer.step ChainFreezer.visible].
  - split; [|constructor; [|constructor]]; apply rel_markers; exact R.
  - split; [apply Forall_last; auto | exact Hc].
  - assert (Rt : Rel (stop_state bl s stop)).
    { unfold ChainFreezer.stop_state. apply Forall_last; [apply Forall_firstn; exact Hc | exact R]. }
    assert (Rc : Rel (if crash_ok keep (stop_state bl s stop)
                      then crash keep (stop_state bl s stop) else stop_state bl s stop)).
    { destruct (crash_ok keep _) eqn:E; [apply rel_crash; auto | exact Rt]. }
    split; [exact Rc|]. apply Forall_app. split; [apply Forall_firstn; exact Hc|].
    constructor; [exact Rc|constructor].
Qed.

Lemma history_rel bl evs : forall s, Rel s -> Rel (run bl s evs) /\ Forall Rel (visible_all bl s evs).
Proof.
  induction evs as [|e evs IH]; intros s R; cbn [ChainFreezer.run ChainFreezer.visible_all].
  - split; [exact R|constructor].
  - destruct (step_rel bl s e R) as [R1 F1]. destruct (IH _ R1) as [R2 F2].
    split; [exact R2|]. apply Forall_app. split; assumption.
Qed.

(* ---------------- consequences of the relation ---------------- *)
Lemma rel_canon_all t n : Rel t -> read_canonical_hash t n = C n.
Proof.
  intros R. destruct (N.eq_dec (C n) 0) as [Z|NZ].
  - unfold read_canonical_hash. destruct (ancient (s_fz t) n) as [it|] eqn:A.
    + destruct (R_items _ R n it A) as (_ & H & _). contradiction.
    + rewrite Z. destruct (get1 n (k_canon (s_kv t))) as [h|] eqn:G; [|reflexivity].
      apply (R_sub_canon _ R) in G. cbn [ohash].
      unfold C, read_canonical_hash in Z. destruct (ancient (s_fz s0) n) as [it0|] eqn:A0.
      * destruct (R_items _ HR0 n it0 A0) as (E1 & E2 & _). unfold C, read_canonical_hash in E2.
        rewrite A0 in E2. contradiction.
      * rewrite G in Z. exact Z.
  - apply (f_equal v_canon (rel_view t n R NZ)).
Qed.

Lemma rel_tx (find_tx : blob -> N -> option N) t th :
  Rel t -> read_canonical_tx find_tx t th = read_canonical_tx find_tx s0 th.
Proof.
  intros R. unfold read_canonical_tx, read_tx_lookup. rewrite (R_txl _ R).
  destruct (get1 th (k_txl (s_kv s0))) as [n|]; [|reflexivity].
  rewrite (rel_canon_all t n R), (rel_canon_all s0 n HR0).
  destruct (C n =? 0) eqn:E; [reflexivity|]. apply N.eqb_neq in E.
  assert (H := f_equal v_cbody (rel_view t n R E)).
  assert (H0 := f_equal v_cbody (rel_view s0 n HR0 E)).
  cbn [ChainFreezer.view_of v_cbody] in H, H0. unfold ChainFreezer.view_of in H, H0.
  cbn [v_cbody] in H, H0. rewrite H, <- H0. reflexivity.
Qed.

End Ref.

(* ================= closed statements ================= *)
Definition canon0 (s0 : st) (n : N) : hash := read_canonical_hash s0 n.

Theorem freeze_preserves_accessors s0 bl evs t :
  Inv s0 -> In t (s0 :: visible_all bl s0 evs ++ [run bl s0 evs]) ->
  (forall n, canon0 s0 n <> 0 -> view_of t (canon0 s0 n) n = view_of s0 (canon0 s0 n) n) /\
  (forall n, read_canonical_hash t n = canon0 s0 n) /\
  (forall find_tx th, read_canonical_tx find_tx t th = read_canonical_tx find_tx s0 th).
Proof.
  intros [R0 Hh Hl Hu] Hin.
  assert (R : Rel s0 t).
  { destruct (history_rel s0 R0 Hh Hl Hu bl evs s0 R0) as [R1 F].
    destruct Hin as [<-|Hin]; [exact R0|]. apply in_app_iff in Hin as [Hin|[<-|[]]]; [|exact R1].
    rewrite Forall_forall in F. auto. }
  split; [|split].
  - intros n HC. apply (rel_view s0 t n R HC).
  - intros n. apply (rel_canon_all s0 R0 t n R).
  - intros find_tx th. apply (rel_tx s0 R0 find_tx t th R).
Qed.

(* at no visible state is a complete canonical block unreadable *)
Theorem no_canonical_unreadable s0 bl evs t n :
  Inv s0 -> In t (s0 :: visible_all bl s0 evs ++ [run bl s0 evs]) -> canon0 s0 n <> 0 ->
  let h := canon0 s0 n in
  (nonempty (read_header_rlp s0 h n) = true -> nonempty (read_header_rlp t h n) = true) /\
  (nonempty (read_body_rlp s0 h n) = true -> nonempty (read_body_rlp t h n) = true) /\
  (nonempty (read_receipts_rlp s0 h n) = true -> nonempty (read_receipts_rlp t h n) = true) /\
  (* and the block is in at least one of the two stores *)
  (nonempty (read_header_rlp s0 h n) = true ->
   (exists it, ancient (s_fz t) n = Some it /\ fi_hash it = h /\ fi_hdr it = read_header_rlp s0 h n) \/
   oblob (get2 (n, h) (k_hdr (s_kv t))) = read_header_rlp s0 h n).
Proof.
  intros I Hin HC h. destruct (freeze_preserves_accessors s0 bl evs t I Hin) as (Hv & _ & _).
  specialize (Hv n HC). fold h in Hv.
  assert (E1 := f_equal v_hdr Hv). assert (E2 := f_equal v_body Hv). assert (E3 := f_equal v_rcpt Hv).
  unfold ChainFreezer.view_of in E1, E2, E3. cbn [v_hdr v_body v_rcpt] in E1, E2, E3.
  split; [rewrite E1; auto|]. split; [rewrite E2; auto|]. split; [rewrite E3; auto|].
  intros Hne. revert E1. unfold ChainFreezer.read_header_rlp at 1.
  destruct (ancient (s_fz t) n) as [it|] eqn:A; [|intros E1; right; exact E1].
  destruct (nonempty (fi_hdr it) && (keccak (fi_hdr it) =? h)) eqn:E; [|intros E1; right; exact E1].
  intros E1. left. exists it. split; [reflexivity|]. split; [|exact E1].
  destruct I as [R0 Hh Hl Hu].
  assert (R : Rel s0 t).
  { destruct (history_rel s0 R0 Hh Hl Hu bl evs s0 R0) as [R1 F].
    destruct Hin as [<-|Hin]; [exact R0|]. apply in_app_iff in Hin as [Hin|[<-|[]]]; [|exact R1].
    rewrite Forall_forall in F. auto. }
  destruct (R_items s0 t R n it A) as (H1 & _). exact H1.
Qed.

(* the freezer always holds a gap-free prefix of the canonical chain, and what is not
   yet durable there is still complete in the key-value store *)
Theorem frozen_prefix_contiguous s0 bl evs t :
  Inv s0 -> In t (s0 :: visible_all bl s0 evs ++ [run bl s0 evs]) ->
  f_durable (s_fz t) <= frozen (s_fz t) /\
  (forall n, n < frozen (s_fz t) ->
     exists it, ancient (s_fz t) n = Some it /\ fi_hash it = canon0 s0 n /\ canon0 s0 n <> 0 /\
                fi_hdr it = read_header_rlp s0 (canon0 s0 n) n /\
                fi_body it = read_body_rlp s0 (canon0 s0 n) n /\
                fi_rcpt it = read_receipts_rlp s0 (canon0 s0 n) n) /\
  (forall n, f_durable (s_fz t) <= n -> canon0 s0 n <> 0 ->
     view_of (nofreeze t) (canon0 s0 n) n = view_of s0 (canon0 s0 n) n).
Proof.
  intros [R0 Hh Hl Hu] Hin.
  assert (R : Rel s0 t).
  { destruct (history_rel s0 R0 Hh Hl Hu bl evs s0 R0) as [R1 F].
    destruct Hin as [<-|Hin]; [exact R0|]. apply in_app_iff in Hin as [Hin|[<-|[]]]; [|exact R1].
    rewrite Forall_forall in F. auto. }
  split; [apply (R_dur s0 t R)|]. split.
  - intros n Hn. destruct (ancient_lt _ _ Hn) as [it A]. exists it. split; [exact A|].
    destruct (R_items s0 t R n it A) as (E1 & E2 & E3 & _ & E5 & E6 & _). auto.
  - intros n Hd HC. apply (R_kv s0 t R n Hd HC).
Qed.


(* a freeze cycle never deletes a canonical block that is not in the freezer: at every
   stop point of every history, for EVERY batch limit [bl] (in particular for cycles capped
   by the limit, where more blocks are eligible than are frozen), every canonical block at or
   above the freezer head is still answered by the key-value store alone exactly as before *)
Theorem never_deletes_unfrozen_canonical s0 bl evs t n :
  Inv s0 -> In t (s0 :: visible_all bl s0 evs ++ [run bl s0 evs]) ->
  frozen (s_fz t) <= n -> canon0 s0 n <> 0 ->
  view_of (nofreeze t) (canon0 s0 n) n = view_of s0 (canon0 s0 n) n.
Proof.
  intros I Hin Hn HC. destruct (frozen_prefix_contiguous s0 bl evs t I Hin) as (Hd & _ & H).
  apply H; [lia | exact HC].
Qed.

(* ---------------- side chains below the boundary ---------------- *)
Definition block_absent (k : kvs) (m : N) (h : hash) : Prop :=
  get2 (m, h) (k_hdr k) = None /\ get2 (m, h) (k_body k) = None /\
  get2 (m, h) (k_rcpt k) = None /\ get2 (m, h) (k_bal k) = None.

Lemma wb_hit ops k key : existsb (hits_blk key) ops = true ->
  block_absent (write_batch ops k) (fst key) (snd key).
Proof.
  intros H. destruct (wb_fields ops k) as (I1 & I2 & I3 & I4 & _). destruct key as [m h].
  unfold block_absent; cbn [fst snd].
  split; [|split; [|split]]; [rewrite I1|rewrite I2|rewrite I3|rewrite I4];
    (match goal with |- (if ?c then _ else _) = _ => assert (c = true) as -> by exact H end); reflexivity.
Qed.

Lemma wb_absent ops k m h : block_absent k m h -> block_absent (write_batch ops k) m h.
Proof.
  intros (A1 & A2 & A3 & A4). destruct (wb_fields ops k) as (I1 & I2 & I3 & I4 & _).
  unfold block_absent.
  split; [|split; [|split]]; [rewrite I1, A1|rewrite I2, A2|rewrite I3, A3|rewrite I4, A4];
    destruct (existsb _ ops); reflexivity.
Qed.

Lemma wb_hdr_none ops k key : get2 key (k_hdr k) = None -> get2 key (k_hdr (write_batch ops k)) = None.
Proof.
  intros A. destruct (wb_fields ops k) as (I1 & _). rewrite I1, A. destruct (existsb _ ops); auto.
Qed.

(* after a completed iteration: at every height of the migrated range (genesis
   excepted) no header is left in the key-value store, and every block that had a
   header there (canonical or not) is gone with its body, receipts and access list *)
Theorem side_chains_removed_below bl s b l :
  cycle bl s = (Froze b, l) ->
  let s' := last l s in
  forall m, frozen (s_fz s) <= m < frozen (s_fz s') -> m <> 0 ->
    (forall h, get2 (m, h) (k_hdr (s_kv s')) = None) /\
    (forall h, get2 (m, h) (k_hdr (s_kv s)) <> None -> block_absent (s_kv s') m h).
Proof.
  destruct s as [k [a d]]. unfold ChainFreezer.cycle. cbn [s_kv s_fz].
  destruct (freeze_threshold k) as [th|]; [|discriminate].
  destruct (negb (frozen (mkFrz a d) =? 0) && (th <=? frozen (mkFrz a d) - 1)); [discriminate|].
  cbv zeta.
  match goal with |- context [freeze_range_loop ?fu k ?fi ?la []] =>
    destruct (freeze_range_loop fu k fi la []) as [items|c] eqn:FR end; [|discriminate].
  clear FR. set (first := frozen (mkFrz a d)) in *. cbn [f_items f_durable].
  set (f1 := mkFrz (a ++ items) d). set (f2 := mkFrz (a ++ items) (frozen f1)).
  fold (ops1_of first items). set (k3 := write_batch (ops1_of first items) k).
  set (numbers := seqN first (N.to_nat (frozen f2 - first))).
  destruct (side_pass_spec k3 numbers) as (_ & _ & S3).
  set (sp := side_pass k3 numbers) in *. set (k4 := write_batch (fst sp) k3).
  assert (Hk4 : forall m, first <= m < frozen f2 -> m <> 0 ->
            (forall h, get2 (m, h) (k_hdr k4) = None) /\
            (forall h, get2 (m, h) (k_hdr k) <> None -> block_absent k4 m h)).
  { intros m Hm Hz. assert (Hin : In m numbers) by (unfold numbers; apply (proj2 (In_seqN _ _ _)); lia).
    assert (Hh : forall h, get2 (m, h) (k_hdr k3) <> None -> block_absent k4 m h).
    { intros h G. apply (wb_hit (fst sp) k3 (m, h)). apply existsb_exists.
      exists (DBlock m h). split; [|cbn; apply k2eq_refl]. apply S3; auto. apply all_hashes_In. exact G. }
    split.
    - intros h. destruct (get2 (m, h) (k_hdr k3)) eqn:G.
      + apply Hh. congruence.
      + apply wb_hdr_none. exact G.
    - intros h G. destruct (get2 (m, h) (k_hdr k3)) eqn:G3; [apply Hh; congruence|].
      (* the header disappeared in the first batch: it was the canonical one *)
      apply wb_absent. destruct (wb_fields (ops1_of first items) k) as (I1 & _).
      unfold k3 in G3. rewrite I1 in G3.
      destruct (existsb (hits_blk (m, h)) (ops1_of first items)) eqn:E; [|congruence].
      apply (wb_hit _ k (m, h) E). }
  destruct (0 <? frozen f2); intros E; inversion E; subst l; cbn [last s_kv s_fz];
    intros m Hm Hz; destruct (Hk4 m Hm Hz) as [H1 H2]; split; auto.
  - intros h. apply wb_hdr_none. auto.
  - intros h G. apply wb_absent. auto.
Qed.

Definition clean_below (s : st) : Prop :=
  forall m h, 1 <= m < frozen (s_fz s) -> get2 (m, h) (k_hdr (s_kv s)) = None.

Lemma cycle_frozen_mono bl s : frozen (s_fz s) <= frozen (s_fz (last (snd (cycle bl s)) s)).
Proof.
  destruct s as [k [a d]]. unfold ChainFreezer.cycle. cbn [s_kv s_fz].
  destruct (freeze_threshold k) as [th|]; [|cbn; lia].
  destruct (negb _ && _); [cbn; lia|]. cbv zeta.
  match goal with |- context [freeze_range_loop ?fu k ?fi ?la []] =>
    destruct (freeze_range_loop fu k fi la []) as [items|c] end; [|cbn; lia].
  destruct (0 <? _); cbn [snd last s_fz]; unfold frozen; cbn [f_items]; rewrite app_length; lia.
Qed.

Lemma cycle_hdr_sub bl s : Forall (fun t => submap2 (k_hdr (s_kv t)) (k_hdr (s_kv s))) (snd (cycle bl s)).
Proof.
  assert (Hw : forall ops k, submap2 (k_hdr (write_batch ops k)) (k_hdr k)).
  { intros ops k key v G. destruct (wb_fields ops k) as (I1 & _). rewrite I1 in G.
    destruct (existsb _ ops); [discriminate|exact G]. }
  destruct s as [k [a d]]. unfold ChainFreezer.cycle. cbn [s_kv s_fz].
  destruct (freeze_threshold k) as [th|]; [|constructor].
  destruct (negb _ && _); [constructor|]. cbv zeta.
  match goal with |- context [freeze_range_loop ?fu k ?fi ?la []] =>
    destruct (freeze_range_loop fu k fi la []) as [items|c] end; [|constructor].
  assert (H0 : submap2 (k_hdr k) (k_hdr k)) by (intros ? ? G; exact G).
  destruct (0 <? _); cbn [snd]; repeat (constructor; [cbn [s_kv]; auto|]); try constructor.
  - cbn [s_kv]. intros key v G. apply Hw in G. apply Hw in G. exact G.
  - cbn [s_kv]. intros key v G. apply Hw in G. apply Hw in G. apply Hw in G. exact G.
  - cbn [s_kv]. intros key v G. apply Hw in G. apply Hw in G. exact G.
Qed.

(* histories without crashes keep the key-value store clean below the boundary *)
Theorem clean_below_cycle bl s : clean_below s -> clean_below (step bl s EvCycle).
Proof.
  intros Hc. cbn [ChainFreezer.step]. destruct (cycle bl s) as [o l] eqn:E. cbn [snd].
  assert (Hsub := cycle_hdr_sub bl s). assert (Hmono := cycle_frozen_mono bl s).
  rewrite E in Hsub, Hmono. cbn [snd] in Hsub, Hmono.
  assert (Hs : submap2 (k_hdr (s_kv (last l s))) (k_hdr (s_kv s))).
  { apply (Forall_last (fun t => submap2 (k_hdr (s_kv t)) (k_hdr (s_kv s)))); [exact Hsub|].
    intros ? ? G; exact G. }
  intros m h Hm. destruct (N.lt_ge_cases m (frozen (s_fz s))) as [L|L].
  - destruct (get2 (m, h) (k_hdr (s_kv (last l s)))) eqn:G; [|reflexivity].
    apply Hs in G. rewrite Hc in G; [discriminate|lia].
  - destruct o as [c|b].
    + (* no iteration: nothing was appended *)
      unfold ChainFreezer.cycle in E. destruct s as [k [a d]]. cbn [s_kv s_fz] in *.
      destruct (freeze_threshold k); [|inversion E; subst l; cbn in Hm; lia].
      destruct (negb _ && _); [inversion E; subst l; cbn in Hm; lia|]. cbv zeta in E.
      match type of E with context [freeze_range_loop ?fu k ?fi ?la []] =>
        destruct (freeze_range_loop fu k fi la []) end; [|inversion E; subst l; cbn in Hm; lia].
      destruct (0 <? _); discriminate.
    + destruct (side_chains_removed_below bl s b l E m) as [H _]; [lia|lia|]. apply H.
Qed.

(* ---------------- a decidable sufficient condition for [Inv] (empty freezer) ---------------- *)
Definition kcanon (k : kvs) (n : N) : hash := ohash (get1 n (k_canon k)).
Definition opt_hash_eqb (a b : option hash) : bool :=
  match a, b with Some x, Some y => x =? y | None, None => true | _, _ => false end.
Definition wf_entry (k : kvs) (e : k2 * blob) : bool :=
  let m := fst (fst e) in let h := snd (fst e) in let b := snd e in
  if h =? kcanon k m then
    (keccak b =? h) &&
    (if 1 <=? m then opt_hash_eqb (hdr_parent b) (Some (kcanon k (m - 1))) else true)
  else true.
Definition uniq_entry (k : kvs) (e : k2 * blob) : bool :=
  let m := fst (fst e) in let h := snd (fst e) in
  (h =? 0) || forallb (fun c : N * hash =>
                         if (snd c =? h) && (kcanon k (fst c) =? h) then fst c =? m else true)
                      (k_canon k).
Definition wf_b (s : st) : bool :=
  match f_items (s_fz s) with
  | [] => (f_durable (s_fz s) =? 0) && forallb (wf_entry (s_kv s)) (k_hdr (s_kv s))
          && forallb (uniq_entry (s_kv s)) (k_hdr (s_kv s))
  | _ => false
  end.

Lemma get1_In {X} k (v : X) m : get1 k m = Some v -> In (k, v) m.
Proof.
  induction m as [|[a w] m IH]; cbn [get1]; [discriminate|].
  destruct (k =? a) eqn:E; intros H.
  - apply N.eqb_eq in E; subst a. inversion H; subst. left; reflexivity.
  - right; auto.
Qed.

Theorem wf_b_Inv s0 : wf_b s0 = true -> Inv s0.
Proof.
  unfold wf_b. destruct s0 as [k [its d]]. cbn [s_kv s_fz f_items f_durable].
  destruct its; [|discriminate]. intros H.
  apply andb_true_iff in H as [H H3]. apply andb_true_iff in H as [H1 H2].
  apply N.eqb_eq in H1. subst d.
  set (s0 := mkSt k (mkFrz [] 0)).
  assert (HC : forall n, C s0 n = kcanon k n).
  { intros n. unfold C, read_canonical_hash, s0. cbn [s_fz s_kv]. rewrite ancient_nil. reflexivity. }
  rewrite forallb_forall in H2, H3.
  constructor.
  - constructor; cbn [s_kv s_fz f_durable].
    + intros n it A. unfold s0 in A; cbn [s_fz] in A. rewrite ancient_nil in A. discriminate.
    + intros n _ _. unfold V. symmetry. apply view_nofreeze. apply ancient_nil.
    + intros ? ? G; exact G.
    + intros ? ? G; exact G.
    + intros ? ? G; exact G.
    + reflexivity.
    + reflexivity.
    + unfold frozen; cbn. lia.
  - intros n h b Hin ->. specialize (H2 _ Hin). unfold wf_entry in H2. cbn [fst snd] in H2.
    rewrite HC, N.eqb_refl in H2. apply andb_true_iff in H2 as [E _]. apply N.eqb_eq in E.
    rewrite HC. exact E.
  - intros n h b Hin Hn ->. specialize (H2 _ Hin). unfold wf_entry in H2. cbn [fst snd] in H2.
    rewrite HC, N.eqb_refl in H2. apply andb_true_iff in H2 as [_ E].
    assert (1 <=? n = true) as E1 by lia. rewrite E1 in E. rewrite HC.
    destruct (hdr_parent b) as [p|]; cbn in E; [|discriminate].
    apply N.eqb_eq in E. subst p. reflexivity.
  - intros n m h b Hin -> Hz. specialize (H3 _ Hin). unfold uniq_entry in H3. cbn [fst snd] in H3.
    rewrite HC in *. apply orb_true_iff in H3 as [E|E]; [apply N.eqb_eq in E; contradiction|].
    rewrite forallb_forall in E.
    assert (G : get1 n (k_canon k) = Some (kcanon k n)).
    { unfold kcanon in *. destruct (get1 n (k_canon k)); [reflexivity|cbn in Hz; congruence]. }
    apply get1_In in G. specialize (E _ G). cbn [fst snd] in E.
    rewrite !N.eqb_refl in E. cbn in E. apply N.eqb_eq in E. auto.
Qed.

End Proofs.

(* ================= concrete instances (non-vacuity, refutations) ================= *)
(* toy codec: a header blob is [hash; parent hash] *)
Definition ex_keccak (b : blob) : hash := hd 0 b.
Definition ex_parent (b : blob) : option hash :=
  match b with _ :: p :: _ => Some p | _ => None end.
Definition ex_find_tx (b : blob) (th : N) : option N :=
  match b with _ :: _ :: t :: _ => if t =? th then Some 0 else None | _ => None end.

Definition ex_blocks : list (N * hash * hash * bool) :=   (* number, hash, parent, canonical *)
  [(0, 10, 0, true); (1, 11, 10, true); (2, 12, 11, true); (3, 13, 12, true); (4, 14, 13, true);
   (1, 21, 10, false); (2, 22, 21, false); (3, 23, 22, false); (4, 24, 23, false)].

Definition ex_kv : kvs :=
  let key (b : N * hash * hash * bool) := (fst (fst (fst b)), snd (fst (fst b))) in
  mkKV (map (fun b => (fst (fst (fst b)), snd (fst (fst b)))) (filter (fun b => snd b) ex_blocks))
       (map (fun b => (key b, [snd (fst (fst b)); snd (fst b)])) ex_blocks)
       (map (fun b => (key b, [1; snd (fst (fst b)); 100 + snd (fst (fst b))])) ex_blocks)
       (map (fun b => (key b, [2; snd (fst (fst b))])) ex_blocks)
       [((1, 11), [3; 11])]
       (map (fun b => (snd (fst (fst b)), fst (fst (fst b)))) ex_blocks)
       [(111, 1); (113, 3)]
       14 14 12.
Definition ex_s0 : st := mkSt ex_kv (mkFrz [] 0).

Definition ex_hist : list event := [EvCycle; EvMarkers 14 14 13; EvCrash 1 3; EvCycle].

(* the frozen boundary reaches 4; the side blocks 21 22 23 and the dangling 24 are gone;
   the canonical head 14 is untouched; every canonical view is unchanged at the end *)
Definition ex_check : bool :=
  let t := run ex_parent freezer_batch_limit ex_s0 ex_hist in
  wf_b ex_keccak ex_parent ex_s0 &&
  (frozen (s_fz t) =? 4) &&
  forallb (fun nh : N * hash => negb (kv_has nh (k_hdr (s_kv t)))) [(1, 21); (2, 22); (3, 23); (4, 24); (1, 11); (3, 13)] &&
  kv_has (4, 14) (k_hdr (s_kv t)) && kv_has (0, 10) (k_hdr (s_kv t)) &&
  (read_canonical_hash t 2 =? 12) &&
  match read_canonical_tx ex_find_tx t 113, read_canonical_tx ex_find_tx ex_s0 113 with
  | Some (13, 3, 0), Some (13, 3, 0) => true
  | _, _ => false
  end.

(* an iteration interrupted after its SyncAncient: the next iterations start at the new
   freezer head, so the side block 21 at height 1 stays in the key-value store for ever *)
Definition ex_crash_hist : list event := [EvCrash 2 3; EvCycle; EvMarkers 14 14 13; EvCycle; EvCycle].
Definition ex_leftover : bool :=
  let t := run ex_parent freezer_batch_limit ex_s0 ex_crash_hist in
  wf_b ex_keccak ex_parent ex_s0 && (frozen (s_fz t) =? 4) &&
  kv_has (1, 21) (k_hdr (s_kv t)) && kv_has (1, 21) (k_body (s_kv t)) && kv_has (1, 11) (k_hdr (s_kv t)).

Theorem side_chains_survive_crash_refuted :
  exists s0 evs, Inv ex_keccak ex_parent s0 /\
    let t := run ex_parent freezer_batch_limit s0 evs in
    exists m h, 1 <= m < frozen (s_fz t) /\ get2 (m, h) (k_hdr (s_kv t)) <> None.
Proof.
  exists ex_s0, ex_crash_hist. split; [apply wf_b_Inv; vm_compute; reflexivity|].
  exists 1, 21. split; [split; [lia | apply N.ltb_lt; vm_compute; reflexivity]|].
  assert (E : kv_has (1, 21) (k_hdr (s_kv (run ex_parent freezer_batch_limit ex_s0 ex_crash_hist))) = true)
    by (vm_compute; reflexivity).
  unfold kv_has in E. intros G. rewrite G in E. exact (Bool.diff_false_true E).
Qed.

(* HasAccessList only looks into the key-value store: it answers [true] before and
   [false] after the migration of a canonical block that has an access list *)
Theorem has_access_list_refuted :
  exists s0 evs, Inv ex_keccak ex_parent s0 /\ read_canonical_hash s0 1 = 11 /\
    has_access_list s0 11 1 = true /\
    has_access_list (run ex_parent freezer_batch_limit s0 evs) 11 1 = false /\
    read_bal_rlp s0 11 1 = read_bal_rlp (run ex_parent freezer_batch_limit s0 evs) 11 1.
Proof.
  exists ex_s0, [EvCycle]. split; [apply wf_b_Inv; vm_compute; reflexivity|].
  split; [vm_compute; reflexivity|]. split; [vm_compute; reflexivity|].
  split; vm_compute; reflexivity.
Qed.

(* a capped cycle: batch limit 3, five blocks eligible (finalized = block 4).  The first
   cycle freezes 0..2 only; the canonical blocks 3 and 4 stay in the key-value store, the
   side blocks 21 22 (below the boundary) and their dangling descendants 23 24 go; the
   second cycle freezes the rest. *)
Definition ex_capped : bool :=
  let s := set_markers 14 14 14 ex_s0 in
  let t1 := run ex_parent 3 s [EvCycle] in
  let t2 := run ex_parent 3 s [EvCycle; EvCycle] in
  wf_b ex_keccak ex_parent s &&
  (frozen (s_fz t1) =? 3) && (f_durable (s_fz t1) =? 3) &&
  kv_has (3, 13) (k_hdr (s_kv t1)) && kv_has (4, 14) (k_hdr (s_kv t1)) &&
  kv_has (3, 13) (k_body (s_kv t1)) && kv_has (4, 14) (k_rcpt (s_kv t1)) &&
  (ohash (get1 3 (k_canon (s_kv t1))) =? 13) &&
  forallb (fun nh : N * hash => negb (kv_has nh (k_hdr (s_kv t1))))
          [(1, 11); (2, 12); (1, 21); (2, 22); (3, 23); (4, 24)] &&
  match get1 13 (k_num (s_kv t1)), get1 14 (k_num (s_kv t1)), get1 23 (k_num (s_kv t1)) with
  | Some 3, Some 4, None => true | _, _, _ => false end &&
  (frozen (s_fz t2) =? 5) && negb (kv_has (3, 13) (k_hdr (s_kv t2))) &&
  (read_canonical_hash t2 4 =? 14).
