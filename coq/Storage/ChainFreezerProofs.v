(* Storage/ChainFreezerProofs.v — proofs about the model Storage/ChainFreezer.v (C25).

   Method.  [s0] is the state before any migration and [C n := read_canonical_hash s0 n],
   [V n := view_of s0 (C n) n] the accessor results of its canonical blocks.  [Rel s0 t]
   ("t is a migration state of s0") says: every freezer item of t is the complete canonical
   block of s0 at that height; from the durable count upwards the key-value store of t
   still answers like s0; the key-value store of t is a sub-map of that of s0; the
   hash->number entries of canonical hashes and the tx lookups are untouched.  Every
   persistence action of the freezer loop, and a crash, preserves [Rel s0]; [Rel s0 t]
   implies that every accessor answers at t as at s0. *)
From Coq Require Import List NArith Bool Lia.
From GV Require Import Lib.Tactics Storage.ChainFreezer.
Import ListNotations.
Local Open Scope N_scope.

(* ---------------- association lists ---------------- *)
Lemma k2eq_eq a b : k2eq a b = true <-> a = b.
Proof.
  destruct a as [a1 a2], b as [b1 b2]; unfold k2eq; cbn [fst snd].
  rewrite andb_true_iff, !N.eqb_eq. split; [intros [-> ->]; reflexivity | intros H; inversion H; auto].
Qed.
Lemma k2eq_refl a : k2eq a a = true.
Proof. apply k2eq_eq; reflexivity. Qed.
Lemma k2eq_neq a b : k2eq a b = false <-> a <> b.
Proof.
  split; intros H.
  - intros E. apply k2eq_eq in E. congruence.
  - destruct (k2eq a b) eqn:E; [apply k2eq_eq in E; contradiction | reflexivity].
Qed.

Lemma get1_del1 {V} k k' (m : list (N * V)) :
  get1 k (del1 k' m) = if k =? k' then None else get1 k m.
Proof.
  induction m as [|[a v] m IH]; cbn [del1 filter get1 fst].
  - destruct (k =? k'); reflexivity.
  - unfold del1 in IH. destruct (a =? k') eqn:E1; cbn [negb].
    + rewrite IH. apply N.eqb_eq in E1; subst a. destruct (k =? k') eqn:E2; reflexivity.
    + cbn [get1]. rewrite IH. destruct (k =? a) eqn:E2; [|reflexivity].
      apply N.eqb_eq in E2; subst a. rewrite E1. reflexivity.
Qed.

Lemma get2_del2 {V} k k' (m : list (k2 * V)) :
  get2 k (del2 k' m) = if k2eq k k' then None else get2 k m.
Proof.
  induction m as [|[a v] m IH]; cbn [del2 filter get2 fst].
  - destruct (k2eq k k'); reflexivity.
  - unfold del2 in IH. destruct (k2eq a k') eqn:E1; cbn [negb].
    + rewrite IH. apply k2eq_eq in E1; subst a. destruct (k2eq k k') eqn:E2; reflexivity.
    + cbn [get2]. rewrite IH. destruct (k2eq k a) eqn:E2; [|reflexivity].
      apply k2eq_eq in E2; subst a. rewrite E1. reflexivity.
Qed.

Lemma get2_In {V} k (v : V) m : get2 k m = Some v -> In (k, v) m.
Proof.
  induction m as [|[a w] m IH]; cbn [get2]; [discriminate|].
  destruct (k2eq k a) eqn:E; intros H.
  - apply k2eq_eq in E; subst a. inversion H; subst. left; reflexivity.
  - right; auto.
Qed.

Lemma In_get2 {V} k (v : V) m : In (k, v) m -> get2 k m <> None.
Proof.
  induction m as [|[a w] m IH]; cbn [get2 In]; [tauto|].
  intros [E|H]; [inversion E; subst; rewrite k2eq_refl; discriminate|].
  destruct (k2eq k a); [discriminate | auto].
Qed.

Lemma all_hashes_In k n h : In h (all_hashes k n) <-> get2 (n, h) (k_hdr k) <> None.
Proof.
  unfold all_hashes. rewrite in_map_iff. split.
  - intros [[[n' h'] v] [E H]]. cbn in E; subst h'. apply filter_In in H as [H1 H2].
    cbn in H2. apply N.eqb_eq in H2; subst n'. eapply In_get2; eauto.
  - intros H. destruct (get2 (n, h) (k_hdr k)) as [v|] eqn:G; [|congruence].
    exists ((n, h), v). split; [reflexivity|]. apply filter_In. split; [apply get2_In; auto|].
    cbn. apply N.eqb_refl.
Qed.

(* ---------------- effect of a batch of deletions ---------------- *)
Definition hits_blk (key : k2) (o : dop) : bool :=
  match o with
  | DBlockNoNum n h | DBlock n h => k2eq key (n, h)
  | DCanon _ => false
  end.
Definition hits_canon (n : N) (o : dop) : bool :=
  match o with DCanon n' => n =? n' | _ => false end.
Definition hits_num (h : hash) (o : dop) : bool :=
  match o with DBlock _ h' => h =? h' | _ => false end.

Lemma wb_fields ops : forall k,
  (forall key, get2 key (k_hdr (write_batch ops k)) = if existsb (hits_blk key) ops then None else get2 key (k_hdr k)) /\
  (forall key, get2 key (k_body (write_batch ops k)) = if existsb (hits_blk key) ops then None else get2 key (k_body k)) /\
  (forall key, get2 key (k_rcpt (write_batch ops k)) = if existsb (hits_blk key) ops then None else get2 key (k_rcpt k)) /\
  (forall key, get2 key (k_bal (write_batch ops k)) = if existsb (hits_blk key) ops then None else get2 key (k_bal k)) /\
  (forall n, get1 n (k_canon (write_batch ops k)) = if existsb (hits_canon n) ops then None else get1 n (k_canon k)) /\
  (forall h, get1 h (k_num (write_batch ops k)) = if existsb (hits_num h) ops then None else get1 h (k_num k)) /\
  k_txl (write_batch ops k) = k_txl k.
Proof.
  induction ops as [|o ops IH]; intros k; cbn [write_batch fold_left existsb].
  - repeat (split; [reflexivity|]); reflexivity.
  - specialize (IH (apply_dop o k)). unfold write_batch in IH.
    destruct IH as (I1 & I2 & I3 & I4 & I5 & I6 & I7).
    split; [|split; [|split; [|split; [|split; [|split]]]]].
    + intros key. rewrite I1. destruct o as [n h|n|n h]; cbn [apply_dop k_hdr hits_blk orb]; [|reflexivity|];
        (rewrite get2_del2; destruct (k2eq key (n, h)); cbn [orb];
         [destruct (existsb _ ops)|]; reflexivity).
    + intros key. rewrite I2. destruct o as [n h|n|n h]; cbn [apply_dop k_body hits_blk orb]; [|reflexivity|];
        (rewrite get2_del2; destruct (k2eq key (n, h)); cbn [orb];
         [destruct (existsb _ ops)|]; reflexivity).
    + intros key. rewrite I3. destruct o as [n h|n|n h]; cbn [apply_dop k_rcpt hits_blk orb]; [|reflexivity|];
        (rewrite get2_del2; destruct (k2eq key (n, h)); cbn [orb];
         [destruct (existsb _ ops)|]; reflexivity).
    + intros key. rewrite I4. destruct o as [n h|n|n h]; cbn [apply_dop k_bal hits_blk orb]; [|reflexivity|];
        (rewrite get2_del2; destruct (k2eq key (n, h)); cbn [orb];
         [destruct (existsb _ ops)|]; reflexivity).
    + intros n. rewrite I5. destruct o as [n' h'|n'|n' h']; cbn [apply_dop k_canon hits_canon orb];
        try reflexivity.
      rewrite get1_del1. destruct (n =? n'); cbn [orb]; [destruct (existsb _ ops)|]; reflexivity.
    + intros h. rewrite I6. destruct o as [n' h'|n'|n' h']; cbn [apply_dop k_num hits_num orb];
        try reflexivity.
      rewrite get1_del1. destruct (h =? h'); cbn [orb]; [destruct (existsb _ ops)|]; reflexivity.
    + rewrite I7. destruct o; reflexivity.
Qed.

Definition op_num (o : dop) : N :=
  match o with DBlockNoNum n _ | DCanon n | DBlock n _ => n end.

Lemma no_hit_blk key ops :
  Forall (fun o => op_num o <> fst key) ops -> existsb (hits_blk key) ops = false.
Proof.
  induction 1 as [|o ops H _ IH]; [reflexivity|]. cbn [existsb]. rewrite IH, orb_false_r.
  destruct o; cbn [hits_blk op_num] in *; try reflexivity; apply k2eq_neq; intros E; subst key; auto.
Qed.
Lemma no_hit_canon n ops :
  Forall (fun o => op_num o <> n) ops -> existsb (hits_canon n) ops = false.
Proof.
  induction 1 as [|o ops H _ IH]; [reflexivity|]. cbn [existsb]. rewrite IH, orb_false_r.
  destruct o; cbn [hits_canon op_num] in *; try reflexivity. apply N.eqb_neq; auto.
Qed.

(* ---------------- the freezer as a list ---------------- *)
Lemma ancient_Some f n it : ancient f n = Some it -> n < frozen f.
Proof. unfold ancient. destruct (n <? frozen f) eqn:E; [intros _; lia | discriminate]. Qed.
Lemma ancient_None f n : frozen f <= n -> ancient f n = None.
Proof. unfold ancient. intros H. destruct (n <? frozen f) eqn:E; [lia | reflexivity]. Qed.
Lemma ancient_lt f n : n < frozen f -> exists it, ancient f n = Some it.
Proof.
  unfold ancient, frozen. intros H. destruct (n <? _) eqn:E; [|lia].
  destruct (nth_error (f_items f) (N.to_nat n)) eqn:G; [eauto|].
  apply nth_error_None in G. lia.
Qed.

Lemma ancient_app a b d d' n :
  ancient (mkFrz (a ++ b) d) n =
  if n <? N.of_nat (length a) then ancient (mkFrz a d') n
  else nth_error b (N.to_nat (n - N.of_nat (length a))).
Proof.
  unfold ancient, frozen; cbn [f_items]. rewrite app_length.
  destruct (n <? N.of_nat (length a)) eqn:E1.
  - assert (n <? N.of_nat (length a + length b) = true) as -> by lia.
    apply nth_error_app1. lia.
  - destruct (n <? N.of_nat (length a + length b)) eqn:E2.
    + rewrite nth_error_app2 by lia. f_equal. lia.
    + symmetry. apply nth_error_None. lia.
Qed.

Lemma ancient_nil d n : ancient (mkFrz [] d) n = None.
Proof. apply ancient_None. unfold frozen; cbn. lia. Qed.

Lemma ancient_durable its d d' n : ancient (mkFrz its d) n = ancient (mkFrz its d') n.
Proof. reflexivity. Qed.

Lemma nth_firstn {A} (l : list A) : forall k i, (i < k)%nat -> nth_error (firstn k l) i = nth_error l i.
Proof.
  induction l as [|x l IH]; intros k i H.
  - rewrite firstn_nil. reflexivity.
  - destruct k; [lia|]. destruct i; [reflexivity|]. cbn. apply IH. lia.
Qed.

Lemma ancient_firstn its d keep n it :
  ancient (mkFrz (firstn (N.to_nat keep) its) d) n = Some it -> ancient (mkFrz its d) n = Some it.
Proof.
  unfold ancient, frozen; cbn [f_items]. rewrite firstn_length.
  destruct (n <? N.of_nat (Nat.min _ _)) eqn:E; [|discriminate].
  intros H. assert (n <? N.of_nat (length its) = true) as -> by lia.
  rewrite nth_firstn in H by lia. exact H.
Qed.

Section Proofs.
Variable keccak : blob -> hash.
Variable parent_of : blob -> option hash.
Variable find_tx : blob -> N -> option N.

Notation view_of := (view_of keccak parent_of).
Notation read_header_rlp := (read_header_rlp keccak).
Notation hdr_parent := (hdr_parent parent_of).
Notation cycle := (cycle parent_of).
Notation step := (step parent_of).
Notation visible := (visible parent_of).
Notation run := (run parent_of).
Notation visible_all := (visible_all parent_of).
Notation stop_state := (stop_state parent_of).
Notation dangling_pass := (dangling_pass parent_of).

(* when the freezer has no item at [n], every accessor goes to the key-value store *)
Lemma view_nofreeze s h n : ancient (s_fz s) n = None -> view_of s h n = view_of (nofreeze s) h n.
Proof.
  intros A. unfold ChainFreezer.view_of, read_canonical_hash, ChainFreezer.read_header_rlp, has_header,
    read_body_rlp, read_canonical_body_rlp, has_body, read_receipts_rlp, read_canonical_receipts_rlp,
    has_receipts, read_bal_rlp, is_canon, read_header_number, nofreeze.
  cbn [s_fz s_kv]. rewrite A, ancient_nil. reflexivity.
Qed.

(* views depend on the key-value store only through these lookups *)
Definition kv_agree (k k' : kvs) (h : hash) (n : N) : Prop :=
  get1 n (k_canon k) = get1 n (k_canon k') /\
  get2 (n, h) (k_hdr k) = get2 (n, h) (k_hdr k') /\
  get2 (n, h) (k_body k) = get2 (n, h) (k_body k') /\
  get2 (n, h) (k_rcpt k) = get2 (n, h) (k_rcpt k') /\
  get2 (n, h) (k_bal k) = get2 (n, h) (k_bal k') /\
  get1 h (k_num k) = get1 h (k_num k').

Lemma view_nofreeze_agree k k' f f' h n :
  kv_agree k k' h n -> ohash (get1 n (k_canon k)) = h ->
  view_of (nofreeze (mkSt k f)) h n = view_of (nofreeze (mkSt k' f')) h n.
Proof.
  intros (A1 & A2 & A3 & A4 & A5 & A6) Hh.
  unfold ChainFreezer.view_of, read_canonical_hash, ChainFreezer.read_header_rlp, has_header,
    read_body_rlp, read_canonical_body_rlp, has_body, read_receipts_rlp, read_canonical_receipts_rlp,
    has_receipts, read_bal_rlp, is_canon, read_header_number, nofreeze, kv_has.
  cbn [s_fz s_kv]. rewrite !ancient_nil. cbn [nonempty orb].
  rewrite <- A1, Hh, <- A2, <- A3, <- A4, <- A5, <- A6. reflexivity.
Qed.

(* ================= the reference state and the relation ================= *)
Section Ref.
Variable s0 : st.
Definition C (n : N) : hash := read_canonical_hash s0 n.
Definition V (n : N) : view := view_of s0 (C n) n.

(* the canonical block at this height is complete (freezeRange would accept it) *)
Definition complete (v : view) : Prop :=
  nonempty (v_hdr v) = true /\ v_has_hdr v = true /\
  nonempty (v_body v) = true /\ v_cbody v = v_body v /\ v_cbody_nil v = v_body v /\ v_has_body v = true /\
  nonempty (v_rcpt v) = true /\ v_crcpt v = v_rcpt v /\ v_crcpt_nil v = v_rcpt v /\ v_has_rcpt v = true.

Definition item_matches (n : N) (it : fitem) : Prop :=
  fi_hash it = C n /\ C n <> 0 /\ fi_hdr it = v_hdr (V n) /\ keccak (v_hdr (V n)) = C n /\
  fi_body it = v_body (V n) /\ fi_rcpt it = v_rcpt (V n) /\ fi_bal it = v_bal (V n) /\
  complete (V n).

Definition submap2 {X} (m m0 : list (k2 * X)) : Prop :=
  forall key v, get2 key m = Some v -> get2 key m0 = Some v.

Record Rel (t : st) : Prop := mkRel {
  R_items : forall n it, ancient (s_fz t) n = Some it -> item_matches n it;
  R_kv : forall n, f_durable (s_fz t) <= n -> C n <> 0 -> view_of (nofreeze t) (C n) n = V n;
  R_sub_hdr : submap2 (k_hdr (s_kv t)) (k_hdr (s_kv s0));
  R_sub_bal : submap2 (k_bal (s_kv t)) (k_bal (s_kv s0));
  R_num : forall n, C n <> 0 -> get1 (C n) (k_num (s_kv t)) = get1 (C n) (k_num (s_kv s0));
  R_txl : k_txl (s_kv t) = k_txl (s_kv s0);
  R_dur : f_durable (s_fz s0) <= f_durable (s_fz t) /\ f_durable (s_fz t) <= frozen (s_fz t)
}.

(* the precondition on the chain: canonical headers are stored under their Keccak
   hash, are decodable and point to the canonical parent, and no canonical hash is
   the key of a header at another height *)
Record Inv : Prop := mkInv {
  I_rel : Rel s0;
  I_hashed : forall n h b, In ((n, h), b) (k_hdr (s_kv s0)) -> h = C n -> keccak b = h;
  I_linked : forall n h b, In ((n, h), b) (k_hdr (s_kv s0)) -> 1 <= n -> h = C n ->
                           hdr_parent b = Some (C (n - 1));
  I_uniq : forall n m h b, In ((m, h), b) (k_hdr (s_kv s0)) -> h = C n -> C n <> 0 -> m = n
}.

(* ---------------- Rel implies equal views ---------------- *)
Lemma view_ext v w :
  v_canon v = v_canon w -> v_hdr v = v_hdr w -> v_has_hdr v = v_has_hdr w -> v_parent v = v_parent w ->
  v_body v = v_body w -> v_cbody v = v_cbody w -> v_cbody_nil v = v_cbody_nil w -> v_has_body v = v_has_body w ->
  v_rcpt v = v_rcpt w -> v_crcpt v = v_crcpt w -> v_crcpt_nil v = v_crcpt_nil w -> v_has_rcpt v = v_has_rcpt w ->
  v_bal v = v_bal w -> v_num v = v_num w -> v = w.
Proof. destruct v, w; cbn; intros; subst; reflexivity. Qed.

Lemma bal_kv_empty n : v_bal (V n) = [] -> oblob (get2 (n, C n) (k_bal (s_kv s0))) = [].
Proof.
  unfold V, ChainFreezer.view_of; cbn [v_bal]. unfold read_bal_rlp.
  destruct (is_canon s0 n (C n)); [|auto].
  destruct (ancient (s_fz s0) n) as [it|]; [|auto].
  destruct (nonempty (fi_bal it)) eqn:E; [|auto].
  intros H. rewrite H in E. discriminate.
Qed.

Theorem rel_view t n : Rel t -> C n <> 0 -> view_of t (C n) n = V n.
Proof.
  intros R HC. destruct (ancient (s_fz t) n) as [it|] eqn:A.
  - destruct (R_items t R n it A) as (E1 & _ & E2 & E3 & E4 & E5 & E6 & Cm).
    destruct Cm as (c1 & c2 & c3 & c4 & c5 & c6 & c7 & c8 & c9 & c10).
    assert (Hnum := R_num t R n HC).
    assert (Hbal : v_bal (V n) = [] -> oblob (get2 (n, C n) (k_bal (s_kv t))) = []).
    { intros Hb. apply bal_kv_empty in Hb.
      destruct (get2 (n, C n) (k_bal (s_kv t))) as [v|] eqn:G; [|reflexivity].
      apply (R_sub_bal t R) in G. rewrite G in Hb. exact Hb. }
    apply view_ext; unfold V at 1; unfold ChainFreezer.view_of;
      cbn [v_canon v_hdr v_has_hdr v_parent v_body v_cbody v_cbody_nil v_has_body
           v_rcpt v_crcpt v_crcpt_nil v_has_rcpt v_bal v_num];
      unfold read_canonical_hash, ChainFreezer.read_header_rlp, has_header,
        read_body_rlp, read_canonical_body_rlp, has_body, read_receipts_rlp,
        read_canonical_receipts_rlp, has_receipts, read_bal_rlp, is_canon, read_header_number;
      rewrite ?A, ?E1, ?N.eqb_refl; cbn [andb orb].
    + reflexivity.
    + rewrite E2, c1, E3, N.eqb_refl. reflexivity.
    + symmetry; exact c2.
    + rewrite E2, c1, E3, N.eqb_refl. reflexivity.
    + exact E4.
    + rewrite E4, c3. symmetry; exact c4.
    + rewrite E4, c3. symmetry; exact c5.
    + symmetry; exact c6.
    + exact E5.
    + rewrite E5, c7. symmetry; exact c8.
    + rewrite E5, c7. symmetry; exact c9.
    + symmetry; exact c10.
    + rewrite E6. destruct (nonempty (v_bal (V n))) eqn:Eb; [reflexivity|].
      assert (Hb0 : v_bal (V n) = []) by (destruct (v_bal (V n)); [reflexivity|discriminate]).
      rewrite (Hbal Hb0). symmetry; exact Hb0.
    + exact Hnum.
  - rewrite (view_nofreeze _ _ _ A). apply (R_kv t R); [|exact HC].
    destruct (R_dur t R) as [_ H2].
    destruct (N.lt_ge_cases n (frozen (s_fz t))) as [L|L]; [|lia].
    destruct (ancient_lt _ _ L) as [it E]. congruence.
Qed.

(* ---------------- key-value-only views, field by field ---------------- *)
Lemma nofreeze_view t h n :
  view_of (nofreeze t) h n =
  let k := s_kv t in
  mkView (ohash (get1 n (k_canon k))) (oblob (get2 (n, h) (k_hdr k))) (kv_has (n, h) (k_hdr k))
         (hdr_parent (oblob (get2 (n, h) (k_hdr k))))
         (oblob (get2 (n, h) (k_body k))) (oblob (get2 (n, h) (k_body k)))
         (oblob (get2 (n, ohash (get1 n (k_canon k))) (k_body k))) (kv_has (n, h) (k_body k))
         (oblob (get2 (n, h) (k_rcpt k))) (oblob (get2 (n, h) (k_rcpt k)))
         (oblob (get2 (n, ohash (get1 n (k_canon k))) (k_rcpt k))) (kv_has (n, h) (k_rcpt k))
         (oblob (get2 (n, h) (k_bal k))) (get1 h (k_num k)).
Proof.
  unfold ChainFreezer.view_of, read_canonical_hash, ChainFreezer.read_header_rlp, has_header,
    read_body_rlp, read_canonical_body_rlp, has_body, read_receipts_rlp, read_canonical_receipts_rlp,
    has_receipts, read_bal_rlp, is_canon, read_header_number, nofreeze.
  cbn [s_fz s_kv]. rewrite !ancient_nil. reflexivity.
Qed.

Lemma nonempty_oblob (o : option blob) : nonempty (oblob o) = true -> exists b, o = Some b.
Proof. destruct o; [eauto | discriminate]. Qed.

Definition submap1 {X} (m m0 : list (N * X)) : Prop :=
  forall key v, get1 key m = Some v -> get1 key m0 = Some v.

(* the canonical mapping of the key-value store only shrinks; kept separate from
   [Rel] fields that mention blocks *)
Definition canon_sub (t : st) : Prop := submap1 (k_canon (s_kv t)) (k_canon (s_kv s0)).

Lemma canon_nonzero t n :
  Rel s0 -> Rel t -> canon_sub t -> ohash (get1 n (k_canon (s_kv t))) <> 0 -> C n <> 0.
Proof.
  intros R0 R S H. destruct (get1 n (k_canon (s_kv t))) as [h|] eqn:G; [|cbn in H; congruence].
  cbn in H. apply S in G. unfold C, read_canonical_hash.
  destruct (ancient (s_fz s0) n) as [it|] eqn:A.
  - destruct (R_items _ R0 n it A) as (E1 & E2 & _). unfold C, read_canonical_hash in E1, E2.
    rewrite A in E1, E2. exact E2.
  - rewrite G. exact H.
Qed.

(* ---------------- freezeRange ---------------- *)
Definition item_ok (k : kvs) (n : N) (it : fitem) : Prop :=
  let h := ohash (get1 n (k_canon k)) in
  fi_hash it = h /\ h <> 0 /\
  fi_hdr it = oblob (get2 (n, h) (k_hdr k)) /\ nonempty (fi_hdr it) = true /\
  fi_body it = oblob (get2 (n, h) (k_body k)) /\ nonempty (fi_body it) = true /\
  fi_rcpt it = oblob (get2 (n, h) (k_rcpt k)) /\ nonempty (fi_rcpt it) = true /\
  fi_bal it = oblob (get2 (n, h) (k_bal k)).

Lemma range_ok fuel k : forall number limit acc res,
  freeze_range_loop fuel k number limit acc = RangeOk res ->
  exists items, res = rev acc ++ items /\
    forall i it, nth_error items i = Some it -> item_ok k (number + N.of_nat i) it.
Proof.
  induction fuel as [|fuel IH]; intros number limit acc res; cbn [freeze_range_loop];
    destruct (limit <? number).
  - intros H; inversion H. exists []. rewrite app_nil_r. split; [reflexivity|].
    intros [|i] it; discriminate.
  - discriminate.
  - intros H; inversion H. exists []. rewrite app_nil_r. split; [reflexivity|].
    intros [|i] it; discriminate.
  - set (h := ohash (get1 number (k_canon k))).
    destruct (h =? 0) eqn:E0; [discriminate|].
    destruct (nonempty (oblob (get2 (number, h) (k_hdr k)))) eqn:E1; cbn [negb]; [|discriminate].
    destruct (nonempty (oblob (get2 (number, h) (k_body k)))) eqn:E2; cbn [negb]; [|discriminate].
    destruct (nonempty (oblob (get2 (number, h) (k_rcpt k)))) eqn:E3; cbn [negb]; [|discriminate].
    intros H. apply IH in H as (items & -> & Hi).
    eexists (_ :: items). split; [cbn [rev]; rewrite <- app_assoc; reflexivity|].
    intros [|i] it Hn.
    + cbn in Hn. inversion Hn; subst it. rewrite N.add_0_r. unfold item_ok. fold h. cbn.
      apply N.eqb_neq in E0. repeat (split; [auto; fail|]); auto.
    + cbn in Hn. apply Hi in Hn. replace (number + N.of_nat (S i)) with (number + 1 + N.of_nat i) by lia.
      exact Hn.
Qed.

Hypothesis HR0 : Rel s0.
Hypothesis Hhashed : forall n h b, In ((n, h), b) (k_hdr (s_kv s0)) -> h = C n -> keccak b = h.
Hypothesis Hlinked : forall n h b, In ((n, h), b) (k_hdr (s_kv s0)) -> 1 <= n -> h = C n ->
                                   hdr_parent b = Some (C (n - 1)).
Hypothesis Huniq : forall n m h b, In ((m, h), b) (k_hdr (s_kv s0)) -> h = C n -> C n <> 0 -> m = n.

Lemma item_ok_matches t n it :
  Rel t -> canon_sub t -> f_durable (s_fz t) <= n -> item_ok (s_kv t) n it -> item_matches n it.
Proof.
  intros R S Hd (E1 & E2 & E3 & E4 & E5 & E6 & E7 & E8 & E9).
  assert (HC : C n <> 0) by (eapply canon_nonzero; eauto).
  assert (Hv := R_kv _ R n Hd HC). rewrite nofreeze_view in Hv. cbv zeta in Hv.
  assert (Hh : ohash (get1 n (k_canon (s_kv t))) = C n).
  { apply (f_equal v_canon) in Hv. cbn [v_canon] in Hv. exact Hv. }
  rewrite Hh in *.
  assert (F2 := f_equal v_hdr Hv). assert (F3 := f_equal v_has_hdr Hv).
  assert (F5 := f_equal v_body Hv). assert (F6 := f_equal v_cbody Hv).
  assert (F7 := f_equal v_cbody_nil Hv). assert (F8 := f_equal v_has_body Hv).
  assert (F9 := f_equal v_rcpt Hv). assert (F10 := f_equal v_crcpt Hv).
  assert (F11 := f_equal v_crcpt_nil Hv). assert (F12 := f_equal v_has_rcpt Hv).
  assert (F13 := f_equal v_bal Hv).
  cbn [v_hdr v_has_hdr v_body v_cbody v_cbody_nil v_has_body v_rcpt v_crcpt v_crcpt_nil v_has_rcpt v_bal] in F2, F3, F5, F6, F7, F8, F9, F10, F11, F12, F13.
  rewrite E3 in E4. rewrite E5 in E6. rewrite E7 in E8.
  destruct (nonempty_oblob _ E4) as [bh Gh].
  destruct (nonempty_oblob _ E6) as [bb Gb].
  destruct (nonempty_oblob _ E8) as [br Gr].
  unfold item_matches, complete.
  rewrite <- F2, <- F5, <- F6, <- F7, <- F9, <- F10, <- F11, <- F13, <- F3, <- F8, <- F12.
  unfold kv_has. rewrite Gh, Gb, Gr in *. cbn [oblob] in *.
  assert (Hk : keccak bh = C n).
  { apply (R_sub_hdr _ R) in Gh. apply get2_In in Gh. eapply Hhashed; eauto. }
  repeat (split; [assumption || reflexivity|]). reflexivity.
Qed.

End Ref.
End Proofs.
