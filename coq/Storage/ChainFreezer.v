(* Storage/ChainFreezer.v — executable model of the migration of chain data from the
   key-value store into the chain freezer (C25).  Model only; proofs are in
   Storage/ChainFreezerProofs.v.

   Transcribed from /repo/core/rawdb:
     chain_freezer.go    readHeadNumber, readFinalizedNumber, freezeThreshold,
                         freeze (one iteration of the loop body), freezeRange
     accessors_chain.go  ReadCanonicalHash, ReadAllHashes, ReadHeaderNumber, ReadHeaderRLP,
                         HasHeader, isCanon, ReadBodyRLP, ReadCanonicalBodyRLP, HasBody,
                         HasReceipts, ReadReceiptsRLP, ReadCanonicalReceiptsRLP,
                         HasAccessList, ReadAccessListRLP, DeleteBlock, DeleteBlockWithoutNumber
     accessors_indexes.go ReadTxLookupEntry (v6 entries), ReadCanonicalTransaction
     database.go         Open (the key-value / freezer cross validation)

   Representation.
   * A hash is an [N]; 0 is common.Hash{} ("missing").  Blobs (header / body /
     receipts / access-list RLP) are byte lists; [[]] is "len(data) == 0".
   * The key-value store is one association list per schema prefix (the chain
     schema as maps): number -> canonical hash ('h'+num+'n'), (number,hash) ->
     header ('h'+num+hash), body ('b'), receipts ('r'), access list, hash -> number
     ('H'), tx hash -> number ('l'), and the three head markers.  Lists are kept in
     key order by the builder ([put2]); the migration only ever deletes.
   * The freezer is a list of items indexed by block number (all five tables have
     the same length: that is the C24 guarantee, assumed here) plus a durable
     count raised by SyncAncient.  Tail pruning is not modelled (the migration
     never moves a tail).
   * Keccak256 of a header blob, the ParentHash of a decoded header and
     findTxInBlockBody are Section variables. *)
From Coq Require Import List NArith Bool.
Import ListNotations.
Local Open Scope N_scope.

Definition hash := N.
Definition blob := list N.

(* ---- association lists ---- *)
Definition k2 := (N * N)%type.
Definition k2eq (a b : k2) : bool := (fst a =? fst b) && (snd a =? snd b).

Fixpoint get1 {V} (k : N) (m : list (N * V)) : option V :=
  match m with
  | [] => None
  | (k', v) :: r => if k =? k' then Some v else get1 k r
  end.
Definition del1 {V} (k : N) (m : list (N * V)) : list (N * V) :=
  filter (fun kv => negb (fst kv =? k)) m.

Fixpoint get2 {V} (k : k2) (m : list (k2 * V)) : option V :=
  match m with
  | [] => None
  | (k', v) :: r => if k2eq k k' then Some v else get2 k r
  end.
Definition del2 {V} (k : k2) (m : list (k2 * V)) : list (k2 * V) :=
  filter (fun kv => negb (k2eq (fst kv) k)) m.

(* sorted insertion (used only to build states; key order = Go iterator order) *)
Definition k2lt (a b : k2) : bool :=
  (fst a <? fst b) || ((fst a =? fst b) && (snd a <? snd b)).
Fixpoint put2 {V} (k : k2) (v : V) (m : list (k2 * V)) : list (k2 * V) :=
  match m with
  | [] => [(k, v)]
  | (k', v') :: r =>
      if k2lt k k' then (k, v) :: m
      else if k2eq k k' then (k, v) :: r
      else (k', v') :: put2 k v r
  end.
Definition put1 {V} (k : N) (v : V) (m : list (N * V)) : list (N * V) :=
  (k, v) :: del1 k m.

(* data, _ := db.Get(key): a missing key reads as the empty blob *)
Definition oblob (o : option blob) : blob := match o with Some b => b | None => [] end.
Definition nonempty (b : blob) : bool := match b with [] => false | _ => true end.
Definition ohash (o : option hash) : hash := match o with Some h => h | None => 0 end.

(* ---- the two stores ---- *)
Record kvs := mkKV {
  k_canon : list (N * hash);        (* headerHashKey(number) *)
  k_hdr   : list (k2 * blob);       (* headerKey(number, hash) *)
  k_body  : list (k2 * blob);       (* blockBodyKey *)
  k_rcpt  : list (k2 * blob);       (* blockReceiptsKey *)
  k_bal   : list (k2 * blob);       (* accessListKey *)
  k_num   : list (hash * N);        (* headerNumberKey(hash) *)
  k_txl   : list (N * N);           (* txLookupKey(txhash) -> number *)
  k_head_block  : hash;             (* headBlockKey,  0 = missing *)
  k_head_header : hash;             (* headHeaderKey *)
  k_final       : hash              (* headFinalizedBlockKey *)
}.

Record fitem := mkItem {
  fi_hash : hash; fi_hdr : blob; fi_body : blob; fi_rcpt : blob; fi_bal : blob }.

Record frz := mkFrz {
  f_items   : list fitem;           (* item i = block number i *)
  f_durable : N                     (* items covered by a completed SyncAncient *)
}.

Record st := mkSt { s_kv : kvs; s_fz : frz }.

Definition frozen (f : frz) : N := N.of_nat (length (f_items f)).

(* Freezer.Ancient(kind, number): errOutOfBounds beyond the head *)
Definition ancient (f : frz) (n : N) : option fitem :=
  if n <? frozen f then nth_error (f_items f) (N.to_nat n) else None.

(* nofreezedb: every ancient read fails *)
Definition nofreeze (s : st) : st := mkSt (s_kv s) (mkFrz [] 0).

Section Model.
Variable keccak : blob -> hash.                 (* crypto.Keccak256Hash *)
Variable parent_of : blob -> option hash.       (* rlp.DecodeBytes(data, header); header.ParentHash *)
Variable find_tx : blob -> N -> option N.       (* findTxInBlockBody: index of the tx *)

(* ---------------- accessors (accessors_chain.go) ---------------- *)

(* ReadCanonicalHash: freezer hash table first, then headerHashKey *)
Definition read_canonical_hash (s : st) (n : N) : hash :=
  match ancient (s_fz s) n with
  | Some it => fi_hash it          (* 32 bytes, never empty *)
  | None => ohash (get1 n (k_canon (s_kv s)))
  end.

(* ReadAllHashes: all header keys 'h'+num+<32 bytes> at this height, in key order *)
Definition all_hashes (k : kvs) (n : N) : list hash :=
  map (fun kv => snd (fst kv)) (filter (fun kv => fst (fst kv) =? n) (k_hdr k)).

(* ReadHeaderNumber: key-value store only *)
Definition read_header_number (s : st) (h : hash) : option N := get1 h (k_num (s_kv s)).

(* ReadHeaderRLP: freezer header if its Keccak equals the requested hash, else KV *)
Definition read_header_rlp (s : st) (h : hash) (n : N) : blob :=
  let kvread := oblob (get2 (n, h) (k_hdr (s_kv s))) in
  match ancient (s_fz s) n with
  | Some it => if nonempty (fi_hdr it) && (keccak (fi_hdr it) =? h) then fi_hdr it else kvread
  | None => kvread
  end.

(* isCanon *)
Definition is_canon (s : st) (n : N) (h : hash) : bool :=
  match ancient (s_fz s) n with Some it => fi_hash it =? h | None => false end.

Definition kv_has {V} (k : k2) (m : list (k2 * V)) : bool :=
  match get2 k m with Some _ => true | None => false end.

Definition has_header (s : st) (h : hash) (n : N) : bool :=
  is_canon s n h || kv_has (n, h) (k_hdr (s_kv s)).

(* ReadHeader: nil if no data or undecodable; we keep the decoded parent hash *)
Definition hdr_parent (data : blob) : option hash :=
  if nonempty data then parent_of data else None.

(* ReadBodyRLP *)
Definition read_body_rlp (s : st) (h : hash) (n : N) : blob :=
  if is_canon s n h
  then match ancient (s_fz s) n with Some it => fi_body it | None => [] end
  else oblob (get2 (n, h) (k_body (s_kv s))).

(* ReadCanonicalBodyRLP(db, number, hash *common.Hash) *)
Definition read_canonical_body_rlp (s : st) (n : N) (oh : option hash) : blob :=
  let data := match ancient (s_fz s) n with Some it => fi_body it | None => [] end in
  if nonempty data then data
  else match oh with
       | Some h => oblob (get2 (n, h) (k_body (s_kv s)))
       | None => oblob (get2 (n, ohash (get1 n (k_canon (s_kv s)))) (k_body (s_kv s)))
       end.

Definition has_body (s : st) (h : hash) (n : N) : bool :=
  is_canon s n h || kv_has (n, h) (k_body (s_kv s)).

(* ReadReceiptsRLP *)
Definition read_receipts_rlp (s : st) (h : hash) (n : N) : blob :=
  if is_canon s n h
  then match ancient (s_fz s) n with Some it => fi_rcpt it | None => [] end
  else oblob (get2 (n, h) (k_rcpt (s_kv s))).

(* ReadCanonicalReceiptsRLP *)
Definition read_canonical_receipts_rlp (s : st) (n : N) (oh : option hash) : blob :=
  let data := match ancient (s_fz s) n with Some it => fi_rcpt it | None => [] end in
  if nonempty data then data
  else match oh with
       | Some h => oblob (get2 (n, h) (k_rcpt (s_kv s)))
       | None => oblob (get2 (n, ohash (get1 n (k_canon (s_kv s)))) (k_rcpt (s_kv s)))
       end.

Definition has_receipts (s : st) (h : hash) (n : N) : bool :=
  is_canon s n h || kv_has (n, h) (k_rcpt (s_kv s)).

(* ReadAccessListRLP: canonical + non-empty freezer entry, else KV *)
Definition read_bal_rlp (s : st) (h : hash) (n : N) : blob :=
  let kvread := oblob (get2 (n, h) (k_bal (s_kv s))) in
  if is_canon s n h
  then match ancient (s_fz s) n with
       | Some it => if nonempty (fi_bal it) then fi_bal it else kvread
       | None => kvread
       end
  else kvread.

(* HasAccessList: key-value store only (sic) *)
Definition has_access_list (s : st) (h : hash) (n : N) : bool :=
  kv_has (n, h) (k_bal (s_kv s)).

(* ReadTxLookupEntry (database v6 entries: the block number) *)
Definition read_tx_lookup (s : st) (th : N) : option N := get1 th (k_txl (s_kv s)).

(* ReadCanonicalTransaction: (block hash, block number, tx index) *)
Definition read_canonical_tx (s : st) (th : N) : option (hash * N * N) :=
  match read_tx_lookup s th with
  | None => None
  | Some n =>
      let bh := read_canonical_hash s n in
      if bh =? 0 then None
      else let body := read_canonical_body_rlp s n (Some bh) in
           if nonempty body
           then match find_tx body th with Some i => Some (bh, n, i) | None => None end
           else None
  end.

(* every accessor of one (hash, number) pair *)
Record view := mkView {
  v_canon : hash; v_hdr : blob; v_has_hdr : bool; v_parent : option hash;
  v_body : blob; v_cbody : blob; v_cbody_nil : blob; v_has_body : bool;
  v_rcpt : blob; v_crcpt : blob; v_crcpt_nil : blob; v_has_rcpt : bool;
  v_bal : blob; v_num : option N }.

Definition view_of (s : st) (h : hash) (n : N) : view :=
  mkView (read_canonical_hash s n) (read_header_rlp s h n) (has_header s h n)
         (hdr_parent (read_header_rlp s h n))
         (read_body_rlp s h n) (read_canonical_body_rlp s n (Some h))
         (read_canonical_body_rlp s n None) (has_body s h n)
         (read_receipts_rlp s h n) (read_canonical_receipts_rlp s n (Some h))
         (read_canonical_receipts_rlp s n None) (has_receipts s h n)
         (read_bal_rlp s h n) (read_header_number s h).

(* ---------------- deletions (one op = one Delete* helper call) ---------------- *)
Inductive dop :=
| DBlockNoNum (n : N) (h : hash)   (* DeleteBlockWithoutNumber *)
| DCanon (n : N)                   (* DeleteCanonicalHash *)
| DBlock (n : N) (h : hash).       (* DeleteBlock *)

Definition apply_dop (o : dop) (k : kvs) : kvs :=
  match o with
  | DBlockNoNum n h =>
      mkKV (k_canon k) (del2 (n, h) (k_hdr k)) (del2 (n, h) (k_body k)) (del2 (n, h) (k_rcpt k))
           (del2 (n, h) (k_bal k)) (k_num k) (k_txl k) (k_head_block k) (k_head_header k) (k_final k)
  | DCanon n =>
      mkKV (del1 n (k_canon k)) (k_hdr k) (k_body k) (k_rcpt k) (k_bal k) (k_num k) (k_txl k)
           (k_head_block k) (k_head_header k) (k_final k)
  | DBlock n h =>
      mkKV (k_canon k) (del2 (n, h) (k_hdr k)) (del2 (n, h) (k_body k)) (del2 (n, h) (k_rcpt k))
           (del2 (n, h) (k_bal k)) (del1 h (k_num k)) (k_txl k)
           (k_head_block k) (k_head_header k) (k_final k)
  end.

(* batch.Write(): all queued deletions, atomically *)
Definition write_batch (ops : list dop) (k : kvs) : kvs :=
  fold_left (fun k' o => apply_dop o k') ops k.

(* ---------------- freezeThreshold ---------------- *)
Definition immutability_threshold : N := 90000.   (* params.FullImmutabilityThreshold *)
Definition two64 : N := 18446744073709551616.

(* readHeadNumber / readFinalizedNumber *)
Definition number_of_marker (k : kvs) (h : hash) : N :=
  if h =? 0 then 0 else match get1 h (k_num k) with Some n => n | None => 0 end.

Definition freeze_threshold (k : kvs) : option N :=
  let head := number_of_marker k (k_head_block k) in
  let final := number_of_marker k (k_final k) in
  let head_limit := if immutability_threshold <? head then head - immutability_threshold else 0 in
  if (final =? 0) && (head_limit =? 0) then None
  else if head_limit <? final then Some final else Some head_limit.

(* ---------------- freezeRange ---------------- *)
Inductive range_result :=
| RangeOk (items : list fitem)
| RangeErr (class : N).   (* 1 canonical hash missing, 2 header, 3 body, 4 receipts, 9 out of fuel *)

(* the loop of freezeRange; all reads go to nfdb, i.e. the key-value store only *)
Fixpoint freeze_range_loop (fuel : nat) (k : kvs) (number limit : N) (acc : list fitem) : range_result :=
  if limit <? number then RangeOk (rev acc)
  else match fuel with
  | O => RangeErr 9
  | S fuel' =>
      let h := ohash (get1 number (k_canon k)) in
      if h =? 0 then RangeErr 1 else
      let header := oblob (get2 (number, h) (k_hdr k)) in
      if negb (nonempty header) then RangeErr 2 else
      let body := oblob (get2 (number, h) (k_body k)) in
      if negb (nonempty body) then RangeErr 3 else
      let receipts := oblob (get2 (number, h) (k_rcpt k)) in
      if negb (nonempty receipts) then RangeErr 4 else
      let bals := oblob (get2 (number, h) (k_bal k)) in
      freeze_range_loop fuel' k (number + 1) limit (mkItem h header body receipts bals :: acc)
  end.

(* ---------------- one iteration of the freeze loop ---------------- *)

(* first pass over [first, frozen): queue DeleteBlock for every remaining hash, and
   remember the hashes of the last height visited (the variable [dangling]) *)
Definition side_pass (k : kvs) (numbers : list N) : list dop * list hash :=
  fold_left (fun (acc : list dop * list hash) number =>
               if number =? 0 then acc
               else let hs := all_hashes k number in
                    (fst acc ++ map (fun h => DBlock number h) hs, hs))
            numbers ([], []).

Fixpoint seqN (start : N) (count : nat) : list N :=
  match count with O => [] | S c => start :: seqN (start + 1) c end.

Definition mem (h : hash) (l : list hash) : bool := existsb (fun x => x =? h) l.

(* the "step into the future" loop: children whose header is missing stay in the
   list (continue), children with a parent outside [drop] are removed from it,
   the others are deleted and stay *)
Definition child_keep (k : kvs) (tip : N) (drop : list hash) (c : hash) : bool :=
  match hdr_parent (oblob (get2 (tip, c) (k_hdr k))) with
  | None => true
  | Some p => mem p drop
  end.
Definition child_del (k : kvs) (tip : N) (drop : list hash) (c : hash) : bool :=
  match hdr_parent (oblob (get2 (tip, c) (k_hdr k))) with
  | None => false
  | Some p => mem p drop
  end.

Fixpoint dangling_pass (fuel : nat) (k : kvs) (tip : N) (dangling : list hash) (acc : list dop)
  : list dop * bool :=
  match dangling with
  | [] => (acc, true)
  | _ :: _ =>
      match fuel with
      | O => (acc, false)          (* out of fuel: reported, never hidden *)
      | S fuel' =>
          let children := all_hashes k tip in
          let dels := filter (child_del k tip dangling) children in
          dangling_pass fuel' k (tip + 1) (filter (child_keep k tip dangling) children)
                        (acc ++ map (fun c => DBlock tip c) dels)
      end
  end.

Definition freezer_batch_limit : N := 30000.

Inductive outcome :=
| Backoff (class : N)     (* 1 threshold unavailable, 2 already frozen, 1x freezeRange error x *)
| Froze (fuel_ok : bool).

(* The states after each persistence action of one iteration:
   [after ModifyAncients; after SyncAncient; after batch.Write #1 (canonical data);
    after batch.Write #2 (side chains below the boundary); after batch.Write #3 (dangling)].
   "Before" a write is the state after the previous action. *)
Definition cycle (batch_limit : N) (s : st) : outcome * list st :=
  let k := s_kv s in
  let f := s_fz s in
  match freeze_threshold k with
  | None => (Backoff 1, [])
  | Some threshold =>
      let fr := frozen f in
      if negb (fr =? 0) && (threshold <=? fr - 1) then (Backoff 2, [])
      else
        let first := fr in
        let last := threshold in
        let last := if batch_limit <? (last + two64 - first + 1) mod two64
                    then (batch_limit + first - 1) mod two64 else last in
        let fuel := N.to_nat (N.min (last + 1 - first) (batch_limit + 1)) in
        match freeze_range_loop fuel k first last [] with
        | RangeErr c => (Backoff (10 + c), [])      (* ModifyAncients rolled back *)
        | RangeOk items =>
            let f1 := mkFrz (f_items f ++ items) (f_durable f) in
            let s1 := mkSt k f1 in
            let f2 := mkFrz (f_items f1) (frozen f1) in
            let s2 := mkSt k f2 in
            (* wipe the canonical data, always keeping the genesis block *)
            let ops1 := flat_map (fun (ni : N * fitem) =>
                                    if fst ni =? 0 then []
                                    else [DBlockNoNum (fst ni) (fi_hash (snd ni)); DCanon (fst ni)])
                                 (combine (seqN first (length items)) items) in
            let k3 := write_batch ops1 k in
            let s3 := mkSt k3 f2 in
            (* side chains in [first, frozen) *)
            let fr' := frozen f2 in
            let sp := side_pass k3 (seqN first (N.to_nat (fr' - first))) in
            let k4 := write_batch (fst sp) k3 in
            let s4 := mkSt k4 f2 in
            (* dangling side chains above the boundary *)
            if 0 <? fr' then
              let dp := dangling_pass (S (length (k_hdr k4))) k4 fr' (snd sp) [] in
              let k5 := write_batch (fst dp) k4 in
              (Froze (snd dp), [s1; s2; s3; s4; mkSt k5 f2])
            else (Froze true, [s1; s2; s3; s4])
        end
  end.

Definition last_state (s : st) (l : list st) : st := last l s.

(* ---------------- crash and reopen ---------------- *)

(* A crash loses nothing of the key-value store (batches are atomic) and leaves the
   freezer, after the repair of C24, with any common head [keep] between the durable
   count and the current count. *)
Definition crash (keep : N) (s : st) : st :=
  mkSt (s_kv s) (mkFrz (firstn (N.to_nat keep) (f_items (s_fz s))) (f_durable (s_fz s))).

Definition crash_ok (keep : N) (s : st) : bool :=
  (f_durable (s_fz s) <=? keep) && (keep <=? frozen (s_fz s)).

(* database.go:Open — cross validation of the two stores. 0 = opened. *)
Definition open_check (s : st) : N :=
  let k := s_kv s in
  match get1 0 (k_canon k) with
  | None => 0
  | Some kvgenesis =>
      let fr := frozen (s_fz s) in
      if 0 <? fr then
        match ancient (s_fz s) 0 with
        | None => 1                                         (* failed to retrieve genesis *)
        | Some it =>
            if negb (fi_hash it =? kvgenesis) then 2        (* genesis mismatch *)
            else match get1 fr (k_canon k) with
                 | Some _ => 0
                 | None =>
                     match get1 (k_head_header k) (k_num k) with
                     | None => 3                            (* could not read header number *)
                     | Some head => if fr - 1 <? head then 4 (* gap in the chain *) else 0
                     end
                 end
        end
      else if negb (k_head_header k =? kvgenesis)
           then match get1 1 (k_canon k) with None => 5 | Some _ => 0 end
           else 0
  end.

(* ---------------- histories ---------------- *)
Inductive event :=
| EvMarkers (head_block head_header final : hash)   (* the chain moves its markers *)
| EvCycle                                           (* a complete freezer iteration *)
| EvCrash (stop : nat) (keep : N).                  (* iteration interrupted after [stop]
                                                       persistence actions, then crash + reopen *)

Definition set_markers (hb hh fin : hash) (s : st) : st :=
  let k := s_kv s in
  mkSt (mkKV (k_canon k) (k_hdr k) (k_body k) (k_rcpt k) (k_bal k) (k_num k) (k_txl k) hb hh fin)
       (s_fz s).

(* state at stop point [stop] of an iteration started in [s] (0 = nothing done yet) *)
Definition stop_state (batch_limit : N) (s : st) (stop : nat) : st :=
  last (firstn stop (snd (cycle batch_limit s))) s.

Definition step (batch_limit : N) (s : st) (e : event) : st :=
  match e with
  | EvMarkers hb hh fin => set_markers hb hh fin s
  | EvCycle => last (snd (cycle batch_limit s)) s
  | EvCrash stop keep =>
      let t := stop_state batch_limit s stop in
      if crash_ok keep t then crash keep t else t
  end.

(* every state an observer can see during an event *)
Definition visible (batch_limit : N) (s : st) (e : event) : list st :=
  match e with
  | EvMarkers _ _ _ => [step batch_limit s e]
  | EvCycle => snd (cycle batch_limit s)
  | EvCrash stop keep => firstn stop (snd (cycle batch_limit s)) ++ [step batch_limit s e]
  end.

Fixpoint run (batch_limit : N) (s : st) (evs : list event) : st :=
  match evs with [] => s | e :: r => run batch_limit (step batch_limit s e) r end.

Fixpoint visible_all (batch_limit : N) (s : st) (evs : list event) : list st :=
  match evs with
  | [] => []
  | e :: r => visible batch_limit s e ++ visible_all batch_limit (step batch_limit s e) r
  end.

End Model.
