(* Storage/World.v — the store + its open batches and iterators as one state machine,
   with every method reachable through a view (the store itself or a rawdb.table).
   [norm] is how the backend's batch queues an op: [fun o => o] for the spec,
   [MemDB.mem_norm] for memorydb.  Executable; no proofs here. *)
From Coq Require Import List NArith Bool.
From GV Require Import Storage.KV Storage.Table.
Import ListNotations.

Record batch := { b_view : view; b_ops : list bop }.     (* ops as the inner batch holds them *)
Record iter := { i_view : view; i_rest : kv }.           (* remaining items, inner keys *)
Record world := { w_db : kv; w_batches : list batch; w_iters : list iter }.

Definition init (m : kv) : world := {| w_db := m; w_batches := []; w_iters := [] |}.

Inductive op :=
| OPut (v : view) (k : key) (x : value)
| ODelete (v : view) (k : key)
| ODeleteRange (v : view) (s e : option key)
| OHas (v : view) (k : key)
| OGet (v : view) (k : key)
| ONewBatch (v : view)
| OBPut (b : nat) (k : key) (x : value)
| OBDelete (b : nat) (k : key)
| OBDeleteRange (b : nat) (s e : option key)
| OBWrite (b : nat)
| OBReset (b : nat)
| OBReplay (b : nat) (target : view)
| ONewIter (v : view) (prefix start : key)
| OIterNext (i : nat)
| ODump.

Inductive out :=
| UOk
| UBool (b : bool)
| UVal (o : option value)            (* Get: None = not-found error class *)
| UItem (o : option (key * value))   (* Next(): None = false, Some = true with Key(), Value() *)
| UErr                               (* Replay error class *)
| UBadHandle                         (* the history names a batch/iterator that does not exist *)
| UDump (m : kv).

Fixpoint upd {A} (n : nat) (x : A) (l : list A) : list A :=
  match l, n with
  | [], _ => []
  | _ :: r, O => x :: r
  | y :: r, S n' => y :: upd n' x r
  end.

Definition set_db (w : world) (m : kv) : world :=
  {| w_db := m; w_batches := w_batches w; w_iters := w_iters w |}.
Definition set_batch (w : world) (b : nat) (x : batch) : world :=
  {| w_db := w_db w; w_batches := upd b x (w_batches w); w_iters := w_iters w |}.
Definition set_iter (w : world) (i : nat) (x : iter) : world :=
  {| w_db := w_db w; w_batches := w_batches w; w_iters := upd i x (w_iters w) |}.

(* queue one op on batch b (tableBatch prefixes, then the inner batch queues) *)
Definition queue (norm : bop -> bop) (w : world) (b : nat) (o : bop) : world * out :=
  match nth_error (w_batches w) b with
  | None => (w, UBadHandle)
  | Some bt =>
      (set_batch w b {| b_view := b_view bt; b_ops := b_ops bt ++ [norm (vbop (b_view bt) o)] |}, UOk)
  end.

Definition step (norm : bop -> bop) (w : world) (o : op) : world * out :=
  match o with
  | OPut v k x => (set_db w (apply (vbop v (BPut k x)) (w_db w)), UOk)
  | ODelete v k => (set_db w (apply (vbop v (BDel k)) (w_db w)), UOk)
  | ODeleteRange v s e => (set_db w (apply (vbop v (BDelRange s e)) (w_db w)), UOk)
  | OHas v k => (w, UBool (has (vkey v k) (w_db w)))
  | OGet v k => (w, UVal (get (vkey v k) (w_db w)))
  | ONewBatch v =>
      ({| w_db := w_db w; w_batches := w_batches w ++ [{| b_view := v; b_ops := [] |}];
          w_iters := w_iters w |}, UOk)
  | OBPut b k x => queue norm w b (BPut k x)
  | OBDelete b k => queue norm w b (BDel k)
  | OBDeleteRange b s e => queue norm w b (BDelRange s e)
  | OBWrite b =>
      match nth_error (w_batches w) b with
      | None => (w, UBadHandle)
      | Some bt => (set_db w (write (b_ops bt) (w_db w)), UOk)
      end
  | OBReset b =>
      match nth_error (w_batches w) b with
      | None => (w, UBadHandle)
      | Some bt => (set_batch w b {| b_view := b_view bt; b_ops := [] |}, UOk)
      end
  | OBReplay b tv =>
      match nth_error (w_batches w) b with
      | None => (w, UBadHandle)
      | Some bt =>
          let '(m, ok) := replay_view (b_view bt) tv (b_ops bt) (w_db w) in
          (set_db w m, if ok then UOk else UErr)
      end
  | ONewIter v p s =>
      ({| w_db := w_db w; w_batches := w_batches w;
          w_iters := w_iters w ++ [{| i_view := v; i_rest := viter_items v p s (w_db w) |}] |}, UOk)
  | OIterNext i =>
      match nth_error (w_iters w) i with
      | None => (w, UBadHandle)
      | Some it =>
          match i_rest it with
          | [] => (w, UItem None)
          | (k, x) :: r =>
              (set_iter w i {| i_view := i_view it; i_rest := r |}, UItem (Some (vstrip (i_view it) k, x)))
          end
      end
  | ODump => (w, UDump (w_db w))
  end.

Fixpoint run (norm : bop -> bop) (h : list op) (w : world) : list out * world :=
  match h with
  | [] => ([], w)
  | o :: r =>
      let '(w1, u) := step norm w o in
      let '(us, w2) := run norm r w1 in
      (u :: us, w2)
  end.
