(* Storage/FreezerProofs.v — Freezer.repair (Storage/Freezer.v) aligns all tables to one
   contiguous range that lies within every table's recovered content. *)
From GV Require Import Lib.Tactics Storage.FreezerTable Storage.FreezerTableProofs Storage.FreezerTableInv Storage.Freezer.
Local Open Scope N_scope.

(* ---------- what truncateHead / truncateTail do to the counters ---------- *)
Lemma truncate_head_spec t n t' :
  truncate_head t n = Ok t' ->
  (t_items t <= n /\ t' = t) \/
  (n < t_items t /\ n < t_hidden t /\ t_items t = t_hidden t /\ t_items t' = n /\ t_hidden t' = n) \/
  (n < t_items t /\ t_hidden t <= n /\ t_items t' = n /\ t_hidden t' = t_hidden t).
Proof.
  intros E. unfold truncate_head in E. cbv zeta in E.
  destruct (N.leb_spec (t_items t) n) as [L1|L1]; [left; inversion E; subst; split; [assumption|reflexivity]|].
  destruct (N.ltb_spec n (t_hidden t)) as [L2|L2].
  { destruct (N.eqb_spec (t_items t) (t_hidden t)) as [Q|Q]; [|discriminate].
    right; left. pose proof (reset_to_core _ _ _ E) as C. cbv zeta in C. unfold core in C. inversion C.
    repeat split; first [assumption | reflexivity | lia | congruence]. }
  right; right. cbv zeta in E.
  match type of E with (match ?X with _ => _ end) = _ => destruct X as [ex|] eqn:EX end; [|discriminate].
  match type of E with context [data_upd ?X _ _] => set (T3 := X) in E end.
  destruct (data_upd T3 (t_head T3) _) as [t4|] eqn:ED; [|discriminate].
  inversion E; subst t'; clear E. apply core_data_upd, core_proj in ED.
  destruct ED as (_ & _ & D3 & _). cbn [w_counters t_items t_hidden]. rewrite D3.
  repeat split; try assumption.
  subst T3. destruct (efile ex =? _).
  - destruct (_ <? _); reflexivity.
  - cbn [w_counters t_hidden].
    match goal with |- t_hidden ?C = _ => assert (CC : core C = core (if (n - t_offset t + 1) * 6 <? mflush (t_mcur (sync_index (w_index t (f_trunc (t_index t) ((n - t_offset t + 1) * 6))))) then set_flush (sync_index (w_index t (f_trunc (t_index t) ((n - t_offset t + 1) * 6)))) ((n - t_offset t + 1) * 6) else sync_index (w_index t (f_trunc (t_index t) ((n - t_offset t + 1) * 6))))) end.
    { unfold release_after. rewrite core_release_where, core_open_append, core_release_file. reflexivity. }
    apply core_proj in CC. destruct CC as (_ & _ & C3 & _). rewrite C3.
    destruct (_ <? _); reflexivity.
Qed.

Lemma truncate_tail_spec t n t' :
  truncate_tail t n = Ok t' ->
  (n <= t_hidden t /\ t' = t) \/
  (t_hidden t < n /\ t_items t < n /\ t_items t' = n /\ t_hidden t' = n) \/
  (t_hidden t < n /\ n <= t_items t /\ t_items t' = t_items t /\ t_hidden t' = n).
Proof.
  intros E. unfold truncate_tail in E. cbv zeta in E.
  destruct (N.leb_spec n (t_hidden t)) as [L1|L1]; [left; inversion E; subst; split; [assumption|reflexivity]|].
  destruct (N.ltb_spec (t_items t) n) as [L2|L2].
  { right; left. pose proof (reset_to_core _ _ _ E) as C. cbv zeta in C. unfold core in C. inversion C.
    repeat split; first [assumption | reflexivity | lia | congruence]. }
  right; right.
  match type of E with (match ?X with _ => _ end) = _ => destruct X as [newtail|] eqn:EN end; [|discriminate].
  cbv zeta in E.
  set (T2 := set_vtail (w_counters t (t_items t) (t_offset t) n (t_head t) (t_tail t) (t_headbytes t)) n false) in E.
  change (t_tail T2) with (t_tail t) in E.
  destruct (t_tail t =? newtail); [inversion E; subst; repeat split; assumption|].
  destruct (newtail <? t_tail t); [discriminate|].
  destruct (do_sync T2) as [t3|] eqn:ES; [|discriminate].
  pose proof (do_sync_core _ _ ES) as C3. unfold core in C3. inversion C3 as [[P1 P2 P3 P4 P5 P6 P7 P8 P9]].
  destruct (tail_scan _ _ _ _ _ _) as [newdel|]; [|discriminate].
  match type of E with context [release_before ?X _ _] => set (T5 := X) in E end.
  destruct (_ <=? _); [discriminate|]. inversion E; subst t'; clear E.
  unfold set_flush, meta_write. cbn [w_meta w_data w_open t_items t_hidden].
  change (t_items T5) with (t_items t3). change (t_hidden T5) with (t_hidden t3).
  rewrite P1, P3. repeat split; assumption.
Qed.

(* ---------- folds ---------- *)
Lemma map_res_forall2 {A B} (f : A -> res B) l : forall l',
  map_res f l = Ok l' -> Forall2 (fun x y => f x = Ok y) l l'.
Proof.
  induction l as [|x l IH]; intros l' H; cbn [map_res] in H.
  - inversion H. constructor.
  - destruct (f x) as [y|] eqn:E; [|discriminate]. destruct (map_res f l) as [r|]; [|discriminate].
    inversion H; subst. constructor; auto.
Qed.

Lemma fold_min_spec {A} (g : A -> N) l : forall m,
  fold_left (fun m t => N.min m (g t)) l m <= m /\
  (forall t, In t l -> fold_left (fun m t => N.min m (g t)) l m <= g t) /\
  (forall s, s <= m -> (forall t, In t l -> s <= g t) -> s <= fold_left (fun m t => N.min m (g t)) l m).
Proof.
  induction l as [|a l IH]; intros m; cbn [fold_left].
  - repeat split; try lia. intros t []. 
  - destruct (IH (N.min m (g a))) as (I1 & I2 & I3). repeat split.
    + lia.
    + intros t [<-|Ht]; [lia|apply I2; exact Ht].
    + intros s Hs Hall. apply I3; [|intros t Ht; apply Hall; right; exact Ht].
      specialize (Hall a (or_introl eq_refl)). lia.
Qed.

Lemma fold_max_spec {A} (g : A -> N) l : forall m,
  m <= fold_left (fun m t => N.max m (g t)) l m /\
  (forall t, In t l -> g t <= fold_left (fun m t => N.max m (g t)) l m) /\
  (forall b, m <= b -> (forall t, In t l -> g t <= b) -> fold_left (fun m t => N.max m (g t)) l m <= b).
Proof.
  induction l as [|a l IH]; intros m; cbn [fold_left].
  - repeat split; try lia. intros t [].
  - destruct (IH (N.max m (g a))) as (I1 & I2 & I3). repeat split.
    + lia.
    + intros t [<-|Ht]; [lia|apply I2; exact Ht].
    + intros b Hb Hall. apply I3; [|intros t Ht; apply Hall; right; exact Ht].
      specialize (Hall a (or_introl eq_refl)). lia.
Qed.

Lemma min_head_le ts t : In t ts -> t_items t <> 0 -> min_head ts <= t_items t.
Proof.
  intros Hin Hne. unfold min_head.
  assert (Hf : In t (filter (fun t => negb (t_items t =? 0)) ts)).
  { apply filter_In. split; [exact Hin|]. apply negb_true_iff. apply N.eqb_neq. exact Hne. }
  destruct (filter _ ts) as [|a r]; [destruct Hf|].
  destruct (fold_min_spec t_items r (t_items a)) as (I1 & I2 & _).
  destruct Hf as [<-|Hr]; [exact I1 | apply I2; exact Hr].
Qed.

Lemma min_head_zero ts : min_head ts = 0 -> forall t, In t ts -> t_items t = 0 \/ False \/ min_head ts = 0.
Proof. intros; auto. Qed.

Lemma min_head_empty ts : (forall t, In t ts -> t_items t = 0) -> min_head ts = 0.
Proof.
  intros H. unfold min_head.
  destruct (filter _ ts) as [|a r] eqn:E; [reflexivity|].
  assert (Ha : In a (filter (fun t => negb (t_items t =? 0)) ts)) by (rewrite E; left; reflexivity).
  apply filter_In in Ha. destruct Ha as [Ha1 Ha2]. apply negb_true_iff, N.eqb_neq in Ha2.
  specialize (H a Ha1). congruence.
Qed.

Lemma min_head_pos_or_all_empty ts :
  0 < min_head ts \/ (forall t, In t ts -> t_items t = 0).
Proof.
  unfold min_head. destruct (filter (fun t => negb (t_items t =? 0)) ts) as [|a r] eqn:E.
  - right. intros t Ht. destruct (N.eqb_spec (t_items t) 0) as [Z|Z]; [exact Z|].
    assert (In t (filter (fun t => negb (t_items t =? 0)) ts)).
    { apply filter_In. split; [exact Ht|]. apply negb_true_iff, N.eqb_neq. exact Z. }
    rewrite E in H. destruct H.
  - left. destruct (fold_min_spec t_items r (t_items a)) as (_ & _ & I3).
    assert (Hall : forall t, In t (a :: r) -> 1 <= t_items t).
    { intros t Ht. rewrite <- E in Ht. apply filter_In in Ht. destruct Ht as [_ H2].
      apply negb_true_iff, N.eqb_neq in H2. lia. }
    specialize (I3 1 (Hall a (or_introl eq_refl)) (fun t Ht => Hall t (or_intror Ht))). lia.
Qed.

Lemma min_head_ge ts s :
  ts <> [] -> (forall t, In t ts -> s <= t_items t) -> s <= min_head ts.
Proof.
  intros Hne Hall. unfold min_head.
  destruct (filter (fun t => negb (t_items t =? 0)) ts) as [|a r] eqn:E.
  - destruct ts as [|t0 ts0]; [congruence|].
    specialize (Hall t0 (or_introl eq_refl)).
    destruct (N.eqb_spec (t_items t0) 0) as [Z|Z]; [lia|].
    assert (In t0 (filter (fun t => negb (t_items t =? 0)) (t0 :: ts0))).
    { apply filter_In. split; [left; reflexivity|]. apply negb_true_iff, N.eqb_neq. exact Z. }
    rewrite E in H. destruct H.
  - destruct (fold_min_spec t_items r (t_items a)) as (_ & _ & I3).
    assert (Hin : forall t, In t (a :: r) -> In t ts).
    { intros t Ht. rewrite <- E in Ht. apply filter_In in Ht. exact (proj1 Ht). }
    apply I3; [apply Hall, Hin; left; reflexivity | intros t Ht; apply Hall, Hin; right; exact Ht].
Qed.

Lemma Forall2_right {A B} (R : A -> B -> Prop) (P : B -> Prop) l l' :
  Forall2 R l l' -> (forall x y, In x l -> R x y -> P y) -> Forall P l'.
Proof.
  induction 1 as [|x y l l' HR H IH]; intros HP; constructor.
  - apply (HP x y); [left; reflexivity | exact HR].
  - apply IH. intros a b Ha. apply HP. right. exact Ha.
Qed.

Lemma Forall2_refl_eq {A} (f : A -> res A) (l : list A) : (forall x, f x = Ok x) -> Forall2 (fun x y => f x = Ok y) l l.
Proof. intros H. induction l; constructor; auto. Qed.

Lemma Forall2_length' {A B} (R : A -> B -> Prop) l l' : Forall2 R l l' -> length l' = length l.
Proof. induction 1; cbn; congruence. Qed.

(* the three passes of Freezer.repair, pointwise *)
Lemma fz_repair_passes ts f :
  fz_repair ts = Ok f ->
  exists ts1 ts2,
    Forall2 (fun t t1 => (if (0 <? min_head ts) && (t_items t =? 0) then truncate_tail t (min_head ts) else Ok t) = Ok t1) ts ts1 /\
    Forall2 (fun t1 t2 => truncate_head t1 (min_head ts) = Ok t2) ts1 ts2 /\
    Forall2 (fun t2 t3 => truncate_tail t2 (max_tail ts2) = Ok t3) ts2 (fz_tables f) /\
    fz_head f = min_head ts /\ fz_tail f = max_tail ts2.
Proof.
  unfold fz_repair. set (head := min_head ts). intros E.
  destruct (if 0 <? head then _ else _) as [ts1|] eqn:E1; [|discriminate].
  destruct (map_res (fun t => truncate_head t head) ts1) as [ts2|] eqn:E2; [|discriminate].
  cbv zeta in E. destruct (map_res _ ts2) as [ts3|] eqn:E3; [|discriminate].
  inversion E; subst f; clear E. exists ts1, ts2. cbn [fz_tables fz_head fz_tail].
  split; [|split; [|split; [|split; reflexivity]]].
  - destruct (0 <? head) eqn:Hh.
    + apply map_res_forall2 in E1. cbn [andb]. exact E1.
    + inversion E1; subst. cbn [andb]. apply (Forall2_refl_eq (fun x => Ok x)). reflexivity.
  - apply map_res_forall2. exact E2.
  - apply map_res_forall2. exact E3.
Qed.

(* FREEZER.REPAIR ALIGNS ALL TABLES.  Whatever per-table states the table-level repair produced
   (any list of tables with tail <= head each), if Freezer.repair succeeds then every table is at
   exactly [fz_tail, fz_head), that range is well formed, and the common head is the minimum head
   of the non-empty tables: it lies within the recovered content of every non-empty table. *)
Theorem fz_repair_aligned ts f :
  Forall (fun t => t_hidden t <= t_items t) ts -> fz_repair ts = Ok f ->
  length (fz_tables f) = length ts /\
  Forall (fun t' => t_items t' = fz_head f /\ t_hidden t' = fz_tail f) (fz_tables f) /\
  fz_tail f <= fz_head f /\
  fz_head f = min_head ts /\
  (forall t, In t ts -> t_items t <> 0 -> fz_head f <= t_items t).
Proof.
  intros Hwf E. destruct (fz_repair_passes _ _ E) as (ts1 & ts2 & F1 & F2 & F3 & Hh & Ht).
  set (head := min_head ts) in *.
  rewrite Forall_forall in Hwf.
  (* after pass 1: every table reaches the head and is well formed *)
  assert (A1 : Forall (fun t1 => head <= t_items t1 /\ t_hidden t1 <= t_items t1) ts1).
  { eapply Forall2_right; [exact F1|]. intros t t1 Hin R. cbv beta in R. specialize (Hwf t Hin).
    destruct (N.eqb_spec (t_items t) 0) as [Z|Z].
    - destruct (N.ltb_spec 0 head) as [P|P]; cbn [andb] in R.
      + apply truncate_tail_spec in R. destruct R as [[R1 ->]|[(R1 & R2 & R3 & R4)|(R1 & R2 & R3 & R4)]]; lia.
      + inversion R; subst t1. lia.
    - rewrite andb_false_r in R. inversion R; subst t1. split; [|exact Hwf].
      apply min_head_le; assumption. }
  (* after pass 2: every table is at the head, tails below it *)
  assert (A2 : Forall (fun t2 => t_items t2 = head /\ t_hidden t2 <= head) ts2).
  { rewrite Forall_forall in A1. eapply Forall2_right; [exact F2|]. intros t1 t2 Hin R. cbv beta in R.
    destruct (A1 t1 Hin) as [B1 B2]. apply truncate_head_spec in R.
    destruct R as [[R1 ->]|[(R1 & R2 & R3 & R4 & R5)|(R1 & R2 & R3 & R4)]]; lia. }
  assert (HT : max_tail ts2 <= head /\ forall t2, In t2 ts2 -> t_hidden t2 <= max_tail ts2).
  { unfold max_tail. destruct (fold_max_spec t_hidden ts2 0) as (_ & I2 & I3). split; [|exact I2].
    apply I3; [lia|]. rewrite Forall_forall in A2. intros t2 H2. exact (proj2 (A2 t2 H2)). }
  destruct HT as [HT1 HT2].
  assert (A3 : Forall (fun t3 => t_items t3 = head /\ t_hidden t3 = max_tail ts2) (fz_tables f)).
  { rewrite Forall_forall in A2. eapply Forall2_right; [exact F3|]. intros t2 t3 Hin R. cbv beta in R.
    destruct (A2 t2 Hin) as [B1 B2]. specialize (HT2 t2 Hin). apply truncate_tail_spec in R.
    destruct R as [[R1 ->]|[(R1 & R2 & R3 & R4)|(R1 & R2 & R3 & R4)]]; lia. }
  rewrite Hh, Ht. repeat split.
  - rewrite (Forall2_length' _ _ _ F3), (Forall2_length' _ _ _ F2), (Forall2_length' _ _ _ F1). reflexivity.
  - exact A3.
  - exact HT1.
  - intros t Hin Hne. apply min_head_le; assumption.
Qed.

(* NOTHING SYNCED TO ALL TABLES IS LOST.  If every table recovered at least the items [h, s)
   (head >= s, tail <= h, h < s), the common range still contains [h, s). *)
Theorem fz_repair_keeps_synced ts f s h :
  ts <> [] -> (forall t, In t ts -> s <= t_items t /\ t_hidden t <= h) -> h < s ->
  fz_repair ts = Ok f -> s <= fz_head f /\ fz_tail f <= h.
Proof.
  intros Hne Hall Hhs E. destruct (fz_repair_passes _ _ E) as (ts1 & ts2 & F1 & F2 & F3 & Hh & Ht).
  set (head := min_head ts) in *.
  assert (Hs : s <= head) by (apply min_head_ge; [exact Hne | intros t Ht0; exact (proj1 (Hall t Ht0))]).
  rewrite Hh, Ht. split; [exact Hs|].
  assert (A1 : Forall (fun t1 => s <= t_items t1 /\ t_hidden t1 <= h) ts1).
  { eapply Forall2_right; [exact F1|]. intros t t1 Hin R. cbv beta in R. destruct (Hall t Hin) as [B1 B2].
    replace (t_items t =? 0) with false in R by (symmetry; apply N.eqb_neq; lia).
    rewrite andb_false_r in R. inversion R; subst. split; assumption. }
  assert (A2 : Forall (fun t2 => t_hidden t2 <= h) ts2).
  { rewrite Forall_forall in A1. eapply Forall2_right; [exact F2|]. intros t1 t2 Hin R. cbv beta in R.
    destruct (A1 t1 Hin) as [B1 B2]. apply truncate_head_spec in R.
    destruct R as [[R1 ->]|[(R1 & R2 & R3 & R4 & R5)|(R1 & R2 & R3 & R4)]]; lia. }
  unfold max_tail. destruct (fold_max_spec t_hidden ts2 0) as (_ & _ & I3). apply I3; [lia|].
  rewrite Forall_forall in A2. exact A2.
Qed.
