(* Storage/FreezerSuccess.v — Freezer.repair does not fail: success of resetTo, truncateHead and
   truncateTail on well-formed tables, and preservation of well-formedness, composed over the
   three passes of Freezer.repair (Storage/Freezer.v). *)
From GV Require Import Lib.Tactics Storage.FreezerTable Storage.FreezerTableProofs Storage.FreezerTableInv Storage.Freezer Storage.FreezerProofs.
Local Open Scope N_scope.

Ltac inv_destruct H :=
  destruct H as (rest & Hb & Hwf & Ht & Ho & Hv & Hi & Hi32 & Hh & Hhb & Hhm & Hsm & Hm6 & H6 & Hfd & Hfw
                 & Hms & Hv1 & Hv2 & Hoh & Hhi).

(* ---------- the data-file directory ---------- *)
Lemma dget_dset_same id x l : dget id (dset id x l) = Some x.
Proof.
  induction l as [|[k g] l IH]; cbn [dset dget].
  - rewrite N.eqb_refl. reflexivity.
  - destruct (N.eqb_spec k id) as [E|E].
    + cbn [dget]. rewrite N.eqb_refl. reflexivity.
    + destruct (id <? k); cbn [dget].
      * rewrite N.eqb_refl. reflexivity.
      * destruct (N.eqb_spec k id); [contradiction|]. exact IH.
Qed.

Lemma dget_dset_other id id' x l : id' <> id -> dget id' (dset id x l) = dget id' l.
Proof.
  intros Hne. induction l as [|[k g] l IH]; cbn [dset dget].
  - destruct (N.eqb_spec id id'); [congruence|reflexivity].
  - destruct (N.eqb_spec k id) as [E|E].
    + cbn [dget]. subst k. destruct (N.eqb_spec id id'); [congruence|reflexivity].
    + destruct (id <? k); cbn [dget].
      * destruct (N.eqb_spec id id'); [congruence|reflexivity].
      * destruct (k =? id'); [reflexivity|exact IH].
Qed.

Lemma dget_filter_key (q : N -> bool) id l :
  q id = true -> dget id (filter (fun kf => q (fst kf)) l) = dget id l.
Proof.
  intros Hq. induction l as [|[k g] l IH]; [reflexivity|]. cbn [filter fst dget].
  destruct (q k) eqn:Qk; cbn [dget].
  - destruct (k =? id); [reflexivity|exact IH].
  - destruct (N.eqb_spec k id) as [E|E]; [congruence|exact IH].
Qed.

Lemma existsb_eqb_In id l : existsb (N.eqb id) l = true <-> In id l.
Proof.
  rewrite existsb_exists. split.
  - intros [x [Hx E]]. apply N.eqb_eq in E. subst. exact Hx.
  - intros H. exists id. split; [exact H|apply N.eqb_refl].
Qed.

(* ---------- well-formedness of handles and files ---------- *)
Definition has (t : table) (id : N) : Prop := exists f, dget id (t_data t) = Some f.
(* every open handle refers to an existing file, and the head file exists *)
Definition OD (t : table) : Prop := forall id, In id (t_open t) -> has t id.
Definition FW (t : table) : Prop := OD t /\ has t (t_head t).

Lemma od_data_upd t id g t' : data_upd t id g = Ok t' -> OD t -> OD t' /\ has t' id /\ (forall i, has t i -> has t' i) /\ t_open t' = t_open t.
Proof.
  unfold data_upd. destruct (dget id (t_data t)) as [f|] eqn:E; [|discriminate].
  intros H; inversion H; subst; clear H. intros HO.
  assert (K : forall i, has t i -> has (w_data t (dset id (g f) (t_data t))) i).
  { intros i [fi Hi]. unfold has. cbn [w_data t_data].
    destruct (N.eq_dec i id) as [->|Ne]; [rewrite dget_dset_same; eauto | rewrite dget_dset_other by exact Ne; eauto]. }
  repeat split.
  - intros i Hi. apply K. apply HO. exact Hi.
  - unfold has. cbn [w_data t_data]. rewrite dget_dset_same. eauto.
  - exact K.
Qed.

Lemma od_open_append t id : OD t -> OD (open_append t id) /\ has (open_append t id) id /\ (forall i, has t i -> has (open_append t id) i).
Proof.
  intros HO. unfold open_append. destruct (existsb (N.eqb id) (t_open t)) eqn:E.
  - apply existsb_eqb_In in E. repeat split; auto.
  - destruct (dget id (t_data t)) as [f|] eqn:D.
    + repeat split; auto.
      * intros i [<-|Hi]; [exists f; exact D | apply HO; exact Hi].
      * exists f. exact D.
    + assert (K : forall i, has t i -> has (w_open (w_data t (dset id f_empty (t_data t))) (id :: t_open (w_data t (dset id f_empty (t_data t))))) i).
      { intros i [fi Hi]. unfold has. cbn [w_open w_data t_data].
        destruct (N.eq_dec i id) as [->|Ne]; [rewrite dget_dset_same; eauto | rewrite dget_dset_other by exact Ne; eauto]. }
      repeat split.
      * intros i [<-|Hi]; [unfold has; cbn [w_open w_data t_data]; rewrite dget_dset_same; eauto | apply K, HO; exact Hi].
      * unfold has. cbn [w_open w_data t_data]. rewrite dget_dset_same. eauto.
      * exact K.
Qed.

Lemma od_open_trunc t id : OD t -> OD (open_trunc t id) /\ has (open_trunc t id) id /\ (forall i, has t i -> has (open_trunc t id) i).
Proof.
  intros HO. unfold open_trunc. destruct (existsb (N.eqb id) (t_open t)) eqn:E.
  - apply existsb_eqb_In in E. repeat split; auto.
  - assert (K : forall i, has t i -> has (w_open (w_data t (dset id f_empty (t_data t))) (id :: t_open t)) i).
    { intros i [fi Hi]. unfold has. cbn [w_open w_data t_data].
      destruct (N.eq_dec i id) as [->|Ne]; [rewrite dget_dset_same; eauto | rewrite dget_dset_other by exact Ne; eauto]. }
    repeat split.
    + intros i [<-|Hi]; [unfold has; cbn [w_open w_data t_data]; rewrite dget_dset_same; eauto | apply K, HO; exact Hi].
    + unfold has. cbn [w_open w_data t_data]. rewrite dget_dset_same. eauto.
    + exact K.
Qed.

Lemma od_release_file t id : OD t -> OD (release_file t id) /\ (forall i, has t i -> has (release_file t id) i).
Proof.
  intros HO. split; [|auto]. intros i Hi. unfold release_file in Hi. cbn [w_open t_open] in Hi.
  apply filter_In in Hi. apply HO. exact (proj1 Hi).
Qed.

(* releaseFilesAfter/Before with removal: open handles keep their files; a file survives unless it is
   an open file selected by [p] *)
Lemma od_release_where t p rm :
  OD t -> OD (release_where t p rm) /\ (forall i, has t i -> p i = false -> has (release_where t p rm) i).
Proof.
  intros HO. unfold release_where.
  set (gone := filter p (t_open t)).
  assert (G : forall i, p i = false -> existsb (N.eqb i) gone = false).
  { intros i Hp. destruct (existsb (N.eqb i) gone) eqn:E; [|reflexivity].
    apply existsb_eqb_In in E. apply filter_In in E. destruct E as [_ E]. congruence. }
  destruct rm.
  - assert (K : forall i, has t i -> p i = false ->
               has (w_data (w_open t (filter (fun k => negb (p k)) (t_open t)))
                           (filter (fun kf => negb (existsb (N.eqb (fst kf)) gone)) (t_data (w_open t (filter (fun k => negb (p k)) (t_open t)))))) i).
    { intros i [f Hf] Hp. unfold has. cbn [w_data w_open t_data].
      rewrite (dget_filter_key (fun k => negb (existsb (N.eqb k) gone))).
      - eauto.
      - rewrite G by exact Hp. reflexivity. }
    split; [|exact K].
    intros i Hi. cbn [w_data w_open t_open] in Hi. apply filter_In in Hi. destruct Hi as [Hi Hp].
    apply negb_true_iff in Hp. apply K; [apply HO; exact Hi | exact Hp].
  - split; [|auto]. intros i Hi. cbn [w_open t_open] in Hi. apply filter_In in Hi. apply HO. exact (proj1 Hi).
Qed.

Lemma has_ext t t' i : t_data t' = t_data t -> has t i -> has t' i.
Proof. unfold has. intros ->. auto. Qed.
Lemma od_ext t t' : t_data t' = t_data t -> t_open t' = t_open t -> OD t -> OD t'.
Proof. unfold OD, has. intros -> ->. auto. Qed.

(* ---------- doSync ---------- *)
Lemma do_sync_ok t :
  FW t -> exists t', do_sync t = Ok t' /\ FW t' /\ t_head t' = t_head t /\ (forall i, has t i -> has t' i).
Proof.
  intros [HO [f Hf]]. unfold do_sync, sync_head.
  destruct (data_upd (sync_index t) (t_head (sync_index t)) f_sync) as [t2|] eqn:E.
  - destruct (od_data_upd _ _ _ _ E) as (O2 & H2 & K2 & Op2); [exact HO|].
    exists (set_flush t2 (fsize (t_index t2))). split; [reflexivity|].
    assert (Hh : t_head t2 = t_head t).
    { apply core_data_upd, core_proj in E. destruct E as (_ & _ & _ & E4 & _). exact E4. }
    repeat split.
    + eapply od_ext; [| |exact O2]; reflexivity.
    + cbn [set_flush meta_write w_meta t_head]. rewrite Hh. eapply has_ext; [|exact H2]. reflexivity.
    + exact Hh.
    + intros i Hi. eapply has_ext; [|apply K2; exact Hi]. reflexivity.
  - exfalso. unfold data_upd in E. cbn [sync_index w_index t_head t_data] in E. rewrite Hf in E. discriminate.
Qed.

(* ---------- resetTo ---------- *)
Lemma reset_to_ok t n :
  FW t -> exists t', reset_to t n = Ok t' /\ FW t'.
Proof.
  intros HF. destruct (do_sync_ok t HF) as (t1 & E1 & [O1 H1] & Hh1 & K1).
  unfold reset_to. rewrite E1. cbv zeta.
  set (nh := (t_head t1 + 1) mod two32).
  set (t4 := set_flush (set_vtail (w_index t1 (f_synced (enc_entry (mkE nh (n mod two32))))) n true) 6).
  assert (O4 : OD t4) by (eapply od_ext; [| |exact O1]; reflexivity).
  destruct (od_open_trunc t4 nh O4) as (O5 & H5 & K5).
  destruct (od_release_where (open_trunc t4 nh) (fun k => k <? nh) true O5) as (O6 & K6).
  eexists. split; [reflexivity|]. split.
  - eapply od_ext; [| |exact O6]; reflexivity.
  - cbn [w_counters t_head]. eapply has_ext; [|apply K6; [exact H5|apply N.ltb_irrefl]]. reflexivity.
Qed.

(* ---------- truncateHead ---------- *)
Lemma trunc_read_ok maxsz t n :
  IdxInv maxsz t -> t_hidden t <= n -> n < t_items t -> n - t_offset t <> 0 ->
  exists e, read6 (fbytes (f_trunc (t_index t) ((n - t_offset t + 1) * 6))) ((n - t_offset t) * 6) = Some e.
Proof.
  unfold IdxInv, core, IdxInvC. intros HI L2 L1 Hz. inv_destruct HI.
  set (len := n - t_offset t) in *. set (k := N.to_nat len).
  assert (Hk : (k <= length rest)%nat) by (subst k len; lia).
  pose proof (idx_size _ _ _ _ Hb) as Hsz.
  assert (Hbytes : fbytes (f_trunc (t_index t) ((len + 1) * 6))
                   = concat (map enc_entry (mkE (t_tail t) (t_offset t) :: firstn k rest))).
  { unfold f_trunc. cbn [fbytes]. replace (N.to_nat ((len + 1) * 6)) with (6 * S k)%nat by lia.
    rewrite Hsz. replace (6 * S k - 6 * S (length rest))%nat with 0%nat by lia. cbn [repeat].
    rewrite app_nil_r. rewrite Hb, firstn_concat_enc. reflexivity. }
  rewrite Hbytes. replace (len * 6) with (6 * N.of_nat k) by lia.
  rewrite read6_enc.
  - destruct (nth_error (mkE (t_tail t) (t_offset t) :: firstn k rest) k) as [e|] eqn:E; [eauto|].
    apply nth_error_None in E. cbn [length] in E. rewrite firstn_length in E. lia.
  - cbn [forallb]. unfold entry_wf at 1. cbn [efile eoff].
    replace (t_tail t <? 65536) with true by (symmetry; apply N.ltb_lt; exact Ht).
    replace (t_offset t <? two32) with true by (symmetry; apply N.ltb_lt; exact Ho).
    cbn. apply forallb_firstn. exact Hwf.
Qed.

Lemma truncate_head_ok maxsz t n :
  IdxInv maxsz t -> FW t ->
  (n < t_items t -> n < t_hidden t -> t_items t = t_hidden t) ->
  exists t', truncate_head t n = Ok t' /\ FW t'.
Proof.
  intros HI HF Hg. unfold truncate_head. cbv zeta.
  destruct (N.leb_spec (t_items t) n) as [L1|L1]; [exists t; split; [reflexivity|exact HF]|].
  destruct (N.ltb_spec n (t_hidden t)) as [L2|L2].
  { rewrite (Hg L1 L2), N.eqb_refl. apply reset_to_ok. exact HF. }
  set (len := n - t_offset t).
  set (T1 := sync_index (w_index t (f_trunc (t_index t) ((len + 1) * 6)))).
  set (T2 := if (len + 1) * 6 <? mflush (t_mcur T1) then set_flush T1 ((len + 1) * 6) else T1).
  destruct HF as [HO HH].
  assert (D2 : t_data T2 = t_data t /\ t_open T2 = t_open t /\ t_head T2 = t_head t /\
               fbytes (t_index T2) = fbytes (f_trunc (t_index t) ((len + 1) * 6))).
  { subst T2 T1. destruct (_ <? _); repeat split; reflexivity. }
  destruct D2 as (D2a & D2b & D2c & D2d).
  assert (O2 : OD T2) by (eapply od_ext; eauto).
  assert (EX : exists ex, (if len =? 0 then Ok (mkE (t_tail T2) 0)
                           else match read6 (fbytes (t_index T2)) (len * 6) with Some e => Ok e | None => Err E_IO end) = Ok ex).
  { destruct (N.eqb_spec len 0) as [Z|Z]; [eauto|].
    rewrite D2d. destruct (trunc_read_ok maxsz t n HI L2 L1 Z) as [e He]. fold len in He. rewrite He. eauto. }
  destruct EX as [ex EX]. rewrite EX.
  match goal with |- context [data_upd ?X _ _] => set (T3 := X) end.
  assert (F3 : OD T3 /\ has T3 (t_head T3)).
  { subst T3. destruct (N.eqb_spec (efile ex) (t_head T2)) as [Q|Q].
    - split; [exact O2|]. rewrite D2c. eapply has_ext; [exact D2a|exact HH].
    - destruct (od_release_file T2 (efile ex) O2) as [Oa Ka].
      destruct (od_open_append _ (efile ex) Oa) as (Ob & Hb & Kb).
      destruct (od_release_where _ (fun k => efile ex <? k) true Ob) as (Oc & Kc).
      split.
      + eapply od_ext; [| |exact Oc]; reflexivity.
      + cbn [w_counters t_head]. eapply has_ext; [|apply Kc; [exact Hb|apply N.ltb_irrefl]]. reflexivity. }
  destruct F3 as [O3 [f3 H3]].
  destruct (data_upd T3 (t_head T3) _) as [t4|] eqn:ED.
  - destruct (od_data_upd _ _ _ _ ED O3) as (O4 & H4 & _ & _).
    eexists. split; [reflexivity|]. split.
    + eapply od_ext; [| |exact O4]; reflexivity.
    + cbn [w_counters t_head].
      assert (Hh : t_head t4 = t_head T3).
      { apply core_data_upd, core_proj in ED. destruct ED as (_ & _ & _ & E4 & _). exact E4. }
      rewrite Hh. eapply has_ext; [|exact H4]. reflexivity.
  - exfalso. unfold data_upd in ED. rewrite H3 in ED. discriminate.
Qed.

(* ---------- file numbers along a valid index are non-decreasing ---------- *)
Lemma check_items_file_le a b : check_items a b = true -> efile a <= efile b.
Proof.
  unfold check_items.
  destruct (N.eqb_spec (efile b) (efile a)); destruct (N.eqb_spec (efile b) (efile a + 1)); cbn; intros H; try lia; discriminate.
Qed.

Lemma chain_le_last l : forall p off,
  check_tail p l off = None ->
  efile p <= efile (last l p) /\ forall e, In e l -> efile p <= efile e /\ efile e <= efile (last l p).
Proof.
  induction l as [|e r IH]; intros p off H.
  - cbn. split; [lia|]. intros e [].
  - cbn [check_tail] in H. destruct (check_items p e) eqn:C; [|discriminate].
    apply check_items_file_le in C. destruct (IH e _ H) as [I1 I2]. rewrite last_cons.
    split; [lia|]. intros x [<-|Hx]; [lia|]. destruct (I2 x Hx). lia.
Qed.

Lemma index_files_monotone h rest :
  check_index (h :: rest) = None ->
  efile h <= efile (last rest (mkE (efile h) 0)) /\
  forall e, In e rest -> efile h <= efile e /\ efile e <= efile (last rest (mkE (efile h) 0)).
Proof.
  intros Hv. destruct rest as [|e1 r].
  - cbn. split; [lia|]. intros e [].
  - apply check_index_cons2 in Hv. destruct Hv as [F C]. rewrite last_cons.
    assert (Hf : efile h <= efile e1).
    { unfold first_ok in F. destruct (N.eqb_spec (efile e1) (efile h)); destruct (N.eqb_spec (efile e1) (efile h + 1)); cbn in F; try lia; discriminate. }
    destruct (chain_le_last r e1 12 C) as [I1 I2]. split; [lia|].
    intros x [<-|Hx]; [lia|]. destruct (I2 x Hx). lia.
Qed.

(* ---------- the truncateTail scan loop terminates without an I/O error ---------- *)
Lemma tail_scan_total h rest newtail : forall j fuel,
  forallb entry_wf (h :: rest) = true -> efile h <> newtail ->
  eoff h + N.of_nat j < two32 -> (j < fuel)%nat -> (j <= length rest)%nat ->
  exists r, tail_scan fuel (concat (map enc_entry (h :: rest))) (eoff h) newtail (scan_cur (eoff h) j) (eoff h + N.of_nat j) = Ok r.
Proof.
  set (d := eoff h).
  induction j as [|j IH]; intros fuel Hwf Hne Hsmall Hfuel Hlen.
  - destruct fuel as [|k]; [lia|]. cbn [tail_scan].
    destruct (N.ltb_spec (scan_cur d 0) d) as [L|L]; [eauto|].
    assert (d = 0) by (unfold scan_cur, two64, two32 in *; lia).
    replace ((((scan_cur d 0 + two64 - d + 1) mod two64) * 6) mod two64) with (6 * N.of_nat 0)
      by (unfold scan_cur, two64 in *; rewrite H; reflexivity).
    rewrite read6_enc by exact Hwf. cbn [nth_error].
    destruct (N.eqb_spec (efile h) newtail); [contradiction|]. cbn [negb]. eauto.
  - destruct fuel as [|k]; [lia|]. cbn [tail_scan].
    assert (Hc : scan_cur d (S j) = d + N.of_nat j) by (unfold scan_cur, two64, two32 in *; lia).
    rewrite Hc.
    destruct (N.ltb_spec (d + N.of_nat j) d) as [L|L]; [lia|].
    replace ((((d + N.of_nat j + two64 - d + 1) mod two64) * 6) mod two64) with (6 * N.of_nat (S j))
      by (unfold two64, two32 in *; lia).
    rewrite read6_enc by exact Hwf. cbn [nth_error].
    destruct (nth_error rest j) as [pre|] eqn:EP.
    + destruct (N.eqb_spec (efile pre) newtail) as [Q|Q]; cbn [negb]; [|eauto].
      replace ((d + N.of_nat j + two64 - 1) mod two64) with (scan_cur d j) by (unfold scan_cur; f_equal; lia).
      replace (d + N.of_nat j) with (eoff h + N.of_nat j) by reflexivity.
      apply IH; try assumption; lia.
    + apply nth_error_None in EP. lia.
Qed.

(* ---------- truncateTail ---------- *)
Lemma truncate_tail_ok maxsz t n :
  IdxInv maxsz t -> FW t -> n < two32 ->
  exists t', truncate_tail t n = Ok t' /\ FW t'.
Proof.
  intros HI HF Hn. unfold truncate_tail. cbv zeta.
  destruct (N.leb_spec n (t_hidden t)) as [L1|L1]; [exists t; split; [reflexivity|exact HF]|].
  destruct (N.ltb_spec (t_items t) n) as [L2|L2]; [apply reset_to_ok; exact HF|].
  pose proof HI as HI0. unfold IdxInv, core, IdxInvC in HI0. inv_destruct HI0.
  pose proof (idx_size _ _ _ _ Hb) as Hsz.
  set (j := N.to_nat (n - t_offset t)).
  assert (Hj : n = t_offset t + N.of_nat j) by (subst j; lia).
  assert (Hjr : (j <= length rest)%nat) by lia.
  assert (Hwfh : forallb entry_wf (mkE (t_tail t) (t_offset t) :: rest) = true).
  { cbn [forallb]. unfold entry_wf at 1. cbn [efile eoff].
    replace (t_tail t <? 65536) with true by (symmetry; apply N.ltb_lt; exact Ht).
    replace (t_offset t <? two32) with true by (symmetry; apply N.ltb_lt; exact Ho). exact Hwf. }
  destruct (index_files_monotone _ _ Hv) as [M1 M2]. cbn [efile] in M1, M2. rewrite <- Hh in M1, M2.
  (* the file of the new tail *)
  assert (EN : exists newtail,
      (if t_items t =? n then Ok (t_head t)
       else match read6 (fbytes (t_index t)) ((n - t_offset t + 1) * 6) with Some e => Ok (efile e) | None => Err E_IO end) = Ok newtail
      /\ t_tail t <= newtail /\ newtail <= t_head t).
  { destruct (N.eqb_spec (t_items t) n) as [Z|Z]; [exists (t_head t); repeat split; lia|].
    rewrite Hb. replace ((n - t_offset t + 1) * 6) with (6 * N.of_nat (S j)) by lia.
    rewrite read6_enc by exact Hwfh. cbn [nth_error].
    destruct (nth_error rest j) as [e|] eqn:EE.
    - exists (efile e). apply nth_error_In in EE. destruct (M2 e EE). repeat split; lia.
    - apply nth_error_None in EE. lia. }
  destruct EN as (newtail & EN & NT1 & NT2). rewrite EN.
  set (T2 := set_vtail (w_counters t (t_items t) (t_offset t) n (t_head t) (t_tail t) (t_headbytes t)) n false).
  change (t_tail T2) with (t_tail t).
  assert (F2 : FW T2).
  { destruct HF as [HO HH]. split; [eapply od_ext; [| |exact HO]; reflexivity|].
    change (t_head T2) with (t_head t). eapply has_ext; [|exact HH]. reflexivity. }
  destruct (N.eqb_spec (t_tail t) newtail) as [Q|Q]; [exists T2; split; [reflexivity|exact F2]|].
  destruct (N.ltb_spec newtail (t_tail t)) as [Q2|Q2]; [lia|].
  destruct (do_sync_ok T2 F2) as (t3 & ES & [O3 H3] & Hh3 & K3). rewrite ES.
  pose proof (do_sync_core _ _ ES) as C3.
  change (core t3 = (t_items t, t_offset t, n, t_head t, t_tail t, t_headbytes t, f_sync (t_index t),
                     mkMeta 2 n (fsize (t_index t)), mkMeta 2 n (fsize (t_index t)))) in C3.
  unfold core in C3. inversion C3 as [[P1 P2 P3 P4 P5 P6 P7 P8 P9]].
  (* the scan *)
  assert (ETeq : tail_scan (S (S (flen (t_index t3)))) (fbytes (t_index t3)) (t_offset t3) newtail (n - 1) n
               = tail_scan (S (S (flen (f_sync (t_index t))))) (concat (map enc_entry (mkE (t_tail t) (t_offset t) :: rest)))
                           (t_offset t) newtail (scan_cur (t_offset t) j) (t_offset t + N.of_nat j)).
  { rewrite P7, P2. cbn [f_sync fbytes]. rewrite Hb. f_equal; [unfold scan_cur, two64, two32 in *; lia | exact Hj]. }
  assert (ET : exists newdel,
      tail_scan (S (S (flen (t_index t3)))) (fbytes (t_index t3)) (t_offset t3) newtail (n - 1) n = Ok newdel
      /\ t_offset t <= newdel <= n).
  { rewrite ETeq.
    assert (Hfuel : (j < S (S (flen (f_sync (t_index t)))))%nat).
    { unfold flen. cbn [f_sync fbytes]. rewrite Hb, concat_enc_length. cbn [length]. lia. }
    destruct (tail_scan_total (mkE (t_tail t) (t_offset t)) rest newtail j _ Hwfh Q ltac:(cbn [eoff]; lia) Hfuel Hjr) as [r Hr].
    cbn [eoff] in Hr. exists r. split; [exact Hr|].
    apply (tail_scan_spec (mkE (t_tail t) (t_offset t)) rest newtail j) in Hr; try assumption; [|cbn [eoff]; lia].
    cbn [eoff] in Hr. destruct Hr as [[D1 D2] _]. lia. }
  destruct ET as (newdel & ET & D1 & D2). rewrite ?P3. rewrite ET.
  match goal with |- context [release_before ?X _ _] => set (T5 := X) end.
  destruct (od_release_where T5 (fun k => k <? newtail) true) as (O6 & K6).
  { eapply od_ext; [| |exact O3]; reflexivity. }
  assert (C6 : core (release_before T5 newtail true) = core T5) by apply core_release_where.
  apply core_proj in C6. destruct C6 as (_ & _ & _ & R4 & _ & _ & _ & R8 & _).
  rewrite R8. change (t_mcur T5) with (t_mcur t3). rewrite P8. cbn [mflush].
  destruct (N.leb_spec (fsize (t_index t)) (6 * (newdel - t_offset t3))) as [B|B].
  { exfalso. unfold fsize in B. rewrite Hsz, P2 in B. lia. }
  eexists. split; [reflexivity|]. split.
  - eapply od_ext; [| |exact O6]; reflexivity.
  - match goal with |- has ?X (t_head ?X) => change (t_head X) with (t_head t3) end. rewrite P4.
    eapply has_ext; [|apply K6]; [reflexivity| |].
    + eapply has_ext; [|rewrite <- P4; exact H3]. reflexivity.
    + apply N.ltb_ge. exact NT2.
Qed.

(* ---------- Freezer.repair succeeds ---------- *)
Lemma map_res_ok {A B} (f : A -> res B) l :
  (forall x, In x l -> exists y, f x = Ok y) -> exists l', map_res f l = Ok l'.
Proof.
  induction l as [|x l IH]; intros H; [exists []; reflexivity|].
  destruct (H x (or_introl eq_refl)) as [y Hy]. destruct IH as [l' Hl']; [intros z Hz; apply H; right; exact Hz|].
  exists (y :: l'). cbn [map_res]. rewrite Hy, Hl'. reflexivity.
Qed.

Lemma inv_counters maxsz t : IdxInv maxsz t -> t_items t < two32 /\ t_hidden t <= t_items t.
Proof. unfold IdxInv, core, IdxInvC. intros H. inv_destruct H. split; assumption. Qed.

Lemma min_head_small maxsz ts : Forall (IdxInv maxsz) ts -> min_head ts < two32.
Proof.
  intros H. rewrite Forall_forall in H. unfold min_head.
  destruct (filter (fun t => negb (t_items t =? 0)) ts) as [|a r] eqn:E; [unfold two32; lia|].
  assert (Ha : In a ts).
  { assert (In a (filter (fun t => negb (t_items t =? 0)) ts)) by (rewrite E; left; reflexivity).
    apply filter_In in H0. exact (proj1 H0). }
  destruct (fold_min_spec t_items r (t_items a)) as (I1 & _ & _).
  destruct (inv_counters _ _ (H a Ha)). lia.
Qed.

(* a table as the table-level repair leaves it: index invariant, handles and head file in place,
   room for two more data files *)
Definition TW (maxsz : N) (t : table) : Prop := IdxInv maxsz t /\ FW t /\ t_head t + 2 < 65536.

(* FREEZER.REPAIR DOES NOT FAIL on well-formed tables, provided no table's tail lies above the common
   head unless that table is empty at its tail (the condition Freezer.TruncateTail's sync-first order
   maintains: every table's recovered head >= every persisted tail) *)
Theorem fz_repair_ok maxsz ts :
  Forall (TW maxsz) ts ->
  (forall t, In t ts -> t_items t <> 0 -> t_hidden t <= min_head ts \/ t_items t = t_hidden t) ->
  exists f, fz_repair ts = Ok f.
Proof.
  intros HW HG. rewrite Forall_forall in HW.
  assert (Hsmall : min_head ts < two32).
  { apply (min_head_small maxsz). rewrite Forall_forall. intros t Ht. exact (proj1 (HW t Ht)). }
  unfold fz_repair. set (head := min_head ts) in *.
  (* pass 1 *)
  set (g1 := fun t => if (0 <? head) && (t_items t =? 0) then truncate_tail t head else Ok t).
  assert (P1 : exists ts1, map_res g1 ts = Ok ts1).
  { apply map_res_ok. intros t Ht. destruct (HW t Ht) as (HI & HF & Hh). subst g1. cbv beta.
    destruct ((0 <? head) && (t_items t =? 0)); [|eauto].
    destruct (truncate_tail_ok maxsz t head HI HF Hsmall) as (t1 & E & _). eauto. }
  destruct P1 as [ts1 E1].
  assert (E1' : (if 0 <? head then map_res (fun t => if t_items t =? 0 then truncate_tail t head else Ok t) ts else Ok ts) = Ok ts1).
  { subst g1. destruct (0 <? head) eqn:Hp; cbn [andb] in E1; [exact E1|].
    assert (ts1 = ts); [|subst; reflexivity].
    clear -E1. revert ts1 E1. induction ts as [|t ts IH]; intros ts1 E1; cbn [map_res] in E1; [inversion E1; reflexivity|].
    destruct (map_res _ ts) as [r|] eqn:Er; [|discriminate]. inversion E1; subst. f_equal. apply IH. reflexivity. }
  rewrite E1'.
  assert (A1 : Forall (fun t1 => IdxInv maxsz t1 /\ FW t1 /\ t_head t1 + 1 < 65536 /\ head <= t_items t1 /\
                                 (head < t_items t1 -> head < t_hidden t1 -> t_items t1 = t_hidden t1)) ts1).
  { apply map_res_forall2 in E1. eapply Forall2_right; [exact E1|]. intros t t1 Hin R. subst g1. cbv beta in R.
    destruct (HW t Hin) as (HI & HF & Hh). destruct (inv_counters _ _ HI) as [C1 C2]. pose proof HF as [HFa HFb].
    destruct (N.eqb_spec (t_items t) 0) as [Z|Z].
    - destruct (N.ltb_spec 0 head) as [P|P]; cbn [andb] in R.
      + assert (HI1 : IdxInv maxsz t1) by (apply (inv_truncate_tail maxsz t head t1 HI Hsmall); [lia|exact R]).
        destruct (truncate_tail_ok maxsz t head HI HF Hsmall) as (t1' & E & F1). rewrite R in E. inversion E; subst t1'. destruct F1 as [F1a F1b].
        pose proof R as R'. apply truncate_tail_spec in R'.
        assert (Hrst : reset_to t head = Ok t1).
        { unfold truncate_tail in R. cbv zeta in R.
          destruct (N.leb_spec head (t_hidden t)); [lia|]. destruct (N.ltb_spec (t_items t) head); [exact R|lia]. }
        pose proof (reset_to_core _ _ _ Hrst) as C. cbv zeta in C. unfold core in C. inversion C as [[Q1 Q2 Q3 Q4 Q5 Q6 Q7 Q8 Q9]].
        assert ((t_head t + 1) mod two32 = t_head t + 1) by (apply N.mod_small; unfold two32; lia).
        repeat split; try assumption; try lia.
      + inversion R; subst t1. repeat split; try assumption; try lia.
    - rewrite andb_false_r in R. inversion R; subst t1.
      repeat split; try assumption; try lia.
      + apply min_head_le; assumption.
      + intros _ L. destruct (HG t Hin Z) as [G|G]; [fold head in G; lia|exact G]. }
  (* pass 2 *)
  assert (P2 : exists ts2, map_res (fun t => truncate_head t head) ts1 = Ok ts2).
  { apply map_res_ok. intros t1 Ht1. rewrite Forall_forall in A1. destruct (A1 t1 Ht1) as (HI & HF & Hh & Hle & Hg).
    destruct (truncate_head_ok maxsz t1 head HI HF Hg) as (t2 & E & _). eauto. }
  destruct P2 as [ts2 E2]. rewrite E2. cbv zeta.
  assert (A2 : Forall (fun t2 => IdxInv maxsz t2 /\ FW t2 /\ t_items t2 = head /\ t_hidden t2 <= head) ts2).
  { rewrite Forall_forall in A1. apply map_res_forall2 in E2. eapply Forall2_right; [exact E2|].
    intros t1 t2 Hin R. cbv beta in R. destruct (A1 t1 Hin) as (HI & HF & Hh & Hle & Hg).
    destruct (inv_counters _ _ HI) as [C1 C2].
    destruct (truncate_head_ok maxsz t1 head HI HF Hg) as (t2' & E & F2). rewrite R in E. inversion E; subst t2'. destruct F2 as [F2a F2b]. pose proof HF as [HFa HFb].
    assert (HI2 : IdxInv maxsz t2) by (apply (inv_truncate_head maxsz t1 head t2 HI Hsmall); [lia|exact R]).
    apply truncate_head_spec in R.
    destruct R as [[R1 ->]|[(R1 & R2 & R3 & R4 & R5)|(R1 & R2 & R3 & R4)]]; repeat split; try assumption; lia. }
  (* pass 3 *)
  assert (HT : max_tail ts2 < two32).
  { unfold max_tail. destruct (fold_max_spec t_hidden ts2 0) as (_ & _ & I3).
    assert (fold_left (fun m t => N.max m (t_hidden t)) ts2 0 <= head); [|lia].
    apply I3; [lia|]. rewrite Forall_forall in A2. intros t2 H2. destruct (A2 t2 H2) as (_ & _ & _ & B). exact B. }
  assert (P3 : exists ts3, map_res (fun t => truncate_tail t (max_tail ts2)) ts2 = Ok ts3).
  { apply map_res_ok. intros t2 Ht2. rewrite Forall_forall in A2. destruct (A2 t2 Ht2) as (HI & HF & _).
    destruct (truncate_tail_ok maxsz t2 (max_tail ts2) HI HF HT) as (t3 & E & _). eauto. }
  destruct P3 as [ts3 E3]. rewrite E3. eauto.
Qed.
