(* Storage/KV.v — the SPECIFICATION of an ethdb key-value store (C23), reusable by
   other families.  Executable; no proofs here (see Storage/KVProofs.v).

   A store is a finite map from byte-string keys to byte-string values, kept as an
   association list sorted strictly ascending in byte-lexicographic key order (this
   is also how a Go `map[string][]byte` is represented: map order is unobservable
   except through `sort.Strings`).  Bytes are `N` (< 256 where it matters).

   Reference points in /repo (what the spec is read off):
     ethdb/database.go  KeyValueReader/Writer/RangeDeleter/Iteratee contracts
     ethdb/memorydb/memorydb.go  Has/Get/Put/Delete/DeleteRange/NewIterator/batch *)
From Coq Require Import List NArith Bool.
Import ListNotations.
Local Open Scope N_scope.

Definition key := list N.
Definition value := list N.

(* ---- byte-lexicographic order on list N (Go: string comparison `<`, bytes.Compare) ---- *)
Fixpoint blt (a b : list N) : bool :=
  match a, b with
  | _, [] => false
  | [], _ :: _ => true
  | x :: a', y :: b' => if x <? y then true else if x =? y then blt a' b' else false
  end.

Definition ble (a b : list N) : bool := negb (blt b a).

Fixpoint beq (a b : list N) : bool :=
  match a, b with
  | [], [] => true
  | x :: a', y :: b' => (x =? y) && beq a' b'
  | _, _ => false
  end.

(* strings.HasPrefix(k, p) / bytes.HasPrefix *)
Fixpoint is_prefix (p k : list N) : bool :=
  match p, k with
  | [], _ => true
  | x :: p', y :: k' => (x =? y) && is_prefix p' k'
  | _ :: _, [] => false
  end.

(* k[len(p):] *)
Definition strip (p k : list N) : list N := skipn (length p) k.

(* ---- the store ---- *)
Definition kv := list (key * value).

(* db.db[string(key)] *)
Fixpoint get (k : key) (m : kv) : option value :=
  match m with
  | [] => None
  | (k', v) :: r => if beq k k' then Some v else get k r
  end.

Definition has (k : key) (m : kv) : bool :=
  match get k m with Some _ => true | None => false end.

(* db.db[string(key)] = value : sorted insertion / replacement *)
Fixpoint put (k : key) (v : value) (m : kv) : kv :=
  match m with
  | [] => [(k, v)]
  | (k', v') :: r =>
      if blt k k' then (k, v) :: m
      else if beq k k' then (k, v) :: r
      else (k', v') :: put k v r
  end.

Definition kfilter (f : key -> bool) (m : kv) : kv := filter (fun kx => f (fst kx)) m.

(* delete(db.db, string(key)) *)
Definition delete (k : key) (m : kv) : kv := kfilter (fun k' => negb (beq k' k)) m.

(* memorydb.DeleteRange (memorydb.go:129-146): a key is deleted unless
     start != nil && key < start      or      end != nil && key >= end.
   [None] = Go nil.  NOTE the consequences, as the code has them:
     start = nil and start = []byte{} are equivalent;
     end = nil is "after all keys"; end = []byte{} (non-nil, empty) deletes NOTHING. *)
Definition in_range (s e : option key) (k : key) : bool :=
  (match s with None => true | Some s' => ble s' k end) &&
  (match e with None => true | Some e' => blt k e' end).

Definition delete_range (s e : option key) (m : kv) : kv :=
  kfilter (fun k => negb (in_range s e k)) m.

(* memorydb.NewIterator (memorydb.go:166-196): keys with strings.HasPrefix(key, prefix)
   and key >= prefix+start, sorted ascending — a snapshot (deep copy) of the store at
   creation time.  On the sorted representation the `sort.Strings` is the identity. *)
Definition iter_items (prefix start : key) (m : kv) : kv :=
  kfilter (fun k => is_prefix prefix k && ble (prefix ++ start) k) m.

(* ---- batches: op lists ---- *)
Inductive bop :=
| BPut (k : key) (v : value)
| BDel (k : key)
| BDelRange (s e : option key).

Definition apply (o : bop) (m : kv) : kv :=
  match o with
  | BPut k v => put k v m
  | BDel k => delete k m
  | BDelRange s e => delete_range s e m
  end.

(* batch.Write: apply every queued op in order, atomically *)
Definition write (ops : list bop) (m : kv) : kv := fold_left (fun m' o => apply o m') ops m.

(* batch.Reset *)
Definition reset (ops : list bop) : list bop := [].

(* batch.Replay(w) onto a writer given by its per-op action (for a store: [apply]) *)
Definition replay {S : Type} (act : bop -> S -> S) (ops : list bop) (s : S) : S :=
  fold_left (fun s' o => act o s') ops s.

(* ---- well-formedness: strictly ascending keys ---- *)
Fixpoint sorted (m : kv) : Prop :=
  match m with
  | [] => True
  | kx :: r => Forall (fun kx' => blt (fst kx) (fst kx') = true) r /\ sorted r
  end.
