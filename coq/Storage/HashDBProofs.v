(* Storage/HashDBProofs.v — invariants of the hash-scheme node database model
   (Storage/HashDB.v): flush list well-formedness, reference-count exactness,
   readability of live nodes, size accounting, commit persistence. *)
From GV Require Import Lib.Tactics Storage.HashDB.
From Coq Require Import FMapPositive Sorted.
Open Scope N_scope.

(* ------------------------------------------------------------------ maps *)
Lemma key_inj a b : key a = key b -> a = b.
Proof. unfold key. intros H. apply (f_equal Pos.pred_N) in H. rewrite !N.pos_pred_succ in H. exact H. Qed.

Lemma key_pred k : key (Pos.pred_N k) = k.
Proof. unfold key. destruct k; cbn; auto. apply Pos.succ_pred_double. Qed.

Lemma mget_mset_eq {A} h (a : A) m : mget h (mset h a m) = Some a.
Proof. apply PositiveMap.gss. Qed.
Lemma mget_mset_neq {A} h h' (a : A) m : h <> h' -> mget h (mset h' a m) = mget h m.
Proof. intros H. apply PositiveMap.gso. intros E. apply H, key_inj, E. Qed.
Lemma mget_mdel_eq {A} h (m : nmap A) : mget h (mdel h m) = None.
Proof. apply PositiveMap.grs. Qed.
Lemma mget_mdel_neq {A} h h' (m : nmap A) : h <> h' -> mget h (mdel h' m) = mget h m.
Proof. intros H. apply PositiveMap.gro. intros E. apply H, key_inj, E. Qed.
Lemma mget_empty {A} h : mget h (mempty : nmap A) = None.
Proof. apply PositiveMap.gempty. Qed.

Lemma mset_cases {A} h h' (a : A) m :
  mget h (mset h' a m) = if h =? h' then Some a else mget h m.
Proof.
  destruct (N.eqb_spec h h') as [->|Hn]; [apply mget_mset_eq | apply mget_mset_neq, Hn].
Qed.
Lemma mdel_cases {A} h h' (m : nmap A) :
  mget h (mdel h' m) = if h =? h' then None else mget h m.
Proof.
  destruct (N.eqb_spec h h') as [->|Hn]; [apply mget_mdel_eq | apply mget_mdel_neq, Hn].
Qed.

Lemma mcard_ge {A} (m : nmap A) (l : list N) :
  NoDup l -> (forall h, In h l -> mget h m <> None) -> (length l <= mcard m)%nat.
Proof.
  intros Hnd Hin. unfold mcard. rewrite PositiveMap.cardinal_1.
  rewrite <- (map_length fst (PositiveMap.elements m)), <- (map_length key l).
  apply NoDup_incl_length.
  - clear Hin. induction Hnd as [|x l Hx _ IH]; cbn; constructor; auto.
    intros Hc. apply in_map_iff in Hc as (y & Hy & Hyl). apply key_inj in Hy. subst. auto.
  - intros k Hk. apply in_map_iff in Hk as (h & <- & Hh).
    specialize (Hin h Hh). unfold mget in Hin.
    destruct (PositiveMap.find (key h) m) as [v|] eqn:E; [|congruence].
    apply PositiveMap.elements_correct in E. apply in_map_iff. exists (key h, v). auto.
Qed.

(* ------------------------------------------------------------------ state projections *)
Lemma getd_setd st h e h' : getd (setd st h e) h' = if h' =? h then Some e else getd st h'.
Proof. unfold getd, setd; cbn. apply mset_cases. Qed.
Lemma getd_deld st h h' : getd (deld st h) h' = if h' =? h then None else getd st h'.
Proof. unfold getd, deld; cbn. apply mdel_cases. Qed.

Lemma upd_ok st h f e : getd st h = Some e -> upd st h f = Ok (setd st h (f e)).
Proof. unfold upd. intros ->. reflexivity. Qed.

Ltac simp_st :=
  repeat (cbn [dirties oldest newest dsize csize disk with_dirties with_oldest with_newest with_sizes
               with_disk setd deld getd drop_node
               e_parents e_ext e_prev e_next set_parents set_ext set_prev set_next] in * ).

(* count of occurrences *)
Fixpoint cnt (x : N) (l : list N) : nat :=
  match l with [] => 0%nat | y :: r => ((if N.eqb x y then 1 else 0) + cnt x r)%nat end.
Lemma cnt_app x l1 l2 : cnt x (l1 ++ l2) = (cnt x l1 + cnt x l2)%nat.
Proof. induction l1; cbn; lia. Qed.
Lemma cnt_0 x l : ~ In x l -> cnt x l = 0%nat.
Proof. induction l as [|y r IH]; cbn; intros H; auto. destruct (N.eqb_spec x y); [subst; tauto|]. apply IH; tauto. Qed.
Lemma cnt_pos x l : (0 < cnt x l)%nat -> In x l.
Proof. induction l as [|y r IH]; cbn; [lia|]. destruct (N.eqb_spec x y); [auto|]. intros; right; apply IH; lia. Qed.
Lemma cnt_in x l : In x l -> (0 < cnt x l)%nat.
Proof. induction l as [|y r IH]; cbn; [tauto|]. intros [->|H]; [rewrite N.eqb_refl; lia|]. specialize (IH H). lia. Qed.

(* ------------------------------------------------------------------ the flush list *)
Definition rm (h : N) (l : list N) : list N := filter (fun x => negb (x =? h)) l.

Lemma rm_in h x l : In x (rm h l) <-> In x l /\ x <> h.
Proof. unfold rm. rewrite filter_In. destruct (N.eqb_spec x h); cbn; intuition congruence. Qed.
Lemma rm_notin h l : ~ In h l -> rm h l = l.
Proof.
  induction l as [|y r IH]; cbn; intros H; auto.
  destruct (N.eqb_spec y h); [subst; tauto|]. cbn. f_equal. apply IH. tauto.
Qed.
Lemma rm_split h l1 l2 : NoDup (l1 ++ h :: l2) -> rm h (l1 ++ h :: l2) = l1 ++ l2.
Proof.
  intros Hnd. apply NoDup_remove_2 in Hnd. unfold rm. rewrite filter_app. cbn. rewrite N.eqb_refl. cbn.
  fold (rm h l1) (rm h l2). rewrite !rm_notin; auto; intros H; apply Hnd, in_or_app; auto.
Qed.
Lemma rm_nodup h l : NoDup l -> NoDup (rm h l).
Proof. apply NoDup_filter. Qed.
Lemma rm_length_le h l : (length (rm h l) <= length l)%nat.
Proof. unfold rm. induction l as [|y r IH]; cbn; auto. destruct (negb (y =? h)); cbn; lia. Qed.
Lemma rm_length h l : In h l -> (length (rm h l) < length l)%nat.
Proof.
  induction l as [|y r IH]; cbn; [tauto|]. intros [->|H].
  - rewrite N.eqb_refl. cbn. pose proof (rm_length_le h r). unfold rm in *. lia.
  - destruct (N.eqb_spec y h); cbn.
    + pose proof (rm_length_le h r). unfold rm in *. lia.
    + specialize (IH H). unfold rm in *. lia.
Qed.

(* [chain st p l]: the nodes of l are cached and linked by flushNext / flushPrev; p is the
   predecessor of the first one (0 = none: the flushPrev of the list head is not constrained,
   the Go code leaves a stale value there) *)
Fixpoint chain (st : db) (p : N) (l : list N) : Prop :=
  match l with
  | [] => True
  | h :: t => exists e, getd st h = Some e /\ (p <> 0 -> e_prev e = p) /\ e_next e = hd 0 t /\ chain st h t
  end.

Record linked (fl : list N) (st : db) : Prop := mkLinked {
  lk_nodup : NoDup fl;
  lk_nz : ~ In 0 fl;
  lk_old : oldest st = hd 0 fl;
  lk_new : fl <> [] -> newest st = last fl 0;
  lk_chain : chain st 0 fl
}.

Definition pn (st : db) (h : N) : option (N * N) :=
  match getd st h with Some e => Some (e_prev e, e_next e) | None => None end.

Lemma chain_ext st st' p l :
  (forall h, In h l -> pn st' h = pn st h) -> chain st p l -> chain st' p l.
Proof.
  revert p. induction l as [|h t IH]; cbn; auto.
  intros p Hag (e & He & Hp & Hn & Hc).
  assert (Hh := Hag h (or_introl eq_refl)). unfold pn in Hh. rewrite He in Hh.
  destruct (getd st' h) as [e'|] eqn:He'; [|discriminate]. injection Hh as H1 H2.
  exists e'. split; [reflexivity|]. split; [intros Hq; rewrite H1; auto|]. split; [congruence|].
  apply IH; auto.
Qed.

Lemma chain_in st p l h : chain st p l -> In h l -> getd st h <> None.
Proof.
  revert p. induction l as [|x t IH]; cbn; [tauto|].
  intros p (e & He & _ & _ & Hc) [->|Hin]; [congruence|eauto].
Qed.

Lemma chain_weaken st p l : chain st p l -> chain st 0 l.
Proof. destruct l; cbn; auto. intros (e & ? & ? & ? & ?). exists e. split; auto. split; [tauto|]. split; auto. Qed.

Lemma last_cons (x : N) l p : last (x :: l) p = last l x.
Proof. revert x p. induction l as [|y l IH]; intros x p; [reflexivity|]. change (last (y :: l) p = last (y :: l) x). rewrite !IH. reflexivity. Qed.

(* entry of an element in the middle of a chain *)
Lemma chain_mid st p l1 h l2 :
  chain st p (l1 ++ h :: l2) ->
  exists e, getd st h = Some e /\ e_next e = hd 0 l2 /\ (last l1 p <> 0 -> e_prev e = last l1 p).
Proof.
  revert p. induction l1 as [|x l1 IH]; intros p.
  - cbn. intros (e & He & Hp & Hn & _). exists e. auto.
  - rewrite last_cons. cbn. intros (e & _ & _ & _ & Hc). exact (IH _ Hc).
Qed.

(* removing the head *)
Lemma chain_tail st h t : chain st 0 (h :: t) -> chain st 0 t.
Proof. cbn. intros (e & _ & _ & _ & Hc). eapply chain_weaken, Hc. Qed.

(* removing the element after [a]: a.next := hd l2, (hd l2).prev := a *)
Lemma chain_cut st st' p l1 a h l2 :
  NoDup (l1 ++ a :: h :: l2) -> a <> 0 ->
  chain st p (l1 ++ a :: h :: l2) ->
  (forall x, In x l1 -> pn st' x = pn st x) ->
  (exists ea, getd st a = Some ea /\ exists ea', getd st' a = Some ea' /\ e_prev ea' = e_prev ea /\ e_next ea' = hd 0 l2) ->
  (match l2 with
   | [] => True
   | n :: t => (exists en, getd st n = Some en /\ exists en', getd st' n = Some en' /\ e_prev en' = a /\ e_next en' = e_next en)
               /\ forall x, In x t -> pn st' x = pn st x
   end) ->
  chain st' p (l1 ++ a :: l2).
Proof.
  revert p. induction l1 as [|x l1 IH]; intros p Hnd Ha Hc Hl1 Hea Hl2.
  - cbn in *. destruct Hc as (e & He & Hp & Hn & (eh & Heh & _ & Hnh & Hc2)).
    destruct Hea as (ea & Hga & ea' & Hga' & Hp' & Hn').
    assert (ea = e) by congruence. subst ea.
    exists ea'. split; auto. split; [intros Hq; rewrite Hp'; auto|]. split; [auto|].
    destruct l2 as [|n t]; cbn; auto.
    destruct Hl2 as ((en & Hgn & en' & Hgn' & Hpn & Hnn) & Ht).
    cbn in Hc2. destruct Hc2 as (en2 & Hgn2 & _ & Hnn2 & Hc3).
    assert (en2 = en) by congruence. subst en2.
    exists en'. split; auto. split; [auto|]. split; [congruence|].
    eapply chain_ext; [|exact Hc3]. auto.
  - cbn in Hc. destruct Hc as (e & He & Hp & Hn & Hc).
    cbn. assert (Hx := Hl1 x (or_introl eq_refl)). unfold pn in Hx. rewrite He in Hx.
    destruct (getd st' x) as [e'|] eqn:He'; [|discriminate]. injection Hx as H1 H2.
    exists e'. split; auto. split; [intros Hq; rewrite H1; auto|]. split.
    + rewrite H2, Hn. destruct l1; reflexivity.
    + apply IH; auto. inversion Hnd; auto. intros y Hy. apply Hl1. right; auto.
Qed.

(* removing the last element: predecessor's next := 0 *)
Lemma chain_cut_last st st' p l1 a h :
  NoDup (l1 ++ [a; h]) ->
  chain st p (l1 ++ [a; h]) ->
  (forall x, In x l1 -> pn st' x = pn st x) ->
  (exists ea, getd st a = Some ea /\ exists ea', getd st' a = Some ea' /\ e_prev ea' = e_prev ea /\ e_next ea' = 0) ->
  chain st' p (l1 ++ [a]).
Proof.
  intros Hnd Hc Hl1 Hea.
  destruct (N.eq_dec a 0) as [->|Ha].
  - (* a = 0 cannot be cached with a successor constraint; still provable directly *)
    revert p Hnd Hc Hl1. induction l1 as [|x l1 IH]; intros p Hnd Hc Hl1.
    + cbn in *. destruct Hc as (e & He & Hp & Hn & _). destruct Hea as (ea & Hga & ea' & Hga' & Hp' & Hn').
      assert (ea = e) by congruence. subst. exists ea'. split; auto. split; [intros Hq; rewrite Hp'; auto|]. split; auto.
    + cbn in Hc. destruct Hc as (e & He & Hp & Hn & Hc). cbn.
      assert (Hx := Hl1 x (or_introl eq_refl)). unfold pn in Hx. rewrite He in Hx.
      destruct (getd st' x) as [e'|] eqn:He'; [|discriminate]. injection Hx as H1 H2.
      exists e'. split; auto. split; [intros Hq; rewrite H1; auto|]. split.
      * rewrite H2, Hn. destruct l1; reflexivity.
      * apply IH; auto. inversion Hnd; auto. intros y Hy. apply Hl1. right; auto.
  - apply (chain_cut st st' p l1 a h []); auto.
Qed.

(* ------------------------------------------------------------------ unlinking *)
Definition lg (e : entry) : N * list N := (e_parents e, e_ext e).
Definition lget (st : db) (h : N) : option (N * list N) :=
  match getd st h with Some e => Some (lg e) | None => None end.

Lemma pn_setd st x e y : pn (setd st x e) y = if y =? x then Some (e_prev e, e_next e) else pn st y.
Proof. unfold pn. rewrite getd_setd. destruct (y =? x); reflexivity. Qed.
Lemma lget_setd st x e y : lget (setd st x e) y = if y =? x then Some (lg e) else lget st y.
Proof. unfold lget. rewrite getd_setd. destruct (y =? x); reflexivity. Qed.

Lemma hd_app_in (l1 l2 : list N) : l1 <> [] -> In (hd 0 (l1 ++ l2)) l1.
Proof. destruct l1; [congruence|]. cbn. auto. Qed.
Lemma last_in (l : list N) d : l <> [] -> In (last l d) l.
Proof.
  induction l as [|x l IH]; [congruence|]. intros _. destruct l as [|y l]; [cbn; auto|].
  right. apply IH. congruence.
Qed.
Lemma last_app_cons (l1 : list N) x l2 d : last (l1 ++ x :: l2) d = last (x :: l2) d.
Proof.
  induction l1 as [|y l1 IH]; [reflexivity|].
  change ((y :: l1) ++ x :: l2) with (y :: (l1 ++ x :: l2)).
  destruct (l1 ++ x :: l2) eqn:E; [destruct l1; discriminate|]. rewrite <- E in *. cbn. rewrite E. rewrite <- E. exact IH.
Qed.

(* what unlink leaves unchanged *)
Definition same_logic (st st' : db) : Prop :=
  (forall x, lget st' x = lget st x) /\ disk st' = disk st /\ dsize st' = dsize st /\ csize st' = csize st.

Lemma same_logic_refl st : same_logic st st.
Proof. repeat split. Qed.
Lemma same_logic_trans a b c : same_logic a b -> same_logic b c -> same_logic a c.
Proof.
  intros (A1 & A2 & A3 & A4) (B1 & B2 & B3 & B4).
  split; [intros x; rewrite B1; apply A1|]. split; [congruence|]. split; congruence.
Qed.

Lemma same_logic_setd_ptr st x e e' :
  getd st x = Some e -> lg e' = lg e -> same_logic st (setd st x e').
Proof.
  intros He Hl. repeat split. intros y. rewrite lget_setd. destruct (N.eqb_spec y x) as [->|]; auto.
  unfold lget. rewrite He. congruence.
Qed.

Lemma nodup_app_disj (l1 l2 : list N) x : NoDup (l1 ++ l2) -> In x l1 -> In x l2 -> False.
Proof.
  induction l1 as [|y l1 IH]; cbn; [tauto|]. intros Hnd [->|Hin] H2.
  - inversion Hnd as [|? ? Hn _]. apply Hn, in_or_app. auto.
  - inversion Hnd. eauto.
Qed.

Lemma nodup_app_r (l1 l2 : list N) : NoDup (l1 ++ l2) -> NoDup l2.
Proof. induction l1; cbn; auto. intros H. inversion H; auto. Qed.

Lemma unlink_linked fl st h node e :
  linked fl st -> In h fl -> getd st h = Some e -> e_prev node = e_prev e -> e_next node = e_next e ->
  exists st', unlink st h node = Ok st' /\ linked (rm h fl) st' /\ same_logic st st' /\ getd st' h = getd st h.
Proof.
  intros [Hnd Hnz Hold Hnew Hch] Hin He Hpe Hne.
  apply in_split in Hin as (l1 & l2 & ->). rewrite (rm_split _ _ _ Hnd).
  destruct (chain_mid _ _ _ _ _ Hch) as (e0 & He0 & Hn0 & Hp0).
  assert (e0 = e) by congruence. subst e0.
  assert (Hh0 : h <> 0) by (intros ->; apply Hnz, in_or_app; right; left; auto).
  unfold unlink.
  destruct l1 as [|b l1'] using rev_ind.
  - (* head *)
    cbn in Hold. rewrite Hold, N.eqb_refl. rewrite Hne, Hn0.
    destruct l2 as [|n t].
    + cbn. eexists. split; [reflexivity|]. split; [|split; [repeat split|reflexivity]].
      constructor; cbn; auto. constructor. congruence.
    + assert (Hn : n <> 0) by (intros ->; apply Hnz; cbn; auto).
      cbn [hd]. destruct (N.eqb_spec n 0); [congruence|].
      cbn in Hch. destruct Hch as (_ & _ & _ & _ & (en & Hen & _ & Hnn & Hct)).
      rewrite (upd_ok (with_oldest st n) n _ en Hen).
      eexists. split; [reflexivity|].
      assert (Hnh : n <> h) by (intros ->; inversion Hnd; cbn in *; tauto).
      split; [|split].
      * constructor.
        -- inversion Hnd; auto.
        -- cbn in *. tauto.
        -- reflexivity.
        -- intros _. cbn [newest setd with_dirties with_oldest]. rewrite Hnew by discriminate.
           change ([] ++ h :: n :: t) with (h :: n :: t). change ([] ++ n :: t) with (n :: t). rewrite !last_cons. reflexivity.
        -- cbn [chain]. exists (set_prev en 0). split; [|split; [|split]].
           ++ change (getd (setd (with_oldest st n) n (set_prev en 0)) n = Some (set_prev en 0)).
              rewrite getd_setd, N.eqb_refl. reflexivity.
           ++ tauto.
           ++ exact Hnn.
           ++ eapply chain_ext; [|exact Hct]. intros x Hx.
              change (pn (setd (with_oldest st n) n (set_prev en 0)) x = pn st x).
              rewrite pn_setd. destruct (N.eqb_spec x n) as [->|]; [|reflexivity].
              inversion Hnd as [|? ? _ H2]. inversion H2; tauto.
      * change (same_logic st (setd (with_oldest st n) n (set_prev en 0))).
        destruct (same_logic_setd_ptr (with_oldest st n) n en (set_prev en 0) Hen eq_refl) as (A & B & C & D).
        repeat split; auto.
      * change (getd (setd (with_oldest st n) n (set_prev en 0)) h = getd st h).
        rewrite getd_setd. destruct (N.eqb_spec h n); [congruence|reflexivity].
  - (* there is a predecessor b *)
    clear IHl1'. rewrite <- app_assoc in *. cbn [app] in *.
    assert (Hb0 : b <> 0) by (intros ->; apply Hnz, in_or_app; right; left; auto).
    assert (Hlast : last (l1' ++ [b]) 0 = b) by (rewrite last_app_cons; reflexivity).
    assert (Hbh : b <> h).
    { intros ->. apply NoDup_remove_2 in Hnd. apply Hnd, in_or_app. right. left. auto. }
    assert (Hho : (h =? oldest st) = false).
    { apply N.eqb_neq. rewrite Hold. intros Hc.
      assert (Hi : In h (l1' ++ [b])).
      { rewrite Hc. replace (l1' ++ b :: h :: l2) with ((l1' ++ [b]) ++ h :: l2) by (rewrite <- app_assoc; reflexivity).
        apply hd_app_in. destruct l1'; discriminate. }
      replace (l1' ++ b :: h :: l2) with ((l1' ++ [b]) ++ h :: l2) in Hnd by (rewrite <- app_assoc; reflexivity).
      apply NoDup_remove_2 in Hnd. apply Hnd, in_or_app. auto. }
    rewrite Hho.
    rewrite Hlast in Hp0. specialize (Hp0 Hb0).
    destruct (chain_mid _ _ _ _ _ Hch) as (eb & Heb & Hnb & _). cbn [hd] in Hnb.
    destruct l2 as [|n t].
    + (* h is the tail *)
      assert (Hhn : (h =? newest st) = true).
      { apply N.eqb_eq. rewrite Hnew by (destruct l1'; discriminate). rewrite last_app_cons. reflexivity. }
      rewrite Hhn, Hpe, Hp0. destruct (N.eqb_spec b 0); [congruence|].
      rewrite (upd_ok (with_newest st b) b _ eb Heb).
      eexists. split; [reflexivity|]. split; [|split].
      * constructor.
        -- replace (l1' ++ [b; h]) with ((l1' ++ [b]) ++ [h]) in Hnd by (rewrite <- app_assoc; reflexivity).
           apply NoDup_remove_1 in Hnd. rewrite app_nil_r in Hnd. exact Hnd.
        -- intros Hc. apply Hnz. apply in_app_or in Hc as [Hc|Hc]; apply in_or_app; [left; auto|right; cbn in *; tauto].
        -- cbn [oldest setd with_dirties with_newest]. rewrite Hold. destruct l1'; reflexivity.
        -- intros _. cbn [newest setd with_dirties with_newest]. rewrite Hlast. reflexivity.
        -- eapply (chain_cut_last st _ 0 l1' b h); eauto.
           ++ intros x Hx. change (pn (setd (with_newest st b) b (set_next eb 0)) x = pn st x).
              rewrite pn_setd. destruct (N.eqb_spec x b) as [->|]; [|reflexivity].
              exfalso. apply (nodup_app_disj _ _ b Hnd Hx). cbn. auto.
           ++ exists eb. split; auto. exists (set_next eb 0). split; [|split; reflexivity].
              change (getd (setd (with_newest st b) b (set_next eb 0)) b = Some (set_next eb 0)).
              rewrite getd_setd, N.eqb_refl. reflexivity.
      * change (same_logic st (setd (with_newest st b) b (set_next eb 0))).
        destruct (same_logic_setd_ptr (with_newest st b) b eb (set_next eb 0) Heb eq_refl) as (A & B & C & D).
        repeat split; auto.
      * change (getd (setd (with_newest st b) b (set_next eb 0)) h = getd st h).
        rewrite getd_setd. destruct (N.eqb_spec h b); [congruence|reflexivity].
    + (* h in the middle *)
      assert (Hn : n <> 0) by (intros ->; apply Hnz, in_or_app; right; cbn; auto).
      assert (Hnh : n <> h).
      { intros ->. replace (l1' ++ b :: h :: h :: t) with ((l1' ++ [b]) ++ h :: h :: t) in Hnd by (rewrite <- app_assoc; reflexivity).
        apply NoDup_remove_2 in Hnd. apply Hnd, in_or_app. right. left. auto. }
      assert (Hnb' : n <> b).
      { intros ->. apply NoDup_remove_2 in Hnd. apply Hnd, in_or_app. right. cbn. auto. }
      assert (Hhn : (h =? newest st) = false).
      { apply N.eqb_neq. rewrite Hnew by (destruct l1'; discriminate).
        replace (l1' ++ b :: h :: n :: t) with ((l1' ++ [b; h]) ++ n :: t) by (rewrite <- app_assoc; reflexivity).
        rewrite last_app_cons. intros Hc.
        assert (Hi : In h (n :: t)) by (rewrite Hc; apply last_in; discriminate).
        replace (l1' ++ b :: h :: n :: t) with ((l1' ++ [b]) ++ h :: n :: t) in Hnd by (rewrite <- app_assoc; reflexivity).
        apply NoDup_remove_2 in Hnd. apply Hnd, in_or_app. auto. }
      rewrite Hhn, Hpe, Hne, Hp0, Hn0. cbn [hd].
      replace (l1' ++ b :: h :: n :: t) with ((l1' ++ [b; h]) ++ n :: t) in Hch by (rewrite <- app_assoc; reflexivity).
      destruct (chain_mid _ _ _ _ _ Hch) as (en & Hen & Hnn & _).
      replace ((l1' ++ [b; h]) ++ n :: t) with (l1' ++ b :: h :: n :: t) in Hch by (rewrite <- app_assoc; reflexivity).
      rewrite (upd_ok st b _ eb Heb). cbn [bind].
      assert (Hen2 : getd (setd st b (set_next eb n)) n = Some en).
      { rewrite getd_setd. destruct (N.eqb_spec n b); [congruence|auto]. }
      rewrite (upd_ok _ n _ en Hen2).
      set (st' := setd (setd st b (set_next eb n)) n (set_prev en b)).
      exists st'. split; [reflexivity|]. split; [|split].
      * constructor.
        -- replace (l1' ++ b :: h :: n :: t) with ((l1' ++ [b]) ++ h :: n :: t) in Hnd by (rewrite <- app_assoc; reflexivity).
           apply NoDup_remove_1 in Hnd. rewrite <- app_assoc in Hnd. exact Hnd.
        -- intros Hc. apply Hnz. apply in_app_or in Hc as [Hc|Hc]; apply in_or_app; [left; auto|right; cbn in *; tauto].
        -- unfold st'. cbn [oldest setd with_dirties]. rewrite Hold. destruct l1'; reflexivity.
        -- intros _. unfold st'. cbn [newest setd with_dirties]. rewrite Hnew by (destruct l1'; discriminate).
           rewrite !last_app_cons. rewrite !last_cons. reflexivity.
        -- eapply (chain_cut st st' 0 l1' b h (n :: t)); eauto.
           ++ intros x Hx. unfold st'. rewrite !pn_setd.
              destruct (N.eqb_spec x n) as [->|].
              { exfalso. apply (nodup_app_disj _ _ n Hnd Hx). cbn. auto. }
              destruct (N.eqb_spec x b) as [->|]; [|reflexivity].
              exfalso. apply (nodup_app_disj _ _ b Hnd Hx). cbn. auto.
           ++ exists eb. split; auto. exists (set_next eb n). split; [|split; reflexivity].
              unfold st'. rewrite !getd_setd. destruct (N.eqb_spec b n); [congruence|]. rewrite N.eqb_refl. reflexivity.
           ++ split.
              ** exists en. split; auto. exists (set_prev en b). split; [|split; reflexivity].
                 unfold st'. rewrite getd_setd, N.eqb_refl. reflexivity.
              ** intros x Hx. unfold st'. rewrite !pn_setd.
                 assert (Hnd2 : NoDup (b :: h :: n :: t)) by (apply nodup_app_r in Hnd; exact Hnd).
                 destruct (N.eqb_spec x n) as [->|].
                 { exfalso. inversion Hnd2 as [|? ? _ H2]. inversion H2 as [|? ? _ H3]. inversion H3; tauto. }
                 destruct (N.eqb_spec x b) as [->|]; [|reflexivity].
                 exfalso. inversion Hnd2 as [|? ? H1 _]. apply H1. cbn. auto.
      * unfold st'. eapply same_logic_trans.
        -- apply (same_logic_setd_ptr st b eb (set_next eb n)); auto.
        -- apply (same_logic_setd_ptr (setd st b (set_next eb n)) n en (set_prev en b)); [|reflexivity].
           rewrite getd_setd. destruct (N.eqb_spec n b); [congruence|auto].
      * unfold st'. rewrite !getd_setd. destruct (N.eqb_spec h n); [congruence|]. destruct (N.eqb_spec h b); [congruence|reflexivity].
Qed.

Lemma getd_drop_node nsize st h e x :
  getd (drop_node nsize st h e) x = if x =? h then None else getd st x.
Proof. unfold drop_node. exact (getd_deld st h x). Qed.

(* cleaner.Put keeps the flush list well formed *)
Lemma uncache_linked nsize fl st h :
  linked fl st -> (forall x, getd st x <> None <-> In x fl) ->
  exists st', uncache nsize st h = Ok st' /\ linked (rm h fl) st' /\
              (forall x, getd st' x <> None <-> In x (rm h fl)) /\ disk st' = disk st /\
              (forall x, x <> h -> lget st' x = lget st x).
Proof.
  intros Hl Hdom. unfold uncache.
  destruct (getd st h) as [e|] eqn:He.
  - assert (Hin : In h fl) by (apply Hdom; congruence).
    destruct (unlink_linked fl st h e e Hl Hin He eq_refl eq_refl) as (st1 & -> & Hl1 & (Hlg & Hdk & _ & _) & Hh).
    cbn [bind]. eexists. split; [reflexivity|]. split; [|split; [|split]].
    + destruct Hl1 as [A B C D E]. constructor; auto.
      eapply chain_ext; [|exact E]. intros x Hx. unfold pn. rewrite getd_drop_node.
      apply rm_in in Hx as [_ Hx]. destruct (N.eqb_spec x h); [congruence|reflexivity].
    + intros x. rewrite getd_drop_node, rm_in. destruct (N.eqb_spec x h) as [->|Hn].
      * split; [congruence|tauto].
      * rewrite <- Hdom. specialize (Hlg x). unfold lget in Hlg.
        destruct (getd st1 x), (getd st x); try discriminate; intuition congruence.
    + exact Hdk.
    + intros x Hx. unfold lget. rewrite getd_drop_node. destruct (N.eqb_spec x h); [congruence|]. apply Hlg.
  - exists st. split; [reflexivity|]. assert (Hn : ~ In h fl) by (rewrite <- Hdom; congruence).
    rewrite (rm_notin _ _ Hn). split; [exact Hl|]. split; [exact Hdom|]. split; reflexivity.
Qed.

(* ------------------------------------------------------------------ a history that defeats collection *)
(* S = 1 (28 bytes), P = 2 (38 bytes, account leaf with storage root S).  P and S are committed;
   P is resubmitted while S is only on disk (reference skipped); S is resubmitted, now counted
   from the older P; Cap flushes P alone; both references to P are removed. *)
Definition leak_kids (h : N) : list N := [].
Definition leak_size (h : N) : N := if h =? 1 then 28 else 38.
Definition leak_ops : list op :=
  [ OUpdate [1; 2] [(1, 2)]; OReference 2 0; OCommit 2;
    OUpdate [2] [(1, 2)]; OReference 2 0;
    OUpdate [1; 2] [(1, 2)];
    OCap 267%Z; ODereference 2; ODereference 2 ].

Definition leak_check (st : db) : bool :=
  match getd st 1, getd st 2, mget 1 (disk st) with
  | Some e, None, Some _ => (e_parents e =? 1) && (oldest st =? 1) && (e_next e =? 0)
  | _, _, _ => false
  end.

Lemma leak_witness :
  exists st, run leak_kids leak_size 104%Z 102400%Z leak_ops empty_db = Ok st /\ leak_check st = true.
Proof. eexists. split; vm_compute; reflexivity. Qed.

(* a concrete well-formed flush list, for non-vacuity *)
Definition demo_ops : list op :=
  [ OUpdate [1; 2; 3] [(1, 2)]; OReference 3 0 ].
Definition demo_kids (h : N) : list N := if h =? 3 then [2; 2] else [].
Definition demo_state : db :=
  match run demo_kids leak_size 104%Z 102400%Z demo_ops empty_db with Ok st => st | _ => empty_db end.

Lemma demo_linked : linked [1; 2; 3] demo_state.
Proof.
  constructor.
  - repeat constructor; cbn; intuition discriminate.
  - cbn. intuition discriminate.
  - reflexivity.
  - reflexivity.
  - cbn [chain]. eexists. split; [vm_compute; reflexivity|]. split; [tauto|]. split; [reflexivity|].
    eexists. split; [vm_compute; reflexivity|]. split; [reflexivity|]. split; [reflexivity|].
    eexists. split; [vm_compute; reflexivity|]. split; [reflexivity|]. split; [reflexivity|]. exact I.
Qed.
