(* Storage/FreezerContent.v — readable_is_appended: the bytes a table holds for its entries are the
   encodings of the items that were appended, so Retrieve returns what was appended. *)
From GV Require Import Lib.Tactics Storage.FreezerTable Storage.FreezerTableProofs Storage.FreezerTableInv Storage.Freezer Storage.FreezerProofs Storage.FreezerSuccess Storage.FreezerTableData Storage.FreezerCompose Storage.FreezerTableOps Storage.FreezerHist Storage.FreezerCross.
Local Open Scope N_scope.

Ltac inv_destruct H :=
  destruct H as (rest & Hb & Hwf & Ht & Ho & Hv & Hi & Hi32 & Hh & Hhb & Hhm & Hsm & Hm6 & H6 & Hfd & Hfw
                 & Hms & Hv1 & Hv2 & Hoh & Hhi).

Section Content.
Variable encode : list N -> list N.
Variable decode : list N -> option (list N).
Hypothesis decode_encode : forall x, decode (encode x) = Some x.

(* where the data of an entry starts: after the previous entry if that lies in the same file *)
Definition start_of (prev : option entry) (e : entry) : N :=
  match prev with
  | Some p => if efile p =? efile e then eoff p else 0
  | None => 0
  end.

Definition slice (f : file) (st en : N) : list N := firstn (N.to_nat (en - st)) (skipn (N.to_nat st) (fbytes f)).

(* the data files hold, for the entries [es] (preceded by [prev]), the encodings of the items [bl] *)
Fixpoint content (data : list (N * file)) (prev : option entry) (es : list entry) (bl : list (list N)) : Prop :=
  match es, bl with
  | [], [] => True
  | e :: es', b :: bl' =>
      (exists f, dget (efile e) data = Some f /\ start_of prev e <= eoff e /\ eoff e <= fsize f /\
                 slice f (start_of prev e) (eoff e) = encode b)
      /\ content data (Some e) es' bl'
  | _, _ => False
  end.

Lemma content_length data : forall prev es bl, content data prev es bl -> length es = length bl.
Proof.
  intros prev es. revert prev. induction es as [|e es IH]; intros prev [|b bl] H; cbn in H; try tauto.
  cbn [length]. f_equal. eapply IH. exact (proj2 H).
Qed.

(* a slice only depends on the bytes below its end *)
Lemma slice_prefix f f' st en :
  st <= en -> firstn (N.to_nat en) (fbytes f') = firstn (N.to_nat en) (fbytes f) -> slice f' st en = slice f st en.
Proof.
  intros Hle H. unfold slice.
  assert (G : forall l : list N, firstn (N.to_nat (en - st)) (skipn (N.to_nat st) l) = skipn (N.to_nat st) (firstn (N.to_nat en) l)).
  { intros l. rewrite firstn_skipn_comm. f_equal. f_equal. lia. }
  rewrite !G, H. reflexivity.
Qed.

(* content is kept when the bytes below every entry's end are kept *)
Lemma content_ext data data' : forall es prev bl,
  (forall e, In e es -> forall f, dget (efile e) data = Some f ->
     exists f', dget (efile e) data' = Some f' /\ eoff e <= fsize f' /\
                firstn (N.to_nat (eoff e)) (fbytes f') = firstn (N.to_nat (eoff e)) (fbytes f)) ->
  content data prev es bl -> content data' prev es bl.
Proof.
  induction es as [|e es IH]; intros prev [|b bl] Hk H; cbn in *; try tauto.
  destruct H as [(f & Hf & Hs & Hle & Hsl) Hr]. split.
  - destruct (Hk e (or_introl eq_refl) f Hf) as (f' & Hf' & Hle' & Hpre). exists f'. repeat split; try assumption.
    rewrite <- Hsl. apply slice_prefix; assumption.
  - apply IH; [|exact Hr]. intros x Hx. apply Hk. right. exact Hx.
Qed.

Lemma content_firstn data k : forall es prev bl, content data prev es bl -> content data prev (firstn k es) (firstn k bl).
Proof.
  induction k as [|k IH]; intros es prev bl H; [exact I|].
  destruct es as [|e es]; destruct bl as [|b bl]; cbn in H; try tauto; cbn [firstn content]; try exact I.
  split; [exact (proj1 H)|apply IH; exact (proj2 H)].
Qed.

Lemma content_app data : forall es prev bl es2 bl2,
  content data prev es bl -> content data (match es with [] => prev | _ => Some (last es (mkE 0 0)) end) es2 bl2 ->
  content data prev (es ++ es2) (bl ++ bl2).
Proof.
  induction es as [|e es IH]; intros prev [|b bl] es2 bl2 H H2; cbn in H; try tauto; try exact H2.
  cbn [app content]. split; [exact (proj1 H)|]. apply IH; [exact (proj2 H)|].
  destruct es as [|e2 es]; [exact H2|]. rewrite last_cons in H2. 
  replace (last (e2 :: es) (mkE 0 0)) with (last (e2 :: es) e); [exact H2|]. apply last_default. discriminate.
Qed.

(* dropping a prefix: allowed when the first kept entry starts its file *)
Lemma content_skipn data k : forall es prev bl,
  content data prev es bl ->
  (match skipn k es with [] => True | e :: _ => k = O \/ (forall p, nth_error es (k - 1) = Some p -> efile p <> efile e) end) ->
  prev = None ->
  content data None (skipn k es) (skipn k bl).
Proof.
  induction k as [|k IH]; intros es prev bl H Hc ->; [exact H|].
  destruct es as [|e es]; destruct bl as [|b bl]; cbn in H; try tauto; try exact I.
  cbn [skipn]. destruct H as [_ Hr].
  destruct k as [|k].
  - (* the next entry becomes the first: its start must already be 0 *)
    cbn [skipn] in *. destruct es as [|e2 es]; destruct bl as [|b2 bl]; cbn in Hr; try tauto; try exact I.
    destruct Hc as [Hc|Hc]; [discriminate|]. specialize (Hc e eq_refl).
    cbn [content]. destruct Hr as [(f & Hf & Hs & Hle & Hsl) Hr2]. split; [|exact Hr2].
    exists f. cbn [start_of] in *. destruct (N.eqb_spec (efile e) (efile e2)); [contradiction|].
    repeat split; assumption.
  - (* generalise over the previous entry *)
    clear IH. revert e es bl Hr Hc. 
    assert (G : forall k es p bl, content data (Some p) es bl ->
              (match skipn (S k) es with [] => True | e :: _ => forall q, nth_error es k = Some q -> efile q <> efile e end) ->
              content data None (skipn (S k) es) (skipn (S k) bl)).
    { clear. induction k as [|k IHk]; intros es p bl H Hc.
      - destruct es as [|e es]; destruct bl as [|b bl]; cbn in H; try tauto; try exact I.
        cbn [skipn] in *. destruct es as [|e2 es]; destruct bl as [|b2 bl]; destruct H as [_ H]; cbn in H; try tauto; try exact I.
        specialize (Hc e eq_refl). cbn [content]. destruct H as [(f & Hf & Hs & Hle & Hsl) Hr2]. split; [|exact Hr2].
        exists f. cbn [start_of] in *. destruct (N.eqb_spec (efile e) (efile e2)); [contradiction|]. repeat split; assumption.
      - destruct es as [|e es]; destruct bl as [|b bl]; cbn in H; try tauto; try exact I.
        cbn [skipn]. apply (IHk es e bl); [exact (proj2 H)|]. exact Hc. }
    intros e es bl Hr Hc. apply (G k es e bl Hr).
    change (skipn (S (S k)) (e :: es)) with (skipn (S k) es) in Hc. destruct (skipn (S k) es) as [|x r] eqn:Ex; [exact I|].
    destruct Hc as [Hc|Hc]; [discriminate|]. intros q Hq. apply Hc. cbn [Nat.sub nth_error]. replace (k - 0)%nat with k by lia. exact Hq.
Qed.

Lemma content_nth data : forall es prev bl k e b,
  content data prev es bl -> nth_error es k = Some e -> nth_error bl k = Some b ->
  let p := match k with O => prev | S k' => nth_error es k' end in
  exists f, dget (efile e) data = Some f /\ start_of p e <= eoff e /\ eoff e <= fsize f /\
            slice f (start_of p e) (eoff e) = encode b.
Proof.
  induction es as [|x es IH]; intros prev bl k e b H He Hb; [destruct k; discriminate|].
  destruct bl as [|y bl]; [destruct k; discriminate|]. cbn in H. destruct H as [H1 H2].
  destruct k as [|k].
  - cbn in He, Hb. inversion He; inversion Hb; subst. exact H1.
  - cbn [nth_error] in He, Hb. specialize (IH (Some x) bl k e b H2 He Hb). cbv zeta in IH.
    destruct k as [|k']; exact IH.
Qed.

Definition CInv (t : table) (bl : list (list N)) : Prop := content (t_data t) None (rest_of t) bl.

(* RETRIEVE RETURNS THE APPENDED ITEM *)
Theorem retrieve_content maxsz t bl k b :
  DInv maxsz t -> CInv t bl -> nth_error bl k = Some b -> t_hidden t <= t_offset t + N.of_nat k ->
  retrieve decode t (t_offset t + N.of_nat k) = Ok b.
Proof.
  intros (HI & DG & DH & DI & DJ & DL & DN & DO & DP) HC Hnb Hhid.
  pose proof (content_length _ _ _ _ HC) as Hlen.
  pose proof HI as HI0. unfold IdxInv, core, IdxInvC in HI0. inv_destruct HI0.
  pose proof (rest_of_inv t rest Hb Hwf Ht Ho) as Hr. unfold CInv in HC. rewrite Hr in *.
  assert (Hk : (k < length rest)%nat) by (rewrite Hlen; apply nth_error_Some; congruence).
  destruct (nth_error rest k) as [e|] eqn:He; [|apply nth_error_None in He; lia].
  destruct (content_nth _ _ _ _ _ _ _ HC He Hnb) as (f & Hf & Hs & Hle & Hsl).
  assert (Hwfh : forallb entry_wf (mkE (t_tail t) (t_offset t) :: rest) = true).
  { cbn [forallb]. unfold entry_wf at 1. cbn [efile eoff].
    replace (t_tail t <? 65536) with true by (symmetry; apply N.ltb_lt; exact Ht).
    replace (t_offset t <? two32) with true by (symmetry; apply N.ltb_lt; exact Ho). exact Hwf. }
  unfold retrieve.
  replace (t_items t <=? t_offset t + N.of_nat k) with false by (symmetry; apply N.leb_gt; lia).
  replace (t_offset t + N.of_nat k <? t_hidden t) with false by (symmetry; apply N.ltb_ge; exact Hhid).
  cbn [orb]. unfold read_item.
  replace (t_offset t + N.of_nat k - t_offset t) with (N.of_nat k) by lia.
  rewrite Hb.
  replace (N.of_nat k * 6) with (6 * N.of_nat k) by lia.
  replace (6 * N.of_nat k + 6) with (6 * N.of_nat (S k)) by lia.
  rewrite !read6_enc by exact Hwfh. cbn [nth_error]. rewrite He.
  destruct (inv_monotone _ _ HI) as [_ Mr]. rewrite Hr in Mr. destruct (Mr e (nth_error_In _ _ He)) as [M1 M2].
  destruct (DN (efile e) (conj M1 M2)) as [_ Hop].
  assert (Hex : existsb (N.eqb (efile e)) (t_open t) = true) by (apply existsb_eqb_In; exact Hop).
  (* the start offset computed by getIndices/bounds is the start of the content invariant *)
  set (p := match k with O => None | S k' => nth_error rest k' end) in *.
  assert (Hoff : forall i0, nth_error (mkE (t_tail t) (t_offset t) :: rest) k = Some i0 ->
            (let i0' := if N.of_nat k =? 0 then mkE (efile e) 0 else i0 in
             if efile i0' =? efile e then eoff i0' else 0) = start_of p e).
  { intros i0 Hi0. subst p. destruct k as [|k'].
    - cbn. rewrite N.eqb_refl. reflexivity.
    - cbn [nth_error] in Hi0. rewrite Hi0. replace (N.of_nat (S k') =? 0) with false by (symmetry; apply N.eqb_neq; lia).
      cbn [start_of]. reflexivity. }
  destruct (nth_error (mkE (t_tail t) (t_offset t) :: rest) k) as [i0|] eqn:Hi0.
  2:{ apply nth_error_None in Hi0. cbn [length] in Hi0. lia. }
  cbv zeta. specialize (Hoff i0 eq_refl). cbv zeta in Hoff. rewrite Hoff.
  replace (eoff e <? start_of p e) with false by (symmetry; apply N.ltb_ge; exact Hs).
  rewrite Hex. cbn [negb]. rewrite Hf.
  change (firstn (N.to_nat (eoff e - start_of p e)) (skipn (N.to_nat (start_of p e)) (fbytes f))) with (slice f (start_of p e) (eoff e)).
  assert (Hl : N.of_nat (length (slice f (start_of p e) (eoff e))) = eoff e - start_of p e).
  { unfold slice. rewrite firstn_length, skipn_length. unfold fsize, flen in Hle. lia. }
  rewrite Hl, N.eqb_refl. cbn [negb]. rewrite Hsl, decode_encode. reflexivity.
Qed.

(* ---------- the content invariant along the operations ---------- *)
Definition CI (t : table) (bl : list (list N)) : Prop := CInv t bl /\ (rest_of t = [] -> t_headbytes t = 0).

(* Sync and its interior points: no byte changes *)
Lemma ci_same_bytes maxsz t t' bl :
  DInv maxsz t -> rest_of t' = rest_of t -> t_headbytes t' = t_headbytes t ->
  (forall id f, dget id (t_data t) = Some f -> exists f', dget id (t_data t') = Some f' /\ fbytes f' = fbytes f) ->
  CI t bl -> CI t' bl.
Proof.
  intros HD Hr Hhb Hd [HC H0]. split; [|rewrite Hr, Hhb; exact H0].
  unfold CInv in *. rewrite Hr. eapply content_ext; [|exact HC].
  intros e He f Hf. destruct (Hd _ _ Hf) as (f' & Hf' & Hb). exists f'. split; [exact Hf'|].
  destruct HD as (_ & DG & _). destruct (DG e He) as (g & Hg & Hle). assert (g = f) by congruence. subst g.
  unfold fsize, flen. rewrite Hb. split; [exact Hle|reflexivity].
Qed.

Lemma ci_do_sync maxsz t t' bl : DInv maxsz t -> do_sync t = Ok t' -> CI t bl -> CI t' bl.
Proof.
  intros HD E. pose proof HD as (_ & _ & _ & _ & [hf [Hf _]] & _).
  unfold do_sync, sync_head, data_upd in E. cbn [sync_index w_index t_head t_data] in E. rewrite Hf in E.
  inversion E; subst t'; clear E. apply (ci_same_bytes maxsz); try reflexivity; [exact HD|].
  intros id f Hg. cbn [set_flush meta_write w_meta w_data t_data]. rewrite dget_dset.
  destruct (N.eqb_spec id (t_head t)) as [->|Ne]; [|eauto]. exists (f_sync hf). split; [reflexivity|]. assert (f = hf) by congruence. subst f. reflexivity.
Qed.

Lemma ci_sync_head maxsz t t' bl : DInv maxsz t -> sync_head t = Ok t' -> CI t bl -> CI t' bl.
Proof.
  intros HD E. pose proof HD as (_ & _ & _ & _ & [hf [Hf _]] & _).
  unfold sync_head, data_upd in E. rewrite Hf in E.
  inversion E; subst t'; clear E. apply (ci_same_bytes maxsz); try reflexivity; [exact HD|].
  intros id f Hg. cbn [w_data t_data]. rewrite dget_dset.
  destruct (N.eqb_spec id (t_head t)) as [->|Ne]; [|eauto]. exists (f_sync hf). split; [reflexivity|]. assert (f = hf) by congruence. subst f. reflexivity.
Qed.

(* one more item in the head file *)
Lemma ci_commit_one maxsz t1 b e c t2 b2 bl :
  DInv maxsz t1 -> CI t1 bl -> commit t1 (mkB (encode b) (enc_entry e) c) = Ok (t2, b2) ->
  entry_wf e = true -> efile e = t_head t1 -> eoff e = t_headbytes t1 + N.of_nat (length (encode b)) ->
  CI t2 (bl ++ [b]).
Proof.
  intros HD [HC H0] E Hwe Hef Heo. pose proof HD as (HI & DG & _ & _ & [hf [Hf Hsz]] & _).
  unfold commit, data_upd in E. rewrite Hf in E. cbn [b_data b_index b_cur] in E. inversion E; subst t2 b2; clear E.
  set (t2 := w_counters _ _ _ _ _ _ _) in *.
  assert (Hd : forall id, dget id (t_data t2) = if id =? t_head t1 then Some (f_write hf (encode b)) else dget id (t_data t1)).
  { intros id. subst t2. cbn [w_counters w_index w_data t_data]. apply dget_dset. }
  destruct (nsynced_le _ _ HI) as (_ & Hne & Hmod6).
  assert (Hr : rest_of t2 = rest_of t1 ++ [e]).
  { unfold rest_of. subst t2. cbn [w_counters w_index w_data t_index f_write fbytes].
    rewrite entries_of_app by exact Hmod6. rewrite entries_of_one by exact Hwe.
    destruct (entries_of (fbytes (t_index t1))); [congruence|reflexivity]. }
  split; [|intros Z; rewrite Hr in Z; destruct (rest_of t1); discriminate].
  unfold CInv in *. rewrite Hr. apply content_app.
  - eapply content_ext; [|exact HC]. intros x Hx f Hfx. rewrite Hd.
    destruct (DG x Hx) as (g & Hg & Hle). assert (g = f) by congruence. subst g.
    destruct (N.eqb_spec (efile x) (t_head t1)) as [Q|Q]; [|exists f; repeat split; assumption].
    exists (f_write hf (encode b)). rewrite Q in Hfx. assert (f = hf) by congruence. subst f.
    split; [reflexivity|]. unfold fsize, flen, f_write in *. cbn [fbytes]. rewrite app_length. split; [lia|].
    rewrite firstn_app. replace (N.to_nat (eoff x) - length (fbytes hf))%nat with 0%nat by lia. cbn [firstn]. apply app_nil_r.
  - cbn [content]. split; [|exact I]. exists (f_write hf (encode b)). rewrite Hd, Hef, N.eqb_refl. split; [reflexivity|].
    (* the item starts where the head file ended *)
    assert (Hst : (match rest_of t1 with [] => start_of None e | _ => start_of (Some (last (rest_of t1) (mkE 0 0))) e end) = t_headbytes t1).
    { pose proof HI as HI0. unfold IdxInv, core, IdxInvC in HI0. inv_destruct HI0.
      pose proof (rest_of_inv t1 rest Hb Hwf Ht Ho) as Hr1. rewrite Hr1 in *.
      destruct rest as [|r0 rr] eqn:R; [cbn; symmetry; apply H0; reflexivity|].
      cbn [start_of]. rewrite (last_default (r0 :: rr) (mkE 0 0) (mkE (t_tail t1) 0)) by discriminate.
      rewrite <- Hh, Hef, N.eqb_refl. symmetry. apply Hhb. discriminate. }
    assert (Hst' : start_of (match rest_of t1 with [] => None | _ => Some (last (rest_of t1) (mkE 0 0)) end) e = t_headbytes t1).
    { destruct (rest_of t1); exact Hst. }
    rewrite Hst'. unfold fsize, flen in *. repeat split; try lia.
    + unfold f_write. cbn [fbytes]. rewrite app_length. lia.
    + unfold slice, f_write. cbn [fbytes]. rewrite Heo.
      replace (N.to_nat (t_headbytes t1)) with (length (fbytes hf)) by lia.
      rewrite skipn_app, skipn_all, Nat.sub_diag. cbn [skipn app].
      replace (N.to_nat (t_headbytes t1 + N.of_nat (length (encode b)) - t_headbytes t1)) with (length (encode b)) by lia.
      apply firstn_all.
Qed.

(* roll over and put one item into the new file *)
Lemma ci_advance_commit_one maxsz t1 t2 b e c t3 b3 bl :
  DInv maxsz t1 -> CI t1 bl -> t_head t1 + 1 < 65536 -> advance_head t1 = Ok t2 ->
  commit t2 (mkB (encode b) (enc_entry e) c) = Ok (t3, b3) ->
  entry_wf e = true -> efile e = t_head t2 -> eoff e = N.of_nat (length (encode b)) ->
  CI t3 (bl ++ [b]).
Proof.
  intros HD HCI Hhd EA EC Hwe Hef Heo.
  unfold advance_head in EA. destruct (do_sync t1) as [ts|] eqn:ES; [|discriminate].
  pose proof (ci_do_sync maxsz _ _ bl HD ES HCI) as [HCs H0s].
  pose proof (dinv_do_sync _ _ _ HD ES) as (HIs & DG & DH & DI & DJ & DL & DN & DO & DP).
  pose proof (do_sync_core _ _ ES) as Cs. unfold core in Cs. injection Cs as P1 P2 P3 P4 P5 P6 P7 P8 P9.
  cbv zeta in EA. rewrite P4 in EA.
  assert (Hm : (t_head t1 + 1) mod two32 = t_head t1 + 1) by (apply N.mod_small; unfold two32; lia).
  rewrite Hm in EA. set (nx := t_head t1 + 1) in *.
  assert (Hnot : existsb (N.eqb nx) (t_open ts) = false).
  { match goal with |- ?X = false => destruct X eqn:Ex; [|reflexivity] end.
    apply existsb_eqb_In in Ex. apply DP in Ex. subst nx. lia. }
  unfold open_trunc in EA. rewrite Hnot in EA.
  destruct DJ as [hfs [Hfs Hszs]]. rewrite P4 in Hfs.
  unfold sync_head, data_upd in EA. cbn [w_open w_data t_head t_data] in EA. rewrite P4 in EA.
  rewrite dget_dset_other in EA by (subst nx; lia). rewrite Hfs in EA.
  inversion EA; subst t2; clear EA. cbn [w_counters t_head] in Hef.
  unfold commit, data_upd in EC. cbn [w_counters w_open w_data t_head t_data b_data b_index b_cur] in EC.
  rewrite dget_dset_other in EC by (subst nx; lia). rewrite dget_dset_same in EC.
  inversion EC; subst t3 b3; clear EC.
  set (t3 := w_counters _ _ _ _ _ _ _) in *.
  set (nf := f_write f_empty (encode b)) in *.
  assert (Hd : forall id, dget id (t_data t3) = if id =? nx then Some nf else if id =? t_head t1 then Some (f_sync hfs) else dget id (t_data ts)).
  { intros id. subst t3. cbn [w_counters w_index w_data w_open t_data]. rewrite !dget_dset.
    destruct (id =? nx); [reflexivity|]. destruct (id =? t_head t1); [reflexivity|]. destruct (N.eqb_spec id nx); reflexivity. }
  destruct (nsynced_le _ _ HIs) as (_ & Hne & Hmod6).
  assert (Hr : rest_of t3 = rest_of ts ++ [e]).
  { unfold rest_of. subst t3. cbn [w_counters w_index w_data w_open t_index f_write fbytes].
    rewrite entries_of_app by exact Hmod6. rewrite entries_of_one by exact Hwe.
    destruct (entries_of (fbytes (t_index ts))); [congruence|reflexivity]. }
  destruct (inv_monotone _ _ HIs) as [_ Mr]. rewrite P4 in Mr.
  split; [|intros Z; rewrite Hr in Z; destruct (rest_of ts); discriminate].
  unfold CInv in *. rewrite Hr. apply content_app.
  - eapply content_ext; [|exact HCs]. intros x Hx f Hfx. destruct (Mr x Hx) as [_ Mx]. rewrite Hd.
    destruct (DG x Hx) as (g & Hg & Hle). assert (g = f) by congruence. subst g.
    destruct (N.eqb_spec (efile x) nx) as [Q|Q]; [subst nx; lia|].
    destruct (N.eqb_spec (efile x) (t_head t1)) as [Q1|Q1]; [|exists f; repeat split; assumption].
    rewrite Q1, Hfs in Hfx. injection Hfx as <-. exists (f_sync hfs). repeat split; assumption.
  - cbn [content]. split; [|exact I]. exists nf. rewrite Hd, Hef, N.eqb_refl. split; [reflexivity|].
    assert (Hst : start_of (match rest_of ts with [] => None | _ => Some (last (rest_of ts) (mkE 0 0)) end) e = 0).
    { destruct (rest_of ts) as [|r0 rr] eqn:R; [reflexivity|]. cbn [start_of].
      assert (Hin : In (last (r0 :: rr) (mkE 0 0)) (r0 :: rr)) by (apply last_in; discriminate).
      destruct (Mr _ Hin) as [_ Ml]. destruct (N.eqb_spec (efile (last (r0 :: rr) (mkE 0 0))) (efile e)); [|reflexivity].
      rewrite Hef in e0. subst nx. lia. }
    rewrite Hst. subst nf. unfold fsize, flen, f_write, f_empty, slice. cbn [fbytes app]. rewrite Heo.
    repeat split; try lia. cbn [N.to_nat skipn]. rewrite N.sub_0_r, Nat2N.id. apply firstn_all.
Qed.

(* ---------- append batches ---------- *)
Definition CB (maxsz : N) (tb : table * batch) (bl : list (list N)) : Prop :=
  BInv maxsz tb /\ exists tc bc, commit (fst tb) (snd tb) = Ok (tc, bc) /\ DInv maxsz tc /\ CI tc bl.

Lemma cb_append_item maxsz t b blob t' b' bl :
  maxsz < two32 -> CB maxsz (t, b) bl ->
  N.of_nat (length (encode blob)) <= maxsz -> t_head t + 1 < 65536 -> b_cur b + 1 < two32 ->
  append_item maxsz encode (t, b) blob = Ok (t', b') -> CB maxsz (t', b') (bl ++ [blob]).
Proof.
  intros Hmax [HB (tc & bc & ECm & HDc & HCc)] Hsz Hhd Hcur E. cbn [fst snd] in ECm.
  destruct (binv_append_item maxsz encode t b blob t' b' Hmax HB Hsz Hhd Hcur E) as (HB' & Hc' & Hh').
  split; [exact HB'|]. cbn [fst snd].
  pose proof HB as HB0. unfold BInv in HB0. cbn [fst snd] in HB0. pose proof (inv_hb_le _ _ _ _ _ _ _ _ _ _ HB0) as Hio.
  destruct (commit_core _ _ _ _ ECm) as [Cc Hbc]. subst bc.
  pose proof Cc as Cc'. unfold vcore, core in Cc'. injection Cc' as Q1 Q2 Q3 Q4 Q5 Q6 Q7 Q8 Q9.
  unfold append_item in E. cbv zeta in E.
  set (data := encode blob) in *. set (isz := N.of_nat (length data)) in *.
  set (ioff := t_headbytes t + N.of_nat (length (b_data b))) in *.
  destruct (N.ltb_spec maxsz (ioff + isz)) as [R|R].
  - rewrite ECm in E. cbn [fst snd] in E.
    destruct (advance_head tc) as [t2|] eqn:EA; [|discriminate]. inversion E; subst t' b'; clear E.
    cbn [b_data b_index b_cur app] in *.
    pose proof (advance_head_core _ _ EA) as C2. unfold core in C2. injection C2 as P1 P2 P3 P4 P5 P6 P7 P8 P9.
    assert (Hm : (t_head tc + 1) mod two32 = t_head tc + 1) by (apply N.mod_small; unfold two32; lia).
    destruct (commit_ok t2 (mkB data (enc_entry (mkE (t_head t2) ((0 + isz) mod two32))) (b_cur b + 1))) as [t3 E3].
    { apply (advance_head_has tc); [apply (dinv_fw maxsz); exact HDc|exact EA]. }
    exists t3, (mkB [] [] (b_cur b + 1)). split; [exact E3|].
    assert (HI3 : IdxInv maxsz t3).
    { destruct (commit_core _ _ _ _ E3) as [C3 _]. unfold IdxInv. rewrite C3. exact HB'. }
    assert (Hi : (0 + isz) mod two32 = isz) by (rewrite N.add_0_l; apply N.mod_small; lia).
    assert (Hwe : entry_wf (mkE (t_head t2) ((0 + isz) mod two32)) = true).
    { unfold entry_wf. cbn [efile eoff]. rewrite Hi, P4, Hm. apply andb_true_intro. split; apply N.ltb_lt; lia. }
    split.
    + eapply (dinv_advance_commit_one maxsz tc t2 data); try exact EA; try exact E3; try assumption; try reflexivity; try lia;
        try (cbn [eoff]; rewrite Hi; reflexivity).
    + eapply (ci_advance_commit_one maxsz tc t2 blob); try exact EA; try exact E3; try assumption; try reflexivity; try lia;
        try (cbn [eoff]; rewrite Hi; reflexivity).
  - inversion E; subst t' b'; clear E.
    assert (Hm : (ioff + isz) mod two32 = ioff + isz) by (apply N.mod_small; lia).
    set (e := mkE (t_head t) ((ioff + isz) mod two32)) in *.
    destruct (commit_ok tc (mkB data (enc_entry e) (b_cur b + 1))) as [t3 E3].
    { apply (dinv_fw maxsz) in HDc. exact (proj2 HDc). }
    exists t3, (mkB [] [] (b_cur b + 1)). split.
    + rewrite <- (commit_commit t b tc _ data (enc_entry e) (b_cur b + 1) ECm). exact E3.
    + assert (HI3 : IdxInv maxsz t3).
      { assert (E3' : commit t (mkB (b_data b ++ data) (b_index b ++ enc_entry e) (b_cur b + 1)) = Ok (t3, mkB [] [] (b_cur b + 1))).
        { rewrite <- (commit_commit t b tc _ data (enc_entry e) (b_cur b + 1) ECm). exact E3. }
        destruct (commit_core _ _ _ _ E3') as [C3 _]. unfold IdxInv. rewrite C3. exact HB'. }
      assert (Hwe : entry_wf e = true).
      { unfold entry_wf, e. cbn [efile eoff]. rewrite Hm. apply andb_true_intro. split; apply N.ltb_lt; lia. }
      assert (He1 : efile e = t_head tc) by (unfold e; cbn [efile]; symmetry; exact Q4).
      assert (He2 : eoff e = t_headbytes tc + N.of_nat (length data)) by (unfold e; cbn [eoff]; rewrite Hm, Q6; reflexivity).
      split.
      * eapply (dinv_commit_one maxsz tc data e); try exact E3; assumption.
      * eapply (ci_commit_one maxsz tc blob e); try exact E3; assumption.
Qed.

Lemma cb_append_items maxsz blobs : forall t b t' b' bl,
  maxsz < two32 -> CB maxsz (t, b) bl ->
  Forall (fun blob => N.of_nat (length (encode blob)) <= maxsz) blobs ->
  t_head t + N.of_nat (length blobs) < 65536 -> b_cur b + N.of_nat (length blobs) < two32 ->
  append_items maxsz encode (t, b) blobs = Ok (t', b') -> CB maxsz (t', b') (bl ++ blobs).
Proof.
  induction blobs as [|x r IH]; intros t b t' b' bl Hmax HB HF Hh Hc E.
  - inversion E; subst. rewrite app_nil_r. exact HB.
  - cbn [append_items] in E. destruct (append_item maxsz encode (t, b) x) as [[t1 b1]|] eqn:E1; [|discriminate].
    inversion HF as [|? ? Hx Hr]; subst. cbn [length] in Hh, Hc.
    pose proof (cb_append_item maxsz _ _ _ _ _ bl Hmax HB Hx ltac:(lia) ltac:(lia) E1) as B1.
    destruct (binv_append_item maxsz encode _ _ _ _ _ Hmax (proj1 HB) Hx ltac:(lia) ltac:(lia) E1) as (_ & Cc & Hd).
    replace (bl ++ x :: r) with ((bl ++ [x]) ++ r) by (rewrite <- app_assoc; reflexivity).
    eapply IH; eauto; lia.
Qed.

Lemma ci_op_append maxsz t blobs t' bl :
  maxsz < two32 -> DInv maxsz t -> CI t bl ->
  Forall (fun blob => N.of_nat (length (encode blob)) <= maxsz) blobs ->
  t_head t + N.of_nat (length blobs) < 65536 -> t_items t + N.of_nat (length blobs) < two32 ->
  op_append maxsz encode t blobs = Ok t' -> CI t' (bl ++ blobs).
Proof.
  intros Hmax HD HC HF Hh Hc E. unfold op_append in E.
  destruct (append_items maxsz encode (t, mkB [] [] (t_items t)) blobs) as [[t1 b1]|] eqn:E1; [|discriminate].
  cbn [fst snd] in E. destruct (commit t1 b1) as [[t2 b2]|] eqn:E2; [|discriminate].
  inversion E; subst; clear E.
  assert (HB0 : CB maxsz (t, mkB [] [] (t_items t)) bl).
  { split; [apply binv_start; exact (proj1 HD)|]. cbn [fst snd].
    destruct (commit_ok t (mkB [] [] (t_items t))) as [tc Ec]; [exact (proj2 (dinv_fw _ _ HD))|].
    exists tc, (mkB [] [] (t_items t)). split; [exact Ec|].
    pose proof HD as (_ & _ & _ & _ & [hf [Hf _]] & _). unfold commit, data_upd in Ec. rewrite Hf in Ec.
    inversion Ec; subst tc; clear Ec. cbn [b_data b_index b_cur length N.of_nat].
    assert (Hcore : core (w_counters (w_index (w_data t (dset (t_head t) (f_write hf []) (t_data t))) (f_write (t_index t) [])) (t_items t) (t_offset t) (t_hidden t) (t_head t) (t_tail t) (t_headbytes t + 0)) = core t).
    { unfold core. cbn [w_counters w_index w_data t_items t_offset t_hidden t_head t_tail t_headbytes t_index t_mcur t_msyn].
      unfold f_write. rewrite app_nil_r, file_eta, N.add_0_r. reflexivity. }
    assert (Hdd : forall id, dget id (t_data (w_counters (w_index (w_data t (dset (t_head t) (f_write hf []) (t_data t))) (f_write (t_index t) [])) (t_items t) (t_offset t) (t_hidden t) (t_head t) (t_tail t) (t_headbytes t + 0))) = dget id (t_data t)).
    { intros id. cbn [w_counters w_index w_data t_data]. rewrite dget_dset. unfold f_write. rewrite app_nil_r, file_eta.
      destruct (N.eqb_spec id (t_head t)) as [->|Ne]; [symmetry; exact Hf|reflexivity]. }
    split; [apply (dinv_ext maxsz t); [exact Hcore|reflexivity|exact Hdd|exact HD]|].
    destruct HC as [HC H0]. apply core_proj in Hcore. destruct Hcore as (_ & _ & _ & _ & _ & C6 & C7 & _).
    split.
    - unfold CInv, rest_of in *. rewrite C7. eapply content_ext; [|exact HC]. intros e He f Hfe. rewrite Hdd. exists f.
      destruct HD as (_ & DG & _). destruct (DG e He) as (g & Hg & Hle). assert (g = f) by congruence. subst g. repeat split; assumption.
    - unfold rest_of in *. rewrite C7, C6. exact H0. }
  pose proof (cb_append_items maxsz blobs _ _ _ _ bl Hmax HB0 HF Hh Hc E1) as [_ (tc & bc & Ec & _ & HCc)].
  cbn [fst snd] in Ec. rewrite E2 in Ec. inversion Ec; subst. exact HCc.
Qed.

(* ---------- crash + reopen ---------- *)
Lemma ci_reopen maxsz t ci cd (cm : bool) t' bl :
  DInv maxsz t -> CI t bl -> cut_ok t ci cd -> crash_reopen true t ci cd cm = Ok t' ->
  CI t' (firstn (nsynced t) bl).
Proof.
  intros HD [HC H0] Hcut E.
  destruct (open_crash_ok maxsz t ci cd cm HD Hcut) as (t'' & E' & HD' & O1 & O2 & O3 & O4 & O5 & O6 & O7 & M1 & M2 & M3 & M4).
  rewrite E in E'. inversion E'; subst t''; clear E'.
  split.
  - unfold CInv in *. rewrite O5. unfold synced_of. eapply content_ext; [|apply content_firstn; exact HC].
    intros e He f Hf. destruct (O7 e He) as (f0 & f' & A & B & C & D). assert (f0 = f) by congruence. subst f0.
    exists f'. repeat split; assumption.
  - intros Z. rewrite M4. unfold lastF. rewrite <- O5, Z. reflexivity.
Qed.

(* ---------- truncateHead ---------- *)
Lemma nth_error_firstn_some {A} n : forall (l : list A) k x, nth_error (firstn n l) k = Some x -> nth_error l k = Some x.
Proof.
  induction n as [|n IH]; intros l k x H; [destruct k; discriminate|].
  destruct l as [|a l]; [destruct k; discriminate|]. destruct k as [|k]; [exact H|]. cbn [firstn nth_error] in *. apply IH. exact H.
Qed.

Lemma firstn_min_len {A} k (l : list A) m : length l = m -> firstn (Nat.min k m) l = firstn k l.
Proof.
  intros <-. destruct (Nat.le_ge_cases k (length l)); [rewrite Nat.min_l by lia; reflexivity|].
  rewrite Nat.min_r by lia. rewrite !firstn_all2 by lia. reflexivity.
Qed.

Lemma ci_truncate_head maxsz t n t' bl :
  DInv maxsz t -> CI t bl -> n < two32 -> t_head t + 1 < 65536 -> truncate_head t n = Ok t' ->
  CI t' (firstn (length (rest_of t')) bl).
Proof.
  intros HD [HC H0] Hn Hh E. destruct (dinv_truncate_head_hd maxsz t n t' HD Hn Hh E) as (HD' & _ & [[Z Hz]|(k & Hr & Hb & Hhb)]).
  - split; [unfold CInv; rewrite Z; exact I|intros _; exact Hz].
  - split; [|apply Hhb; exact H0].
    pose proof (content_length _ _ _ _ HC) as Hlen.
    unfold CInv in *. assert (Hl : length (rest_of t') = Nat.min k (length (rest_of t))) by (rewrite Hr; apply firstn_length).
    rewrite Hl, (firstn_min_len k bl (length (rest_of t))) by (symmetry; exact Hlen).
    rewrite Hr. eapply content_ext; [|apply content_firstn; exact HC].
    intros e He f Hf. rewrite <- Hr in He. exact (Hb e He f Hf).
Qed.

(* ---------- truncateTail when no data file is dropped (only the virtual tail moves), or the table is reset ---------- *)
Lemma ci_truncate_tail_keep maxsz t n t' bl :
  DInv maxsz t -> CI t bl -> n < two32 -> t_head t + 1 < 65536 -> truncate_tail t n = Ok t' ->
  t_tail t' = t_tail t \/ t_items t < n ->
  CI t' (if t_items t <? n then [] else bl).
Proof.
  intros HD [HC H0] Hn Hh E Hk. unfold truncate_tail in E. cbv zeta in E.
  destruct (N.leb_spec n (t_hidden t)) as [L1|L1].
  { inversion E; subst. pose proof (proj1 HD) as HI. destruct (inv_counters _ _ HI).
    replace (t_items t' <? n) with false by (symmetry; apply N.ltb_ge; lia). split; assumption. }
  destruct (N.ltb_spec (t_items t) n) as [L2|L2].
  { pose proof (reset_to_core _ _ _ E) as C. cbv zeta in C. unfold core in C. injection C as P1 P2 P3 P4 P5 P6 P7 P8 P9.
    split; [unfold CInv, rest_of; rewrite P7; exact I|intros _; exact P6]. }
  destruct Hk as [Hk|Hk]; [|lia].
  match type of E with (match ?X with _ => _ end) = _ => destruct X as [newtail|] eqn:EN end; [|discriminate].
  set (T2 := set_vtail (w_counters t (t_items t) (t_offset t) n (t_head t) (t_tail t) (t_headbytes t)) n false) in E.
  change (t_tail T2) with (t_tail t) in E.
  destruct (N.eqb_spec (t_tail t) newtail) as [Q|Q]; [inversion E; subst t'; split; [exact HC|exact H0]|].
  destruct (N.ltb_spec newtail (t_tail t)) as [Q2|Q2]; [discriminate|].
  (* a data file is dropped: the tail file changes, excluded by the hypothesis *)
  exfalso. destruct (do_sync T2) as [t3|] eqn:ES; [|discriminate].
  destruct (tail_scan _ _ _ _ _ _) as [newdel|]; [|discriminate].
  destruct (_ <=? _); [discriminate|]. inversion E; subst t'; clear E.
  unfold set_flush, meta_write, release_before, release_where in Hk. cbn [w_meta w_data w_open w_counters t_tail] in Hk. congruence.
Qed.

(* ---------- truncateTail in general (data files may be dropped) ---------- *)
Lemma skipn_len_sub {A} kd (l : list A) m : length l = m -> skipn (length l - (m - kd)) l = skipn kd l.
Proof.
  intros <-. destruct (Nat.le_ge_cases kd (length l)).
  - replace (length l - (length l - kd))%nat with kd by lia. reflexivity.
  - replace (length l - (length l - kd))%nat with (length l) by lia. rewrite !skipn_all2 by lia. reflexivity.
Qed.

Lemma ci_truncate_tail maxsz t n t' bl :
  DInv maxsz t -> CI t bl -> n < two32 -> t_head t + 1 < 65536 -> truncate_tail t n = Ok t' ->
  CI t' (skipn (length bl - length (rest_of t')) bl).
Proof.
  intros HD [HC H0] Hn Hh E. destruct (dinv_truncate_tail_sfx maxsz t n t' HD Hn Hh E) as (HD' & [[Z Hz]|(kd & Hr & Hb & Hfc & Hhb)]).
  - split; [|intros _; exact Hz]. unfold CInv. rewrite Z. cbn [length]. rewrite Nat.sub_0_r, skipn_all. exact I.
  - split; [|apply Hhb; exact H0].
    pose proof (content_length _ _ _ _ HC) as Hlen. unfold CInv in *.
    assert (Hl : length (rest_of t') = (length (rest_of t) - kd)%nat) by (rewrite Hr; apply skipn_length).
    rewrite Hl, (skipn_len_sub kd bl (length (rest_of t))) by (symmetry; exact Hlen).
    rewrite Hr. eapply content_ext; [|apply (content_skipn _ kd _ None); [exact HC| |reflexivity]].
    + intros e He f Hf. rewrite <- Hr in He. exact (Hb e He f Hf).
    + rewrite <- Hr. exact Hfc.
Qed.

(* ---------- histories: the ghost list of appended items ---------- *)
Section GHist.
Variable maxsz : N.

(* the ghost: the items appended so far that still have an entry, in item order.  An append adds its
   items at the end (they get the numbers items, items+1, ...); truncateHead, a crash + reopen and
   every other step keep the first |entries| of them; a reset empties the list. *)
Definition gstep (tb : table * list (list N)) (h : hop) : table * list (list N) :=
  let t := fst tb in let bl := snd tb in
  let t' := hnext maxsz encode t h in
  (t', match hstep maxsz encode t h with
       | Err _ => bl
       | Ok _ => match h with
                 | HOp (OAppend blobs) => bl ++ blobs
                 | HOp (OTruncTail n) => if (t_hidden t <? n) && (t_items t <? n) then [] else bl
                 | _ => firstn (length (rest_of t')) bl
                 end
       end).
Definition grun (t : table) (bl : list (list N)) (hs : list hop) : table * list (list N) := fold_left gstep hs (t, bl).

(* tail truncations that do not drop a data file (they only move the virtual tail) or reset the table *)
Definition nodrop (t : table) (h : hop) : Prop :=
  match h with
  | HOp (OTruncTail n) => forall t', truncate_tail t n = Ok t' -> t_tail t' = t_tail t \/ t_items t < n
  | _ => True
  end.
Fixpoint nodropped (t : table) (hs : list hop) : Prop :=
  match hs with [] => True | h :: r => nodrop t h /\ nodropped (hnext maxsz encode t h) r end.

Lemma ci_len maxsz' t bl : DInv maxsz' t -> CI t bl -> firstn (length (rest_of t)) bl = bl.
Proof. intros _ [HC _]. rewrite (content_length _ _ _ _ HC). apply firstn_all. Qed.

Lemma ci_gstep t bl h :
  maxsz < two32 -> DInv maxsz t -> CI t bl -> hguard maxsz encode t h -> nodrop t h ->
  let '(t', bl') := gstep (t, bl) h in DInv maxsz t' /\ CI t' bl'.
Proof.
  intros Hmax HD HC HG HN. unfold gstep. cbn [fst snd].
  pose proof (dinv_hnext maxsz encode t h Hmax HD HG) as HD'. split; [exact HD'|].
  unfold hnext in *. destruct (hstep maxsz encode t h) as [t'|] eqn:E; [|exact HC].
  destruct h as [o|ci cd cm]; cbn [hstep hguard nodrop] in *.
  - destruct o as [blobs|n|n| | |]; cbn [step op_guard] in *.
    + destruct HG as (G1 & G2 & G3). exact (ci_op_append maxsz t blobs t' bl Hmax HD HC G1 G2 G3 E).
    + destruct HG as (G1 & G2). exact (ci_truncate_head maxsz t n t' bl HD HC G1 G2 E).
    + destruct HG as (G1 & G2). pose proof (ci_truncate_tail_keep maxsz t n t' bl HD HC G1 G2 E (HN t' E)) as K.
      destruct (N.ltb_spec (t_items t) n) as [L|L].
      * destruct (N.ltb_spec (t_hidden t) n) as [L2|L2]; [exact K|].
        destruct (inv_counters _ _ (proj1 HD)). lia.
      * rewrite andb_false_r. exact K.
    + rewrite (ci_len maxsz t' bl HD' (ci_do_sync maxsz t t' bl HD E HC)). exact (ci_do_sync maxsz t t' bl HD E HC).
    + inversion E; subst t'. assert (K : CI (sync_index t) bl) by exact HC. rewrite (ci_len maxsz _ bl HD' K). exact K.
    + assert (K : CI t' bl) by (eapply (ci_sync_head maxsz (sync_index t)); [apply dinv_sync_index; exact HD|exact E|exact HC]).
      rewrite (ci_len maxsz t' bl HD' K). exact K.
  - pose proof (ci_reopen maxsz t ci cd cm t' bl HD HC HG E) as K.
    destruct (open_crash_ok maxsz t ci cd cm HD HG) as (t'' & E'' & _ & _ & _ & _ & _ & O5 & _). rewrite E in E''. inversion E''; subst t''.
    rewrite O5. unfold synced_of. rewrite firstn_length.
    destruct (nsynced_le _ _ (proj1 HD)) as (Hns & _ & _). rewrite Nat.min_l by exact Hns. exact K.
Qed.

Lemma ci_grun hs : forall t bl,
  maxsz < two32 -> DInv maxsz t -> CI t bl -> hguarded maxsz encode t hs -> nodropped t hs ->
  let '(tf, blf) := grun t bl hs in DInv maxsz tf /\ CI tf blf /\ tf = hrun maxsz encode t hs.
Proof.
  unfold grun. induction hs as [|h r IH]; intros t bl Hmax HD HC HG HN; cbn [fold_left hrun].
  - cbv iota beta. split; [exact HD|split; [exact HC|reflexivity]].
  - destruct HG as [G1 G2]. destruct HN as [N1 N2].
    pose proof (ci_gstep t bl h Hmax HD HC G1 N1) as K.
    destruct (gstep (t, bl) h) as [t1 bl1] eqn:Eg.
    assert (Ht1 : t1 = hnext maxsz encode t h) by (unfold gstep in Eg; inversion Eg; reflexivity).
    destruct K as [K1 K2]. subst t1. apply IH; assumption.
Qed.

(* READABLE_IS_APPENDED.  From the empty table, after every guarded history (append batches, truncateHead,
   truncateTail that only moves the virtual tail or resets, Sync and its interior points, crashes +
   reopens inside), every item of the ghost list that is not hidden reads back exactly the appended item;
   and after one more crash (every cut, every zero fill, either metadata record) every item the reopened
   table exposes reads back the appended item. *)
Theorem table_readable t0 hs :
  maxsz < two32 -> init true = Ok t0 -> hguarded maxsz encode t0 hs -> nodropped t0 hs ->
  let '(t, bl) := grun t0 [] hs in
  (forall k b, nth_error bl k = Some b -> t_hidden t <= t_offset t + N.of_nat k ->
               retrieve decode t (t_offset t + N.of_nat k) = Ok b) /\
  (forall ci cd (cm : bool), cut_ok t ci cd ->
     exists t', crash_reopen true t ci cd cm = Ok t' /\ t_offset t' = t_offset t /\
       forall i, t_hidden t' <= i -> i < t_items t' ->
         exists b, nth_error bl (N.to_nat (i - t_offset t)) = Some b /\ retrieve decode t' i = Ok b).
Proof.
  intros Hmax Hini HG HN.
  assert (HD0 : DInv maxsz t0) by (eapply dinv_init; eauto).
  assert (HC0 : CI t0 []).
  { vm_compute in Hini. inversion Hini; subst. split; [exact I|reflexivity]. }
  pose proof (ci_grun hs t0 [] Hmax HD0 HC0 HG HN) as P.
  destruct (grun t0 [] hs) as [t bl]. destruct P as (HD & HC & _).
  split.
  - intros k b Hk Hh. eapply retrieve_content; eauto. exact (proj1 HC).
  - intros ci cd cm Hcut.
    destruct (open_crash_ok maxsz t ci cd cm HD Hcut) as (t' & E & HD' & O1 & O2 & O3 & O4 & O5 & _).
    exists t'. split; [exact E|]. split; [exact O1|].
    pose proof (ci_reopen maxsz t ci cd cm t' bl HD HC Hcut E) as [HC' _].
    intros i Hlo Hup.
    pose proof (proj1 HD') as HI'. destruct (inv_counters _ _ HI') as [_ Hle].
    assert (Hoff : t_offset t' <= i).
    { pose proof HI' as HI0. unfold IdxInv, core, IdxInvC in HI0. inv_destruct HI0. lia. }
    set (k := N.to_nat (i - t_offset t)).
    assert (Hk : (k < length (firstn (nsynced t) bl))%nat).
    { rewrite <- (content_length _ _ _ _ HC'). rewrite O5. rewrite O3, <- O1 in Hup. subst k. lia. }
    destruct (nth_error (firstn (nsynced t) bl) k) as [b|] eqn:Eb; [|apply nth_error_None in Eb; lia].
    exists b. split.
    + eapply nth_error_firstn_some. exact Eb.
    + replace i with (t_offset t' + N.of_nat k) by (subst k; lia).
      eapply (retrieve_content maxsz t' (firstn (nsynced t) bl)); eauto. subst k. lia.
Qed.

End GHist.

(* ---------- all histories: truncateTail may drop data files ---------- *)
Section GFull.
Variable maxsz : N.

(* the ghost as before; a truncateTail keeps the LAST |entries| items (it drops whole data files from the
   front and the tail marker of the index advances by as many items; a reset leaves none) *)
Definition gstepF (tb : table * list (list N)) (h : hop) : table * list (list N) :=
  let t := fst tb in let bl := snd tb in
  let t' := hnext maxsz encode t h in
  (t', match hstep maxsz encode t h with
       | Err _ => bl
       | Ok _ => match h with
                 | HOp (OAppend blobs) => bl ++ blobs
                 | HOp (OTruncTail n) => skipn (length bl - length (rest_of t')) bl
                 | _ => firstn (length (rest_of t')) bl
                 end
       end).
Definition grunF (t : table) (bl : list (list N)) (hs : list hop) : table * list (list N) := fold_left gstepF hs (t, bl).

Lemma ci_gstepF t bl h :
  maxsz < two32 -> DInv maxsz t -> CI t bl -> hguard maxsz encode t h ->
  let '(t', bl') := gstepF (t, bl) h in DInv maxsz t' /\ CI t' bl'.
Proof.
  intros Hmax HD HC HG. unfold gstepF. cbn [fst snd].
  pose proof (dinv_hnext maxsz encode t h Hmax HD HG) as HD'. split; [exact HD'|].
  unfold hnext in *. destruct (hstep maxsz encode t h) as [t'|] eqn:E; [|exact HC].
  destruct h as [o|ci cd cm]; cbn [hstep hguard] in *.
  - destruct o as [blobs|n|n| | |]; cbn [step op_guard] in *.
    + destruct HG as (G1 & G2 & G3). exact (ci_op_append maxsz t blobs t' bl Hmax HD HC G1 G2 G3 E).
    + destruct HG as (G1 & G2). exact (ci_truncate_head maxsz t n t' bl HD HC G1 G2 E).
    + destruct HG as (G1 & G2). exact (ci_truncate_tail maxsz t n t' bl HD HC G1 G2 E).
    + rewrite (ci_len maxsz t' bl HD' (ci_do_sync maxsz t t' bl HD E HC)). exact (ci_do_sync maxsz t t' bl HD E HC).
    + inversion E; subst t'. assert (K : CI (sync_index t) bl) by exact HC. rewrite (ci_len maxsz _ bl HD' K). exact K.
    + assert (K : CI t' bl) by (eapply (ci_sync_head maxsz (sync_index t)); [apply dinv_sync_index; exact HD|exact E|exact HC]).
      rewrite (ci_len maxsz t' bl HD' K). exact K.
  - pose proof (ci_reopen maxsz t ci cd cm t' bl HD HC HG E) as K.
    destruct (open_crash_ok maxsz t ci cd cm HD HG) as (t'' & E'' & _ & _ & _ & _ & _ & O5 & _). rewrite E in E''. inversion E''; subst t''.
    rewrite O5. unfold synced_of. rewrite firstn_length.
    destruct (nsynced_le _ _ (proj1 HD)) as (Hns & _ & _). rewrite Nat.min_l by exact Hns. exact K.
Qed.

Lemma ci_grunF hs : forall t bl,
  maxsz < two32 -> DInv maxsz t -> CI t bl -> hguarded maxsz encode t hs ->
  let '(tf, blf) := grunF t bl hs in DInv maxsz tf /\ CI tf blf /\ tf = hrun maxsz encode t hs.
Proof.
  unfold grunF. induction hs as [|h r IH]; intros t bl Hmax HD HC HG; cbn [fold_left hrun].
  - cbv iota beta. split; [exact HD|split; [exact HC|reflexivity]].
  - destruct HG as [G1 G2].
    pose proof (ci_gstepF t bl h Hmax HD HC G1) as K.
    destruct (gstepF (t, bl) h) as [t1 bl1] eqn:Eg.
    assert (Ht1 : t1 = hnext maxsz encode t h) by (unfold gstepF in Eg; inversion Eg; reflexivity).
    destruct K as [K1 K2]. subst t1. apply IH; assumption.
Qed.

(* READABLE_IS_APPENDED over ALL guarded histories of one table *)
Theorem table_readable_full t0 hs :
  maxsz < two32 -> init true = Ok t0 -> hguarded maxsz encode t0 hs ->
  let '(t, bl) := grunF t0 [] hs in
  (forall k b, nth_error bl k = Some b -> t_hidden t <= t_offset t + N.of_nat k ->
               retrieve decode t (t_offset t + N.of_nat k) = Ok b) /\
  (forall ci cd (cm : bool), cut_ok t ci cd ->
     exists t', crash_reopen true t ci cd cm = Ok t' /\ t_offset t' = t_offset t /\
       forall i, t_hidden t' <= i -> i < t_items t' ->
         exists b, nth_error bl (N.to_nat (i - t_offset t)) = Some b /\ retrieve decode t' i = Ok b).
Proof.
  intros Hmax Hini HG.
  assert (HD0 : DInv maxsz t0) by (eapply dinv_init; eauto).
  assert (HC0 : CI t0 []).
  { vm_compute in Hini. inversion Hini; subst. split; [exact I|reflexivity]. }
  pose proof (ci_grunF hs t0 [] Hmax HD0 HC0 HG) as P.
  destruct (grunF t0 [] hs) as [t bl]. destruct P as (HD & HC & _).
  split.
  - intros k b Hk Hh. eapply retrieve_content; eauto. exact (proj1 HC).
  - intros ci cd cm Hcut.
    destruct (open_crash_ok maxsz t ci cd cm HD Hcut) as (t' & E & HD' & O1 & O2 & O3 & O4 & O5 & _).
    exists t'. split; [exact E|]. split; [exact O1|].
    pose proof (ci_reopen maxsz t ci cd cm t' bl HD HC Hcut E) as [HC' _].
    intros i Hlo Hup.
    pose proof (proj1 HD') as HI'. destruct (inv_counters _ _ HI') as [_ Hle].
    assert (Hoff : t_offset t' <= i).
    { pose proof HI' as HI0. unfold IdxInv, core, IdxInvC in HI0. inv_destruct HI0. lia. }
    set (k := N.to_nat (i - t_offset t)).
    assert (Hk : (k < length (firstn (nsynced t) bl))%nat).
    { rewrite <- (content_length _ _ _ _ HC'). rewrite O5. rewrite O3, <- O1 in Hup. subst k. lia. }
    destruct (nth_error (firstn (nsynced t) bl) k) as [b|] eqn:Eb; [|apply nth_error_None in Eb; lia].
    exists b. split.
    + eapply nth_error_firstn_some. exact Eb.
    + replace i with (t_offset t' + N.of_nat k) by (subst k; lia).
      eapply (retrieve_content maxsz t' (firstn (nsynced t) bl)); eauto. subst k. lia.
Qed.

End GFull.

End Content.
