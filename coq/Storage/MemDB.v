(* Storage/MemDB.v — what ethdb/memorydb/memorydb.go does differently from the spec
   Storage/KV.v: the batch entry record.  Executable; no proofs here.

   memorydb's map, Has/Get/Put/Delete/DeleteRange/NewIterator are exactly the KV.v
   functions (see the comments there).  Its batch queues `keyvalue` records and
   batch.Write / batch.Replay re-interpret them (memorydb.go:228-341). *)
From Coq Require Import List NArith Bool.
From GV Require Import Storage.KV.
Import ListNotations.

(* type keyvalue struct { key string; value []byte; delete bool; rangeFrom, rangeTo []byte } *)
Record keyvalue := {
  kv_key : key; kv_value : value; kv_delete : bool;
  kv_range : bool; kv_from : option key; kv_to : option key }.

(* batch.Put / batch.Delete / batch.DeleteRange (memorydb.go:247-271) *)
Definition enc (o : bop) : keyvalue :=
  match o with
  | BPut k v => {| kv_key := k; kv_value := v; kv_delete := false; kv_range := false;
                  kv_from := None; kv_to := None |}
  | BDel k => {| kv_key := k; kv_value := []; kv_delete := true; kv_range := false;
                 kv_from := None; kv_to := None |}
  | BDelRange s e => {| kv_key := []; kv_value := []; kv_delete := true; kv_range := true;
                        kv_from := s; kv_to := e |}
  end.

(* the per-entry dispatch of batch.Write (memorydb.go:285-305) and batch.Replay
   (memorydb.go:317-339):
     if entry.delete { if !entry.rangeDelete {single} else {range} } else put *)
Definition dec (r : keyvalue) : bop :=
  if kv_delete r then
    if negb (kv_range r) then BDel (kv_key r)
    else BDelRange (kv_from r) (kv_to r)
  else BPut (kv_key r) (kv_value r).

(* The dispatch BEFORE /repo commit 10bb448039 (`if entry.key != ""`), kept only to
   document the repaired defect C23-F1: a batched Delete of the empty key was executed
   as DeleteRange(nil, nil).  Not used by the model run. *)
Definition dec_old (r : keyvalue) : bop :=
  if kv_delete r then
    if negb (beq (kv_key r) []) then BDel (kv_key r)
    else BDelRange (kv_from r) (kv_to r)
  else BPut (kv_key r) (kv_value r).

(* the op memorydb will execute for a queued op *)
Definition mem_norm (o : bop) : bop := dec (enc o).
