(* Storage/FreezerHist.v — freezer histories: every table of a freezer keeps the full table invariant
   through ModifyAncients / TruncateHead / TruncateTail / SyncAncient; composed with the crash theorems
   this gives NewFreezer after a crash of a freezer with any history. *)
From GV Require Import Lib.Tactics Storage.FreezerTable Storage.FreezerTableProofs Storage.FreezerTableInv Storage.Freezer Storage.FreezerProofs Storage.FreezerSuccess Storage.FreezerTableData Storage.FreezerCompose Storage.FreezerTableOps.
Local Open Scope N_scope.

Lemma map_res_forall {A} (f : A -> res A) (P Q : A -> Prop) l l' :
  map_res f l = Ok l' -> Forall P l -> (forall x y, In x l -> P x -> f x = Ok y -> Q y) -> Forall Q l'.
Proof.
  intros E HP Hstep. apply map_res_forall2 in E. rewrite Forall_forall in HP.
  eapply Forall2_right; [exact E|]. intros x y Hin R. cbv beta in R. eapply Hstep; eauto.
Qed.

Section FzHist.
Variable maxsz : N.

(* magnitude guards of one freezer operation: item sizes <= maxFileSize, file numbers, item numbers *)
Definition fz_guard (f : freezer) (o : fop) : Prop :=
  match o with
  | FAppend n sizes =>
      (forall s, In s sizes -> N.of_nat s <= maxsz) /\ sizes <> [] /\
      (forall t, In t (fz_tables f) -> t_head t + N.of_nat n < 65536 /\ t_items t + N.of_nat n < two32)
  | FTruncHead n => n < two32 /\ forall t, In t (fz_tables f) -> t_head t + 1 < 65536
  | FTruncTail n => n < two32 /\ forall t, In t (fz_tables f) -> t_head t + 1 < 65536
  | FSync => True
  end.

Lemma blobs_from_sizes k i n size : Forall (fun b => N.of_nat (length (raw b)) <= maxsz) (blobs_from k i n size) <-> (n = O \/ N.of_nat size <= maxsz).
Proof.
  revert i. induction n as [|n IH]; intros i; cbn [blobs_from].
  - split; [left; reflexivity|constructor].
  - split.
    + intros H. inversion H; subst. right. unfold raw, fz_blob in H2. rewrite map_length, seq_length in H2. exact H2.
    + intros [H|H]; [discriminate|]. constructor.
      * unfold raw, fz_blob. rewrite map_length, seq_length. exact H.
      * apply IH. right. exact H.
Qed.

Lemma blobs_from_length k i n size : length (blobs_from k i n size) = n.
Proof. revert i. induction n as [|n IH]; intros i; cbn [blobs_from length]; [reflexivity|]. rewrite IH. reflexivity. Qed.

Lemma append_each_dinv sizes n head : forall k ts ts',
  maxsz < two32 -> (forall s, In s sizes -> N.of_nat s <= maxsz) -> sizes <> [] ->
  Forall (fun t => DInv maxsz t /\ t_head t + N.of_nat n < 65536 /\ t_items t + N.of_nat n < two32) ts ->
  append_each maxsz k ts head n sizes = Ok ts' -> Forall (DInv maxsz) ts'.
Proof.
  intros k ts. revert k. induction ts as [|t r IH]; intros k ts' Hmax Hs Hne HF E; cbn [append_each] in E.
  - inversion E. constructor.
  - destruct (negb (t_items t =? head)); [discriminate|].
    destruct (op_append maxsz raw t _) as [t'|] eqn:E1; [|discriminate].
    destruct (append_each maxsz (S k) r head n sizes) as [r'|] eqn:E2; [|discriminate].
    inversion E; subst ts'; clear E. inversion HF as [|? ? [HD [G1 G2]] HR]; subst.
    constructor; [|eapply IH; eauto].
    eapply (dinv_op_append maxsz raw t); try exact E1; try assumption.
    + apply blobs_from_sizes. right. apply Hs. apply nth_In. apply Nat.mod_upper_bound. destruct sizes; [congruence|cbn; lia].
    + rewrite blobs_from_length. exact G1.
    + rewrite blobs_from_length. exact G2.
Qed.

(* every freezer operation keeps the table invariant of every table *)
Lemma fz_step_dinv f o f' :
  maxsz < two32 -> Forall (DInv maxsz) (fz_tables f) -> fz_guard f o -> fz_step maxsz f o = Ok f' ->
  Forall (DInv maxsz) (fz_tables f').
Proof.
  intros Hmax HD HG E. rewrite Forall_forall in HD. destruct o as [n sizes|n|n|]; cbn [fz_step fz_guard] in *.
  - destruct HG as (G1 & G2 & G3). unfold fz_append in E.
    destruct (append_each maxsz 0 (fz_tables f) (fz_head f) n sizes) as [ts|] eqn:E1; [|discriminate].
    inversion E; subst f'; cbn [fz_tables].
    apply (append_each_dinv sizes n (fz_head f) 0%nat (fz_tables f) ts Hmax G1 G2); [|exact E1].
    rewrite Forall_forall. intros t Ht. split; [apply HD; exact Ht|apply G3; exact Ht].
  - destruct HG as (G1 & G2). unfold fz_trunc_head in E. destruct (fz_head f <=? n); [inversion E; subst; rewrite Forall_forall; exact HD|].
    destruct (map_res _ (fz_tables f)) as [ts|] eqn:E1; [|discriminate]. inversion E; subst f'; cbn [fz_tables].
    eapply map_res_forall; [exact E1|rewrite Forall_forall; exact HD|].
    intros x y Hin Hx Ey. eapply dinv_truncate_head; eauto.
  - destruct HG as (G1 & G2). unfold fz_trunc_tail in E. destruct (n <=? fz_tail f); [inversion E; subst; rewrite Forall_forall; exact HD|].
    destruct (map_res do_sync (fz_tables f)) as [ts1|] eqn:E1; [|discriminate].
    destruct (map_res _ ts1) as [ts2|] eqn:E2; [|discriminate]. inversion E; subst f'; cbn [fz_tables].
    assert (H1 : Forall (fun t => DInv maxsz t /\ t_head t + 1 < 65536) ts1).
    { apply map_res_forall2 in E1. eapply Forall2_right; [exact E1|]. intros x y Hin R. cbv beta in R.
      split; [eapply dinv_do_sync; eauto|]. pose proof (do_sync_core _ _ R) as C. unfold core in C. inversion C. rewrite H3. apply G2. exact Hin. }
    eapply map_res_forall; [exact E2|exact H1|]. intros x y Hin [Hx Hh] Ey.
    eapply dinv_truncate_tail; eauto.
  - unfold fz_sync in E. destruct (map_res do_sync (fz_tables f)) as [ts|] eqn:E1; [|discriminate].
    inversion E; subst f'; cbn [fz_tables].
    eapply map_res_forall; [exact E1|rewrite Forall_forall; exact HD|]. intros x y Hin Hx Ey. eapply dinv_do_sync; eauto.
Qed.

Definition fz_next (f : freezer) (o : fop) : freezer := match fz_step maxsz f o with Ok f' => f' | Err _ => f end.
Fixpoint fz_hrun (f : freezer) (h : list fop) : freezer := match h with [] => f | o :: r => fz_hrun (fz_next f o) r end.
Fixpoint fz_guarded (f : freezer) (h : list fop) : Prop :=
  match h with [] => True | o :: r => fz_guard f o /\ fz_guarded (fz_next f o) r end.

Lemma fz_hrun_dinv h : forall f,
  maxsz < two32 -> Forall (DInv maxsz) (fz_tables f) -> fz_guarded f h -> Forall (DInv maxsz) (fz_tables (fz_hrun f h)).
Proof.
  induction h as [|o r IH]; intros f Hmax HD HG; [exact HD|].
  destruct HG as [G1 G2]. cbn [fz_hrun]. apply IH; [exact Hmax| |exact G2].
  unfold fz_next. destruct (fz_step maxsz f o) as [f'|] eqn:E; [eapply fz_step_dinv; eauto|exact HD].
Qed.

(* THE FREEZER THEOREM OVER HISTORIES.  Start from a freezer whose tables satisfy the table invariant (the
   empty freezer does), run any guarded history of ModifyAncients / TruncateHead / TruncateTail (sync
   first) / SyncAncient, then take ANY crash state of every table.  Provided the cross-table condition
   holds in that crash state (no table recovers a tail above the head another table recovers, unless it
   recovers the empty range at its tail), NewFreezer succeeds, all tables end at exactly [Tail, Ancients),
   Ancients is the least head recovered by a non-empty table, and any range every table recovered is kept. *)
Theorem freezer_crash_safe f0 h (cs : list crashed) :
  maxsz < two32 -> Forall (DInv maxsz) (fz_tables f0) -> fz_guarded f0 h ->
  map cr_t cs = fz_tables (fz_hrun f0 h) ->
  (forall c, In c cs -> cut_ok (cr_t c) (cr_ci c) (cr_cd c) /\ t_head (cr_t c) + 2 < 65536) ->
  (forall c, In c cs -> dur_head (cr_t c) <> 0 ->
     (forall c', In c' cs -> dur_head (cr_t c') <> 0 -> rec_tail c <= dur_head (cr_t c')) \/ dur_head (cr_t c) = rec_tail c) ->
  exists f', fz_open true (map cr_disk cs) = Ok f' /\
    length (fz_tables f') = length cs /\
    Forall (fun t' => t_items t' = fz_head f' /\ t_hidden t' = fz_tail f') (fz_tables f') /\
    fz_tail f' <= fz_head f' /\
    (forall c, In c cs -> dur_head (cr_t c) <> 0 -> fz_head f' <= dur_head (cr_t c)) /\
    (forall s hh, cs <> [] -> hh < s -> (forall c, In c cs -> s <= dur_head (cr_t c) /\ rec_tail c <= hh) ->
                 s <= fz_head f' /\ fz_tail f' <= hh).
Proof.
  intros Hmax HD0 HG Hts Hcut Hcross.
  pose proof (fz_hrun_dinv h f0 Hmax HD0 HG) as HD. rewrite <- Hts in HD. rewrite Forall_forall in HD.
  apply (fz_open_crash_ok maxsz cs); [|exact Hcross].
  intros c Hc. destruct (Hcut c Hc) as [C1 C2]. split; [apply HD; apply in_map; exact Hc|]. split; assumption.
Qed.

End FzHist.

(* the empty freezer with two or three tables satisfies the hypothesis *)
Lemma empty_freezer_dinv maxsz :
  (exists f0, fz_open true (repeat (f_empty, [], None) 2) = Ok f0 /\ Forall (DInv maxsz) (fz_tables f0)) /\
  (exists f0, fz_open true (repeat (f_empty, [], None) 3) = Ok f0 /\ Forall (DInv maxsz) (fz_tables f0)).
Proof.
  assert (D0 : forall t0, init true = Ok t0 -> DInv maxsz t0) by (intros; eapply dinv_init; eauto).
  split; eexists; (split; [vm_compute; reflexivity|]); cbn [fz_tables];
    repeat (apply Forall_cons; [apply D0; vm_compute; reflexivity|]); apply Forall_nil.
Qed.

