(* Storage/HashDBInv.v — the state invariant of the hash-scheme node database model
   (Storage/HashDB.v), what it implies, and its preservation by dereference. *)
From GV Require Import Lib.Tactics Storage.HashDB Storage.HashDBProofs.
From Coq Require Import FMapPositive Sorted.
Open Scope N_scope.

Definition ondisk (st : db) (h : N) : Prop := mget h (disk st) <> None.
Definition cached (st : db) (h : N) : Prop := getd st h <> None.
Definition gext (st : db) (h : N) : list N := match getd st h with Some e => e_ext e | None => [] end.
Definition gpar (st : db) (h : N) : nat := match getd st h with Some e => N.to_nat (e_parents e) | None => 0%nat end.

Lemma lget_facts st st' x :
  lget st' x = lget st x -> gext st' x = gext st x /\ gpar st' x = gpar st x /\ (cached st' x <-> cached st x).
Proof.
  unfold lget, gext, gpar, cached, lg. destruct (getd st' x), (getd st x); intros H; try discriminate.
  - injection H as H1 H2. rewrite H1, H2. intuition congruence.
  - intuition congruence.
Qed.

Lemma cached_dec st h : {cached st h} + {~ cached st h}.
Proof. unfold cached. destruct (getd st h); [left; congruence|right; congruence]. Qed.
Lemma ondisk_dec st h : {ondisk st h} + {~ ondisk st h}.
Proof. unfold ondisk. destruct (mget h (disk st)); [left; congruence|right; congruence]. Qed.

Lemma gext_setd st h e x : gext (setd st h e) x = if x =? h then e_ext e else gext st x.
Proof. unfold gext. rewrite getd_setd. destruct (x =? h); reflexivity. Qed.
Lemma gpar_setd st h e x : gpar (setd st h e) x = if x =? h then N.to_nat (e_parents e) else gpar st x.
Proof. unfold gpar. rewrite getd_setd. destruct (x =? h); reflexivity. Qed.
Lemma cached_setd st h e x : cached (setd st h e) x <-> x = h \/ cached st x.
Proof. unfold cached. rewrite getd_setd. destruct (N.eqb_spec x h); intuition congruence. Qed.

Fixpoint sumZ (f : N -> Z) (l : list N) : Z :=
  match l with [] => 0%Z | x :: r => (f x + sumZ f r)%Z end.
Lemma sumZ_app f l1 l2 : sumZ f (l1 ++ l2) = (sumZ f l1 + sumZ f l2)%Z.
Proof. induction l1; cbn; lia. Qed.
Lemma sumZ_ext f g l : (forall x, In x l -> f x = g x) -> sumZ f l = sumZ g l.
Proof. induction l as [|x r IH]; cbn; intros H; auto. rewrite (H x), IH; auto. Qed.
Lemma sumZ_rm f h l : NoDup l -> In h l -> sumZ f l = (f h + sumZ f (rm h l))%Z.
Proof.
  induction l as [|y r IH]; cbn; [tauto|]. intros Hnd [->|Hin].
  - rewrite N.eqb_refl. cbn. fold (rm h r). rewrite rm_notin; auto. inversion Hnd; auto.
  - inversion Hnd as [|? ? Hy Hr]. destruct (N.eqb_spec y h) as [->|]; [tauto|]. cbn. fold (rm h r).
    rewrite (IH Hr Hin). lia.
Qed.

Section Inv.
  Variable kids : N -> list N.
  Variable ext : N -> list N.      (* storage roots embedded in the account leaves of a node *)
  Variable nsize : N -> N.

  Definition tracked (st : db) (h : N) : list N := gext st h ++ kids h.

  (* occurrences of x among the tracked children of the nodes of fl *)
  Fixpoint occ (st : db) (fl : list N) (x : N) : nat :=
    match fl with [] => 0%nat | p :: r => (cnt x (tracked st p) + occ st r x)%nat end.

  Lemma occ_ext st st' fl x : (forall p, In p fl -> gext st' p = gext st p) -> occ st' fl x = occ st fl x.
  Proof. induction fl as [|p r IH]; cbn; intros H; auto. unfold tracked. rewrite (H p), IH; auto. Qed.
  Lemma occ_app st l1 l2 x : occ st (l1 ++ l2) x = (occ st l1 x + occ st l2 x)%nat.
  Proof. induction l1; cbn; lia. Qed.
  Lemma occ_rm st fl h x : NoDup fl -> In h fl -> occ st fl x = (cnt x (tracked st h) + occ st (rm h fl) x)%nat.
  Proof.
    induction fl as [|y r IH]; cbn; [tauto|]. intros Hnd [->|Hin].
    - rewrite N.eqb_refl. cbn. fold (rm h r). rewrite rm_notin; auto. inversion Hnd; auto.
    - inversion Hnd as [|? ? Hy Hr]. destruct (N.eqb_spec y h) as [->|]; [tauto|]. cbn. fold (rm h r).
      rewrite (IH Hr Hin). lia.
  Qed.
  Lemma occ_zero st fl x : (forall p, In p fl -> ~ In x (tracked st p)) -> occ st fl x = 0%nat.
  Proof. induction fl as [|p r IH]; cbn; intros H; auto. rewrite cnt_0, IH; auto. Qed.
  Lemma occ_pos st fl x : (0 < occ st fl x)%nat -> exists p, In p fl /\ In x (tracked st p).
  Proof.
    induction fl as [|p r IH]; cbn; [lia|]. intros H.
    destruct (Nat.eq_dec (cnt x (tracked st p)) 0) as [E|E].
    - destruct IH as (q & ? & ?); [lia|]. exists q; auto.
    - exists p. split; auto. apply cnt_pos. lia.
  Qed.

  Definition cost (h : N) : Z := node_cost nsize h.
  Definition xcost (st : db) (h : N) : Z := (zlen (gext st h) * hashLen)%Z.

  Definition slt (stamp : N -> nat) (a b : N) : Prop := (stamp a < stamp b)%nat.

  (* The logical part of the invariant.  [dead]: nodes being deleted by an enclosing
     dereference (still in the map, already out of the flush list); [T]: children whose
     reference from a dead node has not been released yet; [pend]: account-root references
     of the running Update that have not been processed yet.  Outside operations all three
     are empty. *)
  Record LInv (fl dead T : list N) (pend : list (N * N)) (stamp u : N -> nat) (nxt : nat) (st : db) : Prop := mkLInv {
    g_dom : forall h, cached st h <-> In h fl \/ In h dead;
    g_dead : forall d, In d dead -> ~ In d fl;
    g_dead_nd : NoDup dead;
    g_sorted : StronglySorted (slt stamp) fl;
    g_fresh : forall x, In x fl -> (stamp x < nxt)%nat;
    g_disk_closed : forall x c, ondisk st x -> In c (kids x ++ ext x) -> ondisk st c;
    g_children : forall p c, In p fl -> In c (tracked st p) -> ondisk st c \/ (In c fl /\ slt stamp c p);
    g_ext : forall p s, In p fl -> In s (ext p) ->
            ondisk st s \/ In s (gext st p) \/ (In (s, p) pend /\ In s fl /\ slt stamp s p);
    g_extsub : forall p, incl (gext st p) (ext p);
    g_exact : forall x, In x fl -> ~ ondisk st x -> gpar st x = (occ st fl x + u x + cnt x T)%nat;
    g_roots : forall r, (0 < u r)%nat -> In r fl \/ ondisk st r;
    g_dsize : dsize st = (sumZ cost fl + sumZ cost dead)%Z;
    g_csize : csize st = (sumZ (xcost st) fl + sumZ (xcost st) dead)%Z
  }.

  Definition GInv fl dead T pend stamp u nxt st : Prop :=
    linked fl st /\ LInv fl dead T pend stamp u nxt st.

  (* the invariant between operations *)
  Definition Inv (fl : list N) (stamp u : N -> nat) (nxt : nat) (st : db) : Prop :=
    GInv fl [] [] [] stamp u nxt st.

  (* LInv only looks at the logical content of the state *)
  Lemma LInv_same fl dead T pend stamp u nxt st st' :
    same_logic st st' -> LInv fl dead T pend stamp u nxt st -> LInv fl dead T pend stamp u nxt st'.
  Proof.
    intros (Hl & Hd & Hds & Hcs) [A B C D E F G H I J K L M].
    assert (Hge : forall x, gext st' x = gext st x) by (intros x; apply (lget_facts st st' x (Hl x))).
    assert (Hgp : forall x, gpar st' x = gpar st x) by (intros x; apply (lget_facts st st' x (Hl x))).
    assert (Hca : forall x, cached st' x <-> cached st x) by (intros x; apply (lget_facts st st' x (Hl x))).
    assert (Hod : forall x, ondisk st' x <-> ondisk st x) by (intros x; unfold ondisk; rewrite Hd; tauto).
    assert (Htr : forall x, tracked st' x = tracked st x) by (intros x; unfold tracked; rewrite Hge; auto).
    assert (Hoc : forall l x, occ st' l x = occ st l x) by (intros; apply occ_ext; auto).
    assert (Hxc : forall x, xcost st' x = xcost st x) by (intros x; unfold xcost; rewrite Hge; auto).
    constructor.
    - intros h. rewrite Hca. auto.
    - exact B.
    - exact C.
    - exact D.
    - exact E.
    - intros x c. rewrite !Hod. apply F.
    - intros p c Hp. rewrite Htr, Hod. apply G; auto.
    - intros p s Hp Hs. rewrite Hod, Hge. apply H; auto.
    - intros p. rewrite Hge. apply I.
    - intros x Hx. rewrite Hod, Hgp, Hoc. apply J; auto.
    - intros r Hr. rewrite Hod. apply K; auto.
    - congruence.
    - rewrite Hcs, M. f_equal; apply sumZ_ext; intros; symmetry; apply Hxc.
  Qed.

  (* -------------------------------------------------------------- what the invariant implies *)
  Inductive reach (r : N) : N -> Prop :=
  | reach_refl : reach r r
  | reach_step x c : reach r x -> In c (kids x ++ ext x) -> reach r c.

  Lemma ondisk_reach st fl stamp u nxt r x :
    Inv fl stamp u nxt st -> ondisk st r -> reach r x -> ondisk st x.
  Proof. intros [_ HI] Hr Hx. induction Hx; auto. eapply g_disk_closed; eauto. Qed.

  Lemma inv_live_readable st fl stamp u nxt r x :
    Inv fl stamp u nxt st -> (0 < u r)%nat -> reach r x -> cached st x \/ ondisk st x.
  Proof.
    intros [_ HI] Hu Hx. induction Hx as [|x c Hx IH Hc].
    - destruct (g_roots _ _ _ _ _ _ _ _ HI r Hu); [left; apply (g_dom _ _ _ _ _ _ _ _ HI); auto|right; auto].
    - destruct IH as [Hca|Hd]; [|right; eapply g_disk_closed; eauto].
      apply (g_dom _ _ _ _ _ _ _ _ HI) in Hca as [Hin|[]].
      assert (Ht : In c (tracked st x) \/ ondisk st c).
      { apply in_app_or in Hc as [Hc|Hc].
        - left. apply in_or_app. auto.
        - destruct (g_ext _ _ _ _ _ _ _ _ HI x c Hin Hc) as [?|[?|([] & _)]]; [right; auto|left].
          apply in_or_app. auto. }
      destruct Ht as [Ht|Ht]; [|right; auto].
      destruct (g_children _ _ _ _ _ _ _ _ HI x c Hin Ht) as [?|[Hcf _]]; [right; auto|left].
      apply (g_dom _ _ _ _ _ _ _ _ HI). auto.
  Qed.

  Lemma mcard_fl st fl :
    NoDup fl -> (forall h, cached st h <-> In h fl) -> mcard (dirties st) = length fl.
  Proof.
    intros Hnd Hdom. apply Nat.le_antisymm.
    - unfold mcard. rewrite PositiveMap.cardinal_1.
      rewrite <- (map_length fst), <- (map_length key fl).
      apply NoDup_incl_length.
      + assert (H := PositiveMap.elements_3w (dirties st)).
        induction H as [|[k v] l Hn _ IH]; cbn; constructor; auto.
        intros Hc. apply Hn. apply in_map_iff in Hc as ([k' v'] & Hk & Hin). cbn in Hk. subst k'.
        apply SetoidList.InA_alt. exists (k, v'). split; [reflexivity|auto].
      + intros k Hk. apply in_map_iff in Hk as ([k' v] & Hk' & Hin). cbn in Hk'. subst k'.
        apply PositiveMap.elements_complete in Hin.
        assert (Hkk : k = key (Pos.pred_N k)) by (symmetry; apply key_pred).
        apply in_map_iff. exists (Pos.pred_N k). split; [auto|].
        apply Hdom. unfold cached, getd, mget. rewrite <- Hkk. congruence.
    - apply mcard_ge; auto. intros h Hh. apply Hdom in Hh. exact Hh.
  Qed.

  Lemma inv_mcard st fl stamp u nxt : Inv fl stamp u nxt st -> mcard (dirties st) = length fl.
  Proof.
    intros [Hl HI]. apply mcard_fl; [apply (lk_nodup _ _ Hl)|].
    intros h. rewrite (g_dom _ _ _ _ _ _ _ _ HI). cbn. tauto.
  Qed.

  Lemma inv_size_exact st fl stamp u nxt cns :
    Inv fl stamp u nxt st ->
    Size cns st = sumZ (fun h => cost h + cns + xcost st h)%Z fl.
  Proof.
    intros HI. unfold Size. rewrite (inv_mcard _ _ _ _ _ HI). destruct HI as [_ HI].
    rewrite (g_dsize _ _ _ _ _ _ _ _ HI), (g_csize _ _ _ _ _ _ _ _ HI). cbn [sumZ].
    clear. induction fl as [|x r IH]; cbn [sumZ length]; [lia|]. lia.
  Qed.

  (* -------------------------------------------------------------- logical steps *)
  Lemma ss_rm stamp h fl : StronglySorted (slt stamp) fl -> StronglySorted (slt stamp) (rm h fl).
  Proof.
    induction 1 as [|x l Hs IH Hf]; cbn; [constructor|].
    destruct (negb (x =? h)); auto. constructor; auto.
    apply Forall_forall. intros y Hy. apply rm_in in Hy as [Hy _]. rewrite Forall_forall in Hf. auto.
  Qed.
  Lemma ss_nodup stamp fl : StronglySorted (slt stamp) fl -> NoDup fl.
  Proof.
    induction 1 as [|x l Hs IH Hf]; constructor; auto.
    intros Hx. rewrite Forall_forall in Hf. specialize (Hf x Hx). unfold slt in Hf. lia.
  Qed.
  Lemma occ_in st fl p x : In p fl -> In x (tracked st p) -> (0 < occ st fl x)%nat.
  Proof.
    induction fl as [|q r IH]; cbn; [tauto|]. intros [->|Hp] Hx.
    - apply cnt_in in Hx. lia.
    - specialize (IH Hp Hx). lia.
  Qed.

  (* change of reference counts / root references / pending tokens only *)
  Lemma LInv_repar fl dead T T' pend stamp u u' nxt st st' :
    (forall x, gext st' x = gext st x) -> (forall x, cached st' x <-> cached st x) ->
    disk st' = disk st -> dsize st' = dsize st -> csize st' = csize st ->
    (forall x, In x fl -> ~ ondisk st x -> gpar st x = (occ st fl x + u x + cnt x T)%nat ->
               gpar st' x = (occ st fl x + u' x + cnt x T')%nat) ->
    (forall r, (0 < u' r)%nat -> In r fl \/ ondisk st r) ->
    LInv fl dead T pend stamp u nxt st -> LInv fl dead T' pend stamp u' nxt st'.
  Proof.
    intros Hge Hca Hd Hds Hcs Hpar Hroots [A B C D E F G H I J K L M].
    assert (Hod : forall x, ondisk st' x <-> ondisk st x) by (intros x; unfold ondisk; rewrite Hd; tauto).
    assert (Htr : forall x, tracked st' x = tracked st x) by (intros x; unfold tracked; rewrite Hge; auto).
    assert (Hoc : forall l x, occ st' l x = occ st l x) by (intros; apply occ_ext; auto).
    assert (Hxc : forall x, xcost st' x = xcost st x) by (intros x; unfold xcost; rewrite Hge; auto).
    constructor.
    - intros h. rewrite Hca. auto.
    - exact B.
    - exact C.
    - exact D.
    - exact E.
    - intros x c. rewrite !Hod. apply F.
    - intros p c Hp. rewrite Htr, Hod. apply G; auto.
    - intros p s Hp Hs. rewrite Hod, Hge. apply H; auto.
    - intros p. rewrite Hge. apply I.
    - intros x Hx. rewrite Hod, Hoc. intros Hnd. apply Hpar; auto.
    - intros r Hr. rewrite Hod. apply Hroots; auto.
    - congruence.
    - rewrite Hcs, M. f_equal; apply sumZ_ext; intros; symmetry; apply Hxc.
  Qed.

  (* a node of the flush list whose count reached 0 dies: its references become tokens *)
  Lemma LInv_die fl dead T stamp u nxt st h :
    In h fl -> gpar st h = 0%nat ->
    LInv fl dead T [] stamp u nxt st ->
    LInv (rm h fl) (h :: dead) (tracked st h ++ T) [] stamp u nxt st.
  Proof.
    intros Hin Hp0 [A B C D E F G H I J K L M].
    assert (Hnd : NoDup fl) by (eapply ss_nodup; eauto).
    assert (Hz : ~ ondisk st h -> occ st fl h = 0%nat /\ u h = 0%nat).
    { intros Hn. specialize (J h Hin Hn). lia. }
    constructor.
    - intros x. rewrite A, rm_in. cbn. destruct (N.eq_dec x h) as [->|Hxh].
      + split; [intros _; right; left; reflexivity | intros _; left; exact Hin].
      + split; [intros [?|?]; [left; split; auto|right; right; auto]
               | intros [[? _]|[Ee|?]]; [left; auto|congruence|right; auto]].
    - intros d [<-|Hd]; rewrite rm_in; [tauto|]. intros [Hc _]. exact (B d Hd Hc).
    - constructor; auto. intros Hc. exact (B h Hc Hin).
    - apply ss_rm, D.
    - intros x Hx. apply rm_in in Hx as [Hx _]. auto.
    - exact F.
    - intros p c Hp Hc. apply rm_in in Hp as [Hp Hph].
      destruct (G p c Hp Hc) as [?|[Hcf Hs]]; [left; auto|].
      destruct (N.eq_dec c h) as [->|Hch]; [|right; split; auto; apply rm_in; auto].
      destruct (ondisk_dec st h) as [?|Hn]; [left; auto|].
      destruct (Hz Hn) as [Ho _]. pose proof (occ_in st fl p h Hp Hc). lia.
    - intros p s Hp Hs. apply rm_in in Hp as [Hp _].
      destruct (H p s Hp Hs) as [?|[?|([] & _)]]; auto.
    - exact I.
    - intros x Hx Hn. apply rm_in in Hx as [Hx Hxh]. rewrite (J x Hx Hn), (occ_rm st fl h x Hnd Hin), cnt_app. lia.
    - intros r Hr. destruct (K r Hr) as [Hf|?]; [|right; auto].
      destruct (N.eq_dec r h) as [->|Hrh]; [|left; apply rm_in; auto].
      destruct (ondisk_dec st h) as [?|Hn]; [right; auto|]. destruct (Hz Hn). lia.
    - rewrite L, (sumZ_rm cost h fl Hnd Hin). cbn [sumZ]. lia.
    - rewrite M, (sumZ_rm (xcost st) h fl Hnd Hin). cbn [sumZ]. lia.
  Qed.

  (* the dead node on top of the stack is deleted from the map *)
  Lemma LInv_drop fl dead T stamp u nxt st st' h :
    (forall x, getd st' x = if x =? h then None else getd st x) ->
    disk st' = disk st -> dsize st' = (dsize st - cost h)%Z -> csize st' = (csize st - xcost st h)%Z ->
    LInv fl (h :: dead) T [] stamp u nxt st -> LInv fl dead T [] stamp u nxt st'.
  Proof.
    intros Hg Hd Hds Hcs [A B C D E F G H I J K L M].
    assert (Hhf : ~ In h fl) by (apply B; left; auto).
    assert (Hhd : ~ In h dead) by (inversion C; auto).
    assert (Hge : forall x, x <> h -> gext st' x = gext st x).
    { intros x Hx. unfold gext. rewrite Hg. destruct (N.eqb_spec x h); [congruence|auto]. }
    assert (Hgp : forall x, x <> h -> gpar st' x = gpar st x).
    { intros x Hx. unfold gpar. rewrite Hg. destruct (N.eqb_spec x h); [congruence|auto]. }
    assert (Hgh : gext st' h = []) by (unfold gext; rewrite Hg, N.eqb_refl; auto).
    assert (Hod : forall x, ondisk st' x <-> ondisk st x) by (intros x; unfold ondisk; rewrite Hd; tauto).
    assert (Hne : forall x, In x fl -> x <> h) by (intros x Hx ->; auto).
    assert (Htr : forall x, In x fl -> tracked st' x = tracked st x) by (intros x Hx; unfold tracked; rewrite Hge; auto).
    assert (Hoc : forall x, occ st' fl x = occ st fl x) by (intros; apply occ_ext; intros; apply Hge; auto).
    constructor.
    - intros x. unfold cached. rewrite Hg. destruct (N.eqb_spec x h) as [->|Hx].
      + split; [congruence|tauto].
      + fold (cached st x). rewrite A. cbn. intuition congruence.
    - intros d Hd'. apply B. right; auto.
    - inversion C; auto.
    - exact D.
    - exact E.
    - intros x c. rewrite !Hod. apply F.
    - intros p c Hp. rewrite Htr, Hod by auto. apply G; auto.
    - intros p s Hp Hs. rewrite Hod, Hge by auto. apply H; auto.
    - intros p. destruct (N.eq_dec p h) as [->|Hp]; [rewrite Hgh; intros ? []|rewrite Hge; auto].
    - intros x Hx. rewrite Hod, Hoc, Hgp by auto. apply J; auto.
    - intros r Hr. rewrite Hod. apply K; auto.
    - rewrite Hds, L. cbn [sumZ]. lia.
    - rewrite Hcs, M. cbn [sumZ].
      rewrite (sumZ_ext (xcost st') (xcost st) fl), (sumZ_ext (xcost st') (xcost st) dead); [lia| |].
      + intros x Hx. unfold xcost. rewrite Hge; auto. intros ->; auto.
      + intros x Hx. unfold xcost. rewrite Hge; auto.
  Qed.

  (* a node that is on disk leaves the cache (cleaner.Put, Cap) *)
  Lemma LInv_rm_disk fl stamp u nxt st st' h :
    In h fl -> ondisk st h ->
    (forall x, getd st' x = if x =? h then None else getd st x) ->
    disk st' = disk st -> dsize st' = (dsize st - cost h)%Z -> csize st' = (csize st - xcost st h)%Z ->
    LInv fl [] [] [] stamp u nxt st -> LInv (rm h fl) [] [] [] stamp u nxt st'.
  Proof.
    intros Hin Hdk Hg Hd Hds Hcs [A B C D E F G H I J K L M].
    assert (Hnd : NoDup fl) by (eapply ss_nodup; eauto).
    assert (Hge : forall x, x <> h -> gext st' x = gext st x).
    { intros x Hx. unfold gext. rewrite Hg. destruct (N.eqb_spec x h); [congruence|auto]. }
    assert (Hgp : forall x, x <> h -> gpar st' x = gpar st x).
    { intros x Hx. unfold gpar. rewrite Hg. destruct (N.eqb_spec x h); [congruence|auto]. }
    assert (Hgh : gext st' h = []) by (unfold gext; rewrite Hg, N.eqb_refl; auto).
    assert (Hod : forall x, ondisk st' x <-> ondisk st x) by (intros x; unfold ondisk; rewrite Hd; tauto).
    assert (Htr : forall x, x <> h -> tracked st' x = tracked st x) by (intros x Hx; unfold tracked; rewrite Hge; auto).
    assert (Hoc : forall x, occ st' (rm h fl) x = occ st (rm h fl) x).
    { intros. apply occ_ext. intros p Hp. apply rm_in in Hp as [_ Hp]. auto. }
    assert (Hhd : forall c, In c (tracked st h) -> ondisk st c).
    { intros c Hc. apply (F h c Hdk). apply in_app_or in Hc as [Hc|Hc]; apply in_or_app; [right; apply (I h); auto|left; auto]. }
    constructor.
    - intros x. unfold cached. rewrite Hg, rm_in. destruct (N.eqb_spec x h) as [->|Hx].
      + split; [congruence|cbn; tauto].
      + fold (cached st x). rewrite A. cbn. tauto.
    - intros d [].
    - constructor.
    - apply ss_rm, D.
    - intros x Hx. apply rm_in in Hx as [Hx _]. auto.
    - intros x c. rewrite !Hod. apply F.
    - intros p c Hp. apply rm_in in Hp as [Hp Hph]. rewrite Htr, Hod by auto. intros Hc.
      destruct (G p c Hp Hc) as [?|[Hcf Hs]]; [left; auto|].
      destruct (N.eq_dec c h) as [->|Hch]; [left; auto|right; split; auto; apply rm_in; auto].
    - intros p s Hp Hs. apply rm_in in Hp as [Hp Hph]. rewrite Hod, Hge by auto.
      destruct (H p s Hp Hs) as [?|[?|([] & _)]]; auto.
    - intros p. destruct (N.eq_dec p h) as [->|Hp]; [rewrite Hgh; intros ? []|rewrite Hge; auto].
    - intros x Hx. apply rm_in in Hx as [Hx Hxh]. rewrite Hod, Hoc, Hgp by auto. intros Hn.
      rewrite (J x Hx Hn), (occ_rm st fl h x Hnd Hin).
      rewrite (cnt_0 x (tracked st h)); [lia|]. intros Hc. apply Hn, Hhd, Hc.
    - intros r Hr. rewrite Hod. destruct (K r Hr) as [Hf|?]; [|right; auto].
      destruct (N.eq_dec r h) as [->|Hrh]; [right; auto|left; apply rm_in; auto].
    - rewrite Hds, L, (sumZ_rm cost h fl Hnd Hin). cbn [sumZ]. lia.
    - rewrite Hcs, M, (sumZ_rm (xcost st) h fl Hnd Hin). cbn [sumZ].
      rewrite (sumZ_ext (xcost st') (xcost st) (rm h fl)); [lia|].
      intros x Hx. apply rm_in in Hx as [_ Hx]. unfold xcost. rewrite Hge; auto.
  Qed.

  (* -------------------------------------------------------------- concrete steps *)
  Lemma linked_setd_logic fl st x e e' :
    linked fl st -> getd st x = Some e -> e_prev e' = e_prev e -> e_next e' = e_next e ->
    linked fl (setd st x e').
  Proof.
    intros [A B C D E] He Hp Hn. constructor; auto.
    eapply chain_ext; [|exact E]. intros y _. rewrite pn_setd.
    destruct (N.eqb_spec y x) as [->|]; [|reflexivity]. unfold pn. rewrite He. congruence.
  Qed.

  Lemma linked_drop fl st h node :
    linked fl st -> ~ In h fl -> linked fl (drop_node nsize st h node).
  Proof.
    intros [A B C D E] Hh. constructor; auto.
    eapply chain_ext; [|exact E]. intros y Hy. unfold pn. rewrite getd_drop_node.
    destruct (N.eqb_spec y h); [congruence|reflexivity].
  Qed.

  (* acyclicity of the node graph: children and embedded storage roots have smaller rank
     (hash-linking under collision freedom) *)
  Variable rank : N -> nat.
  Hypothesis rank_dec : forall h c, In c (kids h ++ ext h) -> (rank c < rank h)%nat.

  Lemma deref_spec : forall f st h fl dead T stamp u nxt,
    GInv fl dead (h :: T) [] stamp u nxt st ->
    (forall d, In d dead -> (rank h < rank d)%nat) ->
    (length fl < f)%nat ->
    exists st' fl', dereference kids nsize f st h = Ok st' /\ GInv fl' dead T [] stamp u nxt st' /\
      (length fl' <= length fl)%nat /\ disk st' = disk st /\ (forall d, In d dead -> lget st' d = lget st d).
  Proof.
    induction f as [|f IHf]; intros st h fl dead T stamp u nxt [Hl HI] Hrank Hfuel; [lia|].
    (* the children loop, by the induction hypothesis on fuel *)
    assert (Hfold : forall cs st fl dead T,
      GInv fl dead (cs ++ T) [] stamp u nxt st ->
      (forall c d, In c cs -> In d dead -> (rank c < rank d)%nat) ->
      (length fl < f)%nat ->
      exists st' fl', fold_res (dereference kids nsize f) cs st = Ok st' /\ GInv fl' dead T [] stamp u nxt st' /\
        (length fl' <= length fl)%nat /\ disk st' = disk st /\ (forall d, In d dead -> lget st' d = lget st d)).
    { clear - IHf. induction cs as [|c cs IHcs]; intros st fl dead T HG Hr Hfu.
      - exists st, fl. cbn [fold_res]. split; [reflexivity|]. split; [exact HG|]. split; [lia|]. split; [reflexivity|]. reflexivity.
      - cbn [app] in HG. destruct (IHf st c fl dead (cs ++ T) stamp u nxt HG) as (st1 & fl1 & E1 & HG1 & Hlen1 & Hd1 & Hdead1); auto.
        { intros d Hd. apply Hr; [left|]; auto. }
        destruct (IHcs st1 fl1 dead T HG1) as (st2 & fl2 & E2 & HG2 & Hlen2 & Hd2 & Hdead2).
        { intros c' d Hc' Hd. apply Hr; [right|]; auto. }
        { lia. }
        exists st2, fl2. cbn [fold_res]. rewrite E1. split; [exact E2|]. split; [exact HG2|]. split; [lia|]. split; [congruence|].
        intros d Hd. rewrite Hdead2, Hdead1; auto. }
    cbn [dereference]. destruct (getd st h) as [node|] eqn:Hnode.
    2:{ (* not cached: a previously committed node *)
      exists st, fl. split; [reflexivity|]. split; [split; [exact Hl|]|split; [lia|split; reflexivity]].
      assert (Hnf : ~ In h fl).
      { intros Hc. assert (Hca : cached st h) by (apply (g_dom _ _ _ _ _ _ _ _ HI); auto). unfold cached in Hca. congruence. }
      eapply LInv_repar; [..|exact HI]; auto; try tauto.
      - intros x Hx _ ->. cbn [cnt]. destruct (N.eqb_spec x h) as [->|]; [tauto|lia].
      - apply (g_roots _ _ _ _ _ _ _ _ HI). }
    assert (Hin : In h fl).
    { assert (Hca : cached st h) by (unfold cached; congruence).
      apply (g_dom _ _ _ _ _ _ _ _ HI) in Hca as [?|Hd]; auto. specialize (Hrank h Hd). lia. }
    set (p := if 0 <? e_parents node then e_parents node - 1 else 0).
    set (e1 := set_parents node p).
    set (st1 := setd st h e1).
    assert (Hgp : gpar st h = N.to_nat (e_parents node)) by (unfold gpar; rewrite Hnode; auto).
    assert (Hge : gext st h = e_ext node) by (unfold gext; rewrite Hnode; auto).
    (* step A: the decrement releases the token *)
    assert (HG1 : GInv fl dead T [] stamp u nxt st1).
    { split; [eapply linked_setd_logic; eauto|].
      eapply LInv_repar; [..|exact HI]; auto.
      - intros x. unfold st1. rewrite gext_setd. destruct (N.eqb_spec x h) as [->|]; auto.
      - intros x. unfold st1. rewrite cached_setd. split; [intros [->|?]; auto; unfold cached; congruence|auto].
      - intros x Hx Hn Hex. unfold st1. rewrite gpar_setd. destruct (N.eqb_spec x h) as [->|Hxh].
        + rewrite Hgp in Hex. cbn [cnt] in Hex. rewrite N.eqb_refl in Hex. unfold e1, p. cbn [e_parents set_parents].
          destruct (N.ltb_spec 0 (e_parents node)); lia.
        + rewrite Hex. cbn [cnt]. destruct (N.eqb_spec x h); [congruence|lia].
      - apply (g_roots _ _ _ _ _ _ _ _ HI). }
    fold p. fold e1. fold st1.
    destruct (N.eqb_spec p 0) as [Hp0|Hp0].
    2:{ exists st1, fl. split; [reflexivity|]. split; [exact HG1|]. split; [lia|]. split; [reflexivity|].
        intros d Hd. unfold st1. rewrite lget_setd. destruct (N.eqb_spec d h) as [->|]; auto.
        specialize (Hrank h Hd). lia. }
    (* the node dies *)
    destruct HG1 as [Hl1 HI1].
    assert (Hg1 : getd st1 h = Some e1) by (unfold st1; rewrite getd_setd, N.eqb_refl; auto).
    destruct (unlink_linked fl st1 h node e1 Hl1 Hin Hg1 eq_refl eq_refl) as (st2 & Eu & Hl2 & Hsame & Hh2).
    rewrite Eu. cbn [bind].
    assert (Hgp1 : gpar st1 h = 0%nat).
    { unfold gpar. rewrite Hg1. unfold e1. cbn [e_parents set_parents]. lia. }
    assert (Htr1 : tracked st1 h = e_ext node ++ kids h).
    { unfold tracked, gext. rewrite Hg1. reflexivity. }
    assert (HI2 : LInv (rm h fl) (h :: dead) ((e_ext node ++ kids h) ++ T) [] stamp u nxt st2).
    { eapply LInv_same; [exact Hsame|]. rewrite <- Htr1. apply LInv_die; auto. }
    assert (Hlen : (length (rm h fl) < f)%nat) by (pose proof (rm_length h fl Hin); lia).
    destruct (Hfold (e_ext node ++ kids h) st2 (rm h fl) (h :: dead) T (conj Hl2 HI2)) as (st3 & fl3 & E3 & [Hl3 HI3] & Hlen3 & Hd3 & Hdead3); auto.
    { intros c d Hc [<-|Hd].
      - apply rank_dec. apply in_app_or in Hc as [Hc|Hc]; apply in_or_app; [right|left; auto].
        apply (g_extsub _ _ _ _ _ _ _ _ HI h). rewrite Hge. auto.
      - specialize (Hrank d Hd). assert (rank c < rank h)%nat; [|lia].
        apply rank_dec. apply in_app_or in Hc as [Hc|Hc]; apply in_or_app; [right|left; auto].
        apply (g_extsub _ _ _ _ _ _ _ _ HI h). rewrite Hge. auto. }
    rewrite E3. cbn [bind].
    assert (Hl3h : lget st3 h = Some (lg e1)).
    { rewrite Hdead3 by (left; auto). destruct Hsame as (Hs & _). rewrite Hs. unfold lget. rewrite Hg1. auto. }
    assert (Hge3 : gext st3 h = e_ext node).
    { unfold gext. unfold lget in Hl3h. destruct (getd st3 h) as [e3|]; [|discriminate].
      assert (E : lg e3 = lg e1) by congruence. unfold lg in E.
      assert (E' : e_ext e3 = e_ext e1) by congruence. rewrite E'. reflexivity. }
    exists (drop_node nsize st3 h node), fl3. split; [reflexivity|].
    assert (Hhf3 : ~ In h fl3) by (apply (g_dead _ _ _ _ _ _ _ _ HI3); left; auto).
    split; [split; [apply linked_drop; auto|]|].
    - eapply LInv_drop; [..|exact HI3].
      + intros x. apply getd_drop_node.
      + reflexivity.
      + reflexivity.
      + unfold drop_node, xcost. cbn [csize with_sizes deld with_dirties]. rewrite Hge3. reflexivity.
    - split; [pose proof (rm_length_le h fl); lia|]. split.
      + cbn [disk drop_node with_sizes deld with_dirties]. rewrite Hd3. destruct Hsame as (_ & Hdk & _). rewrite Hdk. reflexivity.
      + intros d Hd. unfold lget. rewrite getd_drop_node.
        destruct (N.eqb_spec d h) as [->|Hdh]; [specialize (Hrank h Hd); lia|].
        fold (lget st3 d). rewrite Hdead3 by (right; auto). destruct Hsame as (Hs & _). rewrite Hs.
        unfold st1. rewrite lget_setd. destruct (N.eqb_spec d h); [congruence|reflexivity].
  Qed.
End Inv.
