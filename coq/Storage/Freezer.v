(* Storage/Freezer.v — executable model of the cross-table layer of the freezer
   (/repo/core/rawdb/freezer.go: ModifyAncients, TruncateHead, TruncateTail (sync first),
   SyncAncient, NewFreezer = newTable for every table + Freezer.repair), on top of the
   table model Storage/FreezerTable.v.  All tables are raw (noSnappy) and belong to one tail
   group, as in the harness stream of kind 9.  No proofs here.

   Not modelled: read-only mode / validate(), non-prunable tables (tailGroup ""), the
   roll-back of ModifyAncients after a failed write (tables are aligned in every history
   the harness generates, so AppendRaw never fails), the iteration order of Go's table map
   (tables are independent; the order only matters after an error, which ends the case). *)
From Coq Require Import List NArith ZArith Bool.
From GV Require Import Storage.FreezerTable.
Import ListNotations.
Local Open Scope N_scope.

Record freezer := mkFz { fz_tables : list table; fz_head : N; fz_tail : N }.

Fixpoint map_res {A B} (f : A -> res B) (l : list A) : res (list B) :=
  match l with
  | [] => Ok []
  | x :: r => do y <- f x; do r' <- map_res f r; Ok (y :: r')
  end.

Definition raw (x : list N) : list N := x.
Definition raw_decode (x : list N) : option (list N) := Some x.

Section Fz.
Variable maxsz : N.
Variable clamp : bool.

(* ---------- Freezer.repair (freezer.go) ---------- *)
Definition min_head (ts : list table) : N :=
  match filter (fun t => negb (t_items t =? 0)) ts with
  | [] => 0
  | t :: r => fold_left (fun m t' => N.min m (t_items t')) r (t_items t)
  end.
Definition max_tail (ts : list table) : N := fold_left (fun m t => N.max m (t_hidden t)) ts 0.

Definition fz_repair (ts : list table) : res freezer :=
  let head := min_head ts in
  (* align freshly added (empty) tables to the common head *)
  do ts1 <- (if 0 <? head
             then map_res (fun t => if t_items t =? 0 then truncate_tail t head else Ok t) ts
             else Ok ts);
  (* truncate every table to the common head *)
  do ts2 <- map_res (fun t => truncate_head t head) ts1;
  (* the maximum tail of the group wins *)
  let tail := max_tail ts2 in
  do ts3 <- map_res (fun t => truncate_tail t tail) ts2;
  Ok (mkFz ts3 head tail).

(* NewFreezer on a directory: newTable (with its repair) for every table, then Freezer.repair *)
Definition fz_open (disks : list (file * list (N * file) * option meta)) : res freezer :=
  do ts <- map_res (fun d => open_table clamp (fst (fst d)) (snd (fst d)) (snd d)) disks;
  fz_repair ts.

(* ---------- operations ---------- *)
(* the item the harness appends to table k at position i *)
Definition fz_blob (k : nat) (i : N) (size : nat) : list N :=
  map (fun j => (i * 7 + N.of_nat k * 31 + N.of_nat j) mod 256) (seq 0 size).

Fixpoint blobs_from (k : nat) (i : N) (n : nat) (size : nat) : list (list N) :=
  match n with
  | O => []
  | S n' => fz_blob k i size :: blobs_from k (i + 1) n' size
  end.

Fixpoint append_each (k : nat) (ts : list table) (head : N) (n : nat) (sizes : list nat) : res (list table) :=
  match ts with
  | [] => Ok []
  | t :: r =>
      if negb (t_items t =? head) then Err E_MODEL else
      let size := nth (k mod (length sizes)) sizes O in
      do t' <- op_append maxsz raw t (blobs_from k head n size);
      do r' <- append_each (S k) r head n sizes;
      Ok (t' :: r')
  end.

(* ModifyAncients appending n items to every table *)
Definition fz_append (f : freezer) (n : nat) (sizes : list nat) : res freezer :=
  do ts <- append_each 0 (fz_tables f) (fz_head f) n sizes;
  Ok (mkFz ts (fz_head f + N.of_nat n) (fz_tail f)).

(* SyncAncient *)
Definition fz_sync (f : freezer) : res freezer :=
  do ts <- map_res do_sync (fz_tables f);
  Ok (mkFz ts (fz_head f) (fz_tail f)).

(* Freezer.TruncateHead *)
Definition fz_trunc_head (f : freezer) (n : N) : res freezer :=
  if fz_head f <=? n then Ok f else
  do ts <- map_res (fun t => truncate_head t n) (fz_tables f);
  Ok (mkFz ts n (fz_tail f)).

(* Freezer.TruncateTail: flush every table, then persist the tail in every table *)
Definition fz_trunc_tail (f : freezer) (n : N) : res freezer :=
  if n <=? fz_tail f then Ok f else
  do ts1 <- map_res do_sync (fz_tables f);
  do ts2 <- map_res (fun t => truncate_tail t n) ts1;
  Ok (mkFz ts2 (if fz_head f <? n then n else fz_head f) n).

Inductive fop := FAppend (n : nat) (sizes : list nat) | FTruncHead (n : N) | FTruncTail (n : N) | FSync.

Definition fz_step (f : freezer) (o : fop) : res freezer :=
  match o with
  | FAppend n sizes => fz_append f n sizes
  | FTruncHead n => fz_trunc_head f n
  | FTruncTail n => fz_trunc_tail f n
  | FSync => fz_sync f
  end.

(* the harness ignores the error of an operation; an error of this model inside a history
   would make the prediction unreliable, so it is recorded *)
Fixpoint fz_run (f : freezer) (snap : list table) (h : list fop) : freezer * list table * list N :=
  match h with
  | [] => (f, snap, [])
  | o :: r =>
      match fz_step f o with
      | Ok f' =>
          let snap' := match o with FSync => fz_tables f' | _ => snap end in
          let '(ff, s, cs) := fz_run f' snap' r in (ff, s, 0 :: cs)
      | Err c => let '(ff, s, cs) := fz_run f snap r in (ff, s, c :: cs)
      end
  end.

(* ---------- crash states of the harness ---------- *)
Fixpoint is_prefix (a b : list N) : bool :=
  match a, b with
  | [], _ => true
  | x :: a', y :: b' => (x =? y) && is_prefix a' b'
  | _ :: _, [] => false
  end.

(* the table's state at the last SyncAncient is still a possible crash state: its flush offset has
   not moved and every file of then is a prefix of the file of now *)
Definition snap_possible (s c : table) : bool :=
  (mflush (t_mcur s) =? mflush (t_mcur c))
  && is_prefix (fbytes (t_index s)) (fbytes (t_index c))
  && forallb (fun kf => match dget (fst kf) (t_data c) with
                        | Some g => is_prefix (fbytes (snd kf)) (fbytes g)
                        | None => false
                        end) (t_data s).

Definition whole (f : file) : file := f_synced (fbytes f).
Definition disk_of (t : table) (m : meta) : file * list (N * file) * option meta :=
  (whole (t_index t), map (fun kf => (fst kf, whole (snd kf))) (t_data t), Some m).

(* selector 0: as on disk; 1: as at the last SyncAncient; 2: files of then, metadata of now *)
Definition crash_table (sel : N) (s c : table) : file * list (N * file) * option meta :=
  if negb (sel =? 0) && snap_possible s c
  then disk_of s (if sel =? 2 then t_mcur c else t_mcur s)
  else disk_of c (t_mcur c).

Fixpoint crash_tables (k : nat) (sels : list N) (ss cs : list table) : list (file * list (N * file) * option meta) :=
  match ss, cs with
  | s :: ss', c :: cs' => crash_table (nth (k mod (length sels)) sels 0) s c :: crash_tables (S k) sels ss' cs'
  | _, _ => []
  end.

End Fz.
