(* Storage/FreezerCompose.v — the table-level crash theorem composed with Freezer.repair:
   NewFreezer on the crash states of several tables succeeds and aligns them. *)
From GV Require Import Lib.Tactics Storage.FreezerTable Storage.FreezerTableProofs Storage.FreezerTableInv Storage.Freezer Storage.FreezerProofs Storage.FreezerSuccess Storage.FreezerTableData.
Local Open Scope N_scope.

(* a table together with one of its crash states *)
Record crashed := mkCr { cr_t : table; cr_ci : nat * nat; cr_cd : N -> nat * nat; cr_cm : bool }.

Definition cr_disk (c : crashed) : file * list (N * file) * option meta :=
  (crash_file (t_index (cr_t c)) (fst (cr_ci c)) (snd (cr_ci c)),
   map (fun kf => (fst kf, crash_file (snd kf) (fst (cr_cd c (fst kf))) (snd (cr_cd c (fst kf))))) (t_data (cr_t c)),
   Some (if cr_cm c then t_mcur (cr_t c) else t_msyn (cr_t c))).

(* the head the table recovers: the items below the flush offset *)
Definition dur_head (t : table) : N := t_offset t + N.of_nat (length (synced_of t)).
(* the tail it recovers from the chosen metadata record, clamped *)
Definition rec_tail (c : crashed) : N :=
  let t := cr_t c in
  N.min (N.max (mvtail (if cr_cm c then t_mcur t else t_msyn t)) (t_offset t)) (dur_head t).

Lemma map_res_forall2_ok {A B} (f : A -> res B) (R : A -> B -> Prop) l :
  (forall x, In x l -> exists y, f x = Ok y /\ R x y) ->
  exists l', map_res f l = Ok l' /\ Forall2 R l l'.
Proof.
  induction l as [|x l IH]; intros H; [exists []; split; [reflexivity|constructor]|].
  destruct (H x (or_introl eq_refl)) as [y [Hy Ry]].
  destruct IH as [l' [Hl' F']]; [intros z Hz; apply H; right; exact Hz|].
  exists (y :: l'). cbn [map_res]. rewrite Hy, Hl'. split; [reflexivity|constructor; assumption].
Qed.

Lemma Forall2_in_r {A B} (R : A -> B -> Prop) l l' y :
  Forall2 R l l' -> In y l' -> exists x, In x l /\ R x y.
Proof.
  induction 1 as [|a b l l' HR H IH]; intros Hy; [destruct Hy|].
  destruct Hy as [<-|Hy]; [exists a; split; [left; reflexivity|exact HR]|].
  destruct (IH Hy) as [x [Hx Rx]]. exists x. split; [right; exact Hx|exact Rx].
Qed.

Lemma Forall2_in_l {A B} (R : A -> B -> Prop) l l' x :
  Forall2 R l l' -> In x l -> exists y, In y l' /\ R x y.
Proof.
  induction 1 as [|a b l l' HR H IH]; intros Hx; [destruct Hx|].
  destruct Hx as [<-|Hx]; [exists b; split; [left; reflexivity|exact HR]|].
  destruct (IH Hx) as [y [Hy Ry]]. exists y. split; [right; exact Hy|exact Ry].
Qed.

Lemma map_res_map {A B C} (f : B -> res C) (g : A -> B) l :
  map_res f (map g l) = map_res (fun x => f (g x)) l.
Proof. induction l as [|x l IH]; [reflexivity|]. cbn [map map_res]. rewrite IH. reflexivity. Qed.

Lemma min_head_ge_nonempty ts s :
  (exists t, In t ts /\ t_items t <> 0) ->
  (forall t, In t ts -> t_items t <> 0 -> s <= t_items t) -> s <= min_head ts.
Proof.
  intros [t0 [H0 N0]] Hall. unfold min_head.
  destruct (filter (fun t => negb (t_items t =? 0)) ts) as [|a r] eqn:E.
  - assert (In t0 (filter (fun t => negb (t_items t =? 0)) ts)).
    { apply filter_In. split; [exact H0|]. apply negb_true_iff, N.eqb_neq. exact N0. }
    rewrite E in H. destruct H.
  - destruct (fold_min_spec t_items r (t_items a)) as (_ & _ & I3).
    assert (Hin : forall t, In t (a :: r) -> In t ts /\ t_items t <> 0).
    { intros t Ht. rewrite <- E in Ht. apply filter_In in Ht. destruct Ht as [H1 H2].
      apply negb_true_iff, N.eqb_neq in H2. split; assumption. }
    apply I3.
    + destruct (Hin a (or_introl eq_refl)). apply Hall; assumption.
    + intros t Ht. destruct (Hin t (or_intror Ht)). apply Hall; assumption.
Qed.

(* NEWFREEZER AFTER A CRASH.  Tables satisfying the full invariant, any crash state of each of them
   (every cut, every zero fill, either metadata record), room for two more data files per table, and
   the cross-table condition that Freezer.TruncateTail's sync-first order maintains — no table recovers
   a tail above the head another table recovers, unless it recovers the empty range at its tail.  Then
   NewFreezer succeeds, every table ends at exactly [Tail, Ancients), Ancients is the minimum of the
   heads recovered by the non-empty tables, and a range recovered by every table is kept. *)
Theorem fz_open_crash_ok maxsz (cs : list crashed) :
  (forall c, In c cs -> DInv maxsz (cr_t c) /\ cut_ok (cr_t c) (cr_ci c) (cr_cd c) /\ t_head (cr_t c) + 2 < 65536) ->
  (forall c, In c cs -> dur_head (cr_t c) <> 0 ->
     (forall c', In c' cs -> dur_head (cr_t c') <> 0 -> rec_tail c <= dur_head (cr_t c')) \/ dur_head (cr_t c) = rec_tail c) ->
  exists f, fz_open true (map cr_disk cs) = Ok f /\
    length (fz_tables f) = length cs /\
    Forall (fun t' => t_items t' = fz_head f /\ t_hidden t' = fz_tail f) (fz_tables f) /\
    fz_tail f <= fz_head f /\
    (forall c, In c cs -> dur_head (cr_t c) <> 0 -> fz_head f <= dur_head (cr_t c)) /\
    (forall s h, cs <> [] -> h < s -> (forall c, In c cs -> s <= dur_head (cr_t c) /\ rec_tail c <= h) ->
                 s <= fz_head f /\ fz_tail f <= h).
Proof.
  intros HC HG. unfold fz_open. rewrite map_res_map.
  destruct (map_res_forall2_ok
              (fun c => open_table true (fst (fst (cr_disk c))) (snd (fst (cr_disk c))) (snd (cr_disk c)))
              (fun c t' => DInv maxsz t' /\ t_items t' = dur_head (cr_t c) /\ t_hidden t' = rec_tail c /\ t_head t' <= t_head (cr_t c))
              cs) as (ts & E & F2).
  { intros c Hc. destruct (HC c Hc) as (HD & Hcut & Hh).
    destruct (open_crash_ok maxsz (cr_t c) (cr_ci c) (cr_cd c) (cr_cm c) HD Hcut) as (t' & Eo & D' & O1 & O2 & O3 & O4 & O5 & O6 & _).
    exists t'. split; [exact Eo|]. split; [exact D'|]. split; [exact O3|]. split.
    - unfold rec_tail. cbv zeta. rewrite O4, O3. reflexivity.
    - rewrite O6. destruct (synced_facts maxsz (cr_t c) (proj1 HD)) as (_ & _ & _ & _ & _ & _ & _ & Hl & _). exact Hl. }
  rewrite E.
  assert (HTW : Forall (TW maxsz) ts).
  { rewrite Forall_forall. intros t' Ht'. destruct (Forall2_in_r _ _ _ _ F2 Ht') as (c & Hc & D' & _ & _ & Hh).
    destruct (HC c Hc) as (_ & _ & Hb). destruct D' as (HI & _ & _ & _ & [hf [Hf _]] & _ & _ & HO & _).
    split; [exact HI|]. split; [split; [exact HO|exists hf; exact Hf]|lia]. }
  assert (Hwf : Forall (fun t => t_hidden t <= t_items t) ts).
  { rewrite Forall_forall in *. intros t' Ht'. destruct (HTW t' Ht') as (HI & _). exact (proj2 (inv_counters _ _ HI)). }
  assert (Hguard : forall t, In t ts -> t_items t <> 0 -> t_hidden t <= min_head ts \/ t_items t = t_hidden t).
  { intros t' Ht' Hne. destruct (Forall2_in_r _ _ _ _ F2 Ht') as (c & Hc & _ & Hit & Hhd & _).
    rewrite Hit in Hne. destruct (HG c Hc Hne) as [G|G]; [left|right; congruence].
    rewrite Hhd. apply min_head_ge_nonempty.
    - exists t'. split; [exact Ht'|congruence].
    - intros t2 Ht2 Hne2. destruct (Forall2_in_r _ _ _ _ F2 Ht2) as (c2 & Hc2 & _ & Hit2 & _).
      rewrite Hit2 in *. apply G; assumption. }
  destruct (fz_repair_ok maxsz ts HTW Hguard) as [f Ef]. exists f. split; [exact Ef|].
  destruct (fz_repair_aligned ts f Hwf Ef) as (L1 & L2 & L3 & L4 & L5).
  split; [rewrite L1; apply (Forall2_length' _ _ _ F2)|]. split; [exact L2|]. split; [exact L3|]. split.
  - intros c Hc Hne. destruct (Forall2_in_l _ _ _ _ F2 Hc) as (t' & Ht' & _ & Hit & _).
    rewrite <- Hit in *. apply L5; assumption.
  - intros s h Hne Hhs Hall. apply (fz_repair_keeps_synced ts f s h); try assumption.
    + intros Z. destruct cs; [congruence|]. rewrite Z in F2. inversion F2.
    + intros t' Ht'. destruct (Forall2_in_r _ _ _ _ F2 Ht') as (c & Hc & _ & Hit & Hhd & _).
      rewrite Hit, Hhd. apply Hall. exact Hc.
Qed.
