(* Storage/Table.v — model of the rawdb.table prefix wrapper (/repo/core/rawdb/table.go)
   over the store of Storage/KV.v.  Executable; no proofs here.

   A *view* of a store is either the store itself ([None]) or
   rawdb.NewTable(store, p) ([Some p]).  NewTable(NewTable(s, p1), p2) behaves as
   NewTable(s, p1 ++ p2) method by method (prefixes concatenate, the nil-end marker is
   appended innermost), so one level is modelled. *)
From Coq Require Import List NArith Bool.
From GV Require Import Storage.KV.
Import ListNotations.
Local Open Scope N_scope.

Definition view := option key.

(* ethdb.MaximumKey = bytes.Repeat([]byte{0xff}, 32)  (ethdb/database.go:35) *)
Definition maxkey : key := repeat 255 32.

(* append([]byte(t.prefix), key...)  — table.Has/Get/Put/Delete, tableBatch.Put/Delete *)
Definition vkey (v : view) (k : key) : key :=
  match v with None => k | Some p => p ++ k end.

Definition onil (o : option key) : key := match o with None => [] | Some k => k end.

(* what a write through the view does to the underlying store:
   table.Put / table.Delete / table.DeleteRange (table.go:123-141) and the tableBatch
   twins (table.go:222-239).  DeleteRange: `if end == nil { end = ethdb.MaximumKey }`,
   then both bounds get the prefix (start nil -> just the prefix). *)
Definition vbop (v : view) (o : bop) : bop :=
  match v with
  | None => o
  | Some p =>
      match o with
      | BPut k x => BPut (p ++ k) x
      | BDel k => BDel (p ++ k)
      | BDelRange s e =>
          BDelRange (Some (p ++ onil s))
                    (Some (p ++ match e with None => maxkey | Some e' => e' end))
      end
  end.

(* tableIterator.Key: key[len(prefix):]   (table.go:307-313) *)
Definition vstrip (v : view) (k : key) : key :=
  match v with None => k | Some p => strip p k end.

(* table.NewIterator (table.go:146-153): db.NewIterator(t.prefix ++ prefix, start) *)
Definition viter_items (v : view) (prefix start : key) (m : kv) : kv :=
  iter_items (vkey v prefix) start m.

(* tableReplayer (table.go:265-290): Put/Delete/DeleteRange trim the prefix
   (`key[len(r.prefix):]`) and forward to the writer.  A range entry of a table batch
   always carries two non-nil prefixed bounds (see [vbop]); a nil bound under a
   non-empty prefix would make the Go slice expression panic, which is reported here as
   [None] (unreachable: Storage/KVProofs.v shows every queued entry has the prefix). *)
Definition unview (bv : view) (o : bop) : option bop :=
  match bv with
  | None => Some o
  | Some p =>
      match o with
      | BPut k x => Some (BPut (strip p k) x)
      | BDel k => Some (BDel (strip p k))
      | BDelRange (Some s) (Some e) => Some (BDelRange (Some (strip p s)) (Some (strip p e)))
      | BDelRange _ _ => None
      end
  end.

(* batch.Replay(w) for a batch created through view [bv] onto the writer "view [tv] of
   the store": entries are replayed in order (memorydb.go:317-341 through the
   tableReplayer when bv is a table); [false] = stopped with an error, the earlier
   entries having been applied. *)
Fixpoint replay_view (bv tv : view) (ops : list bop) (m : kv) : kv * bool :=
  match ops with
  | [] => (m, true)
  | o :: r =>
      match unview bv o with
      | None => (m, false)
      | Some o' => replay_view bv tv r (apply (vbop tv o') m)
      end
  end.

(* ---- abstraction used by the refinement theorem ---- *)
(* the store a table with prefix p stands for: keys with the prefix, prefix stripped *)
Definition stripfst (p : key) (kx : key * value) : key * value := (strip p (fst kx), snd kx).
Definition view_kv (p : key) (m : kv) : kv := map (stripfst p) (kfilter (is_prefix p) m).
(* the part of the store the table must never touch *)
Definition outside (p : key) (m : kv) : kv := kfilter (fun k => negb (is_prefix p k)) m.
(* every key below ethdb.MaximumKey (the guard under which a nil range end is "after all keys") *)
Definition small_kv (m : kv) : Prop := Forall (fun kx => blt (fst kx) maxkey = true) m.
Definition small_bop (o : bop) : Prop :=
  match o with BPut k _ => blt k maxkey = true | _ => True end.
