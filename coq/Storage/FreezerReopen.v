(* Storage/FreezerReopen.v — NewFreezer after a crash re-establishes the freezer invariant, so freezer
   histories may contain crashes (repeatedly). *)
From GV Require Import Lib.Tactics Storage.FreezerTable Storage.FreezerTableProofs Storage.FreezerTableInv Storage.Freezer Storage.FreezerProofs Storage.FreezerSuccess Storage.FreezerTableData Storage.FreezerCompose Storage.FreezerTableOps Storage.FreezerHist Storage.FreezerCross.
Local Open Scope N_scope.

Ltac inv_destruct H :=
  destruct H as (rest & Hb & Hwf & Ht & Ho & Hv & Hi & Hi32 & Hh & Hhb & Hhm & Hsm & Hm6 & H6 & Hfd & Hfw
                 & Hms & Hv1 & Hv2 & Hoh & Hhi).

(* the head file never moves up by more than one file *)
Lemma head_reset_to t n t' : t_head t + 1 < 65536 -> reset_to t n = Ok t' -> t_head t' = t_head t + 1.
Proof.
  intros Hh E. pose proof (reset_to_core _ _ _ E) as C. cbv zeta in C. unfold core in C. injection C as P1 P2 P3 P4 P5 P6 P7 P8 P9.
  rewrite P4. apply N.mod_small. unfold two32. lia.
Qed.

Lemma head_truncate_tail t n t' :
  t_head t + 1 < 65536 -> truncate_tail t n = Ok t' -> t_head t' <= t_head t + 1.
Proof.
  intros Hh E. unfold truncate_tail in E. cbv zeta in E.
  destruct (N.leb_spec n (t_hidden t)); [inversion E; subst; lia|].
  destruct (N.ltb_spec (t_items t) n); [rewrite (head_reset_to _ _ _ Hh E); lia|].
  match type of E with (match ?X with _ => _ end) = _ => destruct X as [newtail|] eqn:EN end; [|discriminate].
  set (T2 := set_vtail (w_counters t (t_items t) (t_offset t) n (t_head t) (t_tail t) (t_headbytes t)) n false) in E.
  change (t_tail T2) with (t_tail t) in E.
  destruct (t_tail t =? newtail); [inversion E; subst; cbn; lia|].
  destruct (newtail <? t_tail t); [discriminate|].
  destruct (do_sync T2) as [t3|] eqn:ES; [|discriminate].
  pose proof (do_sync_core _ _ ES) as C3. unfold core in C3. injection C3 as P1 P2 P3 P4 P5 P6 P7 P8 P9.
  destruct (tail_scan _ _ _ _ _ _); [|discriminate].
  destruct (_ <=? _); [discriminate|]. inversion E; subst t'; clear E.
  unfold set_flush, meta_write, release_before, release_where. cbn [w_meta w_data w_open w_counters t_head].
  rewrite P4. cbn. lia.
Qed.

Section Reopen.
Variable maxsz : N.

(* a table whose flush offset covers all its items (as right after newTable), with the tail invariant *)
Definition PZ (t : table) : Prop := DInv maxsz t /\ XInv t /\ t_items t <= dh t.

Lemma pz_truncate_head t n t' :
  PZ t -> n < two32 -> t_head t + 1 < 65536 -> truncate_head t n = Ok t' -> PZ t' /\ t_head t' <= t_head t + 1.
Proof.
  intros (HD & HX & HZ) Hn Hh E. destruct (dinv_truncate_head_hd maxsz t n t' HD Hn Hh E) as (HD' & Hb & _).
  split; [|exact Hb]. split; [exact HD'|]. split; [eapply (xinv_truncate_head maxsz); [exact (proj1 HD)|exact HX|exact E]|].
  pose proof (dh_truncate_head maxsz t n t' (proj1 HD) E) as Dm.
  destruct (truncate_head_spec _ _ _ E) as [[L ->]|[(L1 & L2 & L3 & L4 & L5)|(L1 & L2 & L4 & L5)]]; lia.
Qed.

Lemma pz_truncate_tail t n t' :
  PZ t -> n < two32 -> t_head t + 1 < 65536 -> truncate_tail t n = Ok t' -> PZ t' /\ t_head t' <= t_head t + 1.
Proof.
  intros (HD & HX & HZ) Hn Hh E. split; [|eapply head_truncate_tail; eauto].
  assert (Hcov : n <= dh t \/ t_items t < n) by lia.
  destruct (xinv_truncate_tail maxsz t n t' (proj1 HD) HX Hn Hcov E) as [HX' Dm].
  split; [eapply dinv_truncate_tail; eauto|]. split; [exact HX'|].
  destruct (truncate_tail_spec _ _ _ E) as [[L ->]|[(L1 & L2 & L4 & L5)|(L1 & L2 & L4 & L5)]]; [exact HZ| |lia].
  destruct HX' as (_ & _ & X3). lia.
Qed.

(* Freezer.repair keeps PZ for every table *)
Lemma fz_repair_pz ts f :
  Forall (fun t => PZ t /\ t_head t + 3 < 65536) ts -> fz_repair ts = Ok f -> Forall PZ (fz_tables f).
Proof.
  intros HP E. destruct (fz_repair_passes _ _ E) as (ts1 & ts2 & F1 & F2 & F3 & Hh & Ht).
  set (head := min_head ts) in *.
  assert (Hsmall : head < two32).
  { apply (min_head_small maxsz). rewrite Forall_forall in *. intros t Ht0. destruct (HP t Ht0) as [(HD & _) _]. exact (proj1 HD). }
  rewrite Forall_forall in HP.
  assert (A1 : Forall (fun t1 => PZ t1 /\ t_head t1 + 2 < 65536) ts1).
  { eapply Forall2_right; [exact F1|]. intros t t1 Hin R. cbv beta in R. destruct (HP t Hin) as [HPZ Hb].
    destruct ((0 <? head) && (t_items t =? 0)).
    - destruct (pz_truncate_tail t head t1 HPZ Hsmall ltac:(lia) R). split; [assumption|lia].
    - inversion R; subst. split; [assumption|lia]. }
  assert (A2 : Forall (fun t2 => PZ t2 /\ t_head t2 + 1 < 65536) ts2).
  { rewrite Forall_forall in A1. eapply Forall2_right; [exact F2|]. intros t1 t2 Hin R. cbv beta in R.
    destruct (A1 t1 Hin) as [HPZ Hb]. destruct (pz_truncate_head t1 head t2 HPZ Hsmall ltac:(lia) R) as [P2 B2].
    split; [exact P2|lia]. }
  assert (HT : max_tail ts2 < two32).
  { unfold max_tail. destruct (fold_max_spec t_hidden ts2 0) as (_ & _ & I3).
    assert (fold_left (fun m t => N.max m (t_hidden t)) ts2 0 <= two32 - 1); [|unfold two32 in *; lia].
    apply I3; [unfold two32; lia|]. rewrite Forall_forall in A2. intros t2 H2. destruct (A2 t2 H2) as [((HD & _) & _) _].
    destruct (inv_counters _ _ HD). unfold two32 in *. lia. }
  rewrite Forall_forall in A2. eapply Forall2_right; [exact F3|]. intros t2 t3 Hin R. cbv beta in R.
  destruct (A2 t2 Hin) as [HPZ Hb]. exact (proj1 (pz_truncate_tail t2 _ t3 HPZ HT Hb R)).
Qed.

(* a reopened table: full invariant, tail invariant, flush offset covers all items *)
Lemma pz_reopen t ci cd (cm : bool) t' :
  DInv maxsz t -> cut_ok t ci cd -> crash_reopen true t ci cd cm = Ok t' ->
  PZ t' /\ t_head t' <= t_head t /\ t_items t' = dur_head t /\
  t_hidden t' = N.min (N.max (mvtail (if cm then t_mcur t else t_msyn t)) (t_offset t)) (dur_head t).
Proof.
  intros HD Hcut E.
  destruct (open_crash_ok maxsz t ci cd cm HD Hcut) as (t'' & E' & HD' & O1 & O2 & O3 & O4 & O5 & O6 & _ & M1 & M2 & M3 & _).
  rewrite E in E'. inversion E'; subst t''; clear E'.
  pose proof (proj1 HD) as HI.
  assert (Hdh : dh t' = dh t) by (unfold dh; rewrite O1, M3; reflexivity).
  assert (Hit : t_items t' = dh t') by (rewrite Hdh, <- (dur_head_dh maxsz t HI); exact O3).
  destruct (inv_counters _ _ (proj1 HD')) as [_ Hle].
  split; [split; [exact HD'|split; [|lia]]|].
  - unfold XInv. rewrite M1, M2. repeat split; lia.
  - split; [|split; [exact O3|rewrite O4, O3; reflexivity]].
    rewrite O6. destruct (synced_facts maxsz t HI) as (_ & _ & _ & _ & _ & _ & _ & Hl & _). exact Hl.
Qed.

(* NEWFREEZER AFTER A CRASH RE-ESTABLISHES THE FREEZER INVARIANT *)
Theorem fx_reopen (cs : list crashed) :
  (exists I H, forall c, In c cs -> TX maxsz I H (cr_t c)) ->
  (forall c, In c cs -> cut_ok (cr_t c) (cr_ci c) (cr_cd c) /\ t_head (cr_t c) + 3 < 65536) ->
  exists f', fz_open true (map cr_disk cs) = Ok f' /\ FXInv maxsz f' /\
    length (fz_tables f') = length cs /\
    Forall (fun t' => t_items t' = fz_head f' /\ t_hidden t' = fz_tail f') (fz_tables f') /\
    fz_tail f' <= fz_head f' /\
    (forall c, In c cs -> dur_head (cr_t c) <> 0 -> fz_head f' <= dur_head (cr_t c)) /\
    (forall s hh, cs <> [] -> hh < s -> (forall c, In c cs -> s <= dur_head (cr_t c) /\ rec_tail c <= hh) ->
                 s <= fz_head f' /\ fz_tail f' <= hh).
Proof.
  intros (I & H & HTc) Hcut.
  destruct (fz_open_crash_ok maxsz cs) as (f' & Ef & L1 & L2 & L3 & L4 & L5).
  - intros c Hc. destruct (Hcut c Hc) as [C1 C2]. destruct (HTc c Hc) as (HD & _). split; [exact HD|split; [exact C1|lia]].
  - intros c Hc _. left. intros c' Hc' _.
    destruct (HTc c Hc) as (HD & (X1 & X2 & X3) & _ & HH). destruct (HTc c' Hc') as (HD' & (_ & _ & X3') & _ & HH').
    rewrite (dur_head_dh maxsz _ (proj1 HD')). rewrite HH' in X3'.
    pose proof (proj1 HD) as HI. unfold IdxInv, core, IdxInvC in HI. inv_destruct HI.
    unfold rec_tail. cbv zeta. destruct (cr_cm c); lia.
  - exists f'. split; [exact Ef|]. split; [|exact (conj L1 (conj L2 (conj L3 (conj L4 L5))))].
    unfold fz_open in Ef. rewrite map_res_map in Ef.
    destruct (map_res _ cs) as [ts|] eqn:E1; [|discriminate].
    assert (HP : Forall (fun t => PZ t /\ t_head t + 3 < 65536) ts).
    { apply map_res_forall2 in E1. eapply Forall2_right; [exact E1|]. intros c t' Hc R. cbv beta in R.
      destruct (Hcut c Hc) as [C1 C2]. destruct (HTc c Hc) as (HD & _).
      destruct (pz_reopen (cr_t c) (cr_ci c) (cr_cd c) (cr_cm c) t' HD C1 R) as (P' & Hh & _). split; [exact P'|lia]. }
    pose proof (fz_repair_pz ts f' HP Ef) as HPf.
    exists (fz_head f'), (fz_tail f'). rewrite Forall_forall in *. intros t Ht.
    destruct (HPf t Ht) as (HD & HX & _). destruct (L2 t Ht) as [A B]. split; [exact HD|split; [exact HX|split; assumption]].
Qed.

End Reopen.

(* ---------- freezer histories with crashes inside ---------- *)
Section FHist.
Variable maxsz : N.

(* one crash state per table: index cut, data-file cuts, which metadata record *)
Definition cutspec : Type := ((nat * nat) * (N -> nat * nat) * bool)%type.
Definition cr_of (p : table * cutspec) : crashed :=
  mkCr (fst p) (fst (fst (snd p))) (snd (fst (snd p))) (snd (snd p)).
Definition crashes_of (f : freezer) (cuts : list cutspec) : list crashed := map cr_of (combine (fz_tables f) cuts).

Lemma crashes_tables f cuts : length cuts = length (fz_tables f) -> map cr_t (crashes_of f cuts) = fz_tables f.
Proof.
  unfold crashes_of. generalize (fz_tables f). intros l. revert cuts.
  induction l as [|t l IH]; intros cuts H; [reflexivity|].
  destruct cuts as [|c cuts]; [discriminate|]. cbn [combine map cr_of cr_t fst]. f_equal. apply IH. cbn in H. lia.
Qed.

Inductive fhop := FOp (o : fop) | FCrash (cuts : list cutspec).

Definition fz_hstep (f : freezer) (h : fhop) : res freezer :=
  match h with
  | FOp o => fz_step maxsz f o
  | FCrash cuts => fz_open true (map cr_disk (crashes_of f cuts))
  end.
Definition fz_hnext (f : freezer) (h : fhop) : freezer := match fz_hstep f h with Ok f' => f' | Err _ => f end.
Definition crash_guard (f : freezer) (cuts : list cutspec) : Prop :=
  length cuts = length (fz_tables f) /\
  forall c, In c (crashes_of f cuts) -> cut_ok (cr_t c) (cr_ci c) (cr_cd c) /\ t_head (cr_t c) + 3 < 65536.
Definition fz_hguard (f : freezer) (h : fhop) : Prop :=
  match h with
  | FOp o => fz_guard maxsz f o
  | FCrash cuts => crash_guard f cuts
  end.
Definition fz_hhrun (f : freezer) (hs : list fhop) : freezer := fold_left fz_hnext hs f.
Fixpoint fz_hguarded (f : freezer) (hs : list fhop) : Prop :=
  match hs with [] => True | h :: r => fz_hguard f h /\ fz_hguarded (fz_hnext f h) r end.

Lemma fx_crashes f cuts :
  FXInv maxsz f -> length cuts = length (fz_tables f) ->
  exists I H, forall c, In c (crashes_of f cuts) -> TX maxsz I H (cr_t c).
Proof.
  intros (I & H & HT) Hl. exists I, H. intros c Hc. rewrite Forall_forall in HT. apply HT.
  rewrite <- (crashes_tables f cuts Hl). apply in_map. exact Hc.
Qed.

Lemma fx_hnext f h : maxsz < two32 -> FXInv maxsz f -> fz_hguard f h -> FXInv maxsz (fz_hnext f h).
Proof.
  intros Hmax HF HG. unfold fz_hnext. destruct h as [o|cuts]; cbn [fz_hstep fz_hguard] in *.
  - destruct (fz_step maxsz f o) as [f'|] eqn:E; [eapply fx_step; eauto|exact HF].
  - destruct HG as [Hl Hc]. destruct (fx_reopen maxsz (crashes_of f cuts) (fx_crashes f cuts HF Hl) Hc) as (f' & E & HF' & _).
    rewrite E. exact HF'.
Qed.

Lemma fx_hhrun hs : forall f, maxsz < two32 -> FXInv maxsz f -> fz_hguarded f hs -> FXInv maxsz (fz_hhrun f hs).
Proof.
  unfold fz_hhrun. induction hs as [|h r IH]; intros f Hmax HF HG; [exact HF|].
  destruct HG as [G1 G2]. cbn [fold_left]. apply IH; [exact Hmax| |exact G2]. apply fx_hnext; assumption.
Qed.

(* THE FREEZER THEOREM OVER HISTORIES WITH REPEATED CRASHES.  From a freezer satisfying the freezer invariant
   (the empty freezer does), after every guarded history of ModifyAncients / TruncateHead / TruncateTail
   (sync first) / SyncAncient AND crashes of every table followed by NewFreezer, one more crash of every
   table (every cut, every zero fill, either metadata record, independently per table): NewFreezer
   succeeds, re-establishes the invariant, all tables end at exactly [Tail, Ancients), Ancients is the
   least head recovered by a non-empty table, and any range recovered by every table is kept. *)
Theorem freezer_crash_safe_repeated f0 hs cuts :
  maxsz < two32 -> FXInv maxsz f0 -> fz_hguarded f0 hs ->
  let f := fz_hhrun f0 hs in
  crash_guard f cuts ->
  let cs := crashes_of f cuts in
  exists f', fz_open true (map cr_disk cs) = Ok f' /\ FXInv maxsz f' /\
    length (fz_tables f') = length cs /\
    Forall (fun t' => t_items t' = fz_head f' /\ t_hidden t' = fz_tail f') (fz_tables f') /\
    fz_tail f' <= fz_head f' /\
    (forall c, In c cs -> dur_head (cr_t c) <> 0 -> fz_head f' <= dur_head (cr_t c)) /\
    (forall s hh, cs <> [] -> hh < s -> (forall c, In c cs -> s <= dur_head (cr_t c) /\ rec_tail c <= hh) ->
                 s <= fz_head f' /\ fz_tail f' <= hh).
Proof.
  intros Hmax HF0 HG f [Hl Hc] cs.
  pose proof (fx_hhrun hs f0 Hmax HF0 HG) as HF.
  exact (fx_reopen maxsz cs (fx_crashes f cuts HF Hl) Hc).
Qed.

End FHist.
