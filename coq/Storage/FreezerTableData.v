(* Storage/FreezerTableData.v — the full table invariant (index + data files + handles) and the
   table-level crash theorem: newTable on EVERY crash state of a table satisfying the invariant
   succeeds and yields a table satisfying the invariant again, whose head is the flush-offset head. *)
From GV Require Import Lib.Tactics Storage.FreezerTable Storage.FreezerTableProofs Storage.FreezerTableInv Storage.Freezer Storage.FreezerProofs Storage.FreezerSuccess.
Local Open Scope N_scope.

Ltac inv_destruct H :=
  destruct H as (rest & Hb & Hwf & Ht & Ho & Hv & Hi & Hi32 & Hh & Hhb & Hhm & Hsm & Hm6 & H6 & Hfd & Hfw
                 & Hms & Hv1 & Hv2 & Hoh & Hhi).

(* the index entries after the tail marker, the number of entries below the flush offset *)
Definition rest_of (t : table) : list entry := tl (entries_of (fbytes (t_index t))).
Definition nsynced (t : table) : nat := (N.to_nat (mflush (t_mcur t) / 6) - 1)%nat.
Definition synced_of (t : table) : list entry := firstn (nsynced t) (rest_of t).
Definition lastF (t : table) : entry := last (synced_of t) (mkE (t_tail t) 0).

Definition DInv (maxsz : N) (t : table) : Prop :=
  IdxInv maxsz t /\
  (* every index entry points inside an existing data file *)
  (forall e, In e (rest_of t) -> exists f, dget (efile e) (t_data t) = Some f /\ eoff e <= fsize f) /\
  (* all data files but the head are durable in full; watermarks are within the files *)
  (forall id f, dget id (t_data t) = Some f -> id <> t_head t -> fdur f = flen f) /\
  (forall id f, dget id (t_data t) = Some f -> (fdur f <= flen f)%nat) /\
  (* the head file exists and is headBytes long *)
  (exists hf, dget (t_head t) (t_data t) = Some hf /\ fsize hf = t_headbytes t) /\
  (* the data of every entry below the flush offset is durable *)
  (forall e, In e (synced_of t) -> exists f, dget (efile e) (t_data t) = Some f /\ eoff e <= N.of_nat (fdur f)) /\
  (* the files tail..head exist and are open; every handle refers to an existing file *)
  (forall id, t_tail t <= id <= t_head t -> has t id /\ In id (t_open t)) /\
  OD t /\
  (* no handle beyond the head file *)
  (forall id, In id (t_open t) -> id <= t_head t).

(* ---------- small facts ---------- *)
Lemma rest_of_inv t rest :
  fbytes (t_index t) = concat (map enc_entry (mkE (t_tail t) (t_offset t) :: rest)) ->
  forallb entry_wf rest = true -> t_tail t < 65536 -> t_offset t < two32 -> rest_of t = rest.
Proof.
  intros Hb Hwf Ht Ho. unfold rest_of. rewrite Hb.
  rewrite <- (app_nil_r (concat _)). rewrite entries_of_enc_app; [cbn [entries_of]; rewrite app_nil_r; reflexivity|].
  cbn [forallb]. unfold entry_wf at 1. cbn [efile eoff].
  replace (t_tail t <? 65536) with true by (symmetry; apply N.ltb_lt; exact Ht).
  replace (t_offset t <? two32) with true by (symmetry; apply N.ltb_lt; exact Ho). exact Hwf.
Qed.

Lemma dget_map (g : N -> file -> file) id l :
  dget id (map (fun kf => (fst kf, g (fst kf) (snd kf))) l) = option_map (g id) (dget id l).
Proof.
  induction l as [|[k f] l IH]; [reflexivity|]. cbn [map fst snd dget].
  destruct (N.eqb_spec k id) as [->|Ne]; [reflexivity|exact IH].
Qed.

Lemma filter_true {A} (q : A -> bool) l : (forall x, In x l -> q x = true) -> filter q l = l.
Proof.
  induction l as [|a l IH]; intros H; [reflexivity|]. cbn [filter].
  rewrite (H a (or_introl eq_refl)). f_equal. apply IH. intros x Hx. apply H. right. exact Hx.
Qed.

Lemma filter_false {A} (q : A -> bool) l : (forall x, In x l -> q x = false) -> filter q l = [].
Proof.
  induction l as [|a l IH]; intros H; [reflexivity|]. cbn [filter].
  rewrite (H a (or_introl eq_refl)). apply IH. intros x Hx. apply H. right. exact Hx.
Qed.

(* offsets inside one file are non-decreasing along a valid index *)
Lemma check_items_off_le a b : check_items a b = true -> efile a = efile b -> eoff a <= eoff b.
Proof.
  unfold check_items. intros H E. rewrite E in H. rewrite N.eqb_refl in H. cbn in H.
  destruct (N.ltb_spec (eoff b) (eoff a)); [cbn in H; discriminate|lia].
Qed.

Lemma chain_off_le_last l : forall p off,
  check_tail p l off = None ->
  (efile p = efile (last l p) -> eoff p <= eoff (last l p)) /\
  forall e, In e l -> efile e = efile (last l p) -> eoff e <= eoff (last l p).
Proof.
  induction l as [|e r IH]; intros p off H.
  - cbn. split; [lia|]. intros e [].
  - cbn [check_tail] in H. destruct (check_items p e) eqn:C; [|discriminate].
    destruct (IH e _ H) as [I1 I2]. destruct (chain_le_last r e _ H) as [M1 M2]. rewrite last_cons.
    pose proof (check_items_file_le _ _ C) as Fle. split.
    + intros E. assert (efile e = efile p) by lia.
      pose proof (check_items_off_le _ _ C (eq_sym H0)). specialize (I1 ltac:(lia)). lia.
    + intros x [<-|Hx] E; [apply I1; exact E | apply I2; assumption].
Qed.

(* ---------- the reused read buffer of repair() ---------- *)
Lemma read_over_first h X : read_over (repeat 0 6) (enc_entry h ++ X) 0 = enc_entry h.
Proof. unfold read_over, enc_entry. cbn [N.to_nat skipn app firstn length repeat]. reflexivity. Qed.

Lemma read_over_nth es k e buf :
  nth_error es k = Some e -> length buf = 6%nat ->
  read_over buf (concat (map enc_entry es)) (6 * N.of_nat k) = enc_entry e.
Proof.
  intros Hn Hl. apply nth_error_split in Hn. destruct Hn as (l1 & l2 & -> & Hk).
  unfold read_over. rewrite concat_enc_app. cbn [map concat].
  replace (N.to_nat (6 * N.of_nat k)) with (length (concat (map enc_entry l1))) by (rewrite concat_enc_length; lia).
  rewrite skipn_app, Nat.sub_diag, skipn_all. cbn [skipn app].
  rewrite firstn_app_le by (rewrite enc_entry_length; lia). rewrite enc_entry_length. cbn [Nat.sub firstn].
  rewrite app_nil_r, enc_entry_length. rewrite skipn_all2 by lia. apply app_nil_r.
Qed.

Lemma buf_entry_enc e : entry_wf e = true -> buf_entry (enc_entry e) = Ok e.
Proof. intros H. unfold buf_entry. rewrite dec_enc by exact H. reflexivity. Qed.

(* ---------- repair(), second part ---------- *)
(* on a table whose index is the encoding of the tail marker and [syn], with no handles yet and
   both metadata records equal to (2, vt, F), F = 6 * (1 + |syn|) *)
Lemma open_head_spec u tail offset syn vt :
  fbytes (t_index u) = concat (map enc_entry (mkE tail offset :: syn)) ->
  forallb entry_wf (mkE tail offset :: syn) = true ->
  t_open u = [] ->
  t_mcur u = mkMeta 2 vt (6 * N.of_nat (S (length syn))) -> t_msyn u = t_mcur u ->
  let lastE := last syn (mkE tail 0) in
  let hid := N.max vt offset in
  exists t7 csize hf,
    open_head u = Ok (t7, lastE, 6 * N.of_nat (S (length syn)), csize) /\
    t_index t7 = t_index u /\ t_open t7 = [efile lastE] /\
    t_mcur t7 = mkMeta 2 hid (6 * N.of_nat (S (length syn))) /\ t_msyn t7 = t_mcur t7 /\
    t_offset t7 = offset /\ t_hidden t7 = hid /\ t_tail t7 = tail /\
    dget (efile lastE) (t_data t7) = Some hf /\ csize = fsize hf /\
    (match dget (efile lastE) (t_data u) with Some f => hf = f | None => hf = f_empty end) /\
    (forall id, id <> efile lastE -> dget id (t_data t7) = dget id (t_data u)).
Proof.
  intros Hb Hwf Hop Hmc Hms lastE hid. unfold open_head.
  assert (Hsz : fsize (t_index u) = 6 * N.of_nat (S (length syn))).
  { unfold fsize, flen. rewrite Hb, concat_enc_length. cbn [length]. lia. }
  rewrite Hsz. replace (6 * N.of_nat (S (length syn)) <? 6) with false by (symmetry; apply N.ltb_ge; lia).
  cbv zeta.
  pose proof Hwf as Hwf0. cbn [forallb] in Hwf0. apply andb_prop in Hwf0. destruct Hwf0 as [Hwh Hws].
  assert (B0 : read_over (repeat 0 6) (fbytes (t_index u)) 0 = enc_entry (mkE tail offset)).
  { rewrite Hb. cbn [map concat]. apply read_over_first. }
  rewrite B0, (buf_entry_enc _ Hwh). cbn [efile eoff].
  (* t4, t5, t6 *)
  set (t4 := w_counters u 0 offset 0 0 tail 0).
  set (t5 := if mvtail (t_mcur t4) <? t_offset t4 then set_vtail t4 (t_offset t4) true else t4).
  assert (H5 : t_index t5 = t_index u /\ t_data t5 = t_data u /\ t_open t5 = [] /\
               t_mcur t5 = mkMeta 2 hid (6 * N.of_nat (S (length syn))) /\ t_msyn t5 = t_mcur t5 /\
               t_offset t5 = offset /\ t_tail t5 = tail).
  { subst t5 t4. cbn [w_counters t_mcur t_offset]. rewrite Hmc. cbn [mvtail].
    subst hid. destruct (N.ltb_spec vt offset) as [L|L].
    - unfold set_vtail, meta_write. cbn. rewrite Hmc. cbn. rewrite N.max_r by lia. repeat split; try assumption; reflexivity.
    - cbn. rewrite N.max_l by lia. repeat split; try assumption; try (rewrite Hms; reflexivity). }
  destruct H5 as (A1 & A2 & A3 & A4 & A5 & A6 & A7).
  set (t6 := w_counters t5 0 (t_offset t5) (mvtail (t_mcur t5)) 0 (t_tail t5) 0).
  assert (EL : (if 6 * N.of_nat (S (length syn)) =? 6 then Ok (mkE (t_tail t6) 0)
                else buf_entry (read_over (enc_entry (mkE tail offset)) (fbytes (t_index t6)) (6 * N.of_nat (S (length syn)) - 6))) = Ok lastE).
  { subst lastE. destruct syn as [|s0 sr] eqn:ES.
    - cbn [length]. rewrite N.eqb_refl. subst t6. cbn [w_counters t_tail]. rewrite A7. reflexivity.
    - rewrite <- ES in *. assert (Hne : syn <> []) by (rewrite ES; discriminate).
      replace (6 * N.of_nat (S (length syn)) =? 6) with false
        by (symmetry; apply N.eqb_neq; rewrite ES; cbn [length]; lia).
      subst t6. cbn [w_counters t_index]. rewrite A1, Hb.
      replace (6 * N.of_nat (S (length syn)) - 6) with (6 * N.of_nat (length syn)) by lia.
      rewrite (read_over_nth _ (length syn) (last syn (mkE tail 0))).
      + apply buf_entry_enc. apply forallb_last; assumption.
      + cbn [nth_error]. destruct (length syn) as [|m] eqn:EL; [rewrite ES in EL; discriminate|].
        cbn [nth_error]. replace m with (length syn - 1)%nat by lia. apply nth_error_last. exact Hne.
      + apply enc_entry_length. }
  rewrite EL.
  set (t7 := open_append t6 (efile lastE)).
  assert (H6o : t_open t6 = [] /\ t_data t6 = t_data u) by (subst t6; cbn [w_counters t_open t_data]; split; assumption).
  destruct H6o as [O6 D6].
  assert (H7 : exists hf, dget (efile lastE) (t_data t7) = Some hf /\
               (match dget (efile lastE) (t_data u) with Some f => hf = f | None => hf = f_empty end) /\
               (forall id, id <> efile lastE -> dget id (t_data t7) = dget id (t_data u)) /\
               t_open t7 = [efile lastE] /\ core t7 = core t6).
  { subst t7. unfold open_append. rewrite O6. cbn [existsb]. rewrite D6.
    destruct (dget (efile lastE) (t_data u)) as [f|] eqn:Df.
    - exists f. cbn [w_open t_data t_open]. rewrite ?D6, ?O6. repeat split; auto.
    - exists f_empty. cbn [w_open w_data t_data t_open]. rewrite ?D6, ?O6. repeat split; auto.
      + apply dget_dset_same.
      + intros id Hid. apply dget_dset_other. exact Hid. }
  destruct H7 as (hf & G1 & G2 & G3 & G4 & G5).
  rewrite G1. exists t7, (fsize hf), hf.
  apply core_proj in G5. destruct G5 as (_ & C2 & C3 & _ & C5 & _ & C7 & C8 & C9).
  split; [reflexivity|].
  subst t6. cbn [w_counters t_offset t_hidden t_tail t_index t_mcur t_msyn] in *.
  rewrite C7, C8, C9, C2, C3, C5, A1, A4, A5, A6, A7. cbn [mvtail].
  repeat split; try assumption; try reflexivity.
Qed.

(* ---------- handles: no-op releases, preopen ---------- *)
Lemma release_where_nop t p rm :
  (forall k, In k (t_open t) -> p k = false) ->
  t_open (release_where t p rm) = t_open t /\ t_data (release_where t p rm) = t_data t.
Proof.
  intros H. unfold release_where.
  assert (G : filter p (t_open t) = []) by (apply filter_false; exact H).
  assert (K : filter (fun k => negb (p k)) (t_open t) = t_open t).
  { apply filter_true. intros k Hk. rewrite (H k Hk). reflexivity. }
  rewrite G, K. destruct rm; cbn [w_data w_open t_open t_data]; split; try reflexivity.
  apply filter_true. intros; reflexivity.
Qed.

Lemma in_id_range lo hi id : In id (id_range lo hi) <-> lo <= id < hi.
Proof.
  unfold id_range. rewrite in_map_iff. split.
  - intros [k [<- Hk]]. apply in_seq in Hk. lia.
  - intros H. exists (N.to_nat (id - lo)). split; [lia|]. apply in_seq. lia.
Qed.

Lemma open_range_spec ids : forall t,
  (forall id, In id ids -> has t id) ->
  exists t', open_range t ids = Ok t' /\ t_data t' = t_data t /\ core t' = core t /\
             (forall i, In i (t_open t') <-> In i (t_open t) \/ In i ids).
Proof.
  induction ids as [|a ids IH]; intros t H.
  - exists t. cbn [open_range]. repeat split; auto. intros [?|[]]; assumption.
  - cbn [open_range]. unfold open_ro.
    destruct (existsb (N.eqb a) (t_open t)) eqn:E.
    + destruct (IH t) as (t' & E' & D' & C' & O'); [intros id Hid; apply H; right; exact Hid|].
      exists t'. rewrite E'. repeat split; auto.
      * intros Hi. apply O' in Hi. destruct Hi; [left|right; right]; assumption.
      * intros [Hi|[<-|Hi]]; apply O'; [left; exact Hi | left; apply existsb_eqb_In; exact E | right; exact Hi].
    + destruct (H a (or_introl eq_refl)) as [f Hf]. rewrite Hf.
      destruct (IH (w_open t (a :: t_open t))) as (t' & E' & D' & C' & O').
      { intros id Hid. destruct (H id (or_intror Hid)) as [g Hg]. exists g. exact Hg. }
      exists t'. rewrite E'. repeat split; auto.
      * intros Hi. apply O' in Hi. cbn [w_open t_open] in Hi. destruct Hi as [[<-|Hi]|Hi]; [right; left; reflexivity | left; exact Hi | right; right; exact Hi].
      * intros [Hi|[<-|Hi]]; apply O'; cbn [w_open t_open]; [left; right; exact Hi | left; left; reflexivity | right; exact Hi].
Qed.

(* ---------- repair(), last part ---------- *)
Lemma open_finish_spec t8 lastE F csize f8 offset hid tail nsyn :
  F = 6 * N.of_nat (S nsyn) -> fsize (t_index t8) = F ->
  t_open t8 = [efile lastE] -> dget (efile lastE) (t_data t8) = Some f8 ->
  t_mcur t8 = mkMeta 2 hid F -> t_msyn t8 = t_mcur t8 ->
  t_offset t8 = offset -> t_hidden t8 = hid -> t_tail t8 = tail ->
  tail <= efile lastE -> (forall id, tail <= id < efile lastE -> has t8 id) ->
  offset + N.of_nat nsyn < two64 -> offset <= hid ->
  exists t', open_finish true t8 lastE F csize = Ok t' /\
    t_items t' = offset + N.of_nat nsyn /\ t_offset t' = offset /\
    t_hidden t' = N.min hid (offset + N.of_nat nsyn) /\ t_head t' = efile lastE /\ t_tail t' = tail /\
    t_headbytes t' = csize /\ t_index t' = f_sync (t_index t8) /\
    t_mcur t' = mkMeta 2 (N.min hid (offset + N.of_nat nsyn)) F /\ t_msyn t' = t_mcur t' /\
    dget (efile lastE) (t_data t') = Some (f_sync f8) /\
    (forall id, id <> efile lastE -> dget id (t_data t') = dget id (t_data t8)) /\
    (forall id, In id (t_open t') <-> tail <= id <= efile lastE).
Proof.
  intros HF Hsz Hop Hf8 Hmc Hms Hoff Hhid Htl Hle Hfiles Hbound Hoh.
  unfold open_finish. unfold data_upd. cbn [sync_index w_index t_data]. rewrite Hf8. cbv zeta.
  set (hd := efile lastE) in *. set (items' := offset + N.of_nat nsyn). set (hid' := N.min hid items').
  match goal with |- context [release_after ?X (t_head ?X) true] => set (T12 := X) end.
  assert (HT : t_items T12 = items' /\ t_offset T12 = offset /\ t_hidden T12 = hid' /\ t_head T12 = hd /\
               t_tail T12 = tail /\ t_headbytes T12 = csize /\ t_index T12 = f_sync (t_index t8) /\
               t_mcur T12 = mkMeta 2 hid' F /\ t_msyn T12 = t_mcur T12 /\ t_open T12 = [hd] /\
               t_data T12 = dset hd (f_sync f8) (t_data t8)).
  { subst T12.
    cbn [w_counters w_meta w_data w_index sync_index t_items t_offset t_hidden t_head t_tail t_headbytes t_index t_mcur t_msyn t_open t_data andb].
    rewrite ?Hoff, ?Hhid, ?Htl, ?Hmc, ?Hop.
    assert (Hit : (offset + (F / 6 - 1)) mod two64 = items').
    { subst items'. replace (F / 6 - 1) with (N.of_nat nsyn) by lia. apply N.mod_small. exact Hbound. }
    rewrite Hit. subst hid'.
    destruct (N.ltb_spec items' hid) as [L|L];
      cbn [w_counters w_meta w_data w_index sync_index set_vtail meta_write t_items t_offset t_hidden t_head t_tail t_headbytes t_index t_mcur t_msyn t_open t_data mflush mvtail].
    - rewrite ?Hoff, ?Hhid, ?Htl, ?Hmc, ?Hop, ?Hit. cbn [mflush mvtail]. rewrite N.min_r by lia. repeat split; reflexivity.
    - rewrite ?Hoff, ?Hhid, ?Htl, ?Hmc, ?Hop, ?Hit. cbn [mflush mvtail]. rewrite N.min_l by lia. repeat split; reflexivity. }
  destruct HT as (B1 & B2 & B3 & B4 & B5 & B6 & B7 & B8 & B9 & B10 & B11).
  (* the two releases do nothing *)
  set (T13 := release_after T12 (t_head T12) true).
  destruct (release_where_nop T12 (fun k => t_head T12 <? k) true) as [R1 R2].
  { intros k Hk. rewrite B10 in Hk. destruct Hk as [<-|[]]. rewrite B4. apply N.ltb_irrefl. }
  assert (C13 : core T13 = core T12) by apply core_release_where.
  set (T14 := release_before T13 (t_tail T13) true).
  assert (Ht13 : t_tail T13 = tail) by (apply core_proj in C13; destruct C13 as (_ & _ & _ & _ & C5 & _); rewrite C5; exact B5).
  destruct (release_where_nop T13 (fun k => k <? t_tail T13) true) as [R3 R4].
  { intros k Hk. unfold T13, release_after in Hk. rewrite R1, B10 in Hk. destruct Hk as [<-|[]]. rewrite Ht13. apply N.ltb_ge. exact Hle. }
  assert (C14 : core T14 = core T12) by (unfold T14, release_before; rewrite core_release_where; exact C13).
  assert (O14 : t_open T14 = [hd]) by (unfold T14, release_before; rewrite R3; unfold T13, release_after; rewrite R1; exact B10).
  assert (D14 : t_data T14 = dset hd (f_sync f8) (t_data t8)) by (unfold T14, release_before; rewrite R4; unfold T13, release_after; rewrite R2; exact B11).
  (* preopen *)
  unfold preopen.
  set (T15 := release_after T14 0 false).
  assert (C15 : core T15 = core T12) by (unfold T15, release_after; rewrite core_release_where; exact C14).
  assert (D15 : t_data T15 = t_data T14) by reflexivity.
  assert (O15 : forall i, In i (t_open T15) -> i = hd).
  { intros i Hi. unfold T15, release_after, release_where in Hi. cbn [w_open t_open] in Hi.
    apply filter_In in Hi. rewrite O14 in Hi. destruct Hi as [[<-|[]] _]. reflexivity. }
  pose proof C15 as C15'. apply core_proj in C15'. destruct C15' as (E1 & E2 & E3 & E4 & E5 & E6 & E7 & E8 & E9).
  assert (Hhas : forall id, has t8 id -> has T15 id).
  { intros id [g Hg]. unfold has. rewrite D15, D14.
    destruct (N.eq_dec id hd) as [->|Ne]; [rewrite dget_dset_same; eauto | rewrite dget_dset_other by exact Ne; eauto]. }
  destruct (open_range_spec (id_range (t_tail T15) (t_head T15)) T15) as (T16 & ER & D16 & C16 & O16).
  { intros id Hid. apply in_id_range in Hid. rewrite E5, E4, B5, B4 in Hid. apply Hhas, Hfiles. exact Hid. }
  rewrite ER.
  pose proof C16 as C16'. apply core_proj in C16'. destruct C16' as (G1 & G2 & G3 & G4 & G5 & G6 & G7 & G8 & G9).
  set (T17 := open_append T16 (t_head T16)).
  assert (C17 : core T17 = core T16) by apply core_open_append.
  pose proof C17 as C17'. apply core_proj in C17'. destruct C17' as (J1 & J2 & J3 & J4 & J5 & J6 & J7 & J8 & J9).
  assert (Hhd16 : t_head T16 = hd) by (rewrite G4, E4; exact B4).
  assert (Hdg : dget hd (t_data T16) = Some (f_sync f8)) by (rewrite D16, D15, D14; apply dget_dset_same).
  assert (D17 : t_data T17 = t_data T16 /\ forall i, In i (t_open T17) <-> In i (t_open T16) \/ i = hd).
  { unfold T17, open_append. rewrite Hhd16. destruct (existsb (N.eqb hd) (t_open T16)) eqn:Ex.
    - split; [reflexivity|]. intros i. split; [auto|]. intros [Hi| ->]; [exact Hi|apply existsb_eqb_In; exact Ex].
    - rewrite Hdg. cbn [w_open t_data t_open]. split; [reflexivity|].
      intros i. split; [intros [<-|Hi]; auto | intros [Hi| ->]; [right; exact Hi|left; reflexivity]]. }
  destruct D17 as [D17 O17].
  (* the final size check *)
  assert (Hfin : (if t_hidden T17 <=? t_offset T17 then Ok T17
                  else if fsize (t_index T17) <? (t_hidden T17 - 1 - t_offset T17) * 6 + 12 then Err E_IO else Ok T17) = Ok T17).
  { rewrite J3, J2, J7, G3, G2, G7, E3, E2, E7, B3, B2, B7.
    destruct (N.leb_spec hid' offset); [reflexivity|].
    replace (fsize (f_sync (t_index t8))) with F by (rewrite <- Hsz; reflexivity).
    destruct (N.ltb_spec F ((hid' - 1 - offset) * 6 + 12)); [|reflexivity].
    exfalso. subst hid' items'. lia. }
  exists T17. split; [exact Hfin|].
  rewrite J1, J2, J3, J4, J5, J6, J7, J8, J9, G1, G2, G3, G4, G5, G6, G7, G8, G9, E1, E2, E3, E4, E5, E6, E7, E8, E9.
  rewrite B1, B2, B3, B4, B5, B6, B7, B9, B8. 
  repeat (split; [reflexivity|]).
  split; [rewrite D17; exact Hdg|].
  split; [intros id Hne; rewrite D17, D16, D15, D14; apply dget_dset_other; exact Hne|].
  intros id. split.
  - intros Hi. apply O17 in Hi. destruct Hi as [Hi| ->]; [|lia].
    apply O16 in Hi. destruct Hi as [Hi|Hi]; [apply O15 in Hi; lia|].
    apply in_id_range in Hi. rewrite E5, E4, B5, B4 in Hi. lia.
  - intros Hr. apply O17. destruct (N.eq_dec id hd) as [->|Ne]; [right; reflexivity|left].
    apply O16. right. apply in_id_range. rewrite E5, E4, B5, B4. lia.
Qed.

Lemma index_off_le_last h rest :
  check_index (h :: rest) = None ->
  forall e, In e rest -> efile e = efile (last rest (mkE (efile h) 0)) -> eoff e <= eoff (last rest (mkE (efile h) 0)).
Proof.
  intros Hv. destruct rest as [|e1 r]; [intros e []|].
  apply check_index_cons2 in Hv. destruct Hv as [_ C]. rewrite last_cons.
  destruct (chain_off_le_last r e1 12 C) as [I1 I2].
  intros x [<-|Hx] E; [apply I1; exact E | apply I2; assumption].
Qed.

(* ---------- facts about the synced part of the index ---------- *)
Lemma synced_facts maxsz t :
  IdxInv maxsz t ->
  let syn := synced_of t in
  let F := mflush (t_mcur t) in
  F = 6 * N.of_nat (S (length syn)) /\
  firstn (N.to_nat F) (fbytes (t_index t)) = concat (map enc_entry (mkE (t_tail t) (t_offset t) :: syn)) /\
  forallb entry_wf (mkE (t_tail t) (t_offset t) :: syn) = true /\
  check_index (mkE (t_tail t) (t_offset t) :: syn) = None /\
  forallb (small maxsz) syn = true /\
  (forall e, In e syn -> In e (rest_of t)) /\
  t_tail t <= efile (lastF t) /\ efile (lastF t) <= t_head t /\
  t_offset t + N.of_nat (length syn) <= t_items t /\
  (forall e, In e syn -> t_tail t <= efile e /\ efile e <= efile (lastF t) /\
                         (efile e = efile (lastF t) -> eoff e <= eoff (lastF t))).
Proof.
  intros HI syn F. pose proof HI as HI0. unfold IdxInv, core, IdxInvC in HI0. inv_destruct HI0.
  pose proof (rest_of_inv t rest Hb Hwf Ht Ho) as Hr.
  pose proof (idx_size _ _ _ _ Hb) as Hsz.
  assert (Hsyn : syn = firstn (N.to_nat (F / 6) - 1) rest) by (subst syn; unfold synced_of, nsynced; rewrite Hr; reflexivity).
  set (k := (N.to_nat (F / 6) - 1)%nat) in *.
  assert (Hk : (k <= length rest)%nat) by (subst k F; lia).
  assert (Hlen : length syn = k) by (rewrite Hsyn, firstn_length; lia).
  assert (HF : F = 6 * N.of_nat (S (length syn))) by (rewrite Hlen; subst k F; lia).
  assert (Hwfh : forallb entry_wf (mkE (t_tail t) (t_offset t) :: syn) = true).
  { cbn [forallb]. unfold entry_wf at 1. cbn [efile eoff].
    replace (t_tail t <? 65536) with true by (symmetry; apply N.ltb_lt; exact Ht).
    replace (t_offset t <? two32) with true by (symmetry; apply N.ltb_lt; exact Ho).
    cbn. rewrite Hsyn. apply forallb_firstn. exact Hwf. }
  assert (Hvs : check_index (mkE (t_tail t) (t_offset t) :: syn) = None).
  { rewrite Hsyn. apply (check_index_firstn _ (S k)) in Hv. exact Hv. }
  assert (Hin : forall e, In e syn -> In e rest).
  { intros e He. rewrite Hsyn in He. rewrite <- (firstn_skipn k rest). apply in_or_app. left. exact He. }
  destruct (index_files_monotone _ _ Hv) as [M1 M2]. cbn [efile] in M1, M2. rewrite <- Hh in M1, M2.
  destruct (index_files_monotone _ _ Hvs) as [S1 S2]. cbn [efile] in S1, S2.
  change (last syn (mkE (t_tail t) 0)) with (lastF t) in S1, S2.
  assert (HlF : efile (lastF t) <= t_head t).
  { unfold lastF. fold syn. destruct syn as [|s0 sr] eqn:Es; [cbn; lia|].
    assert (In (last (s0 :: sr) (mkE (t_tail t) 0)) (s0 :: sr)).
    { destruct (exists_last (l := s0 :: sr) ltac:(discriminate)) as [l' [x Hx]]. rewrite Hx, last_last. apply in_or_app. right. left. reflexivity. }
    apply Hin in H. destruct (M2 _ H). lia. }
  repeat split; try assumption.
  - rewrite Hb. replace (N.to_nat F) with (6 * S k)%nat by (subst k F; lia).
    rewrite firstn_concat_enc. cbn [firstn]. rewrite <- Hsyn. reflexivity.
  - rewrite Hsyn. apply forallb_firstn. exact Hsm.
  - intros e He. rewrite Hr. apply Hin. exact He.
  - lia.
  - destruct (S2 e H). lia.
  - destruct (S2 e H). lia.
  - intros E. apply (index_off_le_last _ _ Hvs e H). exact E.
Qed.

Lemma last_in {A} (l : list A) d : l <> [] -> In (last l d) l.
Proof.
  intros H. destruct (exists_last H) as [l' [x ->]]. rewrite last_last. apply in_or_app. right. left. reflexivity.
Qed.
Lemma nil_dec {A} (l : list A) : l = [] \/ l <> [].
Proof. destruct l; [left; reflexivity|right; discriminate]. Qed.

(* ---------- THE TABLE-LEVEL CRASH THEOREM ---------- *)
Definition cut_ok (t : table) (ci : nat * nat) (cd : N -> nat * nat) : Prop :=
  valid_cut (t_index t) (fst ci) (snd ci) /\
  forall id f, dget id (t_data t) = Some f -> valid_cut f (fst (cd id)) (snd (cd id)).

Theorem open_crash_ok maxsz t ci cd (cm : bool) :
  DInv maxsz t -> cut_ok t ci cd ->
  let vt := mvtail (if cm then t_mcur t else t_msyn t) in
  exists t',
    crash_reopen true t ci cd cm = Ok t' /\ DInv maxsz t' /\
    t_offset t' = t_offset t /\ t_tail t' = t_tail t /\
    t_items t' = t_offset t + N.of_nat (length (synced_of t)) /\
    t_hidden t' = N.min (N.max vt (t_offset t)) (t_items t') /\
    rest_of t' = synced_of t /\ t_head t' = efile (lastF t) /\
    (forall e, In e (synced_of t) ->
       exists f f', dget (efile e) (t_data t) = Some f /\ dget (efile e) (t_data t') = Some f' /\
                    eoff e <= fsize f' /\
                    firstn (N.to_nat (eoff e)) (fbytes f') = firstn (N.to_nat (eoff e)) (fbytes f)) /\
    t_msyn t' = t_mcur t' /\ mvtail (t_mcur t') = t_hidden t' /\ mflush (t_mcur t') = mflush (t_mcur t) /\
    t_headbytes t' = eoff (lastF t).
Proof.
  intros (HI & DG & DH & DI & DJ & DL & DN & DO & DP) [Hci Hcd] vt.
  destruct (synced_facts maxsz t HI) as (HF & HP & Hwfh & Hvs & Hsms & Hsub & Htl & Hlh & Hitems & Hmono).
  set (syn := synced_of t) in *. set (F := mflush (t_mcur t)) in *. set (lastE := lastF t) in *.
  pose proof HI as HI0. unfold IdxInv, core, IdxInvC in HI0. inv_destruct HI0. clear Hb Hwf Hv Hhb Hsm.
  (* the crashed directory *)
  set (data' := map (fun kf => (fst kf, crash_file (snd kf) (fst (cd (fst kf))) (snd (cd (fst kf))))) (t_data t)).
  assert (Hd' : forall id, dget id data' = option_map (fun f => crash_file f (fst (cd id)) (snd (cd id))) (dget id (t_data t))).
  { intros id. subst data'. apply (dget_map (fun k f => crash_file f (fst (cd k)) (snd (cd k)))). }
  (* stage A *)
  destruct (crash_index_recovers_full t (fst ci) (snd ci) data' cm (inv_facts _ _ HI) Hci) as (A1 & A2 & A3 & A4 & A5).
  set (u := open_repair_index (crash_file (t_index t) (fst ci) (snd ci)) data' (Some (if cm then t_mcur t else t_msyn t))) in *.
  fold F in A1, A2, A3. rewrite HP in A1.
  (* stage B *)
  destruct (open_head_spec u (t_tail t) (t_offset t) syn vt) as (t7 & csize & hf & EB & B1 & B2 & B3 & B4 & B5 & B6 & B7 & B8 & B9 & B10 & B11).
  { exact A1. } { exact Hwfh. } { exact A5. } { rewrite A2, HF. reflexivity. } { rewrite A3, A2. reflexivity. }
  change (last syn (mkE (t_tail t) 0)) with lastE in *. rewrite <- HF in EB, B3.
  set (hid := N.max vt (t_offset t)) in *.
  (* the head file covers the last synced entry *)
  assert (Hcover : eoff lastE <= csize /\
                   (syn <> [] -> exists f, dget (efile lastE) (t_data t) = Some f /\
                                           hf = crash_file f (fst (cd (efile lastE))) (snd (cd (efile lastE))))).
  { destruct (nil_dec syn) as [Es|Es].
    - assert (eoff lastE = 0) by (subst lastE; unfold lastF; fold syn; rewrite Es; reflexivity).
      split; [lia|congruence].
    - assert (Hl : In lastE syn) by (subst lastE; unfold lastF; fold syn; apply last_in; exact Es).
      destruct (DL lastE Hl) as [f [Hf Hdur]].
      rewrite A4, Hd', Hf in B10. cbn [option_map] in B10.
      destruct (crash_file_covers f _ _ (eoff lastE) (Hcd _ _ Hf) (DI _ _ Hf) Hdur) as [Cv _].
      split; [rewrite B9, B10; exact Cv|]. intros _. exists f. split; assumption. }
  destruct Hcover as [Hcov Hhf].
  (* stage C *)
  destruct (repair_loop_head_only (S (N.to_nat (F / 6))) t7 lastE F csize hf ltac:(lia) B8 Hcov)
    as (t8 & EC & C1 & C2 & C3 & C4 & C5 & C6 & C7 & C8 & C9).
  set (f8 := if csize =? eoff lastE then hf else f_trunc hf (eoff lastE)).
  assert (H8 : dget (efile lastE) (t_data t8) = Some f8 /\ (forall id, id <> efile lastE -> dget id (t_data t8) = dget id (t_data t7))
               /\ fsize f8 = eoff lastE /\ fbytes f8 = firstn (N.to_nat (eoff lastE)) (fbytes hf)).
  { subst f8. destruct (N.eqb_spec csize (eoff lastE)) as [E|E].
    - rewrite (C8 E). repeat split; try assumption; try reflexivity; [congruence|].
      rewrite firstn_all2; [reflexivity|]. unfold fsize, flen in *. lia.
    - assert (L : eoff lastE < csize) by lia. rewrite (C9 L). repeat split.
      + apply dget_dset_same.
      + intros id Hid. apply dget_dset_other. exact Hid.
      + unfold f_trunc, fsize, flen. cbn [fbytes]. rewrite app_length, firstn_length, repeat_length.
        unfold fsize, flen in B9. lia.
      + unfold f_trunc. cbn [fbytes]. unfold fsize, flen in B9.
        replace (N.to_nat (eoff lastE) - flen hf)%nat with 0%nat by (unfold flen; lia). cbn [repeat]. apply app_nil_r. }
  destruct H8 as (H8a & H8b & H8c & H8d).
  (* stage D *)
  assert (Hfiles : forall id, t_tail t <= id < efile lastE -> has t8 id).
  { intros id Hid. destruct (DN id ltac:(lia)) as [[g Hg] _].
    exists (crash_file g (fst (cd id)) (snd (cd id))).
    rewrite H8b by lia. rewrite B11 by lia. rewrite A4, Hd', Hg. reflexivity. }
  destruct (open_finish_spec t8 lastE F (eoff lastE) f8 (t_offset t) hid (t_tail t) (length syn))
    as (t' & ED & D1 & D2 & D3 & D4 & D5 & D6 & D7 & D8 & D9 & D10 & D11 & D12).
  { exact HF. }
  { rewrite C1, B1. unfold fsize, flen. rewrite A1, concat_enc_length. cbn [length]. lia. }
  { rewrite C4. exact B2. } { exact H8a. } { rewrite C2. exact B3. } { rewrite C3, C2. exact B4. }
  { rewrite C5. exact B5. } { rewrite C6. exact B6. } { rewrite C7. exact B7. } { exact Htl. } { exact Hfiles. }
  { unfold two64, two32 in *. lia. } { subst hid. lia. }
  exists t'.
  (* the composed result *)
  assert (EQ : crash_reopen true t ci cd cm = Ok t').
  { unfold crash_reopen, open_table. fold data'. fold u. rewrite EB. cbv iota beta.
    rewrite EC. cbv iota beta. exact ED. }
  (* the surviving data of synced entries *)
  assert (Hdata : forall e, In e syn ->
       exists f f', dget (efile e) (t_data t) = Some f /\ dget (efile e) (t_data t') = Some f' /\
                    eoff e <= fsize f' /\ fdur f' = flen f' /\
                    firstn (N.to_nat (eoff e)) (fbytes f') = firstn (N.to_nat (eoff e)) (fbytes f)).
  { intros e He. destruct (DL e He) as [f [Hf Hdur]]. destruct (Hmono e He) as (M1 & M2 & M3).
    destruct (crash_file_covers f _ _ (eoff e) (Hcd _ _ Hf) (DI _ _ Hf) Hdur) as [Cv Cb].
    exists f. destruct (N.eq_dec (efile e) (efile lastE)) as [E|E].
    - (* in the head file *)
      exists (f_sync f8). rewrite E in *. specialize (M3 eq_refl).
      destruct Hhf as [f0 [Hf0 Hhf0]]; [intros Z; rewrite Z in He; destruct He|].
      assert (f0 = f) by congruence. subst f0.
      repeat split; try assumption.
      + change (fsize (f_sync f8)) with (fsize f8). lia.
      + cbn [f_sync fbytes]. rewrite H8d, Hhf0. rewrite firstn_firstn. rewrite Nat.min_l by lia. exact Cb.
    - exists (crash_file f (fst (cd (efile e))) (snd (cd (efile e)))).
      repeat split; try assumption.
      rewrite D11 by exact E. rewrite H8b by exact E. rewrite B11 by exact E. rewrite A4, Hd', Hf. reflexivity. }
  (* rest_of t' *)
  assert (Hrest' : rest_of t' = syn).
  { apply rest_of_inv.
    - rewrite D7, D5, D2. cbn [f_sync fbytes]. rewrite C1, B1. exact A1.
    - cbn [forallb] in Hwfh. apply andb_prop in Hwfh. exact (proj2 Hwfh).
    - rewrite D5. exact Ht.
    - rewrite D2. exact Ho. }
  split; [exact EQ|]. split.
  2:{ split; [exact D2|]. split; [exact D5|]. split; [exact D1|]. split; [rewrite D3, D1; reflexivity|].
      split; [exact Hrest'|]. split; [exact D4|]. split.
      - intros e He. destruct (Hdata e He) as (f & f' & X1 & X2 & X3 & _ & X5). exists f, f'. repeat split; assumption.
      - split; [exact D9|]. rewrite D8, D3. cbn [mvtail mflush]. split; [reflexivity|]. split; [reflexivity|exact D6]. }
  (* DInv t' *)
  assert (Hsyn' : synced_of t' = syn).
  { unfold synced_of, nsynced. rewrite Hrest', D8. cbn [mflush]. rewrite HF.
    replace (N.to_nat (6 * N.of_nat (S (length syn)) / 6) - 1)%nat with (length syn).
    - apply firstn_all.
    - rewrite N.mul_comm, N.div_mul by lia. lia. }
  assert (Hwfs : forallb entry_wf syn = true) by (cbn [forallb] in Hwfh; apply andb_prop in Hwfh; exact (proj2 Hwfh)).
  assert (Hall' : forall id g, dget id (t_data t') = Some g -> fdur g = flen g).
  { intros id g Hg. destruct (N.eq_dec id (efile lastE)) as [->|Ne].
    - rewrite D10 in Hg. inversion Hg. reflexivity.
    - rewrite D11 in Hg by exact Ne. rewrite H8b in Hg by exact Ne. rewrite B11 in Hg by exact Ne.
      rewrite A4, Hd' in Hg. destruct (dget id (t_data t)) as [g0|]; [|discriminate].
      cbn [option_map] in Hg. inversion Hg. reflexivity. }
  refine (conj _ (conj _ (conj _ (conj _ (conj _ (conj _ (conj _ (conj _ _)))))))).
  - (* IdxInv *)
    unfold IdxInv, core, IdxInvC. rewrite D1, D2, D3, D4, D5, D6, D7, D9, D8.
    exists syn. cbn [f_sync fbytes fdur mflush mver]. rewrite C1, B1, A1.
    assert (Hfl : flen (t_index u) = (6 * S (length syn))%nat).
    { unfold flen. rewrite A1, concat_enc_length. reflexivity. }
    change (flen (f_sync (t_index u))) with (flen (t_index u)). rewrite Hfl.
    repeat split; try assumption; try reflexivity; try lia.
    destruct (nil_dec syn) as [Es|Es].
    + assert (eoff lastE = 0) by (subst lastE; unfold lastF; fold syn; rewrite Es; reflexivity). lia.
    + assert (S : small maxsz lastE = true).
      { subst lastE. unfold lastF. fold syn. apply forallb_last; [exact Hsms|exact Es]. }
      unfold small in S. apply N.leb_le in S. exact S.
  - (* every entry points inside a file *)
    intros e He. rewrite Hrest' in He. destruct (Hdata e He) as (f & f' & X1 & X2 & X3 & _). exists f'. split; assumption.
  - intros id g Hg _. apply (Hall' id). exact Hg.
  - intros id g Hg. rewrite (Hall' _ _ Hg). lia.
  - exists (f_sync f8). rewrite D4, D6. split; [exact D10|]. change (fsize (f_sync f8)) with (fsize f8). exact H8c.
  - intros e He. rewrite Hsyn' in He. destruct (Hdata e He) as (f & f' & X1 & X2 & X3 & X4 & _).
    exists f'. split; [exact X2|]. rewrite X4. exact X3.
  - intros id [Rlo Rhi]. rewrite D5 in Rlo. rewrite D4 in Rhi. split; [|apply D12; lia].
    destruct (N.eq_dec id (efile lastE)) as [->|Ne]; [exists (f_sync f8); exact D10|].
    destruct (Hfiles id ltac:(lia)) as [g Hg]. exists g. rewrite D11 by exact Ne. exact Hg.
  - intros id Hid. apply D12 in Hid.
    destruct (N.eq_dec id (efile lastE)) as [->|Ne]; [exists (f_sync f8); exact D10|].
    destruct (Hfiles id ltac:(lia)) as [g Hg]. exists g. rewrite D11 by exact Ne. exact Hg.
  - intros id Hid. apply D12 in Hid. rewrite D4. lia.
Qed.
