(* Storage/FreezerTableInv.v — the index invariant of the freezer-table model and its
   preservation by every operation (append batches, truncateHead, truncateTail, Sync and
   the two interior points of doSync), under the history guard "every stored item is at most
   maxFileSize bytes" (plus the magnitude bounds of the on-disk format: file numbers < 2^16,
   item numbers < 2^32, maxFileSize < 2^32). *)
From GV Require Import Lib.Tactics Storage.FreezerTable Storage.FreezerTableProofs.
Local Open Scope N_scope.

(* the part of the table state the index invariant talks about: everything but the data
   files and the set of open handles *)
Definition coreT : Type := (N * N * N * N * N * N * file * meta * meta)%type.
Definition core (t : table) : coreT :=
  (t_items t, t_offset t, t_hidden t, t_head t, t_tail t, t_headbytes t, t_index t, t_mcur t, t_msyn t).

Section Inv.
Variable maxsz : N.
Variable encode : list N -> list N.

Definition small (e : entry) : bool := eoff e <=? maxsz.

Definition IdxInvC (c : coreT) : Prop :=
  let '(items, offset, hidden, head, tail, hb, idx, mc, ms) := c in
  exists rest,
    fbytes idx = concat (map enc_entry (mkE tail offset :: rest)) /\
    forallb entry_wf rest = true /\ tail < 65536 /\ offset < two32 /\
    check_index (mkE tail offset :: rest) = None /\
    items = offset + N.of_nat (length rest) /\ items < two32 /\
    head = efile (last rest (mkE tail 0)) /\
    (rest <> [] -> hb = eoff (last rest (mkE tail 0))) /\
    hb <= maxsz /\ forallb small rest = true /\
    mflush mc mod 6 = 0 /\ 6 <= mflush mc /\ mflush mc <= N.of_nat (fdur idx) /\
    (fdur idx <= flen idx)%nat /\
    mflush ms = mflush mc /\ mver mc = 2 /\ mver ms = 2 /\
    offset <= hidden /\ hidden <= items.

Definition IdxInv (t : table) : Prop := IdxInvC (core t).

(* ---------- operations that only touch data files / handles keep the core ---------- *)
Lemma core_data_upd t id g t' : data_upd t id g = Ok t' -> core t' = core t.
Proof. unfold data_upd. destruct (dget id (t_data t)); intros H; inversion H; reflexivity. Qed.
Lemma core_open_append t id : core (open_append t id) = core t.
Proof. unfold open_append. destruct (existsb _ _); [reflexivity|]. destruct (dget id (t_data t)); reflexivity. Qed.
Lemma core_open_trunc t id : core (open_trunc t id) = core t.
Proof. unfold open_trunc. destruct (existsb _ _); reflexivity. Qed.
Lemma core_release_file t id : core (release_file t id) = core t.
Proof. reflexivity. Qed.
Lemma core_release_where t p r : core (release_where t p r) = core t.
Proof. unfold release_where. destruct r; reflexivity. Qed.

(* ---------- bytes of an encoded index ---------- *)
Lemma concat_enc_app a b :
  concat (map enc_entry (a ++ b)) = concat (map enc_entry a) ++ concat (map enc_entry b).
Proof. rewrite map_app, concat_app. reflexivity. Qed.

Lemma dec_enc e : entry_wf e = true -> dec_entry (enc_entry e) = Some e.
Proof. intros H. unfold enc_entry, dec_entry. rewrite entry_roundtrip by exact H. reflexivity. Qed.

Lemma read6_enc es : forall k,
  forallb entry_wf es = true ->
  read6 (concat (map enc_entry es)) (6 * N.of_nat k) = nth_error es k.
Proof.
  induction es as [|e es IH]; intros k H.
  - unfold read6. cbn [map concat]. rewrite skipn_nil. destruct k; reflexivity.
  - cbn [forallb] in H. apply andb_prop in H. destruct H as [He Hes].
    destruct k as [|k].
    + unfold read6. cbn [map concat N.of_nat N.mul N.to_nat skipn nth_error].
      rewrite firstn_app_le by (rewrite enc_entry_length; lia).
      rewrite enc_entry_length. cbn [Nat.sub firstn]. rewrite app_nil_r. apply dec_enc. exact He.
    + cbn [nth_error]. rewrite <- IH by exact Hes. unfold read6. f_equal. f_equal.
      cbn [map concat]. replace (N.to_nat (6 * N.of_nat (S k))) with (6 + N.to_nat (6 * N.of_nat k))%nat by lia.
      unfold enc_entry at 1. cbn [app skipn plus]. reflexivity.
Qed.

Lemma nth_error_last {A} (l : list A) d : l <> [] -> nth_error l (length l - 1) = Some (last l d).
Proof.
  induction l as [|a l IH]; [congruence|]. intros _. destruct l as [|b l]; [reflexivity|].
  cbn [length]. replace (S (S (length l)) - 1)%nat with (S (length (b :: l) - 1)) by (cbn [length]; lia).
  cbn [nth_error]. rewrite IH by discriminate. reflexivity.
Qed.

(* ---------- chains ---------- *)
Lemma check_tail_none_off l : forall p o1 o2, check_tail p l o1 = None -> check_tail p l o2 = None.
Proof.
  induction l as [|e l IH]; intros p o1 o2 H; [reflexivity|]. cbn [check_tail] in *.
  destruct (check_items p e); [eapply IH; eauto | discriminate].
Qed.

Definition first_ok (h e : entry) : bool := (efile e =? efile h) || (efile e =? efile h + 1).

(* validity of an index = first-entry rule + pairwise rule along the rest *)
Lemma check_index_cons2 h e1 r :
  check_index (h :: e1 :: r) = None <-> (first_ok h e1 = true /\ check_tail e1 r 12 = None).
Proof.
  cbn [check_index]. unfold first_ok.
  destruct (efile e1 =? efile h); destruct (efile e1 =? efile h + 1); cbn; split; intros H;
    try discriminate; try tauto; try (destruct H; discriminate).
Qed.

(* appending one entry to a valid index *)
Lemma check_index_snoc h rest e :
  check_index (h :: rest) = None ->
  (match rest with [] => first_ok h e | _ => check_items (last rest h) e end) = true ->
  check_index (h :: rest ++ [e]) = None.
Proof.
  intros Hv He. destruct rest as [|e1 r].
  - cbn [app]. apply check_index_cons2. split; [exact He | reflexivity].
  - apply check_index_cons2 in Hv. destruct Hv as [H1 H2].
    cbn [app]. apply check_index_cons2. split; [exact H1|].
    rewrite check_tail_app, H2. cbn [check_tail]. rewrite last_cons in He. rewrite He. reflexivity.
Qed.

(* a suffix of a valid index, under a new tail marker whose file is the file of its first entry *)
Lemma check_index_suffix h rest k h' :
  check_index (h :: rest) = None ->
  (match skipn k rest with [] => True | e :: _ => first_ok h' e = true end) ->
  check_index (h' :: skipn k rest) = None.
Proof.
  intros Hv Hf. destruct (skipn k rest) as [|e r] eqn:E; [reflexivity|].
  apply check_index_cons2. split; [exact Hf|].
  destruct k as [|k]; cbn [skipn] in E.
  - subst rest. apply check_index_cons2 in Hv. exact (proj2 Hv).
  - destruct rest as [|e1 r1]; [discriminate|]. cbn [skipn] in E.
    apply check_index_cons2 in Hv. destruct Hv as [_ Hc].
    rewrite <- (firstn_skipn k r1) in Hc. rewrite E in Hc.
    rewrite check_tail_app in Hc. destruct (check_tail e1 (firstn k r1) 12); [discriminate|].
    cbn [check_tail] in Hc. destruct (check_items _ e); [|discriminate].
    eapply check_tail_none_off; eauto.
Qed.


Ltac inv_destruct H :=
  destruct H as (rest & Hb & Hwf & Ht & Ho & Hv & Hi & Hi32 & Hh & Hhb & Hhm & Hsm & Hm6 & H6 & Hfd & Hfw
                 & Hms & Hv1 & Hv2 & Hoh & Hhi).

Lemma idx_size idx tail offset rest :
  fbytes idx = concat (map enc_entry (mkE tail offset :: rest)) ->
  flen idx = (6 * S (length rest))%nat.
Proof. intros H. unfold flen. rewrite H, concat_enc_length. reflexivity. Qed.

(* ---------- doSync and its interior points ---------- *)
Lemma do_sync_core t t' :
  do_sync t = Ok t' ->
  core t' = (t_items t, t_offset t, t_hidden t, t_head t, t_tail t, t_headbytes t, f_sync (t_index t),
             mkMeta 2 (mvtail (t_mcur t)) (fsize (t_index t)), mkMeta 2 (mvtail (t_mcur t)) (fsize (t_index t))).
Proof.
  unfold do_sync, sync_head, data_upd. cbn.
  destruct (dget (t_head t) (t_data t)); intros H; inversion H; reflexivity.
Qed.

Lemma inv_do_sync t t' : IdxInv t -> do_sync t = Ok t' -> IdxInv t'.
Proof.
  unfold IdxInv. intros H E. rewrite (do_sync_core _ _ E). unfold core, IdxInvC in *.
  inv_destruct H. exists rest. pose proof (idx_size _ _ _ _ Hb) as Hl.
  cbn [fbytes f_sync fdur mflush mver]. unfold fsize.
  repeat split; try assumption; try reflexivity; try lia.
Qed.

Lemma inv_sync_index t : IdxInv t -> IdxInv (sync_index t).
Proof.
  unfold IdxInv, core, IdxInvC, sync_index. cbn. intros H. inv_destruct H. exists rest.
  unfold flen in *. repeat split; try assumption; try lia.
Qed.

Lemma inv_core t t' : core t' = core t -> IdxInv t -> IdxInv t'.
Proof. unfold IdxInv. intros ->. tauto. Qed.


Lemma core_proj a b : core a = core b ->
  t_items a = t_items b /\ t_offset a = t_offset b /\ t_hidden a = t_hidden b /\ t_head a = t_head b /\
  t_tail a = t_tail b /\ t_headbytes a = t_headbytes b /\ t_index a = t_index b /\
  t_mcur a = t_mcur b /\ t_msyn a = t_msyn b.
Proof. unfold core. intros H. inversion H. repeat split; assumption. Qed.

Lemma forallb_firstn {A} (p : A -> bool) k l : forallb p l = true -> forallb p (firstn k l) = true.
Proof.
  intros H. rewrite <- (firstn_skipn k l) in H. rewrite forallb_app in H.
  apply andb_prop in H. exact (proj1 H).
Qed.
Lemma forallb_skipn {A} (p : A -> bool) k l : forallb p l = true -> forallb p (skipn k l) = true.
Proof.
  intros H. rewrite <- (firstn_skipn k l) in H. rewrite forallb_app in H.
  apply andb_prop in H. exact (proj2 H).
Qed.
Lemma forallb_last {A} (p : A -> bool) l d : forallb p l = true -> l <> [] -> p (last l d) = true.
Proof.
  intros H Hne. rewrite forallb_forall in H. apply H.
  destruct (exists_last Hne) as [l' [x ->]]. rewrite last_last. apply in_or_app. right. left. reflexivity.
Qed.

(* ---------- resetTo ---------- *)
Lemma reset_to_core t n t' :
  reset_to t n = Ok t' ->
  let nh := (t_head t + 1) mod two32 in
  core t' = (n, n, n, nh, nh, 0, f_synced (enc_entry (mkE nh (n mod two32))), mkMeta 2 n 6, mkMeta 2 n 6).
Proof.
  unfold reset_to. destruct (do_sync t) as [t1|] eqn:E; [|discriminate]. intros H. inversion H; subst; clear H.
  pose proof (do_sync_core _ _ E) as C. unfold core in C. inversion C as [[C1 C2 C3 C4 C5 C6 C7 C8 C9]].
  cbv zeta. rewrite C4.
  match goal with |- core (w_counters ?X _ _ _ _ _ _) = _ => set (X0 := X) end.
  assert (CX : core X0 = core (set_flush (set_vtail (w_index t1 (f_synced (enc_entry (mkE ((t_head t + 1) mod two32) (n mod two32))))) n true) 6)).
  { subst X0. etransitivity; [|apply (core_open_trunc _ ((t_head t + 1) mod two32))]. reflexivity. }
  apply core_proj in CX. destruct CX as (_ & _ & _ & _ & _ & _ & X7 & X8 & X9).
  unfold core. cbn [w_counters t_items t_offset t_hidden t_head t_tail t_headbytes t_index t_mcur t_msyn].
  rewrite X7, X8, X9. reflexivity.
Qed.

Lemma inv_reset_to t n t' :
  n < two32 -> t_head t + 1 < 65536 -> reset_to t n = Ok t' -> IdxInvC (core t').
Proof.
  intros Hn Hh E. rewrite (reset_to_core _ _ _ E). cbv zeta.
  assert (Hm : (t_head t + 1) mod two32 = t_head t + 1) by (apply N.mod_small; unfold two32; lia).
  rewrite Hm. rewrite (N.mod_small n two32) by exact Hn.
  unfold IdxInvC. exists []. cbn [map concat app length last efile eoff fbytes f_synced fdur forallb mflush mver].
  rewrite app_nil_r. unfold flen. cbn [fbytes]. rewrite enc_entry_length.
  repeat split; try reflexivity; try lia; try congruence.
Qed.


(* ---------- truncateHead ---------- *)
Lemma inv_truncate_head t n t' :
  IdxInv t -> n < two32 -> t_head t + 1 < 65536 -> truncate_head t n = Ok t' -> IdxInv t'.
Proof.
  intros HI Hn Hhd E. unfold truncate_head in E.
  destruct (N.leb_spec (t_items t) n) as [L1|L1]; [inversion E; subst; exact HI|].
  destruct (N.ltb_spec n (t_hidden t)) as [L2|L2].
  { destruct (t_items t =? t_hidden t); [|discriminate]. eapply inv_reset_to; eauto. }
  cbv zeta in E.
  unfold IdxInv, core, IdxInvC in HI. inv_destruct HI.
  set (len := n - t_offset t) in *. set (k := N.to_nat len).
  assert (Hk : (k <= length rest)%nat) by (subst k len; lia).
  assert (Hlen : len = N.of_nat k) by (subst k; lia).
  pose proof (idx_size _ _ _ _ Hb) as Hsz.
  assert (Hbytes : fbytes (f_trunc (t_index t) ((len + 1) * 6))
                   = concat (map enc_entry (mkE (t_tail t) (t_offset t) :: firstn k rest))).
  { unfold f_trunc. cbn [fbytes]. replace (N.to_nat ((len + 1) * 6)) with (6 * S k)%nat by lia.
    rewrite Hsz. replace (6 * S k - 6 * S (length rest))%nat with 0%nat by lia. cbn [repeat].
    rewrite app_nil_r. rewrite Hb, firstn_concat_enc. reflexivity. }
  set (rest' := firstn k rest) in *.
  assert (Hl' : length rest' = k) by (subst rest'; rewrite firstn_length; lia).
  set (T1 := sync_index (w_index t (f_trunc (t_index t) ((len + 1) * 6)))) in E.
  set (T2 := if (len + 1) * 6 <? mflush (t_mcur T1) then set_flush T1 ((len + 1) * 6) else T1) in E.
  assert (HT2 : t_items T2 = t_items t /\ t_offset T2 = t_offset t /\ t_hidden T2 = t_hidden t /\
                t_tail T2 = t_tail t /\ t_index T2 = f_sync (f_trunc (t_index t) ((len + 1) * 6)) /\
                mflush (t_mcur T2) mod 6 = 0 /\ 6 <= mflush (t_mcur T2) /\ mflush (t_mcur T2) <= (len + 1) * 6 /\
                mflush (t_msyn T2) = mflush (t_mcur T2) /\ mver (t_mcur T2) = 2 /\ mver (t_msyn T2) = 2).
  { subst T2 T1. cbn [sync_index w_index t_mcur].
    destruct (N.ltb_spec ((len + 1) * 6) (mflush (t_mcur t))); cbn; repeat split; try assumption; try reflexivity; try lia. }
  destruct HT2 as (A1 & A2 & A3 & A4 & A5 & A6 & A7 & A8 & A9 & A10 & A11).
  match type of E with (match ?X with _ => _ end) = _ => destruct X as [ex|] eqn:EX end; [|discriminate].
  assert (Hex : ex = last rest' (mkE (t_tail t) 0)).
  { destruct (N.eqb_spec len 0) as [Z|Z].
    - inversion EX; subst ex. assert (k = 0%nat) by lia. destruct rest'; [rewrite A4; reflexivity|cbn in Hl'; lia].
    - rewrite A5 in EX. cbn [f_sync fbytes] in EX. rewrite Hbytes in EX.
      replace (len * 6) with (6 * N.of_nat k) in EX by lia.
      rewrite read6_enc in EX.
      + destruct k as [|k0]; [lia|]. cbn [nth_error] in EX.
        replace k0 with (length rest' - 1)%nat in EX by lia.
        rewrite (nth_error_last rest' (mkE (t_tail t) 0)) in EX by (intros Z0; rewrite Z0 in Hl'; cbn in Hl'; lia).
        inversion EX. reflexivity.
      + cbn [forallb]. unfold entry_wf at 1. cbn [efile eoff].
        replace (t_tail t <? 65536) with true by (symmetry; apply N.ltb_lt; exact Ht).
        replace (t_offset t <? two32) with true by (symmetry; apply N.ltb_lt; exact Ho).
        cbn. apply forallb_firstn. exact Hwf. }
  match type of E with context [data_upd ?X _ _] => set (T3 := X) in E end.
  assert (HT3 : core T3 = (t_items T2, t_offset T2, t_hidden T2, efile ex, t_tail T2, t_headbytes T2,
                           t_index T2, t_mcur T2, t_msyn T2)).
  { subst T3. destruct (N.eqb_spec (efile ex) (t_head T2)) as [Q|Q].
    - unfold core. rewrite <- Q. reflexivity.
    - match goal with |- core (w_counters ?C _ _ _ _ _ _) = _ => set (C0 := C) end.
      assert (CC : core C0 = core T2).
      { subst C0. unfold release_after. rewrite core_release_where, core_open_append, core_release_file. reflexivity. }
      apply core_proj in CC. destruct CC as (C1 & C2 & C3 & C4 & C5 & C6 & C7 & C8 & C9).
      unfold core. cbn [w_counters t_items t_offset t_hidden t_head t_tail t_headbytes t_index t_mcur t_msyn].
      rewrite C1, C2, C3, C5, C6, C7, C8, C9. reflexivity. }
  destruct (data_upd T3 (t_head T3) _) as [t4|] eqn:ED; [|discriminate].
  apply core_data_upd in ED. rewrite HT3 in ED. apply (f_equal Some) in E.
  assert (Et : t' = w_counters t4 n (t_offset t4) (t_hidden t4) (t_head t4) (t_tail t4) (eoff ex)) by (inversion E; reflexivity).
  unfold core in ED. inversion ED as [[D1 D2 D3 D4 D5 D6 D7 D8 D9]].
  unfold IdxInv, core, IdxInvC. rewrite Et.
  cbn [w_counters t_items t_offset t_hidden t_head t_tail t_headbytes t_index t_mcur t_msyn].
  rewrite D2, D3, D4, D5, D7, D8, D9, A2, A3, A4, A5.
  exists rest'. cbn [f_sync fbytes fdur]. rewrite Hbytes.
  assert (Hwf' : forallb entry_wf rest' = true) by (apply forallb_firstn; exact Hwf).
  assert (Hsm' : forallb small rest' = true) by (apply forallb_firstn; exact Hsm).
  assert (Hv' : check_index (mkE (t_tail t) (t_offset t) :: rest') = None).
  { apply (check_index_firstn _ (S k)) in Hv. exact Hv. }
  assert (Hflen : flen (f_trunc (t_index t) ((len + 1) * 6)) = (6 * S k)%nat).
  { unfold flen. rewrite Hbytes, concat_enc_length. cbn [length]. rewrite Hl'. reflexivity. }
  rewrite Hflen.
  repeat split; try assumption; try lia.
  - rewrite Hex. reflexivity.
  - intros _. rewrite Hex. reflexivity.
  - rewrite Hex. destruct rest' as [|x r] eqn:R.
    + cbn. lia.
    + assert (S : small (last (x :: r) (mkE (t_tail t) 0)) = true) by (apply forallb_last; [exact Hsm'|discriminate]).
      unfold small in S. apply N.leb_le in S. exact S.
  - change (flen (f_sync (f_trunc (t_index t) ((len + 1) * 6)))) with (flen (f_trunc (t_index t) ((len + 1) * 6))).
    rewrite Hflen. lia.
Qed.


(* ---------- append batches ---------- *)
Lemma last_entry_eta (l : list entry) d h o :
  h = efile (last l d) -> o = eoff (last l d) -> last l d = mkE h o.
Proof. intros -> ->. destruct (last l d); reflexivity. Qed.

(* one more entry at the end of the index *)
Lemma inv_snoc items offset hidden head tail hb idx mc ms e idx' :
  IdxInvC (items, offset, hidden, head, tail, hb, idx, mc, ms) ->
  entry_wf e = true -> eoff e <= maxsz -> items + 1 < two32 ->
  ((efile e = head /\ hb <= eoff e) \/ (efile e = head + 1 /\ eoff e <> 0)) ->
  fbytes idx' = fbytes idx ++ enc_entry e -> fdur idx' = fdur idx ->
  IdxInvC (items + 1, offset, hidden, efile e, tail, eoff e, idx', mc, ms).
Proof.
  unfold IdxInvC. intros H Hwe Hse Hit Hc Hb' Hd'. inv_destruct H.
  exists (rest ++ [e]).
  assert (Hlast : last (rest ++ [e]) (mkE tail 0) = e) by apply last_last.
  assert (Hfl : flen idx' = (flen idx + 6)%nat).
  { unfold flen. rewrite Hb', app_length, enc_entry_length. reflexivity. }
  rewrite Hlast, Hb', Hd', Hb, Hfl.
  rewrite !forallb_app. cbn [forallb]. rewrite Hwf, Hwe, Hsm.
  assert (Hse' : small e = true) by (unfold small; apply N.leb_le; exact Hse). rewrite Hse'.
  rewrite app_length. cbn [length].
  repeat split; try assumption; try reflexivity; try lia.
  - change (mkE tail offset :: rest ++ [e]) with ((mkE tail offset :: rest) ++ [e]).
    rewrite concat_enc_app. cbn [map concat]. rewrite app_nil_r. reflexivity.
  - apply check_index_snoc; [exact Hv|].
    destruct rest as [|r0 rr] eqn:R.
    + cbn [last] in Hh. unfold first_ok. cbn [efile]. subst head.
      destruct Hc as [[-> _]|[-> _]]; rewrite N.eqb_refl; [reflexivity | apply orb_true_r].
    + rewrite <- R in *. assert (Hne : rest <> []) by (rewrite R; discriminate).
      specialize (Hhb Hne).
      assert (Hl : last rest (mkE tail offset) = mkE head hb).
      { rewrite R. rewrite last_cons. rewrite R in Hh, Hhb. rewrite last_cons in Hh, Hhb.
        apply last_entry_eta; assumption. }
      rewrite Hl. unfold check_items. cbn [efile eoff].
      destruct Hc as [[Ef Eo]|[Ef Eo]]; rewrite Ef.
      * rewrite N.eqb_refl. cbn.
        replace (eoff e <? hb) with false by (symmetry; apply N.ltb_ge; exact Eo). cbn.
        replace (head =? head + 1) with false by (symmetry; apply N.eqb_neq; lia). reflexivity.
      * replace (head + 1 =? head) with false by (symmetry; apply N.eqb_neq; lia).
        rewrite N.eqb_refl. cbn.
        replace (eoff e =? 0) with false by (symmetry; apply N.eqb_neq; exact Eo). reflexivity.
Qed.


(* the core the table would have if the pending batch were committed now *)
Definition vcore (t : table) (b : batch) : coreT :=
  (b_cur b, t_offset t, t_hidden t, t_head t, t_tail t, t_headbytes t + N.of_nat (length (b_data b)),
   f_write (t_index t) (b_index b), t_mcur t, t_msyn t).
Definition BInv (tb : table * batch) : Prop := IdxInvC (vcore (fst tb) (snd tb)).

(* IdxInvC only looks at the bytes and the watermark of the index file *)
Lemma inv_file_ext items offset hidden head tail hb idx idx' mc ms :
  fbytes idx' = fbytes idx -> fdur idx' = fdur idx ->
  IdxInvC (items, offset, hidden, head, tail, hb, idx, mc, ms) ->
  IdxInvC (items, offset, hidden, head, tail, hb, idx', mc, ms).
Proof.
  unfold IdxInvC, flen. intros Hb' Hd' H. inv_destruct H. exists rest. rewrite Hb', Hd'.
  repeat split; assumption.
Qed.

Lemma binv_start t : IdxInv t -> BInv (t, mkB [] [] (t_items t)).
Proof.
  unfold IdxInv, BInv, vcore, core. cbn [fst snd b_cur b_data b_index length N.of_nat].
  intros H. rewrite N.add_0_r.
  eapply inv_file_ext; [| |exact H]; cbn; [apply app_nil_r | reflexivity].
Qed.

Lemma commit_core t b t' b' :
  commit t b = Ok (t', b') -> core t' = vcore t b /\ b' = mkB [] [] (b_cur b).
Proof.
  unfold commit. destruct (data_upd t (t_head t) _) as [t1|] eqn:E; [|discriminate].
  intros H. inversion H; subst; clear H. apply core_data_upd, core_proj in E.
  destruct E as (E1 & E2 & E3 & E4 & E5 & E6 & E7 & E8 & E9). split; [|reflexivity].
  unfold core, vcore. cbn [w_counters w_index t_items t_offset t_hidden t_head t_tail t_headbytes t_index t_mcur t_msyn].
  rewrite E2, E3, E4, E5, E6, E7, E8, E9. reflexivity.
Qed.

Lemma advance_head_core t t' :
  advance_head t = Ok t' ->
  core t' = (t_items t, t_offset t, t_hidden t, (t_head t + 1) mod two32, t_tail t, 0, f_sync (t_index t),
             mkMeta 2 (mvtail (t_mcur t)) (fsize (t_index t)), mkMeta 2 (mvtail (t_mcur t)) (fsize (t_index t))).
Proof.
  unfold advance_head. destruct (do_sync t) as [t1|] eqn:E; [|discriminate].
  cbv zeta. destruct (sync_head _) as [t3|] eqn:E3; [|discriminate].
  intros H. inversion H; subst; clear H.
  unfold sync_head in E3. apply core_data_upd in E3. rewrite core_open_trunc in E3.
  rewrite (do_sync_core _ _ E) in E3. pose proof (do_sync_core _ _ E) as C.
  unfold core in C, E3. inversion C. inversion E3.
  unfold core. cbn [w_counters t_items t_offset t_hidden t_head t_tail t_headbytes t_index t_mcur t_msyn].
  congruence.
Qed.


Lemma inv_sync_tuple items offset hidden head tail hb idx mc ms :
  IdxInvC (items, offset, hidden, head, tail, hb, idx, mc, ms) ->
  IdxInvC (items, offset, hidden, head, tail, hb, f_sync idx,
           mkMeta 2 (mvtail mc) (fsize idx), mkMeta 2 (mvtail mc) (fsize idx)).
Proof.
  unfold IdxInvC. intros H. inv_destruct H. exists rest. pose proof (idx_size _ _ _ _ Hb) as Hl.
  cbn [fbytes f_sync fdur mflush mver]. unfold fsize.
  repeat split; try assumption; try reflexivity; try lia.
Qed.

Lemma inv_hb_le items offset hidden head tail hb idx mc ms :
  IdxInvC (items, offset, hidden, head, tail, hb, idx, mc, ms) -> hb <= maxsz.
Proof. unfold IdxInvC. intros H. inv_destruct H. exact Hhm. Qed.

Lemma binv_append_item t b blob t' b' :
  maxsz < two32 -> BInv (t, b) ->
  N.of_nat (length (encode blob)) <= maxsz -> t_head t + 1 < 65536 -> b_cur b + 1 < two32 ->
  append_item maxsz encode (t, b) blob = Ok (t', b') ->
  BInv (t', b') /\ b_cur b' = b_cur b + 1 /\ t_head t' <= t_head t + 1.
Proof.
  intros Hmax HB Hsz Hhd Hcur E. unfold append_item in E. cbv zeta in E.
  set (data := encode blob) in *. set (isz := N.of_nat (length data)) in *.
  set (ioff := t_headbytes t + N.of_nat (length (b_data b))) in *.
  unfold BInv in HB. cbn [fst snd] in HB. pose proof (inv_hb_le _ _ _ _ _ _ _ _ _ HB) as Hio. fold ioff in Hio.
  assert (Hisz32 : isz < two32) by lia.
  destruct (N.ltb_spec maxsz (ioff + isz)) as [R|R].
  - (* roll over *)
    destruct (commit t b) as [[t1 b1]|] eqn:EC; [|discriminate]. cbn [fst snd] in E.
    destruct (advance_head t1) as [t2|] eqn:EA; [|discriminate].
    inversion E; subst t' b'; clear E.
    destruct (commit_core _ _ _ _ EC) as [C1 ->]. pose proof (advance_head_core _ _ EA) as C2.
    rewrite <- C1 in HB. unfold core in HB. apply inv_sync_tuple in HB.
    unfold vcore, core in C1. inversion C1 as [[Q1 Q2 Q3 Q4 Q5 Q6 Q7 Q8 Q9]].
    unfold core in C2. inversion C2 as [[P1 P2 P3 P4 P5 P6 P7 P8 P9]].
    assert (Hm : (t_head t1 + 1) mod two32 = t_head t1 + 1) by (apply N.mod_small; unfold two32; lia).
    set (e := mkE (t_head t1 + 1) isz).
    pose proof (inv_snoc _ _ _ _ _ _ _ _ _ e (f_write (f_sync (t_index t1)) (enc_entry e)) HB) as S.
    cbn [efile eoff] in S.
    assert (S' : IdxInvC (t_items t1 + 1, t_offset t1, t_hidden t1, t_head t1 + 1, t_tail t1, isz,
                          f_write (f_sync (t_index t1)) (enc_entry e),
                          mkMeta 2 (mvtail (t_mcur t1)) (fsize (t_index t1)),
                          mkMeta 2 (mvtail (t_mcur t1)) (fsize (t_index t1)))).
    { apply S.
      - unfold entry_wf, e. cbn [efile eoff]. apply andb_true_intro. split; apply N.ltb_lt; lia.
      - unfold e; cbn [efile eoff]; lia.
      - lia.
      - right. unfold e; cbn [efile eoff]. split; [reflexivity|lia].
      - reflexivity.
      - reflexivity. }
    split; [|split].
    + unfold BInv, vcore. cbn [fst snd b_data b_index b_cur app].
      rewrite P2, P3, P4, P5, P6, P7, P9, P8, Hm. rewrite N.add_0_l.
      rewrite (N.mod_small isz two32) by exact Hisz32. fold isz. rewrite ?P1. exact S'.
    + reflexivity.
    + rewrite P4, Hm, Q4. lia.
  - (* same file *)
    inversion E; subst t' b'; clear E.
    assert (Hm : (ioff + isz) mod two32 = ioff + isz) by (apply N.mod_small; lia).
    set (e := mkE (t_head t) (ioff + isz)).
    pose proof (inv_snoc _ _ _ _ _ _ _ _ _ e (f_write (t_index t) (b_index b ++ enc_entry e)) HB) as S.
    cbn [efile eoff] in S.
    split; [|split; [reflexivity|lia]].
    unfold BInv, vcore. cbn [fst snd b_data b_index b_cur]. rewrite Hm. fold e.
    rewrite app_length, Nat2N.inj_add. fold isz. rewrite N.add_assoc. fold ioff.
    apply S.
    + unfold entry_wf, e. cbn [efile eoff]. apply andb_true_intro. split; apply N.ltb_lt; lia.
    + unfold e; cbn [efile eoff]; lia.
    + exact Hcur.
    + left. unfold e; cbn [efile eoff]. split; [reflexivity|lia].
    + cbn [f_write fbytes]. apply app_assoc.
    + reflexivity.
Qed.

Lemma binv_append_items blobs : forall t b t' b',
  maxsz < two32 -> BInv (t, b) ->
  Forall (fun blob => N.of_nat (length (encode blob)) <= maxsz) blobs ->
  t_head t + N.of_nat (length blobs) < 65536 -> b_cur b + N.of_nat (length blobs) < two32 ->
  append_items maxsz encode (t, b) blobs = Ok (t', b') ->
  BInv (t', b').
Proof.
  induction blobs as [|x r IH]; intros t b t' b' Hmax HB HF Hh Hc E.
  - inversion E; subst. exact HB.
  - cbn [append_items] in E. destruct (append_item maxsz encode (t, b) x) as [[t1 b1]|] eqn:E1; [|discriminate].
    inversion HF as [|? ? Hx Hr]; subst. cbn [length] in Hh, Hc.
    destruct (binv_append_item _ _ _ _ _ Hmax HB Hx ltac:(lia) ltac:(lia) E1) as (B1 & Cc & Hd).
    eapply IH; eauto; lia.
Qed.

Lemma inv_op_append t blobs t' :
  maxsz < two32 -> IdxInv t ->
  Forall (fun blob => N.of_nat (length (encode blob)) <= maxsz) blobs ->
  t_head t + N.of_nat (length blobs) < 65536 -> t_items t + N.of_nat (length blobs) < two32 ->
  op_append maxsz encode t blobs = Ok t' -> IdxInv t'.
Proof.
  intros Hmax HI HF Hh Hc E. unfold op_append in E.
  destruct (append_items maxsz encode (t, mkB [] [] (t_items t)) blobs) as [[t1 b1]|] eqn:E1; [|discriminate].
  cbn [fst snd] in E. destruct (commit t1 b1) as [[t2 b2]|] eqn:E2; [|discriminate].
  inversion E; subst; clear E.
  pose proof (binv_append_items _ _ _ _ _ Hmax (binv_start _ HI) HF Hh Hc E1) as B.
  destruct (commit_core _ _ _ _ E2) as [C _]. unfold IdxInv. cbn [fst]. rewrite C. exact B.
Qed.


(* ---------- truncateTail ---------- *)
Definition scan_cur (deleted : N) (j : nat) : N := (deleted + N.of_nat j + two64 - 1) mod two64.

Lemma tail_scan_spec h rest newtail : forall j fuel r,
  forallb entry_wf (h :: rest) = true -> efile h <> newtail ->
  eoff h + N.of_nat j < two32 -> (j < fuel)%nat ->
  tail_scan fuel (concat (map enc_entry (h :: rest))) (eoff h) newtail (scan_cur (eoff h) j) (eoff h + N.of_nat j) = Ok r ->
  eoff h <= r <= eoff h + N.of_nat j /\
  (r < eoff h + N.of_nat j -> exists e, nth_error rest (N.to_nat (r - eoff h)) = Some e /\ efile e = newtail).
Proof.
  set (d := eoff h).
  induction j as [|j IH]; intros fuel r Hwf Hne Hsmall Hfuel E.
  - destruct fuel as [|k]; [lia|]. cbn [tail_scan] in E.
    destruct (N.ltb_spec (scan_cur d 0) d) as [L|L].
    + inversion E; subst. split; [lia|]. intros; lia.
    + assert (d = 0) by (unfold scan_cur, two64, two32 in *; lia). 
      replace ((((scan_cur d 0 + two64 - d + 1) mod two64) * 6) mod two64) with (6 * N.of_nat 0) in E
        by (unfold scan_cur, two64 in *; rewrite H; reflexivity).
      rewrite read6_enc in E by exact Hwf. cbn [nth_error] in E.
      destruct (N.eqb_spec (efile h) newtail); [contradiction|]. cbn [negb] in E.
      inversion E; subst. split; [lia|]. intros; lia.
  - destruct fuel as [|k]; [lia|]. cbn [tail_scan] in E.
    assert (Hc : scan_cur d (S j) = d + N.of_nat j) by (unfold scan_cur, two64, two32 in *; lia).
    rewrite Hc in E.
    destruct (N.ltb_spec (d + N.of_nat j) d) as [L|L]; [lia|].
    replace ((((d + N.of_nat j + two64 - d + 1) mod two64) * 6) mod two64) with (6 * N.of_nat (S j)) in E
      by (unfold two64, two32 in *; lia).
    rewrite read6_enc in E by exact Hwf. cbn [nth_error] in E.
    destruct (nth_error rest j) as [pre|] eqn:EP; [|discriminate].
    destruct (N.eqb_spec (efile pre) newtail) as [Q|Q]; cbn [negb] in E.
    + replace ((d + N.of_nat j + two64 - 1) mod two64) with (scan_cur d j) in E
        by (unfold scan_cur; f_equal; lia).
      apply IH in E; try assumption; try lia.
      destruct E as [[E1 E2] E3]. split; [lia|]. intros Hr.
      destruct (N.eq_dec r (d + N.of_nat j)) as [Z|Z].
      * exists pre. split; [|exact Q]. rewrite Z. replace (N.to_nat (d + N.of_nat j - d)) with j by lia. exact EP.
      * apply E3. lia.
    + inversion E; subst. split; [lia|]. intros; lia.
Qed.


(* where the scan stops going down: the entry just below the returned position lies in another file *)
Lemma tail_scan_prev h rest newtail : forall j fuel r,
  forallb entry_wf (h :: rest) = true -> efile h <> newtail ->
  eoff h + N.of_nat j < two32 -> (j < fuel)%nat ->
  tail_scan fuel (concat (map enc_entry (h :: rest))) (eoff h) newtail (scan_cur (eoff h) j) (eoff h + N.of_nat j) = Ok r ->
  r < eoff h + N.of_nat j -> eoff h < r ->
  exists e, nth_error rest (N.to_nat (r - eoff h) - 1) = Some e /\ efile e <> newtail.
Proof.
  set (d := eoff h).
  induction j as [|j IH]; intros fuel r Hwf Hne Hsmall Hfuel E Hlt Hgt.
  - lia.
  - destruct fuel as [|k]; [lia|]. cbn [tail_scan] in E.
    assert (Hc : scan_cur d (S j) = d + N.of_nat j) by (unfold scan_cur, two64, two32 in *; lia).
    rewrite Hc in E.
    destruct (N.ltb_spec (d + N.of_nat j) d) as [L|L]; [lia|].
    replace ((((d + N.of_nat j + two64 - d + 1) mod two64) * 6) mod two64) with (6 * N.of_nat (S j)) in E
      by (unfold two64, two32 in *; lia).
    rewrite read6_enc in E by exact Hwf. cbn [nth_error] in E.
    destruct (nth_error rest j) as [pre|] eqn:EP; [|discriminate].
    destruct (N.eqb_spec (efile pre) newtail) as [Q|Q]; cbn [negb] in E.
    + replace ((d + N.of_nat j + two64 - 1) mod two64) with (scan_cur d j) in E
        by (unfold scan_cur; f_equal; lia).
      destruct (N.eq_dec r (d + N.of_nat j)) as [Z|Z].
      * (* the scan went on below position j and came back with j itself: the next step down stopped *)
        subst r. destruct j as [|j0]; [lia|].
        destruct k as [|k0]; [lia|]. cbn [tail_scan] in E.
        assert (Hc0 : scan_cur d (S j0) = d + N.of_nat j0) by (unfold scan_cur, two64, two32 in *; lia).
        rewrite Hc0 in E. destruct (N.ltb_spec (d + N.of_nat j0) d) as [L0|L0]; [lia|].
        replace ((((d + N.of_nat j0 + two64 - d + 1) mod two64) * 6) mod two64) with (6 * N.of_nat (S j0)) in E
          by (unfold two64, two32 in *; lia).
        rewrite read6_enc in E by exact Hwf. cbn [nth_error] in E.
        destruct (nth_error rest j0) as [pre0|] eqn:EP0; [|discriminate].
        destruct (N.eqb_spec (efile pre0) newtail) as [Q0|Q0]; cbn [negb] in E.
        -- exfalso. replace ((d + N.of_nat j0 + two64 - 1) mod two64) with (scan_cur d j0) in E by (unfold scan_cur; f_equal; lia).
           pose proof (tail_scan_spec h rest newtail j0 k0 _ Hwf Hne ltac:(fold d; lia) ltac:(lia) E) as [[B1 B2] _]. fold d in B2. lia.
        -- exists pre0. split; [|exact Q0]. replace (N.to_nat (d + N.of_nat (S j0) - d) - 1)%nat with j0 by lia. exact EP0.
      * pose proof (tail_scan_spec h rest newtail j k _ Hwf Hne ltac:(fold d; lia) ltac:(lia) E) as [[B1 B2] _]. fold d in B2.
        apply (IH k r); try assumption; try lia.
    + inversion E; subst. lia.
Qed.

(* wherever the scan stops above the bottom, the entry just below lies in another file *)
Lemma tail_scan_stop h rest newtail j fuel r :
  forallb entry_wf (h :: rest) = true -> efile h <> newtail ->
  eoff h + N.of_nat j < two32 -> (j < fuel)%nat ->
  tail_scan fuel (concat (map enc_entry (h :: rest))) (eoff h) newtail (scan_cur (eoff h) j) (eoff h + N.of_nat j) = Ok r ->
  eoff h < r ->
  exists e, nth_error rest (N.to_nat (r - eoff h) - 1) = Some e /\ efile e <> newtail.
Proof.
  intros Hwf Hne Hsmall Hfuel E Hgt.
  destruct (tail_scan_spec h rest newtail j fuel r Hwf Hne Hsmall Hfuel E) as [[B1 B2] _].
  destruct (N.eq_dec r (eoff h + N.of_nat j)) as [Z|Z]; [|apply (tail_scan_prev h rest newtail j fuel r); try assumption; lia].
  (* the scan stopped at its very first step *)
  set (d := eoff h) in *. destruct j as [|j0]; [lia|]. destruct fuel as [|k]; [lia|]. cbn [tail_scan] in E.
  assert (Hc : scan_cur d (S j0) = d + N.of_nat j0) by (unfold scan_cur, two64, two32 in *; lia).
  rewrite Hc in E. destruct (N.ltb_spec (d + N.of_nat j0) d) as [L|L]; [lia|].
  replace ((((d + N.of_nat j0 + two64 - d + 1) mod two64) * 6) mod two64) with (6 * N.of_nat (S j0)) in E
    by (unfold two64, two32 in *; lia).
  rewrite read6_enc in E by exact Hwf. cbn [nth_error] in E.
  destruct (nth_error rest j0) as [pre|] eqn:EP; [|discriminate].
  destruct (N.eqb_spec (efile pre) newtail) as [Q|Q]; cbn [negb] in E.
  - exfalso. replace ((d + N.of_nat j0 + two64 - 1) mod two64) with (scan_cur d j0) in E by (unfold scan_cur; f_equal; lia).
    pose proof (tail_scan_spec h rest newtail j0 k _ Hwf Hne ltac:(fold d; lia) ltac:(lia) E) as [[C1 C2] _]. fold d in C2. lia.
  - exists pre. split; [|exact Q]. rewrite Z. replace (N.to_nat (d + N.of_nat (S j0) - d) - 1)%nat with j0 by lia. exact EP.
Qed.

Lemma skipn_concat_enc n : forall l,
  skipn (6 * n) (concat (map enc_entry l)) = concat (map enc_entry (skipn n l)).
Proof.
  induction n as [|n IH]; intros l; [reflexivity|].
  destruct l as [|e l]; [reflexivity|].
  cbn [map concat skipn]. replace (6 * S n)%nat with (6 + 6 * n)%nat by lia.
  unfold enc_entry at 1. cbn [app skipn plus]. apply IH.
Qed.

Lemma skipn_hd {A} k : forall (l : list A) e r, skipn k l = e :: r -> nth_error l k = Some e.
Proof.
  induction k as [|k IH]; intros l e r H.
  - cbn in H. subst. reflexivity.
  - destruct l as [|a l]; [discriminate|]. cbn [skipn] in H. cbn [nth_error]. eapply IH; eauto.
Qed.

Lemma last_default {A} (l : list A) d d' : l <> [] -> last l d = last l d'.
Proof.
  induction l as [|a l IH]; [congruence|]. intros _. destruct l as [|b l]; [reflexivity|].
  change (last (a :: b :: l) d) with (last (b :: l) d). change (last (a :: b :: l) d') with (last (b :: l) d').
  apply IH. discriminate.
Qed.

Lemma last_skipn {A} k : forall (l : list A) d, skipn k l <> [] -> last (skipn k l) d = last l d.
Proof.
  induction k as [|k IH]; intros l d H; [reflexivity|].
  destruct l as [|a l]; [cbn in H; congruence|]. cbn [skipn] in *.
  rewrite IH by exact H. destruct l as [|b l]; [destruct k; cbn in H; congruence|]. reflexivity.
Qed.

Lemma inv_set_hidden items offset hidden head tail hb idx mc ms n :
  IdxInvC (items, offset, hidden, head, tail, hb, idx, mc, ms) -> offset <= n -> n <= items ->
  IdxInvC (items, offset, n, head, tail, hb, idx, mkMeta 2 n (mflush mc), ms).
Proof.
  unfold IdxInvC. intros H H1 H2. inv_destruct H. exists rest. cbn [mflush mver].
  repeat split; assumption.
Qed.

Lemma inv_truncate_tail t n t' :
  IdxInv t -> n < two32 -> t_head t + 1 < 65536 -> truncate_tail t n = Ok t' -> IdxInv t'.
Proof.
  intros HI Hn Hhd E. unfold truncate_tail in E.
  destruct (N.leb_spec n (t_hidden t)) as [L1|L1]; [inversion E; subst; exact HI|].
  destruct (N.ltb_spec (t_items t) n) as [L2|L2]; [eapply inv_reset_to; eauto|].
  match type of E with (match ?X with _ => _ end) = _ => destruct X as [newtail|] eqn:EN end; [|discriminate].
  cbv zeta in E.
  set (T2 := set_vtail (w_counters t (t_items t) (t_offset t) n (t_head t) (t_tail t) (t_headbytes t)) n false) in E.
  assert (HI2 : IdxInv T2).
  { unfold IdxInv, core, IdxInvC in HI. pose proof HI as HI0. inv_destruct HI0.
    unfold IdxInv. apply (inv_set_hidden _ _ _ _ _ _ _ _ _ n) in HI; [exact HI|lia|lia]. }
  change (t_tail T2) with (t_tail t) in E.
  destruct (N.eqb_spec (t_tail t) newtail) as [Q|Q]; [inversion E; subst; exact HI2|].
  destruct (N.ltb_spec newtail (t_tail t)) as [Q2|Q2]; [discriminate|].
  destruct (do_sync T2) as [t3|] eqn:ES; [|discriminate].
  pose proof (do_sync_core _ _ ES) as C3. 
  change (core t3 = (t_items t, t_offset t, n, t_head t, t_tail t, t_headbytes t, f_sync (t_index t),
                     mkMeta 2 n (fsize (t_index t)), mkMeta 2 n (fsize (t_index t)))) in C3.
  unfold core in C3. inversion C3 as [[P1 P2 P3 P4 P5 P6 P7 P8 P9]].
  destruct (tail_scan _ _ _ _ _ _) as [newdel|] eqn:ET; [|discriminate].
  unfold IdxInv, core, IdxInvC in HI. inv_destruct HI.
  pose proof (idx_size _ _ _ _ Hb) as Hsz.
  (* the scan *)
  rewrite P7, P2 in ET. cbn [f_sync fbytes] in ET. rewrite Hb in ET.
  set (j := N.to_nat (n - t_offset t)).
  assert (Hj : n = t_offset t + N.of_nat j) by (subst j; lia).
  assert (Hjr : (j <= length rest)%nat) by lia.
  assert (Hwfh : forallb entry_wf (mkE (t_tail t) (t_offset t) :: rest) = true).
  { cbn [forallb]. unfold entry_wf at 1. cbn [efile eoff].
    replace (t_tail t <? 65536) with true by (symmetry; apply N.ltb_lt; exact Ht).
    replace (t_offset t <? two32) with true by (symmetry; apply N.ltb_lt; exact Ho). exact Hwf. }
  replace (n - 1) with (scan_cur (t_offset t) j) in ET by (unfold scan_cur, two64, two32 in *; lia).
  rewrite Hj in ET.
  apply (tail_scan_spec (mkE (t_tail t) (t_offset t)) rest newtail j) in ET;
    [|exact Hwfh | exact Q | cbn [eoff]; lia | unfold flen; cbn [f_sync fbytes]; rewrite ?Hb, ?concat_enc_length; cbn [length]; lia].
  cbn [eoff] in ET. destruct ET as [[D1 D2] D3].
  set (kd := N.to_nat (newdel - t_offset t)).
  assert (Hkd : (kd <= j)%nat) by (subst kd; lia).
  set (rest' := skipn kd rest).
  assert (Hl' : length rest' = (length rest - kd)%nat) by (subst rest'; apply skipn_length).
  (* what newtail is *)
  assert (HNT : newtail < 65536 /\ (j = length rest -> newtail = t_head t) /\
                ((j < length rest)%nat -> exists e, nth_error rest j = Some e /\ efile e = newtail)).
  { destruct (N.eqb_spec (t_items t) n) as [Z|Z].
    - inversion EN; subst newtail. repeat split; [lia|]. intros; lia.
    - rewrite Hb in EN. replace ((n - t_offset t + 1) * 6) with (6 * N.of_nat (S j)) in EN by lia.
      rewrite read6_enc in EN by exact Hwfh. cbn [nth_error] in EN.
      destruct (nth_error rest j) as [e|] eqn:EE; [|discriminate]. inversion EN; subst newtail.
      split; [|split].
      + apply nth_error_In in EE. rewrite forallb_forall in Hwf. apply Hwf in EE.
        unfold entry_wf in EE. apply andb_prop in EE. apply N.ltb_lt. exact (proj1 EE).
      + intros; lia.
      + intros _. exists e. split; reflexivity. }
  destruct HNT as (NT1 & NT2 & NT3).
  (* the rewritten index *)
  match type of E with context [w_index t3 ?F] => set (NI := F) in E end.
  assert (HNI : fbytes NI = concat (map enc_entry (mkE newtail newdel :: rest')) /\ fdur NI = (6 * S (length rest'))%nat).
  { subst NI. unfold f_synced. cbn [fbytes fdur]. rewrite app_length, enc_entry_length.
    rewrite P7, P2. cbn [f_sync fbytes]. rewrite Hb.
    replace (N.to_nat (6 * (newdel - t_offset t + 1))) with (6 * S kd)%nat by lia.
    rewrite skipn_concat_enc. cbn [skipn]. fold rest'. rewrite concat_enc_length.
    rewrite (N.mod_small newdel two32) by lia. split; [reflexivity|lia]. }
  destruct HNI as [NI1 NI2].
  match type of E with context [release_before ?X _ _] => set (T5 := X) in E end.
  assert (C6 : core (release_before T5 newtail true) = core T5) by apply core_release_where.
  apply core_proj in C6. destruct C6 as (R1 & R2 & R3 & R4 & R5 & R6 & R7 & R8 & R9).
  rewrite R8 in E. change (t_mcur T5) with (t_mcur t3) in E. rewrite P8 in E. cbn [mflush] in E.
  destruct (N.leb_spec (fsize (t_index t)) (6 * (newdel - t_offset t3))); [discriminate|].
  inversion E; subst t'; clear E.
  unfold IdxInv, core. unfold set_flush, meta_write.
  cbn [w_meta w_data w_open t_items t_offset t_hidden t_head t_tail t_headbytes t_index t_mcur t_msyn].
  change (t_items T5) with (t_items t3). change (t_offset T5) with newdel. change (t_hidden T5) with (t_hidden t3).
  change (t_head T5) with (t_head t3). change (t_tail T5) with newtail. change (t_headbytes T5) with (t_headbytes t3).
  change (t_index T5) with NI. change (t_mcur T5) with (t_mcur t3).
  rewrite P1, P3, P4, P6, P8, P2. cbn [mvtail mflush].
  unfold IdxInvC. exists rest'. rewrite NI1, NI2. unfold flen. rewrite NI1, concat_enc_length. cbn [length].
  unfold fsize. rewrite Hsz. cbn [mflush mver].
  assert (Hwf' : forallb entry_wf rest' = true) by (apply forallb_skipn; exact Hwf).
  assert (Hsm' : forallb small rest' = true) by (apply forallb_skipn; exact Hsm).
  change (match newdel - t_offset t with 0 => 0 | N.pos q => N.pos (q + q~0)~0 end) with (6 * (newdel - t_offset t)).
  assert (Hshort : 6 * (newdel - t_offset t) = N.of_nat (6 * kd)) by (subst kd; lia).
  rewrite Hshort.
  repeat split; try assumption; try reflexivity; try lia.
  - (* validity *)
    apply check_index_suffix with (h := mkE (t_tail t) (t_offset t)); [exact Hv|].
    fold rest'. destruct rest' as [|e r] eqn:R; [exact I|].
    apply skipn_hd in R. unfold first_ok. cbn [efile].
    assert (efile e = newtail) as ->; [|rewrite N.eqb_refl; reflexivity].
    destruct (N.ltb_spec newdel (t_offset t + N.of_nat j)) as [W|W].
    + destruct (D3 W) as [e0 [X1 X2]]. fold kd in X1. congruence.
    + assert (kd = j) by lia. subst kd. rewrite H0 in R.
      assert ((j < length rest)%nat) by (apply nth_error_Some; congruence).
      destruct (NT3 H1) as [e0 [X1 X2]]. congruence.
  - (* head *)
    destruct rest' as [|e r] eqn:R.
    + cbn [last efile]. symmetry. apply NT2. cbn [length] in Hl'. lia.
    + rewrite <- R. subst rest'. rewrite last_skipn by (rewrite R; discriminate).
      rewrite (last_default rest (mkE newtail 0) (mkE (t_tail t) 0)); [exact Hh|].
      intros Z. rewrite Z in R. destruct kd; discriminate.
  - intros Hne. subst rest'. rewrite last_skipn by exact Hne.
    assert (Hr : rest <> []) by (intros Z; rewrite Z in Hne; destruct kd; cbn in Hne; congruence).
    rewrite (last_default rest (mkE newtail 0) (mkE (t_tail t) 0)) by exact Hr. apply Hhb. exact Hr.
Qed.


(* ---------- histories ---------- *)
(* the history guard: every stored item fits a data file (the exact exception found by the model:
   an item larger than maxFileSize followed by an empty stored item breaks the index, see
   Properties/C24.v C24_synced_survive_refuted), and the magnitudes the on-disk format can hold *)
Definition op_guard (t : table) (o : op) : Prop :=
  match o with
  | OAppend blobs =>
      Forall (fun blob => N.of_nat (length (encode blob)) <= maxsz) blobs /\
      t_head t + N.of_nat (length blobs) < 65536 /\ t_items t + N.of_nat (length blobs) < two32
  | OTruncHead n => n < two32 /\ t_head t + 1 < 65536
  | OTruncTail n => n < two32 /\ t_head t + 1 < 65536
  | _ => True
  end.

Definition next (t : table) (o : op) : table :=
  match step maxsz encode t o with Ok t' => t' | Err _ => t end.

Fixpoint guarded (t : table) (h : list op) : Prop :=
  match h with
  | [] => True
  | o :: r => op_guard t o /\ guarded (next t o) r
  end.

Lemma run_fst t o r : fst (run maxsz encode t (o :: r)) = fst (run maxsz encode (next t o) r).
Proof.
  unfold next. cbn [run]. destruct (step maxsz encode t o) as [t1|c].
  - destruct (run maxsz encode t1 r). reflexivity.
  - destruct (run maxsz encode t r). reflexivity.
Qed.

Lemma inv_step t o t' :
  maxsz < two32 -> IdxInv t -> op_guard t o -> step maxsz encode t o = Ok t' -> IdxInv t'.
Proof.
  intros Hmax HI HG E. destruct o as [blobs|n|n| | |]; cbn [step op_guard] in *.
  - destruct HG as (G1 & G2 & G3). eapply inv_op_append; eauto.
  - destruct HG as (G1 & G2). eapply inv_truncate_head; eauto.
  - destruct HG as (G1 & G2). eapply inv_truncate_tail; eauto.
  - eapply inv_do_sync; eauto.
  - inversion E; subst. apply inv_sync_index. exact HI.
  - unfold sync_head in E. apply core_data_upd in E. eapply inv_core; [exact E|].
    apply inv_sync_index. exact HI.
Qed.

Lemma inv_run h : forall t,
  maxsz < two32 -> IdxInv t -> guarded t h -> IdxInv (fst (run maxsz encode t h)).
Proof.
  induction h as [|o r IH]; intros t Hmax HI HG; [exact HI|].
  rewrite run_fst. destruct HG as [G1 G2]. apply IH; [exact Hmax| |exact G2].
  unfold next. destruct (step maxsz encode t o) as [t1|c] eqn:E; [|exact HI].
  eapply inv_step; eauto.
Qed.

Lemma inv_init clamp t0 : init clamp = Ok t0 -> IdxInv t0.
Proof.
  intros H. destruct clamp; vm_compute in H; inversion H; subst; clear H;
  unfold IdxInv, core, IdxInvC; cbn [t_items t_offset t_hidden t_head t_tail t_headbytes t_index t_mcur t_msyn];
  exists []; cbn; unfold two32; repeat split; try reflexivity; try lia; try congruence.
Qed.

Lemma inv_facts t : IdxInv t -> idx_facts t.
Proof.
  unfold IdxInv, core, IdxInvC, idx_facts. intros H. inv_destruct H.
  exists (mkE (t_tail t) (t_offset t) :: rest).
  repeat split; try assumption; try discriminate.
  cbn [forallb]. unfold entry_wf at 1. cbn [efile eoff].
  replace (t_tail t <? 65536) with true by (symmetry; apply N.ltb_lt; exact Ht).
  replace (t_offset t <? two32) with true by (symmetry; apply N.ltb_lt; exact Ho). exact Hwf.
Qed.

(* INDEX RECOVERY FOR EVERY HISTORY AND EVERY CUT *)
Theorem reopen_index_recovers clamp t0 h c p data (cm : bool) :
  maxsz < two32 -> init clamp = Ok t0 -> guarded t0 h ->
  let t := fst (run maxsz encode t0 h) in
  valid_cut (t_index t) c p ->
  let m := if cm then t_mcur t else t_msyn t in
  let u := open_repair_index (crash_file (t_index t) c p) data (Some m) in
  fbytes (t_index u) = firstn (N.to_nat (mflush (t_mcur t))) (fbytes (t_index t))
  /\ t_mcur u = mkMeta 2 (mvtail m) (mflush (t_mcur t))
  /\ t_msyn u = mkMeta 2 (mvtail m) (mflush (t_mcur t))
  /\ t_data u = data.
Proof.
  intros Hmax Hi Hg t Hc. apply crash_index_recovers_facts; [|exact Hc].
  apply inv_facts. apply inv_run; [exact Hmax | eapply inv_init; eauto | exact Hg].
Qed.

End Inv.
