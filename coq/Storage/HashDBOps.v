(* Storage/HashDBOps.v — every operation of the hash-scheme node database model preserves
   the invariant of Storage/HashDBInv.v; no nil dereference, no fuel exhaustion. *)
From GV Require Import Lib.Tactics Storage.HashDB Storage.HashDBProofs Storage.HashDBInv.
From Coq Require Import FMapPositive Sorted.
Open Scope N_scope.

Lemma disk_add_spec k l x : mget x (disk_add k l) <> None <-> mget x k <> None \/ In x l.
Proof.
  unfold disk_add. revert k. induction l as [|y r IH]; intros k; cbn; [tauto|].
  rewrite IH, mset_cases. destruct (N.eqb_spec x y) as [->|]; intuition congruence.
Qed.

Lemma ss_app_lt {A} (R : A -> A -> Prop) l1 l2 a b :
  StronglySorted R (l1 ++ l2) -> In a l1 -> In b l2 -> R a b.
Proof.
  induction l1 as [|x l1 IH]; cbn; [tauto|]. intros Hs [->|Ha] Hb; inversion Hs as [|? ? Hs' Hf]; subst.
  - rewrite Forall_forall in Hf. apply Hf, in_or_app. auto.
  - auto.
Qed.

Section Ops.
  Variable kids : N -> list N.
  Variable ext : N -> list N.
  Variable nsize : N -> N.
  Variable cns : Z.
  Variable ideal : Z.
  Variable rank : N -> nat.
  Hypothesis rank_dec : forall h c, In c (kids h ++ ext h) -> (rank c < rank h)%nat.

  Notation Inv := (Inv kids ext nsize).
  Notation GInv := (GInv kids ext nsize).
  Notation LInv := (LInv kids ext nsize).

  (* ---------------------------------------------------------------- Dereference *)
  Definition udec (u : N -> nat) (r : N) : N -> nat :=
    fun x => if (x =? r) && negb (r =? 0) then Nat.pred (u x) else u x.

  Lemma Dereference_inv fl stamp u nxt st r :
    Inv fl stamp u nxt st -> (r = 0 \/ (0 < u r)%nat) ->
    exists st' fl', Dereference kids nsize st r = Ok st' /\ Inv fl' stamp (udec u r) nxt st'.
  Proof.
    intros HI Hg. unfold Dereference. destruct (N.eqb_spec r 0) as [->|Hr].
    - exists st, fl. split; auto. destruct HI as [Hl HI]. split; auto.
      eapply LInv_repar; [..|exact HI]; auto; try tauto.
      + intros x _ _ ->. unfold udec. cbn. rewrite andb_false_r. reflexivity.
      + intros x. unfold udec. cbn. rewrite andb_false_r. apply (g_roots _ _ _ _ _ _ _ _ _ _ _ HI).
    - destruct Hg as [?|Hu]; [congruence|].
      assert (Hm := inv_mcard _ _ _ _ _ _ _ _ HI). destruct HI as [Hl HI].
      assert (HG : GInv fl [] [r] [] stamp (udec u r) nxt st).
      { split; auto. eapply LInv_repar; [..|exact HI]; auto; try tauto.
        - intros x _ _ ->. unfold udec. cbn [cnt]. destruct (N.eqb_spec x r) as [->|]; cbn.
          + destruct (N.eqb_spec r 0); [congruence|]. cbn. lia.
          + lia.
        - intros x. unfold udec. destruct ((x =? r) && negb (r =? 0)); intros Hx; apply (g_roots _ _ _ _ _ _ _ _ _ _ _ HI); lia. }
      destruct (deref_spec kids ext nsize rank rank_dec (fuel_of st) st r fl [] [] stamp (udec u r) nxt HG) as (st' & fl' & E & HG' & _); auto.
      { intros d []. }
      { unfold fuel_of. rewrite Hm. lia. }
      exists st', fl'. split; auto.
  Qed.

  (* ---------------------------------------------------------------- Cap *)
  Lemma cap_scan_spec fl st limit : linked fl st ->
    forall f pre rest size, fl = pre ++ rest -> (length rest < f)%nat ->
    exists pre' rest', fl = pre' ++ rest' /\
      cap_scan nsize cns f st size limit (hd 0 rest) (rev pre) = Ok (hd 0 rest', rev pre').
  Proof.
    intros Hl. induction f as [|f IH]; intros pre rest size Hfl Hlen; [lia|].
    cbn [cap_scan]. destruct ((limit <? size)%Z && negb (hd 0 rest =? 0)) eqn:Hc.
    2:{ exists pre, rest. auto. }
    apply andb_prop in Hc as [_ Ho]. apply negb_true_iff, N.eqb_neq in Ho.
    destruct rest as [|o t]; [cbn in Ho; congruence|]. cbn [hd] in *.
    assert (Hch := lk_chain _ _ Hl). rewrite Hfl in Hch.
    destruct (chain_mid _ _ _ _ _ Hch) as (node & Hn & Hnx & _). rewrite Hn, Hnx.
    destruct (IH (pre ++ [o]) t (size - (node_cost nsize o + cns) - zlen (e_ext node) * hashLen)%Z) as (pre' & rest' & E1 & E2).
    { rewrite <- app_assoc. exact Hfl. }
    { cbn in Hlen. lia. }
    exists pre', rest'. split; auto. rewrite rev_app_distr in E2. exact E2.
  Qed.

  Lemma LInv_disk_add fl stamp u nxt st B :
    (forall b c, In b B -> In c (kids b ++ ext b) -> ondisk st c \/ In c B) ->
    LInv fl [] [] [] stamp u nxt st ->
    LInv fl [] [] [] stamp u nxt (with_disk st (disk_add (disk st) B)).
  Proof.
    intros Hcl [A B' C D E F G H I J K L M].
    set (st' := with_disk st (disk_add (disk st) B)).
    assert (Hod : forall x, ondisk st' x <-> ondisk st x \/ In x B).
    { intros x. unfold ondisk, st'. cbn [disk with_disk]. apply disk_add_spec. }
    constructor.
    - exact A.
    - exact B'.
    - exact C.
    - exact D.
    - exact E.
    - intros x c Hx Hc. apply Hod. apply Hod in Hx as [Hx|Hx].
      + left. eapply F; eauto.
      + destruct (Hcl x c Hx Hc); auto.
    - intros p c Hp Hc. change (tracked kids st' p) with (tracked kids st p) in Hc.
      destruct (G p c Hp Hc) as [?|?]; [left; apply Hod|]; auto.
    - intros p s Hp Hs. change (gext st' p) with (gext st p).
      destruct (H p s Hp Hs) as [?|[?|?]]; [left; apply Hod|..]; auto.
    - exact I.
    - intros x Hx Hn. rewrite (occ_ext kids st st' fl x) by (intros; reflexivity).
      change (gpar st' x) with (gpar st x). apply J; auto. intros Hc. apply Hn, Hod. auto.
    - intros r Hr. destruct (K r Hr); [|right; apply Hod]; auto.
    - exact L.
    - rewrite (sumZ_ext (xcost st') (xcost st) fl) by (intros; reflexivity). exact M.
  Qed.

  Lemma linked_head_prev x t st e :
    linked (x :: t) st -> getd st x = Some e -> linked (x :: t) (setd st x (set_prev e 0)).
  Proof.
    intros [A B C D E] He. constructor; auto.
    cbn [chain] in *. destruct E as (e0 & He0 & _ & Hn & Hc). assert (e0 = e) by congruence. subst e0.
    exists (set_prev e 0). split; [rewrite getd_setd, N.eqb_refl; auto|]. split; [tauto|]. split; [exact Hn|].
    eapply chain_ext; [|exact Hc]. intros y Hy. rewrite pn_setd. destruct (N.eqb_spec y x) as [->|]; [|reflexivity].
    inversion A; tauto.
  Qed.

  Lemma cap_drop_spec stamp u nxt : forall pre rest st f,
    GInv (pre ++ rest) [] [] [] stamp u nxt st -> (forall x, In x pre -> ondisk st x) -> (length pre < f)%nat ->
    exists st', cap_drop nsize f st (hd 0 rest) = Ok st' /\ GInv rest [] [] [] stamp u nxt st'.
  Proof.
    induction pre as [|x pre IH]; intros rest st f [Hl HI] Hdk Hlen.
    - destruct f; [lia|]. cbn [cap_drop]. cbn [app] in *. rewrite (lk_old _ _ Hl), N.eqb_refl.
      exists st. split; auto. split; auto.
    - destruct f as [|f]; [lia|]. cbn [cap_drop].
      assert (Hnd := lk_nodup _ _ Hl). assert (Hnz := lk_nz _ _ Hl).
      assert (Hox : oldest st = x) by (rewrite (lk_old _ _ Hl); reflexivity).
      assert (Hx0 : x <> 0) by (intros ->; apply Hnz; left; auto).
      assert (Hxs : (x =? hd 0 rest) = false).
      { apply N.eqb_neq. intros Hc. destruct rest as [|y t]; cbn in Hc; [congruence|]. subst y.
        cbn [app] in Hnd. inversion Hnd as [|? ? Hn _]. apply Hn, in_or_app. right. left. auto. }
      rewrite Hox, Hxs.
      assert (Hch := lk_chain _ _ Hl). cbn [app chain] in Hch. destruct Hch as (node & Hn & _ & Hnx & Hct).
      rewrite Hn.
      set (st1 := with_oldest (drop_node nsize st x node) (e_next node)).
      assert (HG1 : GInv (pre ++ rest) [] [] [] stamp u nxt st1).
      { split.
        - cbn [app] in *. constructor.
          + inversion Hnd; auto.
          + intros Hc. apply Hnz. right. auto.
          + unfold st1. cbn [oldest with_oldest]. exact Hnx.
          + intros Hne. unfold st1. cbn [newest with_oldest drop_node with_sizes deld with_dirties].
            rewrite (lk_new _ _ Hl) by discriminate. rewrite last_cons.
            destruct (pre ++ rest) as [|y l']; [congruence|]. rewrite !last_cons. reflexivity.
          + eapply chain_ext; [|eapply chain_weaken; exact Hct]. intros y Hy. unfold pn, st1.
            change (getd (with_oldest (drop_node nsize st x node) (e_next node)) y) with (getd (drop_node nsize st x node) y).
            rewrite getd_drop_node. destruct (N.eqb_spec y x) as [->|]; [|reflexivity]. inversion Hnd; tauto.
        - replace (pre ++ rest) with (rm x ((x :: pre) ++ rest)).
          2:{ cbn [app]. apply (rm_split x [] (pre ++ rest)). exact Hnd. }
          eapply LInv_rm_disk; [..|exact HI].
          + left. auto.
          + apply Hdk. left. auto.
          + intros y. apply getd_drop_node.
          + reflexivity.
          + reflexivity.
          + unfold st1, xcost, gext. rewrite Hn. reflexivity. }
      destruct (IH rest st1 f HG1) as (st2 & E2 & HG2).
      { intros y Hy. unfold ondisk, st1. cbn [disk with_oldest drop_node with_sizes deld with_dirties]. apply Hdk. right. auto. }
      { cbn in Hlen. lia. }
      exists st2. split; auto.
  Qed.

  Lemma Cap_inv fl stamp u nxt st limit :
    Inv fl stamp u nxt st ->
    exists st' fl', Cap nsize cns st limit = Ok st' /\ Inv fl' stamp u nxt st'.
  Proof.
    intros HI. assert (Hm := inv_mcard _ _ _ _ _ _ _ _ HI). destruct HI as [Hl HI].
    unfold Cap.
    destruct (cap_scan_spec fl st limit Hl (fuel_of st) [] fl
                (dsize st + Z.of_nat (mcard (dirties st)) * cns + csize st)%Z eq_refl) as (pre & rest & Hfl & Escan).
    { unfold fuel_of. rewrite Hm. lia. }
    rewrite (lk_old _ _ Hl). cbn [rev] in Escan. rewrite Escan. cbn [bind].
    set (st1 := with_disk st (disk_add (disk st) (rev pre))).
    assert (HG1 : GInv (pre ++ rest) [] [] [] stamp u nxt st1).
    { rewrite <- Hfl. split; [destruct Hl as [A1 A2 A3 A4 A5]; constructor; auto; eapply chain_ext; [|exact A5]; intros; reflexivity|].
      apply LInv_disk_add; auto.
      intros b c Hb Hc. apply in_rev in Hb.
      assert (Hbf : In b fl) by (rewrite Hfl; apply in_or_app; auto).
      assert (Hcase : ondisk st c \/ (In c fl /\ slt stamp c b)).
      { apply in_app_or in Hc as [Hc|Hc].
        - apply (g_children _ _ _ _ _ _ _ _ _ _ _ HI b c Hbf). apply in_or_app. auto.
        - destruct (g_ext _ _ _ _ _ _ _ _ _ _ _ HI b c Hbf Hc) as [?|[Hge|([] & _)]]; auto.
          apply (g_children _ _ _ _ _ _ _ _ _ _ _ HI b c Hbf). apply in_or_app. auto. }
      destruct Hcase as [?|[Hcf Hs]]; auto. right. rewrite <- in_rev.
      rewrite Hfl in Hcf. apply in_app_or in Hcf as [?|Hcr]; auto.
      assert (Hss := g_sorted _ _ _ _ _ _ _ _ _ _ _ HI). rewrite Hfl in Hss.
      pose proof (ss_app_lt _ _ _ _ _ Hss Hb Hcr) as Hbc. unfold slt in *. lia. }
    destruct (cap_drop_spec stamp u nxt pre rest st1 (fuel_of st) HG1) as (st2 & E2 & [Hl2 HI2]).
    { intros x Hx. unfold ondisk, st1. cbn [disk with_disk]. apply disk_add_spec. right. rewrite <- in_rev. exact Hx. }
    { unfold fuel_of. rewrite Hm, Hfl, app_length. lia. }
    fold st1. rewrite E2. cbn [bind].
    destruct (N.eqb_spec (oldest st2) 0) as [Ho|Ho].
    - exists st2, rest. split; auto. split; auto.
    - rewrite (lk_old _ _ Hl2) in Ho. destruct rest as [|x t]; [cbn in Ho; congruence|].
      assert (Hx : oldest st2 = x) by (rewrite (lk_old _ _ Hl2); reflexivity).
      assert (Hch := lk_chain _ _ Hl2). cbn [chain] in Hch. destruct Hch as (e & He & _).
      rewrite Hx, (upd_ok _ _ _ _ He).
      exists (setd st2 x (set_prev e 0)), (x :: t). split; auto. split.
      + apply linked_head_prev; auto.
      + eapply LInv_same; [|exact HI2]. apply (same_logic_setd_ptr st2 x e); auto.
  Qed.

  (* ---------------------------------------------------------------- cleaner.Put, batch flush *)
  Lemma uncache_inv fl stamp u nxt st h :
    Inv fl stamp u nxt st -> ondisk st h ->
    exists st', uncache nsize st h = Ok st' /\ Inv (rm h fl) stamp u nxt st' /\ disk st' = disk st.
  Proof.
    intros [Hl HI] Hdk. unfold uncache. destruct (getd st h) as [e|] eqn:He.
    - assert (Hin : In h fl).
      { assert (Hc : cached st h) by (unfold cached; congruence). apply (g_dom _ _ _ _ _ _ _ _ _ _ _ HI) in Hc as [?|[]]; auto. }
      destruct (unlink_linked fl st h e e Hl Hin He eq_refl eq_refl) as (st1 & -> & Hl1 & Hsame & Hh).
      cbn [bind]. eexists. split; [reflexivity|].
      assert (HI1 : LInv fl [] [] [] stamp u nxt st1) by (eapply LInv_same; eauto).
      assert (Hd1 : disk st1 = disk st) by (destruct Hsame as (_ & ? & _); auto).
      split; [split|].
      + apply linked_drop; auto. rewrite rm_in. tauto.
      + eapply LInv_rm_disk; [..|exact HI1]; auto.
        * unfold ondisk. rewrite Hd1. exact Hdk.
        * intros x. apply getd_drop_node.
        * unfold drop_node, xcost, gext. cbn [csize with_sizes deld with_dirties]. rewrite Hh, He. reflexivity.
      + cbn [disk drop_node with_sizes deld with_dirties]. exact Hd1.
    - exists st. split; auto. assert (Hn : ~ In h fl).
      { intros Hc. assert (Hca : cached st h) by (apply (g_dom _ _ _ _ _ _ _ _ _ _ _ HI); auto). unfold cached in Hca. congruence. }
      rewrite (rm_notin _ _ Hn). split; [split; auto|reflexivity].
  Qed.

  Lemma uncache_fold stamp u nxt : forall l st fl,
    Inv fl stamp u nxt st -> (forall x, In x l -> ondisk st x) ->
    exists st' fl', fold_res (uncache nsize) l st = Ok st' /\ Inv fl' stamp u nxt st' /\ disk st' = disk st /\
      (forall x, In x fl' -> In x fl) /\ (forall x, In x fl -> In x fl' \/ In x l).
  Proof.
    induction l as [|h l IH]; intros st fl HI Hdk.
    - exists st, fl. cbn [fold_res]. split; [reflexivity|]. split; [exact HI|]. split; [reflexivity|]. split; auto.
    - destruct (uncache_inv fl stamp u nxt st h HI) as (st1 & E1 & HI1 & Hd1); [apply Hdk; left; auto|].
      destruct (IH st1 (rm h fl) HI1) as (st2 & fl2 & E2 & HI2 & Hd2 & Hsub & Hcov).
      { intros x Hx. unfold ondisk. rewrite Hd1. apply Hdk. right. auto. }
      exists st2, fl2. cbn [fold_res]. rewrite E1. split; auto. split; auto. split; [congruence|]. split.
      + intros x Hx. apply Hsub in Hx. apply rm_in in Hx. tauto.
      + intros x Hx. destruct (N.eq_dec x h) as [->|Hxh]; [right; left; auto|].
        destruct (Hcov x) as [?|?]; [apply rm_in; auto|left; auto|right; right; auto].
  Qed.

  Definition done (cs : cstate) (x : N) : Prop := ondisk (c_db cs) x \/ In x (c_batch cs).
  Definition known (st : db) (x : N) : Prop := cached st x \/ ondisk st x.

  Definition CI fl stamp u nxt (cs : cstate) : Prop :=
    Inv fl stamp u nxt (c_db cs) /\
    (forall b c, In b (c_batch cs) -> In c (kids b ++ ext b) -> done cs c).

  Definition mono (cs cs' : cstate) : Prop :=
    (forall x, done cs x -> done cs' x) /\
    (forall x, ondisk (c_db cs) x -> ondisk (c_db cs') x) /\
    (forall x, cached (c_db cs') x -> cached (c_db cs) x) /\
    (forall x, cached (c_db cs) x -> cached (c_db cs') x \/ ondisk (c_db cs') x).

  Lemma mono_refl cs : mono cs cs.
  Proof. unfold mono. tauto. Qed.
  Lemma mono_trans a b c : mono a b -> mono b c -> mono a c.
  Proof.
    intros (A1 & A2 & A3 & A4) (B1 & B2 & B3 & B4). split; [|split; [|split]]; auto.
    intros x Hx. destruct (A4 x Hx) as [H|H]; [destruct (B4 x H); auto|right; auto].
  Qed.
  Lemma mono_known a b x : mono a b -> known (c_db a) x -> known (c_db b) x.
  Proof. intros (_ & A2 & _ & A4) [H|H]; unfold known; [destruct (A4 x H); auto|right; auto]. Qed.

  Lemma flush_spec fl stamp u nxt cs :
    CI fl stamp u nxt cs ->
    exists cs' fl', flush_batch nsize cs = Ok cs' /\ CI fl' stamp u nxt cs' /\ c_batch cs' = [] /\
      mono cs cs' /\ (forall x, done cs x -> ondisk (c_db cs') x) /\ (forall x, In x fl' -> In x fl).
  Proof.
    intros [[Hl HI] Hcl]. unfold flush_batch.
    set (st1 := with_disk (c_db cs) (disk_add (disk (c_db cs)) (c_batch cs))).
    assert (Hod1 : forall x, ondisk st1 x <-> done cs x).
    { intros x. unfold ondisk, st1, done. cbn [disk with_disk]. apply disk_add_spec. }
    assert (HI1 : Inv fl stamp u nxt st1).
    { split.
      - destruct Hl as [A1 A2 A3 A4 A5]; constructor; auto. eapply chain_ext; [|exact A5]. intros; reflexivity.
      - apply LInv_disk_add; auto. }
    destruct (uncache_fold stamp u nxt (rev (c_batch cs)) st1 fl HI1) as (st2 & fl2 & E2 & HI2 & Hd2 & Hsub & Hcov).
    { intros x Hx. apply Hod1. right. apply in_rev. exact Hx. }
    rewrite E2. cbn [bind]. exists (mkC st2 [] 0%Z), fl2. split; auto.
    assert (Hod2 : forall x, ondisk st2 x <-> done cs x).
    { intros x. unfold ondisk. rewrite Hd2. apply Hod1. }
    assert (Hca : forall x, cached st2 x <-> In x fl2).
    { intros x. destruct HI2 as [_ H2]. rewrite (g_dom _ _ _ _ _ _ _ _ _ _ _ H2). cbn. tauto. }
    assert (Hca0 : forall x, cached (c_db cs) x <-> In x fl).
    { intros x. rewrite (g_dom _ _ _ _ _ _ _ _ _ _ _ HI). cbn. tauto. }
    split; [split; [exact HI2|intros b c []]|]. split; [reflexivity|]. split; [|split; auto].
    - unfold mono, done. cbn [c_db c_batch]. split; [|split; [|split]].
      + intros x Hx. left. apply Hod2. exact Hx.
      + intros x Hx. apply Hod2. left. exact Hx.
      + intros x Hx. apply Hca0, Hsub, Hca, Hx.
      + intros x Hx. apply Hca0 in Hx. destruct (Hcov x Hx) as [?|Hb]; [left; apply Hca; auto|right].
        apply Hod2. right. apply in_rev. exact Hb.
    - intros x Hx. apply Hod2. exact Hx.
  Qed.

  (* ---------------------------------------------------------------- commit *)
  Lemma done_push cs h z x :
    done cs x -> done (mkC (c_db cs) (h :: c_batch cs) z) x.
  Proof. unfold done. cbn [c_db c_batch]. intros [?|?]; [left|right; right]; auto. Qed.

  Lemma commit_spec stamp u nxt (fl0 : list N) : forall f cs h fl path,
    CI fl stamp u nxt cs ->
    NoDup path -> (forall a, In a path -> In a fl0) -> (forall a, In a path -> (rank h < rank a)%nat) ->
    (forall x, In x fl -> In x fl0) ->
    (length fl0 < f + length path)%nat -> (1 <= f)%nat ->
    exists cs' fl', commit kids nsize ideal f cs h = Ok cs' /\ CI fl' stamp u nxt cs' /\ mono cs cs' /\
      (known (c_db cs) h -> done cs' h) /\ (forall x, In x fl' -> In x fl).
  Proof.
    induction f as [|f IHf]; intros cs h fl path HCI Hnd Hp0 Hrk Hsub Hfu Hf1; [lia|].
    cbn [commit]. destruct HCI as [HInv Hcl]. assert (HI := proj2 HInv).
    destruct (getd (c_db cs) h) as [node|] eqn:Hnode.
    2:{ exists cs, fl. split; [reflexivity|]. split; [split; auto|]. split; [apply mono_refl|]. split; auto.
        intros [Hc|Hd]; [unfold cached in Hc; congruence|left; auto]. }
    assert (Hin : In h fl).
    { assert (Hc : cached (c_db cs) h) by (unfold cached; congruence).
      apply (g_dom _ _ _ _ _ _ _ _ _ _ _ HI) in Hc as [?|[]]; auto. }
    assert (Hnp : ~ In h path) by (intros Hc; specialize (Hrk h Hc); lia).
    assert (Hlen : (length (h :: path) <= length fl0)%nat).
    { apply NoDup_incl_length; [constructor; auto|]. intros a [<-|Ha]; auto. }
    cbn [length] in Hlen.
    assert (Hge : gext (c_db cs) h = e_ext node) by (unfold gext; rewrite Hnode; auto).
    assert (Hrkc : forall c, In c (e_ext node ++ kids h) -> (rank c < rank h)%nat).
    { intros c Hc. apply rank_dec. apply in_app_or in Hc as [Hc|Hc]; apply in_or_app; [right|left; auto].
      apply (g_extsub _ _ _ _ _ _ _ _ _ _ _ HI h). rewrite Hge. auto. }
    assert (Hfold : forall l cs fl,
      CI fl stamp u nxt cs -> (forall c, In c l -> known (c_db cs) c) -> (forall x, In x fl -> In x fl0) ->
      (forall c, In c l -> (rank c < rank h)%nat) ->
      exists cs' fl', fold_res (commit kids nsize ideal f) l cs = Ok cs' /\ CI fl' stamp u nxt cs' /\ mono cs cs' /\
        (forall c, In c l -> done cs' c) /\ (forall x, In x fl' -> In x fl)).
    { clear - IHf Hnd Hp0 Hrk Hfu Hlen Hnp Hin Hsub. induction l as [|c l IHl]; intros cs1 fl1 HC Hkn Hs1 Hr.
      - exists cs1, fl1. cbn [fold_res]. split; [reflexivity|]. split; [exact HC|]. split; [apply mono_refl|]. split; auto. intros c [].
      - destruct (IHf cs1 c fl1 (h :: path) HC) as (cs2 & fl2 & E2 & HC2 & Hm2 & Hd2 & Hs2); auto.
        { constructor; auto. }
        { intros a [<-|Ha]; auto. }
        { intros a [<-|Ha]; [apply Hr; left; auto|]. specialize (Hrk a Ha). specialize (Hr c (or_introl eq_refl)). lia. }
        { cbn [length]. lia. }
        { lia. }
        destruct (IHl cs2 fl2 HC2) as (cs3 & fl3 & E3 & HC3 & Hm3 & Hd3 & Hs3); auto.
        { intros c' Hc'. eapply mono_known; [exact Hm2|]. apply Hkn. right. auto. }
        { intros c' Hc'. apply Hr. right. auto. }
        exists cs3, fl3. cbn [fold_res]. rewrite E2. split; [exact E3|]. split; [exact HC3|].
        split; [eapply mono_trans; eauto|]. split; [|auto].
        intros c' [<-|Hc']; [|auto]. destruct Hm3 as (M1 & _). apply M1, Hd2, Hkn. left. auto. }
    destruct (Hfold (e_ext node ++ kids h) cs fl (conj HInv Hcl)) as (cs1 & fl1 & E1 & [HInv1 Hcl1] & Hm1 & Hd1 & Hs1); auto.
    { intros c Hc. assert (Ht : In c (tracked kids (c_db cs) h)) by (unfold tracked; rewrite Hge; auto).
      destruct (g_children _ _ _ _ _ _ _ _ _ _ _ HI h c Hin Ht) as [?|[Hcf _]]; [right; auto|left].
      apply (g_dom _ _ _ _ _ _ _ _ _ _ _ HI). left. auto. }
    rewrite E1. cbn [bind].
    set (cs2 := mkC (c_db cs1) (h :: c_batch cs1) (c_bsize cs1 + node_cost nsize h)%Z).
    assert (HC2 : CI fl1 stamp u nxt cs2).
    { split; [exact HInv1|]. intros b c [<-|Hb] Hc.
      - apply done_push. apply in_app_or in Hc as [Hc|Hc].
        + apply Hd1. apply in_or_app. auto.
        + destruct (g_ext _ _ _ _ _ _ _ _ _ _ _ HI h c Hin Hc) as [Ho|[Hg|([] & _)]].
          * left. destruct Hm1 as (_ & M2 & _). apply M2. exact Ho.
          * apply Hd1. apply in_or_app. left. rewrite <- Hge. exact Hg.
      - apply done_push. eapply Hcl1; eauto. }
    assert (Hm2 : mono cs cs2).
    { eapply mono_trans; [exact Hm1|]. unfold mono. cbn [c_db cs2]. split; [intros x; apply done_push|]. tauto. }
    assert (Hdh : done cs2 h) by (right; left; auto).
    destruct (ideal <=? c_bsize cs2)%Z.
    - destruct (flush_spec fl1 stamp u nxt cs2 HC2) as (cs3 & fl3 & E3 & HC3 & _ & Hm3 & Hod3 & Hs3).
      exists cs3, fl3. split; [exact E3|]. split; [exact HC3|]. split; [eapply mono_trans; eauto|]. split.
      + intros _. left. apply Hod3, Hdh.
      + intros x Hx. apply Hs1, Hs3, Hx.
    - exists cs2, fl1. split; [reflexivity|]. split; [exact HC2|]. split; [exact Hm2|]. split; auto.
  Qed.

  (* Commit: the invariant is kept, and everything below the root is on disk afterwards *)
  Lemma Commit_inv fl stamp u nxt st root :
    Inv fl stamp u nxt st ->
    exists st' fl', Commit kids nsize ideal st root = Ok st' /\ Inv fl' stamp u nxt st' /\
      (known st root -> ondisk st' root) /\ (forall x, ondisk st x -> ondisk st' x) /\
      (forall x, cached st' x -> cached st x).
  Proof.
    intros HI. assert (Hm := inv_mcard _ _ _ _ _ _ _ _ HI). unfold Commit.
    destruct (commit_spec stamp u nxt fl (fuel_of st) (mkC st [] 0%Z) root fl []) as (cs1 & fl1 & E1 & HC1 & Hm1 & Hd1 & Hs1); auto.
    { split; [exact HI|]. intros b c []. }
    { constructor. }
    { intros a []. }
    { intros a []. }
    { unfold fuel_of. rewrite Hm. cbn. lia. }
    { unfold fuel_of. lia. }
    rewrite E1. cbn [bind].
    destruct (flush_spec fl1 stamp u nxt cs1 HC1) as (cs2 & fl2 & E2 & [HI2 _] & _ & Hm2 & Hod2 & Hs2).
    rewrite E2. cbn [bind]. exists (c_db cs2), fl2. split; [reflexivity|]. split; [exact HI2|].
    pose proof (mono_trans _ _ _ Hm1 Hm2) as (_ & M2 & M3 & _). cbn [c_db] in *.
    split; [|split]; auto.
  Qed.

  (* ---------------------------------------------------------------- insert *)
  Lemma entry_eta e : mkEntry (e_parents e) (e_ext e) (e_prev e) (e_next e) = e.
  Proof. destruct e; reflexivity. Qed.

  Lemma bump_fold ks : forall d x,
    mget x (fold_left (bump_child) ks d) =
    match mget x d with
    | Some e => Some (set_parents e (e_parents e + N.of_nat (cnt x ks)))
    | None => None
    end.
  Proof.
    induction ks as [|c ks IH]; intros d x; cbn [fold_left cnt].
    - destruct (mget x d) as [e|]; auto. unfold set_parents. rewrite N.add_0_r, entry_eta. reflexivity.
    - rewrite IH. unfold bump_child. destruct (mget c d) as [ec|] eqn:Hc.
      + rewrite mset_cases. destruct (N.eqb_spec x c) as [->|Hxc].
        * rewrite Hc. unfold set_parents. cbn [e_parents e_ext e_prev e_next]. do 2 f_equal. lia.
        * destruct (N.eqb_spec x c); [congruence|]. destruct (mget x d); auto.
      + destruct (N.eqb_spec x c) as [->|Hxc].
        * rewrite Hc. reflexivity.
        * destruct (mget x d); auto.
  Qed.

  Lemma chain_snoc st st' h : forall l p,
    l <> [] -> chain st p l -> NoDup l ->
    (forall x, In x l -> x <> last l 0 -> pn st' x = pn st x) ->
    (exists e e', getd st (last l 0) = Some e /\ getd st' (last l 0) = Some e' /\
                  e_prev e' = e_prev e /\ e_next e' = h) ->
    (exists eh, getd st' h = Some eh /\ e_next eh = 0 /\ e_prev eh = last l 0) ->
    chain st' p (l ++ [h]).
  Proof.
    induction l as [|x t IH]; intros p Hne Hc Hnd Hsame Hlast Hh; [congruence|].
    cbn [chain] in Hc. destruct Hc as (e & He & Hp & Hn & Hct).
    destruct t as [|y t'].
    - cbn [last] in *. destruct Hlast as (e0 & e' & He0 & He' & Hpe & Hne').
      assert (e0 = e) by congruence. subst e0.
      cbn [app chain]. exists e'. split; auto. split; [intros Hq; rewrite Hpe; auto|]. split; [exact Hne'|].
      destruct Hh as (eh & Heh & Hnh & Hph). exists eh. split; auto.
    - change (last (x :: y :: t') 0) with (last (y :: t') 0) in *.
      assert (Hxl : x <> last (y :: t') 0).
      { intros Hc. inversion Hnd as [|? ? Hx _]. apply Hx. rewrite Hc. apply last_in. discriminate. }
      assert (Hx := Hsame x (or_introl eq_refl) Hxl). unfold pn in Hx. rewrite He in Hx.
      destruct (getd st' x) as [e'|] eqn:He'; [|discriminate]. injection Hx as H1 H2.
      change ((x :: y :: t') ++ [h]) with (x :: ((y :: t') ++ [h])). cbn [chain].
      exists e'. split; auto. split; [intros Hq; rewrite H1; auto|]. split; [rewrite H2, Hn; reflexivity|].
      apply IH; auto.
      + discriminate.
      + inversion Hnd; auto.
      + intros z Hz Hzl. apply Hsame; [right; auto|exact Hzl].
  Qed.

  Definition stamp_ins (stamp : N -> nat) (h : N) (nxt : nat) : N -> nat :=
    fun x => if x =? h then nxt else stamp x.

  Lemma ss_ext {A} (R R' : A -> A -> Prop) l :
    (forall a b, In a l -> In b l -> R a b -> R' a b) -> StronglySorted R l -> StronglySorted R' l.
  Proof.
    intros H Hs. induction Hs as [|x l Hs IH Hf]; constructor.
    - apply IH. intros a b Ha Hb. apply H; right; auto.
    - rewrite Forall_forall in *. intros y Hy. apply H; [left|right|]; auto.
  Qed.
  Lemma ss_snoc {A} (R : A -> A -> Prop) l h :
    StronglySorted R l -> (forall x, In x l -> R x h) -> StronglySorted R (l ++ [h]).
  Proof.
    intros Hs Hh. induction Hs as [|x l Hs IH Hf]; cbn.
    - constructor; constructor.
    - constructor; [apply IH; intros; apply Hh; right; auto|].
      rewrite Forall_forall in *. intros y Hy. apply in_app_or in Hy as [Hy|[<-|[]]]; [auto|apply Hh; left; auto].
  Qed.

  Lemma LInv_insert fl pend stamp u nxt st st' h :
    LInv fl [] [] pend stamp u nxt st -> ~ cached st h ->
    (forall c, In c (kids h ++ ext h) -> known st c) ->
    (forall s, In s (ext h) -> In (s, h) pend) ->
    (forall x, gext st' x = if x =? h then [] else gext st x) ->
    (forall x, cached st x -> gpar st' x = (gpar st x + cnt x (kids h))%nat) -> gpar st' h = 0%nat ->
    (forall x, cached st' x <-> x = h \/ cached st x) ->
    disk st' = disk st -> dsize st' = (dsize st + cost nsize h)%Z -> csize st' = csize st ->
    LInv (fl ++ [h]) [] [] pend (stamp_ins stamp h nxt) u (S nxt) st'.
  Proof.
    intros [A B C D E F G H I J K L M] Hnc Hkn Hpe Hge Hgp Hgph Hca Hd Hds Hcs.
    assert (Hcf : forall x, cached st x <-> In x fl) by (intros x; rewrite A; cbn; tauto).
    assert (Hnf : ~ In h fl) by (rewrite <- Hcf; auto).
    assert (Hne : forall x, In x fl -> x <> h) by (intros x Hx ->; auto).
    assert (Hst : forall x, In x fl -> stamp_ins stamp h nxt x = stamp x).
    { intros x Hx. unfold stamp_ins. destruct (N.eqb_spec x h) as [->|]; [tauto|auto]. }
    assert (Hsh : stamp_ins stamp h nxt h = nxt) by (unfold stamp_ins; rewrite N.eqb_refl; auto).
    assert (Hod : forall x, ondisk st' x <-> ondisk st x) by (intros x; unfold ondisk; rewrite Hd; tauto).
    assert (Hgef : forall x, In x fl -> gext st' x = gext st x).
    { intros x Hx. rewrite Hge. destruct (N.eqb_spec x h) as [->|]; [tauto|auto]. }
    assert (Hgeh : gext st' h = []) by (rewrite Hge, N.eqb_refl; auto).
    assert (Htrf : forall x, In x fl -> tracked kids st' x = tracked kids st x) by (intros x Hx; unfold tracked; rewrite Hgef; auto).
    assert (Htrh : tracked kids st' h = kids h) by (unfold tracked; rewrite Hgeh; auto).
    assert (Hocc : forall x, occ kids st' (fl ++ [h]) x = (occ kids st fl x + cnt x (kids h))%nat).
    { intros x. rewrite (occ_app kids ext nsize). change (occ kids st' [h] x) with (cnt x (tracked kids st' h) + 0)%nat.
      rewrite Htrh. rewrite (occ_ext kids st st' fl x) by auto. lia. }
    assert (Hslt : forall a b, In a fl -> In b fl -> (slt (stamp_ins stamp h nxt) a b <-> slt stamp a b)).
    { intros a b Ha Hb. unfold slt. rewrite !Hst by auto. tauto. }
    assert (Hslh : forall a, In a fl -> slt (stamp_ins stamp h nxt) a h).
    { intros a Ha. unfold slt. rewrite Hst, Hsh by auto. auto. }
    assert (Hknown : forall c, known st c -> ondisk st c \/ In c fl).
    { intros c [Hc|Hc]; [right; apply Hcf; auto|left; auto]. }
    constructor.
    - intros x. rewrite Hca, Hcf, in_app_iff. cbn. intuition.
    - intros d [].
    - constructor.
    - apply ss_snoc; [|auto]. eapply ss_ext; [|exact D]. intros a b Ha Hb. apply Hslt; auto.
    - intros x Hx. apply in_app_or in Hx as [Hx|[<-|[]]]; [rewrite Hst by auto; specialize (E x Hx); lia|rewrite Hsh; lia].
    - intros x c. rewrite !Hod. apply F.
    - intros p c Hp Hc. rewrite Hod. apply in_app_or in Hp as [Hp|[<-|[]]].
      + rewrite Htrf in Hc by auto. destruct (G p c Hp Hc) as [?|[Hcf' Hs]]; [left; auto|right].
        split; [apply in_or_app; auto|apply Hslt; auto].
      + rewrite Htrh in Hc. destruct (Hknown c) as [?|Hcf']; [apply Hkn, in_or_app; auto|left; auto|right].
        split; [apply in_or_app; auto|auto].
    - intros p s Hp Hs. rewrite Hod. apply in_app_or in Hp as [Hp|[<-|[]]].
      + rewrite Hgef by auto. destruct (H p s Hp Hs) as [?|[?|(Hpe' & Hsf & Hsl)]]; auto.
        right. right. split; auto. split; [apply in_or_app; auto|apply Hslt; auto].
      + destruct (Hknown s) as [?|Hsf]; [apply Hkn, in_or_app; auto|left; auto|].
        right. right. split; [auto|]. split; [apply in_or_app; auto|auto].
    - intros p. rewrite Hge. destruct (p =? h); [intros ? []|apply I].
    - intros x Hx. rewrite Hod. intros Hn. rewrite Hocc. cbn [cnt]. apply in_app_or in Hx as [Hx|[<-|[]]].
      + rewrite Hgp by (apply Hcf; auto). rewrite (J x Hx Hn). cbn [cnt]. lia.
      + rewrite Hgph.
        assert (Ho : occ kids st fl h = 0%nat).
        { apply occ_zero. intros p Hp Hc. destruct (G p h Hp Hc) as [?|[? _]]; auto. }
        assert (Hk : cnt h (kids h) = 0%nat).
        { apply cnt_0. intros Hc. assert (rank h < rank h)%nat; [|lia]. apply rank_dec, in_or_app. auto. }
        assert (Hu : u h = 0%nat).
        { destruct (u h) eqn:Eu; auto. destruct (K h) as [?|?]; [lia|tauto|tauto]. }
        lia.
    - intros r Hr. rewrite Hod. destruct (K r Hr); [left; apply in_or_app|]; auto.
    - rewrite Hds, L, sumZ_app. cbn [sumZ]. lia.
    - rewrite Hcs, M, sumZ_app. cbn [sumZ]. unfold xcost at 3. rewrite Hgeh. cbn [length zlen].
      rewrite (sumZ_ext (xcost st') (xcost st) fl); [unfold zlen; cbn; lia|].
      intros x Hx. unfold xcost. rewrite Hgef; auto.
  Qed.

  Definition ins1 (st : db) (h : N) : db :=
    with_dirties st (mset h (mkEntry 0 [] (newest st) 0) (fold_left bump_child (kids h) (dirties st))).

  Lemma getd_ins st h x :
    getd (ins1 st h) x =
    if x =? h then Some (mkEntry 0 [] (newest st) 0) else
    match getd st x with
    | Some ex => Some (set_parents ex (e_parents ex + N.of_nat (cnt x (kids h))))
    | None => None
    end.
  Proof. unfold getd, ins1. cbn [dirties with_dirties]. rewrite mset_cases. destruct (x =? h); auto. apply bump_fold. Qed.

  Lemma ins_facts st st' h :
    getd st h = None -> (forall x, lget st' x = lget (ins1 st h) x) ->
    (forall x, gext st' x = if x =? h then [] else gext st x) /\
    (forall x, cached st x -> gpar st' x = (gpar st x + cnt x (kids h))%nat) /\ gpar st' h = 0%nat /\
    (forall x, cached st' x <-> x = h \/ cached st x).
  Proof.
    intros Hn Hl.
    assert (F : forall x, gext st' x = gext (ins1 st h) x /\ gpar st' x = gpar (ins1 st h) x /\ (cached st' x <-> cached (ins1 st h) x))
      by (intros x; apply lget_facts, Hl).
    split; [|split; [|split]].
    - intros x. destruct (F x) as (-> & _). unfold gext. rewrite getd_ins. destruct (x =? h); auto. destruct (getd st x); auto.
    - intros x Hc. destruct (F x) as (_ & -> & _). unfold gpar, cached in *. rewrite getd_ins.
      destruct (N.eqb_spec x h) as [->|]; [congruence|]. destruct (getd st x); [|congruence]. cbn [e_parents set_parents]. lia.
    - destruct (F h) as (_ & -> & _). unfold gpar. rewrite getd_ins, N.eqb_refl. reflexivity.
    - intros x. destruct (F x) as (_ & _ & ->). unfold cached. rewrite getd_ins.
      destruct (N.eqb_spec x h) as [->|]; [intuition congruence|]. destruct (getd st x); intuition congruence.
  Qed.

  Lemma last_snoc (l : list N) h d : last (l ++ [h]) d = h.
  Proof. induction l as [|x l IH]; [reflexivity|]. change ((x :: l) ++ [h]) with (x :: (l ++ [h])). rewrite last_cons.
    destruct l; [reflexivity|]. change ((n :: l) ++ [h]) with (n :: (l ++ [h])) in *. rewrite last_cons in *.
    clear IH. revert n. induction l as [|y l IH]; intros n; [reflexivity|]. change ((y :: l) ++ [h]) with (y :: (l ++ [h])). rewrite last_cons. apply IH. Qed.

  Lemma nodup_snoc (l : list N) h : NoDup l -> ~ In h l -> NoDup (l ++ [h]).
  Proof.
    induction l as [|x l IH]; cbn; intros Hnd Hh; [constructor; [intros []|constructor]|].
    inversion Hnd as [|? ? Hx Hl']. constructor; [|apply IH; tauto].
    intros Hc. apply in_app_or in Hc as [?|[<-|[]]]; tauto.
  Qed.

  Lemma insert_inv fl pend stamp u nxt st h :
    GInv fl [] [] pend stamp u nxt st -> h <> 0 ->
    (forall c, In c (kids h ++ ext h) -> known st c) ->
    (forall s, In s (ext h) -> In (s, h) pend) ->
    exists st' fl' stamp' nxt', insert kids nsize st h = Ok st' /\ GInv fl' [] [] pend stamp' u nxt' st' /\
      cached st' h /\ (forall x, cached st x -> cached st' x) /\ disk st' = disk st.
  Proof.
    intros [Hl HI] Hh0 Hkn Hpe. unfold insert. destruct (getd st h) as [e0|] eqn:Hn.
    { exists st, fl, stamp, nxt. split; auto. split; [split; auto|]. split; [unfold cached; congruence|]. split; auto. }
    assert (Hcf : forall x, cached st x <-> In x fl) by (intros x; rewrite (g_dom _ _ _ _ _ _ _ _ _ _ _ HI); cbn; tauto).
    assert (Hnc : ~ cached st h) by (unfold cached; congruence).
    assert (Hnf : ~ In h fl) by (rewrite <- Hcf; auto).
    cbv zeta.
    change (with_dirties st (mset h (mkEntry 0 [] (newest st) 0) (fold_left bump_child (kids h) (dirties st)))) with (ins1 st h).
    change (oldest (ins1 st h)) with (oldest st). change (newest (ins1 st h)) with (newest st).
    assert (Hfinish : forall st', (forall x, lget st' x = lget (ins1 st h) x) -> disk st' = disk st ->
              dsize st' = (dsize st + cost nsize h)%Z -> csize st' = csize st -> linked (fl ++ [h]) st' ->
              GInv (fl ++ [h]) [] [] pend (stamp_ins stamp h nxt) u (S nxt) st' /\ cached st' h /\
              (forall x, cached st x -> cached st' x) /\ disk st' = disk st).
    { intros st' Hlg Hd Hds Hcs Hl'. destruct (ins_facts st st' h Hn Hlg) as (F1 & F2 & F3 & F4).
      split; [split; auto; eapply LInv_insert; eauto|]. split; [apply F4; auto|]. split; auto. intros x Hx. apply F4. auto. }
    destruct fl as [|a t].
    - rewrite (lk_old _ _ Hl). cbn [hd]. rewrite N.eqb_refl. cbn [bind].
      eexists. exists [h], (stamp_ins stamp h nxt), (S nxt). split; [reflexivity|].
      apply (Hfinish _); try reflexivity.
      constructor.
      + constructor; [intros []|constructor].
      + intros [?|[]]. congruence.
      + reflexivity.
      + reflexivity.
      + cbn [app chain]. eexists. split; [|split; [tauto|split; [|exact I]]].
        * match goal with |- getd ?X h = _ => change (getd X h) with (getd (ins1 st h) h) end. rewrite getd_ins, N.eqb_refl. reflexivity.
        * reflexivity.
    - assert (Ha0 : a <> 0) by (intros ->; apply (lk_nz _ _ Hl); left; auto).
      rewrite (lk_old _ _ Hl). cbn [hd]. destruct (N.eqb_spec a 0); [congruence|].
      set (tl := last (a :: t) 0).
      assert (Hnew : newest st = tl) by (apply (lk_new _ _ Hl); discriminate).
      assert (Htl : In tl (a :: t)) by (apply last_in; discriminate).
      assert (Htlh : tl <> h) by (intros Hc; apply Hnf; rewrite <- Hc; auto).
      assert (Hct : cached st tl) by (apply Hcf; auto). unfold cached in Hct.
      destruct (getd st tl) as [etl|] eqn:Hetl; [|congruence].
      set (etl1 := set_parents etl (e_parents etl + N.of_nat (cnt tl (kids h)))).
      assert (Hg1 : getd (ins1 st h) (newest st) = Some etl1).
      { rewrite Hnew, getd_ins. destruct (N.eqb_spec tl h); [congruence|]. rewrite Hetl. reflexivity. }
      rewrite (upd_ok _ _ _ _ Hg1). cbn [bind].
      eexists. exists ((a :: t) ++ [h]), (stamp_ins stamp h nxt), (S nxt). split; [reflexivity|].
      set (st2 := setd (ins1 st h) (newest st) (set_next etl1 h)).
      assert (Hgd : forall x, getd (with_sizes (with_newest st2 h) (dsize (with_newest st2 h) + node_cost nsize h) (csize (with_newest st2 h))) x
                    = if x =? tl then Some (set_next etl1 h) else getd (ins1 st h) x).
      { intros x. change (getd st2 x = if x =? tl then Some (set_next etl1 h) else getd (ins1 st h) x).
        unfold st2. rewrite getd_setd, Hnew. reflexivity. }
      apply (Hfinish _); try reflexivity.
      + intros x. unfold lget. rewrite Hgd. destruct (N.eqb_spec x tl) as [->|]; [|reflexivity].
        rewrite <- Hnew, Hg1. reflexivity.
      + assert (Hnd := lk_nodup _ _ Hl).
        constructor.
        * apply nodup_snoc; auto.
        * intros Hc. apply in_app_or in Hc as [Hc|[Hc|[]]]; [apply (lk_nz _ _ Hl); auto|congruence].
        * change (oldest st = a). rewrite (lk_old _ _ Hl). reflexivity.
        * intros _. change (h = last ((a :: t) ++ [h]) 0). rewrite last_snoc. reflexivity.
        * apply (chain_snoc st _ h (a :: t) 0); try discriminate; auto.
          -- exact (lk_chain _ _ Hl).
          -- intros x Hx Hxl. unfold pn. rewrite Hgd. fold tl in Hxl. destruct (N.eqb_spec x tl); [congruence|].
             rewrite getd_ins. destruct (N.eqb_spec x h) as [->|]; [tauto|]. destruct (getd st x); reflexivity.
          -- fold tl. exists etl, (set_next etl1 h). split; auto. split; [rewrite Hgd, N.eqb_refl; auto|]. split; reflexivity.
          -- fold tl. eexists. split; [rewrite Hgd; destruct (N.eqb_spec h tl); [congruence|]; rewrite getd_ins, N.eqb_refl; reflexivity|].
             split; [reflexivity|]. cbn [e_prev]. exact Hnew.
  Qed.

  (* ---------------------------------------------------------------- reference *)
  Definition uinc (u : N -> nat) (c : N) : N -> nat := fun x => if x =? c then S (u x) else u x.

  Lemma reference_root_inv fl stamp u nxt st c :
    Inv fl stamp u nxt st -> known st c ->
    exists st', reference st c 0 = Ok st' /\ Inv fl stamp (uinc u c) nxt st'.
  Proof.
    intros [Hl HI] Hkn. unfold reference. destruct (getd st c) as [node|] eqn:Hc.
    - cbn [N.eqb]. eexists. split; [reflexivity|]. split; [eapply linked_setd_logic; eauto|].
      eapply LInv_repar; [..|exact HI]; auto.
      + intros x. rewrite gext_setd. destruct (N.eqb_spec x c) as [->|]; auto. unfold gext. rewrite Hc. reflexivity.
      + intros x. rewrite cached_setd. split; [intros [->|?]; auto; unfold cached; congruence|auto].
      + intros x Hx Hn Hex. rewrite gpar_setd. unfold uinc. destruct (N.eqb_spec x c) as [->|]; [|exact Hex].
        cbn [e_parents set_parents]. unfold gpar in Hex. rewrite Hc in Hex. lia.
      + intros r. unfold uinc. destruct (N.eqb_spec r c) as [->|]; [|apply (g_roots _ _ _ _ _ _ _ _ _ _ _ HI)].
        intros _. assert (Hcc : cached st c) by (unfold cached; congruence).
        apply (g_dom _ _ _ _ _ _ _ _ _ _ _ HI) in Hcc as [?|[]]. left. auto.
    - exists st. split; auto. split; auto.
      eapply LInv_repar; [..|exact HI]; auto; try tauto.
      + intros x Hx Hn Hex. unfold uinc. destruct (N.eqb_spec x c) as [->|]; [|exact Hex].
        exfalso. assert (Hca : cached st c) by (apply (g_dom _ _ _ _ _ _ _ _ _ _ _ HI); auto). unfold cached in Hca. congruence.
      + intros r. unfold uinc. destruct (N.eqb_spec r c) as [->|]; [|apply (g_roots _ _ _ _ _ _ _ _ _ _ _ HI)].
        intros _. destruct Hkn as [Hk|Hk]; [unfold cached in Hk; congruence|right; auto].
  Qed.

  (* dropping pending references that are no longer needed *)
  Lemma LInv_pend fl pend pend' stamp u nxt st :
    (forall s p, In (s, p) pend -> In s fl -> In p fl -> In (s, p) pend' \/ ondisk st s \/ In s (gext st p)) ->
    LInv fl [] [] pend stamp u nxt st -> LInv fl [] [] pend' stamp u nxt st.
  Proof.
    intros Hw [A B C D E F G H I J K L M]. constructor; auto.
    intros p s Hp Hs. destruct (H p s Hp Hs) as [?|[?|(Hpe & Hsf & Hsl)]]; auto.
    destruct (Hw s p Hpe Hsf Hp) as [?|[?|?]]; auto.
  Qed.

  Lemma cnt_snoc x l s : cnt x (l ++ [s]) = (cnt x l + if N.eqb x s then 1 else 0)%nat.
  Proof. rewrite cnt_app. cbn [cnt]. lia. Qed.

  Lemma LInv_addext fl rest stamp u nxt st st' s p :
    LInv fl [] [] ((s, p) :: rest) stamp u nxt st -> In p fl -> In s (ext p) -> ~ In s (gext st p) ->
    (forall x, gext st' x = if x =? p then gext st p ++ [s] else gext st x) ->
    (forall x, gpar st' x = if x =? s then S (gpar st x) else gpar st x) ->
    (forall x, cached st' x <-> cached st x) ->
    disk st' = disk st -> dsize st' = dsize st -> csize st' = (csize st + hashLen)%Z ->
    LInv fl [] [] rest stamp u nxt st'.
  Proof.
    intros [A B C D E F G H I J K L M] Hp Hs Hns Hge Hgp Hca Hd Hds Hcs.
    assert (Hnd : NoDup fl) by (eapply ss_nodup; eauto).
    assert (Hod : forall x, ondisk st' x <-> ondisk st x) by (intros x; unfold ondisk; rewrite Hd; tauto).
    assert (Hgeo : forall x, x <> p -> gext st' x = gext st x).
    { intros x Hx. rewrite Hge. destruct (N.eqb_spec x p); [congruence|auto]. }
    assert (Hgep : gext st' p = gext st p ++ [s]) by (rewrite Hge, N.eqb_refl; auto).
    assert (Hocc : forall x, occ kids st' fl x = (occ kids st fl x + if N.eqb x s then 1 else 0)%nat).
    { intros x. rewrite (occ_rm kids ext nsize st' fl p x Hnd Hp), (occ_rm kids ext nsize st fl p x Hnd Hp).
      rewrite (occ_ext kids st st' (rm p fl) x).
      2:{ intros q Hq. apply rm_in in Hq as [_ Hq]. auto. }
      unfold tracked. rewrite Hgep, !cnt_app. cbn [cnt]. lia. }
    constructor.
    - intros x. rewrite Hca. apply A.
    - exact B.
    - exact C.
    - exact D.
    - exact E.
    - intros x c. rewrite !Hod. apply F.
    - intros q c Hq Hc. rewrite Hod. unfold tracked in Hc. destruct (N.eq_dec q p) as [->|Hqp].
      + rewrite Hgep in Hc. rewrite <- app_assoc in Hc. apply in_app_or in Hc as [Hc|Hc].
        * apply (G p c Hp). apply in_or_app. auto.
        * cbn [app] in Hc. destruct Hc as [<-|Hc].
          -- destruct (H p s Hp Hs) as [?|[?|(_ & Hsf & Hsl)]]; [left; auto|tauto|right; auto].
          -- apply (G p c Hp). apply in_or_app. auto.
      + rewrite Hgeo in Hc by auto. apply (G q c Hq Hc).
    - intros q s' Hq Hs'. rewrite Hod. destruct (H q s' Hq Hs') as [?|[Hg|(Hpe & Hsf & Hsl)]]; auto.
      + right. left. destruct (N.eq_dec q p) as [->|Hqp]; [rewrite Hgep; apply in_or_app; auto|rewrite Hgeo; auto].
      + destruct Hpe as [Heq|Hr]; [|right; right; auto].
        injection Heq as <- <-. right. left. rewrite Hgep. apply in_or_app. right. left. auto.
    - intros q. destruct (N.eq_dec q p) as [->|Hqp]; [|rewrite Hgeo; auto].
      rewrite Hgep. intros x Hx. apply in_app_or in Hx as [Hx|[<-|[]]]; auto. apply (I p). auto.
    - intros x Hx. rewrite Hod, Hocc, Hgp. intros Hn. rewrite (J x Hx Hn). destruct (x =? s); lia.
    - intros r Hr. rewrite Hod. apply K; auto.
    - rewrite Hds. exact L.
    - rewrite Hcs, M. cbn [sumZ]. rewrite (sumZ_rm (xcost st') p fl Hnd Hp), (sumZ_rm (xcost st) p fl Hnd Hp).
      rewrite (sumZ_ext (xcost st') (xcost st) (rm p fl)).
      2:{ intros x Hx. apply rm_in in Hx as [_ Hx]. unfold xcost. rewrite Hgeo; auto. }
      assert (Hxp : xcost st' p = (xcost st p + hashLen)%Z).
      { unfold xcost. rewrite Hgep. unfold zlen, hashLen. rewrite app_length. cbn [length]. lia. }
      rewrite Hxp. lia.
  Qed.

  Lemma inb_spec x l : inb x l = true <-> In x l.
  Proof.
    unfold inb. rewrite existsb_exists. split.
    - intros (y & Hy & E). apply N.eqb_eq in E. subst. auto.
    - intros H. exists x. split; auto. apply N.eqb_refl.
  Qed.

  Lemma reference_ext_inv fl rest stamp u nxt st s p :
    GInv fl [] [] ((s, p) :: rest) stamp u nxt st -> In p fl -> In s (ext p) -> p <> 0 ->
    exists st', reference st s p = Ok st' /\ GInv fl [] [] rest stamp u nxt st' /\ disk st' = disk st /\
      (forall x, cached st' x <-> cached st x).
  Proof.
    intros [Hl HI] Hp Hs Hp0. unfold reference.
    assert (Hsp : s <> p).
    { intros ->. assert (rank p < rank p)%nat; [|lia]. apply rank_dec, in_or_app. auto. }
    destruct (getd st s) as [node|] eqn:Hnode.
    2:{ exists st. split; auto. split; [split; auto|split; [auto|tauto]].
        eapply LInv_pend; [|exact HI]. intros s' p' [Heq|Hr] Hsf Hpf; auto.
        injection Heq as <- <-. exfalso.
        assert (Hca : cached st s) by (apply (g_dom _ _ _ _ _ _ _ _ _ _ _ HI); auto). unfold cached in Hca. congruence. }
    destruct (N.eqb_spec p 0); [congruence|].
    assert (Hpc : cached st p) by (apply (g_dom _ _ _ _ _ _ _ _ _ _ _ HI); auto). unfold cached in Hpc.
    destruct (getd st p) as [pe|] eqn:Hpe; [|congruence].
    assert (Hgp : gext st p = e_ext pe) by (unfold gext; rewrite Hpe; auto).
    destruct (inb s (e_ext pe)) eqn:Hinb.
    { exists st. split; auto. split; [split; auto|split; [auto|tauto]].
      eapply LInv_pend; [|exact HI]. intros s' p' [Heq|Hr] Hsf Hpf; auto.
      injection Heq as <- <-. right. right. rewrite Hgp. apply inb_spec. exact Hinb. }
    set (st1 := setd st s (set_parents node (e_parents node + 1))).
    assert (Hp1 : getd st1 p = Some pe).
    { unfold st1. rewrite getd_setd. destruct (N.eqb_spec p s); [congruence|auto]. }
    rewrite (upd_ok _ _ _ _ Hp1). cbn [bind].
    set (st2 := setd st1 p (set_ext pe (e_ext pe ++ [s]))).
    eexists. split; [reflexivity|].
    assert (Hl2 : linked fl st2).
    { unfold st2. eapply linked_setd_logic; [|exact Hp1|reflexivity|reflexivity].
      unfold st1. eapply linked_setd_logic; eauto. }
    split; [split|split].
    - destruct Hl2 as [A1 A2 A3 A4 A5]. constructor; auto. eapply chain_ext; [|exact A5]. intros; reflexivity.
    - eapply LInv_addext; [exact HI|auto|auto| | | | | | |].
      + rewrite Hgp. intros Hc. apply inb_spec in Hc. congruence.
      + intros x. change (gext st2 x = if x =? p then gext st p ++ [s] else gext st x).
        unfold st2, st1. rewrite !gext_setd. destruct (N.eqb_spec x p) as [->|]; [cbn [e_ext set_ext]; rewrite Hgp; auto|].
        destruct (N.eqb_spec x s) as [->|]; auto. unfold gext. rewrite Hnode. reflexivity.
      + intros x. change (gpar st2 x = if x =? s then S (gpar st x) else gpar st x).
        unfold st2, st1. rewrite !gpar_setd. destruct (N.eqb_spec x p) as [->|].
        * destruct (N.eqb_spec p s); [congruence|]. unfold gpar. rewrite Hpe. reflexivity.
        * destruct (N.eqb_spec x s) as [->|]; auto. unfold gpar. rewrite Hnode. cbn [e_parents set_parents]. lia.
      + intros x. change (cached st2 x <-> cached st x). unfold st2, st1. rewrite !cached_setd.
        split; [intros [->|[->|?]]; auto; unfold cached; congruence|auto].
      + reflexivity.
      + reflexivity.
      + reflexivity.
    - reflexivity.
    - intros x. change (cached st2 x <-> cached st x). unfold st2, st1. rewrite !cached_setd.
      split; [intros [->|[->|?]]; auto; unfold cached; congruence|auto].
  Qed.

  (* ---------------------------------------------------------------- Update *)
  (* what trie commit guarantees: children (and embedded storage roots) of an inserted node are
     readable or inserted earlier in the same update *)
  Fixpoint ins_ok (K : N -> Prop) (nodes : list N) : Prop :=
    match nodes with
    | [] => True
    | h :: r => h <> 0 /\ (forall c, In c (kids h ++ ext h) -> K c) /\ ins_ok (fun x => K x \/ x = h) r
    end.

  Definition upd_ok (st : db) (nodes : list N) (refs : list (N * N)) : Prop :=
    ins_ok (known st) nodes /\
    (forall h s, In h nodes -> In s (ext h) -> In (s, h) refs) /\
    (forall s p, In (s, p) refs -> In p nodes /\ In s (ext p)).

  Lemma ins_ok_nz : forall nodes K h, ins_ok K nodes -> In h nodes -> h <> 0.
  Proof. induction nodes as [|x r IH]; cbn; [tauto|]. intros K h (H1 & _ & H3) [<-|Hin]; eauto. Qed.

  Lemma inserts_inv pend u : forall nodes st fl stamp nxt (K : N -> Prop),
    GInv fl [] [] pend stamp u nxt st -> (forall x, K x -> known st x) -> ins_ok K nodes ->
    (forall h s, In h nodes -> In s (ext h) -> In (s, h) pend) ->
    exists st' fl' stamp' nxt', fold_res (insert kids nsize) nodes st = Ok st' /\ GInv fl' [] [] pend stamp' u nxt' st' /\
      (forall h, In h nodes -> cached st' h) /\ (forall x, cached st x -> cached st' x) /\ disk st' = disk st.
  Proof.
    induction nodes as [|h r IH]; intros st fl stamp nxt K HG HK Hok Hpe.
    - exists st, fl, stamp, nxt. cbn [fold_res]. split; [reflexivity|]. split; [exact HG|]. split; [intros ? []|]. split; auto.
    - cbn [ins_ok] in Hok. destruct Hok as (Hh0 & Hkn & Hok).
      destruct (insert_inv fl pend stamp u nxt st h HG Hh0) as (st1 & fl1 & stamp1 & nxt1 & E1 & HG1 & Hc1 & Hm1 & Hd1).
      { intros c Hc. apply HK, Hkn, Hc. }
      { intros s Hs. apply Hpe; [left|]; auto. }
      assert (Hkm : forall x, known st x -> known st1 x).
      { intros x [Hx|Hx]; [left; auto|right]. unfold ondisk. rewrite Hd1. exact Hx. }
      destruct (IH st1 fl1 stamp1 nxt1 (fun x => K x \/ x = h) HG1) as (st2 & fl2 & stamp2 & nxt2 & E2 & HG2 & Hc2 & Hm2 & Hd2); auto.
      { intros x [Hx|Hx]; [apply Hkm, HK, Hx|subst x; left; exact Hc1]. }
      { intros h' s Hh' Hs. apply Hpe; [right|]; auto. }
      exists st2, fl2, stamp2, nxt2. cbn [fold_res]. rewrite E1. split; [exact E2|]. split; [exact HG2|].
      split; [|split; [auto|congruence]]. intros h' [<-|Hh']; auto.
  Qed.

  Lemma refs_inv fl stamp u nxt : forall refs st,
    GInv fl [] [] refs stamp u nxt st ->
    (forall s p, In (s, p) refs -> cached st p /\ In s (ext p) /\ p <> 0) ->
    exists st', fold_res (fun s cp => reference s (fst cp) (snd cp)) refs st = Ok st' /\ GInv fl [] [] [] stamp u nxt st'.
  Proof.
    induction refs as [|[s p] r IH]; intros st HG Hr.
    - exists st. split; [reflexivity|exact HG].
    - destruct (Hr s p (or_introl eq_refl)) as (Hpc & Hs & Hp0).
      assert (Hpf : In p fl).
      { destruct HG as [_ HI]. apply (g_dom _ _ _ _ _ _ _ _ _ _ _ HI) in Hpc as [?|[]]. auto. }
      destruct (reference_ext_inv fl r stamp u nxt st s p HG Hpf Hs Hp0) as (st1 & E1 & HG1 & Hd1 & Hc1).
      destruct (IH st1 HG1) as (st2 & E2 & HG2).
      { intros s' p' Hin. destruct (Hr s' p' (or_intror Hin)) as (A & B & C). split; [apply Hc1; auto|auto]. }
      exists st2. cbn [fold_res fst snd]. rewrite E1. split; auto.
  Qed.

  Lemma Update_inv fl stamp u nxt st nodes refs :
    Inv fl stamp u nxt st -> upd_ok st nodes refs ->
    exists st' fl' stamp' nxt', Update kids nsize st nodes refs = Ok st' /\ Inv fl' stamp' u nxt' st'.
  Proof.
    intros [Hl HI] (Hok & Hall & Hsub). unfold Update.
    assert (HG0 : GInv fl [] [] refs stamp u nxt st).
    { split; auto. eapply LInv_pend; [|exact HI]. intros s p []. }
    destruct (inserts_inv refs u nodes st fl stamp nxt (known st) HG0) as (st1 & fl1 & stamp1 & nxt1 & E1 & HG1 & Hc1 & _ & _); auto.
    rewrite E1. cbn [bind].
    destruct (refs_inv fl1 stamp1 u nxt1 refs st1 HG1) as (st2 & E2 & HG2).
    { intros s p Hin. destruct (Hsub s p Hin) as (Hp & Hs). split; [apply Hc1; auto|]. split; auto. eapply ins_ok_nz; eauto. }
    exists st2, fl1, stamp1, nxt1. split; auto.
  Qed.

  (* ---------------------------------------------------------------- all histories *)
  Definition op_ok (u : N -> nat) (st : db) (o : op) : Prop :=
    match o with
    | OUpdate nodes refs => upd_ok st nodes refs
    | OReference c p => p = 0 /\ known st c
    | ODereference r => r = 0 \/ (0 < u r)%nat
    | OCap _ => True
    | OCommit _ => True
    end.

  Definition u_step (u : N -> nat) (o : op) : N -> nat :=
    match o with
    | OReference c _ => uinc u c
    | ODereference r => udec u r
    | _ => u
    end.

  Fixpoint good (u : N -> nat) (st : db) (ops : list op) : Prop :=
    match ops with
    | [] => True
    | o :: r => op_ok u st o /\
                forall st', step kids nsize cns ideal st o = Ok st' -> good (u_step u o) st' r
    end.

  Lemma step_inv fl stamp u nxt st o :
    Inv fl stamp u nxt st -> op_ok u st o ->
    exists st' fl' stamp' nxt', step kids nsize cns ideal st o = Ok st' /\ Inv fl' stamp' (u_step u o) nxt' st'.
  Proof.
    intros HI Hok. destruct o as [nodes refs|c p|r|l|r]; cbn [step op_ok u_step] in *.
    - eapply Update_inv; eauto.
    - destruct Hok as [-> Hk]. unfold Reference.
      destruct (reference_root_inv fl stamp u nxt st c HI Hk) as (st' & E & HI'). exists st', fl, stamp, nxt. auto.
    - destruct (Dereference_inv fl stamp u nxt st r HI Hok) as (st' & fl' & E & HI'). exists st', fl', stamp, nxt. auto.
    - destruct (Cap_inv fl stamp u nxt st l HI) as (st' & fl' & E & HI'). exists st', fl', stamp, nxt. auto.
    - destruct (Commit_inv fl stamp u nxt st r HI) as (st' & fl' & E & HI' & _). exists st', fl', stamp, nxt. auto.
  Qed.

  Lemma run_inv : forall ops st fl stamp u nxt,
    Inv fl stamp u nxt st -> good u st ops ->
    exists st' fl' stamp' nxt', run kids nsize cns ideal ops st = Ok st' /\
      Inv fl' stamp' (fold_left u_step ops u) nxt' st'.
  Proof.
    induction ops as [|o r IH]; intros st fl stamp u nxt HI Hg.
    - exists st, fl, stamp, nxt. split; [reflexivity|exact HI].
    - cbn [good] in Hg. destruct Hg as (Hok & Hrest).
      destruct (step_inv fl stamp u nxt st o HI Hok) as (st1 & fl1 & stamp1 & nxt1 & E1 & HI1).
      destruct (IH st1 fl1 stamp1 (u_step u o) nxt1 HI1 (Hrest st1 E1)) as (st2 & fl2 & stamp2 & nxt2 & E2 & HI2).
      exists st2, fl2, stamp2, nxt2. unfold run in *. cbn [fold_res fold_left]. rewrite E1. auto.
  Qed.

  Lemma inv_empty : Inv [] (fun _ => 0%nat) (fun _ => 0%nat) 0 empty_db.
  Proof.
    assert (Hg : forall x, getd empty_db x = None) by (intros x; apply mget_empty).
    assert (Hd : forall x, ~ ondisk empty_db x) by (intros x H; apply H; apply mget_empty).
    split.
    - constructor; cbn; auto; try constructor; try congruence.
    - constructor.
      + intros h. unfold cached. rewrite Hg. cbn. tauto.
      + intros d [].
      + constructor.
      + constructor.
      + intros x [].
      + intros x c Hx. destruct (Hd x Hx).
      + intros p c [].
      + intros p s [].
      + intros p. unfold gext. rewrite Hg. intros ? [].
      + intros x [].
      + intros r Hr. lia.
      + reflexivity.
      + reflexivity.
  Qed.

  Theorem all_histories ops :
    good (fun _ => 0%nat) empty_db ops ->
    exists st fl stamp nxt, run kids nsize cns ideal ops empty_db = Ok st /\
      Inv fl stamp (fold_left u_step ops (fun _ => 0%nat)) nxt st.
  Proof. intros Hg. eapply run_inv; [apply inv_empty|exact Hg]. Qed.

  Definition u0 : N -> nat := fun _ => 0%nat.
  Definition u_of (ops : list op) : N -> nat := fold_left u_step ops u0.

  Lemma hist_live ops st r x :
    good u0 empty_db ops -> run kids nsize cns ideal ops empty_db = Ok st ->
    (0 < u_of ops r)%nat -> reach kids ext r x -> cached st x \/ ondisk st x.
  Proof.
    intros Hg Hr Hu Hx. destruct (all_histories ops Hg) as (st' & fl & stamp & nxt & E & HI).
    rewrite E in Hr. injection Hr as <-. eapply inv_live_readable; eauto.
  Qed.

  Lemma hist_disk_closed ops st r x :
    good u0 empty_db ops -> run kids nsize cns ideal ops empty_db = Ok st ->
    ondisk st r -> reach kids ext r x -> ondisk st x.
  Proof.
    intros Hg Hr Hu Hx. destruct (all_histories ops Hg) as (st' & fl & stamp & nxt & E & HI).
    rewrite E in Hr. injection Hr as <-. eapply ondisk_reach; eauto.
  Qed.

  Lemma hist_flushlist ops st :
    good u0 empty_db ops -> run kids nsize cns ideal ops empty_db = Ok st ->
    exists fl stamp, linked fl st /\ (forall h, cached st h <-> In h fl) /\ StronglySorted (slt stamp) fl.
  Proof.
    intros Hg Hr. destruct (all_histories ops Hg) as (st' & fl & stamp & nxt & E & [Hl HI]).
    rewrite E in Hr. injection Hr as <-. exists fl, stamp. split; auto. split; [|apply (g_sorted _ _ _ _ _ _ _ _ _ _ _ HI)].
    intros h. rewrite (g_dom _ _ _ _ _ _ _ _ _ _ _ HI). cbn. tauto.
  Qed.

  Lemma hist_refcount ops st :
    good u0 empty_db ops -> run kids nsize cns ideal ops empty_db = Ok st ->
    exists fl, (forall h, cached st h <-> In h fl) /\ NoDup fl /\
      forall x, cached st x -> ~ ondisk st x -> gpar st x = (occ kids st fl x + u_of ops x)%nat.
  Proof.
    intros Hg Hr. destruct (all_histories ops Hg) as (st' & fl & stamp & nxt & E & [Hl HI]).
    rewrite E in Hr. injection Hr as <-. exists fl.
    assert (Hd : forall h, cached st' h <-> In h fl) by (intros h; rewrite (g_dom _ _ _ _ _ _ _ _ _ _ _ HI); cbn; tauto).
    split; auto. split; [apply (lk_nodup _ _ Hl)|].
    intros x Hc Hn. assert (Hx : In x fl) by (apply Hd; auto).
    rewrite (g_exact _ _ _ _ _ _ _ _ _ _ _ HI x Hx Hn). cbn [cnt]. unfold u_of, u0. lia.
  Qed.

  Lemma hist_size ops st :
    good u0 empty_db ops -> run kids nsize cns ideal ops empty_db = Ok st ->
    exists fl, (forall h, cached st h <-> In h fl) /\ NoDup fl /\
      Size cns st = sumZ (fun h => cost nsize h + cns + xcost st h)%Z fl.
  Proof.
    intros Hg Hr. destruct (all_histories ops Hg) as (st' & fl & stamp & nxt & E & HI).
    rewrite E in Hr. injection Hr as <-. exists fl.
    split; [|split; [apply (lk_nodup _ _ (proj1 HI))|eapply inv_size_exact; eauto]].
    intros h. rewrite (g_dom _ _ _ _ _ _ _ _ _ _ _ (proj2 HI)). cbn. tauto.
  Qed.

  (* a cached node that is not on disk, has no cached referrer and no root reference has count 0:
     the orphan with a positive count of the leak witness cannot exist off disk *)
  Lemma hist_collects ops st x :
    good u0 empty_db ops -> run kids nsize cns ideal ops empty_db = Ok st ->
    cached st x -> ~ ondisk st x -> u_of ops x = 0%nat ->
    (forall p, cached st p -> ~ In x (tracked kids st p)) -> gpar st x = 0%nat.
  Proof.
    intros Hg Hr Hc Hn Hu Hno. destruct (hist_refcount ops st Hg Hr) as (fl & Hd & _ & Hex).
    rewrite (Hex x Hc Hn), Hu. rewrite occ_zero; [lia|]. intros p Hp. apply Hno, Hd, Hp.
  Qed.

  (* after Commit root everything reachable from root is on disk *)
  Lemma hist_commit_persists ops st root st' x :
    good u0 empty_db ops -> run kids nsize cns ideal ops empty_db = Ok st ->
    known st root -> Commit kids nsize ideal st root = Ok st' -> reach kids ext root x -> ondisk st' x.
  Proof.
    intros Hg Hr Hk Hc Hx. destruct (all_histories ops Hg) as (st1 & fl & stamp & nxt & E & HI).
    rewrite E in Hr. injection Hr as <-.
    destruct (Commit_inv fl stamp (u_of ops) nxt st1 root HI) as (st2 & fl2 & E2 & HI2 & Hroot & _).
    rewrite E2 in Hc. injection Hc as <-. eapply ondisk_reach; eauto.
  Qed.
End Ops.

(* ------------------------------------------------------------------ a concrete guarded history *)
Definition demo_ext (h : N) : list N := if h =? 2 then [1] else [].

Lemma demo_rank : forall h c, In c (demo_kids h ++ demo_ext h) -> (N.to_nat c < N.to_nat h)%nat.
Proof.
  intros h c. unfold demo_kids, demo_ext.
  destruct (N.eqb_spec h 3) as [->|]; [cbn; intuition (subst; lia)|].
  destruct (N.eqb_spec h 2) as [->|]; cbn; intuition (subst; lia).
Qed.

Lemma demo_good : good demo_kids demo_ext leak_size 104%Z 102400%Z u0 empty_db demo_ops.
Proof.
  unfold demo_ops. cbn [good]. split.
  - cbn [op_ok]. split; [|split].
    + cbn [ins_ok]. split; [discriminate|]. split; [cbn; tauto|].
      split; [discriminate|]. split; [cbn; intuition|].
      split; [discriminate|]. split; [cbn; intuition|]. exact I.
    + intros h s Hh Hs. cbn in Hh. destruct Hh as [<-|[<-|[<-|[]]]]; cbn in Hs; intuition. subst. left. reflexivity.
    + intros s p [E|[]]. injection E as <- <-. cbn. intuition.
  - intros st' Hs. vm_compute in Hs. injection Hs as <-. split.
    + cbn [op_ok]. split; [reflexivity|]. left. unfold cached. vm_compute. discriminate.
    + intros st'' _. exact I.
Qed.
