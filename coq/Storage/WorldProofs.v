(* Storage/WorldProofs.v — history-level proofs about Storage/World.v: the table
   refinement, batch atomicity, replay = write, iterator snapshots, memorydb = spec. *)
From GV Require Import Lib.Tactics Storage.KV Storage.Table Storage.MemDB Storage.World Storage.KVProofs.

(* the spec's batch queues ops unchanged *)
Definition idn (o : bop) : bop := o.

(* ---------- list helpers ---------- *)
Lemma nth_error_upd_eq {A} n (x : A) l : (n < length l)%nat -> nth_error (upd n x l) n = Some x.
Proof. revert n. induction l as [|y l IH]; intros [|n] H; cbn in *; try lia; auto. apply IH. lia. Qed.

Lemma nth_error_upd_neq {A} n m (x : A) l : n <> m -> nth_error (upd n x l) m = nth_error l m.
Proof.
  revert n m. induction l as [|y l IH]; intros [|n] [|m] H; cbn; auto; try congruence.
Qed.

Lemma Forall2_nth_error {A B} (R : A -> B -> Prop) l1 l2 n : Forall2 R l1 l2 ->
  match nth_error l1 n, nth_error l2 n with
  | Some a, Some b => R a b
  | None, None => True
  | _, _ => False
  end.
Proof. intros H. revert n. induction H; intros [|n]; cbn; auto. apply IHForall2. Qed.

Lemma Forall2_upd {A B} (R : A -> B -> Prop) l1 l2 n a b :
  Forall2 R l1 l2 -> R a b -> Forall2 R (upd n a l1) (upd n b l2).
Proof. intros H Hab. revert n. induction H; intros [|n]; cbn; auto. Qed.

(* ---------- run ---------- *)
Lemma run_cons norm o r w :
  fst (run norm (o :: r) w) = snd (step norm w o) :: fst (run norm r (fst (step norm w o))) /\
  snd (run norm (o :: r) w) = snd (run norm r (fst (step norm w o))).
Proof. cbn. destruct (step norm w o) as [w1 u]. cbn. destruct (run norm r w1). auto. Qed.

Lemma run_app_snd norm h1 h2 w :
  snd (run norm (h1 ++ h2) w) = snd (run norm h2 (snd (run norm h1 w))).
Proof.
  revert w. induction h1 as [|o r IH]; intros w; [reflexivity|].
  rewrite <- app_comm_cons. destruct (run_cons norm o (r ++ h2) w) as [_ ->].
  destruct (run_cons norm o r w) as [_ ->]. apply IH.
Qed.

(* ---------- the table refinement ---------- *)
(* issue a history through view v (handles are unaffected) *)
Definition set_view (v : view) (o : op) : op :=
  match o with
  | OPut _ k x => OPut v k x
  | ODelete _ k => ODelete v k
  | ODeleteRange _ s e => ODeleteRange v s e
  | OHas _ k => OHas v k
  | OGet _ k => OGet v k
  | ONewBatch _ => ONewBatch v
  | OBReplay b _ => OBReplay b v
  | ONewIter _ p s => ONewIter v p s
  | _ => o
  end.

(* guard of the refinement: stored keys stay below ethdb.MaximumKey (0xff*32), and the
   history is made of ethdb.KeyValueStore methods (ODump reads the whole underlying
   store and is not a method of the table) *)
Definition tbl_ok (o : op) : Prop :=
  match o with
  | OPut _ k _ => blt k maxkey = true
  | OBPut _ k _ => blt k maxkey = true
  | ODump => False
  | _ => True
  end.

Definition rel_batch (p : key) (bt bs : batch) : Prop :=
  b_view bt = Some p /\ b_view bs = None /\
  b_ops bt = map (vbop (Some p)) (b_ops bs) /\ Forall small_bop (b_ops bs).

Definition rel_iter (p : key) (it is_ : iter) : Prop :=
  i_view it = Some p /\ i_view is_ = None /\ i_rest is_ = map (stripfst p) (i_rest it).

Record rel_world (p : key) (wt ws : world) : Prop := {
  rw_sorted : sorted (w_db wt);
  rw_db : w_db ws = view_kv p (w_db wt);
  rw_small : small_kv (w_db ws);
  rw_batches : Forall2 (rel_batch p) (w_batches wt) (w_batches ws);
  rw_iters : Forall2 (rel_iter p) (w_iters wt) (w_iters ws) }.

Lemma rel_write p wt ws ops : rel_world p wt ws -> Forall small_bop ops ->
  rel_world p (set_db wt (write (map (vbop (Some p)) ops) (w_db wt)))
              (set_db ws (write ops (w_db ws))) /\
  outside p (write (map (vbop (Some p)) ops) (w_db wt)) = outside p (w_db wt).
Proof.
  intros [S D G B I] F. rewrite D in G.
  destruct (write_view p ops (w_db wt) S G F) as (A1 & A2 & A3 & A4).
  split; [|exact A4]. constructor; cbn; auto; rewrite D; auto.
Qed.

Lemma replay_view_none ops m : replay_view None None ops m = (write ops m, true).
Proof. revert m. induction ops as [|o r IH]; intros m; cbn; auto. Qed.

Lemma queue_refines p wt ws b o : rel_world p wt ws -> small_bop o ->
  snd (queue idn wt b o) = snd (queue idn ws b o) /\
  rel_world p (fst (queue idn wt b o)) (fst (queue idn ws b o)) /\
  w_db (fst (queue idn wt b o)) = w_db wt.
Proof.
  intros R Ho. unfold queue. pose proof (Forall2_nth_error _ _ _ b (rw_batches _ _ _ R)) as H.
  destruct (nth_error (w_batches wt) b) as [bt|], (nth_error (w_batches ws) b) as [bs|];
    cbn in H; try contradiction; cbn; auto.
  unfold rel_batch in H. destruct H as (V1 & V2 & O & F).
  split; [reflexivity|split; [|reflexivity]].
  destruct R as [S D G B I]. constructor; cbn; auto.
  apply Forall2_upd; [exact B|]. unfold rel_batch; cbn.
  split; [exact V1|split; [exact V2|split]].
  - rewrite V1, V2, O, map_app. reflexivity.
  - apply Forall_app. split; [exact F|]. rewrite V2. constructor; [exact Ho|constructor].
Qed.

Lemma small1 o : small_bop o -> Forall small_bop [o].
Proof. intros H. constructor; [exact H|constructor]. Qed.

Lemma step_refines p wt ws o : rel_world p wt ws -> tbl_ok o ->
  snd (step idn wt (set_view (Some p) o)) = snd (step idn ws (set_view None o)) /\
  rel_world p (fst (step idn wt (set_view (Some p) o))) (fst (step idn ws (set_view None o))) /\
  outside p (w_db (fst (step idn wt (set_view (Some p) o)))) = outside p (w_db wt).
Proof.
  intros R Hok. destruct o as [v k x|v k|v s e|v k|v k|v|b k x|b k|b s e|b|b|b tv|v pre st|i|];
    cbn [set_view step].
  - (* Put *)
    split; [reflexivity|].
    exact (rel_write p wt ws [BPut k x] R (small1 (BPut k x) Hok)).
  - split; [reflexivity|].
    exact (rel_write p wt ws [BDel k] R (small1 (BDel k) I)).
  - split; [reflexivity|].
    exact (rel_write p wt ws [BDelRange s e] R (small1 (BDelRange s e) I)).
  - (* Has *)
    cbn. split; [|split; [exact R|reflexivity]].
    unfold has. rewrite (rw_db _ _ _ R), get_view. reflexivity.
  - cbn. split; [|split; [exact R|reflexivity]].
    rewrite (rw_db _ _ _ R), get_view. reflexivity.
  - (* NewBatch *)
    cbn. split; [reflexivity|split; [|reflexivity]].
    destruct R as [S D G B I]. constructor; cbn; auto.
    apply Forall2_app; [exact B|]. constructor; [|constructor].
    unfold rel_batch; cbn. auto.
  - (* b.Put *)
    destruct (queue_refines p wt ws b (BPut k x) R Hok) as (A & B & C).
    split; [exact A|split; [exact B|]]. rewrite C. reflexivity.
  - destruct (queue_refines p wt ws b (BDel k) R I) as (A & B & C).
    split; [exact A|split; [exact B|]]. rewrite C. reflexivity.
  - destruct (queue_refines p wt ws b (BDelRange s e) R I) as (A & B & C).
    split; [exact A|split; [exact B|]]. rewrite C. reflexivity.
  - (* b.Write *)
    pose proof (Forall2_nth_error _ _ _ b (rw_batches _ _ _ R)) as H.
    destruct (nth_error (w_batches wt) b) as [bt|], (nth_error (w_batches ws) b) as [bs|];
      cbn in H; try contradiction; cbn; auto.
    unfold rel_batch in H. destruct H as (V1 & V2 & O & F). split; [reflexivity|]. rewrite O.
    exact (rel_write p wt ws (b_ops bs) R F).
  - (* b.Reset *)
    pose proof (Forall2_nth_error _ _ _ b (rw_batches _ _ _ R)) as H.
    destruct (nth_error (w_batches wt) b) as [bt|], (nth_error (w_batches ws) b) as [bs|];
      cbn in H; try contradiction; cbn; auto.
    unfold rel_batch in H. destruct H as (V1 & V2 & O & F).
    split; [reflexivity|split; [|reflexivity]].
    destruct R as [S D G B I]. constructor; cbn; auto.
    apply Forall2_upd; [exact B|]. unfold rel_batch; cbn. auto.
  - (* b.Replay onto the view itself *)
    pose proof (Forall2_nth_error _ _ _ b (rw_batches _ _ _ R)) as H.
    destruct (nth_error (w_batches wt) b) as [bt|], (nth_error (w_batches ws) b) as [bs|];
      cbn in H; try contradiction; cbn; auto.
    unfold rel_batch in H. destruct H as (V1 & V2 & O & F).
    rewrite V1, V2, O, replay_view_self, replay_view_none.
    cbn. split; [reflexivity|]. exact (rel_write p wt ws (b_ops bs) R F).
  - (* NewIterator *)
    cbn. split; [reflexivity|split; [|reflexivity]].
    destruct R as [S D G B I]. constructor; cbn; auto.
    apply Forall2_app; [exact I|]. constructor; [|constructor].
    unfold rel_iter; cbn. split; [reflexivity|split; [reflexivity|]].
    rewrite D. symmetry. apply iter_view.
  - (* Next *)
    pose proof (Forall2_nth_error _ _ _ i (rw_iters _ _ _ R)) as H.
    destruct (nth_error (w_iters wt) i) as [it|], (nth_error (w_iters ws) i) as [is_|];
      cbn in H; try contradiction; cbn; auto.
    unfold rel_iter in H. destruct H as (V1 & V2 & O). rewrite O.
    destruct (i_rest it) as [|[k x] r]; cbn; auto.
    rewrite V1, V2. cbn. split; [reflexivity|split; [|reflexivity]].
    destruct R as [S D G B I]. constructor; cbn; auto.
    apply Forall2_upd; [exact I|]. unfold rel_iter; cbn. auto.
  - contradiction.
Qed.

Lemma run_refines p h : forall wt ws, rel_world p wt ws -> Forall tbl_ok h ->
  fst (run idn (map (set_view (Some p)) h) wt) = fst (run idn (map (set_view None) h) ws) /\
  rel_world p (snd (run idn (map (set_view (Some p)) h) wt))
              (snd (run idn (map (set_view None) h) ws)) /\
  outside p (w_db (snd (run idn (map (set_view (Some p)) h) wt))) = outside p (w_db wt).
Proof.
  induction h as [|o r IH]; intros wt ws R F; [cbn; auto|].
  inversion F as [|? ? Fo Fr]; subst. rewrite !map_cons.
  destruct (run_cons idn (set_view (Some p) o) (map (set_view (Some p)) r) wt) as [-> ->].
  destruct (run_cons idn (set_view None o) (map (set_view None) r) ws) as [-> ->].
  destruct (step_refines p wt ws o R Fo) as (A & B & C).
  destruct (IH _ _ B Fr) as (A' & B' & C').
  split; [rewrite A, A'; reflexivity|split; [exact B'|]]. rewrite C', C. reflexivity.
Qed.

Theorem table_refines p h m :
  sorted m -> small_kv (view_kv p m) -> Forall tbl_ok h ->
  fst (run idn (map (set_view (Some p)) h) (init m)) =
    fst (run idn (map (set_view None) h) (init (view_kv p m))) /\
  view_kv p (w_db (snd (run idn (map (set_view (Some p)) h) (init m)))) =
    w_db (snd (run idn (map (set_view None) h) (init (view_kv p m)))) /\
  outside p (w_db (snd (run idn (map (set_view (Some p)) h) (init m)))) = outside p m.
Proof.
  intros S G F.
  assert (R : rel_world p (init m) (init (view_kv p m))) by (constructor; cbn; auto).
  destruct (run_refines p h _ _ R F) as (A & B & C).
  split; [exact A|split; [|exact C]]. symmetry. apply (rw_db _ _ _ B).
Qed.

(* ---------- batches ---------- *)
Definition to_op (b : nat) (o : bop) : op :=
  match o with
  | BPut k x => OBPut b k x
  | BDel k => OBDelete b k
  | BDelRange s e => OBDeleteRange b s e
  end.

Lemma step_to_op norm w b o : step norm w (to_op b o) = queue norm w b o.
Proof. destruct o; reflexivity. Qed.

Lemma queue_many norm b os : forall w bt, nth_error (w_batches w) b = Some bt ->
  fst (run norm (map (to_op b) os) w) = map (fun _ => UOk) os /\
  w_db (snd (run norm (map (to_op b) os) w)) = w_db w /\
  nth_error (w_batches (snd (run norm (map (to_op b) os) w))) b =
    Some {| b_view := b_view bt;
            b_ops := b_ops bt ++ map (fun o => norm (vbop (b_view bt) o)) os |}.
Proof.
  induction os as [|o r IH]; intros w bt H.
  - cbn. rewrite app_nil_r. destruct bt. auto.
  - rewrite map_cons.
    destruct (run_cons norm (to_op b o) (map (to_op b) r) w) as [-> ->].
    rewrite step_to_op. unfold queue. rewrite H. cbn [fst snd].
    set (bt' := {| b_view := b_view bt; b_ops := b_ops bt ++ [norm (vbop (b_view bt) o)] |}).
    assert (H' : nth_error (w_batches (set_batch w b bt')) b = Some bt').
    { cbn. apply nth_error_upd_eq. apply nth_error_Some. congruence. }
    destruct (IH _ _ H') as (A & B & C). rewrite A, B, C. cbn. rewrite <- app_assoc. auto.
Qed.

Lemma fresh_batch norm w v os :
  let b := length (w_batches w) in
  let w' := snd (run norm (ONewBatch v :: map (to_op b) os) w) in
  w_db w' = w_db w /\
  nth_error (w_batches w') b =
    Some {| b_view := v; b_ops := map (fun o => norm (vbop v o)) os |}.
Proof.
  intros b w'. unfold w'.
  destruct (run_cons norm (ONewBatch v) (map (to_op b) os) w) as [_ ->].
  remember (fst (step norm w (ONewBatch v))) as w1 eqn:E1.
  assert (H1 : nth_error (w_batches w1) b = Some {| b_view := v; b_ops := [] |}).
  { subst w1. cbn. rewrite nth_error_app2 by lia. unfold b. rewrite Nat.sub_diag. reflexivity. }
  assert (Hdb : w_db w1 = w_db w) by (subst w1; reflexivity).
  clear E1. destruct (queue_many norm b os w1 _ H1) as (A & B & C).
  split; [rewrite B; exact Hdb|exact C].
Qed.

(* building a batch changes nothing; Write applies exactly the queued ops, in order *)
Theorem batch_all_or_nothing norm w v os :
  let b := length (w_batches w) in
  let h := ONewBatch v :: map (to_op b) os in
  w_db (snd (run norm h w)) = w_db w /\
  w_db (snd (run norm (h ++ [OBWrite b]) w)) = write (map (fun o => norm (vbop v o)) os) (w_db w).
Proof.
  intros b h. unfold h. pose proof (fresh_batch norm w v os) as FB. cbv zeta in FB. fold b in FB.
  destruct FB as [Hd Hn]. split; [exact Hd|].
  rewrite run_app_snd.
  remember (snd (run norm (ONewBatch v :: map (to_op b) os) w)) as w' eqn:E. clear E.
  cbn [run step]. rewrite Hn. cbn. rewrite Hd. reflexivity.
Qed.

(* ops that are not writes leave the store untouched (in particular everything done to
   a batch before its Write) *)
Definition is_write (o : op) : bool :=
  match o with
  | OPut _ _ _ | ODelete _ _ | ODeleteRange _ _ _ | OBWrite _ | OBReplay _ _ => true
  | _ => false
  end.

Lemma step_db_unchanged norm w o : is_write o = false -> w_db (fst (step norm w o)) = w_db w.
Proof.
  destruct o; cbn; try discriminate; intros _; auto; unfold queue;
    try (destruct (nth_error (w_batches w) b); reflexivity).
  destruct (nth_error (w_iters w) i) as [it|]; [|reflexivity].
  destruct (i_rest it) as [|[k x] r]; reflexivity.
Qed.

Lemma run_db_unchanged norm h : forall w,
  (forall o, In o h -> is_write o = false) -> w_db (snd (run norm h w)) = w_db w.
Proof.
  induction h as [|o r IH]; intros w H; [reflexivity|].
  destruct (run_cons norm o r w) as [_ ->]. rewrite IH.
  - apply step_db_unchanged. apply H. left. reflexivity.
  - intros o' Ho'. apply H. right. exact Ho'.
Qed.

(* Replay onto the batch's own view succeeds and has exactly the effect of Write *)
Theorem batch_replay_eq_write norm w v os :
  let b := length (w_batches w) in
  let h := ONewBatch v :: map (to_op b) os in
  (forall o, norm o = o) ->
  let w' := snd (run norm h w) in
  step norm w' (OBReplay b v) = (fst (step norm w' (OBWrite b)), UOk).
Proof.
  intros b h N w'. unfold w', h. pose proof (fresh_batch norm w v os) as FB. cbv zeta in FB.
  fold b in FB. destruct FB as [Hd Hn].
  remember (snd (run norm (ONewBatch v :: map (to_op b) os) w)) as w2 eqn:E. clear E.
  assert (M : map (fun o => norm (vbop v o)) os = map (vbop v) os).
  { apply map_ext. intros o. apply N. }
  cbn [step]. rewrite Hn. cbn [b_view b_ops fst]. rewrite M, replay_view_self. reflexivity.
Qed.

(* ---------- iterators ---------- *)
Lemma step_iter_preserved norm w o i it :
  nth_error (w_iters w) i = Some it -> o <> OIterNext i ->
  nth_error (w_iters (fst (step norm w o))) i = Some it.
Proof.
  intros H Ho. destruct o; cbn; auto; unfold queue;
    try (destruct (nth_error (w_batches w) b); cbn; exact H).
  - destruct (nth_error (w_batches w) b) as [bt|]; [|exact H].
    destruct (replay_view (b_view bt) target (b_ops bt) (w_db w)). exact H.
  - rewrite nth_error_app1; [exact H|]. apply nth_error_Some. congruence.
  - destruct (nth_error (w_iters w) i0) as [it0|]; [|exact H].
    destruct (i_rest it0) as [|[k x] r]; [exact H|]. cbn.
    rewrite nth_error_upd_neq; [exact H|]. intros ->. apply Ho. reflexivity.
Qed.

(* an open iterator is a snapshot: whatever the history does (other than advancing this
   very iterator), it still holds exactly the items selected at creation time *)
Theorem iterator_snapshot norm w v pre st h :
  let i := length (w_iters w) in
  (forall o, In o h -> o <> OIterNext i) ->
  nth_error (w_iters (snd (run norm (ONewIter v pre st :: h) w))) i =
    Some {| i_view := v; i_rest := viter_items v pre st (w_db w) |}.
Proof.
  intros i H. destruct (run_cons norm (ONewIter v pre st) h w) as [_ ->].
  set (w1 := fst (step norm w (ONewIter v pre st))).
  assert (H1 : nth_error (w_iters w1) i = Some {| i_view := v; i_rest := viter_items v pre st (w_db w) |}).
  { cbn. rewrite nth_error_app2 by lia. unfold i. rewrite Nat.sub_diag. reflexivity. }
  clearbody w1. revert w1 H1. induction h as [|o r IH]; intros w1 H1; [exact H1|].
  destruct (run_cons norm o r w1) as [_ ->]. apply IH.
  - intros o' Ho'. apply H. right. exact Ho'.
  - apply step_iter_preserved; [exact H1|]. apply H. left. reflexivity.
Qed.

(* draining an iterator yields its items in order (keys with the view's prefix
   stripped), then reports exhaustion *)
Theorem iterator_drain norm i v rest : forall w,
  nth_error (w_iters w) i = Some {| i_view := v; i_rest := rest |} ->
  fst (run norm (repeat (OIterNext i) (S (length rest))) w) =
    map (fun kx => UItem (Some (vstrip v (fst kx), snd kx))) rest ++ [UItem None].
Proof.
  induction rest as [|[k x] r IH]; intros w H.
  - cbn. rewrite H. reflexivity.
  - change (repeat (OIterNext i) (S (length ((k, x) :: r))))
      with (OIterNext i :: repeat (OIterNext i) (S (length r))).
    destruct (run_cons norm (OIterNext i) (repeat (OIterNext i) (S (length r))) w) as [-> _].
    cbn [step]. rewrite H. cbn [i_rest i_view fst snd map app]. f_equal.
    apply IH. cbn. apply nth_error_upd_eq. apply nth_error_Some. congruence.
Qed.

(* ---------- memorydb = spec ---------- *)
Lemma step_norm_ext n1 n2 w o : (forall x, n1 x = n2 x) -> step n1 w o = step n2 w o.
Proof.
  intros H. destruct o; cbn; auto; unfold queue;
    (destruct (nth_error (w_batches w) b); [rewrite H|]; reflexivity).
Qed.

Lemma run_norm_ext n1 n2 h : (forall x, n1 x = n2 x) -> forall w, run n1 h w = run n2 h w.
Proof.
  intros H. induction h as [|o r IH]; intros w; [reflexivity|].
  cbn. rewrite (step_norm_ext n1 n2 w o H). destruct (step n2 w o) as [w1 u]. rewrite IH. reflexivity.
Qed.

Theorem memdb_refines_spec h w : run mem_norm h w = run idn h w.
Proof. apply run_norm_ext. exact mem_norm_id. Qed.

(* ---------- packaged statements for Properties/C23.v ---------- *)
Lemma blt_strict_total_order :
  (forall a, blt a a = false) /\
  (forall a b c, blt a b = true -> blt b c = true -> blt a c = true) /\
  (forall a b, blt a b = false -> blt b a = false -> a = b) /\
  (forall a b, beq a b = true <-> a = b).
Proof. repeat split; intros; try (apply beq_eq; assumption);
  eauto using blt_irrefl, blt_trans, blt_total. Qed.

Lemma store_is_map k k' v m : sorted m ->
  sorted (put k' v m) /\ sorted (delete k' m) /\
  get k (put k' v m) = (if beq k k' then Some v else get k m) /\
  get k (delete k' m) = (if beq k k' then None else get k m) /\
  (forall x, In (k, x) m <-> get k m = Some x).
Proof.
  intros S. repeat split; auto using sorted_put, sorted_delete, get_put, get_delete, get_In.
  apply In_get. exact S.
Qed.

Lemma delete_range_spec s e m : sorted m ->
  sorted (delete_range s e m) /\
  (forall k, get k (delete_range s e m) = if in_range s e k then None else get k m) /\
  (forall k, in_range s e k = true <->
     (s = None \/ exists s', s = Some s' /\ ble s' k = true) /\
     (e = None \/ exists e', e = Some e' /\ blt k e' = true)) /\
  delete_range s (Some []) m = m /\
  delete_range None None m = [] /\
  delete_range (Some []) e m = delete_range None e m /\
  (forall s' e', s = Some s' -> e = Some e' -> ble e' s' = true -> delete_range s e m = m).
Proof.
  intros S. split; [apply sorted_delete_range, S|]. split; [intros; apply get_delete_range|].
  split; [intros; apply in_range_iff|]. split; [apply delete_range_empty_end|].
  split; [apply delete_range_nil_nil|]. split; [apply delete_range_start_empty|].
  intros s' e' -> ->. apply delete_range_inverted.
Qed.

Lemma iterator_sorted_complete v pre st m : sorted m ->
  sorted (viter_items v pre st m) /\
  forall k x, In (k, x) (viter_items v pre st m) <->
    get k m = Some x /\ is_prefix (vkey v pre) k = true /\ ble (vkey v pre ++ st) k = true.
Proof.
  intros S. unfold viter_items. split; [apply sorted_iter_items, S|].
  intros k x. apply In_iter_items. exact S.
Qed.

Lemma table_nil_end_unbounded_refuted :
  exists p m, sorted m /\
    view_kv p (apply (vbop (Some p) (BDelRange None None)) m) <>
    apply (BDelRange None None) (view_kv p m).
Proof.
  exists [], [(repeat 255%N 33, [1%N])]. split; [cbn; auto|]. vm_compute. discriminate.
Qed.

Lemma memdb_old_batch_encoding_refuted :
  exists m, sorted m /\ write [dec_old (enc (BDel []))] m <> write [BDel []] m.
Proof. exists [([97%N], [1%N])]. split; [cbn; auto|]. vm_compute. discriminate. Qed.
