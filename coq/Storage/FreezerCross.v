(* Storage/FreezerCross.v — the cross-table condition of the freezer crash theorem derived from the
   history: a table's tails never exceed the head its flush offset covers, tables stay aligned, and
   Freezer.TruncateTail flushes every table before it persists a tail. *)
From GV Require Import Lib.Tactics Storage.FreezerTable Storage.FreezerTableProofs Storage.FreezerTableInv Storage.Freezer Storage.FreezerProofs Storage.FreezerSuccess Storage.FreezerTableData Storage.FreezerCompose Storage.FreezerTableOps Storage.FreezerHist.
Local Open Scope N_scope.

Ltac inv_destruct H :=
  destruct H as (rest & Hb & Hwf & Ht & Ho & Hv & Hi & Hi32 & Hh & Hhb & Hhm & Hsm & Hm6 & H6 & Hfd & Hfw
                 & Hms & Hv1 & Hv2 & Hoh & Hhi).

(* the head covered by the flush offset, and the tail invariant: both metadata records carry a tail that
   is at most the in-memory tail, which is at most that head *)
Definition dh (t : table) : N := t_offset t + (mflush (t_mcur t) / 6 - 1).
Definition XInv (t : table) : Prop :=
  mvtail (t_mcur t) = t_hidden t /\ mvtail (t_msyn t) <= t_hidden t /\ t_hidden t <= dh t.

Lemma dur_head_dh maxsz t : IdxInv maxsz t -> dur_head t = dh t.
Proof.
  intros HI. destruct (nsynced_le _ _ HI) as (Hns & _ & _). unfold dur_head, dh, synced_of.
  rewrite firstn_length, Nat.min_l by exact Hns. unfold nsynced.
  pose proof HI as HI0. unfold IdxInv, core, IdxInvC in HI0. inv_destruct HI0. lia.
Qed.

Lemma xinv_core t t' : core t' = core t -> XInv t -> XInv t'.
Proof.
  intros C. apply core_proj in C. destruct C as (_ & C2 & C3 & _ & _ & _ & _ & C8 & C9).
  unfold XInv, dh. rewrite C2, C3, C8, C9. tauto.
Qed.

(* ---------- doSync ---------- *)
Lemma xinv_do_sync maxsz t t' :
  IdxInv maxsz t -> XInv t -> do_sync t = Ok t' ->
  XInv t' /\ dh t' = t_items t' /\ t_items t' = t_items t /\ t_hidden t' = t_hidden t.
Proof.
  intros HI (X1 & X2 & X3) E. pose proof (do_sync_core _ _ E) as C. unfold core in C.
  injection C as P1 P2 P3 P4 P5 P6 P7 P8 P9.
  pose proof HI as HI0. unfold IdxInv, core, IdxInvC in HI0. inv_destruct HI0.
  pose proof (idx_size _ _ _ _ Hb) as Hsz.
  assert (Hd : dh t' = t_items t').
  { unfold dh. rewrite P1, P2, P8. cbn [mflush]. unfold fsize. rewrite Hsz. lia. }
  split; [|split; [exact Hd|split; [exact P1|exact P3]]].
  unfold XInv. rewrite Hd, P1, P3, P9, P8. cbn [mvtail]. repeat split; lia.
Qed.

(* ---------- resetTo ---------- *)
Lemma xinv_reset_to t n t' : reset_to t n = Ok t' -> XInv t' /\ t_items t' = n /\ t_hidden t' = n.
Proof.
  intros E. pose proof (reset_to_core _ _ _ E) as C. cbv zeta in C. unfold core in C.
  injection C as P1 P2 P3 P4 P5 P6 P7 P8 P9.
  unfold XInv, dh. rewrite P1, P2, P3, P9, P8. cbn [mvtail mflush]. repeat split; try reflexivity; lia.
Qed.

(* ---------- truncateHead ---------- *)
Lemma truncate_head_main t n t' :
  truncate_head t n = Ok t' -> t_hidden t <= n -> n < t_items t ->
  t_items t' = n /\ t_hidden t' = t_hidden t /\ t_offset t' = t_offset t /\
  ((n - t_offset t + 1) * 6 < mflush (t_mcur t) /\ t_mcur t' = mkMeta 2 (mvtail (t_mcur t)) ((n - t_offset t + 1) * 6) /\ t_msyn t' = t_mcur t'
   \/ mflush (t_mcur t) <= (n - t_offset t + 1) * 6 /\ t_mcur t' = t_mcur t /\ t_msyn t' = t_msyn t).
Proof.
  intros E L2 L1. unfold truncate_head in E. cbv zeta in E.
  destruct (N.leb_spec (t_items t) n); [lia|]. destruct (N.ltb_spec n (t_hidden t)); [lia|].
  set (newoff := (n - t_offset t + 1) * 6) in *.
  set (T1 := sync_index (w_index t (f_trunc (t_index t) newoff))) in E.
  set (T2 := if newoff <? mflush (t_mcur T1) then set_flush T1 newoff else T1) in E.
  match type of E with (match ?X with _ => _ end) = _ => destruct X as [ex|] eqn:EX end; [|discriminate].
  match type of E with context [data_upd ?X _ _] => set (T3 := X) in E end.
  destruct (data_upd T3 (t_head T3) _) as [t4|] eqn:ED; [|discriminate].
  inversion E; subst t'; clear E. apply core_data_upd, core_proj in ED.
  destruct ED as (_ & D2 & D3 & _ & _ & _ & _ & D8 & D9).
  cbn [w_counters t_items t_hidden t_offset t_mcur t_msyn]. rewrite D2, D3, D8, D9.
  assert (H3 : t_offset T3 = t_offset T2 /\ t_hidden T3 = t_hidden T2 /\ t_mcur T3 = t_mcur T2 /\ t_msyn T3 = t_msyn T2).
  { subst T3. destruct (efile ex =? t_head T2); [repeat split; reflexivity|].
    match goal with |- context [w_counters ?C _ _ _ _ _ _] => assert (CC : core C = core T2) end.
    { unfold release_after. rewrite core_release_where, core_open_append, core_release_file. reflexivity. }
    apply core_proj in CC. destruct CC as (_ & C2 & C3 & _ & _ & _ & _ & C8 & C9).
    cbn [w_counters t_offset t_hidden t_mcur t_msyn]. repeat split; assumption. }
  destruct H3 as (A2 & A3 & A8 & A9). rewrite A2, A3, A8, A9.
  subst T2 T1. cbn [sync_index w_index t_mcur].
  destruct (N.ltb_spec newoff (mflush (t_mcur t))) as [L|L].
  - repeat split; try reflexivity. left. repeat split; try reflexivity. exact L.
  - repeat split; try reflexivity. right. repeat split; try reflexivity. exact L.
Qed.

Lemma xinv_truncate_head maxsz t n t' :
  IdxInv maxsz t -> XInv t -> truncate_head t n = Ok t' -> XInv t'.
Proof.
  intros HI HX E. destruct (truncate_head_spec _ _ _ E) as [[L ->]|[(L1 & L2 & L3 & _)|(L1 & L2 & _)]]; [exact HX| |].
  - unfold truncate_head in E. cbv zeta in E. destruct (N.leb_spec (t_items t) n); [lia|].
    destruct (N.ltb_spec n (t_hidden t)); [|lia]. rewrite L3, N.eqb_refl in E. exact (proj1 (xinv_reset_to _ _ _ E)).
  - destruct HX as (X1 & X2 & X3).
    destruct (truncate_head_main _ _ _ E L2 L1) as (M1 & M2 & M3 & M4).
    pose proof HI as HI0. unfold IdxInv, core, IdxInvC in HI0. inv_destruct HI0.
    unfold XInv, dh in *. rewrite M2, M3.
    destruct M4 as [(F1 & F2 & F3)|(F1 & F2 & F3)].
    + rewrite F3, F2. cbn [mvtail mflush]. repeat split; try lia.
    + rewrite F2, F3. repeat split; assumption.
Qed.

Lemma dh_truncate_head maxsz t n t' :
  IdxInv maxsz t -> truncate_head t n = Ok t' -> N.min (dh t) (t_items t') <= dh t'.
Proof.
  intros HI E. destruct (truncate_head_spec _ _ _ E) as [[L ->]|[(L1 & L2 & L3 & L4 & L5)|(L1 & L2 & L4 & L5)]]; [lia| |].
  - unfold truncate_head in E. cbv zeta in E. destruct (N.leb_spec (t_items t) n); [lia|].
    destruct (N.ltb_spec n (t_hidden t)); [|lia]. rewrite L3, N.eqb_refl in E.
    destruct (xinv_reset_to _ _ _ E) as ((_ & _ & X3) & _ & _). lia.
  - destruct (truncate_head_main _ _ _ E L2 L1) as (M1 & M2 & M3 & M4).
    pose proof HI as HI0. unfold IdxInv, core, IdxInvC in HI0. inv_destruct HI0.
    unfold dh. rewrite M3, M1. destruct M4 as [(F1 & F2 & F3)|(F1 & F2 & F3)]; rewrite F2; cbn [mflush]; lia.
Qed.

(* ---------- truncateTail (the new tail must be covered by the flush offset, or beyond the head) ---------- *)
Lemma xinv_truncate_tail maxsz t n t' :
  IdxInv maxsz t -> XInv t -> n < two32 -> (n <= dh t \/ t_items t < n) -> truncate_tail t n = Ok t' ->
  XInv t' /\ N.min (dh t) (t_items t') <= dh t'.
Proof.
  intros HI (X1 & X2 & X3) Hn Hcov E. unfold truncate_tail in E. cbv zeta in E.
  destruct (N.leb_spec n (t_hidden t)) as [L1|L1]; [inversion E; subst; split; [repeat split; assumption|lia]|].
  destruct (N.ltb_spec (t_items t) n) as [L2|L2].
  { destruct (xinv_reset_to _ _ _ E) as (XR & R1 & R2). split; [exact XR|]. destruct XR as (_ & _ & X3'). lia. }
  destruct Hcov as [Hcov|Hcov]; [|lia].
  match type of E with (match ?X with _ => _ end) = _ => destruct X as [newtail|] eqn:EN end; [|discriminate].
  set (T2 := set_vtail (w_counters t (t_items t) (t_offset t) n (t_head t) (t_tail t) (t_headbytes t)) n false) in E.
  change (t_tail T2) with (t_tail t) in E.
  destruct (N.eqb_spec (t_tail t) newtail) as [Q|Q].
  { inversion E; subst t'. unfold XInv, dh, T2. cbn. unfold dh in Hcov. repeat split; try lia. }
  destruct (N.ltb_spec newtail (t_tail t)) as [Q2|Q2]; [discriminate|].
  destruct (do_sync T2) as [t3|] eqn:ES; [|discriminate].
  pose proof (do_sync_core _ _ ES) as C3.
  change (core t3 = (t_items t, t_offset t, n, t_head t, t_tail t, t_headbytes t, f_sync (t_index t),
                     mkMeta 2 n (fsize (t_index t)), mkMeta 2 n (fsize (t_index t)))) in C3.
  unfold core in C3. injection C3 as P1 P2 P3 P4 P5 P6 P7 P8 P9.
  destruct (tail_scan _ _ _ _ _ _) as [newdel|] eqn:ET; [|discriminate].
  pose proof HI as HI0. unfold IdxInv, core, IdxInvC in HI0. inv_destruct HI0.
  pose proof (idx_size _ _ _ _ Hb) as Hsz.
  (* bounds on newdel from the scan *)
  assert (HD : t_offset t <= newdel <= n).
  { rewrite P7, P2 in ET. cbn [f_sync fbytes] in ET. rewrite Hb in ET.
    set (j := N.to_nat (n - t_offset t)).
    assert (Hj : n = t_offset t + N.of_nat j) by (subst j; lia).
    assert (Hwfh : forallb entry_wf (mkE (t_tail t) (t_offset t) :: rest) = true).
    { cbn [forallb]. unfold entry_wf at 1. cbn [efile eoff].
      replace (t_tail t <? 65536) with true by (symmetry; apply N.ltb_lt; exact Ht).
      replace (t_offset t <? two32) with true by (symmetry; apply N.ltb_lt; exact Ho). exact Hwf. }
    replace (n - 1) with (scan_cur (t_offset t) j) in ET by (unfold scan_cur, two64, two32 in *; lia).
    rewrite Hj in ET.
    apply (tail_scan_spec (mkE (t_tail t) (t_offset t)) rest newtail j) in ET;
      [|exact Hwfh | exact Q | cbn [eoff]; lia | unfold flen; cbn [f_sync fbytes]; rewrite ?Hb, ?concat_enc_length; cbn [length]; lia].
    cbn [eoff] in ET. destruct ET as [[D1 D2] _]. lia. }
  match type of E with context [release_before ?X _ _] => set (T5 := X) in E end.
  assert (C6 : core (release_before T5 newtail true) = core T5) by apply core_release_where.
  apply core_proj in C6. destruct C6 as (_ & R2 & R3 & _ & _ & _ & _ & R8 & R9).
  rewrite R8 in E. change (t_mcur T5) with (t_mcur t3) in E. rewrite P8 in E. cbn [mflush] in E.
  destruct (N.leb_spec (fsize (t_index t)) (6 * (newdel - t_offset t3))); [discriminate|].
  inversion E; subst t'; clear E.
  unfold XInv, dh, set_flush, meta_write. cbn [w_meta w_data w_open t_mcur t_msyn t_hidden t_offset mvtail mflush].
  change (t_offset T5) with newdel. change (t_hidden T5) with (t_hidden t3). change (t_mcur T5) with (t_mcur t3).
  rewrite P3, P8, P2. cbn [mvtail]. unfold fsize in *. rewrite Hsz in *.
  change (match newdel - t_offset t with 0 => 0 | N.pos q => N.pos (q + q~0)~0 end) with (6 * (newdel - t_offset t)).
  change (t_items T5) with (t_items t3). rewrite ?P1.
  repeat split; try lia.
Qed.

(* ---------- append batches ---------- *)
Definition MR (t t' : table) : Prop :=
  t_hidden t' = t_hidden t /\ t_offset t' = t_offset t /\ mvtail (t_mcur t') = mvtail (t_mcur t) /\
  mvtail (t_msyn t') <= N.max (mvtail (t_msyn t)) (mvtail (t_mcur t)) /\ mflush (t_mcur t) <= mflush (t_mcur t').

Lemma mr_refl t : MR t t.
Proof. unfold MR. repeat split; lia. Qed.

Lemma mr_trans a b c : MR a b -> MR b c -> MR a c.
Proof. unfold MR. intros (A1 & A2 & A3 & A4 & A5) (B1 & B2 & B3 & B4 & B5). repeat split; try congruence; lia. Qed.

Lemma mr_xinv t t' : XInv t -> MR t t' -> XInv t'.
Proof.
  unfold XInv, MR, dh. intros (X1 & X2 & X3) (A1 & A2 & A3 & A4 & A5). rewrite A1, A2, A3.
  assert (mflush (t_mcur t) / 6 <= mflush (t_mcur t') / 6) by (apply N.div_le_mono; lia).
  repeat split; try assumption; try lia.
Qed.

Lemma mr_core t t' : core t' = core t -> MR t t'.
Proof.
  intros C. apply core_proj in C. destruct C as (_ & C2 & C3 & _ & _ & _ & _ & C8 & C9).
  unfold MR. rewrite C2, C3, C8, C9. repeat split; lia.
Qed.

Lemma mr_vcore t b t' : core t' = vcore t b -> MR t t'.
Proof.
  intros C. unfold core, vcore in C. injection C as P1 P2 P3 P4 P5 P6 P7 P8 P9.
  unfold MR. rewrite P2, P3, P8, P9. repeat split; lia.
Qed.

Lemma mr_advance maxsz t t' : IdxInv maxsz t -> advance_head t = Ok t' -> MR t t'.
Proof.
  intros HI E. pose proof (advance_head_core _ _ E) as C. unfold core in C. injection C as P1 P2 P3 P4 P5 P6 P7 P8 P9.
  pose proof HI as HI0. unfold IdxInv, core, IdxInvC in HI0. inv_destruct HI0.
  unfold MR. rewrite P2, P3, P8, P9. cbn [mvtail mflush]. unfold fsize. repeat split; lia.
Qed.

Lemma mr_append_item maxsz encode t b blob t' b' :
  BInv maxsz (t, b) -> append_item maxsz encode (t, b) blob = Ok (t', b') -> MR t t'.
Proof.
  intros HB E. unfold append_item in E. cbv zeta in E.
  destruct (_ <? _).
  - destruct (commit t b) as [[t1 b1]|] eqn:EC; [|discriminate]. cbn [fst snd] in E.
    destruct (advance_head t1) as [t2|] eqn:EA; [|discriminate]. inversion E; subst t' b'; clear E.
    destruct (commit_core _ _ _ _ EC) as [C1 _].
    apply (mr_trans t t1 t2); [eapply mr_vcore; eauto|].
    apply (mr_advance maxsz); [|exact EA]. unfold IdxInv. rewrite C1. exact HB.
  - inversion E; subst. apply mr_refl.
Qed.

Lemma mr_append_items maxsz encode blobs : forall t b t' b',
  maxsz < two32 -> BInv maxsz (t, b) ->
  Forall (fun blob => N.of_nat (length (encode blob)) <= maxsz) blobs ->
  t_head t + N.of_nat (length blobs) < 65536 -> b_cur b + N.of_nat (length blobs) < two32 ->
  append_items maxsz encode (t, b) blobs = Ok (t', b') -> MR t t'.
Proof.
  induction blobs as [|x r IH]; intros t b t' b' Hmax HB HF Hh Hc E.
  - inversion E; subst. apply mr_refl.
  - cbn [append_items] in E. destruct (append_item maxsz encode (t, b) x) as [[t1 b1]|] eqn:E1; [|discriminate].
    inversion HF as [|? ? Hx Hr]; subst. cbn [length] in Hh, Hc.
    destruct (binv_append_item maxsz encode _ _ _ _ _ Hmax HB Hx ltac:(lia) ltac:(lia) E1) as (B1 & Cc & Hd).
    apply (mr_trans t t1 t'); [eapply mr_append_item; eauto|]. eapply IH; eauto; lia.
Qed.

Lemma xinv_op_append maxsz encode t blobs t' :
  maxsz < two32 -> IdxInv maxsz t -> XInv t ->
  Forall (fun blob => N.of_nat (length (encode blob)) <= maxsz) blobs ->
  t_head t + N.of_nat (length blobs) < 65536 -> t_items t + N.of_nat (length blobs) < two32 ->
  op_append maxsz encode t blobs = Ok t' ->
  XInv t' /\ t_hidden t' = t_hidden t /\ t_items t' = t_items t + N.of_nat (length blobs).
Proof.
  intros Hmax HI HX HF Hh Hc E. unfold op_append in E.
  destruct (append_items maxsz encode (t, mkB [] [] (t_items t)) blobs) as [[t1 b1]|] eqn:E1; [|discriminate].
  cbn [fst snd] in E. destruct (commit t1 b1) as [[t2 b2]|] eqn:E2; [|discriminate].
  inversion E; subst; clear E.
  pose proof (mr_append_items maxsz encode blobs _ _ _ _ Hmax (binv_start maxsz _ HI) HF Hh Hc E1) as M1.
  destruct (commit_core _ _ _ _ E2) as [C2 _].
  assert (M : MR t t') by (apply (mr_trans t t1 t'); [exact M1|eapply mr_vcore; eauto]).
  split; [eapply mr_xinv; eauto|]. split; [exact (proj1 M)|].
  (* the item count: b_cur grows by one per item *)
  assert (Hcur : forall bl t0 b0 t9 b9, append_items maxsz encode (t0, b0) bl = Ok (t9, b9) -> b_cur b9 = b_cur b0 + N.of_nat (length bl)).
  { induction bl as [|x r IHb]; intros t0 b0 t9 b9 E9; [inversion E9; cbn; lia|].
    cbn [append_items] in E9. destruct (append_item maxsz encode (t0, b0) x) as [[ta ba]|] eqn:Ea; [|discriminate].
    rewrite (IHb _ _ _ _ E9). unfold append_item in Ea. cbv zeta in Ea.
    destruct (_ <? _).
    - destruct (commit t0 b0) as [[tc bc]|] eqn:Ec; [|discriminate]. cbn [fst snd] in Ea.
      destruct (advance_head tc); [|discriminate]. inversion Ea; subst.
      destruct (commit_core _ _ _ _ Ec) as [_ ->]. cbn [b_cur length]. lia.
    - inversion Ea; subst. cbn [b_cur length]. lia. }
  unfold core, vcore in C2. injection C2 as P1 P2 P3 P4 P5 P6 P7 P8 P9. rewrite P1, (Hcur _ _ _ _ _ E1). reflexivity.
Qed.

(* ---------- the freezer invariant ---------- *)
Section FX.
Variable maxsz : N.

Definition TX (I H : N) (t : table) : Prop := DInv maxsz t /\ XInv t /\ t_items t = I /\ t_hidden t = H.
Definition FXInv (f : freezer) : Prop := exists I H, Forall (TX I H) (fz_tables f).

Lemma append_each_tx sizes n I H : forall k ts ts',
  maxsz < two32 -> (forall s, In s sizes -> N.of_nat s <= maxsz) -> sizes <> [] ->
  Forall (fun t => TX I H t /\ t_head t + N.of_nat n < 65536 /\ t_items t + N.of_nat n < two32) ts ->
  append_each maxsz k ts I n sizes = Ok ts' -> Forall (TX (I + N.of_nat n) H) ts'.
Proof.
  intros k ts. revert k. induction ts as [|t r IH]; intros k ts' Hmax Hs Hne HF E; cbn [append_each] in E.
  - inversion E. constructor.
  - destruct (negb (t_items t =? I)); [discriminate|].
    destruct (op_append maxsz raw t _) as [t'|] eqn:E1; [|discriminate].
    destruct (append_each maxsz (S k) r I n sizes) as [r'|] eqn:E2; [|discriminate].
    inversion E; subst ts'; clear E. inversion HF as [|? ? [(HD & HX & HI & HH) [G1 G2]] HR]; subst.
    constructor; [|eapply IH; eauto].
    assert (HFs : Forall (fun blob => N.of_nat (length (raw blob)) <= maxsz) (blobs_from k (t_items t) n (nth (k mod length sizes) sizes 0%nat))).
    { apply blobs_from_sizes. right. apply Hs. apply nth_In. apply Nat.mod_upper_bound. destruct sizes; [congruence|cbn; lia]. }
    destruct (xinv_op_append maxsz raw t _ t' Hmax (proj1 HD) HX HFs) as (X' & H' & I'); try (rewrite blobs_from_length; assumption); [exact E1|].
    rewrite blobs_from_length in I'.
    split; [|split; [exact X'|split; [exact I'|exact H']]].
    eapply (dinv_op_append maxsz raw t); try exact E1; try assumption; rewrite blobs_from_length; assumption.
Qed.

Lemma fx_step f o f' :
  maxsz < two32 -> FXInv f -> fz_guard maxsz f o -> fz_step maxsz f o = Ok f' -> FXInv f'.
Proof.
  intros Hmax (I & H & HT) HG E. pose proof HT as HT0. rewrite Forall_forall in HT0.
  destruct o as [n sizes|n|n|]; cbn [fz_step fz_guard] in *.
  - destruct HG as (G1 & G2 & G3). unfold fz_append in E.
    destruct (append_each maxsz 0 (fz_tables f) (fz_head f) n sizes) as [ts|] eqn:E1; [|discriminate].
    inversion E; subst f'; clear E. 
    destruct (fz_tables f) as [|t0 r0] eqn:Et.
    + cbn [append_each] in E1. inversion E1. exists I, H. constructor.
    + (* the first table's item count is the freezer head, or the operation fails *)
      assert (Hhd : fz_head f = I).
      { cbn [append_each] in E1. destruct (N.eqb_spec (t_items t0) (fz_head f)) as [Q|Q]; [|discriminate].
        destruct (HT0 t0 (or_introl eq_refl)) as (_ & _ & Hi & _). congruence. }
      rewrite Hhd in E1. exists (I + N.of_nat n), H. cbn [fz_tables].
      apply (append_each_tx sizes n I H 0%nat (t0 :: r0) ts Hmax G1 G2); [|exact E1].
      rewrite Forall_forall. intros t Ht. split; [apply HT0; exact Ht|apply G3; exact Ht].
  - destruct HG as (G1 & G2). unfold fz_trunc_head in E. destruct (fz_head f <=? n); [inversion E; subst; exists I, H; exact HT|].
    destruct (map_res _ (fz_tables f)) as [ts|] eqn:E1; [|discriminate]. inversion E; subst f'; cbn [fz_tables].
    exists (if I <=? n then I else n), (if I <=? n then H else if n <? H then n else H).
    eapply map_res_forall; [exact E1|exact HT|].
    intros x y Hin (HD & HX & HI & HH) Ey.
    split; [eapply dinv_truncate_head; eauto|]. split; [eapply (xinv_truncate_head maxsz); [exact (proj1 HD)|exact HX|exact Ey]|].
    destruct (truncate_head_spec _ _ _ Ey) as [[L ->]|[(L1 & L2 & L3 & L4 & L5)|(L1 & L2 & L4 & L5)]]; rewrite ?HI, ?HH in *.
    + destruct (N.leb_spec I n); [split; first [assumption|reflexivity|congruence|lia]|lia].
    + destruct (N.leb_spec I n); [lia|]. destruct (N.ltb_spec n H); [split; first [assumption|reflexivity|congruence|lia]|lia].
    + destruct (N.leb_spec I n); [lia|]. destruct (N.ltb_spec n H); [lia|]. split; first [assumption|reflexivity|congruence|lia].
  - destruct HG as (G1 & G2). unfold fz_trunc_tail in E. destruct (n <=? fz_tail f); [inversion E; subst; exists I, H; exact HT|].
    destruct (map_res do_sync (fz_tables f)) as [ts1|] eqn:E1; [|discriminate].
    destruct (map_res _ ts1) as [ts2|] eqn:E2; [|discriminate]. inversion E; subst f'; cbn [fz_tables].
    assert (H1 : Forall (fun t => TX I H t /\ dh t = I /\ t_head t + 1 < 65536) ts1).
    { eapply map_res_forall; [exact E1|exact HT|]. intros x y Hin (HD & HX & HI & HH) Ey.
      destruct (xinv_do_sync maxsz x y (proj1 HD) HX Ey) as (X' & Dh & Ii & Hh).
      split; [split; [eapply dinv_do_sync; eauto|split; [exact X'|split; congruence]]|]. split; [congruence|].
      pose proof (do_sync_core _ _ Ey) as C. unfold core in C. injection C as P1 P2 P3 P4 P5 P6 P7 P8 P9. rewrite P4. apply G2. exact Hin. }
    exists (if n <=? H then I else if I <? n then n else I), (if n <=? H then H else n).
    eapply map_res_forall; [exact E2|exact H1|].
    intros x y Hin ((HD & HX & HI & HH) & Dh & Hhd) Ey.
    split; [eapply dinv_truncate_tail; eauto|].
    split; [eapply (proj1 (xinv_truncate_tail maxsz x n y (proj1 HD) HX G1 ltac:(rewrite Dh, HI; lia) Ey))|].
    destruct (truncate_tail_spec _ _ _ Ey) as [[L ->]|[(L1 & L2 & L4 & L5)|(L1 & L2 & L4 & L5)]]; rewrite ?HI, ?HH in *.
    + destruct (N.leb_spec n H); [split; first [assumption|reflexivity|congruence|lia]|lia].
    + destruct (N.leb_spec n H); [lia|]. destruct (N.ltb_spec I n); [split; first [assumption|reflexivity|congruence|lia]|lia].
    + destruct (N.leb_spec n H); [lia|]. destruct (N.ltb_spec I n); [lia|]. split; first [assumption|reflexivity|congruence|lia].
  - unfold fz_sync in E. destruct (map_res do_sync (fz_tables f)) as [ts|] eqn:E1; [|discriminate].
    inversion E; subst f'; cbn [fz_tables]. exists I, H.
    eapply map_res_forall; [exact E1|exact HT|]. intros x y Hin (HD & HX & HI & HH) Ey.
    destruct (xinv_do_sync maxsz x y (proj1 HD) HX Ey) as (X' & Dh & Ii & Hh).
    split; [eapply dinv_do_sync; eauto|split; [exact X'|split; congruence]].
Qed.

Lemma fx_hrun h : forall f, maxsz < two32 -> FXInv f -> fz_guarded maxsz f h -> FXInv (fz_hrun maxsz f h).
Proof.
  induction h as [|o r IH]; intros f Hmax HF HG; [exact HF|].
  destruct HG as [G1 G2]. cbn [fz_hrun]. apply IH; [exact Hmax| |exact G2].
  unfold fz_next. destruct (fz_step maxsz f o) as [f'|] eqn:E; [eapply fx_step; eauto|exact HF].
Qed.

(* THE FREEZER THEOREM, cross-table condition derived from the history *)
Theorem freezer_crash_safe_full f0 h (cs : list crashed) :
  maxsz < two32 -> FXInv f0 -> fz_guarded maxsz f0 h ->
  map cr_t cs = fz_tables (fz_hrun maxsz f0 h) ->
  (forall c, In c cs -> cut_ok (cr_t c) (cr_ci c) (cr_cd c) /\ t_head (cr_t c) + 2 < 65536) ->
  exists f', fz_open true (map cr_disk cs) = Ok f' /\
    length (fz_tables f') = length cs /\
    Forall (fun t' => t_items t' = fz_head f' /\ t_hidden t' = fz_tail f') (fz_tables f') /\
    fz_tail f' <= fz_head f' /\
    (forall c, In c cs -> dur_head (cr_t c) <> 0 -> fz_head f' <= dur_head (cr_t c)) /\
    (forall s hh, cs <> [] -> hh < s -> (forall c, In c cs -> s <= dur_head (cr_t c) /\ rec_tail c <= hh) ->
                 s <= fz_head f' /\ fz_tail f' <= hh).
Proof.
  intros Hmax HF0 HG Hts Hcut.
  destruct (fx_hrun h f0 Hmax HF0 HG) as (I & H & HT). rewrite <- Hts in HT. rewrite Forall_forall in HT.
  assert (HTc : forall c, In c cs -> TX I H (cr_t c)) by (intros c Hc; apply HT; apply in_map; exact Hc).
  apply (fz_open_crash_ok maxsz cs).
  - intros c Hc. destruct (Hcut c Hc) as [C1 C2]. destruct (HTc c Hc) as (HD & _). split; [exact HD|split; assumption].
  - intros c Hc _. left. intros c' Hc' _.
    destruct (HTc c Hc) as (HD & (X1 & X2 & X3) & _ & HH). destruct (HTc c' Hc') as (HD' & (_ & _ & X3') & _ & HH').
    rewrite (dur_head_dh maxsz _ (proj1 HD')). rewrite HH' in X3'.
    pose proof (proj1 HD) as HI. unfold IdxInv, core, IdxInvC in HI. inv_destruct HI.
    unfold rec_tail. cbv zeta. destruct (cr_cm c); lia.
Qed.

End FX.

(* the empty freezer with two or three tables satisfies the freezer invariant *)
Lemma empty_freezer_fx maxsz :
  (exists f0, fz_open true (repeat (f_empty, [], None) 2) = Ok f0 /\ FXInv maxsz f0) /\
  (exists f0, fz_open true (repeat (f_empty, [], None) 3) = Ok f0 /\ FXInv maxsz f0).
Proof.
  assert (D0 : forall t0, init true = Ok t0 -> TX maxsz 0 0 t0).
  { intros t0 H. split; [eapply dinv_init; eauto|]. vm_compute in H. inversion H; subst.
    unfold XInv, dh. cbn. repeat split; lia. }
  split; eexists; (split; [vm_compute; reflexivity|]); exists 0, 0; cbn [fz_tables];
    repeat (apply Forall_cons; [apply D0; vm_compute; reflexivity|]); apply Forall_nil.
Qed.

(* ---------- synced items survive: one table, histories with crashes inside ---------- *)
Section Synced.
Variable maxsz : N.
Variable encode : list N -> list N.

(* tail truncations are preceded by a flush (as Freezer.TruncateTail does), or go beyond the head *)
Definition xguard (t : table) (h : hop) : Prop :=
  match h with
  | HOp (OTruncTail n) => n <= dh t \/ t_items t < n
  | _ => True
  end.

Lemma op_append_dh t blobs t' :
  maxsz < two32 -> IdxInv maxsz t ->
  Forall (fun blob => N.of_nat (length (encode blob)) <= maxsz) blobs ->
  t_head t + N.of_nat (length blobs) < 65536 -> t_items t + N.of_nat (length blobs) < two32 ->
  op_append maxsz encode t blobs = Ok t' -> dh t <= dh t'.
Proof.
  intros Hmax HI HF Hh Hc E. unfold op_append in E.
  destruct (append_items maxsz encode (t, mkB [] [] (t_items t)) blobs) as [[t1 b1]|] eqn:E1; [|discriminate].
  cbn [fst snd] in E. destruct (commit t1 b1) as [[t2 b2]|] eqn:E2; [|discriminate].
  inversion E; subst; clear E.
  pose proof (mr_append_items maxsz encode blobs _ _ _ _ Hmax (binv_start maxsz _ HI) HF Hh Hc E1) as M1.
  destruct (commit_core _ _ _ _ E2) as [C2 _].
  assert (M : MR t t') by (apply (mr_trans t t1 t'); [exact M1|eapply mr_vcore; eauto]).
  destruct M as (_ & A2 & _ & _ & A5). unfold dh. rewrite A2.
  assert (mflush (t_mcur t) / 6 <= mflush (t_mcur t') / 6) by (apply N.div_le_mono; lia). lia.
Qed.

(* one step: the tail invariant is kept and the covered head does not drop below min(old, new items) *)
Lemma xinv_hnext t h :
  maxsz < two32 -> DInv maxsz t -> XInv t -> hguard maxsz encode t h -> xguard t h ->
  XInv (hnext maxsz encode t h) /\ N.min (dh t) (t_items (hnext maxsz encode t h)) <= dh (hnext maxsz encode t h) /\
  (h = HOp OSync -> forall t', hstep maxsz encode t h = Ok t' -> dh t' = t_items t').
Proof.
  intros Hmax HD HX HG HXg. pose proof (proj1 HD) as HI. unfold hnext.
  destruct h as [o|ci cd cm]; cbn [hstep hguard xguard] in *.
  - destruct (step maxsz encode t o) as [t'|] eqn:E; [|split; [exact HX|split; [lia|discriminate]]].
    destruct o as [blobs|n|n| | |]; cbn [step op_guard] in *.
    + destruct HG as (G1 & G2 & G3).
      destruct (xinv_op_append maxsz encode t blobs t' Hmax HI HX G1 G2 G3 E) as (X' & _ & _).
      pose proof (op_append_dh t blobs t' Hmax HI G1 G2 G3 E). split; [exact X'|split; [lia|discriminate]].
    + split; [eapply xinv_truncate_head; eauto|split; [eapply dh_truncate_head; eauto|discriminate]].
    + destruct HG as (G1 & G2). destruct (xinv_truncate_tail maxsz t n t' HI HX G1 HXg E) as [X' Dm].
      split; [exact X'|split; [exact Dm|discriminate]].
    + destruct (xinv_do_sync maxsz t t' HI HX E) as (X' & Dh & Ii & Hh).
      split; [exact X'|split; [lia|]]. intros _ t'' Et. inversion Et; subst. exact Dh.
    + inversion E; subst. split; [exact HX|split; [unfold dh; cbn [sync_index w_index t_offset t_mcur t_items]; lia|discriminate]].
    + unfold sync_head in E. pose proof (core_data_upd _ _ _ _ E) as C.
      apply core_proj in C. destruct C as (_ & C2 & C3 & _ & _ & _ & _ & C8 & C9).
      cbn [sync_index w_index t_offset t_hidden t_mcur t_msyn] in C2, C3, C8, C9.
      split; [unfold XInv, dh in *; rewrite C2, C3, C8, C9; exact HX|]. split; [unfold dh; rewrite C2, C8; lia|discriminate].
  - destruct (open_crash_ok maxsz t ci cd cm HD HG) as (t' & E & HD' & O1 & O2 & O3 & O4 & O5 & O6 & _ & M1 & M2 & M3 & _).
    rewrite E. assert (Hdh : dh t' = dh t) by (unfold dh; rewrite O1, M3; reflexivity).
    split; [|split; [lia|discriminate]].
    unfold XInv. rewrite M1, M2, Hdh. rewrite <- (dur_head_dh maxsz t HI). unfold dur_head. rewrite <- O3.
    destruct (inv_counters _ _ (proj1 HD')) as [_ Hle]. repeat split; lia.
Qed.

(* the ghost: the item count at the last completed Sync, lowered by every later head truncation *)
Definition sstep (tS : table * N) (h : hop) : table * N :=
  let t' := hnext maxsz encode (fst tS) h in
  (t', match h with
       | HOp OSync => match hstep maxsz encode (fst tS) h with
                      | Ok _ => t_items t'
                      | Err _ => N.min (snd tS) (t_items t')
                      end
       | _ => N.min (snd tS) (t_items t')
       end).
Definition srun (t : table) (S : N) (hs : list hop) : table * N := fold_left sstep hs (t, S).
Fixpoint xguarded (t : table) (hs : list hop) : Prop :=
  match hs with [] => True | h :: r => xguard t h /\ xguarded (hnext maxsz encode t h) r end.

Lemma srun_inv hs : forall t S,
  maxsz < two32 -> DInv maxsz t -> XInv t -> S <= dh t -> hguarded maxsz encode t hs -> xguarded t hs ->
  let '(tf, Sf) := srun t S hs in DInv maxsz tf /\ XInv tf /\ Sf <= dh tf /\ tf = hrun maxsz encode t hs.
Proof.
  unfold srun. induction hs as [|h r IH]; intros t S Hmax HD HX HS HG HXg; cbn [fold_left hrun].
  - cbv iota beta. split; [exact HD|split; [exact HX|split; [exact HS|reflexivity]]].
  - destruct HG as [G1 G2]. destruct HXg as [X1 X2].
    destruct (xinv_hnext t h Hmax HD HX G1 X1) as (X' & Dm & Hs).
    unfold sstep at 2. cbn [fst snd].
    apply IH; try assumption.
    + apply dinv_hnext; assumption.
    + destruct h as [o|ci cd cm]; [destruct o|]; try lia.
      unfold hnext in *. destruct (hstep maxsz encode t (HOp OSync)) as [t'|] eqn:E; [|lia].
      rewrite (Hs eq_refl t' eq_refl). lia.
Qed.

(* SYNCED_SURVIVE for one table: after every guarded history (crashes inside included) and every final
   crash state, every item below the ghost synced count [S] and at or above the tail at the crash is in
   the range of the reopened table *)
Theorem table_synced_survive t0 hs ci cd (cm : bool) :
  maxsz < two32 -> init true = Ok t0 -> hguarded maxsz encode t0 hs -> xguarded t0 hs ->
  let '(t, sy) := srun t0 0 hs in
  cut_ok t ci cd ->
  exists t', crash_reopen true t ci cd cm = Ok t' /\ sy <= t_items t' /\ t_hidden t' <= t_hidden t.
Proof.
  intros Hmax Hini HG HXg.
  assert (HD0 : DInv maxsz t0) by (eapply dinv_init; eauto).
  assert (HX0 : XInv t0).
  { vm_compute in Hini. inversion Hini; subst. unfold XInv, dh. cbn. repeat split; lia. }
  pose proof (srun_inv hs t0 0 Hmax HD0 HX0 ltac:(lia) HG HXg) as P.
  destruct (srun t0 0 hs) as [t sy]. destruct P as (HD & (X1 & X2 & X3) & HS & _).
  intros Hcut. destruct (open_crash_ok maxsz t ci cd cm HD Hcut) as (t' & E & HD' & O1 & O2 & O3 & O4 & _).
  exists t'. split; [exact E|].
  pose proof (dur_head_dh maxsz t (proj1 HD)) as Hdh. unfold dur_head in Hdh.
  pose proof (proj1 HD) as HI. unfold IdxInv, core, IdxInvC in HI. inv_destruct HI.
  split; [rewrite O3, Hdh; exact HS|]. rewrite O4. destruct cm; lia.
Qed.

End Synced.
