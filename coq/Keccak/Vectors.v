(* Keccak/Vectors.v — TESTS (vm_compute on samples, not theorems about all inputs):
   the spec [keccak256] of Keccak/Sponge.v reproduces published Keccak-256 digests
   ("" and "abc" and the "quick brown fox" from the Keccak team's / Ethereum's well-known
   vectors; the 135/136/137/272-byte and 200-byte inputs were computed with an independent
   implementation, OpenSSL 3 `openssl dgst -KECCAK-256`), and the streaming model agrees
   on a few scripts. *)
From Coq Require Import List NArith String Ascii.
From GV Require Import Keccak.Permutation Keccak.Sponge.
Import ListNotations.
Local Open Scope N_scope.
Local Open Scope list_scope.

Definition hexv (c : ascii) : N :=
  let n := N_of_ascii c in
  if n <? 58 then n - 48 else if n <? 71 then n - 55 else n - 87.
Fixpoint unhex (s : string) : list N :=
  match s with
  | String a (String b r) => (16 * hexv a + hexv b) :: unhex r
  | _ => []
  end.
Fixpoint bytes_of_string (s : string) : list N :=
  match s with EmptyString => [] | String a r => N_of_ascii a :: bytes_of_string r end.
Definition a_s (n : nat) : list N := repeat 97 n.

Example test_keccak256_empty :
  keccak256 [] = unhex "c5d2460186f7233c927e7db2dcc703c0e500b653ca82273b7bfad8045d85a470".
Proof. vm_compute. reflexivity. Qed.

Example test_keccak256_abc :
  keccak256 (bytes_of_string "abc") = unhex "4e03657aea45a94fc7d47ba826c8d667c0d1e6e33a64a036ec44f58fa12d6c45".
Proof. vm_compute. reflexivity. Qed.

Example test_keccak256_fox :
  keccak256 (bytes_of_string "The quick brown fox jumps over the lazy dog")
  = unhex "4d741b6f1eb29cb2a9b9911c82f56fa8d73b04959d3d9d222895df6c0b28aa15".
Proof. vm_compute. reflexivity. Qed.

Example test_keccak256_135 :
  keccak256 (a_s 135) = unhex "34367dc248bbd832f4e3e69dfaac2f92638bd0bbd18f2912ba4ef454919cf446".
Proof. vm_compute. reflexivity. Qed.

Example test_keccak256_136 :
  keccak256 (a_s 136) = unhex "a6c4d403279fe3e0af03729caada8374b5ca54d8065329a3ebcaeb4b60aa386e".
Proof. vm_compute. reflexivity. Qed.

Example test_keccak256_137 :
  keccak256 (a_s 137) = unhex "d869f639c7046b4929fc92a4d988a8b22c55fbadb802c0c66ebcd484f1915f39".
Proof. vm_compute. reflexivity. Qed.

Example test_keccak256_272 :
  keccak256 (a_s 272) = unhex "cf7fcd4f705ee749930d19ca84561a9bf62516bd90a471545fa2f49fdc7e63c8".
Proof. vm_compute. reflexivity. Qed.

(* all byte values 0..199 (exercises every bit position of the byte<->lane conversion) *)
Example test_keccak256_bytes_0_199 :
  keccak256 (map N.of_nat (seq 0 200)) = unhex "bfb0aa97863e797943cf7c33bb7e880bb4543f3d2703c0923c6901c2af57b890".
Proof. vm_compute. reflexivity. Qed.

(* the streaming model on a script: split writes, Sum in the middle, Read across calls, Reset *)
Example test_script :
  k_run (init) [OWrite (a_s 100); OSum []; OWrite (a_s 37); OSum [7]; ORead 10; ORead 22; OWrite [1];
                OSum []; OReset; OWrite (bytes_of_string "abc"); ORead 32]
  = [VUnit; VBytes (keccak256 (a_s 100)); VUnit; VBytes (7 :: keccak256 (a_s 137));
     VBytes (firstn 10 (keccak256 (a_s 137))); VBytes (skipn 10 (keccak256 (a_s 137)));
     VPanic 1; VPanic 2; VUnit; VUnit; VBytes (keccak256 (bytes_of_string "abc"))].
Proof. vm_compute. reflexivity. Qed.

(* the output stream beyond one block: reading 300 bytes in one call or in pieces *)
Example test_read_long :
  match k_read (init) 300, k_run init [ORead 100; ORead 36; ORead 1; ORead 163] with
  | Ok (_, o), [VBytes o1; VBytes o2; VBytes o3; VBytes o4] =>
      o = o1 ++ o2 ++ o3 ++ o4 /\ o = sponge_stream keccak_f [] 300 /\ List.length o = 300%nat
  | _, _ => False
  end.
Proof. vm_compute. repeat split. Qed.
