(* Keccak/Permutation.v — Keccak-f[1600] (24 rounds of theta, rho, pi, chi, iota), executable
   and fast: each 64-bit lane is held as two 32-bit halves in Coq's primitive 63-bit
   integers (Uint63: a kernel primitive, not an axiom).  This is the permutation that
   /repo/crypto/keccak/keccakf.go (keccakF1600, pure Go) and keccakf_amd64.s compute; the
   Go code is an unrolled in-place variant, here the textbook round is written straight-line
   (text of [round] produced by Keccak/gen_permutation.py from the FIPS-202 rho/pi formulas,
   round constants copied from the [rc] table of keccakf.go).
   Cross-checked against the readable FIPS-202 transcription Keccak/PermutationN.v and
   against published digests in Keccak/Vectors.v (tests).
   Interface used by everybody else:  keccak_f : list N -> list N  on the 200-byte state
   (little-endian lanes, lane i = bytes 8i..8i+7, as sha3.go's permute() views d.a). *)
From Coq Require Import List NArith ZArith Uint63.
Import ListNotations.
Local Open Scope uint63_scope.

Record lane := L { lo : int; hi : int }.   (* lo, hi < 2^32 *)

Definition m32 : int := 0xffffffff.

Definition lx (a b : lane) : lane := L (lo a lxor lo b) (hi a lxor hi b).
Definition lx5 (a b c d e : lane) : lane :=
  L (lo a lxor lo b lxor lo c lxor lo d lxor lo e) (hi a lxor hi b lxor hi c lxor hi d lxor hi e).
(* a xor (not b and c) *)
Definition chi (a b c : lane) : lane :=
  L (lo a lxor ((lo b lxor m32) land lo c)) (hi a lxor ((hi b lxor m32) land hi c)).
(* rotate a 64-bit lane left by 0 <= n < 64 *)
Definition rotl (n : int) (a : lane) : lane :=
  if n =? 0 then a
  else if n <? 32 then
    L (((lo a << n) lor (hi a >> (32 - n))) land m32) (((hi a << n) lor (lo a >> (32 - n))) land m32)
  else if n =? 32 then L (hi a) (lo a)
  else let k := n - 32 in
    L (((hi a << k) lor (lo a >> (32 - k))) land m32) (((lo a << k) lor (hi a >> (32 - k))) land m32).

Inductive st25 :=
  St (a0 a1 a2 a3 a4 a5 a6 a7 a8 a9 a10 a11 a12 a13 a14 a15 a16 a17 a18 a19 a20 a21 a22 a23 a24 : lane).

(* one round; lane index i = x + 5y *)
Definition round (rc : lane) (s : st25) : st25 :=
  let '(St a0 a1 a2 a3 a4 a5 a6 a7 a8 a9 a10 a11 a12 a13 a14 a15 a16 a17 a18 a19 a20 a21 a22 a23 a24) := s in
  (* theta: column parities *)
  let c0 := lx5 a0 a5 a10 a15 a20 in
  let c1 := lx5 a1 a6 a11 a16 a21 in
  let c2 := lx5 a2 a7 a12 a17 a22 in
  let c3 := lx5 a3 a8 a13 a18 a23 in
  let c4 := lx5 a4 a9 a14 a19 a24 in
  let d0 := lx c4 (rotl 1 c1) in
  let d1 := lx c0 (rotl 1 c2) in
  let d2 := lx c1 (rotl 1 c3) in
  let d3 := lx c2 (rotl 1 c4) in
  let d4 := lx c3 (rotl 1 c0) in
  (* theta, rho, pi: b[y,2x+3y] = rotl r[x,y] (a[x,y] xor d[x]) *)
  let b0 := rotl 0 (lx a0 d0) in
  let b1 := rotl 44 (lx a6 d1) in
  let b2 := rotl 43 (lx a12 d2) in
  let b3 := rotl 21 (lx a18 d3) in
  let b4 := rotl 14 (lx a24 d4) in
  let b5 := rotl 28 (lx a3 d3) in
  let b6 := rotl 20 (lx a9 d4) in
  let b7 := rotl 3 (lx a10 d0) in
  let b8 := rotl 45 (lx a16 d1) in
  let b9 := rotl 61 (lx a22 d2) in
  let b10 := rotl 1 (lx a1 d1) in
  let b11 := rotl 6 (lx a7 d2) in
  let b12 := rotl 25 (lx a13 d3) in
  let b13 := rotl 8 (lx a19 d4) in
  let b14 := rotl 18 (lx a20 d0) in
  let b15 := rotl 27 (lx a4 d4) in
  let b16 := rotl 36 (lx a5 d0) in
  let b17 := rotl 10 (lx a11 d1) in
  let b18 := rotl 15 (lx a17 d2) in
  let b19 := rotl 56 (lx a23 d3) in
  let b20 := rotl 62 (lx a2 d2) in
  let b21 := rotl 55 (lx a8 d3) in
  let b22 := rotl 39 (lx a14 d4) in
  let b23 := rotl 41 (lx a15 d0) in
  let b24 := rotl 2 (lx a21 d1) in
  (* chi (and iota on lane 0) *)
  St (lx (chi b0 b1 b2) rc) (chi b1 b2 b3) (chi b2 b3 b4) (chi b3 b4 b0) (chi b4 b0 b1)
     (chi b5 b6 b7) (chi b6 b7 b8) (chi b7 b8 b9) (chi b8 b9 b5) (chi b9 b5 b6)
     (chi b10 b11 b12) (chi b11 b12 b13) (chi b12 b13 b14) (chi b13 b14 b10) (chi b14 b10 b11)
     (chi b15 b16 b17) (chi b16 b17 b18) (chi b17 b18 b19) (chi b18 b19 b15) (chi b19 b15 b16)
     (chi b20 b21 b22) (chi b21 b22 b23) (chi b22 b23 b24) (chi b23 b24 b20) (chi b24 b20 b21).

Definition round_constants : list lane :=
  [ L 0x00000001 0x00000000;
    L 0x00008082 0x00000000;
    L 0x0000808a 0x80000000;
    L 0x80008000 0x80000000;
    L 0x0000808b 0x00000000;
    L 0x80000001 0x00000000;
    L 0x80008081 0x80000000;
    L 0x00008009 0x80000000;
    L 0x0000008a 0x00000000;
    L 0x00000088 0x00000000;
    L 0x80008009 0x00000000;
    L 0x8000000a 0x00000000;
    L 0x8000808b 0x00000000;
    L 0x0000008b 0x80000000;
    L 0x00008089 0x80000000;
    L 0x00008003 0x80000000;
    L 0x00008002 0x80000000;
    L 0x00000080 0x80000000;
    L 0x0000800a 0x00000000;
    L 0x8000000a 0x80000000;
    L 0x80008081 0x80000000;
    L 0x00008080 0x80000000;
    L 0x80000001 0x00000000;
    L 0x80008008 0x80000000 ].

Definition keccak_f_lanes (s : st25) : st25 :=
  fold_left (fun s rc => round rc s) round_constants s.

(* ---- bytes <-> lanes (little endian) ---- *)
Definition byte_int (b : N) : int := of_Z (Z.of_N b) land 255.

Fixpoint bits_N (k : nat) (i : int) : N :=
  match k with
  | O => 0%N
  | S k => let r := bits_N k (i >> 1) in
           if is_zero (i land 1) then N.double r else N.succ_double r
  end.
Definition int_byte (i : int) : N := bits_N 8 i.

(* next byte of the list, 0 when the list is exhausted (the state is viewed as
   zero-extended / truncated to 200 bytes; every caller passes exactly 200) *)
Definition next (l : list N) : int * list N :=
  match l with [] => (0, []) | b :: r => (byte_int b, r) end.

Definition half_of (l : list N) : int * list N :=
  let '(b0, l) := next l in let '(b1, l) := next l in
  let '(b2, l) := next l in let '(b3, l) := next l in
  (b0 lor (b1 << 8) lor (b2 << 16) lor (b3 << 24), l).

Definition lane_of (l : list N) : lane * list N :=
  let '(x, l) := half_of l in let '(y, l) := half_of l in (L x y, l).

Definition st_of_bytes (l : list N) : st25 :=
  let '(a0, l) := lane_of l in let '(a1, l) := lane_of l in let '(a2, l) := lane_of l in
  let '(a3, l) := lane_of l in let '(a4, l) := lane_of l in let '(a5, l) := lane_of l in
  let '(a6, l) := lane_of l in let '(a7, l) := lane_of l in let '(a8, l) := lane_of l in
  let '(a9, l) := lane_of l in let '(a10, l) := lane_of l in let '(a11, l) := lane_of l in
  let '(a12, l) := lane_of l in let '(a13, l) := lane_of l in let '(a14, l) := lane_of l in
  let '(a15, l) := lane_of l in let '(a16, l) := lane_of l in let '(a17, l) := lane_of l in
  let '(a18, l) := lane_of l in let '(a19, l) := lane_of l in let '(a20, l) := lane_of l in
  let '(a21, l) := lane_of l in let '(a22, l) := lane_of l in let '(a23, l) := lane_of l in
  let '(a24, _) := lane_of l in
  St a0 a1 a2 a3 a4 a5 a6 a7 a8 a9 a10 a11 a12 a13 a14 a15 a16 a17 a18 a19 a20 a21 a22 a23 a24.

Definition half_bytes (x : int) : list N :=
  [int_byte x; int_byte (x >> 8); int_byte (x >> 16); int_byte (x >> 24)].
Definition lane_bytes (a : lane) : list N := half_bytes (lo a) ++ half_bytes (hi a).

Definition lanes_of_st (s : st25) : list lane :=
  let '(St a0 a1 a2 a3 a4 a5 a6 a7 a8 a9 a10 a11 a12 a13 a14 a15 a16 a17 a18 a19 a20 a21 a22 a23 a24) := s in
  [a0; a1; a2; a3; a4; a5; a6; a7; a8; a9; a10; a11; a12; a13; a14; a15; a16; a17; a18; a19; a20; a21; a22; a23; a24].

Definition bytes_of_st (s : st25) : list N := flat_map lane_bytes (lanes_of_st s).

(* Keccak-f[1600] on the 200-byte state *)
Definition keccak_f (a : list N) : list N := bytes_of_st (keccak_f_lanes (st_of_bytes a)).
