(* Keccak/Sponge.v — legacy Keccak-256 (rate 136 bytes, padding 0x01 .. 0x80, 32-byte digest).

   (a) SPEC  [keccak256 : list N -> list N]  (bytes as N): the sponge construction as in
       the Keccak reference / FIPS-202 section 4 with the pre-standard domain byte 0x01:
         P = M || pad10*1,  split P into rate-sized blocks,  S = 0^1600,
         S <- f (S xor (P_i || 0^c)) for every block,  Z = first 32 bytes of S.
       Validated against published digests in Keccak/Vectors.v.  Everybody else imports this
       file for [keccak256] (name is stable):   From GV Require Import Keccak.Sponge.

   (b) IMPLEMENTATION MODEL of the streaming state machine, transcribed from
       /repo/crypto/keccak/sha3.go (type state; Write, Read, Sum, Reset, permute,
       padAndPermute, clone) as instantiated by hashes.go NewLegacyKeccak256
       (rate = rateK512 = 136, outputLen = 32, dsbyte = dsbyteKeccak = 0x01).

   Both are parametric in the permutation [f] on the 200-byte state (Section variable);
   the instances with Keccak-f[1600] of Keccak/Permutation.v are at the end.
   No proofs in this file (see Keccak/SpongeProofs.v). *)
From Coq Require Import List NArith Arith.
From GV Require Import Keccak.Permutation.
Import ListNotations.
Local Open Scope N_scope.

Definition rate : nat := 136.          (* hashes.go: rateK512 = (1600 - 512) / 8 *)
Definition state_len : nat := 200.     (* sha3.go: a [1600 / 8]byte *)
Definition output_len : nat := 32.     (* hashes.go: outputLen: 32 *)
Definition dsbyte : N := 1.            (* hashes.go: dsbyteKeccak = 0b00000001 *)

(* dst[i] ^= p[i] for i < min(len dst, len p); the rest of dst is unchanged.
   This is crypto/subtle.XORBytes(dst, dst, p) (which returns min(len dst, len p)). *)
Fixpoint xor_into (dst p : list N) : list N :=
  match dst, p with
  | d :: ds, b :: ps => N.lxor d b :: xor_into ds ps
  | _, _ => dst
  end.

(* result of an operation that can panic in Go *)
Inductive res (A : Type) : Type :=
| Ok (x : A)
| Panic (c : N).
Arguments Ok {A} x.
Arguments Panic {A} c.
(* panic classes *)
Definition P_write_after_read : N := 1.   (* panic("sha3: Write after Read") *)
Definition P_sum_after_read : N := 2.     (* panic("sha3: Sum after Read") *)
Definition P_out_of_fuel : N := 3.        (* model artefact; proved unreachable (SpongeProofs.v) *)

Inductive direction := Absorbing | Squeezing.   (* spongeAbsorbing / spongeSqueezing *)

(* sha3.go: type state struct { a [200]byte; n, rate int; dsbyte byte; outputLen int; state spongeDirection }
   rate, dsbyte, outputLen never change after construction and are the constants above. *)
Record state := mkstate { st_a : list N; st_n : nat; st_dir : direction }.

(* the invariant the Go types and code maintain: a is a [200]byte array; while absorbing
   the buffer is never left full (n < rate), while squeezing n <= rate (the permutation
   is applied lazily by the next Read) *)
Definition wf (s : state) : Prop :=
  length (st_a s) = state_len /\
  match st_dir s with Absorbing => (st_n s < rate)%nat | Squeezing => (st_n s <= rate)%nat end.

(* the operations a caller can interleave on one KeccakState, and what each returns *)
Inductive op :=
| OWrite (p : list N)
| OSum (inp : list N)
| ORead (k : nat)
| OReset.

Inductive obs :=
| VUnit                   (* Write / Reset returned *)
| VBytes (b : list N)     (* Sum / Read output *)
| VPanic (c : N).         (* the call panicked (receiver not modified) *)

(* ------------------------------------------------------------------ *)
Section Sponge.
Variable f : list N -> list N.      (* the permutation on the 200-byte state *)

(* ============================ (a) SPEC ============================ *)

(* multi-rate padding with the legacy domain byte: k = number of bytes to add, 1 <= k <= rate *)
Definition pad_bytes (k : nat) : list N :=
  match k with
  | O => []
  | S O => [129]                                   (* 0x01 | 0x80 *)
  | S (S j) => 1 :: repeat 0 j ++ [128]            (* 0x01 0x00* 0x80 *)
  end.

Definition pad (msg : list N) : list N :=
  msg ++ pad_bytes (rate - length msg mod rate).

(* split into rate-sized blocks (fuel = length of the list is always enough) *)
Fixpoint blocks_fuel (fuel : nat) (l : list N) : list (list N) :=
  match fuel with
  | O => []
  | S k => match l with
           | [] => []
           | _ :: _ => firstn rate l :: blocks_fuel k (skipn rate l)
           end
  end.
Definition blocks (l : list N) : list (list N) := blocks_fuel (length l) l.

Definition zero_state : list N := repeat 0 state_len.

Definition absorb_block (st blk : list N) : list N := f (xor_into st blk).
Definition absorb (st : list N) (bs : list (list N)) : list N := fold_left absorb_block bs st.

(* the state after absorbing the padded message *)
Definition absorbed (msg : list N) : list N := absorb zero_state (blocks (pad msg)).

(* squeezing: output block j is the first [rate] bytes of f^j(S) *)
Fixpoint squeeze_blocks (j : nat) (st : list N) : list N :=
  match j with
  | O => []
  | S j' => firstn rate st ++ squeeze_blocks j' (f st)
  end.
(* the first k bytes of the output stream of the sponge *)
Definition sponge_stream (msg : list N) (k : nat) : list N :=
  firstn k (squeeze_blocks (S (k / rate)) (absorbed msg)).

(* Keccak-256 (32 <= rate: a single output block) *)
Definition sponge256 (msg : list N) : list N := firstn output_len (absorbed msg).

(* the specification of the whole streaming interface: an abstract machine that only
   remembers the message written so far and how many output bytes were read *)
Inductive astate :=
| AAbs (msg : list N)                 (* absorbing; msg = everything written since the last Reset *)
| ASq (msg : list N) (pos : nat).     (* squeezing; pos output bytes already read *)

(* output bytes pos .. pos+k-1 of the sponge on msg *)
Definition stream_from (msg : list N) (pos k : nat) : list N :=
  skipn pos (sponge_stream msg (pos + k)).

Definition spec_step (t : astate) (o : op) : astate * obs :=
  match t, o with
  | _, OReset => (AAbs [], VUnit)
  | AAbs msg, OWrite p => (AAbs (msg ++ p), VUnit)
  | AAbs msg, OSum inp => (AAbs msg, VBytes (inp ++ sponge256 msg))
  | AAbs msg, ORead k => (ASq msg k, VBytes (stream_from msg 0 k))
  | ASq msg pos, OWrite _ => (ASq msg pos, VPanic P_write_after_read)
  | ASq msg pos, OSum _ => (ASq msg pos, VPanic P_sum_after_read)
  | ASq msg pos, ORead k => (ASq msg (pos + k), VBytes (stream_from msg pos k))
  end.

Fixpoint spec_run (t : astate) (ops : list op) : list obs :=
  match ops with
  | [] => []
  | o :: r => let '(t', v) := spec_step t o in v :: spec_run t' r
  end.

(* ====================== (b) IMPLEMENTATION MODEL ====================== *)

(* hashes.go NewLegacyKeccak256: &state{rate: 136, outputLen: 32, dsbyte: 0x01}, rest zero *)
Definition init : state := mkstate (repeat 0 state_len) 0 Absorbing.

(* sha3.go Reset: zero d.a, d.state = spongeAbsorbing, d.n = 0 *)
Definition reset (s : state) : state :=
  mkstate (map (fun _ => 0) (st_a s)) 0 Absorbing.

(* sha3.go clone: ret := *d (the array is copied by value) *)
Definition clone (s : state) : state := mkstate (st_a s) (st_n s) (st_dir s).

(* sha3.go permute (little-endian path): keccakF1600 on d.a viewed as [25]uint64; d.n = 0 *)
Definition permute (s : state) : state := mkstate (f (st_a s)) 0 (st_dir s).

(* a[i] ^= b *)
Fixpoint xor_at (a : list N) (i : nat) (b : N) : list N :=
  match a with
  | [] => []
  | x :: r => match i with
              | O => N.lxor x b :: r
              | S i' => x :: xor_at r i' b
              end
  end.

(* sha3.go padAndPermute: d.a[d.n] ^= d.dsbyte; d.a[d.rate-1] ^= 0x80; d.permute(); d.state = spongeSqueezing *)
Definition pad_and_permute (s : state) : state :=
  let a1 := xor_at (st_a s) (st_n s) dsbyte in
  let a2 := xor_at a1 (rate - 1) 128 in
  mkstate (f a2) 0 Squeezing.

(* the slice a[lo:hi] and writing a slice back at offset lo *)
Definition window (a : list N) (lo hi : nat) : list N := firstn (hi - lo) (skipn lo a).
Definition set_window (a : list N) (lo : nat) (w : list N) : list N :=
  firstn lo a ++ w ++ skipn (lo + length w) a.

(* sha3.go Write, the loop:
     for len(p) > 0 {
       x := subtle.XORBytes(d.a[d.n:d.rate], d.a[d.n:d.rate], p)
       d.n += x; p = p[x:]
       if d.n == d.rate { d.permute() } }
   fuel: S (length p) iterations always suffice (proved); exhaustion is an explicit panic class. *)
Fixpoint write_loop (fuel : nat) (s : state) (p : list N) : res state :=
  match p with
  | [] => Ok s
  | _ :: _ =>
    match fuel with
    | O => Panic P_out_of_fuel
    | S fuel' =>
      let w := window (st_a s) (st_n s) rate in
      let x := Nat.min (length w) (length p) in
      let s1 := mkstate (set_window (st_a s) (st_n s) (xor_into w p)) (st_n s + x) (st_dir s) in
      let s2 := if Nat.eqb (st_n s1) rate then permute s1 else s1 in
      write_loop fuel' s2 (skipn x p)
    end
  end.

(* sha3.go Write: panics if d.state != spongeAbsorbing *)
Definition write (s : state) (p : list N) : res state :=
  match st_dir s with
  | Squeezing => Panic P_write_after_read
  | Absorbing => write_loop (S (length p)) s p
  end.

(* sha3.go Read, the loop (k = len(out)):
     for len(out) > 0 {
       if d.n == d.rate { d.permute() }
       x := copy(out, d.a[d.n:d.rate]); d.n += x; out = out[x:] } *)
Fixpoint read_loop (fuel : nat) (s : state) (k : nat) : res (state * list N) :=
  match k with
  | O => Ok (s, [])
  | S _ =>
    match fuel with
    | O => Panic P_out_of_fuel
    | S fuel' =>
      let s1 := if Nat.eqb (st_n s) rate then permute s else s in
      let w := window (st_a s1) (st_n s1) rate in
      let x := Nat.min k (length w) in
      match read_loop fuel' (mkstate (st_a s1) (st_n s1 + x) (st_dir s1)) (k - x) with
      | Ok (s', o) => Ok (s', firstn x w ++ o)
      | Panic c => Panic c
      end
    end
  end.

(* sha3.go Read: if still absorbing, padAndPermute first *)
Definition read (s : state) (k : nat) : res (state * list N) :=
  let s0 := match st_dir s with Absorbing => pad_and_permute s | Squeezing => s end in
  read_loop k s0 k.

(* sha3.go Sum(in): panics if not absorbing; dup := d.clone(); dup.Read(hash[:outputLen]);
   return append(in, hash...).  The receiver d itself is what the caller keeps: returned here. *)
Definition sum (s : state) (inp : list N) : res (state * list N) :=
  match st_dir s with
  | Squeezing => Panic P_sum_after_read
  | Absorbing =>
    let dup := clone s in
    match read dup output_len with
    | Ok (_, h) => Ok (s, inp ++ h)
    | Panic c => Panic c
    end
  end.

(* ---- scripts: interleaved calls on one KeccakState; a panicking call leaves the receiver as it was ---- *)
Definition step (s : state) (o : op) : state * obs :=
  match o with
  | OWrite p => match write s p with Ok s' => (s', VUnit) | Panic c => (s, VPanic c) end
  | OSum inp => match sum s inp with Ok (s', h) => (s', VBytes h) | Panic c => (s, VPanic c) end
  | ORead k => match read s k with Ok (s', h) => (s', VBytes h) | Panic c => (s, VPanic c) end
  | OReset => (reset s, VUnit)
  end.

Fixpoint run (s : state) (ops : list op) : list obs :=
  match ops with
  | [] => []
  | o :: r => let '(s', v) := step s o in v :: run s' r
  end.

(* write every chunk in turn (a panic is sticky) *)
Definition writes (s : state) (chunks : list (list N)) : res state :=
  fold_left (fun r c => match r with Ok s' => write s' c | Panic e => Panic e end) chunks (Ok s).

(* crypto/keccak.go Keccak256(data ...[]byte) / Keccak256Hash: d.Reset(); for each b: d.Write(b); d.Read(32 bytes)
   on a pooled hasher [s] in an arbitrary earlier state *)
Definition keccak256_impl (s : state) (data : list (list N)) : res (list N) :=
  match writes (reset s) data with
  | Ok s' => match read s' output_len with Ok (_, h) => Ok h | Panic c => Panic c end
  | Panic c => Panic c
  end.

(* crypto/crypto.go HashData(kh, data): kh.Reset(); kh.Write(data); kh.Read(h[:]) *)
Definition hash_data (s : state) (data : list N) : res (state * list N) :=
  match write (reset s) data with
  | Ok s' => read s' output_len
  | Panic c => Panic c
  end.

End Sponge.

(* ============ instances with Keccak-f[1600] (Keccak/Permutation.v) ============ *)

(* THE reference function used by all other families *)
Definition keccak256 (msg : list N) : list N := sponge256 keccak_f msg.

Definition k_write := write keccak_f.
Definition k_read := read keccak_f.
Definition k_sum := sum keccak_f.
Definition k_step := step keccak_f.
Definition k_run := run keccak_f.
