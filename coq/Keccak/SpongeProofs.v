(* Keccak/SpongeProofs.v — lemmas about Keccak/Sponge.v: the block-wise loops of Write and
   Read are byte-wise folds; chunking; the streaming state machine refines the spec. *)
From GV Require Import Lib.Tactics Keccak.Permutation Keccak.Sponge.
Local Open Scope N_scope.

(* ---------------- arithmetic facts about the constants ---------------- *)
Lemma rate_pos : (0 < rate)%nat. Proof. unfold rate. lia. Qed.
Lemma rate_le_state : (rate <= state_len)%nat. Proof. unfold rate, state_len. lia. Qed.
Lemma output_le_rate : (output_len <= rate)%nat. Proof. unfold rate, output_len. lia. Qed.
Lemma mod_sub_rate m : (rate <= m -> (m - rate) mod rate = m mod rate)%nat.
Proof. unfold rate. lia. Qed.
Lemma mod_lt_rate m : (m mod rate < rate)%nat.
Proof. unfold rate. lia. Qed.
Lemma mod_small_rate m : (m < rate -> m mod rate = m)%nat.
Proof. unfold rate. lia. Qed.
Lemma le_S_div_rate k : (k <= S (k / rate) * rate)%nat.
Proof. unfold rate. lia. Qed.

Opaque rate state_len output_len.

(* ---------------- list lemmas ---------------- *)
Lemma xor_into_length dst p : length (xor_into dst p) = length dst.
Proof.
  revert p. induction dst as [|d ds IH]; intros [|b ps]; cbn [xor_into length]; auto.
Qed.

Lemma xor_into_nil_r dst : xor_into dst [] = dst.
Proof. destruct dst; reflexivity. Qed.

(* xor_from a n q : q XORed into a starting at offset n *)
Definition xor_from (a : list N) (n : nat) (q : list N) : list N :=
  firstn n a ++ xor_into (skipn n a) q.

Lemma xor_from_length a n q : length (xor_from a n q) = length a.
Proof.
  unfold xor_from. rewrite app_length, xor_into_length, <- app_length, firstn_skipn. reflexivity.
Qed.

Lemma xor_from_0 a q : xor_from a 0 q = xor_into a q.
Proof. reflexivity. Qed.

Lemma xor_from_nil a n : xor_from a n [] = a.
Proof. unfold xor_from. rewrite xor_into_nil_r. apply firstn_skipn. Qed.

Lemma xor_from_cons x a n q : xor_from (x :: a) (S n) q = x :: xor_from a n q.
Proof. reflexivity. Qed.

Lemma xor_at_length a i b : length (xor_at a i b) = length a.
Proof.
  revert i. induction a as [|x r IH]; intros [|i]; cbn [xor_at length]; auto.
Qed.

Lemma xor_from_step a n b q :
  (n < length a)%nat -> xor_from (xor_at a n b) (S n) q = xor_from a n (b :: q).
Proof.
  revert n. induction a as [|x r IH]; intros n Hn; cbn [length] in Hn; [lia|].
  destruct n as [|n]; cbn [xor_at].
  - reflexivity.
  - rewrite !xor_from_cons. f_equal. apply IH. lia.
Qed.

Lemma xor_from_single a n b : xor_from a n [b] = xor_at a n b.
Proof.
  revert n. induction a as [|x r IH]; intros n.
  - destruct n; reflexivity.
  - destruct n as [|n]; cbn [xor_at].
    + unfold xor_from. cbn. rewrite xor_into_nil_r. reflexivity.
    + rewrite xor_from_cons, IH. reflexivity.
Qed.

Lemma xor_at_0 a n : xor_at a n 0 = a.
Proof.
  revert n. induction a as [|x r IH]; intros [|n]; cbn [xor_at]; auto.
  - rewrite N.lxor_0_r. reflexivity.
  - rewrite IH. reflexivity.
Qed.

Lemma xor_at_twice a n b c : xor_at (xor_at a n b) n c = xor_at a n (N.lxor b c).
Proof.
  revert n. induction a as [|x r IH]; intros [|n]; cbn [xor_at]; auto.
  - rewrite N.lxor_assoc. reflexivity.
  - rewrite IH. reflexivity.
Qed.

Lemma xor_from_zeros a n j v :
  (n + j <= length a)%nat -> xor_from a n (repeat 0 j ++ v) = xor_from a (n + j) v.
Proof.
  revert n. induction j as [|j IH]; intros n Hn; cbn [repeat app].
  - rewrite Nat.add_0_r. reflexivity.
  - rewrite <- xor_from_step by lia. rewrite xor_at_0, IH by lia. f_equal. lia.
Qed.

Lemma xor_into_app a u v :
  (length u <= length a)%nat -> xor_into a (u ++ v) = xor_from (xor_into a u) (length u) v.
Proof.
  revert a. induction u as [|b u IH]; intros a Hl; cbn [app length].
  - rewrite xor_into_nil_r. reflexivity.
  - destruct a as [|x a]; cbn [length] in Hl; [lia|].
    cbn [xor_into]. rewrite xor_from_cons, IH by lia. reflexivity.
Qed.

(* xor into a prefix window and put it back = xor the truncated data into the whole *)
Lemma xor_into_window k l p : xor_into (firstn k l) p ++ skipn k l = xor_into l (firstn k p).
Proof.
  revert l p. induction k as [|k IH]; intros l p.
  - cbn. rewrite xor_into_nil_r. reflexivity.
  - destruct l as [|x l]; [reflexivity|]. destruct p as [|b p].
    + cbn [firstn xor_into skipn app]. rewrite firstn_skipn. reflexivity.
    + cbn [firstn xor_into skipn app]. rewrite IH. reflexivity.
Qed.

Lemma firstn_min_length {A} k (p : list A) : firstn (Nat.min k (length p)) p = firstn k p.
Proof.
  destruct (Nat.le_ge_cases k (length p)) as [H|H].
  - rewrite Nat.min_l by exact H. reflexivity.
  - rewrite Nat.min_r by exact H. rewrite firstn_all, firstn_all2 by exact H. reflexivity.
Qed.

Lemma skipn_nth_cons (a : list N) n : (n < length a)%nat -> skipn n a = nth n a 0 :: skipn (S n) a.
Proof.
  revert n. induction a as [|x r IH]; intros n Hn; cbn [length] in Hn; [lia|].
  destruct n as [|n]; [reflexivity|]. cbn [skipn nth]. rewrite IH by lia. reflexivity.
Qed.

Lemma skipn_add {A} x y (l : list A) : skipn x (skipn y l) = skipn (x + y) l.
Proof.
  revert l. induction y as [|y IH]; intros l.
  - rewrite Nat.add_0_r. reflexivity.
  - rewrite Nat.add_succ_r. destruct l as [|a l]; [rewrite !skipn_nil; reflexivity|].
    cbn [skipn]. apply IH.
Qed.

Lemma set_window_xor a n :
  (n <= rate)%nat -> (rate <= length a)%nat -> forall p,
  set_window a n (xor_into (window a n rate) p) = xor_from a n (firstn (rate - n) p).
Proof.
  intros Hn Ha p. unfold set_window, window, xor_from. f_equal.
  rewrite xor_into_length, firstn_length, skipn_length.
  replace (n + Nat.min (rate - n) (length a - n))%nat with ((rate - n) + n)%nat by lia.
  rewrite <- skipn_add. apply xor_into_window.
Qed.

(* ---------------- the spec's blocks and padding ---------------- *)
Lemma blocks_fuel_indep k1 : forall k2 l,
  (length l <= k1)%nat -> (length l <= k2)%nat -> blocks_fuel k1 l = blocks_fuel k2 l.
Proof.
  pose proof rate_pos as Hr.
  induction k1 as [|k1 IH]; intros k2 l H1 H2.
  - destruct l; [destruct k2; reflexivity | cbn [length] in H1; lia].
  - destruct l as [|x l0]; [destruct k2; reflexivity|].
    destruct k2 as [|k2]; [cbn [length] in H2; lia|].
    cbn [blocks_fuel]. f_equal.
    assert (length (skipn rate (x :: l0)) <= length l0)%nat
      by (rewrite skipn_length; cbn [length]; lia).
    cbn [length] in H1, H2. apply IH; lia.
Qed.

Lemma blocks_fuel_enough k l : (length l <= k)%nat -> blocks_fuel k l = blocks_fuel (length l) l.
Proof. intros H. apply blocks_fuel_indep; lia. Qed.

Lemma blocks_cons blk l : length blk = rate -> blocks (blk ++ l) = blk :: blocks l.
Proof.
  pose proof rate_pos as Hr. intros Hb. unfold blocks.
  destruct blk as [|x blk0]; [cbn [length] in Hb; lia|].
  set (blk := x :: blk0) in *.
  rewrite app_length. destruct (length blk + length l)%nat as [|k] eqn:E; [lia|].
  cbn [blocks_fuel]. change ((x :: blk0) ++ l) with (blk ++ l).
  replace (blk ++ l) with ((x :: blk0) ++ l) at 1 by reflexivity. cbn [app].
  change (x :: blk0 ++ l) with (blk ++ l).
  rewrite firstn_app, skipn_app, Hb, Nat.sub_diag, firstn_O, skipn_O, app_nil_r.
  rewrite <- Hb, firstn_all, skipn_all. cbn [app]. f_equal.
  apply blocks_fuel_enough. lia.
Qed.

Lemma blocks_nil : blocks [] = [].
Proof. reflexivity. Qed.

Lemma blocks_single l : length l = rate -> blocks l = [l].
Proof. intros H. rewrite <- (app_nil_r l) at 1. rewrite blocks_cons by exact H. reflexivity. Qed.

Lemma pad_bytes_length k : (1 <= k)%nat -> length (pad_bytes k) = k.
Proof.
  intros H. destruct k as [|[|j]]; [lia|reflexivity|].
  cbn [pad_bytes length]. rewrite app_length, repeat_length. cbn [length]. lia.
Qed.

Lemma pad_short msg : (length msg < rate)%nat -> pad msg = msg ++ pad_bytes (rate - length msg).
Proof. intros H. unfold pad. rewrite mod_small_rate by exact H. reflexivity. Qed.

Lemma pad_long msg : (rate <= length msg)%nat -> pad msg = firstn rate msg ++ pad (skipn rate msg).
Proof.
  intros H. unfold pad. rewrite skipn_length, mod_sub_rate by exact H.
  rewrite app_assoc, firstn_skipn. reflexivity.
Qed.

(* what padAndPermute XORs in is the spec's padding *)
Lemma pad_xor a msg :
  (length msg < rate)%nat -> (rate <= length a)%nat ->
  xor_at (xor_at (xor_into a msg) (length msg) dsbyte) (rate - 1) 128
  = xor_into a (msg ++ pad_bytes (rate - length msg)).
Proof.
  intros Hn Ha. rewrite xor_into_app by lia.
  assert (HA : length (xor_into a msg) = length a) by apply xor_into_length.
  set (A := xor_into a msg) in *. set (n := length msg) in *.
  destruct (rate - n)%nat as [|[|j]] eqn:E; [lia| |]; cbn [pad_bytes].
  - replace (rate - 1)%nat with n by lia.
    rewrite xor_at_twice, xor_from_single. reflexivity.
  - rewrite <- xor_from_step by lia. rewrite xor_from_zeros by (rewrite xor_at_length; lia).
    rewrite xor_from_single. f_equal. lia.
Qed.

(* ================= the sponge, parametric in f ================= *)
Section Proofs.
Variable f : list N -> list N.
Hypothesis f_len : forall a, length a = state_len -> length (f a) = state_len.

Notation write := (write f).
Notation write_loop := (write_loop f).
Notation read := (read f).
Notation read_loop := (read_loop f).
Notation sum := (sum f).
Notation permute := (permute f).
Notation pad_and_permute := (pad_and_permute f).
Notation writes := (writes f).

(* ---- Write, one byte at a time ---- *)
Definition write1 (s : state) (b : N) : state :=
  let a' := xor_at (st_a s) (st_n s) b in
  if Nat.eqb (S (st_n s)) rate then mkstate (f a') 0 (st_dir s)
  else mkstate a' (S (st_n s)) (st_dir s).
Definition absorb_bytes (s : state) (p : list N) : state := fold_left write1 p s.

Lemma absorb_bytes_app s p q : absorb_bytes s (p ++ q) = absorb_bytes (absorb_bytes s p) q.
Proof. apply fold_left_app. Qed.

(* a chunk that fits into the rest of the current block *)
Lemma absorb_bytes_chunk q : forall a n d,
  (n + length q <= rate)%nat -> (rate <= length a)%nat -> (n < rate)%nat ->
  absorb_bytes (mkstate a n d) q =
    let a' := xor_from a n q in
    if Nat.eqb (n + length q) rate then mkstate (f a') 0 d else mkstate a' (n + length q) d.
Proof.
  induction q as [|b q IH]; intros a n d Hq Ha Hn; cbn [length] in Hq.
  - cbn [absorb_bytes fold_left length]. rewrite xor_from_nil, Nat.add_0_r.
    cbv zeta. destruct (Nat.eqb_spec n rate); [lia|reflexivity].
  - unfold absorb_bytes. cbn [fold_left]. fold (absorb_bytes (write1 (mkstate a n d) b) q).
    unfold write1. cbn [st_a st_n st_dir length]. cbv zeta.
    destruct (Nat.eqb_spec (S n) rate) as [E|E].
    + assert (length q = 0%nat) as Hz by lia. destruct q; [|discriminate Hz].
      cbn [absorb_bytes fold_left length].
      destruct (Nat.eqb_spec (n + 1) rate); [|lia].
      rewrite xor_from_single. reflexivity.
    + rewrite IH by (rewrite ?xor_at_length; lia).
      cbv zeta. rewrite xor_from_step by lia.
      replace (S n + length q)%nat with (n + S (length q))%nat by lia. reflexivity.
Qed.

Definition wf_abs (s : state) : Prop := wf s /\ st_dir s = Absorbing.

Lemma wf_abs_inv s : wf_abs s -> length (st_a s) = state_len /\ (st_n s < rate)%nat /\ st_dir s = Absorbing.
Proof. intros [[Hl Hn] Hd]. rewrite Hd in Hn. auto. Qed.

Lemma wf_abs_intro a n : length a = state_len -> (n < rate)%nat -> wf_abs (mkstate a n Absorbing).
Proof. intros Hl Hn. split; [split|]; cbn; auto. Qed.

Lemma write1_wf s b : wf_abs s -> wf_abs (write1 s b).
Proof.
  intros H. destruct (wf_abs_inv _ H) as (Hl & Hn & Hd). destruct s as [a n d]. cbn in *. subst d.
  unfold write1. cbn [st_a st_n st_dir].
  destruct (Nat.eqb_spec (S n) rate).
  - apply wf_abs_intro; [apply f_len; rewrite xor_at_length; exact Hl | apply rate_pos].
  - apply wf_abs_intro; [rewrite xor_at_length; exact Hl | lia].
Qed.

Lemma absorb_bytes_wf p : forall s, wf_abs s -> wf_abs (absorb_bytes s p).
Proof.
  induction p as [|b p IH]; intros s H; [exact H|].
  unfold absorb_bytes. cbn [fold_left]. apply IH, write1_wf, H.
Qed.

(* the Go loop is the byte-wise fold, and never runs out of fuel *)
Lemma write_loop_bytes fuel : forall s p,
  wf_abs s -> (length p < fuel)%nat -> write_loop fuel s p = Ok (absorb_bytes s p).
Proof.
  pose proof rate_le_state as Hrs.
  induction fuel as [|fuel IH]; intros s p Hwf Hf; [lia|].
  destruct p as [|b p0]; [reflexivity|].
  set (p := b :: p0) in *.
  destruct (wf_abs_inv _ Hwf) as (Hl & Hn & Hd). destruct s as [a n d]. cbn [st_a st_n st_dir] in *. subst d.
  change (write_loop (S fuel) (mkstate a n Absorbing) p) with
    (let w := window a n rate in
     let x := Nat.min (length w) (length p) in
     let s1 := mkstate (set_window a n (xor_into w p)) (n + x) Absorbing in
     let s2 := if Nat.eqb (st_n s1) rate then permute s1 else s1 in
     write_loop fuel s2 (skipn x p)).
  cbv zeta.
  assert (Hw : length (window a n rate) = (rate - n)%nat).
  { unfold window. rewrite firstn_length, skipn_length. lia. }
  rewrite Hw. rewrite set_window_xor by lia.
  set (x := Nat.min (rate - n) (length p)).
  assert (Hx1 : (1 <= x)%nat) by (subst x p; cbn [length]; lia).
  assert (Hx2 : (x <= rate - n)%nat) by (subst x; lia).
  assert (Hx3 : (x <= length p)%nat) by (subst x; lia).
  rewrite <- (firstn_min_length (rate - n) p). fold x.
  assert (Hq : length (firstn x p) = x) by (rewrite firstn_length; lia).
  replace (absorb_bytes (mkstate a n Absorbing) p)
    with (absorb_bytes (absorb_bytes (mkstate a n Absorbing) (firstn x p)) (skipn x p))
    by (rewrite <- absorb_bytes_app, firstn_skipn; reflexivity).
  rewrite (absorb_bytes_chunk (firstn x p)) by lia. cbv zeta. rewrite Hq.
  cbn [st_n]. unfold permute. cbn [st_a st_n st_dir].
  destruct (Nat.eqb_spec (n + x) rate) as [E|E].
  - apply IH.
    + apply wf_abs_intro; [apply f_len; rewrite xor_from_length; exact Hl | apply rate_pos].
    + rewrite skipn_length. lia.
  - apply IH.
    + apply wf_abs_intro; [rewrite xor_from_length; exact Hl | lia].
    + rewrite skipn_length. lia.
Qed.

Lemma write_bytes s p : wf_abs s -> write s p = Ok (absorb_bytes s p).
Proof.
  intros H. unfold Sponge.write. destruct (wf_abs_inv _ H) as (_ & _ & Hd). rewrite Hd.
  apply write_loop_bytes; [exact H | lia].
Qed.

Lemma write_squeezing s p : st_dir s = Squeezing -> write s p = Panic P_write_after_read.
Proof. intros H. unfold Sponge.write. rewrite H. reflexivity. Qed.

Lemma writes_bytes chunks : forall s, wf_abs s -> writes s chunks = Ok (absorb_bytes s (concat chunks)).
Proof.
  unfold Sponge.writes.
  induction chunks as [|c cs IH]; intros s H; [reflexivity|].
  cbn [fold_left]. change (concat (c :: cs)) with (c ++ concat cs).
  rewrite write_bytes by exact H.
  rewrite (absorb_bytes_app s c (concat cs)). apply IH, absorb_bytes_wf, H.
Qed.

(* write_app *)
Lemma write_app s p q : wf_abs s ->
  match write s p with Ok s1 => write s1 q | Panic c => Panic c end = write s (p ++ q).
Proof.
  intros H. rewrite (write_bytes s p H), (write_bytes s (p ++ q) H).
  rewrite (write_bytes _ q (absorb_bytes_wf p s H)), absorb_bytes_app. reflexivity.
Qed.

(* ---- finalisation: padAndPermute after byte-wise absorption = the spec's absorb ---- *)
Lemma absorb_pad fuel : forall msg a,
  (length msg <= fuel)%nat -> length a = state_len ->
  pad_and_permute (absorb_bytes (mkstate a 0 Absorbing) msg)
  = mkstate (absorb f a (blocks (pad msg))) 0 Squeezing.
Proof.
  pose proof rate_pos as Hr. pose proof rate_le_state as Hrs.
  induction fuel as [|fuel IH]; intros msg a Hf Ha.
  - destruct msg; [|cbn [length] in Hf; lia].
    cbn [absorb_bytes fold_left]. unfold Sponge.pad_and_permute. cbn [st_a st_n].
    rewrite pad_short by (cbn [length]; lia). cbn [app].
    rewrite blocks_single by (rewrite pad_bytes_length; cbn [length]; lia).
    cbn [absorb fold_left]. unfold absorb_block.
    pose proof (pad_xor a [] ltac:(cbn [length]; lia) ltac:(lia)) as P.
    cbn [length app] in P. rewrite xor_into_nil_r in P. rewrite P. reflexivity.
  - destruct (Nat.lt_ge_cases (length msg) rate) as [Hs|Hl].
    + rewrite absorb_bytes_chunk by lia. cbv zeta. cbn [Nat.add].
      destruct (Nat.eqb_spec (length msg) rate) as [|_]; [lia|].
      unfold Sponge.pad_and_permute. cbn [st_a st_n].
      rewrite pad_short by exact Hs.
      rewrite blocks_single by (rewrite app_length, pad_bytes_length; lia).
      cbn [absorb fold_left]. unfold absorb_block.
      rewrite xor_from_0, pad_xor by lia. reflexivity.
    + rewrite <- (firstn_skipn rate msg) at 1. rewrite absorb_bytes_app.
      assert (Hb : length (firstn rate msg) = rate) by (rewrite firstn_length; lia).
      rewrite absorb_bytes_chunk by lia. cbv zeta. cbn [Nat.add]. rewrite Hb, Nat.eqb_refl.
      rewrite xor_from_0, pad_long by exact Hl. rewrite blocks_cons by exact Hb.
      cbn [absorb fold_left]. unfold absorb_block at 2.
      apply IH.
      * rewrite skipn_length. lia.
      * apply f_len. rewrite xor_into_length. exact Ha.
Qed.

Lemma init_wf : wf_abs (init).
Proof.
  pose proof rate_pos. apply wf_abs_intro; [apply repeat_length | lia].
Qed.

Lemma finalize_init msg :
  pad_and_permute (absorb_bytes init msg) = mkstate (absorbed f msg) 0 Squeezing.
Proof. unfold init. apply (absorb_pad (length msg)); [lia | apply repeat_length]. Qed.

(* ---- Read, one byte at a time ---- *)
Fixpoint squeeze_bytes (k : nat) (s : state) : state * list N :=
  match k with
  | O => (s, [])
  | S k' =>
    let s1 := if Nat.eqb (st_n s) rate then permute s else s in
    let '(s', o) := squeeze_bytes k' (mkstate (st_a s1) (S (st_n s1)) (st_dir s1)) in
    (s', nth (st_n s1) (st_a s1) 0 :: o)
  end.

Definition wf_len (s : state) : Prop := length (st_a s) = state_len /\ (st_n s <= rate)%nat.

Lemma wf_wf_len s : wf s -> wf_len s.
Proof. intros [Hl Hn]. split; [exact Hl|]. destruct (st_dir s); lia. Qed.

(* bytes that are still in the current block *)
Lemma squeeze_bytes_window x : forall r a n d,
  (n + x <= rate)%nat -> (rate <= length a)%nat ->
  squeeze_bytes (x + r) (mkstate a n d) =
    let '(s', o) := squeeze_bytes r (mkstate a (n + x) d) in (s', firstn x (skipn n a) ++ o).
Proof.
  induction x as [|x IH]; intros r a n d Hx Ha.
  - rewrite Nat.add_0_r. cbn [Nat.add firstn app]. destruct (squeeze_bytes r _); reflexivity.
  - cbn [Nat.add squeeze_bytes st_n st_a st_dir].
    destruct (Nat.eqb_spec n rate) as [|_]; [lia|]. cbn [st_n st_a st_dir].
    rewrite IH by lia. replace (S n + x)%nat with (n + S x)%nat by lia.
    destruct (squeeze_bytes r _) as [s' o].
    rewrite (skipn_nth_cons a n) by lia. reflexivity.
Qed.

Lemma squeeze_bytes_S k s :
  squeeze_bytes (S k) s = squeeze_bytes (S k) (if Nat.eqb (st_n s) rate then permute s else s).
Proof.
  pose proof rate_pos. cbn [squeeze_bytes].
  destruct (Nat.eqb_spec (st_n s) rate) as [E|E].
  - unfold permute at 1. cbn [st_n]. destruct (Nat.eqb_spec 0 rate); [lia|]. reflexivity.
  - destruct (Nat.eqb_spec (st_n s) rate); [lia|]. reflexivity.
Qed.

Lemma read_loop_bytes fuel : forall s k,
  wf_len s -> (k <= fuel)%nat -> read_loop fuel s k = Ok (squeeze_bytes k s).
Proof.
  pose proof rate_pos as Hr. pose proof rate_le_state as Hrs.
  induction fuel as [|fuel IH]; intros s k [Hl Hn] Hk.
  - destruct k; [reflexivity|lia].
  - destruct k as [|k0]; [reflexivity|].
    rewrite squeeze_bytes_S. set (k := S k0) in *.
    change (read_loop (S fuel) s k) with
      (let s1 := if Nat.eqb (st_n s) rate then permute s else s in
       let w := window (st_a s1) (st_n s1) rate in
       let x := Nat.min k (length w) in
       match read_loop fuel (mkstate (st_a s1) (st_n s1 + x) (st_dir s1)) (k - x) with
       | Ok (s', o) => Ok (s', firstn x w ++ o)
       | Panic c => Panic c
       end).
    cbv zeta.
    set (s1 := if Nat.eqb (st_n s) rate then permute s else s).
    assert (H1 : length (st_a s1) = state_len /\ (st_n s1 < rate)%nat).
    { subst s1. destruct (Nat.eqb_spec (st_n s) rate).
      - unfold permute. cbn [st_a st_n]. split; [apply f_len, Hl | lia].
      - split; [exact Hl | lia]. }
    destruct H1 as [Hl1 Hn1]. destruct s1 as [a1 n1 d1]. cbn [st_a st_n st_dir] in *.
    assert (Hw : length (window a1 n1 rate) = (rate - n1)%nat).
    { unfold window. rewrite firstn_length, skipn_length. lia. }
    rewrite Hw. set (x := Nat.min k (rate - n1)).
    assert (Hx1 : (1 <= x)%nat) by (subst x k; lia).
    assert (Hx2 : (x <= rate - n1)%nat) by (subst x; lia).
    assert (Hx3 : (x <= k)%nat) by (subst x; lia).
    rewrite IH by (try split; cbn [st_a st_n]; lia).
    replace k with (x + (k - x))%nat at 2 by lia.
    rewrite squeeze_bytes_window by lia.
    destruct (squeeze_bytes (k - x) _) as [s' o].
    unfold window. rewrite firstn_firstn, Nat.min_l by lia. reflexivity.
Qed.

Lemma squeeze_bytes_add m : forall n s,
  squeeze_bytes (m + n) s =
    let '(s1, o1) := squeeze_bytes m s in
    let '(s2, o2) := squeeze_bytes n s1 in (s2, o1 ++ o2).
Proof.
  induction m as [|m IH]; intros n s.
  - cbn [Nat.add squeeze_bytes app]. destruct (squeeze_bytes n s); reflexivity.
  - cbn [Nat.add squeeze_bytes]. rewrite IH.
    destruct (squeeze_bytes m _) as [s1 o1]. destruct (squeeze_bytes n s1) as [s2 o2]. reflexivity.
Qed.

Lemma squeeze_bytes_inv k : forall s, wf_len s ->
  wf_len (fst (squeeze_bytes k s)) /\ st_dir (fst (squeeze_bytes k s)) = st_dir s /\
  length (snd (squeeze_bytes k s)) = k.
Proof.
  pose proof rate_pos as Hr.
  induction k as [|k IH]; intros s [Hl Hn]; [cbn; repeat split; assumption|].
  cbn [squeeze_bytes].
  set (s1 := if Nat.eqb (st_n s) rate then permute s else s).
  assert (H1 : length (st_a s1) = state_len /\ (st_n s1 < rate)%nat /\ st_dir s1 = st_dir s).
  { subst s1. destruct (Nat.eqb_spec (st_n s) rate).
    - unfold permute. cbn [st_a st_n st_dir]. repeat split; [apply f_len, Hl | lia].
    - repeat split; [exact Hl | lia]. }
  destruct H1 as (Hl1 & Hn1 & Hd1).
  specialize (IH (mkstate (st_a s1) (S (st_n s1)) (st_dir s1))).
  destruct (squeeze_bytes k _) as [s' o]. cbn [fst snd length] in *.
  destruct IH as (A & B & C); [split; cbn [st_a st_n]; [exact Hl1 | lia]|].
  cbn [st_dir] in B. repeat split; try apply A; [congruence | lia].
Qed.

(* the byte-wise squeeze from the start of a block is the spec's output stream *)
Lemma squeeze_bytes_stream j : forall k A d,
  (k <= j * rate)%nat -> length A = state_len ->
  snd (squeeze_bytes k (mkstate A 0 d)) = firstn k (squeeze_blocks f j A).
Proof.
  pose proof rate_pos as Hr. pose proof rate_le_state as Hrs.
  induction j as [|j IH]; intros k A d Hk HA.
  - replace k with 0%nat by lia. reflexivity.
  - cbn [squeeze_blocks].
    assert (Hfl : length (firstn rate A) = rate) by (rewrite firstn_length; lia).
    destruct (Nat.le_gt_cases k rate) as [Hle|Hgt].
    + replace k with (k + 0)%nat at 1 by lia. rewrite squeeze_bytes_window by lia.
      cbn [squeeze_bytes snd skipn]. rewrite app_nil_r.
      rewrite firstn_app, Hfl. replace (k - rate)%nat with 0%nat by lia.
      rewrite firstn_O, app_nil_r, firstn_firstn, Nat.min_l by lia. reflexivity.
    + replace k with (rate + (k - rate))%nat at 1 by lia.
      rewrite squeeze_bytes_window by lia. cbn [Nat.add skipn].
      destruct (k - rate)%nat as [|k'] eqn:E; [lia|].
      rewrite squeeze_bytes_S. cbn [st_n]. rewrite Nat.eqb_refl. unfold permute. cbn [st_a st_dir].
      specialize (IH (S k') (f A) d ltac:(lia) (f_len _ HA)).
      destruct (squeeze_bytes (S k') _) as [s' o]. cbn [snd] in *. subst o.
      replace k with (rate + S k')%nat by lia.
      rewrite firstn_app, Hfl.
      rewrite (firstn_all2 (n := (rate + S k')%nat) (firstn rate A)) by lia.
      replace (rate + S k' - rate)%nat with (S k') by lia. reflexivity.
Qed.

Lemma absorb_length bs : forall a, length a = state_len -> length (absorb f a bs) = state_len.
Proof.
  induction bs as [|b bs IHb]; intros a Ha; [exact Ha|].
  cbn [absorb fold_left]. apply IHb. unfold absorb_block. apply f_len. rewrite xor_into_length. exact Ha.
Qed.

Lemma absorbed_length msg : length (absorbed f msg) = state_len.
Proof. apply absorb_length, repeat_length. Qed.

(* the digest has 32 bytes *)
Lemma sponge256_length msg : length (sponge256 f msg) = output_len.
Proof.
  pose proof output_le_rate. pose proof rate_le_state.
  unfold sponge256. rewrite firstn_length, absorbed_length. lia.
Qed.

Lemma squeeze_stream msg k d :
  snd (squeeze_bytes k (mkstate (absorbed f msg) 0 d)) = sponge_stream f msg k.
Proof.
  unfold sponge_stream. apply squeeze_bytes_stream; [apply le_S_div_rate|]. apply absorbed_length.
Qed.

(* ---- Read / Sum in closed form ---- *)
Definition read_start (s : state) : state :=
  match st_dir s with Absorbing => pad_and_permute s | Squeezing => s end.

Lemma read_start_wf s : wf s -> wf_len (read_start s) /\ st_dir (read_start s) = Squeezing.
Proof.
  pose proof rate_pos as Hr.
  intros [Hl Hn]. unfold read_start. destruct (st_dir s) eqn:Hd.
  - unfold Sponge.pad_and_permute. cbn [st_dir]. split; [|reflexivity].
    split; cbn [st_a st_n]; [|lia]. apply f_len. rewrite !xor_at_length. exact Hl.
  - split; [split; assumption | exact Hd].
Qed.

Lemma read_bytes s k : wf s -> read s k = Ok (squeeze_bytes k (read_start s)).
Proof.
  intros H. unfold Sponge.read. fold (read_start s).
  apply read_loop_bytes; [apply read_start_wf, H | lia].
Qed.

Lemma read_wf s k s' o : wf s -> read s k = Ok (s', o) ->
  wf s' /\ st_dir s' = Squeezing /\ length o = k.
Proof.
  intros H E. rewrite read_bytes in E by exact H. injection E as E.
  destruct (read_start_wf s H) as [Hw Hd].
  destruct (squeeze_bytes_inv k _ Hw) as (A & B & C). rewrite E in A, B, C. cbn [fst snd] in *.
  rewrite Hd in B. split; [|split; assumption].
  destruct A as [A1 A2]. split; [exact A1|]. rewrite B. exact A2.
Qed.

(* read_split *)
Lemma read_split s m n : wf s ->
  read s (m + n) =
    match read s m with
    | Ok (s1, o1) => match read s1 n with
                     | Ok (s2, o2) => Ok (s2, o1 ++ o2)
                     | Panic c => Panic c
                     end
    | Panic c => Panic c
    end.
Proof.
  intros H. rewrite !read_bytes by exact H. rewrite squeeze_bytes_add.
  destruct (squeeze_bytes m (read_start s)) as [s1 o1] eqn:E1.
  assert (W : wf s1 /\ st_dir s1 = Squeezing /\ length o1 = m).
  { apply (read_wf s m); [exact H|]. rewrite read_bytes by exact H. rewrite E1. reflexivity. }
  destruct W as (W1 & W2 & _).
  rewrite read_bytes by exact W1. unfold read_start. rewrite W2.
  destruct (squeeze_bytes n s1). reflexivity.
Qed.

Lemma sum_closed s inp : wf_abs s ->
  sum s inp = Ok (s, inp ++ firstn output_len (st_a (pad_and_permute s))).
Proof.
  pose proof output_le_rate as Ho. pose proof rate_le_state as Hrs.
  intros H. destruct (wf_abs_inv _ H) as (Hl & Hn & Hd). destruct H as [Hw _].
  unfold Sponge.sum. rewrite Hd. unfold clone.
  assert (Hc : mkstate (st_a s) (st_n s) (st_dir s) = s) by (destruct s; reflexivity).
  rewrite Hc, read_bytes by exact Hw. unfold read_start. rewrite Hd.
  destruct (read_start_wf s Hw) as [[Hl2 _] _]. unfold read_start in Hl2. rewrite Hd in Hl2.
  unfold Sponge.pad_and_permute in *. cbn [st_a] in *.
  replace output_len with (output_len + 0)%nat at 1 by lia.
  rewrite squeeze_bytes_window by lia. cbn [squeeze_bytes skipn]. rewrite app_nil_r. reflexivity.
Qed.

Lemma sum_squeezing s inp : st_dir s = Squeezing -> sum s inp = Panic P_sum_after_read.
Proof. intros H. unfold Sponge.sum. rewrite H. reflexivity. Qed.

(* sum_pure: Sum returns the receiver unchanged and the digest a Read of 32 bytes would give *)
Lemma sum_pure s inp : wf_abs s ->
  exists s2 h, read s output_len = Ok (s2, h) /\ sum s inp = Ok (s, inp ++ h).
Proof.
  intros H. destruct (squeeze_bytes output_len (read_start s)) as [s2 h] eqn:E.
  exists s2, h. destruct (wf_abs_inv _ H) as (_ & _ & Hd).
  assert (R : read s output_len = Ok (s2, h)) by (rewrite read_bytes by apply H; rewrite E; reflexivity).
  split; [exact R|].
  unfold Sponge.sum. rewrite Hd. unfold clone.
  assert (Hc : mkstate (st_a s) (st_n s) (st_dir s) = s) by (destruct s; reflexivity).
  rewrite Hc, R. reflexivity.
Qed.

(* reset_init *)
Lemma map_const_repeat {A B} (l : list A) (b : B) : map (fun _ => b) l = repeat b (length l).
Proof. induction l as [|x l IH]; cbn; [reflexivity | rewrite IH; reflexivity]. Qed.

Lemma reset_init s : length (st_a s) = state_len -> reset s = init.
Proof. intros H. unfold reset, init. rewrite map_const_repeat, H. reflexivity. Qed.

(* ---- chunking ---- *)
Lemma chunking_read chunks :
  match writes init chunks with
  | Ok s => match read s output_len with Ok (_, h) => Ok h | Panic c => Panic c end
  | Panic c => Panic c
  end = Ok (sponge256 f (concat chunks)).
Proof.
  pose proof output_le_rate as Ho. pose proof rate_le_state as Hrs.
  rewrite writes_bytes by apply init_wf.
  pose proof (absorb_bytes_wf (concat chunks) _ init_wf) as W.
  destruct (wf_abs_inv _ W) as (_ & _ & Hd).
  rewrite read_bytes by apply W. unfold read_start. rewrite Hd, finalize_init.
  pose proof (squeeze_stream (concat chunks) output_len Squeezing) as S.
  destruct (squeeze_bytes output_len _) as [s' o]. cbn [snd] in S. subst o.
  unfold sponge_stream, sponge256. f_equal.
  cbn [squeeze_blocks].
  assert (length (absorbed f (concat chunks)) = state_len) as HA.
  { pose proof (read_start_wf _ (proj1 W)) as [[L _] _]. unfold read_start in L.
    rewrite Hd, finalize_init in L. exact L. }
  rewrite firstn_app, firstn_firstn, Nat.min_l by lia.
  rewrite firstn_length, HA. replace (output_len - Nat.min rate state_len)%nat with 0%nat by lia.
  rewrite firstn_O, app_nil_r. reflexivity.
Qed.

Lemma chunking_sum chunks inp :
  match writes init chunks with
  | Ok s => match sum s inp with Ok (_, h) => Ok h | Panic c => Panic c end
  | Panic c => Panic c
  end = Ok (inp ++ sponge256 f (concat chunks)).
Proof.
  rewrite writes_bytes by apply init_wf.
  pose proof (absorb_bytes_wf (concat chunks) _ init_wf) as W.
  rewrite sum_closed by exact W. rewrite finalize_init. reflexivity.
Qed.

(* ---- the implementation state machine refines the abstract machine, for every script ---- *)
Definition rep (t : astate) (s : state) : Prop :=
  match t with
  | AAbs msg => s = absorb_bytes init msg
  | ASq msg pos => s = fst (squeeze_bytes pos (pad_and_permute (absorb_bytes init msg)))
  end.

Lemma rep_wf t s : rep t s -> wf s /\ st_dir s = match t with AAbs _ => Absorbing | ASq _ _ => Squeezing end.
Proof.
  destruct t as [msg|msg pos]; cbn [rep]; intros ->.
  - pose proof (absorb_bytes_wf msg _ init_wf) as [W D]. split; assumption.
  - pose proof (absorb_bytes_wf msg _ init_wf) as W.
    destruct (wf_abs_inv _ W) as (_ & _ & Hd).
    pose proof (read_start_wf _ (proj1 W)) as [L D]. unfold read_start in L, D. rewrite Hd in L, D.
    destruct (squeeze_bytes_inv pos _ L) as ([A1 A2] & B & _). rewrite D in B.
    split; [|exact B]. split; [exact A1|]. rewrite B. exact A2.
Qed.

Lemma step_refines t s o : rep t s ->
  let '(s', v) := step f s o in
  let '(t', v') := spec_step f t o in rep t' s' /\ v = v'.
Proof.
  intros R. destruct (rep_wf t s R) as [W D].
  destruct o as [p|inp|k|].
  - (* Write *)
    destruct t as [msg|msg pos]; cbn [rep] in R; cbn [step spec_step].
    + rewrite write_bytes by (split; assumption). split; [|reflexivity].
      cbn [rep]. rewrite R, absorb_bytes_app. reflexivity.
    + rewrite write_squeezing by exact D. split; [exact R | reflexivity].
  - (* Sum *)
    destruct t as [msg|msg pos]; cbn [rep] in R; cbn [step spec_step].
    + rewrite sum_closed by (split; assumption). split; [exact R|].
      rewrite R, finalize_init. reflexivity.
    + rewrite sum_squeezing by exact D. split; [exact R | reflexivity].
  - (* Read *)
    cbn [step]. rewrite read_bytes by exact W. unfold read_start. rewrite D.
    destruct t as [msg|msg pos]; cbn [rep] in R; cbn [spec_step].
    + subst s. destruct (squeeze_bytes k _) as [s' o] eqn:E. split.
      * cbn [rep]. rewrite E. reflexivity.
      * unfold stream_from. cbn [Nat.add skipn]. rewrite <- squeeze_stream with (d := Squeezing).
        rewrite <- finalize_init, E. reflexivity.
    + pose proof (squeeze_bytes_add pos k (pad_and_permute (absorb_bytes init msg))) as ADD.
      pose proof (absorb_bytes_wf msg _ init_wf) as W0.
      destruct (wf_abs_inv _ W0) as (_ & _ & Hd0).
      pose proof (read_start_wf _ (proj1 W0)) as [L0 _]. unfold read_start in L0. rewrite Hd0 in L0.
      destruct (squeeze_bytes_inv pos _ L0) as (_ & _ & LEN).
      destruct (squeeze_bytes pos _) as [s1 o1] eqn:E1. cbn [fst snd] in *. subst s1.
      destruct (squeeze_bytes k s) as [s2 o2] eqn:E2. split.
      * cbn [rep]. rewrite ADD. reflexivity.
      * unfold stream_from. rewrite <- squeeze_stream with (d := Squeezing).
        rewrite <- finalize_init, ADD. cbn [snd].
        rewrite skipn_app, LEN, Nat.sub_diag, skipn_O, <- LEN, skipn_all. reflexivity.
  - (* Reset *)
    cbn [step]. assert (E : spec_step f t OReset = (AAbs [], VUnit)) by (destruct t; reflexivity).
    rewrite E. split; [|reflexivity]. cbn [rep]. rewrite reset_init by apply W. reflexivity.
Qed.

Lemma run_refines ops : forall t s, rep t s -> run f s ops = spec_run f t ops.
Proof.
  induction ops as [|o ops IH]; intros t s R; [reflexivity|].
  cbn [run spec_run]. pose proof (step_refines t s o R) as S.
  destruct (step f s o) as [s' v]. destruct (spec_step f t o) as [t' v'].
  destruct S as [R' ->]. f_equal. apply IH, R'.
Qed.

Lemma run_init ops : run f init ops = spec_run f (AAbs []) ops.
Proof. apply run_refines. reflexivity. Qed.

(* Keccak256(data...) / HashData on a pooled hasher in any (well-formed) earlier state *)
Lemma keccak256_impl_spec s data : wf s ->
  keccak256_impl f s data = Ok (sponge256 f (concat data)).
Proof.
  intros [Hl _]. unfold keccak256_impl. rewrite reset_init by exact Hl. apply chunking_read.
Qed.

Lemma hash_data_spec s data : wf s ->
  exists s', hash_data f s data = Ok (s', sponge256 f data).
Proof.
  intros [Hl _]. unfold hash_data. rewrite reset_init by exact Hl.
  pose proof (chunking_read [data]) as C. unfold Sponge.writes in C. cbn [fold_left concat] in C.
  rewrite app_nil_r in C.
  destruct (write init data) as [s1|c]; [|discriminate C].
  destruct (read s1 output_len) as [[s2 h]|c]; [|discriminate C].
  injection C as ->. exists s2. reflexivity.
Qed.

End Proofs.

(* ---- the instance: Keccak-f[1600] preserves the 200-byte length ---- *)
Transparent rate state_len output_len.

Lemma keccak_f_length a : length (keccak_f a) = state_len.
Proof.
  unfold keccak_f, bytes_of_st. destruct (keccak_f_lanes (st_of_bytes a)). reflexivity.
Qed.

(* for users of the reference function: the digest is 32 bytes long *)
Lemma keccak256_length msg : length (keccak256 msg) = 32%nat.
Proof. exact (sponge256_length keccak_f (fun a _ => keccak_f_length a) msg). Qed.
