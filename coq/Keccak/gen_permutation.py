#!/usr/bin/env python3
"""Generator of the straight-line round function in Keccak/Permutation.v (run by hand once;
the generated text is committed in Permutation.v, this script is documentation).
Rotation offsets come from the FIPS-202 walk, lane positions from pi: B[y,2x+3y] = rot(A[x,y])."""
R = [[0]*5 for _ in range(5)]
x, y = 1, 0
for t in range(24):
    R[x][y] = ((t+1)*(t+2)//2) % 64
    x, y = y, (2*x+3*y) % 5
RC = [0x0000000000000001,0x0000000000008082,0x800000000000808A,0x8000000080008000,0x000000000000808B,
0x0000000080000001,0x8000000080008081,0x8000000000008009,0x000000000000008A,0x0000000000000088,
0x0000000080008009,0x000000008000000A,0x000000008000808B,0x800000000000008B,0x8000000000008089,
0x8000000000008003,0x8000000000008002,0x8000000000000080,0x000000000000800A,0x800000008000000A,
0x8000000080008081,0x8000000000008080,0x0000000080000001,0x8000000080008008]
out = []
w = out.append
names = " ".join("a%d" % i for i in range(25))
w("Definition round (rc : lane) (s : st25) : st25 :=")
w("  let '(St %s) := s in" % names)
w("  (* theta: column parities *)")
for x in range(5):
    w("  let c%d := lx5 a%d a%d a%d a%d a%d in" % (x, x, x+5, x+10, x+15, x+20))
for x in range(5):
    w("  let d%d := lx c%d (rotl 1 c%d) in" % (x, (x+4) % 5, (x+1) % 5))
w("  (* theta, rho, pi: b[y,2x+3y] = rotl r[x,y] (a[x,y] xor d[x]) *)")
B = {}
for y in range(5):
    for x in range(5):
        nx, ny = y, (2*x+3*y) % 5
        B[nx+5*ny] = (x+5*y, x, R[x][y])
for j in range(25):
    i, x, r = B[j]
    w("  let b%d := rotl %d (lx a%d d%d) in" % (j, r, i, x))
w("  (* chi (and iota on lane 0) *)")
args = []
for y in range(5):
    for x in range(5):
        e = "chi b%d b%d b%d" % (x+5*y, (x+1) % 5+5*y, (x+2) % 5+5*y)
        if x == 0 and y == 0:
            e = "lx (%s) rc" % e
        args.append("(%s)" % e)
w("  St " + "\n     ".join(" ".join(args[5*k:5*k+5]) for k in range(5)) + ".")
print("\n".join(out))
print()
print("Definition round_constants : list lane :=")
print("  [ " + ";\n    ".join("L 0x%08x 0x%08x" % (c & 0xffffffff, c >> 32) for c in RC) + " ].")
import sys
print("(* rotation table R[x][y]: %s *)" % R, file=sys.stderr)
