(* Keccak/PermutationNProofs.v — the reference permutation of Keccak/PermutationN.v maps any
   byte list to a 200-byte state (the only fact the sponge theorems need about a permutation). *)
From GV Require Import Lib.Tactics Keccak.Permutation Keccak.Sponge Keccak.PermutationN.
Local Open Scope N_scope.

Lemma build_length g : length (build g) = 25%nat.
Proof. unfold build. rewrite map_length, seq_length. reflexivity. Qed.

Lemma iota_length rc a : length (iota rc a) = length a.
Proof. destruct a; reflexivity. Qed.

Lemma rounds_length n : forall a l, length a = 25%nat -> length (rounds n a l) = 25%nat.
Proof.
  induction n as [|n IH]; intros a l H; [exact H|].
  cbn [rounds]. destruct (rc_round _ l 0) as [rc l']. apply IH.
  rewrite iota_length. apply build_length.
Qed.

Lemma le_bytes_length n x : length (le_bytes n x) = n.
Proof. revert x. induction n as [|n IH]; intros x; cbn [le_bytes length]; [reflexivity | rewrite IH; reflexivity]. Qed.

Lemma flat_map_le_bytes_length l : length (flat_map (le_bytes 8) l) = (8 * length l)%nat.
Proof.
  induction l as [|x l IH]; [reflexivity|].
  cbn [flat_map]. rewrite app_length, le_bytes_length, IH. cbn [length]. lia.
Qed.

Lemma keccak_f_N_length a : length (keccak_f_N a) = state_len.
Proof.
  unfold keccak_f_N, keccak_f_lanesN. rewrite flat_map_le_bytes_length, rounds_length.
  - reflexivity.
  - rewrite map_length, seq_length. reflexivity.
Qed.
