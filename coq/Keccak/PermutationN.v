(* Keccak/PermutationN.v — readable REFERENCE transcription of Keccak-f[1600] from FIPS-202
   section 3.2 (theta, rho, pi, chi, iota), lanes as N (64-bit words), no primitive integers:
   rotation offsets computed by the (x,y) -> (y, 2x+3y) walk, round constants by the LFSR rc(t)
   (formulation of the Keccak team's "readable and compact" reference).  About 50 ms per
   permutation under vm_compute: used for cross-checking the fast Uint63 version
   Keccak/Permutation.v on sample states (TESTS at the end, by vm_compute — not theorems about
   all states), and as a primitive-free instance of the parametric theorems of Properties/C04.v. *)
From Coq Require Import List NArith ZArith Arith Uint63.
From GV Require Import Keccak.Permutation Keccak.Sponge.
Import ListNotations.
Local Open Scope N_scope.

Definition w64 : N := 2 ^ 64.
Definition rotl64 (x n : N) : N := (N.lor (N.shiftl x n) (N.shiftr x (64 - n))) mod w64.
Definition not64 (x : N) : N := N.lxor x (w64 - 1).

(* lane A[x,y] of the 5x5 state, stored at index x + 5y; coordinates taken mod 5 *)
Definition lane_at (a : list N) (x y : nat) : N := nth ((x mod 5) + 5 * (y mod 5)) a 0.
(* build a state from a function of the coordinates *)
Definition build (g : nat -> nat -> N) : list N := map (fun i => g (i mod 5)%nat (i / 5)%nat) (seq 0 25).

(* 3.2.1 theta *)
Definition theta (a : list N) : list N :=
  let C x := fold_left N.lxor (map (lane_at a x) (seq 0 5)) 0 in
  let D x := N.lxor (C (x + 4)%nat) (rotl64 (C (x + 1)%nat) 1) in
  build (fun x y => N.lxor (lane_at a x y) (D x)).

(* 3.2.2 rho: offsets (t+1)(t+2)/2 mod 64 along the walk (x,y) := (1,0); (x,y) <- (y, 2x+3y) *)
Fixpoint set_nth (i : nat) (v : N) (l : list N) : list N :=
  match l, i with
  | [], _ => []
  | _ :: r, O => v :: r
  | x :: r, S i' => x :: set_nth i' v r
  end.
Fixpoint rho_walk (steps t x y : nat) (tbl : list N) : list N :=
  match steps with
  | O => tbl
  | S steps' =>
      rho_walk steps' (S t) y ((2 * x + 3 * y) mod 5)%nat
               (set_nth (x + 5 * y) (N.of_nat (((t + 1) * (t + 2) / 2) mod 64)) tbl)
  end.
Definition rho_offsets : list N := rho_walk 24 0 1 0 (repeat 0 25).
Definition rho (a : list N) : list N :=
  build (fun x y => rotl64 (lane_at a x y) (nth (x + 5 * y) rho_offsets 0)).

(* 3.2.3 pi: A'[x,y] = A[(x + 3y) mod 5, x] *)
Definition pi (a : list N) : list N := build (fun x y => lane_at a (x + 3 * y) x).

(* 3.2.4 chi: A'[x,y] = A[x,y] xor ((not A[x+1,y]) and A[x+2,y]) *)
Definition chi_step (a : list N) : list N :=
  build (fun x y => N.lxor (lane_at a x y) (N.land (not64 (lane_at a (x + 1) y)) (lane_at a (x + 2) y))).

(* 3.2.5 iota: round constant from the degree-8 LFSR x^8+x^6+x^5+x^4+1, bits at positions 2^j - 1 *)
Definition lfsr_step (s : N) : N * bool :=
  (if N.testbit s 7 then N.lxor ((N.shiftl s 1) mod 256) 113 else N.shiftl s 1, N.testbit s 0).
Fixpoint rc_round (js : list N) (s acc : N) : N * N :=
  match js with
  | [] => (acc, s)
  | j :: r => let '(s', b) := lfsr_step s in
              rc_round r s' (if b then N.lxor acc (N.shiftl 1 (2 ^ j - 1)) else acc)
  end.
Definition iota (rc : N) (a : list N) : list N :=
  match a with [] => [] | a0 :: r => N.lxor a0 rc :: r end.

(* Rnd = iota . chi . pi . rho . theta, 24 rounds, the LFSR state threaded through *)
Fixpoint rounds (n : nat) (a : list N) (lfsr : N) : list N :=
  match n with
  | O => a
  | S n' => let '(rc, lfsr') := rc_round [0; 1; 2; 3; 4; 5; 6] lfsr 0 in
            rounds n' (iota rc (chi_step (pi (rho (theta a))))) lfsr'
  end.
Definition keccak_f_lanesN (a : list N) : list N := rounds 24 a 1.

(* the 24 round constants (for comparison with the table of keccakf.go) *)
Fixpoint rc_list (n : nat) (lfsr : N) : list N :=
  match n with
  | O => []
  | S n' => let '(rc, lfsr') := rc_round [0; 1; 2; 3; 4; 5; 6] lfsr 0 in rc :: rc_list n' lfsr'
  end.

(* bytes <-> lanes, little endian; missing bytes read as 0, bytes reduced mod 256 *)
Definition lane_of_bytes (a : list N) (i : nat) : N :=
  fold_right (fun k acc => nth (8 * i + k) a 0 mod 256 + 256 * acc) 0 (seq 0 8).
Fixpoint le_bytes (n : nat) (x : N) : list N :=
  match n with O => [] | S n' => x mod 256 :: le_bytes n' (x / 256) end.

Definition keccak_f_N (a : list N) : list N :=
  flat_map (le_bytes 8) (keccak_f_lanesN (map (lane_of_bytes a) (seq 0 25))).

(* the reference Keccak-256 over the primitive-free permutation *)
Definition keccak256_N (msg : list N) : list N := sponge256 keccak_f_N msg.

(* ============================ TESTS (vm_compute) ============================ *)

(* the walk reproduces the published table of rotation offsets (FIPS-202 Table 2) *)
Example test_rho_offsets :
  rho_offsets = [ 0;  1; 62; 28; 27;
                 36; 44;  6; 55; 20;
                  3; 10; 43; 25; 39;
                 41; 45; 15; 21;  8;
                 18;  2; 61; 56; 14].
Proof. vm_compute. reflexivity. Qed.

(* the LFSR reproduces the rc table of /repo/crypto/keccak/keccakf.go, which is the table
   used by Keccak/Permutation.v *)
Definition lane_N (l : lane) : N :=
  Z.to_N (Uint63.to_Z (lo l)) + 2 ^ 32 * Z.to_N (Uint63.to_Z (hi l)).
Example test_round_constants : rc_list 24 1 = map lane_N round_constants.
Proof. vm_compute. reflexivity. Qed.
Example test_round_constants_ends :
  nth 0 (rc_list 24 1) 0 = 1 /\ nth 2 (rc_list 24 1) 0 = 9223372036854808714 (* 0x800000000000808A *)
  /\ nth 23 (rc_list 24 1) 0 = 9223372039002292232 (* 0x8000000080008008 *).
Proof. vm_compute. repeat split. Qed.

(* sample states: zero, bytes 0..199, three pseudo-random states, and iterates *)
Fixpoint lcg (n : nat) (s : N) : list N :=
  match n with
  | O => []
  | S n' => let s' := (s * 6364136223846793005 + 1442695040888963407) mod w64 in
            (s' / 2 ^ 33) mod 256 :: lcg n' s'
  end.
Definition sample_states : list (list N) :=
  [ repeat 0 200; map N.of_nat (seq 0 200); repeat 255 200; lcg 200 1; lcg 200 42; lcg 200 (2 ^ 63 + 12345) ].

Example test_permutations_agree :
  forallb (fun st => if list_eq_dec N.eq_dec (keccak_f st) (keccak_f_N st) then true else false) sample_states = true.
Proof. vm_compute. reflexivity. Qed.

Example test_permutations_agree_iterated :
  forallb (fun st => if list_eq_dec N.eq_dec (keccak_f (keccak_f (keccak_f st))) (keccak_f_N (keccak_f_N (keccak_f_N st)))
                     then true else false) sample_states = true.
Proof. vm_compute. reflexivity. Qed.

(* Keccak-f[1600] on the zero state: first lane of the published intermediate value
   (KeccakF-1600-IntermediateValues.txt: F1258F7940E1DDE7 84D5CCF933C0478A ...) *)
Example test_zero_state_first_lanes :
  firstn 16 (keccak_f_N (repeat 0 200)) =
  [231; 221; 225; 64; 121; 143; 37; 241; 138; 71; 192; 51; 249; 204; 213; 132].
Proof. vm_compute. reflexivity. Qed.

(* both references give the same digests *)
Example test_keccak256_agree :
  forallb (fun m => if list_eq_dec N.eq_dec (keccak256 m) (keccak256_N m) then true else false)
          [ []; [97; 98; 99]; repeat 97 135; repeat 97 136; repeat 97 137; lcg 300 7 ] = true.
Proof. vm_compute. reflexivity. Qed.
