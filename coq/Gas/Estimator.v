(* Gas/Estimator.v — executable model of /repo/eth/gasestimator/gasestimator.go
   (Estimate, execute) over the EVM given as an oracle.

   The model is a transcription: branch order, the unchecked [lo := used - 1],
   the optimistic probe, the [mid] clamp, the error-ratio exit and every place a
   Go uint64/uint256 expression can wrap are kept.  No proofs here. *)
From Coq Require Import List NArith Bool.
Import ListNotations.
Local Open Scope N_scope.

Definition W64 : N := 2 ^ 64.
Definition W256 : N := 2 ^ 256.
Definition TxGas : N := 21000.          (* params.TxGas *)
Definition CallStipend : N := 2300.     (* params.CallStipend *)
Definition MaxTxGas : N := 16777216.    (* params.MaxTxGas = 1 << 24 *)
Definition BlobTxBlobGasPerBlob : N := 131072. (* params.BlobTxBlobGasPerBlob = 1 << 17 *)

(* ---- the EVM as an oracle ------------------------------------------------ *)

(* result.Err of a *core.ExecutionResult, as far as Estimate distinguishes it *)
Inductive vm_err :=
| VmNone                  (* result.Err == nil *)
| VmOOG                   (* errors.Is(result.Err, vm.ErrOutOfGas) *)
| VmOther (cls : N).      (* any other VM error (revert, invalid opcode, ...) *)

(* outcome of gasestimator.run (core.ApplyMessage on a state copy) at one gas limit *)
Inductive run_result :=
| RunErrIntrinsic          (* err wraps core.ErrIntrinsicGas *)
| RunErrGasLimitTooHigh    (* err wraps core.ErrGasLimitTooHigh *)
| RunErrOther (cls : N)    (* any other consensus error *)
| RunRes (e : vm_err) (used maxUsed : N).   (* result.Err, UsedGas, MaxUsedGas *)

(* what execute returns: (failed, result, err) *)
Inductive exec_result :=
| ExBail (cls : N)               (* (true, nil, err)   — bail out *)
| ExFailNil                      (* (true, nil, nil)   — raise/lower the gas limit *)
| ExFail (e : vm_err)            (* (true, result, nil), result.Err = e <> nil *)
| ExOk (used maxUsed : N).       (* (false, result, nil) *)

(* gasestimator.go:208-226 execute *)
Definition execute (run : N -> run_result) (gas : N) : exec_result :=
  match run gas with
  | RunErrIntrinsic => ExFailNil
  | RunErrGasLimitTooHigh => ExFailNil
  | RunErrOther c => ExBail c
  | RunRes VmNone used maxUsed => ExOk used maxUsed
  | RunRes e _ _ => ExFail e
  end.

(* ---- inputs of Estimate --------------------------------------------------- *)

Record params := {
  p_header_gas : N;          (* opts.Header.GasLimit            (uint64) *)
  p_call_gas : N;            (* call.GasLimit                   (uint64) *)
  p_is_cancun : bool;        (* opts.Config.IsCancun(...) *)
  p_is_osaka : bool;         (* opts.Config.IsOsaka(...) *)
  p_is_amsterdam : bool;     (* opts.Config.IsAmsterdam(...) *)
  p_gas_fee_cap : option N;  (* call.GasFeeCap (nil = None)     (uint256) *)
  p_gas_price : option N;    (* call.GasPrice                   (uint256) *)
  p_balance : N;             (* opts.State.GetBalance(call.From)(uint256) *)
  p_value : option N;        (* call.Value                      (uint256) *)
  p_nblobs : N;              (* len(call.BlobHashes)            (uint64) *)
  p_blob_fee_cap : N;        (* call.BlobGasFeeCap (non-nil whenever p_nblobs > 0:
                                CallDefaults guarantees it; a nil cap with blobs
                                is a nil dereference in Go and is outside the model) *)
  p_gas_cap : N;             (* gasCap argument                 (uint64) *)
  p_data_len : N;            (* len(call.Data) *)
  p_to_nil : bool;           (* call.To == nil *)
  p_code_size : N            (* opts.State.GetCodeSize of the destination (0 when To == nil) *)
}.

(* outcome of Estimate *)
Inductive est_result :=
| EstOk (r : N)                 (* (r, nil, nil) *)
| EstErrFundsTransfer           (* core.ErrInsufficientFundsForTransfer (l.88) *)
| EstErrFunds                   (* core.ErrInsufficientFunds            (l.98) *)
| EstErrBail (cls : N)          (* err of execute returned as is *)
| EstErrVm (cls : N)            (* result.Err (revert ...) of the probe at hi *)
| EstErrAllowance (hi : N)      (* "gas required exceeds allowance (hi)" *)
| EstOutOfFuel.                 (* model artefact; proved unreachable under the guards *)

(* gasestimator.go:73-80 *)
Definition fee_cap (p : params) : N :=
  match p_gas_fee_cap p with
  | Some f => f
  | None => match p_gas_price p with Some g => g | None => 0 end
  end.

(* gasestimator.go:93-96; uint256 Mul wraps *)
Definition blob_usage (p : params) : N :=
  (((p_nblobs p * BlobTxBlobGasPerBlob) mod W256) * p_blob_fee_cap p) mod W256.

(* gasestimator.go:60-70 *)
Definition hi_limits (p : params) : N :=
  let hi := p_header_gas p in
  let hi := if TxGas <=? p_call_gas p then p_call_gas p else hi in
  if (MaxTxGas <? hi) && p_is_osaka p && negb (p_is_amsterdam p) then MaxTxGas else hi.

(* gasestimator.go:82-114: Some (inl err) | Some (inr available) ; the funds left
   for gas after value and blob cost, None when feeCap = 0 (no funds cap) *)
Definition available_funds (p : params) : option (est_result + N) :=
  if fee_cap p =? 0 then None else
  let available := p_balance p in
  match (match p_value p with
         | Some v => if available <=? v then inl EstErrFundsTransfer else inr (available - v)
         | None => inr available
         end) with
  | inl e => Some (inl e)
  | inr available =>
      if p_is_cancun p && (0 <? p_nblobs p) then
        if available <=? blob_usage p then Some (inl EstErrFunds)
        else Some (inr (available - blob_usage p))
      else Some (inr available)
  end.

(* gasestimator.go:60-119: the initial hi *)
Definition initial_hi (p : params) : est_result + N :=
  let hi := hi_limits p in
  match (match available_funds p with
         | None => inr hi
         | Some (inl e) => inl e
         | Some (inr available) =>
             let allowance := available / fee_cap p in
             (* allowance.IsUint64() && hi > allowance.Uint64() *)
             if (allowance <? W64) && (allowance <? hi) then inr allowance else inr hi
         end) with
  | inl e => inl e
  | inr hi =>
      if negb (p_gas_cap p =? 0) && (p_gas_cap p <? hi) then inr (p_gas_cap p) else inr hi
  end.

(* a plain value transfer: no data, a destination, no code there (l.125-126) *)
Definition plain_transfer (p : params) : bool :=
  (p_data_len p =? 0) && negb (p_to_nil p) && (p_code_size p =? 0).

(* Two former behaviours of the shortcut, kept as flags for documentation only; the
   current code is [current] (both false):
   - before 10bd791e6e the shortcut did not compare params.TxGas with hi;
   - before 2d92053e8d it was also taken under Amsterdam rules. *)
Record legacy := { lg_ignore_hi : bool; lg_after_amsterdam : bool }.
Definition current : legacy := {| lg_ignore_hi := false; lg_after_amsterdam := false |}.

(* gasestimator.go:125-126:
   len(call.Data) == 0 && hi >= params.TxGas && !isAmsterdam, then
   call.To != nil && GetCodeSize(To) == 0 *)
Definition shortcut_applies (lg : legacy) (p : params) (hi : N) : bool :=
  (p_data_len p =? 0) && (lg_ignore_hi lg || (TxGas <=? hi))
  && (lg_after_amsterdam lg || negb (p_is_amsterdam p))
  && (negb (p_to_nil p) && (p_code_size p =? 0)).

(* ---- IEEE-754 binary64, as much as l.177 needs ------------------------------
   A positive double is represented exactly as a fraction (num, den), den a power
   of two.  [rnd53 n d] rounds the positive rational n/d to the nearest double,
   ties to even (no overflow/subnormals can occur for the magnitudes involved:
   2^-64 < n/d < 2^128). *)
Definition rnd53 (n d : N) : N * N :=
  if (n =? 0) || (d =? 0) then (0, 1) else
  let s := 128 in
  let q := (n * 2 ^ s) / d in
  let rem := (n * 2 ^ s) mod d in
  let drop := N.log2 q - 52 in
  let m := q / 2 ^ drop in
  let rest := q mod 2 ^ drop in
  let half := 2 ^ (drop - 1) in
  let up := (half <? rest) || ((rest =? half) && (negb (rem =? 0) || N.odd m)) in
  let m := if (0 <? drop) && up then m + 1 else m in
  (m * 2 ^ drop, 2 ^ s).

(* gasestimator.go:172-179: opts.ErrorRatio > 0 && float64(hi-lo)/float64(hi) < opts.ErrorRatio
   with ErrorRatio the double rnum / 2^rk *)
Definition er_exit_float (rnum rk : N) (hi lo : N) : bool :=
  if rnum =? 0 then false else
  let '(an, ad) := rnd53 ((hi + W64 - lo) mod W64) 1 in
  let '(bn, bd) := rnd53 hi 1 in
  let '(qn, qd) := rnd53 (an * bd) (ad * bn) in
  if bn =? 0 then false else
  qn * 2 ^ rk <? rnum * qd.

(* ---- Estimate ---------------------------------------------------------------- *)

(* gasestimator.go:181-187: the bisection point with its low-side clamp; uint64 wrap kept *)
Definition mid_of (lo hi : N) : N :=
  let mid := (lo + ((hi + W64 - lo) mod W64) / 2) mod W64 in
  if (lo * 2) mod W64 <? mid then (lo * 2) mod W64 else mid.

(* gasestimator.go:150 *)
Definition lo_of_used (used : N) : N := (used + W64 - 1) mod W64.
(* gasestimator.go:155 *)
Definition optimistic_limit (maxUsed : N) : N :=
  ((((maxUsed + CallStipend) mod W64) * 64) mod W64) / 63.

(* "the call succeeds with gas limit g" *)
Definition succeeds (exec : N -> exec_result) (g : N) : bool :=
  match exec g with ExOk _ _ => true | _ => false end.

Section Estimate.
  Variable exec : N -> exec_result.      (* execute(ctx, call, opts, gas) *)
  Variable er_exit : N -> N -> bool.     (* hi lo: the error-ratio early exit of l.172-179 *)

  (* number of iterations that always suffices under the guards (EstimatorProofs.v) *)
  Definition search_fuel : nat := 130.

  (* gasestimator.go:171-201; [tr] accumulates the probed gas limits, newest first *)
  Fixpoint search (fuel : nat) (lo hi : N) (tr : list N) : est_result * list N :=
    if (lo + 1) mod W64 <? hi then
      match fuel with
      | O => (EstOutOfFuel, tr)
      | S f =>
          if er_exit hi lo then (EstOk hi, tr) else
          let mid := mid_of lo hi in
          match exec mid with
          | ExBail c => (EstErrBail c, mid :: tr)
          | ExOk _ _ => search f lo mid (mid :: tr)
          | _ => search f mid hi (mid :: tr)
          end
      end
    else (EstOk hi, tr).

  (* gasestimator.go:133-201, from the first probe on *)
  Definition estimate_from (fuel : nat) (hi : N) (tr : list N) : est_result * list N :=
    match exec hi with
    | ExBail c => (EstErrBail c, hi :: tr)
    | ExFailNil => (EstErrAllowance hi, hi :: tr)
    | ExFail VmOOG => (EstErrAllowance hi, hi :: tr)
    | ExFail (VmOther c) => (EstErrVm c, hi :: tr)
    | ExFail VmNone => (EstErrAllowance hi, hi :: tr)   (* not produced by execute *)
    | ExOk used maxUsed =>
        let tr := hi :: tr in
        let lo := lo_of_used used in                  (* l.150 *)
        let opt := optimistic_limit maxUsed in        (* l.155 *)
        if opt <? hi then
          match exec opt with
          | ExBail c => (EstErrBail c, opt :: tr)
          | ExOk _ _ => search fuel lo opt (opt :: tr)
          | _ => search fuel opt hi (opt :: tr)
          end
        else search fuel lo hi tr
    end.

  (* gasestimator.go:53-202 Estimate *)
  Definition estimate_fuel (lg : legacy) (fuel : nat) (p : params) : est_result * list N :=
    match initial_hi p with
    | inl e => (e, [])
    | inr hi =>
        if shortcut_applies lg p hi then
          match exec TxGas with
          | ExOk _ _ => (EstOk TxGas, [TxGas])
          | _ => estimate_from fuel hi [TxGas]
          end
        else estimate_from fuel hi []
    end.

  (* the current code *)
  Definition estimate (p : params) : est_result * list N := estimate_fuel current search_fuel p.
End Estimate.

(* the oracle given as data: a finite table of recorded answers; a gas limit not
   in the table bails out with the reserved class 255 (never an implementation class) *)
Fixpoint table_run (t : list (N * run_result)) (g : N) : run_result :=
  match t with
  | [] => RunErrOther 255
  | (k, v) :: r => if k =? g then v else table_run r g
  end.
