(* Gas/BudgetMachine.v — histories of budget operations (model side, NO proofs).

   Every arithmetic step is a call of a definition of Gas/Budget_gen.v, which
   tools/go2coq regenerates from /repo/core/vm/gascosts.go on every run; this
   file only sequences those calls the way the EVM does (core/vm/evm.go,
   core/state_transition.go): a call frame is entered with
   [child := parent.Forward(e)], runs on [child], and is left with
   [parent.Absorb(child.Exit(err))].  Arbitrarily nested call trees are flat
   op lists over a stack of suspended parents.

   Hand-written here (three lines, not translated because it is a [switch] on an
   error value): [exit_of], the dispatch of GasBudget.Exit (gascosts.go:258);
   the correspondence harness runs the real Exit(err) against it. *)
From Coq Require Import ZArith List Bool.
From GV Require Import Gas.GoArith Gas.Budget_gen.
Import ListNotations.
Local Open Scope Z_scope.

Inductive exit_kind := XSuccess | XRevert | XHalt.

(* Go: func (g GasBudget) Exit(err error) GasBudget — gascosts.go:258 *)
Definition exit_of (x : exit_kind) (g : GasBudget) : GasBudget :=
  match x with
  | XSuccess => GasBudget_ExitSuccess g
  | XRevert => GasBudget_ExitRevert g
  | XHalt => GasBudget_ExitHalt g
  end.

Inductive op :=
| OCharge (e s : Z)          (* g.Charge(GasCosts{e, s}) *)
| OChargeExecOnly (r : Z)    (* g.ChargeExecutionOnly(r) *)
| OChargeExecution (r : Z)   (* g.ChargeExecution(r) *)
| OChargeState (s : Z)       (* g.ChargeState(s) *)
| ORefund (s : Z)            (* g.RefundState(s) *)
| ODrain                     (* g.DrainExecution() *)
| OForward (e : Z)           (* child := g.Forward(e); the frame runs on child *)
| OForwardAll                (* child := g.ForwardAll() *)
| OReturn (x : exit_kind)    (* parent.Absorb(child.Exit(x)); back in the parent *)
| OExitSelf (x : exit_kind). (* g = g.Exit(x)   (state_transition.go: top frame halts) *)

(* the running frame, and the suspended callers (innermost first) each with the
   execution gas it forwarded *)
Record mstate := mkM { cur : GasBudget; stack : list (GasBudget * Z) }.

Definition minit (e s : Z) : mstate := mkM (NewGasBudget e s) [].

Definition mstep (st : mstate) (o : op) : mstate :=
  let g := cur st in
  match o with
  | OCharge e s => let '(g', _, _) := GasBudget_Charge g (mkGasCosts e s) in mkM g' (stack st)
  | OChargeExecOnly r => let '(g', _) := GasBudget_ChargeExecutionOnly g r in mkM g' (stack st)
  | OChargeExecution r => let '(g', _, _) := GasBudget_ChargeExecution g r in mkM g' (stack st)
  | OChargeState s => let '(g', _, _) := GasBudget_ChargeState g s in mkM g' (stack st)
  | ORefund s => mkM (GasBudget_RefundState g s) (stack st)
  | ODrain => mkM (GasBudget_DrainExecution g) (stack st)
  | OForward e =>
      let '(g', child) := GasBudget_Forward g e in
      mkM child ((g', GasBudget_ExecutionGas child) :: stack st)
  | OForwardAll =>
      let '(g', child) := GasBudget_ForwardAll g in
      mkM child ((g', GasBudget_ExecutionGas child) :: stack st)
  | OReturn x =>
      match stack st with
      | [] => st
      | (p, _) :: ps => mkM (GasBudget_Absorb p (exit_of x g)) ps
      end
  | OExitSelf x => mkM (exit_of x g) (stack st)
  end.

Definition mrun (st : mstate) (ops : list op) : mstate := fold_left mstep ops st.

(* ---- the guards under which the real callers invoke the operations ---- *)

(* net state gas charged so far by the whole transaction: the running frame
   plus every suspended caller (absorbed children are already included) *)
Definition outstanding (st : mstate) : Z :=
  GasBudget_UsedStateGas (cur st)
  + fold_right (fun pf acc => GasBudget_UsedStateGas (fst pf) + acc) 0 (stack st).

Definition guard (st : mstate) (o : op) : bool :=
  match o with
  | OCharge e s => is_u64 e && is_u64 s
  | OChargeExecOnly r => is_u64 r
  | OChargeExecution r => is_u64 r
  | OChargeState s => is_u64 s
  (* a state-gas refund gives back a charge made earlier in the same transaction *)
  | ORefund s => (0 <=? s) && (s <=? outstanding st)
  | ODrain => true
  (* callGas never exceeds the gas available (EIP-150) *)
  | OForward e => (0 <=? e) && (e <=? GasBudget_ExecutionGas (cur st))
  | OForwardAll => true
  | OReturn _ => match stack st with [] => false | _ => true end
  | OExitSelf _ => true
  end.

(* guarded run: None as soon as an operation is applied outside its guard *)
Fixpoint grun (st : mstate) (ops : list op) : option mstate :=
  match ops with
  | [] => Some st
  | o :: r => if guard st o then grun (mstep st o) r else None
  end.

(* ---- totals over the chain of active frames ---- *)

Definition sumZ {A} (f : A -> Z) (l : list A) : Z := fold_right (fun a acc => f a + acc) 0 l.

(* gas still available to the transaction *)
Definition remaining (st : mstate) : Z :=
  GasBudget_ExecutionGas (cur st) + GasBudget_StateGas (cur st)
  + sumZ (fun pf => GasBudget_ExecutionGas (fst pf) + GasBudget_StateGas (fst pf)) (stack st).

(* gas consumed: a suspended caller's UsedExecutionGas includes what it forwarded *)
Definition used (st : mstate) : Z :=
  GasBudget_UsedExecutionGas (cur st) + GasBudget_UsedStateGas (cur st)
  + sumZ (fun pf => GasBudget_UsedExecutionGas (fst pf) - snd pf + GasBudget_UsedStateGas (fst pf)) (stack st).

(* execution dimension: gas_left + spilled + consumed *)
Definition exec_total (st : mstate) : Z :=
  GasBudget_ExecutionGas (cur st) + GasBudget_Spilled (cur st) + GasBudget_UsedExecutionGas (cur st)
  + sumZ (fun pf => GasBudget_ExecutionGas (fst pf) + GasBudget_Spilled (fst pf)
                    + GasBudget_UsedExecutionGas (fst pf) - snd pf) (stack st).

(* state dimension: reservoir + net state gas consumed - spilled *)
Definition state_total (st : mstate) : Z :=
  GasBudget_StateGas (cur st) + GasBudget_UsedStateGas (cur st) - GasBudget_Spilled (cur st)
  + sumZ (fun pf => GasBudget_StateGas (fst pf) + GasBudget_UsedStateGas (fst pf)
                    - GasBudget_Spilled (fst pf)) (stack st).

(* ---- observations compared with the implementation after every op ---- *)

Definition zb (b : bool) : Z := if b then 1 else 0.
Definition fields (g : GasBudget) : list Z :=
  [ GasBudget_ExecutionGas g; GasBudget_StateGas g; GasBudget_UsedExecutionGas g;
    GasBudget_UsedStateGas g; GasBudget_Spilled g ].

(* return values of the op applied in [st] *)
Definition mret (st : mstate) (o : op) : list Z :=
  let g := cur st in
  match o with
  | OCharge e s =>
      let '(_, prior, ok) := GasBudget_Charge g (mkGasCosts e s) in
      zb ok :: zb (GasBudget_CanAfford g (mkGasCosts e s)) :: GasCosts_Sum (mkGasCosts e s) :: fields prior
  | OChargeExecOnly r => let '(_, ok) := GasBudget_ChargeExecutionOnly g r in [zb ok]
  | OChargeExecution r => let '(_, prior, ok) := GasBudget_ChargeExecution g r in zb ok :: fields prior
  | OChargeState s => let '(_, prior, ok) := GasBudget_ChargeState g s in zb ok :: fields prior
  | OForward e => let '(g', _) := GasBudget_Forward g e in fields g'
  | OForwardAll => let '(g', _) := GasBudget_ForwardAll g in fields g'
  | OReturn x => match stack st with [] => [] | _ => fields (exit_of x g) end
  | _ => []
  end.

(* what is observed after the op: the running budget, the call depth, IsZero,
   Used(relative to [init]), and the op's return values *)
Definition mobs (init : GasBudget) (st : mstate) (o : op) : list Z :=
  let st' := mstep st o in
  fields (cur st') ++ [Z.of_nat (length (stack st'))]
  ++ [zb (snd (GasBudget_IsZero (cur st'))); GasBudget_Used (cur st') init]
  ++ mret st o.
