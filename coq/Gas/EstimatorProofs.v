(* Gas/EstimatorProofs.v — lemmas about the model Gas/Estimator.v of
   eth/gasestimator/gasestimator.go. *)
From GV Require Import Lib.Tactics Gas.Estimator.
Local Open Scope N_scope.

Lemma W64_val : W64 = 18446744073709551616.
Proof. reflexivity. Qed.

Ltac unf64 := unfold mid_of, lo_of_used, optimistic_limit, CallStipend, TxGas, MaxTxGas in *;
              rewrite ?W64_val in *.

(* ---- arithmetic of the bisection point ------------------------------------- *)

Lemma mid_lt_W64 lo hi : mid_of lo hi < W64.
Proof.
  unfold mid_of. destruct (_ <? _); apply N.mod_lt; rewrite W64_val; discriminate.
Qed.

(* whenever the loop condition holds, the probed point is strictly below hi *)
Lemma mid_lt_hi lo hi :
  lo < W64 -> hi < W64 -> (lo + 1) mod W64 < hi -> mid_of lo hi < hi.
Proof.
  intros Hlo Hhi Hc. unf64.
  destruct (_ <? _) eqn:E; lia.
Qed.

(* without wrap-around (hi < 2^63) the bisection point is the textbook one *)
Lemma mid_cases lo hi :
  lo + 1 < hi -> hi < 2 ^ 63 ->
  (mid_of lo hi = lo + (hi - lo) / 2 /\ lo + (hi - lo) / 2 <= 2 * lo) \/
  (mid_of lo hi = 2 * lo /\ 2 * lo < lo + (hi - lo) / 2).
Proof.
  intros H1 H2. change (2 ^ 63) with 9223372036854775808 in H2. unf64.
  destruct (_ <? _) eqn:E; lia.
Qed.

(* ---- powers of two with nat exponents (the termination measure) -------------- *)
Definition p2 (k : nat) : N := 2 ^ N.of_nat k.
Lemma p2_0 : p2 0 = 1. Proof. reflexivity. Qed.
Lemma p2_S k : p2 (S k) = 2 * p2 k.
Proof. unfold p2. rewrite Nat2N.inj_succ, N.pow_succ_r'. reflexivity. Qed.
Lemma p2_pos k : 1 <= p2 k.
Proof. induction k; [rewrite p2_0|rewrite p2_S]; lia. Qed.
Lemma p2_63 : p2 63 = 9223372036854775808. Proof. reflexivity. Qed.

(* the only errors raised before the first probe *)
Lemma initial_hi_err p e :
  initial_hi p = inl e -> e = EstErrFundsTransfer \/ e = EstErrFunds.
Proof.
  unfold initial_hi, available_funds.
  destruct (fee_cap p =? 0).
  { destruct (_ && _); discriminate. }
  destruct (p_value p).
  { destruct (_ <=? _). { intros H; injection H as <-; auto. }
    destruct (_ && _). { destruct (_ <=? _). { intros H; injection H as <-; auto. }
      destruct (_ && _); destruct (_ && _); discriminate. }
    destruct (_ && _); destruct (_ && _); discriminate. }
  destruct (_ && _). { destruct (_ <=? _). { intros H; injection H as <-; auto. }
      destruct (_ && _); destruct (_ && _); discriminate. }
  destruct (_ && _); destruct (_ && _); discriminate.
Qed.

(* ---- the caps ------------------------------------------------------------------- *)
Definition wf_params (p : params) : Prop :=
  p_header_gas p < W64 /\ p_call_gas p < W64 /\ p_gas_cap p < W64.

(* what the sender must hold for gas limit g: g*feeCap + value + blob cost (as the
   estimator computes the latter, i.e. modulo 2^256) *)
Definition funds_needed (p : params) (g : N) : N :=
  g * fee_cap p
  + match p_value p with Some v => v | None => 0 end
  + (if p_is_cancun p && (0 <? p_nblobs p) then blob_usage p else 0).

Lemma hi_limits_lt p : wf_params p -> hi_limits p < W64.
Proof.
  intros (H1 & H2 & H3). unfold hi_limits.
  destruct (_ <=? _); destruct (_ && _); try (rewrite W64_val; unfold MaxTxGas; lia); auto.
Qed.

Lemma initial_hi_caps p hi :
  wf_params p -> initial_hi p = inr hi ->
  hi < W64 /\
  (p_gas_cap p <> 0 -> hi <= p_gas_cap p) /\
  (p_is_osaka p = true -> p_is_amsterdam p = false -> hi <= MaxTxGas) /\
  (fee_cap p <> 0 -> funds_needed p hi <= p_balance p) /\
  hi <= N.max (p_header_gas p) (p_call_gas p).
Proof.
  intros Hwf H. pose proof (hi_limits_lt p Hwf) as Hl.
  destruct Hwf as (W1 & W2 & W3).
  assert (Hosaka : p_is_osaka p = true -> p_is_amsterdam p = false -> hi_limits p <= MaxTxGas).
  { intros A B. unfold hi_limits. rewrite A, B. cbn [negb]. rewrite !Bool.andb_true_r.
    destruct (TxGas <=? p_call_gas p); destruct (MaxTxGas <? _) eqn:C; lia. }
  assert (Hmax : hi_limits p <= N.max (p_header_gas p) (p_call_gas p)).
  { unfold hi_limits. destruct (TxGas <=? p_call_gas p); destruct (_ && _) eqn:C; lia. }
  unfold initial_hi in H.
  (* first the funds cap *)
  assert (exists h1, (match available_funds p with
            | None => inr (hi_limits p)
            | Some (inl e) => inl e
            | Some (inr available) =>
                if (available / fee_cap p <? W64) && (available / fee_cap p <? hi_limits p)
                then inr (available / fee_cap p) else inr (hi_limits p)
            end) = (inr h1 : est_result + N) /\ h1 <= hi_limits p /\
            (fee_cap p <> 0 -> funds_needed p h1 <= p_balance p)) as (h1 & E1 & Hh1 & Hf1).
  { destruct (available_funds p) as [[e|av]|] eqn:EA.
    - cbv beta iota in H. discriminate.
    - assert (Hav : fee_cap p <> 0 /\ funds_needed p 0 + av <= p_balance p).
      { unfold available_funds in EA. unfold funds_needed.
        destruct (fee_cap p =? 0) eqn:F; [discriminate|]. split; [lia|].
        destruct (p_value p) as [v|].
        - destruct (_ <=? v) eqn:V; [discriminate|].
          destruct (_ && _).
          + destruct (_ <=? blob_usage p) eqn:B; [discriminate|]. injection EA as <-. lia.
          + injection EA as <-. lia.
        - destruct (_ && _).
          + destruct (_ <=? blob_usage p) eqn:B; [discriminate|]. injection EA as <-. lia.
          + injection EA as <-. lia. }
      destruct Hav as (Hfc & Hav).
      assert (Hdiv : (av / fee_cap p) * fee_cap p <= av).
      { rewrite N.mul_comm. apply N.mul_div_le. exact Hfc. }
      destruct (_ && _) eqn:C.
      + eexists; split; [reflexivity|]. split; [lia|]. intros _.
        unfold funds_needed in *. lia.
      + eexists; split; [reflexivity|]. split; [lia|]. intros _.
        assert (hi_limits p <= av / fee_cap p) by (rewrite W64_val in *; lia).
        assert (hi_limits p * fee_cap p <= (av / fee_cap p) * fee_cap p)
          by (apply N.mul_le_mono_r; auto).
        unfold funds_needed in *. lia.
    - eexists; split; [reflexivity|]. split; [lia|].
      unfold available_funds in EA. destruct (fee_cap p =? 0) eqn:F; [lia|].
      exfalso. destruct (p_value p); [destruct (_ <=? _)|]; try discriminate;
        destruct (_ && _); try discriminate; destruct (_ <=? blob_usage p); discriminate. }
  rewrite E1 in H.
  assert (Hmono : forall a b, a <= b -> funds_needed p a <= funds_needed p b).
  { intros a b Hab. unfold funds_needed.
    assert (a * fee_cap p <= b * fee_cap p) by (apply N.mul_le_mono_r; auto). lia. }
  destruct (_ && _) eqn:C; injection H as <-.
  - repeat split; try lia.
    intros Hf. specialize (Hf1 Hf). specialize (Hmono (p_gas_cap p) h1). lia.
  - repeat split; try lia; auto.
Qed.


Section Proofs.
  Variable exec : N -> exec_result.
  Variable er_exit : N -> N -> bool.

  Notation ok := (succeeds exec).
  Notation search := (search exec er_exit).

  Lemma ok_of_exec g u m : exec g = ExOk u m -> ok g = true.
  Proof. unfold succeeds. intros ->. reflexivity. Qed.

  (* ---- sufficiency: hi only ever moves to a probed success ---------------------- *)
  Lemma search_succeeds : forall fuel lo hi tr r,
    ok hi = true -> fst (search fuel lo hi tr) = EstOk r -> ok r = true.
  Proof.
    induction fuel as [|f IH]; intros lo hi tr r Hhi H; cbn [Estimator.search] in H.
    - destruct (_ <? hi); cbn [fst] in H; [discriminate | injection H as <-; exact Hhi].
    - destruct (_ <? hi); [| cbn [fst] in H; injection H as <-; exact Hhi].
      destruct (er_exit hi lo); [cbn [fst] in H; injection H as <-; exact Hhi|].
      destruct (exec (mid_of lo hi)) eqn:E; cbn [fst] in H; try discriminate;
        try (eapply IH; [|exact H]; first [exact Hhi | eapply ok_of_exec; exact E]).
  Qed.

  (* ---- the result never exceeds the hi the search started from ------------------- *)
  Lemma search_le : forall fuel lo hi tr r,
    lo < W64 -> hi < W64 -> fst (search fuel lo hi tr) = EstOk r -> r <= hi.
  Proof.
    induction fuel as [|f IH]; intros lo hi tr r Hlo Hhi H; cbn [Estimator.search] in H.
    - destruct (_ <? hi); cbn [fst] in H; [discriminate | injection H as <-; lia].
    - destruct (_ <? hi) eqn:C; [| cbn [fst] in H; injection H as <-; lia].
      destruct (er_exit hi lo); [cbn [fst] in H; injection H as <-; lia|].
      assert (Hm : mid_of lo hi < hi) by (apply mid_lt_hi; auto; lia).
      pose proof (mid_lt_W64 lo hi) as Hw.
      destruct (exec (mid_of lo hi)) eqn:E; cbn [fst] in H; try discriminate;
        apply IH in H; auto; lia.
  Qed.

  (* ---- shape: the search only ever answers ok / bail / out of fuel ----------------- *)
  Lemma search_shape : forall fuel lo hi tr,
    (forall g c, exec g <> ExBail c) ->
    (exists r, fst (search fuel lo hi tr) = EstOk r) \/ fst (search fuel lo hi tr) = EstOutOfFuel.
  Proof.
    induction fuel as [|f IH]; intros lo hi tr Hnb; cbn [Estimator.search].
    - destruct (_ <? hi); cbn [fst]; eauto.
    - destruct (_ <? hi); [| cbn [fst]; eauto].
      destruct (er_exit hi lo); [cbn [fst]; eauto|].
      destruct (exec (mid_of lo hi)) eqn:E; cbn [fst]; auto.
      exfalso. eapply Hnb; exact E.
  Qed.

  (* ---- termination: a logarithmic number of probes suffices when hi < 2^63 --------- *)
  Lemma search_terminates : forall fuel k j lo hi tr,
    1 <= lo -> lo + 1 < W64 -> hi < 2 ^ 63 ->
    hi - lo <= p2 k -> 2 ^ 63 <= lo * p2 j -> (k + j < fuel)%nat ->
    fst (search fuel lo hi tr) <> EstOutOfFuel.
  Proof.
    induction fuel as [|f IH]; intros k j lo hi tr H1 Hlw Hhi Hk Hj Hf; [lia|].
    cbn [Estimator.search].
    destruct (_ <? hi) eqn:C; [| cbn [fst]; discriminate].
    destruct (er_exit hi lo); [cbn [fst]; discriminate|].
    assert (C' : lo + 1 < hi).
    { rewrite W64_val in *. apply N.ltb_lt in C. rewrite N.mod_small in C; lia. }
    clear C.
    change (2 ^ 63) with 9223372036854775808 in *. rewrite W64_val in Hlw.
    (* k >= 1 and j >= 1 *)
    destruct k as [|k]; [rewrite p2_0 in Hk; lia|].
    destruct j as [|j]; [rewrite p2_0 in Hj; lia|].
    rewrite p2_S in Hk, Hj.
    pose proof (p2_pos k) as Pk. pose proof (p2_pos j) as Pj.
    assert (Hmc := mid_cases lo hi C').
    change (2 ^ 63) with 9223372036854775808 in Hmc. specialize (Hmc Hhi).
    destruct Hmc as [[Em Hle] | [Em Hlt]]; rewrite Em.
    - (* plain bisection: the interval halves either way *)
      assert (Hmono : lo * p2 (S j) <= (lo + (hi - lo) / 2) * p2 (S j))
        by (apply N.mul_le_mono_r; lia).
      rewrite p2_S in Hmono.
      destruct (exec _) eqn:E; cbn [fst]; try discriminate.
      + apply (IH k (S j)); rewrite ?W64_val, ?p2_S; try lia.
      + apply (IH k (S j)); rewrite ?W64_val, ?p2_S; try lia.
      + apply (IH k (S j)); rewrite ?W64_val, ?p2_S; try lia.
    - (* clamped probe at 2*lo: success halves the interval, failure doubles lo *)
      destruct (exec _) eqn:E; cbn [fst]; try discriminate.
      + apply (IH (S k) j); rewrite ?W64_val, ?p2_S; try lia.
      + apply (IH (S k) j); rewrite ?W64_val, ?p2_S; try lia.
      + apply (IH k (S j)); rewrite ?W64_val, ?p2_S; try lia.
  Qed.

  Lemma search_terminates_130 lo hi tr :
    1 <= lo -> lo + 1 < W64 -> hi < 2 ^ 63 ->
    fst (search search_fuel lo hi tr) <> EstOutOfFuel.
  Proof.
    intros H1 H2 H3. apply (search_terminates search_fuel 63 63); auto.
    - rewrite p2_63. change (2 ^ 63) with 9223372036854775808 in H3. lia.
    - rewrite p2_63. change (2 ^ 63) with 9223372036854775808. lia.
    - unfold search_fuel. lia.
  Qed.

  (* ---- minimality: with no early exit and a monotone oracle, everything at or
          below lo fails, so the answer is the least success ----------------------- *)
  Definition monotone : Prop := forall g g', g <= g' -> ok g = true -> ok g' = true.

  Lemma search_minimal : forall fuel lo hi tr r,
    (forall h l, er_exit h l = false) -> monotone ->
    hi < W64 -> ok hi = true -> (forall g, g <= lo -> ok g = false) ->
    fst (search fuel lo hi tr) = EstOk r ->
    forall g, g < r -> ok g = false.
  Proof.
    induction fuel as [|f IH]; intros lo hi tr r Her Hmono Hhi Hok Hlo H;
      assert (Hlt : lo < hi) by
        (destruct (N.lt_ge_cases lo hi) as [|Hge]; auto; rewrite (Hlo hi Hge) in Hok; discriminate);
      cbn [Estimator.search] in H.
    - destruct (_ <? hi) eqn:C; cbn [fst] in H; [discriminate|].
      injection H as <-. intros g Hg. apply Hlo.
      apply N.ltb_ge in C. rewrite W64_val in *. rewrite N.mod_small in C; lia.
    - destruct (_ <? hi) eqn:C.
      2:{ cbn [fst] in H. injection H as <-. intros g Hg. apply Hlo.
          apply N.ltb_ge in C. rewrite W64_val in *. rewrite N.mod_small in C; lia. }
      rewrite Her in H.
      apply N.ltb_lt in C.
      assert (Hm : mid_of lo hi < hi) by (apply mid_lt_hi; auto; lia).
      assert (Hfail : ok (mid_of lo hi) = false -> forall g, g <= mid_of lo hi -> ok g = false).
      { intros Hf g Hg. destruct (ok g) eqn:Eg; auto.
        rewrite (Hmono g _ Hg Eg) in Hf. discriminate. }
      destruct (exec (mid_of lo hi)) eqn:E; cbn [fst] in H; try discriminate.
      + eapply (IH (mid_of lo hi) hi _ r Her Hmono Hhi Hok); [|exact H]. apply Hfail. unfold succeeds. rewrite E. reflexivity.
      + eapply (IH (mid_of lo hi) hi _ r Her Hmono Hhi Hok); [|exact H]. apply Hfail. unfold succeeds. rewrite E. reflexivity.
      + eapply (IH lo (mid_of lo hi) _ r Her Hmono); [| |exact Hlo|exact H].
        * pose proof (mid_lt_W64 lo hi). lia.
        * eapply ok_of_exec; exact E.
  Qed.

  (* ================= Estimate as a whole ========================================= *)
  Notation estimate_fuel := (estimate_fuel exec er_exit).
  Notation estimate_from := (estimate_from exec er_exit).

  Lemma estimate_from_succeeds fuel hi tr r :
    fst (estimate_from fuel hi tr) = EstOk r -> ok r = true.
  Proof.
    unfold Estimator.estimate_from. intros H.
    destruct (exec hi) as [c| |e|u m] eqn:E; cbn [fst] in H; try discriminate.
    - destruct e; discriminate.
    - assert (Hhi : ok hi = true) by (eapply ok_of_exec; exact E).
      destruct (_ <? hi).
      + destruct (exec (optimistic_limit m)) eqn:E2; cbn [fst] in H; try discriminate;
          eapply search_succeeds; try exact H; auto.
        eapply ok_of_exec; exact E2.
      + eapply search_succeeds; try exact H; auto.
  Qed.

  (* Sufficiency, unconditionally: whatever Estimate returns without error succeeds. *)
  Theorem estimate_succeeds lg fuel p r :
    fst (estimate_fuel lg fuel p) = EstOk r -> ok r = true.
  Proof.
    unfold Estimator.estimate_fuel. intros H.
    destruct (initial_hi p) as [e|hi] eqn:Hi; [cbn [fst] in H; subst e|].
    - destruct (initial_hi_err _ _ Hi); discriminate.
    - destruct (shortcut_applies lg p hi).
      + destruct (exec TxGas) eqn:E; try (eapply estimate_from_succeeds; exact H).
        cbn [fst] in H. injection H as <-. eapply ok_of_exec; exact E.
      + eapply estimate_from_succeeds; exact H.
  Qed.

  Lemma estimate_from_le fuel hi tr r :
    hi < W64 -> fst (estimate_from fuel hi tr) = EstOk r -> r <= hi.
  Proof.
    unfold Estimator.estimate_from. intros Hhi H.
    destruct (exec hi) as [c| |e|u m] eqn:E; cbn [fst] in H; try discriminate.
    - destruct e; discriminate.
    - assert (Hl : lo_of_used u < W64) by (unfold lo_of_used; apply N.mod_lt; rewrite W64_val; discriminate).
      destruct (_ <? hi) eqn:C.
      + apply N.ltb_lt in C.
        destruct (exec (optimistic_limit m)) eqn:E2; cbn [fst] in H; try discriminate;
          apply search_le in H; auto; lia.
      + apply search_le in H; auto.
  Qed.

  (* The shortcut only fires when params.TxGas <= hi (unless the legacy flag is set) *)
  Lemma shortcut_le lg p hi :
    lg_ignore_hi lg = false -> shortcut_applies lg p hi = true -> TxGas <= hi.
  Proof.
    unfold shortcut_applies. intros ->. cbn [orb]. intros H.
    destruct (TxGas <=? hi) eqn:C; [lia|].
    rewrite Bool.andb_false_r in H. discriminate.
  Qed.

  Lemma shortcut_not_amsterdam lg p hi :
    lg_after_amsterdam lg = false -> shortcut_applies lg p hi = true -> p_is_amsterdam p = false.
  Proof.
    unfold shortcut_applies. intros ->. cbn [orb]. intros H.
    destruct (p_is_amsterdam p); auto.
    cbn [negb] in H. rewrite Bool.andb_false_r in H. discriminate.
  Qed.

  (* for any setting of the legacy flags: at most hi, or the shortcut's 21000 *)
  Theorem estimate_le_hi_legacy lg fuel p hi r :
    wf_params p -> initial_hi p = inr hi -> fst (estimate_fuel lg fuel p) = EstOk r ->
    r <= hi \/ (shortcut_applies lg p hi = true /\ r = TxGas /\ ok TxGas = true).
  Proof.
    intros Hwf Hi H. destruct (initial_hi_caps p hi Hwf Hi) as (Hlt & _).
    unfold Estimator.estimate_fuel in H. rewrite Hi in H.
    destruct (shortcut_applies lg p hi).
    - destruct (exec TxGas) eqn:E; try solve [left; eapply estimate_from_le; [exact Hlt | exact H]].
      right. cbn [fst] in H. injection H as <-. repeat split. eapply ok_of_exec; exact E.
    - left; eapply estimate_from_le; [exact Hlt | exact H].
  Qed.

  (* The result is at most the initial hi (the shortcut compares 21000 with hi). *)
  Theorem estimate_le_hi lg fuel p hi r :
    lg_ignore_hi lg = false ->
    wf_params p -> initial_hi p = inr hi -> fst (estimate_fuel lg fuel p) = EstOk r ->
    r <= hi.
  Proof.
    intros Hlg Hwf Hi H.
    destruct (estimate_le_hi_legacy lg fuel p hi r Hwf Hi H) as [|(Hs & -> & _)]; auto.
    eapply shortcut_le; eauto.
  Qed.

  (* The estimate respects the funds, the gas cap, the Osaka per-transaction cap and the
     requested/header limit. *)
  Theorem estimate_le_caps lg fuel p hi r :
    lg_ignore_hi lg = false ->
    wf_params p -> initial_hi p = inr hi ->
    fst (estimate_fuel lg fuel p) = EstOk r ->
    r <= hi /\
    (p_gas_cap p <> 0 -> r <= p_gas_cap p) /\
    (p_is_osaka p = true -> p_is_amsterdam p = false -> r <= MaxTxGas) /\
    (fee_cap p <> 0 -> funds_needed p r <= p_balance p) /\
    r <= N.max (p_header_gas p) (p_call_gas p).
  Proof.
    intros Hlg Hwf Hi H.
    destruct (initial_hi_caps p hi Hwf Hi) as (Hlt & Hc & Ho & Hf & Hm).
    assert (Hr : r <= hi) by (eapply estimate_le_hi; eauto).
    split; [exact Hr|]. repeat split.
    - intros X. specialize (Hc X). lia.
    - intros X Y. specialize (Ho X Y). lia.
    - intros X. specialize (Hf X). unfold funds_needed in *.
      assert (r * fee_cap p <= hi * fee_cap p) by (apply N.mul_le_mono_r; auto). lia.
    - lia.
  Qed.

  (* ---- minimality ---------------------------------------------------------------- *)
  Lemma lo_of_used_le u : 1 <= u -> lo_of_used u < u.
  Proof. intros H. unf64. lia. Qed.

  Theorem estimate_minimal lg fuel p hi r :
    lg_after_amsterdam lg = false ->
    (forall h l, er_exit h l = false) -> monotone ->
    (p_is_amsterdam p = false -> forall g, g < TxGas -> ok g = false) ->
    wf_params p -> initial_hi p = inr hi ->
    (forall u m, exec hi = ExOk u m -> 1 <= u /\ forall g, g < u -> ok g = false) ->
    fst (estimate_fuel lg fuel p) = EstOk r ->
    forall g, g < r -> ok g = false.
  Proof.
    intros Hlg Her Hmono Hintr Hwf Hi Hused H.
    destruct (initial_hi_caps p hi Hwf Hi) as (Hlt & _).
    assert (Hfrom : forall tr, fst (estimate_from fuel hi tr) = EstOk r -> forall g, g < r -> ok g = false).
    { clear H. intros tr H. unfold Estimator.estimate_from in H.
      destruct (exec hi) as [c| |e|u m] eqn:E; cbn [fst] in H; try discriminate.
      { destruct e; discriminate. }
      destruct (Hused u m eq_refl) as (Hu1 & Hbelow).
      assert (Hlo : forall g, g <= lo_of_used u -> ok g = false).
      { intros g Hg. apply Hbelow. pose proof (lo_of_used_le u Hu1). lia. }
      assert (Hokhi : ok hi = true) by (eapply ok_of_exec; exact E).
      assert (Hfail : forall x, ok x = false -> forall g, g <= x -> ok g = false).
      { intros x Hf g Hg. destruct (ok g) eqn:Eg; auto.
        rewrite (Hmono g _ Hg Eg) in Hf. discriminate. }
      destruct (_ <? hi) eqn:C.
      - apply N.ltb_lt in C.
        destruct (exec (optimistic_limit m)) eqn:E2; cbn [fst] in H; try discriminate.
        + eapply search_minimal; try exact H; eauto. apply Hfail. unfold succeeds. rewrite E2. reflexivity.
        + eapply search_minimal; try exact H; eauto. apply Hfail. unfold succeeds. rewrite E2. reflexivity.
        + eapply search_minimal; try exact H; eauto; [lia | eapply ok_of_exec; exact E2].
      - eapply search_minimal; try exact H; eauto. }
    unfold Estimator.estimate_fuel in H. rewrite Hi in H.
    destruct (shortcut_applies lg p hi) eqn:Hs.
    - destruct (exec TxGas) eqn:E; try (eapply Hfrom; exact H).
      cbn [fst] in H. injection H as <-. apply Hintr.
      eapply shortcut_not_amsterdam; eauto.
    - eapply Hfrom; exact H.
  Qed.

  (* ---- termination and completeness ---------------------------------------------- *)
  (* the guards: no gas limit at or above 2^63 is in play, the first execution used at
     least 2 gas (the real EVM: at least the intrinsic 21000) and its peak usage is far
     from the uint64 range, so that the optimistic limit does not wrap *)
  Definition term_guard (hi : N) : Prop :=
    hi < 2 ^ 63 /\
    forall u m, exec hi = ExOk u m -> 2 <= u /\ u < W64 /\ m + CallStipend < 2 ^ 58.

  Lemma estimate_from_terminates hi tr :
    term_guard hi -> fst (estimate_from search_fuel hi tr) <> EstOutOfFuel.
  Proof.
    intros (Hhi & Hg). unfold Estimator.estimate_from.
    destruct (exec hi) as [c| |e|u m] eqn:E; cbn [fst]; try discriminate.
    { destruct e; discriminate. }
    destruct (Hg u m eq_refl) as (Hu2 & HuW & Hm).
    change (2 ^ 58) with 288230376151711744 in Hm.
    assert (Hlo : 1 <= lo_of_used u /\ lo_of_used u + 1 < W64) by (unf64; lia).
    assert (Hopt : 1 <= optimistic_limit m /\ optimistic_limit m + 1 < W64) by (unf64; lia).
    destruct (_ <? hi) eqn:C.
    - apply N.ltb_lt in C.
      assert (optimistic_limit m < 2 ^ 63) by lia.
      destruct (exec (optimistic_limit m)) eqn:E2; cbn [fst]; try discriminate;
        apply search_terminates_130; tauto.
    - apply search_terminates_130; tauto.
  Qed.

  Theorem estimate_terminates p :
    (forall hi, initial_hi p = inr hi -> term_guard hi) ->
    fst (estimate exec er_exit p) <> EstOutOfFuel.
  Proof.
    intros Hg. unfold estimate, Estimator.estimate_fuel.
    destruct (initial_hi p) as [e|hi] eqn:Hi.
    - cbn [fst]. intros ->. destruct (initial_hi_err _ _ Hi); discriminate.
    - specialize (Hg hi eq_refl).
      destruct (shortcut_applies current p hi).
      + destruct (exec TxGas); try (apply estimate_from_terminates; exact Hg).
        cbn [fst]. discriminate.
      + apply estimate_from_terminates; exact Hg.
  Qed.

  Lemma estimate_from_shape fuel hi tr :
    ok hi = true -> (forall g c, exec g <> ExBail c) ->
    (exists r, fst (estimate_from fuel hi tr) = EstOk r) \/
    fst (estimate_from fuel hi tr) = EstOutOfFuel.
  Proof.
    intros Hok Hnb. unfold Estimator.estimate_from. unfold succeeds in Hok.
    destruct (exec hi) as [c| |e|u m] eqn:E; try discriminate.
    destruct (_ <? hi).
    - destruct (exec (optimistic_limit m)) eqn:E2; try apply search_shape; auto.
      exfalso. eapply Hnb; exact E2.
    - apply search_shape; auto.
  Qed.

  (* The property's first clause: if the call succeeds at the allowance cap (and no
     probe hits a gas-unrelated consensus error), Estimate answers, and its answer succeeds. *)
  Theorem estimate_complete p hi :
    initial_hi p = inr hi -> term_guard hi -> ok hi = true ->
    (forall g c, exec g <> ExBail c) ->
    exists r, fst (estimate exec er_exit p) = EstOk r /\ ok r = true.
  Proof.
    intros Hi Hg Hok Hnb.
    assert (Ht : fst (estimate exec er_exit p) <> EstOutOfFuel).
    { apply estimate_terminates. intros h Hh. rewrite Hi in Hh. injection Hh as <-. exact Hg. }
    assert (exists r, fst (estimate exec er_exit p) = EstOk r) as (r & Hr).
    { unfold estimate, Estimator.estimate_fuel in *. rewrite Hi in *.
      destruct (shortcut_applies current p hi).
      - destruct (exec TxGas) eqn:E; try (destruct (estimate_from_shape search_fuel hi [TxGas] Hok Hnb) as [?|Hc];
          [assumption | contradiction]).
        cbn [fst]. eauto.
      - destruct (estimate_from_shape search_fuel hi [] Hok Hnb) as [?|Hc]; [assumption | contradiction]. }
    exists r. split; [exact Hr|]. eapply estimate_succeeds. exact Hr.
  Qed.
End Proofs.

(* ================= statements that are FALSE of (former versions of) the faithful model == *)

(* (a) FORMER CODE ONLY (before /repo 10bd791e6e; legacy flag lg_ignore_hi): "the estimate never
   exceeds the gas cap" failed through the plain-transfer shortcut, which probed and answered
   params.TxGas without comparing it with hi: gasCap = 10000, a plain transfer that succeeds
   with 21000 gas -> 21000 > gasCap.  For the current code see estimate_le_caps. *)
Definition refute_cap_params : params :=
  {| p_header_gas := 30000000; p_call_gas := 0; p_is_cancun := true; p_is_osaka := true;
     p_is_amsterdam := false; p_gas_fee_cap := Some 0; p_gas_price := Some 0;
     p_balance := 0; p_value := Some 0; p_nblobs := 0; p_blob_fee_cap := 0;
     p_gas_cap := 10000; p_data_len := 0; p_to_nil := false; p_code_size := 0 |}.
Definition refute_cap_exec (g : N) : exec_result :=
  if g <? 21000 then ExFailNil else ExOk 21000 21000.

Lemma legacy_estimate_le_gascap_refuted :
  exists exec p r, wf_params p /\
    fst (estimate_fuel exec (fun _ _ => false)
           {| lg_ignore_hi := true; lg_after_amsterdam := false |} search_fuel p) = EstOk r /\
    p_gas_cap p <> 0 /\ p_gas_cap p < r /\ initial_hi p = inr (p_gas_cap p) /\
    (* the current code answers "gas required exceeds allowance (10000)" on the same input *)
    fst (estimate exec (fun _ _ => false) p) = EstErrAllowance 10000.
Proof.
  exists refute_cap_exec, refute_cap_params, 21000.
  split; [|vm_compute; repeat split; discriminate].
  unfold wf_params; vm_compute; repeat split.
Qed.

(* (a') FORMER CODE ONLY (before /repo 2d92053e8d; legacy flag lg_after_amsterdam): under
   Amsterdam rules (EIP-2780) a plain transfer needs less than 21000 gas, the shortcut
   nevertheless answered 21000: not minimal although the program is monotone and the error
   ratio is 0.  Oracle: succeeds iff gas >= 15000, uses 15000. *)
Definition refute_amst_params : params :=
  {| p_header_gas := 30000000; p_call_gas := 0; p_is_cancun := true; p_is_osaka := true;
     p_is_amsterdam := true; p_gas_fee_cap := Some 0; p_gas_price := Some 0;
     p_balance := 0; p_value := Some 0; p_nblobs := 0; p_blob_fee_cap := 0;
     p_gas_cap := 0; p_data_len := 0; p_to_nil := false; p_code_size := 0 |}.
Definition refute_amst_exec (g : N) : exec_result :=
  if g <? 15000 then ExFailNil else ExOk 15000 15000.

Lemma legacy_estimate_minimal_amsterdam_refuted :
  exists exec p r, wf_params p /\ monotone exec /\
    fst (estimate_fuel exec (fun _ _ => false)
           {| lg_ignore_hi := false; lg_after_amsterdam := true |} search_fuel p) = EstOk r /\
    succeeds exec (r - 1) = true /\
    (* the current code finds the minimum on the same input *)
    fst (estimate exec (fun _ _ => false) p) = EstOk 15000.
Proof.
  exists refute_amst_exec, refute_amst_params, 21000.
  split; [unfold wf_params; vm_compute; repeat split|].
  split.
  { intros g g' Hle. unfold succeeds, refute_amst_exec.
    destruct (g <? 15000) eqn:A; [discriminate|]. intros _.
    destruct (g' <? 15000) eqn:A'; [lia|]. reflexivity. }
  vm_compute. repeat split.
Qed.

(* (b) CURRENT CODE: "a logarithmic number of probes suffices" fails when gas limits at or
   above 2^63 are admitted: l.182 [mid > lo*2] wraps, the clamp then moves lo DOWN, and the
   search oscillates (it ends only after about 2^62 probes).  Oracle: a program that succeeds
   iff gas >= 2^64-1 (e.g. a GAS-opcode check), used = 21020. *)
Definition refute_term_params : params :=
  {| p_header_gas := 30000000; p_call_gas := 18446744073709551615; p_is_cancun := true;
     p_is_osaka := false; p_is_amsterdam := false; p_gas_fee_cap := Some 0;
     p_gas_price := Some 0; p_balance := 0; p_value := Some 0; p_nblobs := 0;
     p_blob_fee_cap := 0; p_gas_cap := 0; p_data_len := 4; p_to_nil := false;
     p_code_size := 10 |}.
Definition refute_term_exec (g : N) : exec_result :=
  if g <? 21000 then ExFailNil
  else if g <? 18446744073709551615 then ExFail (VmOther 3) else ExOk 21020 21020.

Lemma estimate_terminates_unguarded_refuted :
  exists exec p, wf_params p /\ monotone exec /\
    (forall u m, exec (p_call_gas p) = ExOk u m -> 2 <= u /\ u < W64 /\ m + CallStipend < 2 ^ 58) /\
    initial_hi p = inr (p_call_gas p) /\
    fst (estimate_fuel exec (fun _ _ => false) current 1000 p) = EstOutOfFuel.
Proof.
  exists refute_term_exec, refute_term_params.
  split; [unfold wf_params; vm_compute; repeat split|].
  split.
  { intros g g' Hle. unfold succeeds, refute_term_exec.
    destruct (g <? 21000) eqn:A; [discriminate|].
    destruct (g <? 18446744073709551615) eqn:B; [discriminate|]. intros _.
    destruct (g' <? 21000) eqn:A'; [lia|].
    destruct (g' <? 18446744073709551615) eqn:B'; [lia|]. reflexivity. }
  split.
  { intros u m.
    assert (E : refute_term_exec (p_call_gas refute_term_params) = ExOk 21020 21020) by (vm_compute; reflexivity).
    rewrite E. intros H. injection H as <- <-. vm_compute. repeat split; discriminate. }
  split; vm_compute; reflexivity.
Qed.
