(* Gas/Settle.v — proofs about the hand model Gas/SettleModel.v of settleGas /
   calcRefund: gas used never exceeds the gas limit, the sender is refunded exactly
   the rest, the refund never exceeds one fifth (from London; one half before) of the
   pre-refund usage, and the figures handed to the block gas pool satisfy the
   hypotheses of the pool theorems (Gas/Pool.v).

   Guards (all explicit in the statements): the outermost budget satisfies the frame
   invariant against the budgets (E, S) the transaction started with (that is the
   conclusion of Budget.history_conserves), gasLimit = intrinsic + E + S < 2^63
   (initRuntimeGasBudget), 0 <= floor <= gasLimit (checked in execute()), the
   refund counter is a uint64. *)
From GV Require Import Lib.Tactics Gas.GoArith Gas.Budget_gen Gas.BudgetMachine Gas.Budget Gas.SettleModel.
Local Open Scope Z_scope.

Lemma calc_refund_bound london before counter :
  0 <= before -> 0 <= counter ->
  let r := calc_refund london before counter in
  0 <= r /\ r <= counter /\ r <= before / (if london then 5 else 2) /\ r <= before.
Proof.
  intros Hb Hc. unfold calc_refund. cbn zeta.
  destruct london; [destruct (Z.ltb_spec counter (before / 5))|destruct (Z.ltb_spec counter (before / 2))]; lia.
Qed.

Theorem settle_ok E S intrinsic g gasLimit floor counter london prague :
  frame_ok E S 0 g -> 0 <= intrinsic -> gasLimit = intrinsic + E + S -> gasLimit < T63 ->
  0 <= floor <= gasLimit -> 0 <= counter < T64 ->
  exists r, settle_calc g gasLimit floor counter london prague = Some r /\
    let before := intrinsic + UE g + US g in
    (* closed forms: nothing wraps *)
    s_txState r = US g /\
    s_txExec r = Z.max (intrinsic + UE g) floor /\
    s_refund r = calc_refund london before counter /\
    (* the refund cap *)
    s_refund r <= before / (if london then 5 else 2) /\
    (* gas used never exceeds the limit; the sender gets back exactly the rest *)
    0 <= s_gasUsed r <= gasLimit /\ s_gasUsed r + s_gasLeft r = gasLimit /\ 0 <= s_gasLeft r /\
    s_gasUsed r = (if prague then Z.max (before - s_refund r) floor else before - s_refund r) /\
    s_gasUsed r <= s_peakUsed r <= gasLimit /\
    (* what the block pool is charged with *)
    0 <= s_txState r <= gasLimit /\ 0 <= s_txExec r <= gasLimit /\
    s_gasUsed r <= s_txExec r + s_txState r.
Proof.
  intros Hf Hi Hg Hl Hfl Hc. destruct g as [ex st ue us sp].
  unfold settle_calc. unfold_inv. gb_cbn.
  assert (Hus : 0 <= us) by lia.
  destruct (Z.ltb_spec us 0); [lia|].
  assert (Hw1 : u64 us = us) by wraplia.
  assert (Hw2 : u64 (ex + st) = ex + st) by wraplia.
  rewrite Hw1, Hw2.
  assert (Hw3 : u64 (gasLimit - (ex + st)) = intrinsic + ue + us) by wraplia.
  rewrite Hw3.
  destruct (Z.ltb_spec (intrinsic + ue + us) us); [lia|].
  assert (Hw4 : u64 (intrinsic + ue + us - us) = intrinsic + ue) by wraplia.
  rewrite Hw4.
  assert (Hb : 0 <= intrinsic + ue + us) by lia.
  assert (Hc0 : 0 <= counter) by lia.
  pose proof (calc_refund_bound london (intrinsic + ue + us) counter Hb Hc0) as Hr.
  cbn zeta in Hr.
  set (rf := calc_refund london (intrinsic + ue + us) counter) in *.
  assert (Hw5 : u64 (ex + st + rf) = ex + st + rf) by wraplia.
  assert (Hw6 : u64 (intrinsic + ue + us - rf) = intrinsic + ue + us - rf) by wraplia.
  rewrite Hw5, Hw6.
  destruct prague; cbn [andb].
  - destruct (Z.ltb_spec (intrinsic + ue + us - rf) floor).
    + assert (Hw7 : u64 (floor - (intrinsic + ue + us - rf)) = floor - (intrinsic + ue + us - rf)) by wraplia.
      rewrite Hw7.
      assert (Hw8 : u64 (ex + st + rf - (floor - (intrinsic + ue + us - rf))) = gasLimit - floor) by wraplia.
      rewrite Hw8.
      eexists. split; [reflexivity|]. cbn [s_txState s_txExec s_refund s_gasUsed s_gasLeft s_peakUsed]. fold rf.
      repeat split; try lia.
    + eexists. split; [reflexivity|]. cbn [s_txState s_txExec s_refund s_gasUsed s_gasLeft s_peakUsed]. fold rf.
      repeat split; try lia.
  - eexists. split; [reflexivity|]. cbn [s_txState s_txExec s_refund s_gasUsed s_gasLeft s_peakUsed]. fold rf.
    repeat split; try lia.
Qed.

(* the refund never exceeds one fifth of the pre-refund usage (EIP-3529) *)
Corollary refund_le_fifth E S intrinsic g gasLimit floor counter prague r :
  frame_ok E S 0 g -> 0 <= intrinsic -> gasLimit = intrinsic + E + S -> gasLimit < T63 ->
  0 <= floor <= gasLimit -> 0 <= counter < T64 ->
  settle_calc g gasLimit floor counter true prague = Some r ->
  5 * s_refund r <= intrinsic + UE g + US g /\ s_refund r <= counter.
Proof.
  intros Hf Hi Hg Hl Hfl Hc Hs.
  destruct (settle_ok E S intrinsic g gasLimit floor counter true prague Hf Hi Hg Hl Hfl Hc)
    as (r' & Hs' & _ & _ & Hrf & Hcap & _).
  rewrite Hs in Hs'. inversion Hs'; subst r'. cbn zeta in *.
  assert (Hb : 0 <= intrinsic + UE g + US g) by (destruct g; unfold_inv; gb_cbn; lia).
  assert (Hc0 : 0 <= counter) by lia.
  pose proof (calc_refund_bound true _ counter Hb Hc0) as Hr. cbn zeta in Hr.
  rewrite Hrf. lia.
Qed.

Corollary used_le_limit E S intrinsic g gasLimit floor counter london prague r :
  frame_ok E S 0 g -> 0 <= intrinsic -> gasLimit = intrinsic + E + S -> gasLimit < T63 ->
  0 <= floor <= gasLimit -> 0 <= counter < T64 ->
  settle_calc g gasLimit floor counter london prague = Some r ->
  0 <= s_gasUsed r <= gasLimit /\ s_gasUsed r + s_gasLeft r = gasLimit /\
  s_gasUsed r <= s_peakUsed r <= gasLimit.
Proof.
  intros Hf Hi Hg Hl Hfl Hc Hs.
  destruct (settle_ok E S intrinsic g gasLimit floor counter london prague Hf Hi Hg Hl Hfl Hc)
    as (r' & Hs' & _ & _ & _ & _ & Hu & Hsum & _ & _ & Hpk & _).
  rewrite Hs in Hs'. inversion Hs'; subst r'. auto.
Qed.
